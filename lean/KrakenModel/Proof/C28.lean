import KrakenModel.Model.RedisPeerStore
import KrakenModel.Proof.C39
/- Helper lemmas for Spec/C28 (core Lean only). -/
namespace KrakenModel.Proof.C28
open KrakenModel.RedisPeerStore KrakenModel.Codec KrakenModel.IdCodec KrakenModel.Proof.C39

/-! ### splitting and joining -/

/-- a separator after `a` ends `a`'s last part: the parts of `a ++ sep :: b` are those of `a` then those of `b` -/
theorem splitOn_append_sep (sep : Char) (a b : List Char) :
    splitOn sep (a ++ sep :: b) = splitOn sep a ++ splitOn sep b := by
  induction a with
  | nil => simp [splitOn]
  | cons c cs ih =>
    simp only [List.cons_append, splitOn]
    split
    · rw [ih]; simp
    · rw [ih]
      cases hs : splitOn sep cs with
      | nil => exact absurd hs (splitOn_ne_nil _ _)
      | cons x xs => simp

theorem joinColon_eq (x : List Char) (xs : List (List Char)) :
    joinColon (x :: xs) = x ++ xs.flatMap (fun p => ':' :: p) := by
  induction xs generalizing x with
  | nil => simp [joinColon]
  | cons y ys ih => simp [joinColon, ih y]

theorem joinColon_splitOn (s : List Char) : joinColon (splitOn ':' s) = s := by
  cases hs : splitOn ':' s with
  | nil => exact absurd hs (splitOn_ne_nil _ _)
  | cons x xs => rw [joinColon_eq]; exact splitOn_join ':' s x xs hs

theorem splitOn_length_pos (sep : Char) (s : List Char) : 1 ≤ (splitOn sep s).length := by
  cases hs : splitOn sep s with
  | nil => exact absurd hs (splitOn_ne_nil _ _)
  | cons x xs => simp

/-! ### Atoi -/

theorem dec_head_digit (n : Nat) : ∃ c cs, dec n = c :: cs ∧ c.isDigit = true := by
  cases h : dec n with
  | nil => exact absurd h (dec_ne_nil n)
  | cons c cs => exact ⟨c, cs, rfl, dec_all_digits n c (by rw [h]; simp)⟩

theorem isEmpty_dec (n : Nat) : (dec n).isEmpty = false := by
  cases h : dec n with
  | nil => exact absurd h (dec_ne_nil n)
  | cons _ _ => rfl

theorem all_digit_dec (n : Nat) : (dec n).all Char.isDigit = true :=
  List.all_eq_true.mpr (dec_all_digits n)

theorem atoi_intStr (x : Int) (h1 : -(2^63 : Int) ≤ x) (h2 : x < 2^63) : atoi (intStr x) = some x := by
  have hr : ¬ (x < -(2^63 : Int) ∨ x ≥ 2^63) := by omega
  unfold intStr
  split
  · rename_i hneg
    have hv : -((undec (dec x.natAbs) : Nat) : Int) = x := by rw [undec_dec]; omega
    simp only [atoi, atoiDigits, isEmpty_dec, all_digit_dec, Bool.not_true, Bool.false_eq_true, or_self, if_false,
      if_true, hv]
    rw [if_neg hr]
  · rename_i hpos
    obtain ⟨c, cs, hd, hc⟩ := dec_head_digit x.toNat
    have hc1 : c ≠ '-' := by intro e; subst e; simp [Char.isDigit] at hc
    have hc2 : c ≠ '+' := by intro e; subst e; simp [Char.isDigit] at hc
    have hv : ((undec (dec x.toNat) : Nat) : Int) = x := by rw [undec_dec]; omega
    have key : atoi (c :: cs) = atoiDigits false (c :: cs) := by
      unfold atoi
      split
      · rename_i heq; exact absurd (List.cons.inj heq).1 hc1
      · rename_i heq; exact absurd (List.cons.inj heq).1 hc2
      · rfl
    rw [hd, key, ← hd]
    simp only [atoiDigits, isEmpty_dec, all_digit_dec, Bool.not_true, Bool.false_eq_true, or_self, if_false, hv]
    rw [if_neg hr]

theorem intStr_no_colon (x : Int) : ':' ∉ intStr x := by
  unfold intStr
  split
  · intro hm
    rcases List.mem_cons.mp hm with h | h
    · cases h
    · have := dec_all_digits _ _ h; simp [Char.isDigit] at this
  · intro hm
    have := dec_all_digits _ _ hm; simp [Char.isDigit] at this

theorem bitStr_no_colon (b : Bool) : ':' ∉ bitStr b := by cases b <;> decide

theorem hexEncode_no_colon (bs : Bytes) (h : ∀ b ∈ bs, b < 256) : ':' ∉ hexEncode bs :=
  colon_not_mem_of_all_isHex _ (hexEncode_all_isHex bs h)

/-- the parts of a serialised peer -/
theorem splitOn_serialize (p : Peer) (hp : ∀ b ∈ p.pid, b < 256) :
    splitOn ':' (serializePeer p) = [hexEncode p.pid] ++ splitOn ':' p.ip ++ [intStr p.port, bitStr p.complete] := by
  have e : serializePeer p
      = hexEncode p.pid ++ ':' :: (p.ip ++ ':' :: (intStr p.port ++ ':' :: bitStr p.complete)) := by
    simp [serializePeer]
  rw [e, splitOn_append_sep, splitOn_of_not_mem ':' _ (hexEncode_no_colon p.pid hp), splitOn_append_sep,
    splitOn_append_sep, splitOn_of_not_mem ':' _ (intStr_no_colon _), splitOn_of_not_mem ':' _ (bitStr_no_colon _)]
  simp

/-! ### collapse -/

theorem collapse_mem (l : List (Ident × Bool)) : ∀ (acc : List (Ident × Bool)) (id : Ident) (b : Bool),
    ((id, b) ∈ acc ∨ (id, b) ∈ l) → ∃ f, (id, f) ∈ collapse l acc ∧ (b = true → f = true) := by
  induction l with
  | nil =>
    intro acc id b h
    rcases h with h | h
    · exact ⟨b, h, fun hb => hb⟩
    · cases h
  | cons x rest ih =>
    intro acc id b h
    obtain ⟨xid, xb⟩ := x
    simp only [collapse]
    split
    · rename_i hany
      -- xid already selected: its flag is or-ed
      rcases h with h | h
      · by_cases he : id = xid
        · subst he
          exact ih _ id (b || xb) (Or.inl (List.mem_map.mpr ⟨(id, b), h, by simp⟩)) |>.imp
            fun f ⟨hm, hf⟩ => ⟨hm, fun hb => hf (by simp [hb])⟩
        · exact ih _ id b (Or.inl (List.mem_map.mpr ⟨(id, b), h, by simp [he]⟩))
      · rcases List.mem_cons.mp h with h | h
        · cases h
          obtain ⟨y, hy, hyid⟩ := List.any_eq_true.mp hany
          simp only [decide_eq_true_eq] at hyid
          obtain ⟨yid, yb⟩ := y
          simp only at hyid; subst hyid
          exact ih _ yid (yb || b) (Or.inl (List.mem_map.mpr ⟨(yid, yb), hy, by simp⟩)) |>.imp
            fun f ⟨hm, hf⟩ => ⟨hm, fun hb => hf (by simp [hb])⟩
        · exact ih _ id b (Or.inr h)
    · rcases h with h | h
      · exact ih _ id b (Or.inl (List.mem_append.mpr (Or.inl h)))
      · rcases List.mem_cons.mp h with h | h
        · cases h; exact ih _ id b (Or.inl (List.mem_append.mpr (Or.inr (by simp))))
        · exact ih _ id b (Or.inr h)

theorem collapse_true_src (l : List (Ident × Bool)) : ∀ (acc : List (Ident × Bool)) (id : Ident),
    (id, true) ∈ collapse l acc → (id, true) ∈ acc ∨ (id, true) ∈ l := by
  induction l with
  | nil => intro acc id h; exact Or.inl h
  | cons x rest ih =>
    intro acc id h
    obtain ⟨xid, xb⟩ := x
    simp only [collapse] at h
    split at h
    · rcases ih _ id h with h' | h'
      · obtain ⟨y, hy, hyeq⟩ := List.mem_map.mp h'
        obtain ⟨yid, yb⟩ := y
        by_cases he : yid = xid
        · simp only [he, if_true, Prod.mk.injEq] at hyeq
          obtain ⟨h1, h2⟩ := hyeq
          subst h1
          cases hyb : yb
          · simp only [hyb, Bool.false_or] at h2; subst h2; exact Or.inr (by simp)
          · subst he; rw [hyb] at hy; exact Or.inl hy
        · simp only [he, if_false, Prod.mk.injEq] at hyeq
          obtain ⟨h1, h2⟩ := hyeq
          subst h1; subst h2; exact Or.inl hy
      · exact Or.inr (List.mem_cons_of_mem _ h')
    · rcases ih _ id h with h' | h'
      · rcases List.mem_append.mp h' with h'' | h''
        · exact Or.inl h''
        · simp only [List.mem_singleton, Prod.mk.injEq] at h''
          obtain ⟨h1, h2⟩ := h''
          subst h1; subst h2; exact Or.inr (by simp)
      · exact Or.inr (List.mem_cons_of_mem _ h')

/-- every identity is handed out at most once -/
theorem collapse_nodup (l : List (Ident × Bool)) : ∀ (acc : List (Ident × Bool)),
    (acc.map (·.1)).Nodup → ((collapse l acc).map (·.1)).Nodup := by
  induction l with
  | nil => intro acc h; exact h
  | cons x rest ih =>
    intro acc h
    obtain ⟨xid, xb⟩ := x
    simp only [collapse]
    split
    · apply ih
      have : (acc.map fun y => if y.1 = xid then (y.1, y.2 || xb) else y).map (·.1) = acc.map (·.1) := by
        rw [List.map_map]; apply List.map_congr_left; intro y _; simp only [Function.comp]; split <;> rfl
      rw [this]; exact h
    · rename_i hany
      apply ih
      rw [List.map_append, List.nodup_append]
      refine ⟨h, by simp, ?_⟩
      intro a ha b hb
      simp only [List.map_cons, List.map_nil, List.mem_singleton] at hb
      subst hb
      intro e; subst e
      apply hany
      obtain ⟨y, hy, hye⟩ := List.mem_map.mp ha
      exact List.any_eq_true.mpr ⟨y, hy, by simp [hye]⟩

/-! ### windows -/

theorem curWindow_eq (c : Cfg) (t : Nat) : curWindow c t = c.size * (t / c.size) := by
  unfold curWindow
  have := Nat.div_add_mod t c.size
  omega

theorem curWindow_le (c : Cfg) (t : Nat) : curWindow c t ≤ t := by unfold curWindow; omega

theorem now_lt_expireAt_cur (c : Cfg) (hs : 1 ≤ c.size) (hm : 1 ≤ c.maxWindows) (t : Nat) :
    t < expireAt c (curWindow c t) := by
  unfold expireAt curWindow
  have h1 : t % c.size < c.size := Nat.mod_lt _ (by omega)
  have h2 : c.size ≤ c.size * c.maxWindows := Nat.le_mul_of_pos_right _ (by omega)
  omega

/-- a window is still queried as long as the clock has not reached its expiry time -/
theorem queried_of_lt_expire (c : Cfg) (t0 t : Nat) (hle : t0 ≤ t)
    (hlt : t < expireAt c (curWindow c t0)) : queried c t (curWindow c t0) = true := by
  unfold queried
  rw [List.any_eq_true]
  have hq : t0 / c.size ≤ t / c.size := Nat.div_le_div_right hle
  have hcw : curWindow c t ≤ t := curWindow_le c t
  rw [curWindow_eq] at hcw
  unfold expireAt at hlt
  rw [curWindow_eq] at hlt
  have h3 : c.size * (t / c.size) < c.size * (t0 / c.size + c.maxWindows) := by rw [Nat.mul_add]; omega
  have h4 : t / c.size < t0 / c.size + c.maxWindows := Nat.lt_of_mul_lt_mul_left h3
  refine ⟨t / c.size - t0 / c.size, List.mem_range.mpr (by omega), ?_⟩
  simp only [decide_eq_true_eq, curWindow_eq]
  have h5 : c.size * (t / c.size) = c.size * (t0 / c.size) + (t / c.size - t0 / c.size) * c.size := by
    rw [Nat.mul_comm (t / c.size - t0 / c.size), ← Nat.mul_add]; congr 1; omega
  have : ((c.size * (t / c.size) : Nat) : Int) = ((c.size * (t0 / c.size) : Nat) : Int) + (((t / c.size - t0 / c.size) * c.size : Nat) : Int) := by
    rw [← Int.natCast_add, ← h5]
  rw [this, Int.natCast_mul (t / c.size - t0 / c.size) c.size]
  omega

/-! ### persistence of a member until its window expires -/

theorem mem_expire {c : Cfg} {now : Nat} {es : List Entry} {e : Entry} (h : e ∈ es)
    (hl : now < expireAt c e.window) : e ∈ expire c now es := by
  unfold expire
  exact List.mem_filter.mpr ⟨h, by simpa using hl⟩

theorem mem_insertEntry (e x : Entry) (es : List Entry) (h : x ∈ es ∨ x = e) : x ∈ insertEntry e es := by
  unfold insertEntry
  split
  · rcases h with h | h
    · exact h
    · subst h; assumption
  · rcases h with h | h
    · exact List.mem_append.mpr (Or.inl h)
    · subst h; simp

def runFrom (c : Cfg) (s : State) (ops : List Op) : State := ops.foldl (step c) s

theorem now_mono (c : Cfg) (ops : List Op) : ∀ s, s.now ≤ (runFrom c s ops).now := by
  induction ops with
  | nil => intro s; exact Nat.le_refl _
  | cons o rest ih =>
    intro s
    have := ih (step c s o)
    simp only [runFrom, List.foldl_cons] at this ⊢
    cases o with
    | tick d => simp only [step] at this ⊢; omega
    | update h p => simp only [step] at this ⊢; exact this

theorem step_now_ge (c : Cfg) (s : State) (o : Op) : s.now ≤ (step c s o).now := by
  cases o with
  | tick d => simp only [step]; omega
  | update h p => simp only [step]; exact Nat.le_refl _

theorem persists (c : Cfg) (e : Entry) (ops : List Op) : ∀ s, e ∈ s.entries →
    (runFrom c s ops).now < expireAt c e.window → e ∈ (runFrom c s ops).entries := by
  induction ops with
  | nil => intro s h _; exact h
  | cons o rest ih =>
    intro s h hl
    have hm : (step c s o).now ≤ (runFrom c (step c s o) rest).now := now_mono c rest (step c s o)
    have e1 : runFrom c s (o :: rest) = runFrom c (step c s o) rest := rfl
    rw [e1] at hl ⊢
    apply ih (step c s o) _ hl
    have hlt : (step c s o).now < expireAt c e.window := Nat.lt_of_le_of_lt hm hl
    cases o with
    | tick d =>
      simp only [step] at hlt ⊢
      exact mem_expire h hlt
    | update h' p =>
      simp only [step] at hlt ⊢
      exact mem_expire (mem_insertEntry _ _ _ (Or.inl h)) hlt

/-! ### sampling -/

theorem collapse_length_le (l : List (Ident × Bool)) : ∀ (acc : List (Ident × Bool)),
    acc.length ≤ (collapse l acc).length ∧ (collapse l acc).length ≤ acc.length + l.length := by
  induction l with
  | nil => intro acc; simp [collapse]
  | cons x rest ih =>
    intro acc
    obtain ⟨xid, xb⟩ := x
    simp only [collapse]
    split
    · have := ih (acc.map fun y => if y.1 = xid then (y.1, y.2 || xb) else y)
      simp only [List.length_map, List.length_cons] at this ⊢
      omega
    · have := ih (acc ++ [(xid, xb)])
      simp only [List.length_append, List.length_cons, List.length_nil] at this ⊢
      omega

/-- identities selected so far stay selected, and every decoded identity of the fold is selected -/
theorem collapse_ids (l : List (Ident × Bool)) : ∀ (acc : List (Ident × Bool)) (id : Ident),
    id ∈ (collapse l acc).map (·.1) ↔ (id ∈ acc.map (·.1) ∨ id ∈ l.map (·.1)) := by
  induction l with
  | nil => intro acc id; simp [collapse]
  | cons x rest ih =>
    intro acc id
    obtain ⟨xid, xb⟩ := x
    simp only [collapse]
    split
    · rename_i hany
      rw [ih]
      have hm : (acc.map fun y => if y.1 = xid then (y.1, y.2 || xb) else y).map (·.1) = acc.map (·.1) := by
        rw [List.map_map]; apply List.map_congr_left; intro y _; simp only [Function.comp]; split <;> rfl
      rw [hm]
      have hx : xid ∈ acc.map (·.1) := by
        obtain ⟨y, hy, hye⟩ := List.any_eq_true.mp hany
        exact List.mem_map.mpr ⟨y, hy, by simpa using hye⟩
      simp only [List.map_cons, List.mem_cons]
      constructor
      · rintro (h | h)
        · exact Or.inl h
        · exact Or.inr (Or.inr h)
      · rintro (h | h | h)
        · exact Or.inl h
        · subst h; exact Or.inl hx
        · exact Or.inr h
    · rw [ih]
      simp only [List.map_append, List.map_cons, List.map_nil, List.mem_append, List.mem_cons, List.not_mem_nil, or_false]
      constructor
      · rintro ((h | h) | h)
        · exact Or.inl h
        · exact Or.inr (Or.inl h)
        · exact Or.inr (Or.inr h)
      · rintro (h | h | h)
        · exact Or.inl (Or.inl h)
        · exact Or.inl (Or.inr h)
        · exact Or.inr h

theorem decodeAll_length_le (ms : List (List Char)) : (decodeAll ms).length ≤ ms.length := by
  unfold decodeAll; exact List.length_filterMap_le _ _

theorem visit_length (sel : List (Ident × Bool)) (picks : List (List Char)) :
    sel.length ≤ (visit sel picks).length ∧ (visit sel picks).length ≤ sel.length + picks.length := by
  unfold visit
  have := collapse_length_le (decodeAll picks) sel
  have := decodeAll_length_le picks
  omega

theorem sampleFrom_mono (visits : List (Nat × List (List Char))) : ∀ (sel : List (Ident × Bool)) (id : Ident),
    id ∈ sel.map (·.1) → id ∈ (sampleFrom sel visits).map (·.1) := by
  induction visits with
  | nil => intro sel id h; exact h
  | cons v rest ih =>
    intro sel id h
    simp only [sampleFrom, List.foldl_cons]
    apply ih
    unfold visit
    exact (collapse_ids _ _ _).mpr (Or.inl h)

/-- at most n identities -/
theorem sampleFrom_le (c : Cfg) (s : State) (h : Bytes) (n : Nat) (visits : List (Nat × List (List Char))) :
    ∀ (sel : List (Ident × Bool)) (visited : List Nat), sel.length ≤ n → ValidFrom c s h n sel visited visits →
      (sampleFrom sel visits).length ≤ n := by
  induction visits with
  | nil => intro sel _ hl _; exact hl
  | cons v rest ih =>
    intro sel visited hl hv
    obtain ⟨w, picks⟩ := v
    obtain ⟨h1, _, _, _, _, h6, h7⟩ := hv
    simp only [sampleFrom, List.foldl_cons]
    apply ih (visit sel picks) (w :: visited) _ h7
    have := (visit_length sel picks).2
    have : picks.length ≤ n - sel.length := by rw [h6]; exact Nat.min_le_left _ _
    omega

/-- every selected identity decodes from a member of a queried window -/
theorem sampleFrom_src (c : Cfg) (s : State) (h : Bytes) (n : Nat) (visits : List (Nat × List (List Char))) :
    ∀ (sel : List (Ident × Bool)) (visited : List Nat), ValidFrom c s h n sel visited visits →
      ∀ id, id ∈ (sampleFrom sel visits).map (·.1) →
        id ∈ sel.map (·.1) ∨ ∃ w m b, queried c s.now w = true ∧ m ∈ members s h w ∧ deserializePeer m = .ok (id, b) := by
  induction visits with
  | nil => intro sel _ _ id hid; exact Or.inl hid
  | cons v rest ih =>
    intro sel visited hv id hid
    obtain ⟨w, picks⟩ := v
    obtain ⟨_, h2, _, _, h5, _, h7⟩ := hv
    simp only [sampleFrom, List.foldl_cons] at hid
    rcases ih (visit sel picks) (w :: visited) h7 id hid with h' | h'
    · unfold visit at h'
      rcases (collapse_ids _ _ _).mp h' with h'' | h''
      · exact Or.inl h''
      · right
        obtain ⟨x, hx, hxid⟩ := List.mem_map.mp h''
        unfold decodeAll at hx
        obtain ⟨m, hm, hdm⟩ := List.mem_filterMap.mp hx
        obtain ⟨xi, xb⟩ := x
        simp only at hxid; subst hxid
        refine ⟨w, m, xb, h2, h5 m hm, ?_⟩
        split at hdm
        · rename_i r hr; cases hdm; exact hr
        · cases hdm
    · exact Or.inr h'

/-- the answer is not empty when some queried window holds (only decodable) members and n ≥ 1 -/
theorem sampleFrom_nonempty (c : Cfg) (s : State) (h : Bytes) (n : Nat) (hn : 1 ≤ n) (w0 : Nat)
    (hq : queried c s.now w0 = true) (hne : members s h w0 ≠ [])
    (hdec : ∀ m, m ∈ members s h w0 → ∃ r, deserializePeer m = .ok r)
    (visits : List (Nat × List (List Char))) :
    ∀ (sel : List (Ident × Bool)) (visited : List Nat), ValidFrom c s h n sel visited visits →
      (sel ≠ [] ∨ w0 ∉ visited) → sampleFrom sel visits ≠ [] := by
  induction visits with
  | nil =>
    intro sel visited hv hor
    simp only [sampleFrom, List.foldl_nil]
    rcases hor with h1 | h1
    · exact h1
    · rcases hv with h2 | h2
      · intro e; rw [e] at h2; simp at h2; omega
      · rcases h2 w0 hq with h3 | h3
        · exact absurd h3 h1
        · exact absurd h3 hne
  | cons v rest ih =>
    intro sel visited hv hor
    obtain ⟨w, picks⟩ := v
    obtain ⟨h1, _, h3, _, h5, h6, h7⟩ := hv
    simp only [sampleFrom, List.foldl_cons]
    apply ih (visit sel picks) (w :: visited) h7
    by_cases hs : sel = []
    · subst hs
      by_cases hw : w = w0
      · subst hw
        left
        -- at least one member is drawn and it decodes
        have hpos : 0 < picks.length := by
          rw [h6]
          have : 0 < (members s h w).length := List.length_pos_iff.mpr hne
          simp only [List.length_nil, Nat.sub_zero]
          omega
        obtain ⟨m, hm⟩ := List.exists_mem_of_length_pos hpos
        obtain ⟨r, hr⟩ := hdec m (h5 m hm)
        have : r ∈ decodeAll picks := by
          unfold decodeAll
          exact List.mem_filterMap.mpr ⟨m, hm, by rw [hr]⟩
        intro e
        have hid : r.1 ∈ (visit [] picks).map (·.1) := by
          unfold visit
          exact (collapse_ids _ _ _).mpr (Or.inr (List.mem_map.mpr ⟨r, this, rfl⟩))
        rw [e] at hid; simp at hid
      · right
        rcases hor with h' | h'
        · exact absurd rfl h'
        · simp only [List.mem_cons, not_or]; exact ⟨fun e => hw e.symm, h'⟩
    · left
      intro e
      have := (visit_length sel picks).1
      rw [e] at this
      simp at this
      exact hs this

end KrakenModel.Proof.C28
