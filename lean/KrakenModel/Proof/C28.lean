import KrakenModel.Model.RedisPeerStore
import KrakenModel.Proof.C39
/- Helper lemmas for Spec/C28 (core Lean only). -/
namespace KrakenModel.Proof.C28
open KrakenModel.RedisPeerStore KrakenModel.Codec KrakenModel.IdCodec KrakenModel.Proof.C39

/-! ### splitting and joining -/

/-- a separator after `a` ends `a`'s last part: the parts of `a ++ sep :: b` are those of `a` then those of `b` -/
theorem splitOn_append_sep (sep : Char) (a b : List Char) :
    splitOn sep (a ++ sep :: b) = splitOn sep a ++ splitOn sep b := by
  induction a with
  | nil => simp [splitOn]
  | cons c cs ih =>
    simp only [List.cons_append, splitOn]
    split
    · rw [ih]; simp
    · rw [ih]
      cases hs : splitOn sep cs with
      | nil => exact absurd hs (splitOn_ne_nil _ _)
      | cons x xs => simp

theorem joinColon_eq (x : List Char) (xs : List (List Char)) :
    joinColon (x :: xs) = x ++ xs.flatMap (fun p => ':' :: p) := by
  induction xs generalizing x with
  | nil => simp [joinColon]
  | cons y ys ih => simp [joinColon, ih y]

theorem joinColon_splitOn (s : List Char) : joinColon (splitOn ':' s) = s := by
  cases hs : splitOn ':' s with
  | nil => exact absurd hs (splitOn_ne_nil _ _)
  | cons x xs => rw [joinColon_eq]; exact splitOn_join ':' s x xs hs

theorem splitOn_length_pos (sep : Char) (s : List Char) : 1 ≤ (splitOn sep s).length := by
  cases hs : splitOn sep s with
  | nil => exact absurd hs (splitOn_ne_nil _ _)
  | cons x xs => simp

/-! ### Atoi -/

theorem dec_head_digit (n : Nat) : ∃ c cs, dec n = c :: cs ∧ c.isDigit = true := by
  cases h : dec n with
  | nil => exact absurd h (dec_ne_nil n)
  | cons c cs => exact ⟨c, cs, rfl, dec_all_digits n c (by rw [h]; simp)⟩

theorem isEmpty_dec (n : Nat) : (dec n).isEmpty = false := by
  cases h : dec n with
  | nil => exact absurd h (dec_ne_nil n)
  | cons _ _ => rfl

theorem all_digit_dec (n : Nat) : (dec n).all Char.isDigit = true :=
  List.all_eq_true.mpr (dec_all_digits n)

theorem atoi_intStr (x : Int) (h1 : -(2^63 : Int) ≤ x) (h2 : x < 2^63) : atoi (intStr x) = some x := by
  have hr : ¬ (x < -(2^63 : Int) ∨ x ≥ 2^63) := by omega
  unfold intStr
  split
  · rename_i hneg
    have hv : -((undec (dec x.natAbs) : Nat) : Int) = x := by rw [undec_dec]; omega
    simp only [atoi, atoiDigits, isEmpty_dec, all_digit_dec, Bool.not_true, Bool.false_eq_true, or_self, if_false,
      if_true, hv]
    rw [if_neg hr]
  · rename_i hpos
    obtain ⟨c, cs, hd, hc⟩ := dec_head_digit x.toNat
    have hc1 : c ≠ '-' := by intro e; subst e; simp [Char.isDigit] at hc
    have hc2 : c ≠ '+' := by intro e; subst e; simp [Char.isDigit] at hc
    have hv : ((undec (dec x.toNat) : Nat) : Int) = x := by rw [undec_dec]; omega
    have key : atoi (c :: cs) = atoiDigits false (c :: cs) := by
      unfold atoi
      split
      · rename_i heq; exact absurd (List.cons.inj heq).1 hc1
      · rename_i heq; exact absurd (List.cons.inj heq).1 hc2
      · rfl
    rw [hd, key, ← hd]
    simp only [atoiDigits, isEmpty_dec, all_digit_dec, Bool.not_true, Bool.false_eq_true, or_self, if_false, hv]
    rw [if_neg hr]

theorem intStr_no_colon (x : Int) : ':' ∉ intStr x := by
  unfold intStr
  split
  · intro hm
    rcases List.mem_cons.mp hm with h | h
    · cases h
    · have := dec_all_digits _ _ h; simp [Char.isDigit] at this
  · intro hm
    have := dec_all_digits _ _ hm; simp [Char.isDigit] at this

theorem bitStr_no_colon (b : Bool) : ':' ∉ bitStr b := by cases b <;> decide

theorem hexEncode_no_colon (bs : Bytes) (h : ∀ b ∈ bs, b < 256) : ':' ∉ hexEncode bs :=
  colon_not_mem_of_all_isHex _ (hexEncode_all_isHex bs h)

/-- the parts of a serialised peer -/
theorem splitOn_serialize (p : Peer) (hp : ∀ b ∈ p.pid, b < 256) :
    splitOn ':' (serializePeer p) = [hexEncode p.pid] ++ splitOn ':' p.ip ++ [intStr p.port, bitStr p.complete] := by
  have e : serializePeer p
      = hexEncode p.pid ++ ':' :: (p.ip ++ ':' :: (intStr p.port ++ ':' :: bitStr p.complete)) := by
    simp [serializePeer]
  rw [e, splitOn_append_sep, splitOn_of_not_mem ':' _ (hexEncode_no_colon p.pid hp), splitOn_append_sep,
    splitOn_append_sep, splitOn_of_not_mem ':' _ (intStr_no_colon _), splitOn_of_not_mem ':' _ (bitStr_no_colon _)]
  simp

/-! ### collapse -/

theorem collapse_mem (l : List (Ident × Bool)) : ∀ (acc : List (Ident × Bool)) (id : Ident) (b : Bool),
    ((id, b) ∈ acc ∨ (id, b) ∈ l) → ∃ f, (id, f) ∈ collapse l acc ∧ (b = true → f = true) := by
  induction l with
  | nil =>
    intro acc id b h
    rcases h with h | h
    · exact ⟨b, h, fun hb => hb⟩
    · cases h
  | cons x rest ih =>
    intro acc id b h
    obtain ⟨xid, xb⟩ := x
    simp only [collapse]
    split
    · rename_i hany
      -- xid already selected: its flag is or-ed
      rcases h with h | h
      · by_cases he : id = xid
        · subst he
          exact ih _ id (b || xb) (Or.inl (List.mem_map.mpr ⟨(id, b), h, by simp⟩)) |>.imp
            fun f ⟨hm, hf⟩ => ⟨hm, fun hb => hf (by simp [hb])⟩
        · exact ih _ id b (Or.inl (List.mem_map.mpr ⟨(id, b), h, by simp [he]⟩))
      · rcases List.mem_cons.mp h with h | h
        · cases h
          obtain ⟨y, hy, hyid⟩ := List.any_eq_true.mp hany
          simp only [decide_eq_true_eq] at hyid
          obtain ⟨yid, yb⟩ := y
          simp only at hyid; subst hyid
          exact ih _ yid (yb || b) (Or.inl (List.mem_map.mpr ⟨(yid, yb), hy, by simp⟩)) |>.imp
            fun f ⟨hm, hf⟩ => ⟨hm, fun hb => hf (by simp [hb])⟩
        · exact ih _ id b (Or.inr h)
    · rcases h with h | h
      · exact ih _ id b (Or.inl (List.mem_append.mpr (Or.inl h)))
      · rcases List.mem_cons.mp h with h | h
        · cases h; exact ih _ id b (Or.inl (List.mem_append.mpr (Or.inr (by simp))))
        · exact ih _ id b (Or.inr h)

theorem collapse_true_src (l : List (Ident × Bool)) : ∀ (acc : List (Ident × Bool)) (id : Ident),
    (id, true) ∈ collapse l acc → (id, true) ∈ acc ∨ (id, true) ∈ l := by
  induction l with
  | nil => intro acc id h; exact Or.inl h
  | cons x rest ih =>
    intro acc id h
    obtain ⟨xid, xb⟩ := x
    simp only [collapse] at h
    split at h
    · rcases ih _ id h with h' | h'
      · obtain ⟨y, hy, hyeq⟩ := List.mem_map.mp h'
        obtain ⟨yid, yb⟩ := y
        by_cases he : yid = xid
        · simp only [he, if_true, Prod.mk.injEq] at hyeq
          obtain ⟨h1, h2⟩ := hyeq
          subst h1
          cases hyb : yb
          · simp only [hyb, Bool.false_or] at h2; subst h2; exact Or.inr (by simp)
          · subst he; rw [hyb] at hy; exact Or.inl hy
        · simp only [he, if_false, Prod.mk.injEq] at hyeq
          obtain ⟨h1, h2⟩ := hyeq
          subst h1; subst h2; exact Or.inl hy
      · exact Or.inr (List.mem_cons_of_mem _ h')
    · rcases ih _ id h with h' | h'
      · rcases List.mem_append.mp h' with h'' | h''
        · exact Or.inl h''
        · simp only [List.mem_singleton, Prod.mk.injEq] at h''
          obtain ⟨h1, h2⟩ := h''
          subst h1; subst h2; exact Or.inr (by simp)
      · exact Or.inr (List.mem_cons_of_mem _ h')

/-- every identity is handed out at most once -/
theorem collapse_nodup (l : List (Ident × Bool)) : ∀ (acc : List (Ident × Bool)),
    (acc.map (·.1)).Nodup → ((collapse l acc).map (·.1)).Nodup := by
  induction l with
  | nil => intro acc h; exact h
  | cons x rest ih =>
    intro acc h
    obtain ⟨xid, xb⟩ := x
    simp only [collapse]
    split
    · apply ih
      have : (acc.map fun y => if y.1 = xid then (y.1, y.2 || xb) else y).map (·.1) = acc.map (·.1) := by
        rw [List.map_map]; apply List.map_congr_left; intro y _; simp only [Function.comp]; split <;> rfl
      rw [this]; exact h
    · rename_i hany
      apply ih
      rw [List.map_append, List.nodup_append]
      refine ⟨h, by simp, ?_⟩
      intro a ha b hb
      simp only [List.map_cons, List.map_nil, List.mem_singleton] at hb
      subst hb
      intro e; subst e
      apply hany
      obtain ⟨y, hy, hye⟩ := List.mem_map.mp ha
      exact List.any_eq_true.mpr ⟨y, hy, by simp [hye]⟩

/-! ### windows -/

theorem curWindow_eq (c : Cfg) (t : Nat) : curWindow c t = c.size * (t / c.size) := by
  unfold curWindow
  have := Nat.div_add_mod t c.size
  omega

theorem curWindow_le (c : Cfg) (t : Nat) : curWindow c t ≤ t := by unfold curWindow; omega

theorem now_lt_expireAt_cur (c : Cfg) (hs : 1 ≤ c.size) (hm : 1 ≤ c.maxWindows) (t : Nat) :
    t < expireAt c (curWindow c t) := by
  unfold expireAt curWindow
  have h1 : t % c.size < c.size := Nat.mod_lt _ (by omega)
  have h2 : c.size ≤ c.size * c.maxWindows := Nat.le_mul_of_pos_right _ (by omega)
  omega

/-- a window is still queried as long as the clock has not reached its expiry time -/
theorem queried_of_lt_expire (c : Cfg) (t0 t : Nat) (hle : t0 ≤ t)
    (hlt : t < expireAt c (curWindow c t0)) : queried c t (curWindow c t0) = true := by
  unfold queried
  rw [List.any_eq_true]
  have hq : t0 / c.size ≤ t / c.size := Nat.div_le_div_right hle
  have hcw : curWindow c t ≤ t := curWindow_le c t
  rw [curWindow_eq] at hcw
  unfold expireAt at hlt
  rw [curWindow_eq] at hlt
  have h3 : c.size * (t / c.size) < c.size * (t0 / c.size + c.maxWindows) := by rw [Nat.mul_add]; omega
  have h4 : t / c.size < t0 / c.size + c.maxWindows := Nat.lt_of_mul_lt_mul_left h3
  refine ⟨t / c.size - t0 / c.size, List.mem_range.mpr (by omega), ?_⟩
  simp only [decide_eq_true_eq, curWindow_eq]
  have h5 : c.size * (t / c.size) = c.size * (t0 / c.size) + (t / c.size - t0 / c.size) * c.size := by
    rw [Nat.mul_comm (t / c.size - t0 / c.size), ← Nat.mul_add]; congr 1; omega
  have : ((c.size * (t / c.size) : Nat) : Int) = ((c.size * (t0 / c.size) : Nat) : Int) + (((t / c.size - t0 / c.size) * c.size : Nat) : Int) := by
    rw [← Int.natCast_add, ← h5]
  rw [this, Int.natCast_mul (t / c.size - t0 / c.size) c.size]
  omega

/-! ### persistence of a member until its window expires -/

theorem mem_expire {c : Cfg} {now : Nat} {es : List Entry} {e : Entry} (h : e ∈ es)
    (hl : now < expireAt c e.window) : e ∈ expire c now es := by
  unfold expire
  exact List.mem_filter.mpr ⟨h, by simpa using hl⟩

theorem mem_insertEntry (e x : Entry) (es : List Entry) (h : x ∈ es ∨ x = e) : x ∈ insertEntry e es := by
  unfold insertEntry
  split
  · rcases h with h | h
    · exact h
    · subst h; assumption
  · rcases h with h | h
    · exact List.mem_append.mpr (Or.inl h)
    · subst h; simp

def runFrom (c : Cfg) (s : State) (ops : List Op) : State := ops.foldl (step c) s

theorem now_mono (c : Cfg) (ops : List Op) : ∀ s, s.now ≤ (runFrom c s ops).now := by
  induction ops with
  | nil => intro s; exact Nat.le_refl _
  | cons o rest ih =>
    intro s
    have := ih (step c s o)
    simp only [runFrom, List.foldl_cons] at this ⊢
    cases o with
    | tick d => simp only [step] at this ⊢; omega
    | update h p => simp only [step] at this ⊢; exact this

theorem step_now_ge (c : Cfg) (s : State) (o : Op) : s.now ≤ (step c s o).now := by
  cases o with
  | tick d => simp only [step]; omega
  | update h p => simp only [step]; exact Nat.le_refl _

theorem persists (c : Cfg) (e : Entry) (ops : List Op) : ∀ s, e ∈ s.entries →
    (runFrom c s ops).now < expireAt c e.window → e ∈ (runFrom c s ops).entries := by
  induction ops with
  | nil => intro s h _; exact h
  | cons o rest ih =>
    intro s h hl
    have hm : (step c s o).now ≤ (runFrom c (step c s o) rest).now := now_mono c rest (step c s o)
    have e1 : runFrom c s (o :: rest) = runFrom c (step c s o) rest := rfl
    rw [e1] at hl ⊢
    apply ih (step c s o) _ hl
    have hlt : (step c s o).now < expireAt c e.window := Nat.lt_of_le_of_lt hm hl
    cases o with
    | tick d =>
      simp only [step] at hlt ⊢
      exact mem_expire h hlt
    | update h' p =>
      simp only [step] at hlt ⊢
      exact mem_expire (mem_insertEntry _ _ _ (Or.inl h)) hlt

end KrakenModel.Proof.C28
