import KrakenModel.Model.NamePath
/- Matching lemmas for Spec/C36: prefixes, last occurrences, the greedy groups (core Lean only). -/
namespace KrakenModel.Proof.C36
open KrakenModel.NamePath KrakenModel.Codec

theorem isPrefixOf_append (p r : List Char) : isPrefixOf p (p ++ r) = true := by
  induction p with
  | nil => rfl
  | cons a as ih => simp [isPrefixOf, ih]

theorem isPrefixOf_length_le : ∀ (p s : List Char), isPrefixOf p s = true → p.length ≤ s.length
  | [], _, _ => by simp
  | _ :: _, [], h => by simp [isPrefixOf] at h
  | a :: as, c :: cs, h => by
    simp only [isPrefixOf, Bool.and_eq_true] at h
    have := isPrefixOf_length_le as cs h.2
    simp only [List.length_cons]; omega

theorem isPrefixOf_eq_append : ∀ (p s : List Char), isPrefixOf p s = true → s = p ++ s.drop p.length
  | [], _, _ => by simp
  | _ :: _, [], h => by simp [isPrefixOf] at h
  | a :: as, c :: cs, h => by
    simp only [isPrefixOf, Bool.and_eq_true, beq_iff_eq] at h
    have := isPrefixOf_eq_append as cs h.2
    simp only [List.length_cons, List.drop_succ_cons, List.cons_append]
    rw [← this, h.1]

theorem isPrefixOf_take2 (a b : Char) (p s : List Char) (h : isPrefixOf (a :: b :: p) s = true) :
    s.take 2 = [a, b] := by
  match s, h with
  | [], h => simp [isPrefixOf] at h
  | [c], h => simp [isPrefixOf] at h
  | c :: d :: rest, h =>
    simp only [isPrefixOf, Bool.and_eq_true, beq_iff_eq] at h
    simp [h.1, h.2.1]

theorem isPrefixOf_head (a : Char) (p s : List Char) (h : isPrefixOf (a :: p) s = true) : s.head? = some a := by
  match s, h with
  | [], h => simp [isPrefixOf] at h
  | c :: rest, h =>
    simp only [isPrefixOf, Bool.and_eq_true, beq_iff_eq] at h
    simp [h.1]

/-- a literal with a '/' at index `i` is not a prefix of `t ++ y` when `t` (longer than `i`) has no '/' -/
theorem isPrefixOf_false_of_slash : ∀ (p t y : List Char) (i : Nat), i < t.length → p[i]? = some '/' → '/' ∉ t →
    isPrefixOf p (t ++ y) = false
  | [], _, _, _, _, hp, _ => by simp at hp
  | _ :: _, [], _, _, hi, _, _ => by simp at hi
  | a :: as, c :: cs, y, 0, _, hp, ht => by
    simp only [List.getElem?_cons_zero, Option.some.injEq] at hp
    subst hp
    have : c ≠ '/' := fun e => ht (by simp [e])
    simp only [List.cons_append, isPrefixOf, Bool.and_eq_false_iff, beq_eq_false_iff_ne, ne_eq]
    exact Or.inl (fun e => this e.symm)
  | a :: as, c :: cs, y, i + 1, hi, hp, ht => by
    simp only [List.getElem?_cons_succ] at hp
    simp only [List.length_cons] at hi
    have := isPrefixOf_false_of_slash as cs y i (by omega) hp (fun m => ht (by simp [m]))
    simp [isPrefixOf, this]

/-! ### last occurrence -/

theorem lastFrom_eq_some (lit s : List Char) : ∀ (n k : Nat), k ≤ n → isPrefixOf lit (s.drop k) = true →
    (∀ j, k < j → j ≤ n → isPrefixOf lit (s.drop j) = false) → lastFrom lit s n = some k := by
  intro n
  induction n with
  | zero =>
    intro k hk hp _
    have : k = 0 := by omega
    subst this
    simp only [List.drop_zero] at hp
    simp [lastFrom, hp]
  | succ n ih =>
    intro k hk hp hno
    by_cases he : k = n + 1
    · subst he; simp [lastFrom, hp]
    · have hf := hno (n + 1) (by omega) (by omega)
      simp only [lastFrom, hf, Bool.false_eq_true, if_false]
      exact ih k (by omega) hp (fun j h1 h2 => hno j h1 (by omega))

/-- a literal at the very end of `x ++ lit` is its last occurrence -/
theorem lastFrom_end (lit x : List Char) (_hl : lit ≠ []) :
    lastFrom lit (x ++ lit) (x ++ lit).length = some x.length := by
  apply lastFrom_eq_some
  · simp
  · simpa using isPrefixOf_append lit []
  · intro j h1 h2
    cases hb : isPrefixOf lit ((x ++ lit).drop j) with
    | false => rfl
    | true =>
      have := isPrefixOf_length_le _ _ hb
      simp only [List.length_drop, List.length_append] at this h2
      omega

theorem firstSuffix_of_some {α : Type} (f : List Char → Option α) (s : List Char) (r : α) (h : f s = some r) :
    firstSuffix f s = some r := by
  cases s with
  | nil => simpa [firstSuffix] using h
  | cons c cs => simp [firstSuffix, h]

/-! ### the tag pattern -/

theorem tagLit1_take2 : ∀ o, o < 16 → 1 ≤ o → (tagLit1.drop o).take 2 ≠ ['/', '_'] := by decide

theorem tagLit1_length : tagLit1.length = 17 := rfl

/-- inside `lit1 ++ tag ++ rest`, strictly after its start and while at least one character of the tag
remains for group 2, `lit1` does not occur again -/
theorem no_tagLit1_inside (tag rest : List Char) (ht : '/' ∉ tag) (o : Nat) (h1 : 1 ≤ o) (h2 : o + 1 ≤ tag.length) :
    isPrefixOf tagLit1 ((tagLit1 ++ tag ++ rest).drop o) = false := by
  cases hb : isPrefixOf tagLit1 ((tagLit1 ++ tag ++ rest).drop o) with
  | false => rfl
  | true =>
    exfalso
    by_cases ho : o ≤ 15
    · -- the first two characters come from lit1 itself
      have hd : (tagLit1 ++ tag ++ rest).drop o = tagLit1.drop o ++ (tag ++ rest) := by
        rw [List.append_assoc, List.drop_append_of_le_length (by rw [tagLit1_length]; omega)]
      rw [hd] at hb
      have ht2 := isPrefixOf_take2 '/' '_' _ _ hb
      have hlen : 2 ≤ (tagLit1.drop o).length := by simp only [List.length_drop, tagLit1_length]; omega
      rw [List.take_append_of_le_length hlen] at ht2
      exact tagLit1_take2 o (by omega) h1 ht2
    · by_cases h16 : o = 16
      · subst h16
        have hd : (tagLit1 ++ tag ++ rest).drop 16 = '/' :: (tag ++ rest) := by
          rw [List.append_assoc, List.drop_append_of_le_length (by rw [tagLit1_length]; omega)]; rfl
        rw [hd] at hb
        -- lit1 = '/' :: "_manifests/tags/"; its '/' at index 10 of the tail would have to lie in the tag
        have hb' : isPrefixOf (manifestsTags ++ ['/']) (tag ++ rest) = true := by
          simpa [tagLit1, isPrefixOf] using hb
        have := isPrefixOf_false_of_slash (manifestsTags ++ ['/']) tag rest 10 (by omega) (by decide) ht
        rw [this] at hb'; cases hb'
      · -- the match would start inside the tag, with a character that is not '/'
        have ho17 : 17 ≤ o := by omega
        have hd : (tagLit1 ++ tag ++ rest).drop o = tag.drop (o - 17) ++ rest := by
          rw [List.append_assoc, List.drop_append, tagLit1_length,
            List.drop_of_length_le (by rw [tagLit1_length]; omega), List.nil_append,
            List.drop_append_of_le_length (by omega)]
        rw [hd] at hb
        cases htd : tag.drop (o - 17) with
        | nil =>
          have := congrArg List.length htd
          simp only [List.length_drop, List.length_nil] at this
          omega
        | cons c cs =>
          rw [htd] at hb
          have hh := isPrefixOf_head '/' _ _ hb
          simp only [List.cons_append, List.head?_cons, Option.some.injEq] at hh
          subst hh
          have : '/' ∈ tag.drop (o - 17) := by rw [htd]; simp
          exact ht (List.mem_of_mem_drop this)

theorem mem_of_any_eq {s : List Char} {c : Char} (h : s.any (· == c) = true) : c ∈ s := by
  obtain ⟨x, hx, he⟩ := List.any_eq_true.mp h
  simp only [beq_iff_eq] at he
  subst he; exact hx

/-- the two greedy groups of the tag pattern on `repo/_manifests/tags/tag/current/link` -/
theorem twoGroups_tag (repo tag : List Char) (hr : repo ≠ []) (htne : tag ≠ []) (ht : '/' ∉ tag) :
    twoGroups tagLit1 tagLit2 (repo ++ tagLit1 ++ tag ++ tagLit2) = some (repo, tag) := by
  have hlen : (repo ++ tagLit1 ++ tag ++ tagLit2).length = repo.length + 17 + tag.length + 13 := by
    simp only [List.length_append, tagLit1_length]; rfl
  have htl : 1 ≤ tag.length := by cases tag with | nil => exact absurd rfl htne | cons _ _ => simp
  have hrl : 1 ≤ repo.length := by cases repo with | nil => exact absurd rfl hr | cons _ _ => simp
  have hm := lastFrom_end tagLit2 (repo ++ tagLit1 ++ tag) (by decide)
  have hxl : (repo ++ tagLit1 ++ tag).length = repo.length + 17 + tag.length := by
    simp only [List.length_append, tagLit1_length]
  rw [hxl] at hm
  have hk : lastFrom tagLit1 (repo ++ tagLit1 ++ tag ++ tagLit2) (repo.length + 17 + tag.length - tagLit1.length - 1) = some repo.length := by
    rw [tagLit1_length]
    apply lastFrom_eq_some
    · omega
    · have : (repo ++ tagLit1 ++ tag ++ tagLit2).drop repo.length = tagLit1 ++ (tag ++ tagLit2) := by
        simp [List.append_assoc]
      rw [this]; exact isPrefixOf_append _ _
    · intro j h1 h2
      have hd : (repo ++ tagLit1 ++ tag ++ tagLit2).drop j = (tagLit1 ++ tag ++ tagLit2).drop (j - repo.length) := by
        have : repo ++ tagLit1 ++ tag ++ tagLit2 = repo ++ (tagLit1 ++ tag ++ tagLit2) := by simp [List.append_assoc]
        rw [this, List.drop_append, List.drop_of_length_le (by omega), List.nil_append]
      rw [hd]
      exact no_tagLit1_inside tag tagLit2 ht (j - repo.length) (by omega) (by omega)
  have e1 : (repo ++ tagLit1 ++ tag ++ tagLit2).take repo.length = repo := by
    simp [List.append_assoc]
  have e2 : ((repo ++ tagLit1 ++ tag ++ tagLit2).drop (repo.length + tagLit1.length)).take (repo.length + 17 + tag.length - repo.length - tagLit1.length) = tag := by
    have h1 : repo ++ tagLit1 ++ tag ++ tagLit2 = (repo ++ tagLit1) ++ (tag ++ tagLit2) := by simp [List.append_assoc]
    have h2 : repo.length + tagLit1.length = (repo ++ tagLit1).length := by simp
    rw [h1, h2, List.drop_left]
    have h3 : repo.length + 17 + tag.length - repo.length - tagLit1.length = tag.length := by
      rw [tagLit1_length]; omega
    rw [h3]; simp
  unfold twoGroups
  rw [hm]
  simp only []
  split
  · rename_i h; rw [tagLit1_length] at h; omega
  · rw [hk]
    simp only []
    split
    · omega
    · rw [e1, e2]

/-- the greedy group of the shard pattern on `name/data` -/
theorem oneGroup_shard (name : List Char) (hn : name ≠ []) : oneGroup shardLit2 (name ++ shardLit2) = some name := by
  have hm := lastFrom_end shardLit2 name (by decide)
  unfold oneGroup
  rw [hm]
  have : ¬ (name.length = 0) := by cases name with | nil => exact absurd rfl hn | cons _ _ => simp
  simp [this]

/-! ### runes -/

theorem isCont_slash : isCont '/' = false := by decide

theorem runeWidth_before_slash (b : Char) (r : List Char) : runeWidth (b :: '/' :: r) = 1 := by
  unfold runeWidth
  simp only []
  split
  · rfl
  · split
    · simp [isCont_slash]
    · split
      · cases r with
        | nil => rfl
        | cons c cs =>
          have : ¬ ((if b.toNat = 224 then 160 else 128) ≤ 47) := by split <;> omega
          simp
          intro h1; exact absurd h1 this
      · split
        · cases r with
          | nil => rfl
          | cons c cs =>
            cases cs with
            | nil => rfl
            | cons d ds =>
              have : ¬ ((if b.toNat = 240 then 144 else 128) ≤ 47) := by split <;> omega
              simp
              intro h1; exact absurd h1 this
        · rfl

theorem runeWidth_head (a b : Char) (r : List Char) (h : twoByteHead (a :: b :: '/' :: r) = false) :
    runeWidth (a :: b :: '/' :: r) = 1 := by
  unfold runeWidth
  simp only []
  split
  · rfl
  · split
    · rename_i h2
      have : isCont b = false := by
        simp only [twoByteHead, Bool.and_eq_false_iff, decide_eq_false_iff_not] at h
        rcases h with (h | h) | h
        · omega
        · omega
        · exact h
      simp [this]
    · split
      · simp [isCont_slash]
      · split
        · cases r with
          | nil => rfl
          | cons d ds => simp [isCont_slash]
        · rfl

/-- `..` on `a b / r` consumes exactly `a b` unless they form one two-byte character -/
theorem dropRune_two (a b : Char) (r : List Char) (h : twoByteHead (a :: b :: '/' :: r) = false)
    (ha : a ≠ '\n') (hb : b ≠ '\n') :
    (dropRune (a :: b :: '/' :: r)).bind dropRune = some ('/' :: r) := by
  simp only [dropRune, runeWidth_head a b r h, beq_iff_eq, ha, if_false, List.drop_succ_cons, List.drop_zero,
    Option.bind_some, runeWidth_before_slash, hb]

end KrakenModel.Proof.C36
