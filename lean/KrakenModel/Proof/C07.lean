import KrakenModel.Util.LTS
import KrakenModel.Proof.BlobStore
/-
  Helper lemmas for Spec/C07 (disk blob store = capacity-bounded LRU model):
  the last-use trace and the LRU order of the queue, absence of panics, metadata frames, Clean.
-/
namespace KrakenModel.BlobStore

def sys (cap : Nat) : Sys State Op := { init := init cap, step := step }

theorem good_run {cap : Nat} (h : cap < U64) (ops : List Op) : Good ((sys cap).run ops) :=
  Sys.run_inv (sys cap) Good (good_init h) (fun _ o hg => good_step hg o) ops

/-- `write` is `Open` followed by the positional write on the opened blob -/
theorem write_eq (s : State) (k : Key) (sc : Scope) (off : Nat) (p : Bytes) :
    write s k sc off p = match lookup s k sc with
      | .error e => (s, .err e)
      | .ok b => ({ (openB s k sc).1 with
                      blobs := s.blobs.set k { b with data := writeAt b.data p off } }, .ok) := by
  cases hl : lookup s k sc with
  | error e => simp [write, openB, hl]
  | ok b =>
    have hb := (lookup_ok hl).1
    by_cases hq : k ∈ s.queue
    · simp [write, openB, hl, hq, hb]
    · simp [write, openB, hl, hq, hb]

/-! ### last use -/

/-- the blob an operation *uses*: a successful `Open` (also the one inside `write`), the `MarkComplete`
    that completes it, the `UnbanEviction` that lifts a ban -/
def usedKey (s : State) : Op → Option Key
  | .open k sc => match lookup s k sc with | .ok _ => some k | .error _ => none
  | .write k sc _ _ => match lookup s k sc with | .ok _ => some k | .error _ => none
  | .markComplete k => match s.blobs.get k with
    | some b => if b.complete then none else some k
    | none => none
  | .unban k sc => match lookup s k sc with
    | .ok b => if b.banned then some k else none
    | .error _ => none
  | _ => none

/-- store state + for every key the index (in the history) of the operation that last used it -/
structure Traced where
  st : State
  lastUse : Key → Nat
  now : Nat

def tinit (cap : Nat) : Traced := { st := init cap, lastUse := fun _ => 0, now := 0 }

def tstep (t : Traced) (o : Op) : Traced :=
  { st := step t.st o
    now := t.now + 1
    lastUse := match usedKey t.st o with
      | some k => fun k' => if k' = k then t.now else t.lastUse k'
      | none => t.lastUse }

def trun (cap : Nat) (ops : List Op) : Traced := ops.foldl tstep (tinit cap)

theorem foldl_tstep_st (ops : List Op) (t : Traced) : (ops.foldl tstep t).st = ops.foldl step t.st := by
  induction ops generalizing t with
  | nil => rfl
  | cons o ops ih => simp only [List.foldl_cons]; rw [ih]; rfl

/-- the trace only adds ghost fields: its store component is the plain run -/
theorem trun_st (cap : Nat) (ops : List Op) : (trun cap ops).st = (sys cap).run ops := by
  simp [trun, Sys.run, sys, foldl_tstep_st, tinit]

/-- queue ordered by last use, most recent last -/
def LRU (t : Traced) : Prop :=
  t.st.queue.Pairwise (fun a b => t.lastUse a < t.lastUse b) ∧ ∀ k ∈ t.st.queue, t.lastUse k < t.now

theorem evictLoop_sublist (space : Nat) (q : List Key) (s : State) (hq : s.queue = q) :
    (evictLoop space q s).1.queue.Sublist q := by
  have h := evictLoop_queue space q s hq
  have : (evictLoop space q s).1.queue.Sublist ((evictLoop space q s).2.2 ++ (evictLoop space q s).1.queue) :=
    List.sublist_append_right _ _
  rw [← h] at this
  exact this

theorem delete_queue_sublist (s : State) (k : Key) (sc : Scope) : (delete s k sc).1.queue.Sublist s.queue := by
  unfold delete
  split
  · exact List.Sublist.refl _
  · simp only [release]; exact List.erase_sublist

theorem cleanLoop_sublist (target : Nat) : ∀ (ks : List Key) (s : State),
    (cleanLoop target ks s).1.queue.Sublist s.queue := by
  intro ks
  induction ks with
  | nil => intro s; simp [cleanLoop]
  | cons k ks ih =>
    intro s
    simp only [cleanLoop]
    split
    · exact List.Sublist.refl _
    · split
      · rename_i s' heq
        have e1 : s' = (delete s k .any).1 := by rw [heq]
        subst e1
        exact (ih _).trans (delete_queue_sublist s k .any)
      · rename_i s' o _ heq
        have e1 : s' = (delete s k .any).1 := by rw [heq]
        subst e1
        exact delete_queue_sublist s k .any

theorem clean_sublist (s : State) (pct : Int) (r : Bool) (ord : List Key) :
    (clean s pct r ord).1.queue.Sublist s.queue := by
  unfold clean
  simp only
  split
  · exact List.Sublist.refl _
  · generalize hE : ensureFree s (s.cap - s.cap * pct.toNat % U64 / 100) = r1
    have h1 : r1.1.queue.Sublist s.queue := by rw [← hE]; exact evictLoop_sublist _ s.queue s rfl
    obtain ⟨s1, res, ev⟩ := r1
    cases res with
    | ok => exact h1
    | panic => exact h1
    | noSpace =>
      simp only
      generalize hL : cleanLoop (s.cap * pct.toNat % U64 / 100) _ s1 = r2
      have h2 : r2.1.queue.Sublist s.queue := by rw [← hL]; exact (cleanLoop_sublist _ _ _).trans h1
      obtain ⟨s2, e, d2⟩ := r2
      cases e with
      | some e => exact h2
      | none =>
        simp only
        split
        · exact h2
        · generalize hL3 : cleanLoop (s.cap * pct.toNat % U64 / 100) _ s2 = r3
          have h3 : r3.1.queue.Sublist s.queue := by rw [← hL3]; exact (cleanLoop_sublist _ _ _).trans h2
          obtain ⟨s3, e3, d3⟩ := r3
          exact h3

/-- an operation that uses no blob only removes entries from the queue -/
theorem queue_sublist_of_unused (s : State) (o : Op) (h : usedKey s o = none) :
    (step s o).queue.Sublist s.queue := by
  cases o with
  | create k n d =>
    simp only [step, apply, create]
    split
    · exact List.Sublist.refl _
    · have := evictLoop_sublist n s.queue s rfl
      split <;> (rename_i s' _ heq; have e1 : s' = (ensureFree s n).1 := by rw [heq]
                 subst e1; exact this)
  | «open» k sc =>
    simp only [usedKey] at h
    simp only [step, apply, openB]
    split
    · exact List.Sublist.refl _
    · rename_i b hl; simp [hl] at h
  | write k sc off p =>
    simp only [usedKey] at h
    simp only [step, apply, write, openB]
    split at h
    · simp at h
    · rename_i e hl
      simp only [hl]
      exact List.Sublist.refl _
  | stat k sc => simp only [step, apply, stat]; split <;> exact List.Sublist.refl _
  | has k sc => simp only [step, apply, has]; split <;> exact List.Sublist.refl _
  | markComplete k =>
    simp only [usedKey] at h
    simp only [step, apply, markComplete]
    split
    · exact List.Sublist.refl _
    · rename_i b hb
      simp only [hb] at h
      split
      · exact List.Sublist.refl _
      · rename_i hc; simp [hc] at h
  | delete k sc => exact delete_queue_sublist s k sc
  | ban k sc =>
    simp only [step, apply, ban]
    split
    · exact List.Sublist.refl _
    · split
      · exact List.Sublist.refl _
      · split
        · split
          · exact List.erase_sublist
          · exact List.Sublist.refl _
        · exact List.Sublist.refl _
  | unban k sc =>
    simp only [usedKey] at h
    simp only [step, apply, unban]
    split
    · exact List.Sublist.refl _
    · rename_i b hl
      simp only [hl] at h
      split
      · exact List.Sublist.refl _
      · rename_i hb; simp at hb; simp [hb] at h
  | setMd k sc m => simp only [step, apply, setMd]; split <;> exact List.Sublist.refl _
  | getMd k sc sfx =>
    simp only [step, apply, getMd]
    split
    · exact List.Sublist.refl _
    · split <;> exact List.Sublist.refl _
  | delMd k sc sfx => simp only [step, apply, delMd]; split <;> exact List.Sublist.refl _
  | listMd k sc => simp only [step, apply, listMd]; split <;> exact List.Sublist.refl _
  | writeAtMd k sc sfx p off =>
    simp only [step, apply, writeAtMd]
    split
    · exact List.Sublist.refl _
    · split <;> exact List.Sublist.refl _
  | list sc => exact List.Sublist.refl _
  | clean pct r ord => exact clean_sublist s pct r ord

theorem erase_of_not_mem {l : List Key} {k : Key} (h : k ∉ l) : l.erase k = l :=
  List.erase_of_not_mem h

/-- an operation that uses `k` moves it to the back of the queue, enqueues it there, or (blob not
    evictable) leaves the queue alone -/
theorem queue_of_used {s : State} (hg : Good s) (o : Op) {k : Key} (h : usedKey s o = some k) :
    (step s o).queue = s.queue.erase k ++ [k] ∨ ((step s o).queue = s.queue ∧ k ∉ s.queue) := by
  cases o with
  | «open» k' sc =>
    simp only [usedKey] at h
    split at h
    · rename_i b hl
      simp at h; subst h
      simp only [step, apply, openB, hl]
      by_cases hq : k' ∈ s.queue
      · simp [hq]
      · simp [hq]
    · simp at h
  | write k' sc off p =>
    simp only [usedKey] at h
    split at h
    · rename_i b hl
      simp at h; subst h
      have hb := (lookup_ok hl).1
      by_cases hq : k' ∈ s.queue
      · left; simp [step, apply, write, openB, hl, hq, hb]
      · right; simp [step, apply, write, openB, hl, hq, hb]
    · simp at h
  | markComplete k' =>
    simp only [usedKey] at h
    split at h
    · rename_i b hb
      split at h
      · simp at h
      · rename_i hc
        simp at h; subst h
        have hnq : k' ∉ s.queue := fun hm => by have := (queued_iff hg hb).mp hm; simp_all
        simp only [step, apply, markComplete, hb, hc]
        cases hban : b.banned
        · left; simp [erase_of_not_mem hnq]
        · right; simp [hnq]
    · simp at h
  | unban k' sc =>
    simp only [usedKey] at h
    split at h
    · rename_i b hl
      have hb := (lookup_ok hl).1
      split at h
      · rename_i hban
        simp at h; subst h
        have hnq : k' ∉ s.queue := fun hm => by have := (queued_iff hg hb).mp hm; simp_all
        simp only [step, apply, unban, hl, hban]
        cases hc : b.complete
        · right; simp [hnq]
        · left; simp [erase_of_not_mem hnq]
      · simp at h
    · simp at h
  | create _ _ _ => simp [usedKey] at h
  | stat _ _ => simp [usedKey] at h
  | has _ _ => simp [usedKey] at h
  | delete _ _ => simp [usedKey] at h
  | ban _ _ => simp [usedKey] at h
  | setMd _ _ _ => simp [usedKey] at h
  | getMd _ _ _ => simp [usedKey] at h
  | delMd _ _ _ => simp [usedKey] at h
  | listMd _ _ => simp [usedKey] at h
  | writeAtMd _ _ _ _ _ => simp [usedKey] at h
  | list _ => simp [usedKey] at h
  | clean _ _ _ => simp [usedKey] at h

theorem lru_tstep {t : Traced} (hg : Good t.st) (hl : LRU t) (o : Op) : LRU (tstep t o) := by
  obtain ⟨hp, hb⟩ := hl
  cases hu : usedKey t.st o with
  | none =>
    have hs := queue_sublist_of_unused t.st o hu
    refine ⟨?_, ?_⟩
    · simp only [tstep, hu]; exact hp.sublist hs
    · intro k hk
      simp only [tstep, hu] at hk ⊢
      have := hb k (hs.subset hk); omega
  | some k =>
    rcases queue_of_used hg o hu with hq | ⟨hq, hnk⟩
    · refine ⟨?_, ?_⟩
      · simp only [tstep, hu, hq]
        rw [List.pairwise_append]
        refine ⟨?_, by simp, ?_⟩
        · refine (hp.sublist List.erase_sublist).imp_of_mem ?_
          intro a b ha hb' hab
          have ha' : a ≠ k := ((mem_erase_nodup hg.qnodup a k).mp ha).1
          have hb'' : b ≠ k := ((mem_erase_nodup hg.qnodup b k).mp hb').1
          simpa [ha', hb''] using hab
        · intro a ha b hb'
          simp at hb'; subst hb'
          have ha' := (mem_erase_nodup hg.qnodup a b).mp ha
          simp only [ha'.1, if_false, if_true]
          exact hb a ha'.2
      · intro a ha
        simp only [tstep, hu, hq] at ha ⊢
        rw [List.mem_append] at ha
        by_cases e : a = k
        · simp [e]
        · simp only [e, if_false]
          rcases ha with ha | ha
          · have := hb a (List.mem_of_mem_erase ha); omega
          · simp at ha; exact absurd ha e
    · refine ⟨?_, ?_⟩
      · simp only [tstep, hu, hq]
        refine hp.imp_of_mem ?_
        intro a b ha hb' hab
        have ha' : a ≠ k := fun e => hnk (e ▸ ha)
        have hb'' : b ≠ k := fun e => hnk (e ▸ hb')
        simpa [ha', hb''] using hab
      · intro a ha
        simp only [tstep, hu, hq] at ha ⊢
        have ha' : a ≠ k := fun e => hnk (e ▸ ha)
        simp only [ha', if_false]
        have := hb a ha; omega

theorem lru_run {cap : Nat} (hc : cap < U64) (ops : List Op) : LRU (trun cap ops) ∧ Good (trun cap ops).st := by
  unfold trun
  have : ∀ (ops : List Op) (t : Traced), LRU t → Good t.st →
      LRU (ops.foldl tstep t) ∧ Good (ops.foldl tstep t).st := by
    intro ops
    induction ops with
    | nil => intro t h1 h2; exact ⟨h1, h2⟩
    | cons o ops ih =>
      intro t h1 h2
      exact ih (tstep t o) (lru_tstep h2 h1 o) (good_step h2 o)
  exact this ops (tinit cap) ⟨by simp [tinit, init], by simp [tinit, init]⟩ (good_init hc)

/-! ### no panics -/

def Out.panics : Out → Bool
  | .err .panic => true
  | .cleaned _ (some .panic) _ => true
  | _ => false

theorem cleanLoop_err (target : Nat) : ∀ (ks : List Key) (s : State),
    (cleanLoop target ks s).2.1 ≠ some .panic := by
  intro ks
  induction ks with
  | nil => intro s; simp [cleanLoop]
  | cons k ks ih =>
    intro s
    simp only [cleanLoop]
    split
    · simp
    · split
      · exact ih _
      · simp

theorem no_panic_of_good {s : State} (hg : Good s) (o : Op) : (output s o).panics = false := by
  cases o with
  | create k n d =>
    simp only [output, apply, create]
    split
    · rfl
    · have hnp := evictLoop_no_panic n s.queue s rfl hg
      split
      · rfl
      · rfl
      · rename_i s' ev heq
        have : (ensureFree s n).2.1 = .panic := by rw [heq]
        exact absurd this hnp
  | «open» k sc =>
    simp only [output, apply, openB]
    split
    · rename_i e hl
      rcases lookup_error hl with ⟨h, _⟩ | ⟨h, _⟩ <;> subst h <;> rfl
    · split <;> rfl
  | write k sc off p =>
    simp only [output, apply, write_eq]
    split
    · rename_i e hl
      rcases lookup_error hl with ⟨h, _⟩ | ⟨h, _⟩ <;> subst h <;> rfl
    · rfl
  | stat k sc =>
    simp only [output, apply, stat]
    split
    · rename_i e hl
      rcases lookup_error hl with ⟨h, _⟩ | ⟨h, _⟩ <;> subst h <;> rfl
    · rfl
  | has k sc => simp only [output, apply, has]; split <;> rfl
  | markComplete k =>
    simp only [output, apply, markComplete]
    split
    · rfl
    · split <;> rfl
  | delete k sc =>
    simp only [output, apply, delete]
    split
    · rename_i e hl
      rcases lookup_error hl with ⟨h, _⟩ | ⟨h, _⟩ <;> subst h <;> rfl
    · rfl
  | ban k sc =>
    simp only [output, apply, ban]
    split
    · rename_i e hl
      rcases lookup_error hl with ⟨h, _⟩ | ⟨h, _⟩ <;> subst h <;> rfl
    · rename_i b hl
      have hb := (lookup_ok hl).1
      split
      · rfl
      · rename_i hnb
        split
        · rename_i hc
          split
          · rfl
          · rename_i hnq
            exact absurd ((queued_iff hg hb).mpr ⟨hc, by simpa using hnb⟩) hnq
        · rfl
  | unban k sc =>
    simp only [output, apply, unban]
    split
    · rename_i e hl
      rcases lookup_error hl with ⟨h, _⟩ | ⟨h, _⟩ <;> subst h <;> rfl
    · split <;> rfl
  | setMd k sc m =>
    simp only [output, apply, setMd]
    split
    · rename_i e hl
      rcases lookup_error hl with ⟨h, _⟩ | ⟨h, _⟩ <;> subst h <;> rfl
    · rfl
  | getMd k sc sfx =>
    simp only [output, apply, getMd]
    split
    · rename_i e hl
      rcases lookup_error hl with ⟨h, _⟩ | ⟨h, _⟩ <;> subst h <;> rfl
    · split <;> rfl
  | delMd k sc sfx =>
    simp only [output, apply, delMd]
    split
    · rename_i e hl
      rcases lookup_error hl with ⟨h, _⟩ | ⟨h, _⟩ <;> subst h <;> rfl
    · rfl
  | listMd k sc =>
    simp only [output, apply, listMd]
    split
    · rename_i e hl
      rcases lookup_error hl with ⟨h, _⟩ | ⟨h, _⟩ <;> subst h <;> rfl
    · rfl
  | writeAtMd k sc sfx p off =>
    simp only [output, apply, writeAtMd]
    split
    · rename_i e hl
      rcases lookup_error hl with ⟨h, _⟩ | ⟨h, _⟩ <;> subst h <;> rfl
    · split <;> rfl
  | list sc => rfl
  | clean pct r ord =>
    simp only [output, apply, clean]
    split
    · rfl
    · generalize hE : ensureFree s (s.cap - s.cap * pct.toNat % U64 / 100) = r1
      have hnp : r1.2.1 ≠ .panic := by rw [← hE]; exact evictLoop_no_panic _ s.queue s rfl hg
      obtain ⟨s1, res, ev⟩ := r1
      cases res with
      | ok => rfl
      | panic => exact absurd rfl hnp
      | noSpace =>
        simp only
        generalize hL : cleanLoop (s.cap * pct.toNat % U64 / 100) _ s1 = r2
        have h2 : r2.2.1 ≠ some .panic := by rw [← hL]; exact cleanLoop_err _ _ _
        obtain ⟨s2, e, d2⟩ := r2
        cases e with
        | some e =>
          cases e <;> first | rfl | exact absurd rfl h2
        | none =>
          simp only
          split
          · rfl
          · generalize hL3 : cleanLoop (s.cap * pct.toNat % U64 / 100) _ s2 = r3
            have h3 : r3.2.1 ≠ some .panic := by rw [← hL3]; exact cleanLoop_err _ _ _
            obtain ⟨s3, e3, d3⟩ := r3
            cases e3 with
            | none => rfl
            | some e => cases e <;> first | rfl | exact absurd rfl h3

/-! ### scopes -/

/-- the operations that take a scope, with their key -/
def Op.scoped : Op → Option (Key × Scope)
  | .open k sc => some (k, sc)
  | .write k sc _ _ => some (k, sc)
  | .stat k sc => some (k, sc)
  | .delete k sc => some (k, sc)
  | .ban k sc => some (k, sc)
  | .unban k sc => some (k, sc)
  | .setMd k sc _ => some (k, sc)
  | .getMd k sc _ => some (k, sc)
  | .delMd k sc _ => some (k, sc)
  | .listMd k sc => some (k, sc)
  | .writeAtMd k sc _ _ _ => some (k, sc)
  | _ => none

theorem lookup_oos_iff (s : State) (k : Key) (sc : Scope) :
    lookup s k sc = .error .outOfScope ↔ ∃ b, s.blobs.get k = some b ∧ inScope b sc = false := by
  constructor
  · intro h
    rcases lookup_error h with ⟨h1, _⟩ | ⟨_, h2⟩
    · simp at h1
    · exact h2
  · rintro ⟨b, hb, hs⟩
    simp [lookup, hb, hs]

theorem lookup_notExist_iff (s : State) (k : Key) (sc : Scope) :
    lookup s k sc = .error .notExist ↔ s.blobs.get k = none := by
  constructor
  · intro h
    rcases lookup_error h with ⟨_, h1⟩ | ⟨h2, _⟩
    · exact h1
    · simp at h2
  · intro h; simp [lookup, h]

/-- a scoped operation fails with exactly the error of the lookup and then changes nothing;
    once the lookup succeeds it reports neither `outOfScope` nor `notExist` -/
theorem scoped_output (s : State) (o : Op) (k : Key) (sc : Scope) (h : o.scoped = some (k, sc)) :
    (∀ e, lookup s k sc = .error e → output s o = .err e ∧ step s o = s) ∧
    (∀ b, lookup s k sc = .ok b → output s o ≠ .err .outOfScope ∧ output s o ≠ .err .notExist) := by
  cases o <;> simp only [Op.scoped, Option.some.injEq, Prod.mk.injEq, reduceCtorEq] at h
  all_goals obtain ⟨rfl, rfl⟩ := h
  case «open» =>
    refine ⟨fun e he => by simp [output, step, apply, openB, he], fun b hb => ?_⟩
    simp only [output, apply, openB, hb]; split <;> simp
  case write =>
    refine ⟨fun e he => by simp [output, step, apply, write_eq, he], fun b hb => ?_⟩
    simp [output, apply, write_eq, hb]
  case stat =>
    refine ⟨fun e he => by simp [output, step, apply, stat, he], fun b hb => ?_⟩
    simp [output, apply, stat, hb]
  case delete =>
    refine ⟨fun e he => by simp [output, step, apply, delete, he], fun b hb => ?_⟩
    simp [output, apply, delete, hb]
  case ban =>
    refine ⟨fun e he => by simp [output, step, apply, ban, he], fun b hb => ?_⟩
    simp only [output, apply, ban, hb]
    split
    · simp
    · split
      · split <;> simp
      · simp
  case unban =>
    refine ⟨fun e he => by simp [output, step, apply, unban, he], fun b hb => ?_⟩
    simp only [output, apply, unban, hb]; split <;> simp
  case setMd =>
    refine ⟨fun e he => by simp [output, step, apply, setMd, he], fun b hb => ?_⟩
    simp [output, apply, setMd, hb]
  case getMd =>
    refine ⟨fun e he => by simp [output, step, apply, getMd, he], fun b hb => ?_⟩
    simp only [output, apply, getMd, hb]; split <;> simp
  case delMd =>
    refine ⟨fun e he => by simp [output, step, apply, delMd, he], fun b hb => ?_⟩
    simp [output, apply, delMd, hb]
  case listMd =>
    refine ⟨fun e he => by simp [output, step, apply, listMd, he], fun b hb => ?_⟩
    simp [output, apply, listMd, hb]
  case writeAtMd =>
    refine ⟨fun e he => by simp [output, step, apply, writeAtMd, he], fun b hb => ?_⟩
    simp only [output, apply, writeAtMd, hb]; split <;> simp

theorem mem_of_get {m : BMap} {k : Key} {b : Blob} (h : m.get k = some b) : (k, b) ∈ m := by
  induction m with
  | nil => simp at h
  | cons e m ih =>
    obtain ⟨k', b'⟩ := e
    simp only [BMap.get_cons] at h
    split at h
    · rename_i hk; subst hk; simp at h; subst h; simp
    · exact List.mem_cons_of_mem _ (ih h)

theorem get_of_mem {m : BMap} (hn : m.keys.Nodup) {k : Key} {b : Blob} (h : (k, b) ∈ m) : m.get k = some b := by
  induction m with
  | nil => simp at h
  | cons e m ih =>
    obtain ⟨k', b'⟩ := e
    have hn' := List.nodup_cons.mp hn
    simp only [List.mem_cons] at h
    rcases h with h | h
    · simp at h; obtain ⟨rfl, rfl⟩ := h; simp [BMap.get_cons]
    · have hk : k ∈ BMap.keys m := List.mem_map.mpr ⟨(k, b), h, rfl⟩
      have : k' ≠ k := fun e => hn'.1 (e ▸ hk)
      simp only [BMap.get_cons, this, if_false]
      exact ih hn'.2 h

/-! ### metadata -/

theorem mdGet_mdSet_self (mds : List Md) (m : Md) : mdGet (mdSet mds m) m.sfx = some m := by
  simp [mdGet, mdSet]

theorem mdGet_mdDel_self (mds : List Md) (sfx : Nat) : mdGet (mdDel mds sfx) sfx = none := by
  simp [mdGet, mdDel]

theorem mdGet_mdDel_ne (mds : List Md) {sfx sfx' : Nat} (h : sfx' ≠ sfx) :
    mdGet (mdDel mds sfx') sfx = mdGet mds sfx := by
  induction mds with
  | nil => rfl
  | cons m mds ih =>
    unfold mdGet mdDel at *
    by_cases h1 : m.sfx = sfx'
    · have h2 : m.sfx ≠ sfx := fun e => h (h1.symm.trans e)
      rw [List.filter_cons_of_neg (by simp [h1]), List.find?_cons_of_neg (by simp [h2])]
      exact ih
    · rw [List.filter_cons_of_pos (by simp [h1])]
      by_cases h2 : m.sfx = sfx
      · rw [List.find?_cons_of_pos (by simp [h2]), List.find?_cons_of_pos (by simp [h2])]
      · rw [List.find?_cons_of_neg (by simp [h2]), List.find?_cons_of_neg (by simp [h2])]
        exact ih

theorem mdGet_mdSet_ne (mds : List Md) (m : Md) {sfx : Nat} (h : m.sfx ≠ sfx) :
    mdGet (mdSet mds m) sfx = mdGet mds sfx := by
  have : mdGet (mdSet mds m) sfx = mdGet (mdDel mds m.sfx) sfx := by
    simp [mdGet, mdSet, h]
  rw [this, mdGet_mdDel_ne mds h]

/-- operations that may change what `GetMetadata(k, sfx)` reads while `k` stays in the store -/
def touchesMd : Op → Key → Nat → Bool
  | .setMd k' _ m, k, sfx => k' = k && m.sfx = sfx
  | .delMd k' _ sfx', k, sfx => k' = k && sfx' = sfx
  | .writeAtMd k' _ sfx' _ _, k, sfx => k' = k && sfx' = sfx
  | .markComplete k', k, _ => k' = k
  | _, _, _ => false

theorem ensureFree_get_some {s : State} {space : Nat} {k : Key} {b' : Blob}
    (h : (ensureFree s space).1.blobs.get k = some b') : s.blobs.get k = some b' := by
  have := evictLoop_get space k s.queue s
  unfold ensureFree at h
  rw [this] at h
  split at h
  · simp at h
  · exact h

theorem cleanLoop_get_some {target : Nat} {ks : List Key} {s : State} {k : Key} {b' : Blob}
    (h : (cleanLoop target ks s).1.blobs.get k = some b') : s.blobs.get k = some b' := by
  rw [cleanLoop_get] at h
  split at h
  · simp at h
  · exact h

theorem clean_get_some {s : State} {pct : Int} {r : Bool} {ord : List Key} {k : Key} {b' : Blob}
    (h : (clean s pct r ord).1.blobs.get k = some b') : s.blobs.get k = some b' := by
  unfold clean at h
  simp only at h
  split at h
  · exact h
  · generalize hE : ensureFree s (s.cap - s.cap * pct.toNat % U64 / 100) = r1 at h
    have h1 : ∀ b', r1.1.blobs.get k = some b' → s.blobs.get k = some b' := by
      rw [← hE]; exact fun _ => ensureFree_get_some
    obtain ⟨s1, res, ev⟩ := r1
    cases res with
    | ok => exact h1 _ h
    | panic => exact h1 _ h
    | noSpace =>
      simp only at h
      generalize hL : cleanLoop (s.cap * pct.toNat % U64 / 100) _ s1 = r2 at h
      have h2 : ∀ b', r2.1.blobs.get k = some b' → s1.blobs.get k = some b' := by
        rw [← hL]; exact fun _ => cleanLoop_get_some
      obtain ⟨s2, e, d2⟩ := r2
      cases e with
      | some e => exact h1 _ (h2 _ h)
      | none =>
        simp only at h
        split at h
        · exact h1 _ (h2 _ h)
        · generalize hL3 : cleanLoop (s.cap * pct.toNat % U64 / 100) _ s2 = r3 at h
          have h3 : ∀ b', r3.1.blobs.get k = some b' → s2.blobs.get k = some b' := by
            rw [← hL3]; exact fun _ => cleanLoop_get_some
          obtain ⟨s3, e3, d3⟩ := r3
          exact h1 _ (h2 _ (h3 _ h))

/-- metadata frame: while `k` stays in the store, only the metadata calls on `(k, sfx)` and the
    completion of `k` change what `GetMetadata(k, sfx)` reads -/
theorem md_frame (s : State) (o : Op) (k : Key) (sfx : Nat) (ht : touchesMd o k sfx = false)
    {b b' : Blob} (hb : s.blobs.get k = some b) (hb' : (step s o).blobs.get k = some b') :
    mdGet b'.mds sfx = mdGet b.mds sfx := by
  cases o with
  | create k0 n d =>
    simp only [step, apply, create] at hb'
    split at hb'
    · rw [hb] at hb'; simp at hb'; rw [hb']
    · rename_i hnone
      have hne : k ≠ k0 := fun e => by subst e; simp [hb] at hnone
      split at hb'
      · rename_i s' ev heq
        have e1 : s' = (ensureFree s n).1 := by rw [heq]
        subst e1
        simp only [BMap.get_set_ne _ _ hne] at hb'
        have := ensureFree_get_some hb'
        rw [hb] at this; simp at this; rw [this]
      all_goals
        rename_i s' ev heq
        have e1 : s' = (ensureFree s n).1 := by rw [heq]
        subst e1
        have := ensureFree_get_some hb'
        rw [hb] at this; simp at this; rw [this]
  | «open» k0 sc =>
    rw [show (step s (.open k0 sc)).blobs = s.blobs from openB_blobs s k0 sc, hb] at hb'
    simp at hb'; rw [hb']
  | write k0 sc off p =>
    simp only [step, apply, write_eq] at hb'
    split at hb'
    · rw [hb] at hb'; simp at hb'; rw [hb']
    · rename_i b0 hl
      simp only [BMap.get_set] at hb'
      split at hb'
      · rename_i e; subst e
        have := (lookup_ok hl).1; rw [hb] at this; simp at this; subst this
        simp at hb'; rw [← hb']
      · rw [hb] at hb'; simp at hb'; rw [hb']
  | stat k0 sc =>
    have : (step s (.stat k0 sc)) = s := by simp only [step, apply, stat]; split <;> rfl
    rw [this, hb] at hb'; simp at hb'; rw [hb']
  | has k0 sc =>
    have : (step s (.has k0 sc)) = s := by simp only [step, apply, has]; split <;> rfl
    rw [this, hb] at hb'; simp at hb'; rw [hb']
  | markComplete k0 =>
    simp only [touchesMd, decide_eq_false_iff_not] at ht
    simp only [step, apply, markComplete] at hb'
    split at hb'
    · rw [hb] at hb'; simp at hb'; rw [hb']
    · split at hb'
      · rw [hb] at hb'; simp at hb'; rw [hb']
      · simp only [BMap.get_set_ne _ _ (fun e => ht e.symm)] at hb'
        rw [hb] at hb'; simp at hb'; rw [hb']
  | delete k0 sc =>
    simp only [step, apply] at hb'
    rw [delete_get] at hb'
    split at hb'
    · simp at hb'
    · rw [hb] at hb'; simp at hb'; rw [hb']
  | ban k0 sc =>
    simp only [step, apply, ban] at hb'
    split at hb'
    · rw [hb] at hb'; simp at hb'; rw [hb']
    · rename_i b0 hl
      have hb0 := (lookup_ok hl).1
      split at hb'
      · rw [hb] at hb'; simp at hb'; rw [hb']
      · split at hb'
        · split at hb'
          · simp only [BMap.get_set] at hb'
            split at hb'
            · rename_i e; subst e; rw [hb] at hb0; simp at hb0; subst hb0; simp at hb'; rw [← hb']
            · rw [hb] at hb'; simp at hb'; rw [hb']
          · rw [hb] at hb'; simp at hb'; rw [hb']
        · simp only [BMap.get_set] at hb'
          split at hb'
          · rename_i e; subst e; rw [hb] at hb0; simp at hb0; subst hb0; simp at hb'; rw [← hb']
          · rw [hb] at hb'; simp at hb'; rw [hb']
  | unban k0 sc =>
    simp only [step, apply, unban] at hb'
    split at hb'
    · rw [hb] at hb'; simp at hb'; rw [hb']
    · rename_i b0 hl
      have hb0 := (lookup_ok hl).1
      split at hb'
      · rw [hb] at hb'; simp at hb'; rw [hb']
      · simp only [BMap.get_set] at hb'
        split at hb'
        · rename_i e; subst e; rw [hb] at hb0; simp at hb0; subst hb0; simp at hb'; rw [← hb']
        · rw [hb] at hb'; simp at hb'; rw [hb']
  | setMd k0 sc m =>
    simp only [touchesMd, Bool.and_eq_false_imp, decide_eq_true_eq, decide_eq_false_iff_not] at ht
    simp only [step, apply, setMd] at hb'
    split at hb'
    · rw [hb] at hb'; simp at hb'; rw [hb']
    · rename_i b0 hl
      have hb0 := (lookup_ok hl).1
      simp only [BMap.get_set] at hb'
      split at hb'
      · rename_i e; subst e; rw [hb] at hb0; simp at hb0; subst hb0; simp at hb'; rw [← hb']
        exact mdGet_mdSet_ne _ _ (ht rfl)
      · rw [hb] at hb'; simp at hb'; rw [hb']
  | getMd k0 sc sfx0 =>
    have : (step s (.getMd k0 sc sfx0)) = s := by
      simp only [step, apply, getMd]; split
      · rfl
      · split <;> rfl
    rw [this, hb] at hb'; simp at hb'; rw [hb']
  | delMd k0 sc sfx0 =>
    simp only [touchesMd, Bool.and_eq_false_imp, decide_eq_true_eq, decide_eq_false_iff_not] at ht
    simp only [step, apply, delMd] at hb'
    split at hb'
    · rw [hb] at hb'; simp at hb'; rw [hb']
    · rename_i b0 hl
      have hb0 := (lookup_ok hl).1
      simp only [BMap.get_set] at hb'
      split at hb'
      · rename_i e; subst e; rw [hb] at hb0; simp at hb0; subst hb0; simp at hb'; rw [← hb']
        exact mdGet_mdDel_ne _ (ht rfl)
      · rw [hb] at hb'; simp at hb'; rw [hb']
  | listMd k0 sc =>
    have : (step s (.listMd k0 sc)) = s := by simp only [step, apply, listMd]; split <;> rfl
    rw [this, hb] at hb'; simp at hb'; rw [hb']
  | writeAtMd k0 sc sfx0 p off =>
    simp only [touchesMd, Bool.and_eq_false_imp, decide_eq_true_eq, decide_eq_false_iff_not] at ht
    simp only [step, apply, writeAtMd] at hb'
    split at hb'
    · rw [hb] at hb'; simp at hb'; rw [hb']
    · rename_i b0 hl
      have hb0 := (lookup_ok hl).1
      split at hb'
      · rw [hb] at hb'; simp at hb'; rw [hb']
      · rename_i m0 hm0
        simp only [BMap.get_set] at hb'
        split at hb'
        · rename_i e; subst e; rw [hb] at hb0; simp at hb0; subst hb0; simp at hb'; rw [← hb']
          have hsfx : m0.sfx = sfx0 := by
            have := List.find?_some hm0; simpa using this
          exact mdGet_mdSet_ne _ _ (by simp only [hsfx]; exact ht rfl)
        · rw [hb] at hb'; simp at hb'; rw [hb']
  | list sc => rw [show step s (.list sc) = s from rfl, hb] at hb'; simp at hb'; rw [hb']
  | clean pct r ord =>
    have := clean_get_some (show (clean s pct r ord).1.blobs.get k = some b' from hb')
    rw [hb] at this; simp at this; rw [this]

/-! ### Clean and the eviction ban -/

theorem evicted_not_banned {s : State} (hg : Good s) (space : Nat) {k : Key} {b : Blob}
    (hb : s.blobs.get k = some b) (hban : b.banned = true) : k ∉ (ensureFree s space).2.2 := by
  intro hm
  have hq : k ∈ s.queue := (evictLoop_prefix space s.queue s rfl).subset hm
  have := (queued_iff hg hb).mp hq
  simp [hban] at this

theorem ensureFree_keeps {s : State} (hg : Good s) (space : Nat) {k : Key} {b : Blob}
    (hb : s.blobs.get k = some b) (hban : b.banned = true) : (ensureFree s space).1.blobs.get k = some b := by
  have := evictLoop_get space k s.queue s
  unfold ensureFree
  rw [this]
  have hn := evicted_not_banned hg space hb hban
  unfold ensureFree at hn
  simp [hn, hb]

theorem cleanLoop_keeps {target : Nat} {ks : List Key} {s : State} {k : Key} {b : Blob}
    (hb : s.blobs.get k = some b) (hk : k ∉ ks) : (cleanLoop target ks s).1.blobs.get k = some b := by
  rw [cleanLoop_get]
  have : k ∉ (cleanLoop target ks s).2.2 := fun hm => hk (cleanLoop_sub target ks s k hm)
  simp [this, hb]

/-- `Clean(_, respectEvictionBan = true)` never removes a blob that is banned from eviction,
    whatever order the map is iterated in -/
theorem clean_keeps_banned {s : State} (hg : Good s) (pct : Int) (ord : List Key) {k : Key} {b : Blob}
    (hb : s.blobs.get k = some b) (hban : b.banned = true) :
    (clean s pct true ord).1.blobs.get k = some b := by
  unfold clean
  simp only
  split
  · exact hb
  · generalize hE : ensureFree s (s.cap - s.cap * pct.toNat % U64 / 100) = r1
    have h1 : r1.1.blobs.get k = some b := by rw [← hE]; exact ensureFree_keeps hg _ hb hban
    obtain ⟨s1, res, ev⟩ := r1
    cases res with
    | ok => exact h1
    | panic => exact h1
    | noSpace =>
      simp only
      have hk : k ∉ ord.filter (fun k => (s1.blobs.get k).isSome && !isBanned s1 k) := by
        simp only [List.mem_filter, not_and]
        intro _
        simp [isBanned, h1, hban]
      generalize hL : cleanLoop (s.cap * pct.toNat % U64 / 100) _ s1 = r2
      have h2 : r2.1.blobs.get k = some b := by rw [← hL]; exact cleanLoop_keeps h1 hk
      obtain ⟨s2, e, d2⟩ := r2
      cases e with
      | some e => exact h2
      | none => exact h2

/-! ### the capacity never changes -/

theorem cleanLoop_cap (target : Nat) : ∀ (ks : List Key) (s : State), (cleanLoop target ks s).1.cap = s.cap := by
  intro ks
  induction ks with
  | nil => intro s; rfl
  | cons k ks ih =>
    intro s
    simp only [cleanLoop]
    split
    · rfl
    · have hd : (delete s k .any).1.cap = s.cap := by simp only [delete]; split <;> rfl
      split
      · rename_i s' heq
        have e1 : s' = (delete s k .any).1 := by rw [heq]
        subst e1; rw [ih]; exact hd
      · rename_i s' o _ heq
        have e1 : s' = (delete s k .any).1 := by rw [heq]
        subst e1; exact hd

theorem clean_cap (s : State) (pct : Int) (r : Bool) (ord : List Key) : (clean s pct r ord).1.cap = s.cap := by
  unfold clean
  simp only
  split
  · rfl
  · generalize hE : ensureFree s (s.cap - s.cap * pct.toNat % U64 / 100) = r1
    have h1 : r1.1.cap = s.cap := by rw [← hE]; exact (evictLoop_frame _ s.queue s).1
    obtain ⟨s1, res, ev⟩ := r1
    cases res with
    | ok => exact h1
    | panic => exact h1
    | noSpace =>
      simp only
      generalize hL : cleanLoop (s.cap * pct.toNat % U64 / 100) _ s1 = r2
      have h2 : r2.1.cap = s.cap := by rw [← hL, cleanLoop_cap]; exact h1
      obtain ⟨s2, e, d2⟩ := r2
      cases e with
      | some e => exact h2
      | none =>
        simp only
        split
        · exact h2
        · generalize hL3 : cleanLoop (s.cap * pct.toNat % U64 / 100) _ s2 = r3
          have h3 : r3.1.cap = s.cap := by rw [← hL3, cleanLoop_cap]; exact h2
          obtain ⟨s3, e3, d3⟩ := r3
          exact h3

theorem step_cap (s : State) (o : Op) : (step s o).cap = s.cap := by
  cases o with
  | create k n d =>
    simp only [step, apply, create]
    split
    · rfl
    · have := (evictLoop_frame n s.queue s).1
      split <;> (rename_i s' _ heq; have e1 : s' = (ensureFree s n).1 := by rw [heq]
                 subst e1; exact this)
  | write k sc off p =>
    simp only [step, apply, write_eq]
    split
    · rfl
    · simp only [openB]; split
      · rfl
      · split <;> rfl
  | clean pct r ord => exact clean_cap s pct r ord
  | list sc => rfl
  | «open» k sc => simp only [step, apply, openB]; (repeat' split) <;> rfl
  | stat k sc => simp only [step, apply, stat]; (repeat' split) <;> rfl
  | has k sc => simp only [step, apply, has]; (repeat' split) <;> rfl
  | markComplete k => simp only [step, apply, markComplete]; (repeat' split) <;> rfl
  | delete k sc => simp only [step, apply, delete]; (repeat' split) <;> rfl
  | ban k sc => simp only [step, apply, ban]; (repeat' split) <;> rfl
  | unban k sc => simp only [step, apply, unban]; (repeat' split) <;> rfl
  | setMd k sc m => simp only [step, apply, setMd]; (repeat' split) <;> rfl
  | getMd k sc sfx => simp only [step, apply, getMd]; (repeat' split) <;> rfl
  | delMd k sc sfx => simp only [step, apply, delMd]; (repeat' split) <;> rfl
  | listMd k sc => simp only [step, apply, listMd]; (repeat' split) <;> rfl
  | writeAtMd k sc sfx p off => simp only [step, apply, writeAtMd]; (repeat' split) <;> rfl

theorem run_cap (cap : Nat) (ops : List Op) : ((sys cap).run ops).cap = cap :=
  Sys.run_inv (sys cap) (fun s => s.cap = cap) rfl (fun s o h => by
    show (step s o).cap = cap
    rw [step_cap]; exact h) ops

end KrakenModel.BlobStore
