import KrakenModel.Model.MetaInfo
/- Helper lemmas for Spec/C02 (core Lean only). -/
namespace KrakenModel.Proof.C02
open KrakenModel.MetaInfo KrakenModel.Codec

/-! ### chunks -/

theorem chunksAux_fuel2 {α : Type} (n : Nat) (hn : 0 < n) :
    ∀ (fuel : Nat) (data : List α) (f2 : Nat), data.length ≤ fuel → data.length ≤ f2 →
      chunksAux n fuel data = chunksAux n f2 data := by
  intro fuel
  induction fuel with
  | zero =>
    intro data f2 h _
    have : data = [] := List.eq_nil_of_length_eq_zero (by omega)
    subst this
    cases f2 <;> rfl
  | succ f ih =>
    intro data f2 h h2
    cases data with
    | nil => cases f2 <;> rfl
    | cons a as =>
      cases f2 with
      | zero => simp at h2
      | succ g =>
        have hl : ((a :: as).drop n).length ≤ as.length := by simp [List.length_drop]; omega
        simp only [List.length_cons] at h h2
        simp only [chunksAux]
        rw [ih ((a :: as).drop n) g (by omega) (by omega)]

theorem chunksAux_fuel {α : Type} (n : Nat) (hn : 0 < n) (fuel : Nat) (data : List α) (h : data.length ≤ fuel) :
    chunksAux n fuel data = chunksAux n data.length data :=
  chunksAux_fuel2 n hn fuel data data.length h (Nat.le_refl _)

theorem chunks_nil {α : Type} (n : Nat) : chunks n ([] : List α) = [] := rfl

theorem chunks_cons_eq {α : Type} (n : Nat) (hn : 0 < n) (data : List α) (h : data ≠ []) :
    chunks n data = data.take n :: chunks n (data.drop n) := by
  cases data with
  | nil => exact absurd rfl h
  | cons a as =>
    have hl : ((a :: as).drop n).length ≤ as.length := by simp [List.length_drop]; omega
    simp only [chunks, List.length_cons, chunksAux]
    rw [chunksAux_fuel n hn _ _ hl]

/-- closed form of the i-th chunk -/
theorem chunks_getElem? {α : Type} (n : Nat) (hn : 0 < n) :
    ∀ (i : Nat) (data : List α),
      (chunks n data)[i]? = if i * n < data.length then some ((data.drop (i * n)).take n) else none := by
  intro i
  induction i with
  | zero =>
    intro data
    cases data with
    | nil => simp [chunks_nil]
    | cons a as => rw [chunks_cons_eq n hn _ (by simp)]; simp
  | succ i ih =>
    intro data
    cases hd : data with
    | nil => simp [chunks_nil]
    | cons a as =>
      rw [chunks_cons_eq n hn _ (by simp), List.getElem?_cons_succ, ih, List.drop_drop, List.length_drop]
      have e : (i + 1) * n = n + i * n := by rw [Nat.succ_mul]; omega
      rw [e]
      simp only [List.length_cons]
      by_cases hlt : i * n < as.length + 1 - n
      · have : n + i * n < as.length + 1 := by omega
        rw [if_pos hlt, if_pos this]
      · rw [if_neg hlt, if_neg (by omega)]

theorem chunks_flatten {α : Type} (n : Nat) (hn : 0 < n) :
    ∀ (k : Nat) (data : List α), data.length ≤ k → (chunks n data).flatten = data := by
  intro k
  induction k with
  | zero =>
    intro data h
    have : data = [] := List.eq_nil_of_length_eq_zero (by omega)
    subst this; rfl
  | succ k ih =>
    intro data h
    cases hd : data with
    | nil => rfl
    | cons a as =>
      rw [chunks_cons_eq n hn _ (by simp), List.flatten_cons, ih, List.take_append_drop]
      subst hd
      simp only [List.length_drop, List.length_cons] at h ⊢
      omega

theorem chunks_length {α : Type} (n : Nat) (hn : 0 < n) :
    ∀ (k : Nat) (data : List α), data.length ≤ k → (chunks n data).length = (data.length + n - 1) / n := by
  intro k
  induction k with
  | zero =>
    intro data h
    have : data = [] := List.eq_nil_of_length_eq_zero (by omega)
    subst this
    simp only [chunks_nil, List.length_nil, Nat.zero_add]
    exact (Nat.div_eq_of_lt (by omega)).symm
  | succ k ih =>
    intro data h
    cases hd : data with
    | nil =>
      simp only [chunks_nil, List.length_nil, Nat.zero_add]
      exact (Nat.div_eq_of_lt (by omega)).symm
    | cons a as =>
      subst hd
      rw [chunks_cons_eq n hn _ (by simp), List.length_cons, ih _ (by simp only [List.length_drop, List.length_cons] at h ⊢; omega)]
      simp only [List.length_drop, List.length_cons]
      have e1 : as.length + 1 + n - 1 = as.length + n := by omega
      rw [e1, Nat.add_div_right _ hn]
      by_cases hge : n ≤ as.length + 1
      · have : as.length + 1 - n + n - 1 = as.length := by omega
        rw [this]
      · have h1 : as.length + 1 - n + n - 1 = n - 1 := by omega
        rw [h1, Nat.div_eq_of_lt (show n - 1 < n by omega), Nat.div_eq_of_lt (show as.length < n by omega)]

/-! ### the loops -/

theorem streamLoop_succ (crc : Bytes → Nat) (pl f : Nat) (rest : Bytes) (len : Nat) (sums : List Nat) :
    streamLoop crc pl (f + 1) rest len sums =
      if (rest.take pl).length = 0 then some (len + (rest.take pl).length, sums)
      else if (rest.take pl).length < pl then some (len + (rest.take pl).length, sums ++ [crc (rest.take pl)])
      else streamLoop crc pl f (rest.drop pl) (len + (rest.take pl).length) (sums ++ [crc (rest.take pl)]) := rfl

theorem streamLoop_spec (crc : Bytes → Nat) (pl : Nat) (hpl : 0 < pl) :
    ∀ (fuel : Nat) (rest : Bytes) (len : Nat) (sums : List Nat), rest.length < fuel →
      streamLoop crc pl fuel rest len sums = some (len + rest.length, sums ++ (chunks pl rest).map crc) := by
  intro fuel
  induction fuel with
  | zero => intro rest len sums h; omega
  | succ f ih =>
    intro rest len sums h
    rw [streamLoop_succ]
    cases hr : rest with
    | nil => simp [chunks_nil]
    | cons a as =>
      subst hr
      have hne : (a :: as) ≠ [] := by simp
      have hlen : ((a :: as).take pl).length = min pl (as.length + 1) := by simp
      have hpos : ((a :: as).take pl).length ≠ 0 := by rw [hlen]; omega
      rw [chunks_cons_eq pl hpl _ hne, if_neg hpos]
      by_cases hshort : ((a :: as).take pl).length < pl
      · have hd : (a :: as).drop pl = [] := by
          apply List.drop_eq_nil_of_le; rw [hlen] at hshort; simp only [List.length_cons]; omega
        have hl2 : ((a :: as).take pl).length = (a :: as).length := by
          rw [hlen] at hshort ⊢; simp only [List.length_cons]; omega
        rw [if_pos hshort, hd, chunks_nil, hl2]
        simp
      · rw [if_neg hshort, ih _ _ _ (by simp only [List.length_drop, List.length_cons] at h ⊢; omega)]
        have : len + ((a :: as).take pl).length + ((a :: as).drop pl).length = len + (a :: as).length := by
          rw [hlen] at hshort ⊢; simp only [List.length_drop, List.length_cons]; omega
        rw [this]
        simp

theorem bytesLoop_spec (crc : Bytes → Nat) (pl : Nat) (hpl : 0 < pl) (data : Bytes) :
    ∀ (fuel offset : Nat) (sums : List Nat), data.length ≤ offset + fuel →
      bytesLoop crc pl data.length data fuel offset sums
        = some (sums ++ (chunks pl (data.drop offset)).map crc) := by
  intro fuel
  induction fuel with
  | zero =>
    intro offset sums h
    have hd : data.drop offset = [] := List.drop_eq_nil_of_le (by omega)
    have : ¬ offset < data.length := by omega
    simp [bytesLoop, this, hd, chunks_nil]
  | succ f ih =>
    intro offset sums h
    unfold bytesLoop
    by_cases hlt : offset < data.length
    · simp only [hlt, if_true]
      have hne : data.drop offset ≠ [] := by
        intro h0
        have := congrArg List.length h0
        simp only [List.length_drop, List.length_nil] at this
        omega
      rw [ih _ _ (by omega), chunks_cons_eq pl hpl _ hne, List.drop_drop]
      have htake : (data.drop offset).take ((if offset + pl > data.length then data.length else offset + pl) - offset)
          = (data.drop offset).take pl := by
        split
        · rename_i hgt
          rw [List.take_of_length_le (by simp only [List.length_drop]; omega),
              List.take_of_length_le (by simp only [List.length_drop]; omega)]
        · congr 1; omega
      rw [htake]
      simp [Nat.add_comm]
    · have hd : data.drop offset = [] := List.drop_eq_nil_of_le (by omega)
      simp [hlt, hd, chunks_nil]

/-! ### JSON -/

theorem scanSums_digits (ds r cur : List Char) (acc : List Nat) (hd : ∀ c ∈ ds, c.isDigit = true) :
    scanSums (ds ++ r) cur acc = scanSums r (cur ++ ds) acc := by
  induction ds generalizing cur with
  | nil => simp
  | cons c cs ih =>
    have hc : c.isDigit = true := hd c (by simp)
    simp only [List.cons_append, scanSums, hc, if_true]
    rw [ih _ (fun x hx => hd x (by simp [hx]))]
    simp

theorem scanSums_list (a : Nat) (as : List Nat) (r : List Char) (acc : List Nat) :
    scanSums (dec a ++ (as.flatMap fun x => ',' :: dec x) ++ ']' :: r) [] acc = some (acc ++ a :: as, r) := by
  induction as generalizing a acc with
  | nil =>
    simp only [List.flatMap_nil, List.append_nil]
    rw [scanSums_digits _ _ _ _ (dec_all_digits a)]
    have hne : (dec a).isEmpty = false := by
      cases h : dec a with
      | nil => exact absurd h (dec_ne_nil _)
      | cons _ _ => rfl
    simp [scanSums, Char.isDigit, hne]
  | cons b bs ih =>
    simp only [List.flatMap_cons, List.append_assoc, List.cons_append]
    rw [scanSums_digits _ _ _ _ (dec_all_digits a)]
    have hne : (dec a).isEmpty = false := by
      cases h : dec a with
      | nil => exact absurd h (dec_ne_nil _)
      | cons _ _ => rfl
    have := ih b (acc ++ [a])
    simp only [List.append_assoc] at this
    simp [scanSums, Char.isDigit, hne, this]

theorem readSums_sumsStr (s : Option (List Nat)) (r : List Char) :
    readSums (sumsStr s ++ r) = some (s, r) := by
  cases s with
  | none => simp [sumsStr, readSums, lit]
  | some l =>
    cases l with
    | nil => simp [sumsStr, readSums, lit, scanSums, Char.isDigit]
    | cons a as =>
      have := scanSums_list a as r []
      simp only [List.nil_append] at this
      simp only [sumsStr, List.cons_append, List.append_assoc, readSums, lit]
      simp only [List.append_assoc] at this
      simp [this]

theorem takeWhile_name (name r : List Char) (hn : ∀ c ∈ name, (c != '"') = true) :
    (name ++ '"' :: r).takeWhile (· != '"') = name ∧ (name ++ '"' :: r).dropWhile (· != '"') = '"' :: r := by
  rw [List.takeWhile_append_of_pos hn, List.dropWhile_append_of_pos hn]
  simp

theorem jsonPlain_ne_quote {c : Char} (h : jsonPlain c = true) : (c != '"') = true := by
  simp only [jsonPlain, Bool.and_eq_true, decide_eq_true_eq] at h
  have h34 : c.toNat ≠ 34 := h.1.1.1.1.2
  simp only [bne_iff_ne, ne_eq]
  intro hc; subst hc; exact h34 (by decide)

theorem isHex_jsonPlain {c : Char} (h : isHex c = true) : jsonPlain c = true := by
  simp only [isHex, Bool.or_eq_true, Bool.and_eq_true, decide_eq_true_eq] at h
  simp only [jsonPlain, Bool.and_eq_true, decide_eq_true_eq]
  omega

/-! ### insertion sort of the table -/

theorem insertRange_perm (r : Range) (l : List Range) : (insertRange r l).Perm (r :: l) := by
  induction l with
  | nil => exact List.Perm.refl _
  | cons x xs ih =>
    simp only [insertRange]
    split
    · exact List.Perm.refl _
    · exact (List.Perm.cons x ih).trans (List.Perm.swap r x xs)

theorem isort_perm (l : List Range) : (isort l).Perm l := by
  induction l with
  | nil => exact List.Perm.refl _
  | cons r rs ih => exact (insertRange_perm r (isort rs)).trans (List.Perm.cons r ih)

theorem insertRange_sorted (r : Range) (l : List Range)
    (hs : l.Pairwise (fun a b => a.fileSize ≤ b.fileSize)) :
    (insertRange r l).Pairwise (fun a b => a.fileSize ≤ b.fileSize) := by
  induction l with
  | nil => simp [insertRange]
  | cons x xs ih =>
    have hs' := List.pairwise_cons.mp hs
    simp only [insertRange]
    split
    · rename_i hle
      refine List.pairwise_cons.mpr ⟨?_, hs⟩
      intro y hy
      rcases List.mem_cons.mp hy with h | h
      · subst h; exact hle
      · have := hs'.1 y h; omega
    · rename_i hnle
      refine List.pairwise_cons.mpr ⟨?_, ih hs'.2⟩
      intro y hy
      have hy' := (insertRange_perm r xs).mem_iff.mp hy
      rcases List.mem_cons.mp hy' with h | h
      · subst h; omega
      · exact hs'.1 y h

theorem isort_sorted (l : List Range) : (isort l).Pairwise (fun a b => a.fileSize ≤ b.fileSize) := by
  induction l with
  | nil => simp [isort]
  | cons r rs ih => exact insertRange_sorted r _ ih

theorem readInfo_serializeInfo (i : Info) (hn : i.name.all jsonPlain = true) :
    readInfo (serializeInfo i) = some i := by
  have hq : ∀ c ∈ i.name, (c != '"') = true := fun c hc => jsonPlain_ne_quote (List.all_eq_true.mp hn c hc)
  unfold serializeInfo readInfo
  simp only [List.append_assoc, lit_append, Option.bind_eq_bind, Option.bind_some]
  rw [readInt_intStr _ _ (by intro c hc; simp [kPieceSums] at hc; subst hc; decide)]
  simp only [Option.bind_some, lit_append]
  rw [readSums_sumsStr]
  simp only [Option.bind_some, lit_append]
  have hk : kLength ++ (intStr i.length ++ kEnd) = '"' :: ([',','"','L','e','n','g','t','h','"',':'] ++ (intStr i.length ++ kEnd)) := rfl
  rw [hk]
  obtain ⟨h1, h2⟩ := takeWhile_name i.name ([',','"','L','e','n','g','t','h','"',':'] ++ (intStr i.length ++ kEnd)) hq
  rw [h1, h2, ← hk, lit_append]
  simp only [Option.bind_some]
  rw [readInt_intStr _ _ (by intro c hc; simp [kEnd] at hc; subst hc; decide)]
  have hself : lit kEnd kEnd = some [] := by simpa using lit_append kEnd []
  simp [hself]

/-! ### piece-length table -/

theorem getLoop_none (size : Int) : ∀ (rs : List Range) (pl : Int),
    (∀ r ∈ rs, size < r.fileSize) → getLoop size rs pl = pl := by
  intro rs
  cases rs with
  | nil => intro pl _; rfl
  | cons r rs => intro pl h; simp [getLoop, h r (by simp)]

theorem getLoop_spec (size : Int) : ∀ (rs : List Range) (pl : Int),
    rs.Pairwise (fun a b => a.fileSize < b.fileSize) →
    getLoop size rs pl = match (rs.filter (fun r => decide (r.fileSize ≤ size))).getLast? with
      | some r => r.pieceLength
      | none => pl := by
  intro rs
  induction rs with
  | nil => intro pl _; rfl
  | cons r rs ih =>
    intro pl hs
    have hs' := List.pairwise_cons.mp hs
    by_cases hlt : size < r.fileSize
    · have hall : ∀ x ∈ rs, size < x.fileSize := fun x hx => by have := hs'.1 x hx; omega
      have hf : (r :: rs).filter (fun r => decide (r.fileSize ≤ size)) = [] := by
        apply List.filter_eq_nil_iff.mpr
        intro x hx
        rcases List.mem_cons.mp hx with h | h
        · subst h; simp; omega
        · have := hall x h; simp; omega
      simp [getLoop, hlt, hf]
    · have hle : r.fileSize ≤ size := by omega
      simp only [getLoop, hlt, if_false]
      rw [ih _ hs'.2, List.filter_cons_of_pos (by simpa using hle)]
      cases hf : rs.filter (fun r => decide (r.fileSize ≤ size)) with
      | nil => simp
      | cons y ys =>
        simp only [List.getLast?_cons_cons]
        cases hg : (y :: ys).getLast? with
        | none => simp at hg
        | some z => rfl

end KrakenModel.Proof.C02
