import KrakenModel.Proof.C31
import KrakenModel.Proof.RetryLift
/-
  Helper lemmas for the restart-free form of C31's "eventually in the backend": every Add that is
  between its store call and its channel send belongs to a writeBack call that is parked exactly
  there (`AddingOk`), so the retry manager's own `addEnq` steps can be performed by `wbStep`s and
  the system steps of `Retry.can_reach_exec` lift to steps of the composition without a restart.
-/
namespace KrakenModel.OriginWB
open KrakenModel.Retry (Key)

variable (dig : Key → Digest)

/-! ### retry manager: where `adding` entries come from -/

theorem mem_place {own : List (Key × Retry.Place)} {k : Key} {p : Retry.Place} {e : Key × Retry.Place}
    (h : e ∈ Retry.place own k p) : (e ∈ own ∧ e.1 ≠ k) ∨ e = (k, p) := by
  simp only [Retry.place, List.mem_append, List.mem_filter, List.mem_singleton] at h
  rcases h with ⟨h1, h2⟩ | h
  · exact Or.inl ⟨h1, by simpa using h2⟩
  · exact Or.inr h

theorem mem_dropKey {own : List (Key × Retry.Place)} {k : Key} {e : Key × Retry.Place}
    (h : e ∈ Retry.dropKey own k) : e ∈ own ∧ e.1 ≠ k := by
  simp only [Retry.dropKey, List.mem_filter] at h
  exact ⟨h.1, by simpa using h.2⟩

theorem adding_enqueue (r : Retry.State) (k : Key) (p : Retry.Pool) (e : Key × Retry.Place)
    (h : e ∈ (Retry.enqueue r k p).1.own) (ha : e.2 = .adding) : e ∈ r.own ∧ e.1 ≠ k := by
  unfold Retry.enqueue at h
  split at h
  · rcases mem_place h with h | rfl
    · exact h
    · cases ha
  · split at h <;> exact mem_dropKey h

/-- no step other than an `addBegin` creates an `adding` entry -/
theorem adding_sub (r : Retry.State) (o : Retry.Op) (ho : ∀ k d pl, o ≠ .addBegin k d pl)
    (e : Key × Retry.Place) (h : e ∈ (Retry.step r o).own) (ha : e.2 = .adding) : e ∈ r.own := by
  cases o with
  | addBegin k d pl => exact absurd rfl (ho k d pl)
  | addEnq k =>
    simp only [Retry.step, Retry.stepO] at h
    split at h
    · exact (adding_enqueue r k .inc e h ha).1
    · exact h
  | pollFetch => simp only [Retry.step, Retry.stepO] at h; split at h <;> exact h
  | pollMark =>
    simp only [Retry.step, Retry.stepO] at h
    split at h
    · exact h
    · split at h
      · exact h
      · split at h
        · split at h
          · rcases mem_place h with h | rfl
            · exact h.1
            · cases ha
          · exact h
        · exact h
  | pollEnq =>
    simp only [Retry.step, Retry.stepO] at h
    split at h
    · exact h
    · exact (adding_enqueue r _ .ret e h ha).1
  | take p =>
    simp only [Retry.step, Retry.stepO] at h
    split at h
    · exact h
    · split at h
      · rcases mem_place h with h | rfl
        · exact h.1
        · cases ha
      · exact h
  | finish k ok =>
    simp only [Retry.step, Retry.stepO] at h
    split at h
    · split at h
      · exact (mem_dropKey h).1
      · split at h
        · exact (mem_dropKey h).1
        · exact (mem_dropKey h).1
    · exact h
  | advance dt => exact h
  | close => simp only [Retry.step, Retry.stepO] at h; split at h <;> exact h
  | crash =>
    simp only [Retry.step, Retry.stepO] at h
    split at h
    · exact h
    · cases h
  | start inv =>
    simp only [Retry.step, Retry.stepO] at h
    split at h
    · cases h
    · exact h

/-- after the send of `k`'s Add, `k` is no longer `adding` -/
theorem addEnq_not_adding (r : Retry.State) (k : Key) (hp : Retry.placeOf r.own k = some .adding) :
    (k, Retry.Place.adding) ∉ (Retry.stepO r (.addEnq k)).1.own := by
  intro h
  simp only [Retry.stepO, hp, if_true] at h
  exact (adding_enqueue r k .inc _ h rfl).2 rfl

theorem adding_addBegin (r : Retry.State) (k : Key) (d : Nat) (pl : List Nat) (e : Key × Retry.Place)
    (h : e ∈ (Retry.stepO r (.addBegin k d pl)).1.own) (ha : e.2 = .adding) :
    e ∈ r.own ∨ (e = (k, .adding) ∧ (Retry.stepO r (.addBegin k d pl)).2 = .addedPending) := by
  simp only [Retry.stepO] at h ⊢
  split at h
  · split at h
    · exact Or.inl h
    · split at h
      · rename_i hm hk hd
        rcases mem_place h with h | rfl
        · exact Or.inl h.1
        · right
          simp [hm, hk, hd]
      · exact Or.inl h
  · exact Or.inl h

theorem placeOf_of_mem {own : List (Key × Retry.Place)} (hn : (Retry.okeys own).Nodup) {k : Key} {p : Retry.Place}
    (h : (k, p) ∈ own) : Retry.placeOf own k = some p := by
  induction own with
  | nil => cases h
  | cons e rest ih =>
    simp only [Retry.okeys, List.map_cons, List.nodup_cons] at hn
    rcases List.mem_cons.mp h with rfl | h
    · simp [Retry.placeOf]
    · have hne : e.1 ≠ k := by
        intro he
        exact hn.1 (List.mem_map.mpr ⟨(k, p), h, he.symm⟩)
      have := ih hn.2 h
      simp only [Retry.placeOf, List.find?_cons, hne, decide_false] at this ⊢
      exact this

/-! ### threads -/

theorem find_setPc_ne (ts : List Thread) (k x : Key) (pc : WbPc) (h : x ≠ k) :
    (setPc ts k pc).find? (fun t => t.key = x) = ts.find? (fun t => t.key = x) := by
  induction ts with
  | nil => rfl
  | cons t ts ih =>
    simp only [setPc]
    split
    · rename_i hk
      have : t.key ≠ x := fun e => h (e.symm.trans hk)
      simp [this]
    · simp only [List.find?_cons]
      split
      · rfl
      · exact ih

theorem find_dropThread_ne (ts : List Thread) (k x : Key) (h : x ≠ k) :
    (dropThread ts k).find? (fun t => t.key = x) = ts.find? (fun t => t.key = x) := by
  induction ts with
  | nil => rfl
  | cons t ts ih =>
    simp only [dropThread]
    split
    · rename_i hk
      have : t.key ≠ x := fun e => h (e.symm.trans hk)
      simp [this]
    · simp only [List.find?_cons]
      split
      · rfl
      · exact ih

theorem find_setPc_self (ts : List Thread) (k : Key) (pc : WbPc) (t : Thread)
    (h : ts.find? (fun t => t.key = k) = some t) :
    (setPc ts k pc).find? (fun t => t.key = k) = some { t with pc := pc } := by
  induction ts with
  | nil => cases h
  | cons t0 ts ih =>
    simp only [setPc]
    by_cases hk : t0.key = k
    · simp only [hk, if_true]
      simp only [List.find?_cons, hk, decide_true] at h
      injection h with h
      subst h
      simp [hk]
    · simp only [hk, if_false]
      simp only [List.find?_cons, hk, decide_false] at h ⊢
      exact ih h

/-- every Add between its store call and its send belongs to a writeBack call parked at that point -/
def AddingOk (s : State) : Prop :=
  ∀ x, (x, Retry.Place.adding) ∈ s.r.own → ∃ t, s.wb.find? (fun t => t.key = x) = some t ∧ t.pc = .enq

theorem addingOk_of (s s' : State) (h : AddingOk s) (hw : s'.wb = s.wb)
    (ho : ∀ e ∈ s'.r.own, e.2 = .adding → e ∈ s.r.own) : AddingOk s' := by
  intro x hx
  rw [hw]
  exact h x (ho _ hx rfl)

theorem fcRun_r_wb (s : State) (p : Paused) (downs : List Key) :
    (fcRun dig s p downs).r = s.r ∧ (fcRun dig s p downs).wb = s.wb := by
  unfold fcRun
  split
  · split <;> exact ⟨rfl, rfl⟩
  · exact ⟨rfl, rfl⟩

theorem step_addingOk (s : State) (o : Op) (g : Retry.Good s.r) (h : AddingOk s) : AddingOk (step dig s o) := by
  cases o with
  | upload k d =>
    intro x hx
    obtain ⟨t, ht, hpc⟩ := h x hx
    exact ⟨t, by simp only [step, List.find?_append, ht, Option.some_or], hpc⟩
  | wbStep k =>
    simp only [step]
    cases hf : s.wb.find? (fun t => t.key = k) with
    | none => exact h
    | some t =>
      -- `k` itself is not `adding` unless this thread is parked at the send
      have hself : t.pc ≠ .enq → (k, Retry.Place.adding) ∉ s.r.own := by
        intro hne hk
        obtain ⟨t', ht', hpc⟩ := h k hk
        rw [hf] at ht'
        injection ht' with ht'
        subst ht'
        exact hne hpc
      -- other keys: their first thread is untouched
      have other : ∀ (s' : State), (s'.wb = setPc s.wb k .add ∨ s'.wb = setPc s.wb k .enq ∨
            s'.wb = setPc s.wb k .generate ∨ s'.wb = setPc s.wb k .ack ∨ s'.wb = dropThread s.wb k) →
          ∀ x, x ≠ k → (x, Retry.Place.adding) ∈ s.r.own →
            ∃ t, s'.wb.find? (fun t => t.key = x) = some t ∧ t.pc = .enq := by
        intro s' hw x hxk hx
        obtain ⟨t', ht', hpc⟩ := h x hx
        refine ⟨t', ?_, hpc⟩
        rcases hw with hw | hw | hw | hw | hw <;> rw [hw]
        · rw [find_setPc_ne _ _ _ _ hxk]; exact ht'
        · rw [find_setPc_ne _ _ _ _ hxk]; exact ht'
        · rw [find_setPc_ne _ _ _ _ hxk]; exact ht'
        · rw [find_setPc_ne _ _ _ _ hxk]; exact ht'
        · rw [find_dropThread_ne _ _ _ hxk]; exact ht'
      simp only
      cases hpc : t.pc with
      | setPersist =>
        simp only
        split
        · intro x hx
          by_cases hxk : x = k
          · subst hxk; exact absurd hx (hself (by rw [hpc]; simp))
          · exact other _ (Or.inl rfl) x hxk hx
        · intro x hx
          by_cases hxk : x = k
          · subst hxk; exact absurd hx (hself (by rw [hpc]; simp))
          · exact other _ (Or.inr (Or.inr (Or.inr (Or.inr rfl)))) x hxk hx
      | add =>
        simp only
        have hab := adding_addBegin s.r k t.delay []
        cases hr : Retry.stepO s.r (.addBegin k t.delay []) with
        | mk r' o' =>
          rw [hr] at hab
          simp only at hab
          have old : ∀ x, (x, Retry.Place.adding) ∈ r'.own → x ≠ k → (x, Retry.Place.adding) ∈ s.r.own := by
            intro x hx hxk
            rcases hab _ hx rfl with h1 | ⟨h1, _⟩
            · exact h1
            · injection h1 with h1 _; exact absurd h1 hxk
          have selfOld : o' ≠ .addedPending → (k, Retry.Place.adding) ∉ r'.own := by
            intro hne hk
            rcases hab _ hk rfl with h1 | ⟨_, h1⟩
            · exact hself (by rw [hpc]; simp) h1
            · exact hne h1
          cases o' <;> simp only
          case addedPending =>
            intro x hx
            by_cases hxk : x = k
            · subst hxk
              exact ⟨{ t with pc := .enq }, find_setPc_self _ _ _ _ hf, rfl⟩
            · exact other { s with r := r', wb := setPc s.wb k .enq } (Or.inr (Or.inl rfl)) x hxk (old x hx hxk)
          case addedFailed =>
            intro x hx
            by_cases hxk : x = k
            · subst hxk; exact absurd hx (selfOld (by simp))
            · exact other { s with r := r', wb := setPc s.wb k .generate } (Or.inr (Or.inr (Or.inl rfl))) x hxk (old x hx hxk)
          case dup =>
            intro x hx
            by_cases hxk : x = k
            · subst hxk; exact absurd hx (selfOld (by simp))
            · exact other { s with r := r', wb := setPc s.wb k .generate } (Or.inr (Or.inr (Or.inl rfl))) x hxk (old x hx hxk)
          all_goals
            intro x hx
            by_cases hxk : x = k
            · subst hxk; exact absurd hx (selfOld (by simp))
            · exact other { s with r := r', wb := dropThread s.wb k } (Or.inr (Or.inr (Or.inr (Or.inr rfl)))) x hxk (old x hx hxk)
      | enq =>
        simp only
        have hsub : ∀ e ∈ (Retry.stepO s.r (.addEnq k)).1.own, e.2 = .adding → e ∈ s.r.own :=
          fun e he ha => adding_sub s.r (.addEnq k) (by intro _ _ _ hh; cases hh) e he ha
        have hnot : (k, Retry.Place.adding) ∉ (Retry.stepO s.r (.addEnq k)).1.own := by
          by_cases hp : Retry.placeOf s.r.own k = some .adding
          · exact addEnq_not_adding s.r k hp
          · intro hk
            have : (Retry.stepO s.r (.addEnq k)).1 = s.r := by simp [Retry.stepO, hp]
            rw [this] at hk
            exact hp (placeOf_of_mem g.ownNodup hk)
        cases hr : Retry.stepO s.r (.addEnq k) with
        | mk r' o' =>
          rw [hr] at hsub hnot
          simp only at hsub hnot
          cases o' <;> simp only
          case errNotFound =>
            intro x hx
            by_cases hxk : x = k
            · subst hxk; exact absurd hx hnot
            · exact other { s with r := r', wb := dropThread s.wb k } (Or.inr (Or.inr (Or.inr (Or.inr rfl)))) x hxk (hsub _ hx rfl)
          all_goals
            intro x hx
            by_cases hxk : x = k
            · subst hxk; exact absurd hx hnot
            · exact other { s with r := r', wb := setPc s.wb k .generate } (Or.inr (Or.inr (Or.inl rfl))) x hxk (hsub _ hx rfl)
      | generate =>
        simp only
        split
        · intro x hx
          by_cases hxk : x = k
          · subst hxk; exact absurd hx (hself (by rw [hpc]; simp))
          · exact other _ (Or.inr (Or.inr (Or.inr (Or.inl rfl)))) x hxk hx
        · intro x hx
          by_cases hxk : x = k
          · subst hxk; exact absurd hx (hself (by rw [hpc]; simp))
          · exact other _ (Or.inr (Or.inr (Or.inr (Or.inr rfl)))) x hxk hx
      | ack =>
        simp only
        intro x hx
        by_cases hxk : x = k
        · subst hxk; exact absurd hx (hself (by rw [hpc]; simp))
        · exact other { s with acked := ins s.acked k, wb := dropThread s.wb k } (Or.inr (Or.inr (Or.inr (Or.inr rfl)))) x hxk hx
  | retry o =>
    simp only [step]
    split
    · rename_i hi
      refine addingOk_of s _ h rfl ?_
      intro e he ha
      exact adding_sub s.r o (by intro k d pl hh; subst hh; simp [internalOp] at hi) e he ha
    · exact h
  | exec k up =>
    simp only [step]
    split
    · refine addingOk_of s _ h rfl ?_
      intro e he ha
      exact adding_sub s.r _ (by intro _ _ _ hh; cases hh) e he ha
    · exact h
  | delete d => simp only [step]; split <;> exact h
  | fcBegin d => simp only [step]; split <;> exact h
  | fcFinish d downs =>
    simp only [step]
    split
    · exact h
    · rename_i p rest _
      have := fcRun_r_wb dig { s with fc := rest } p downs
      exact addingOk_of s _ h this.2 (by intro e he _; rw [this.1] at he; exact he)
  | fcAtomic d downs =>
    simp only [step]
    split
    · have := fcRun_r_wb dig s (fcSnapshot dig s d) downs
      exact addingOk_of s _ h this.2 (by intro e he _; rw [this.1] at he; exact he)
    · exact h
  | restart =>
    intro x hx
    have : (step dig s .restart).r.own = [] := (Retry.restart_facts s.r).2.2
    rw [this] at hx
    cases hx
  | fetch d => exact h

/-! ### the retry component stays `Good` under every step of the composition -/

theorem step_good_r (s : State) (o : Op) (g : Retry.Good s.r) : Retry.Good (step dig s o).r := by
  cases o with
  | upload k d => exact g
  | wbStep k =>
    simp only [step]
    split
    · exact g
    · rename_i t _
      cases t.pc <;> simp only
      case setPersist => split <;> exact g
      case add =>
        have := Retry.step_good s.r (.addBegin k t.delay []) g
        cases hr : Retry.stepO s.r (.addBegin k t.delay []) with
        | mk r' o' =>
          have hr' : r' = Retry.step s.r (.addBegin k t.delay []) := by simp [Retry.step, hr]
          cases o' <;> simp only <;> (rw [hr']; exact this)
      case enq =>
        have := Retry.step_good s.r (.addEnq k) g
        cases hr : Retry.stepO s.r (.addEnq k) with
        | mk r' o' =>
          have hr' : r' = Retry.step s.r (.addEnq k) := by simp [Retry.step, hr]
          cases o' <;> simp only <;> (rw [hr']; exact this)
      case generate => split <;> exact g
      case ack => exact g
  | retry o =>
    simp only [step]
    split
    · exact Retry.step_good _ _ g
    · exact g
  | exec k up =>
    simp only [step]
    split
    · exact Retry.step_good _ _ g
    · exact g
  | delete d => simp only [step]; split <;> exact g
  | fcBegin d => simp only [step]; split <;> exact g
  | fcFinish d downs =>
    simp only [step]
    split
    · exact g
    · rename_i p rest _
      rw [(fcRun_r_wb dig { s with fc := rest } p downs).1]; exact g
  | fcAtomic d downs =>
    simp only [step]
    split
    · rw [(fcRun_r_wb dig s (fcSnapshot dig s d) downs).1]; exact g
    · exact g
  | restart => exact Retry.step_good _ _ (Retry.step_good _ _ g)
  | fetch d => exact g

theorem good_addingOk_run (cfg : Retry.Config) (ops : List Op) :
    Retry.Good (run dig cfg ops).r ∧ AddingOk (run dig cfg ops) := by
  unfold run
  have h0 : Retry.Good (init cfg).r ∧ AddingOk (init cfg) :=
    ⟨Retry.good_init cfg, by intro x hx; simp [init, Retry.init] at hx⟩
  generalize init cfg = s at h0
  induction ops generalizing s with
  | nil => exact h0
  | cons o rest ih => exact ih _ ⟨step_good_r dig s o h0.1, step_addingOk dig s o h0.1 h0.2⟩

/-! ### lifting the retry manager's system steps, without a restart -/

/-- the step of the composition that performs a retry-manager system step in state `s`: an Add's
channel send is the next step of the writeBack call parked there -/
def liftS (s : State) : Retry.Op → Op
  | .finish k _ => .exec k true
  | .addEnq x => if Retry.placeOf s.r.own x = some .adding then .wbStep x else .retry (.addEnq x)
  | o => .retry o

def liftRun : List Retry.Op → State → List Op
  | [], _ => []
  | o :: rest, s => liftS s o :: liftRun rest (step dig s (liftS s o))

theorem runExecutor_ok_up (cache persist : List Digest) (backend : List Key) (t : Key) :
    (runExecutor dig cache persist backend t true).1 = true := by
  simp only [runExecutor]
  split
  · rfl
  · split <;> simp

theorem liftS_step (s : State) (o : Retry.Op) (ho : Retry.SysOp o) (ha : AddingOk s) :
    (step dig s (liftS s o)).r = Retry.step s.r o ∧ (step dig s (liftS s o)).cache = s.cache ∧
    (∀ x ∈ s.backend, x ∈ (step dig s (liftS s o)).backend) := by
  cases o <;> simp only [Retry.SysOp] at ho
  case finish k ok =>
    subst ho
    simp only [liftS, step]
    cases hp : Retry.placeOf s.r.own k with
    | none => simp [Retry.step, Retry.stepO, hp]
    | some pl =>
      cases pl with
      | running p =>
        have hok := runExecutor_ok_up dig s.cache s.persist s.backend k
        obtain ⟨e1, _⟩ := runExecutor_spec dig s.cache s.persist s.backend k true
        refine ⟨?_, ?_, ?_⟩
        · show Retry.step s.r (.finish k (runExecutor dig s.cache s.persist s.backend k true).1) = _
          rw [hok]
        · rfl
        · exact e1
      | adding => simp [Retry.step, Retry.stepO, hp]
      | retrying => simp [Retry.step, Retry.stepO, hp]
      | queued p => simp [Retry.step, Retry.stepO, hp]
  case addEnq x =>
    by_cases hp : Retry.placeOf s.r.own x = some .adding
    · obtain ⟨t, ht, hpc⟩ := ha x (Retry.mem_of_placeOf hp)
      simp only [liftS, hp, if_true, step, ht, hpc]
      cases hr : Retry.stepO s.r (.addEnq x) with
      | mk r' o' => cases o' <;> simp [Retry.step, hr]
    · simp [liftS, hp, step, internalOp, Retry.step, Retry.stepO]
  all_goals simp [liftS, step, internalOp]

theorem liftRun_spec (ops : List Retry.Op) (hs : ∀ o ∈ ops, Retry.SysOp o) (s : State)
    (g : Retry.Good s.r) (ha : AddingOk s) :
    ((liftRun dig ops s).foldl (step dig) s).r = ops.foldl Retry.step s.r ∧
    ((liftRun dig ops s).foldl (step dig) s).cache = s.cache ∧
    (∀ x ∈ s.backend, x ∈ ((liftRun dig ops s).foldl (step dig) s).backend) ∧
    (∀ o ∈ liftRun dig ops s, (∃ x, o = .wbStep x) ∨ (∃ r, o = .retry r) ∨ ∃ k', o = .exec k' true) := by
  induction ops generalizing s with
  | nil => simp [liftRun]
  | cons o rest ih =>
    have ho := hs o (by simp)
    obtain ⟨a1, a2, a3⟩ := liftS_step dig s o ho ha
    have g' : Retry.Good (step dig s (liftS s o)).r := step_good_r dig s _ g
    have ha' : AddingOk (step dig s (liftS s o)) := step_addingOk dig s _ g ha
    obtain ⟨b1, b2, b3, b4⟩ := ih (fun o' h' => hs o' (List.mem_cons_of_mem _ h')) (step dig s (liftS s o)) g' ha'
    simp only [liftRun, List.foldl_cons]
    refine ⟨by rw [b1, a1], by rw [b2, a2], fun x hx => b3 x (a3 x hx), ?_⟩
    intro o' ho'
    rcases List.mem_cons.mp ho' with rfl | ho'
    · cases o <;> simp only [liftS]
      case addEnq x => split <;> simp
      all_goals simp
    · exact b4 o' ho'

theorem retry_step_cfg (r : Retry.State) (o : Retry.Op) : (Retry.step r o).cfg = r.cfg := by
  cases o <;> simp only [Retry.step, Retry.stepO, Retry.enqueue] <;> (repeat' split) <;> rfl

theorem step_cfg (s : State) (o : Op) : (step dig s o).r.cfg = s.r.cfg := by
  cases o with
  | upload k d => rfl
  | wbStep k =>
    simp only [step]
    split
    · rfl
    · rename_i t _
      cases t.pc <;> simp only
      case setPersist => split <;> rfl
      case add =>
        have := retry_step_cfg s.r (.addBegin k t.delay [])
        cases hr : Retry.stepO s.r (.addBegin k t.delay []) with
        | mk r' o' =>
          have hr' : r' = Retry.step s.r (.addBegin k t.delay []) := by simp [Retry.step, hr]
          cases o' <;> simp only <;> (rw [hr']; exact this)
      case enq =>
        have := retry_step_cfg s.r (.addEnq k)
        cases hr : Retry.stepO s.r (.addEnq k) with
        | mk r' o' =>
          have hr' : r' = Retry.step s.r (.addEnq k) := by simp [Retry.step, hr]
          cases o' <;> simp only <;> (rw [hr']; exact this)
      case generate => split <;> rfl
  | retry o =>
    simp only [step]
    split
    · exact retry_step_cfg _ _
    · rfl
  | exec k up =>
    simp only [step]
    split
    · exact retry_step_cfg _ _
    · rfl
  | delete d => simp only [step]; split <;> rfl
  | fcBegin d => simp only [step]; split <;> rfl
  | fcFinish d downs =>
    simp only [step]
    split
    · rfl
    · rename_i p rest _
      rw [(fcRun_r_wb dig { s with fc := rest } p downs).1]
  | fcAtomic d downs =>
    simp only [step]
    split
    · rw [(fcRun_r_wb dig s (fcSnapshot dig s d) downs).1]
    · rfl
  | restart => exact (Retry.restart_facts s.r).1
  | fetch d => rfl

theorem run_cfg (cfg : Retry.Config) (ops : List Op) : (run dig cfg ops).r.cfg = cfg := by
  unfold run
  have h0 : (init cfg).r.cfg = cfg := rfl
  generalize init cfg = s at h0
  induction ops generalizing s with
  | nil => exact h0
  | cons o rest ih => exact ih _ ((step_cfg dig s o).trans h0)

end KrakenModel.OriginWB
