import KrakenModel.Util.KV
import KrakenModel.Model.FileCleanup
/-
  Helper lemmas for Spec/C10 (Model.FileCleanup): a file whose persist sidecar says true survives every
  primitive of the file store (delete, LRU eviction, reload, touch) and hence every cleanup pass.
-/
namespace KrakenModel.Proof.C10
open KrakenModel KrakenModel.FileCleanup

/-- the file `n` is on disk and marked as awaiting write-back -/
def Protected (s : State) (n : Name) : Prop := ∃ f, KV.get s.files n = some f ∧ f.persist = some true

instance (s : State) (n : Name) : Decidable (Protected s n) := by
  unfold Protected
  cases h : KV.get s.files n with
  | none => exact isFalse (by rintro ⟨f, hf, _⟩; cases hf)
  | some f =>
    by_cases hp : f.persist = some true
    · exact isTrue ⟨f, rfl, hp⟩
    · exact isFalse (by rintro ⟨f', hf, hp'⟩; cases hf; exact hp hp')

theorem prot_files {s s' : State} {n : Name} (h : Protected s n) (e : s'.files = s.files) : Protected s' n := by
  obtain ⟨f, hf, hp⟩ := h; exact ⟨f, by rw [e]; exact hf, hp⟩

theorem prot_put_ne {s : State} {n m : Name} (v : File) (h : Protected s n) (hne : n ≠ m) :
    Protected { s with files := KV.put s.files m v } n := by
  obtain ⟨f, hf, hp⟩ := h
  exact ⟨f, by simpa [KV.get_put_ne _ v hne] using hf, hp⟩

theorem prot_put_same {s : State} {n : Name} (v : File) (hv : v.persist = some true) :
    Protected { s with files := KV.put s.files n v } n :=
  ⟨v, KV.get_put_self _ _ _, hv⟩

theorem prot_del_ne {s : State} {n m : Name} (h : Protected s n) (hne : n ≠ m) :
    Protected { s with files := KV.del s.files m } n := by
  obtain ⟨f, hf, hp⟩ := h
  exact ⟨f, by simpa [KV.get_del_ne _ hne] using hf, hp⟩

theorem entryDelete_prot {s : State} {n : Name} (h : Protected s n) (m : Name) : Protected (entryDelete s m).1 n := by
  unfold entryDelete
  split
  · exact h
  · rename_i f hf
    split
    · exact h
    · rename_i hnp
      by_cases e : n = m
      · subst e
        obtain ⟨f', hf', hp'⟩ := h
        rw [hf] at hf'; cases hf'
        simp [isPersisted, hp'] at hnp
      · exact prot_del_ne h e

theorem evict_prot {s : State} {n : Name} (h : Protected s n) : Protected (evictIfNeeded s) n := by
  unfold evictIfNeeded
  split
  · exact h
  · split
    · exact h
    · exact prot_files (entryDelete_prot h _) rfl

theorem storeEntry_prot {s : State} {n : Name} (h : Protected s n) (m : Name) : Protected (storeEntry s m) n := by
  unfold storeEntry
  split
  · exact h
  · rename_i f hf
    split
    · exact evict_prot (prot_files h rfl)
    · refine evict_prot ?_
      by_cases e : n = m
      · subst e
        obtain ⟨f', hf', hp'⟩ := h
        rw [hf] at hf'; cases hf'
        exact ⟨_, KV.get_put_self _ _ _, hp'⟩
      · obtain ⟨f', hf', hp'⟩ := h
        exact ⟨f', by simpa [KV.get_put_ne _ _ e] using hf', hp'⟩

theorem reload_prot {s : State} {n : Name} (h : Protected s n) (m : Name) : Protected (reload s m).1 n := by
  unfold reload
  split
  · exact h
  · split
    · exact storeEntry_prot h m
    · exact h

theorem touch_prot {s : State} {n : Name} (h : Protected s n) (m : Name) : Protected (touch s m) n := by
  unfold touch
  split
  · exact h
  · split
    · cases hf : KV.get s.files m with
      | none => simp only []; exact prot_files h rfl
      | some f =>
        simp only []
        by_cases e : n = m
        · subst e
          obtain ⟨f', hf', hp'⟩ := h
          rw [hf] at hf'; cases hf'
          exact ⟨_, KV.get_put_self _ _ _, hp'⟩
        · obtain ⟨f', hf', hp'⟩ := h
          exact ⟨f', by simpa [KV.get_put_ne _ _ e] using hf', hp'⟩
    · exact prot_files h rfl

theorem peek_prot {s : State} {n : Name} (h : Protected s n) (m : Name) : Protected (peek s m).1 n := by
  unfold peek
  have := reload_prot h m
  split
  · rename_i s1 he; rw [he] at this; exact this
  · rename_i s1 he; rw [he] at this
    split
    · exact prot_files this rfl
    · exact this

theorem access_prot {s : State} {n : Name} (h : Protected s n) (m : Name) : Protected (access s m).1 n := by
  unfold access
  have := reload_prot h m
  split
  · rename_i s1 he; rw [he] at this; exact this
  · rename_i s1 he; rw [he] at this
    split
    · exact touch_prot this m
    · exact this

/-- updating another file, or this file with a function that keeps the flag -/
theorem updFile_prot {s : State} {n : Name} (h : Protected s n) (m : Name) (g : File → File)
    (hg : n = m → ∀ f, f.persist = some true → (g f).persist = some true) : Protected (updFile s m g) n := by
  unfold updFile
  split
  · rename_i f hf
    by_cases e : n = m
    · subst e
      obtain ⟨f', hf', hp'⟩ := h
      rw [hf] at hf'; cases hf'
      exact ⟨_, KV.get_put_self _ _ _, hg rfl _ hp'⟩
    · exact prot_put_ne _ h e
  · exact h

theorem delete_prot {s : State} {n : Name} (h : Protected s n) (m : Name) : Protected (delete s m).1 n := by
  unfold delete
  have := reload_prot h m
  split
  · rename_i s1 he; rw [he] at this; exact this
  · rename_i s1 he; rw [he] at this
    split
    · exact this
    · exact prot_files (entryDelete_prot this m) rfl

theorem create_prot {s : State} {n : Name} (h : Protected s n) (m : Name) (size : Nat) : Protected (create s m size).1 n := by
  unfold create
  split
  · exact access_prot h m
  · split
    · exact storeEntry_prot h m
    · rename_i hnm hnf
      refine evict_prot ?_
      have hne : n ≠ m := by
        intro e; subst e
        obtain ⟨f, hf, _⟩ := h
        simp [KV.has, hf] at hnf
      obtain ⟨f, hf, hp⟩ := h
      exact ⟨f, by simpa [createInsert, KV.get_put_ne _ _ hne] using hf, hp⟩

theorem ite_prot {c : Prop} [Decidable c] {a b : State} {n : Name} (ha : Protected a n) (hb : Protected b n) :
    Protected (if c then a else b) n := by split <;> assumption

theorem ttlVisit_prot {n : Name} (tti ttl : Int) (thr : Option Nat) (used : Nat) (acc : State × Nat) (m : Name)
    (h : Protected acc.1 n) : Protected (ttlVisit tti ttl thr used acc m).1 n := by
  obtain ⟨s, sc⟩ := acc
  have h1 := peek_prot (s := s) h m
  unfold ttlVisit
  simp only
  cases hpk : peek s m with
  | mk s1 r =>
    rw [hpk] at h1
    cases r with
    | ok =>
      simp only
      cases hf : KV.get s1.files m with
      | none => exact h1
      | some f =>
        simp only
        have h2 := peek_prot (s := s1) h1 m
        exact ite_prot (delete_prot h2 m) h2
    | notExist => exact h1
    | exist => exact h1
    | persisted => exact h1

theorem foldl_prot {α : Type} (f : State × α → Name → State × α) {n : Name}
    (hf : ∀ acc m, Protected acc.1 n → Protected (f acc m).1 n) (l : List Name) :
    ∀ acc, Protected acc.1 n → Protected (l.foldl f acc).1 n := by
  induction l with
  | nil => intro acc h; exact h
  | cons m l ih => intro acc h; exact ih _ (hf acc m h)

theorem cleanupTTL_prot {s : State} {n : Name} (h : Protected s n) (tti ttl : Int) (p : Nat) (u : Usage) :
    Protected (cleanupTTL s tti ttl p u).1 n := by
  unfold cleanupTTL
  exact foldl_prot _ (fun acc m ha => ttlVisit_prot tti ttl _ _ acc m ha) _ _ h

theorem gatherVisit_prot {n : Name} (acc : State × List FInfo × Nat) (m : Name)
    (h : Protected acc.1 n) : Protected (gatherVisit acc m).1 n := by
  obtain ⟨s, infos, usage⟩ := acc
  have h1 := peek_prot (s := s) h m
  unfold gatherVisit
  simp only
  cases hpk : peek s m with
  | mk s1 r =>
    rw [hpk] at h1
    cases r with
    | ok =>
      simp only
      cases hf : KV.get s1.files m with
      | none => exact h1
      | some f =>
        simp only
        have h2 := peek_prot (s := s1) h1 m
        cases f.lat <;> exact h2
    | notExist => exact h1
    | exist => exact h1
    | persisted => exact h1

theorem policyDelete_prot {n : Name} (l : List FInfo) : ∀ (s : State) (r : Int), Protected s n → Protected (policyDelete s r l) n := by
  induction l with
  | nil => intro s r h; exact h
  | cons f l ih =>
    intro s r h
    simp only [policyDelete]
    split
    · exact h
    · have hd := delete_prot (s := s) h f.name
      cases hdel : delete s f.name with
      | mk s1 x =>
        rw [hdel] at hd
        cases x <;> exact ih _ _ hd

theorem cleanupPolicy_prot {s : State} {n : Name} (h : Protected s n) (p : Nat) (u : Usage) :
    Protected (cleanupPolicy s p u).1 n := by
  unfold cleanupPolicy
  have hg := foldl_prot (α := List FInfo × Nat) gatherVisit (fun acc m ha => gatherVisit_prot acc m ha) (listNames s) (s, [], 0) h
  generalize (listNames s).foldl gatherVisit (s, [], 0) = r at hg
  obtain ⟨s1, infos, usage⟩ := r
  exact policyDelete_prot _ _ _ hg

end KrakenModel.Proof.C10
