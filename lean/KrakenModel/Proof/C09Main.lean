import KrakenModel.Proof.C09SafeW2
import KrakenModel.Proof.C09SafeC
/-
  C09, part 7: the invariant holds along every schedule of the class `pre`, and it implies `Safe`.
-/
namespace KrakenModel.Tiered
open KrakenModel KrakenModel.BlobStore

theorem inv2_init (mc dc nw : Nat) (h1 : mc < U64) (h2 : dc < U64) : Inv2 (ginit mc dc nw) := by
  have hw : ∀ (i : Nat) (w : Worker), (ginit mc dc nw).t.workers[i]? = some w → w.pc = .idle := by
    intro i w h
    simp only [ginit, tinit] at h
    have := List.mem_of_getElem? h
    rw [List.mem_replicate] at this
    rw [this.2]
  refine { inv1 := inv1_init mc dc nw h1 h2, key := ?_, det := ?_, went := ?_ }
  · intro k
    exact kinv_dead rfl rfl rfl rfl rfl
  · intro i w h hne; exact absurd (hw i w h) hne
  · intro i w h hne; exact absurd (hw i w h) hne

theorem inv2_step {s : GState} (hi : Inv2 s) (a : Act) (hpre : pre s a) : Inv2 (gstep s a) := by
  cases a with
  | client o => exact inv2_client hi o hpre
  | work i pick =>
    cases hw : s.t.workers[i]? with
    | none => simp [gstep, tstep, hw]; exact hi
    | some w => rw [gstep_work s i pick w hw]; exact inv2_wstep_all hi i w pick hw

theorem inv2_run (mc dc nw : Nat) (h1 : mc < U64) (h2 : dc < U64) (sched : List Act)
    (hwf : (gsys mc dc nw).WFHist pre (gsys mc dc nw).init sched) : Inv2 ((gsys mc dc nw).run sched) :=
  Sys.runFrom_inv_pre (gsys mc dc nw) pre Inv2 (fun s a h hp => inv2_step h a hp) sched _
    (inv2_init mc dc nw h1 h2) hwf

/-- the invariant implies the property -/
theorem safe_of_inv2 {s : GState} (hi : Inv2 s) : Safe s := by
  refine ⟨?_, ?_⟩
  · intro k B hdn hx
    have hk := hi.key k
    cases hM : s.t.mem.blobs.get k with
    | some m =>
      obtain ⟨hdat, hag⟩ := hk.done_m B m hdn hx hM
      have hc : m.complete = true := (hk.cm m hM).mpr (by rw [hdn]; rfl)
      refine ⟨?_, ?_, ?_⟩
      · simp only [openRead, tOpen, openB_eq hM (inScope_any m)]
        rw [hdat]
      · simp only [openRead, tOpen, openB_eq hM (show inScope m .complete = true from hc)]
        rw [hdat]
      · intro sfx
        simp only [readMd, tGetMd, getMd_eq hM (inScope_any m)]
        rw [hag sfx]
        cases s.g.md k sfx <;> rfl
    | none =>
      obtain ⟨d, hD, hc, hdat, hag⟩ := hk.done_d B hdn hx (.inl hM)
      refine ⟨?_, ?_, ?_⟩
      · simp only [openRead, tOpen, openB_none hM, openB_eq hD (inScope_any d)]
        rw [hdat]
      · simp only [openRead, tOpen, openB_none hM, openB_eq hD (show inScope d .complete = true from hc)]
        rw [hdat]
      · intro sfx
        simp only [readMd, tGetMd, getMd_none hM, getMd_eq hD (inScope_any d)]
        rw [hag sfx]
        cases s.g.md k sfx <;> rfl
  · intro k hl
    obtain ⟨a, b, _⟩ := hi.inv1.dead k hl
    simp [visible, inStore, a, b]

end KrakenModel.Tiered
