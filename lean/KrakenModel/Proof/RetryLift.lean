import KrakenModel.Proof.C30Live
/-
  Lemmas for the properties that compose the retry manager with an executor (C31, C32): a process
  restart leaves the manager running with nothing in flight, and the system steps of
  `can_reach_exec` never create a pending Add sender.
-/
namespace KrakenModel.Retry

/-- no Add caller is between its insert and its send -/
def NoAdding (r : State) : Prop := ∀ e ∈ r.own, e.2 ≠ .adding

theorem noAdding_place {own : List (Key × Place)} (h : ∀ e ∈ own, e.2 ≠ .adding) (k : Key)
    (p : Place) (hp : p ≠ .adding) : ∀ e ∈ place own k p, e.2 ≠ .adding := by
  intro e he
  simp only [place, List.mem_append, List.mem_filter, List.mem_singleton] at he
  rcases he with ⟨he, _⟩ | rfl
  · exact h e he
  · exact hp

theorem noAdding_drop {own : List (Key × Place)} (h : ∀ e ∈ own, e.2 ≠ .adding) (k : Key) :
    ∀ e ∈ dropKey own k, e.2 ≠ .adding := by
  intro e he
  exact h e (List.mem_filter.mp he).1

theorem noAdding_enqueue (r : State) (h : NoAdding r) (k : Key) (p : Pool) :
    NoAdding (enqueue r k p).1 := by
  unfold enqueue
  split
  · exact noAdding_place h k _ (by simp)
  · split <;> exact noAdding_drop h k

theorem noAdding_step (r : State) (o : Op) (h : NoAdding r) (ho : SysOp o) :
    NoAdding (step r o) ∧ (∀ k, o = .addEnq k → step r o = r) := by
  cases o <;> simp only [SysOp] at ho
  case addEnq k =>
    have : placeOf r.own k ≠ some .adding := by
      intro hp
      exact h _ (mem_of_placeOf hp) rfl
    simp [step, stepO, this, h]
  case pollFetch =>
    refine ⟨?_, by simp⟩
    simp only [step, stepO]; split <;> exact h
  case pollMark =>
    refine ⟨?_, by simp⟩
    simp only [step, stepO]
    split
    · exact h
    · split
      · exact h
      · split
        · split
          · exact noAdding_place h _ _ (by simp)
          · exact h
        · exact h
  case pollEnq =>
    refine ⟨?_, by simp⟩
    simp only [step, stepO]
    split
    · exact h
    · exact noAdding_enqueue r h _ _
  case take p =>
    refine ⟨?_, by simp⟩
    simp only [step, stepO]
    split
    · exact h
    · split
      · exact noAdding_place h _ _ (by simp)
      · exact h
  case finish k ok =>
    subst ho
    refine ⟨?_, by simp⟩
    simp only [step, stepO, if_true]
    split
    · exact noAdding_drop h k
    · exact h
  case advance dt => exact ⟨h, by simp⟩

theorem restart_facts (r : State) :
    (step (step r .crash) (.start [])).cfg = r.cfg ∧
    (step (step r .crash) (.start [])).mode = .up ∧
    (step (step r .crash) (.start [])).own = [] := by
  cases hm : r.mode <;> simp [step, stepO, hm]


end KrakenModel.Retry
