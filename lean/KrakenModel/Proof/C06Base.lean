import KrakenModel.Model.DiskCrash
import KrakenModel.Proof.FSLemmas
/-
  C06 proof library, part 1: paths of the disk-store layout, `RemoveAll`/`MkdirAll` plans.
-/
set_option linter.unusedSectionVars false
namespace KrakenModel.DiskCrash
open KrakenModel.FS

def depth (cfg : Cfg) : Nat := cfg.shardLength + 2

theorem subName_inj {a b : Bool} (h : subName a = subName b) : a = b := by
  cases a <;> cases b <;> first | rfl | (exfalso; revert h; decide)

theorem shards_length (cfg : Cfg) (K : Key) (hv : ValidKey cfg K) : (shards cfg K).length = cfg.shardLength := by
  unfold ValidKey at hv
  simp only [shards, List.length_map, List.length_range]
  omega

theorem dirPath_length (cfg : Cfg) (c : Bool) (K : Key) (hv : ValidKey cfg K) :
    (dirPath cfg c K).length = depth cfg := by
  simp [dirPath, depth, shards_length cfg K hv]

theorem dirPath_length_le (cfg : Cfg) (c : Bool) (K : Key) : (dirPath cfg c K).length ≤ depth cfg := by
  simp only [dirPath, depth, shards, List.length_cons, List.length_append, List.length_map, List.length_range,
    List.length_nil]
  omega

theorem dirPath_head (cfg : Cfg) (c : Bool) (K : Key) : (dirPath cfg c K).head? = some (subName c) := rfl

theorem dirPath_getLast (cfg : Cfg) (c : Bool) (K : Key) : (dirPath cfg c K).getLast? = some K := by
  simp [dirPath, List.getLast?_cons, List.getLast?_append]

theorem dirPath_ne_nil (cfg : Cfg) (c : Bool) (K : Key) : dirPath cfg c K ≠ [] := by simp [dirPath]

theorem dirPath_inj {cfg : Cfg} {c c' : Bool} {K K' : Key} (h : dirPath cfg c K = dirPath cfg c' K') :
    c = c' ∧ K = K' := by
  have h1 := congrArg List.head? h
  have h2 := congrArg List.getLast? h
  rw [dirPath_head, dirPath_head] at h1
  rw [dirPath_getLast, dirPath_getLast] at h2
  exact ⟨subName_inj (Option.some.inj h1), Option.some.inj h2⟩

theorem dirPath_ne_of_key {cfg : Cfg} {c c' : Bool} {K K' : Key} (h : K ≠ K') :
    dirPath cfg c K ≠ dirPath cfg c' K' := fun e => h (dirPath_inj e).2

theorem dirPath_ne_of_side (cfg : Cfg) (c : Bool) (K K' : Key) : dirPath cfg c K ≠ dirPath cfg (!c) K' := by
  intro e; have := (dirPath_inj e).1; cases c <;> simp at this

/-! ### `RemoveAll` of a blob directory -/

theorem removeAllPlan_touched (fs : FS Name) (o : Order Name) (p : Path) :
    ∀ c ∈ removeAllPlan fs o p, c.touched = [p] := by
  intro c hc
  unfold removeAllPlan at hc
  split at hc
  · simp at hc
  · simp only [List.mem_append, List.mem_map, List.mem_singleton] at hc
    rcases hc with ⟨n, _, rfl⟩ | rfl <;> rfl

theorem removeAllPlan_created (fs : FS Name) (o : Order Name) (p : Path) :
    ∀ c ∈ removeAllPlan fs o p, c.created = [] := by
  intro c hc
  unfold removeAllPlan at hc
  split at hc
  · simp at hc
  · simp only [List.mem_append, List.mem_map, List.mem_singleton] at hc
    rcases hc with ⟨n, _, rfl⟩ | rfl <;> rfl

/-- a call that only removes things -/
def Call.removal : Call Name → Bool
  | .unlink _ _ => true
  | .rmdir _ => true
  | _ => false

theorem removeAllPlan_removal (fs : FS Name) (o : Order Name) (p : Path) :
    ∀ c ∈ removeAllPlan fs o p, Call.removal c = true := by
  intro c hc
  unfold removeAllPlan at hc
  split at hc
  · simp at hc
  · simp only [List.mem_append, List.mem_map, List.mem_singleton] at hc
    rcases hc with ⟨n, _, rfl⟩ | rfl <;> rfl

theorem removal_created (c : Call Name) (h : Call.removal c = true) : c.created = [] := by
  cases c <;> simp [Call.removal] at h <;> rfl

/-- what a removal call does to the directory it names: entries only disappear -/
theorem dir?_apply_removal (fs : FS Name) (c : Call Name) (h : Call.removal c = true) (q : Path) :
    (apply fs c).dir? q = fs.dir? q ∨ (apply fs c).dir? q = none ∨
    ∃ d n, fs.dir? q = some d ∧ (apply fs c).dir? q = some (adel d n) := by
  cases c with
  | unlink p n =>
    by_cases hq : q = p
    · subst hq
      unfold apply; split
      · simp only [Call.eff]
        cases hd : fs.dir? q with
        | none => left; simp [hd]
        | some d => right; right; exact ⟨d, n, rfl, by simp⟩
      · left; rfl
    · left; exact dir?_apply_of_not_touched _ _ _ (by simp [Call.touched, hq])
  | rmdir p =>
    by_cases hq : q = p
    · subst hq
      unfold apply; split
      · right; left; simp [Call.eff]
      · left; rfl
    · left; exact dir?_apply_of_not_touched _ _ _ (by simp [Call.touched, hq])
  | _ => simp [Call.removal] at h

/-- unlinking a list of names -/
theorem dir?_applyAll_unlinks (ns : List Name) (fs : FS Name) (p : Path) (d : DirEnt Name)
    (hd : fs.dir? p = some d) :
    (applyAll fs (ns.map (Call.unlink p))).dir? p = some (d.filter (fun e => e.1 ∉ ns)) := by
  induction ns generalizing fs d with
  | nil =>
    simp only [List.map_nil, applyAll_nil, hd, List.not_mem_nil, not_false_eq_true, decide_true]
    congr 1; symm; exact List.filter_eq_self.mpr (fun _ _ => rfl)
  | cons n ns ih =>
    simp only [List.map_cons, applyAll_cons]
    have h1 : (apply fs (Call.unlink p n)).dir? p = some (adel d n) := by
      unfold apply; split
      · simp [Call.eff, hd]
      · rename_i hok
        simp only [Call.ok, FS.file?, hd, Bool.not_eq_true, Option.isSome_eq_false_iff, Option.isNone_iff_eq_none] at hok
        rw [hd]; congr 1
        simp only [adel]
        symm; apply List.filter_eq_self.mpr
        intro e he; simp
        intro hn; rw [aget_eq_none_iff] at hok
        exact hok (by simp only [akeys, List.mem_map]; exact ⟨e, he, hn⟩)
    rw [ih _ _ h1]
    congr 1
    simp only [adel, List.filter_filter]
    congr 1; funext e
    by_cases h1 : e.1 = n <;> by_cases h2 : e.1 ∈ ns <;> simp [h1, h2]

/-- a completed `RemoveAll` of a directory without sub-directories removes it -/
theorem dir?_removeAll_self (fs : FS Name) (o : Order Name) (p : Path)
    (hc : ∀ q ∈ fs.paths, q ≠ [] → q.dropLast ≠ p) :
    (applyAll fs (removeAllPlan fs o p)).dir? p = none := by
  unfold removeAllPlan
  cases hd : fs.dir? p with
  | none => simpa using hd
  | some d =>
    simp only [applyAll_append, applyAll_cons, applyAll_nil]
    have h1 := dir?_applyAll_unlinks (orderBy (o.filesOf p) (akeys d)) fs p d hd
    have hempty : d.filter (fun e => e.1 ∉ orderBy (o.filesOf p) (akeys d)) = [] := by
      apply List.filter_eq_nil_iff.mpr
      intro e he hn
      exact (of_decide_eq_true hn) ((mem_orderBy _ _ _).mpr (by
        simp only [akeys, List.mem_map]; exact ⟨e, he, rfl⟩))
    rw [hempty] at h1
    unfold apply; split
    · simp [Call.eff]
    · rename_i hok
      exfalso; apply hok
      simp only [Call.ok, h1, List.isEmpty_nil, Bool.true_and, List.isEmpty_iff]
      apply List.filter_eq_nil_iff.mpr
      intro q hq hh
      have hh' := of_decide_eq_true hh
      revert hh'; intro ⟨hne, hdl⟩
      refine absurd hdl ?_
      -- unlinks do not add paths
      have : q ∈ fs.paths := by
        rcases mem_paths_applyAll _ _ _ hq with h | ⟨c, hc', h⟩
        · exact h
        · simp only [List.mem_map] at hc'; obtain ⟨n, _, rfl⟩ := hc'; simp [Call.created] at h
      exact hc q this hne

theorem dir?_removeAll_other (fs : FS Name) (o : Order Name) (p q : Path) (k : Nat) (h : q ≠ p) (fs' : FS Name) :
    (applyPrefix k (removeAllPlan fs o p) fs').dir? q = fs'.dir? q :=
  dir?_applyPrefix_of_not_touched _ _ _ _ (fun c hc => by rw [removeAllPlan_touched fs o p c hc]; simpa using h)

/-! ### `MkdirAll` -/

theorem mkdirAllAux_mem (fs : FS Name) (pre rest : Path) :
    ∀ c ∈ mkdirAllAux fs pre rest, ∃ i, 0 < i ∧ i ≤ rest.length ∧ c = Call.mkdir (pre ++ rest.take i) := by
  induction rest generalizing pre with
  | nil => simp [mkdirAllAux]
  | cons x rest ih =>
    intro c hc
    simp only [mkdirAllAux, List.mem_append] at hc
    rcases hc with hc | hc
    · split at hc
      · simp at hc
      · simp only [List.mem_singleton] at hc; exact ⟨1, by omega, by simp, by simp [hc]⟩
    · obtain ⟨i, hi, hle, rfl⟩ := ih _ c hc
      exact ⟨i + 1, by omega, by simp; omega, by simp⟩

/-- the calls of `MkdirAll p` create non-empty prefixes of `p` -/
theorem mkdirAllPlan_mem (fs : FS Name) (p : Path) :
    ∀ c ∈ mkdirAllPlan fs p, ∃ i, 0 < i ∧ i ≤ p.length ∧ c = Call.mkdir (p.take i) := by
  intro c hc
  obtain ⟨i, h1, h2, h3⟩ := mkdirAllAux_mem fs [] p c hc
  exact ⟨i, h1, h2, by simpa using h3⟩

theorem isDir_apply_mkdir_other (fs : FS Name) (p q : Path) (h : q ≠ p) :
    (apply fs (Call.mkdir p)).isDir q = fs.isDir q := by
  simp only [FS.isDir]
  rw [dir?_apply_of_not_touched _ _ _ (by simpa [Call.touched] using h)]

theorem isDir_mkdirAllAux (rest : Path) (fs cur : FS Name) (pre : Path)
    (hpre : cur.isDir pre = true)
    (hagree : ∀ q, pre.length < q.length → cur.isDir q = fs.isDir q) :
    (applyAll cur (mkdirAllAux fs pre rest)).isDir (pre ++ rest) = true ∧
    ∀ q, (∀ i, q ≠ pre ++ rest.take i) → (applyAll cur (mkdirAllAux fs pre rest)).dir? q = cur.dir? q := by
  induction rest generalizing cur pre with
  | nil => simp [mkdirAllAux, hpre]
  | cons x rest ih =>
    simp only [mkdirAllAux, applyAll_append]
    by_cases hx : fs.isDir (pre ++ [x]) = true
    · simp only [hx, if_true, applyAll_nil]
      have hcur : cur.isDir (pre ++ [x]) = true := by rw [hagree _ (by simp)]; exact hx
      obtain ⟨h1, h2⟩ := ih cur (pre ++ [x]) hcur (fun q hq => hagree q (by simp at hq; omega))
      refine ⟨by simpa using h1, ?_⟩
      intro q hq
      apply h2
      intro i e; exact hq (i + 1) (by simpa using e)
    · simp only [hx, if_false, applyAll_cons, applyAll_nil, Bool.false_eq_true]
      have hcurx : cur.isDir (pre ++ [x]) = false := by
        rw [hagree _ (by simp)]; simpa using hx
      have hok : (Call.mkdir (pre ++ [x]) : Call Name).ok cur = true := by
        simp [Call.ok, hcurx, hpre]
      have hnew : (apply cur (Call.mkdir (pre ++ [x]))).isDir (pre ++ [x]) = true := by
        simp [apply, hok, Call.eff, FS.isDir]
      obtain ⟨h1, h2⟩ := ih (apply cur (Call.mkdir (pre ++ [x]))) (pre ++ [x]) hnew
        (fun q hq => by
          rw [isDir_apply_mkdir_other _ _ _ (by intro e; subst e; simp at hq)]
          exact hagree q (by simp at hq; omega))
      refine ⟨by simpa using h1, ?_⟩
      intro q hq
      rw [h2 q (fun i e => hq (i + 1) (by simpa using e))]
      exact dir?_apply_of_not_touched _ _ _ (by
        simp only [Call.touched, List.mem_singleton]
        intro e; exact hq 1 (by simpa using e))

/-- after `MkdirAll p` the directory exists, and only prefixes of `p` were touched -/
theorem isDir_mkdirAllPlan (fs : FS Name) (p : Path) :
    (applyAll fs (mkdirAllPlan fs p)).isDir p = true ∧
    ∀ q, (∀ i, q ≠ p.take i) → (applyAll fs (mkdirAllPlan fs p)).dir? q = fs.dir? q := by
  have := isDir_mkdirAllAux p fs fs [] (by simp [FS.isDir]) (fun _ _ => rfl)
  simpa [mkdirAllPlan] using this

theorem dir?_mkdirAll_prefix (fs fs' : FS Name) (p q : Path) (k : Nat) (h : ∀ i, 0 < i → q ≠ p.take i) :
    (applyPrefix k (mkdirAllPlan fs p) fs').dir? q = fs'.dir? q :=
  dir?_applyPrefix_of_not_touched _ _ _ _ (fun c hc => by
    obtain ⟨i, hi, _, rfl⟩ := mkdirAllPlan_mem fs p c hc
    simpa [Call.touched] using h i hi)

end KrakenModel.DiskCrash
