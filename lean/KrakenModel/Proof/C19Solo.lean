import KrakenModel.Proof.C03Live
/-
  C19 helper lemmas (progress): a WritePiece call that is scheduled alone runs to its end in a
  bounded number of steps, and a call carrying the blob's piece for an empty piece completes it.
-/
namespace KrakenModel.Proof.C19
open KrakenModel KrakenModel.AgentTorrent KrakenModel.Proof.C03

/-- upper bound on the number of steps a call still needs when every write carries the rest of the payload -/
def rank (t : Thread) : Nat :=
  match t.pc with
  | .start => 20 | .fastComplete => 19 | .fastDirty => 18 | .tryDirty => 17 | .openFile => 16
  | .writing => if t.written < t.payload.length then 15 else 14
  | .checksum => 13 | .setMeta => 12 | .markComplete => 11 | .incNum => 10 | .loadNum => 9
  | .move => 8 | .setCommitted => 7 | .markEmpty => 6 | .done => 0

/-- along a solo run of a call for piece `i`: while the call has not tried to take the piece, the
    piece is still empty; and the call never ends with a conflict -/
def Solo (i : Nat) (s : State) (t : Thread) : Prop :=
  match t.pc with
  | .start => t.pi = (i : Int) ∧ s.pieces[i]? = some PStatus.empty
  | .fastComplete | .fastDirty | .tryDirty => t.idx = i ∧ s.pieces[i]? = some PStatus.empty
  | .done => t.result ≠ some .errConflict
  | _ => True

variable {crc : Bytes → Nat} {pl : Nat} {blob : Bytes}

theorem solo_step (i : Nat) {s : State} (hg : Good crc pl blob s) (tid k : Nat) (t : Thread)
    (ht : s.threads[tid]? = some t) (hr : RT pl blob s t) (hq : Solo i s t) (hnd : t.pc ≠ .done)
    (hk : t.payload.length ≤ k) :
    ∃ t', (stepThread crc s tid k).threads[tid]? = some t' ∧ rank t' < rank t ∧
      Solo i (stepThread crc s tid k) t' ∧ t'.payload = t.payload ∧ t'.pi = t.pi := by
  have htok := hg.thr tid t ht
  have hself : ∀ (s0 : State) (x : Thread), s0.threads = s.threads → (setThread s0 tid x).threads[tid]? = some x := by
    intro s0 x h0
    simp only [setThread]; rw [h0, threads_set_get ht]; simp
  unfold stepThread
  rw [ht]
  simp only
  cases hpc : t.pc <;> simp only [Solo, hpc] at hq <;> simp only
  case start =>
    split
    · exact ⟨_, hself s _ rfl, by simp [rank, hpc, finish], by simp [Solo, finish], rfl, rfl⟩
    · split
      · exact ⟨_, hself s _ rfl, by simp [rank, hpc, finish], by simp [Solo, finish], rfl, rfl⟩
      · refine ⟨_, hself s _ rfl, by simp [rank, hpc], ?_, rfl, rfl⟩
        simp only [Solo, setThread]
        refine ⟨?_, hq.2⟩
        rw [hq.1]; simp
  case fastComplete =>
    obtain ⟨hidx, hemp⟩ := hq
    have hemp' : s.pieces[t.idx]? = some PStatus.empty := by rw [hidx]; exact hemp
    rw [hemp']
    simp only
    rw [if_neg (by intro h; cases h)]
    exact ⟨_, hself s _ rfl, by simp [rank, hpc], by simp only [Solo, setThread]; exact ⟨hidx, hemp⟩, rfl, rfl⟩
  case fastDirty =>
    obtain ⟨hidx, hemp⟩ := hq
    have hemp' : s.pieces[t.idx]? = some PStatus.empty := by rw [hidx]; exact hemp
    rw [hemp']
    simp only
    rw [if_neg (by intro h; cases h)]
    exact ⟨_, hself s _ rfl, by simp [rank, hpc], by simp only [Solo, setThread]; exact ⟨hidx, hemp⟩, rfl, rfl⟩
  case tryDirty =>
    obtain ⟨hidx, hemp⟩ := hq
    have hemp' : s.pieces[t.idx]? = some PStatus.empty := by rw [hidx]; exact hemp
    rw [hemp']
    simp only
    exact ⟨_, hself _ _ rfl, by simp [rank, hpc], by simp [Solo], rfl, rfl⟩
  case openFile =>
    split
    · exact ⟨_, hself s _ rfl, by simp [rank, hpc], by simp [Solo], rfl, rfl⟩
    · refine ⟨_, hself s _ rfl, ?_, by simp [Solo], rfl, rfl⟩
      simp only [rank, hpc]; split <;> omega
  case writing =>
    split
    · exact ⟨_, hself s _ rfl, by simp [rank, hpc]; split <;> omega, by simp [Solo], rfl, rfl⟩
    · rename_i hlt
      refine ⟨_, hself _ _ rfl, ?_, by simp [Solo], rfl, rfl⟩
      simp only [rank, hpc]
      have hlen : ((t.payload.drop t.written).take k).length = t.payload.length - t.written := by
        simp [List.length_take, List.length_drop]; omega
      rw [hlen]
      have h1 : t.written < t.payload.length := by omega
      rw [if_pos h1, if_neg (by omega)]
      omega
  case checksum =>
    cases hsum : s.mi.sums[t.idx]? with
    | none => exact ⟨_, hself s _ rfl, by simp [rank, hpc, finish], by simp [Solo, finish], rfl, rfl⟩
    | some sum =>
      simp only
      split
      · exact ⟨_, hself s _ rfl, by simp [rank, hpc], by simp [Solo], rfl, rfl⟩
      · exact ⟨_, hself s _ rfl, by simp [rank, hpc], by simp [Solo], rfl, rfl⟩
  case setMeta =>
    split
    · exact ⟨_, hself s _ rfl, by simp [rank, hpc], by simp [Solo], rfl, rfl⟩
    · exact ⟨_, hself _ _ rfl, by simp [rank, hpc], by simp [Solo], rfl, rfl⟩
  case markComplete =>
    split
    · exact ⟨_, hself _ _ rfl, by simp [rank, hpc], by simp [Solo], rfl, rfl⟩
    · exact ⟨_, hself s _ rfl, by simp [rank, hpc, finish], by simp [Solo, finish], rfl, rfl⟩
  case incNum => exact ⟨_, hself _ _ rfl, by simp [rank, hpc], by simp [Solo], rfl, rfl⟩
  case loadNum =>
    split
    · exact ⟨_, hself s _ rfl, by simp [rank, hpc], by simp [Solo], rfl, rfl⟩
    · exact ⟨_, hself s _ rfl, by simp [rank, hpc, finish], by simp [Solo, finish], rfl, rfl⟩
  case move => exact ⟨_, hself _ _ rfl, by simp [rank, hpc], by simp [Solo], rfl, rfl⟩
  case setCommitted => exact ⟨_, hself _ _ rfl, by simp [rank, hpc, finish], by simp [Solo, finish], rfl, rfl⟩
  case markEmpty =>
    have hf : t.fail = .errSum := by have := hr; simp only [RT, hpc] at this; exact this.1
    split
    · exact ⟨_, hself _ _ rfl, by simp [rank, hpc, finish], by simp [Solo, finish, hf], rfl, rfl⟩
    · exact ⟨_, hself s _ rfl, by simp [rank, hpc, finish], by simp [Solo, finish], rfl, rfl⟩
  case done => exact absurd hpc hnd

/-- `m` consecutive steps of call `tid` -/
def soloRun (crc : Bytes → Nat) (tid k : Nat) : Nat → State → State
  | 0, s => s
  | m + 1, s => soloRun crc tid k m (stepThread crc s tid k)

theorem soloRun_spec (hpl : 0 < pl) (i tid k : Nat) :
    ∀ (m : Nat) (s : State) (t : Thread), Good crc pl blob s → RTAll pl blob s → s.threads[tid]? = some t →
      Solo i s t → t.payload.length ≤ k → rank t ≤ m →
      Good crc pl blob (soloRun crc tid k m s) ∧ RTAll pl blob (soloRun crc tid k m s) ∧
      (∀ (j : Nat), s.pieces[j]? = some PStatus.complete → (soloRun crc tid k m s).pieces[j]? = some PStatus.complete) ∧
      ∃ t', (soloRun crc tid k m s).threads[tid]? = some t' ∧ t'.pc = .done ∧ t'.result ≠ some .errConflict ∧
        t'.payload = t.payload ∧ t'.pi = t.pi := by
  intro m
  induction m with
  | zero =>
    intro s t hg hr ht hq _ hrk
    have hd : t.pc = .done := by
      cases hpc : t.pc <;> simp [rank, hpc] at hrk
      · split at hrk <;> omega
      · rfl
    refine ⟨hg, hr, fun _ h => h, t, ht, hd, ?_, rfl, rfl⟩
    simp only [Solo, hd] at hq; exact hq
  | succ m ih =>
    intro s t hg hr ht hq hk hrk
    by_cases hd : t.pc = .done
    · -- already done: further steps change nothing
      have hsame : stepThread crc s tid k = s := by
        unfold stepThread; rw [ht]; simp only [hd]
      simp only [soloRun, hsame]
      exact ih s t hg hr ht hq hk (by simp [rank, hd])
    · obtain ⟨t', ht', hlt, hq', hp', hpi'⟩ := solo_step i hg tid k t ht (hr tid t ht) hq hd hk
      have hg' := stepThread_good hpl hg tid k
      have hr' : RTAll pl blob (stepThread crc s tid k) := RTAll_step hpl hg (.step tid k) hr
      obtain ⟨h1, h2, h3, t'', h4, h5, h6, h7, h8⟩ := ih (stepThread crc s tid k) t' hg' hr' ht' hq' (by rw [hp']; exact hk) (by omega)
      refine ⟨h1, h2, ?_, t'', h4, h5, h6, by rw [h7, hp'], by rw [h8, hpi']⟩
      intro j hj
      exact h3 j (complete_mono_thread hg tid k j hj)

/-- **Solo delivery**: in any reachable torrent state, if piece `i` is empty, a new call carrying the
    blob's piece that runs alone for 20 steps leaves piece `i` complete (and every other complete
    piece complete). -/
theorem solo_delivery_completes (hpl : 0 < pl) {s : State} (hg : Good crc pl blob s) (hr : RTAll pl blob s)
    (i : Nat) (hi : i < numPiecesOf pl blob.length) (he : s.pieces[i]? = some PStatus.empty) (k : Nat)
    (hk : pl ≤ k) :
    let s1 := AgentTorrent.step crc s (.spawn (i : Int) (pieceOf pl blob i))
    let s2 := soloRun crc s.threads.length k 20 s1
    Good crc pl blob s2 ∧ RTAll pl blob s2 ∧ s2.pieces[i]? = some PStatus.complete ∧
    (∀ (j : Nat), s.pieces[j]? = some PStatus.complete → s2.pieces[j]? = some PStatus.complete) := by
  intro s1 s2
  have hsep : SepAction crc pl blob (.spawn (i : Int) (pieceOf pl blob i)) := by
    simp only [SepAction]; intro _ _ _; simp
  have hg1 : Good crc pl blob s1 := step_good hpl hg _ hsep
  have hr1 : RTAll pl blob s1 := RTAll_step hpl hg _ hr
  have ht1 : s1.threads[s.threads.length]? = some { pi := (i : Int), payload := pieceOf pl blob i } := by
    show (s.threads ++ [_])[s.threads.length]? = _
    simp
  have hq1 : Solo i s1 { pi := (i : Int), payload := pieceOf pl blob i } := by
    simp only [Solo]; exact ⟨trivial, he⟩
  have hlen : (pieceOf pl blob i).length ≤ k := Nat.le_trans (piece_in_blob pl blob hpl i hi).2 hk
  obtain ⟨h1, h2, h3, t', h4, h5, h6, hpay, hpi⟩ :=
    soloRun_spec (crc := crc) (pl := pl) (blob := blob) hpl i s.threads.length k 20 s1 _ hg1 hr1 ht1 hq1 hlen (by simp [rank])
  refine ⟨h1, h2, ?_, fun j hj => h3 j hj⟩
  simp only at hpay hpi
  have hrt := h2 s.threads.length t' h4
  simp only [RT, h5] at hrt
  cases hres : t'.result with
  | none => rw [hres] at hrt; exact absurd hrt (by simp [ResMeaning])
  | some r =>
    rw [hres] at hrt
    cases r <;> simp only [ResMeaning] at hrt
    case ok =>
      have : t'.idx = i := by have := hrt.1.2.2; rw [hpi] at this; omega
      rw [← this]; exact hrt.2.2
    case errIndex => rw [hpi] at hrt; omega
    case errLength =>
      exfalso; apply hrt.2.2
      rw [hpay, hpi]; simp
    case errComplete =>
      have : t'.idx = i := by have := hrt.1.2.2; rw [hpi] at this; omega
      rw [← this]; exact hrt.2
    case errConflict => exact absurd hres h6
    case errSum =>
      have : t'.idx = i := by have := hrt.1.2.2; rw [hpi] at this; omega
      exfalso; apply hrt.2; rw [this]; exact hpay

end KrakenModel.Proof.C19
