import KrakenModel.Model.Swarm
import KrakenModel.Proof.C03Live
/-
  C19 helper lemmas: every peer of the swarm keeps the C03 invariants under every swarm action.
-/
namespace KrakenModel.Proof.C19
open KrakenModel KrakenModel.AgentTorrent KrakenModel.Swarm KrakenModel.Proof.C03

section
variable (crc : Bytes → Nat) (pl : Nat) (blob : Bytes)

/-- all three C03 invariants of one peer's torrent -/
def PeerOK (p : Peer) : Prop := Good crc pl blob p.tor ∧ RTAll pl blob p.tor ∧ Live p.tor

def SwarmOK (s : Swarm) : Prop := ∀ (a : Nat) (p : Peer), s.peers[a]? = some p → PeerOK crc pl blob p

/-- checksum separation for the bytes a corrupting peer may put on the wire -/
def SepSwarmAction : Swarm.Action → Prop
  | .deliver _ _ i g => SepPayload crc pl blob (i : Int) g
  | _ => True

instance (a : Swarm.Action) : Decidable (SepSwarmAction crc pl blob a) := by
  cases a <;> simp only [SepSwarmAction] <;> exact inferInstance
end

variable {crc : Bytes → Nat} {pl : Nat} {blob : Bytes}

theorem peerOK_of_tor {p q : Peer} (h : q.tor = p.tor) (hp : PeerOK crc pl blob p) : PeerOK crc pl blob q := by
  unfold PeerOK at *; rw [h]; exact hp

theorem swarmOK_setPeer {s : Swarm} {a : Nat} {p : Peer} (hs : SwarmOK crc pl blob s)
    (hp : PeerOK crc pl blob p) : SwarmOK crc pl blob (setPeer s a p) := by
  intro b q hq
  simp only [setPeer] at hq
  rw [List.getElem?_set] at hq
  split at hq
  · split at hq
    · cases hq; exact hp
    · cases hq
  · exact hs b q hq

/-- what an honest peer reads from a complete piece is the blob's piece -/
theorem readPiece_complete (hpl : 0 < pl) {t : State} (hg : Good crc pl blob t) (i : Nat) (x : Bytes)
    (h : readPiece t (i : Int) = .bytes x) : x = pieceOf pl blob i := by
  unfold readPiece at h
  split at h
  · cases h
  · rename_i h1
    have hi : i < numPiecesOf pl blob.length := by rw [← hg.len_pieces]; omega
    have goal : x = pieceOf pl blob i := by
      simp only [Int.toNat_natCast] at h
      cases hp : t.pieces[i]? with
      | none => rw [hp] at h; cases h
      | some st =>
        rw [hp] at h
        cases st <;> simp only at h <;> try cases h
        have hb := complete_piece_bytes hg i hp
        have hlen : (t.mi.pieceLength (i : Int)).toNat = (pieceOf pl blob i).length := by
          rw [hg.mi_eq, pieceLength_ofBlob crc pl blob hpl i hi]; simp
        have hmipl : t.mi.pl = pl := by rw [hg.mi_eq]; rfl
        rw [hmipl, hlen]
        have : (pieceOf pl blob i).length ≤ pl := (piece_in_blob pl blob hpl i hi).2
        calc List.take (pieceOf pl blob i).length (List.drop (pl * i) t.file)
            = List.take (pieceOf pl blob i).length (List.take pl (List.drop (pl * i) t.file)) := by
              rw [List.take_take]; congr 1; omega
          _ = pieceOf pl blob i := by rw [hb]; exact List.take_length
    exact goal

theorem sep_of_eq (i : Nat) (p : Bytes) (h : p = pieceOf pl blob i) : SepPayload crc pl blob (i : Int) p := by
  intro _ _ _; simp only [Int.toNat_natCast]; exact h

theorem peerOK_step (hpl : 0 < pl) {p : Peer} (hp : PeerOK crc pl blob p) (a : AgentTorrent.Action)
    (hsep : SepAction crc pl blob a) (q : Peer) (hq : q.tor = AgentTorrent.step crc p.tor a) :
    PeerOK crc pl blob q := by
  unfold PeerOK at *
  rw [hq]
  exact ⟨step_good hpl hp.1 a hsep, RTAll_step hpl hp.1 a hp.2.1, step_live hp.1 a hp.2.2⟩

theorem markInvalid_tor (pa : Peer) (b i : Nat) : (markInvalid pa b i).tor = pa.tor := by
  unfold markInvalid; simp only; split <;> rfl

theorem dropEnd_ok {s : Swarm} (hs : SwarmOK crc pl blob s) (a b : Nat) : SwarmOK crc pl blob (dropEnd s a b) := by
  unfold dropEnd
  cases ha : s.peers[a]? with
  | none => exact hs
  | some pa => exact swarmOK_setPeer hs (peerOK_of_tor rfl (hs a pa ha))

theorem swarm_step_ok (hpl : 0 < pl) {s : Swarm} (hs : SwarmOK crc pl blob s) (a : Swarm.Action)
    (hsep : SepSwarmAction crc pl blob a) : SwarmOK crc pl blob (Swarm.step crc s a) := by
  cases a with
  | connect a b =>
    simp only [Swarm.step]
    cases ha : s.peers[a]? with
    | none => exact hs
    | some pa =>
      cases hb : s.peers[b]? with
      | none => exact hs
      | some pb =>
        simp only
        split
        · exact swarmOK_setPeer (swarmOK_setPeer hs (peerOK_of_tor rfl (hs a pa ha))) (peerOK_of_tor rfl (hs b pb hb))
        · exact hs
  | disconnect a b =>
    simp only [Swarm.step]
    exact dropEnd_ok (dropEnd_ok hs a b) b a
  | unblacklist a b =>
    simp only [Swarm.step]
    cases ha : s.peers[a]? with
    | none => exact hs
    | some pa => exact swarmOK_setPeer hs (peerOK_of_tor rfl (hs a pa ha))
  | dialfail a b =>
    simp only [Swarm.step]
    cases ha : s.peers[a]? with
    | none => exact hs
    | some pa => exact swarmOK_setPeer hs (peerOK_of_tor rfl (hs a pa ha))
  | expire a b i =>
    simp only [Swarm.step]
    cases ha : s.peers[a]? with
    | none => exact hs
    | some pa =>
      simp only
      split
      · exact swarmOK_setPeer hs (peerOK_of_tor rfl (hs a pa ha))
      · exact hs
  | reqfail a b i =>
    simp only [Swarm.step]
    cases ha : s.peers[a]? with
    | none => exact hs
    | some pa => exact swarmOK_setPeer hs (peerOK_of_tor (markInvalid_tor pa b i) (hs a pa ha))
  | resend a f b i =>
    simp only [Swarm.step]
    cases ha : s.peers[a]? with
    | none => exact hs
    | some pa =>
      cases hb : s.peers[b]? with
      | none => exact hs
      | some pb =>
        simp only
        split
        · exact swarmOK_setPeer hs (peerOK_of_tor rfl (hs a pa ha))
        · exact hs
  | leave a =>
    simp only [Swarm.step]
    cases ha : s.peers[a]? with
    | none => exact hs
    | some pa =>
      simp only
      intro b q hq
      rw [List.getElem?_set] at hq
      split at hq
      · split at hq
        · cases hq; exact peerOK_of_tor rfl (hs a pa ha)
        · cases hq
      · rw [List.getElem?_map] at hq
        cases hb : s.peers[b]? with
        | none => rw [hb] at hq; cases hq
        | some pb => rw [hb] at hq; cases hq; exact peerOK_of_tor rfl (hs b pb hb)
  | request a b i =>
    simp only [Swarm.step]
    cases ha : s.peers[a]? with
    | none => exact hs
    | some pa =>
      cases hb : s.peers[b]? with
      | none => exact hs
      | some pb =>
        simp only
        split
        · exact swarmOK_setPeer hs (peerOK_of_tor rfl (hs a pa ha))
        · exact hs
  | deliver a b i g =>
    simp only [Swarm.step]
    cases ha : s.peers[a]? with
    | none => exact hs
    | some pa =>
      cases hb : s.peers[b]? with
      | none => exact hs
      | some pb =>
        simp only
        split
        · cases hw : wirePayload pb i g with
          | none => exact swarmOK_setPeer hs (peerOK_of_tor (markInvalid_tor pa b i) (hs a pa ha))
          | some payload =>
            simp only
            apply swarmOK_setPeer hs
            apply peerOK_step hpl (hs a pa ha) (.spawn (i : Int) payload) _ _ rfl
            simp only [SepAction]
            unfold wirePayload at hw
            split at hw
            · cases hw; exact hsep
            · cases hr : readPiece pb.tor (i : Int) with
              | bytes x =>
                rw [hr] at hw; cases hw
                exact sep_of_eq i _ (readPiece_complete hpl (hs b pb hb).1 i _ hr)
              | errIndex => rw [hr] at hw; cases hw
              | errNotComplete => rw [hr] at hw; cases hw
              | panic => rw [hr] at hw; cases hw
        · exact hs
  | tstep a tid k =>
    simp only [Swarm.step]
    cases ha : s.peers[a]? with
    | none => exact hs
    | some pa =>
      simp only
      exact swarmOK_setPeer hs (peerOK_step hpl (hs a pa ha) (.step tid k) trivial _ rfl)
  | resolve a tid =>
    simp only [Swarm.step]
    cases ha : s.peers[a]? with
    | none => exact hs
    | some pa =>
      simp only
      cases hf : pa.inflight.find? (·.tid = tid) with
      | none => exact hs
      | some d =>
        cases hr : (pa.tor.threads[tid]?).bind (·.result) with
        | none => exact hs
        | some r =>
          simp only
          cases r <;> first
            | exact swarmOK_setPeer hs (peerOK_of_tor rfl (hs a pa ha))
            | exact swarmOK_setPeer hs (peerOK_of_tor (markInvalid_tor _ _ _) (hs a pa ha))

/-- a torrent that holds the whole blob satisfies the invariants -/
theorem seed_good (crc : Bytes → Nat) (pl : Nat) (blob : Bytes) :
    Good crc pl blob (seedState (MetaInfo.ofBlob crc pl blob) blob) := by
  have hnp : (MetaInfo.ofBlob crc pl blob).numPieces = numPiecesOf pl blob.length := numPieces_ofBlob crc pl blob
  refine { mi_eq := rfl, len_pieces := ?_, len_status := ?_, len_file := rfl, status_good := ?_,
           complete_status := ?_, empty_status := ?_, thr := ?_, excl := ?_, owned := ?_, num := ?_,
           cache_num := ?_, committed_cache := fun _ => rfl }
  · simp [seedState, hnp]
  · simp [seedState, hnp]
  · intro i _ j _; rfl
  · intro i hi
    simp only [seedState] at hi ⊢
    rw [List.getElem?_replicate] at hi ⊢
    split at hi
    · rename_i h; rw [if_pos h]
    · cases hi
  · intro i hi
    simp only [seedState] at hi
    rw [List.getElem?_replicate] at hi
    split at hi <;> cases hi
  · intro a u hu; simp [seedState] at hu
  · intro a b ta tb ha; simp [seedState] at ha
  · intro i hi
    simp only [seedState] at hi
    rw [List.getElem?_replicate] at hi
    split at hi <;> cases hi
  · simp [seedState]
  · intro _; simp [seedState]

theorem seed_ok (crc : Bytes → Nat) (pl : Nat) (blob : Bytes) (c : Bool) :
    PeerOK crc pl blob { tor := seedState (MetaInfo.ofBlob crc pl blob) blob, corrupt := c } := by
  refine ⟨seed_good crc pl blob, ?_, ?_⟩
  · intro a u hu; simp [seedState] at hu
  · intro _; left; rfl

theorem agent_ok (crc : Bytes → Nat) (pl : Nat) (blob : Bytes) :
    PeerOK crc pl blob { tor := AgentTorrent.init (MetaInfo.ofBlob crc pl blob) } :=
  ⟨init_good crc pl blob, RTAll_init _, init_live _⟩

theorem init_ok (crc : Bytes → Nat) (pl : Nat) (blob : Bytes) (cfg : Cfg) (seeders : List Bool) (agents : Nat) :
    SwarmOK crc pl blob (initSwarm cfg (MetaInfo.ofBlob crc pl blob) blob seeders agents) := by
  intro a p hp
  simp only [initSwarm] at hp
  rw [List.getElem?_append] at hp
  split at hp
  · rw [List.getElem?_map] at hp
    cases hc : seeders[a]? with
    | none => rw [hc] at hp; cases hp
    | some c => rw [hc] at hp; cases hp; exact seed_ok crc pl blob c
  · rw [List.getElem?_replicate] at hp
    split at hp
    · cases hp; exact agent_ok crc pl blob
    · cases hp


/-- rewriting one peer with a record that keeps its torrent keeps every peer's torrent -/
theorem setPeer_tor_same {s : Swarm} {x : Nat} {px q : Peer} (hx : s.peers[x]? = some px)
    (a : Nat) (p p' : Peer) (hp : s.peers[a]? = some p) (hp' : (setPeer s x q).peers[a]? = some p')
    (hq : q.tor = px.tor) : p'.tor = p.tor := by
  simp only [setPeer] at hp'
  rw [List.getElem?_set] at hp'
  split at hp'
  · split at hp'
    · cases hp'; rename_i h1 _; subst h1; rw [hx] at hp; cases hp; exact hq
    · cases hp'
  · rw [hp] at hp'; cases hp'; rfl

theorem dropEnd_tor (s : Swarm) (x y a : Nat) (p p' : Peer) (hp : s.peers[a]? = some p)
    (hp' : (dropEnd s x y).peers[a]? = some p') : p'.tor = p.tor := by
  unfold dropEnd at hp'
  cases hx : s.peers[x]? with
  | none => rw [hx] at hp'; simp only at hp'; rw [hp] at hp'; cases hp'; rfl
  | some px => rw [hx] at hp'; simp only at hp'; exact setPeer_tor_same hx a p p' hp hp' rfl

/-- every swarm action rewrites a peer's torrent by at most one torrent action -/
theorem peer_tor_step (crc : Bytes → Nat) (s : Swarm) (act : Swarm.Action) (a : Nat) (p p' : Peer)
    (hp : s.peers[a]? = some p) (hp' : (Swarm.step crc s act).peers[a]? = some p') :
    p'.tor = p.tor ∨ ∃ ta, ta.destructive = false ∧ p'.tor = AgentTorrent.step crc p.tor ta := by
  cases act with
  | connect x y =>
    simp only [Swarm.step] at hp'
    cases hx : s.peers[x]? with
    | none => rw [hx] at hp'; simp only at hp'; rw [hp] at hp'; cases hp'; exact Or.inl rfl
    | some px =>
      cases hy : s.peers[y]? with
      | none => rw [hx, hy] at hp'; simp only at hp'; rw [hp] at hp'; cases hp'; exact Or.inl rfl
      | some py =>
        rw [hx, hy] at hp'; simp only at hp'
        split at hp'
        · -- two rewrites, both keep the torrents
          have hy1 : (setPeer s x { px with conns := y :: px.conns }).peers[y]? = some (if x = y then { px with conns := y :: px.conns } else py) := by
            simp only [setPeer]; rw [List.getElem?_set]
            split
            · rename_i h; subst h; simp [lt_of_getElem?_some hx]
            · rename_i h; simp [hy]
          cases hmid : (setPeer s x { px with conns := y :: px.conns }).peers[a]? with
          | none =>
            exfalso
            have : a < (setPeer s x { px with conns := y :: px.conns }).peers.length := by
              simp only [setPeer, List.length_set]; exact lt_of_getElem?_some hp
            rw [List.getElem?_eq_none_iff] at hmid; omega
          | some pm =>
            have h1 := setPeer_tor_same hx a p pm hp hmid rfl
            rename_i hcond
            have hxy : x ≠ y := hcond.1
            rw [if_neg hxy] at hy1
            have h2 := setPeer_tor_same hy1 a pm p' hmid hp' rfl
            exact Or.inl (by rw [h2, h1])
        · rw [hp] at hp'; cases hp'; exact Or.inl rfl
  | disconnect x y =>
    simp only [Swarm.step] at hp'
    have hlen1 : (dropEnd s x y).peers.length = s.peers.length := by
      unfold dropEnd; cases hx : s.peers[x]? <;> simp [setPeer]
    cases hm : (dropEnd s x y).peers[a]? with
    | none =>
      exfalso
      have := lt_of_getElem?_some hp
      rw [List.getElem?_eq_none_iff] at hm; omega
    | some pm =>
      have h1 := dropEnd_tor s x y a p pm hp hm
      have h2 := dropEnd_tor (dropEnd s x y) y x a pm p' hm hp'
      exact Or.inl (by rw [h2, h1])
  | unblacklist x y =>
    simp only [Swarm.step] at hp'
    cases hx : s.peers[x]? with
    | none => rw [hx] at hp'; simp only at hp'; rw [hp] at hp'; cases hp'; exact Or.inl rfl
    | some px =>
      rw [hx] at hp'; simp only at hp'
      exact Or.inl (setPeer_tor_same hx a p p' hp hp' rfl)
  | dialfail x y =>
    simp only [Swarm.step] at hp'
    cases hx : s.peers[x]? with
    | none => rw [hx] at hp'; simp only at hp'; rw [hp] at hp'; cases hp'; exact Or.inl rfl
    | some px =>
      rw [hx] at hp'; simp only at hp'
      exact Or.inl (setPeer_tor_same hx a p p' hp hp' rfl)
  | expire x y j =>
    simp only [Swarm.step] at hp'
    cases hx : s.peers[x]? with
    | none => rw [hx] at hp'; simp only at hp'; rw [hp] at hp'; cases hp'; exact Or.inl rfl
    | some px =>
      rw [hx] at hp'; simp only at hp'
      split at hp'
      · exact Or.inl (setPeer_tor_same hx a p p' hp hp' rfl)
      · rw [hp] at hp'; cases hp'; exact Or.inl rfl
  | reqfail x y j =>
    simp only [Swarm.step] at hp'
    cases hx : s.peers[x]? with
    | none => rw [hx] at hp'; simp only at hp'; rw [hp] at hp'; cases hp'; exact Or.inl rfl
    | some px =>
      rw [hx] at hp'; simp only at hp'
      exact Or.inl (setPeer_tor_same hx a p p' hp hp' (markInvalid_tor px y j))
  | resend x f y j =>
    simp only [Swarm.step] at hp'
    cases hx : s.peers[x]? with
    | none => rw [hx] at hp'; simp only at hp'; rw [hp] at hp'; cases hp'; exact Or.inl rfl
    | some px =>
      cases hy : s.peers[y]? with
      | none => rw [hx, hy] at hp'; simp only at hp'; rw [hp] at hp'; cases hp'; exact Or.inl rfl
      | some py =>
        rw [hx, hy] at hp'; simp only at hp'
        split at hp'
        · exact Or.inl (setPeer_tor_same hx a p p' hp hp' rfl)
        · rw [hp] at hp'; cases hp'; exact Or.inl rfl
  | leave x =>
    simp only [Swarm.step] at hp'
    cases hx : s.peers[x]? with
    | none => rw [hx] at hp'; simp only at hp'; rw [hp] at hp'; cases hp'; exact Or.inl rfl
    | some px =>
      rw [hx] at hp'; simp only at hp'
      rw [List.getElem?_set] at hp'
      split at hp'
      · split at hp'
        · cases hp'; rename_i h1 _; subst h1; rw [hx] at hp; cases hp; exact Or.inl rfl
        · cases hp'
      · rw [List.getElem?_map, hp] at hp'; cases hp'; exact Or.inl rfl
  | request x y j =>
    simp only [Swarm.step] at hp'
    cases hx : s.peers[x]? with
    | none => rw [hx] at hp'; simp only at hp'; rw [hp] at hp'; cases hp'; exact Or.inl rfl
    | some px =>
      cases hy : s.peers[y]? with
      | none => rw [hx, hy] at hp'; simp only at hp'; rw [hp] at hp'; cases hp'; exact Or.inl rfl
      | some py =>
        rw [hx, hy] at hp'; simp only at hp'
        split at hp'
        · simp only [setPeer] at hp'
          rw [List.getElem?_set] at hp'
          split at hp'
          · split at hp'
            · cases hp'; rename_i h1 _; subst h1; rw [hx] at hp; cases hp; exact Or.inl rfl
            · cases hp'
          · rw [hp] at hp'; cases hp'; exact Or.inl rfl
        · rw [hp] at hp'; cases hp'; exact Or.inl rfl
  | deliver x y j g =>
    simp only [Swarm.step] at hp'
    cases hx : s.peers[x]? with
    | none => rw [hx] at hp'; simp only at hp'; rw [hp] at hp'; cases hp'; exact Or.inl rfl
    | some px =>
      cases hy : s.peers[y]? with
      | none => rw [hx, hy] at hp'; simp only at hp'; rw [hp] at hp'; cases hp'; exact Or.inl rfl
      | some py =>
        rw [hx, hy] at hp'; simp only at hp'
        split at hp'
        · cases hw : wirePayload py j g with
          | none =>
            rw [hw] at hp'; simp only at hp'
            exact Or.inl (setPeer_tor_same hx a p p' hp hp' (markInvalid_tor px y j))
          | some payload =>
            rw [hw] at hp'; simp only [setPeer] at hp'
            rw [List.getElem?_set] at hp'
            split at hp'
            · split at hp'
              · cases hp'; rename_i h1 _; subst h1; rw [hx] at hp; cases hp
                exact Or.inr ⟨.spawn (j : Int) payload, ⟨rfl, rfl⟩⟩
              · cases hp'
            · rw [hp] at hp'; cases hp'; exact Or.inl rfl
        · rw [hp] at hp'; cases hp'; exact Or.inl rfl
  | tstep x tid k =>
    simp only [Swarm.step] at hp'
    cases hx : s.peers[x]? with
    | none => rw [hx] at hp'; simp only at hp'; rw [hp] at hp'; cases hp'; exact Or.inl rfl
    | some px =>
      rw [hx] at hp'; simp only [setPeer] at hp'
      rw [List.getElem?_set] at hp'
      split at hp'
      · split at hp'
        · cases hp'; rename_i h1 _; subst h1; rw [hx] at hp; cases hp; exact Or.inr ⟨.step tid k, ⟨rfl, rfl⟩⟩
        · cases hp'
      · rw [hp] at hp'; cases hp'; exact Or.inl rfl
  | resolve x tid =>
    simp only [Swarm.step] at hp'
    cases hx : s.peers[x]? with
    | none => rw [hx] at hp'; simp only at hp'; rw [hp] at hp'; cases hp'; exact Or.inl rfl
    | some px =>
      rw [hx] at hp'; simp only at hp'
      cases hf : px.inflight.find? (·.tid = tid) with
      | none => rw [hf] at hp'; simp only at hp'; rw [hp] at hp'; cases hp'; exact Or.inl rfl
      | some d =>
        cases hr : (px.tor.threads[tid]?).bind (·.result) with
        | none => rw [hf, hr] at hp'; simp only at hp'; rw [hp] at hp'; cases hp'; exact Or.inl rfl
        | some r =>
          rw [hf, hr] at hp'; simp only at hp'
          cases r <;> first
            | exact Or.inl (setPeer_tor_same hx a p p' hp hp' rfl)
            | exact Or.inl (setPeer_tor_same hx a p p' hp hp' (markInvalid_tor _ _ _))


end KrakenModel.Proof.C19
