import KrakenModel.Proof.C06OpsC
/-
  C06 proof library, part 10: the constructor's recovery scan.
-/
set_option linter.unusedSectionVars false
set_option linter.unusedSimpArgs false
namespace KrakenModel.DiskCrash
open KrakenModel.FS

theorem exec_ok {cfg : Cfg} {m : Mem} {fs : FS Name} (hfs : GoodFS cfg fs) (hg : GoodMem cfg m fs)
    (ord : Order Name) (o : Op)
    (hp : ∀ K sz, o = Op.create K sz → ValidKey cfg K ∧ sz < 2 ^ 63) : OpOK cfg m fs (exec cfg ord m fs o) := by
  cases o with
  | create K sz =>
    obtain ⟨h1, h2⟩ := hp K sz rfl
    simp only [exec]
    split
    · exact create_ok hfs hg ord K sz h1 h2
    · exact opOK_noop hfs hg hg rfl _ (by decide)
  | write K off b => exact write_ok hfs hg K off b
  | markComplete K => exact markComplete_ok hfs hg K
  | delete K => exact delete_ok hfs hg ord K
  | ban K => exact ban_ok hfs hg K
  | unban K => exact unban_ok hfs hg K
  | setMd K md b => exact setMd_ok hfs hg K md b
  | delMd K md => exact delMd_ok hfs hg K md
  | writeAtMd K md off b => exact writeAtMd_ok hfs hg K md off b

/-! ### keys found by the walk -/

theorem mem_rebootKeys (cfg : Cfg) (fs : FS Name) (c : Bool) (K : Key) :
    K ∈ rebootKeys cfg fs c ↔
      ∃ p ∈ fs.paths, p.head? = some (subName c) ∧ p.length = cfg.shardLength + 2 ∧ p.getLast?.getD "" = K := by
  simp only [rebootKeys, mem_dedupe, List.mem_map, sortPaths, mem_isort, List.mem_filter,
    decide_eq_true_eq]
  constructor
  · rintro ⟨p, ⟨hp, h1, h2⟩, rfl⟩; exact ⟨p, hp, h1, h2, rfl⟩
  · rintro ⟨p, hp, h1, h2, rfl⟩; exact ⟨p, ⟨hp, h1, h2⟩, rfl⟩

theorem rebootKeys_nodup (cfg : Cfg) (fs : FS Name) (c : Bool) : (rebootKeys cfg fs c).Nodup := by
  unfold rebootKeys; exact nodup_dedupe _

theorem mem_rebootKeys_of_dir {cfg : Cfg} {fs : FS Name} {c : Bool} {K : Key} (hv : ValidKey cfg K)
    (h : (fs.dir? (dirPath cfg c K)).isSome = true) : K ∈ rebootKeys cfg fs c := by
  rw [mem_rebootKeys]
  refine ⟨dirPath cfg c K, (FS.mem_paths_iff _ _).mpr h, dirPath_head cfg c K, ?_, ?_⟩
  · have := dirPath_length cfg c K hv; simpa [depth] using this
  · rw [dirPath_getLast]; rfl

theorem mem_rebootEntries (cfg : Cfg) (fs : FS Name) (K : Key) (c : Bool) :
    (K, c) ∈ rebootEntries cfg fs ↔ K ∈ rebootKeys cfg fs c ∧ (c = true ∨ cfg.reboot = true) := by
  unfold rebootEntries
  cases c <;> by_cases hr : cfg.reboot = true <;> simp [hr]

theorem rebootEntries_nodup (cfg : Cfg) (fs : FS Name) : (rebootEntries cfg fs).Nodup := by
  unfold rebootEntries
  rw [List.nodup_append]
  refine ⟨?_, ?_, ?_⟩
  · exact (rebootKeys_nodup cfg fs true).map (fun k => (k, true)) (fun a b h e => h (by simpa using e))
  · split
    · exact (rebootKeys_nodup cfg fs false).map (fun k => (k, false)) (fun a b h e => h (by simpa using e))
    · simp
  · intro a ha b hb
    simp only [List.mem_map] at ha
    obtain ⟨K, _, rfl⟩ := ha
    split at hb
    · simp only [List.mem_map] at hb; obtain ⟨K', _, rfl⟩ := hb; simp
    · simp at hb

theorem validKey_of_length {cfg : Cfg} {c : Bool} {K : Key} (h : (dirPath cfg c K).length = depth cfg) :
    ValidKey cfg K := by
  unfold ValidKey
  simp only [dirPath, depth, shards, List.length_cons, List.length_append, List.length_map, List.length_range,
    List.length_nil] at h
  omega

/-! ### what `rebootBlob` says -/

theorem rebootBlob_some {cfg : Cfg} {fs : FS Name} {c : Bool} {K : Key} {rb : RBlob}
    (h : rebootBlob cfg fs c K = some rb) :
    rb.key = K ∧ rb.complete = c ∧ ∃ d, fs.dir? (dirPath cfg c K) = some d ∧ (aget d Name.data).isSome = true ∧
      (aget d Name.ban).isSome = rb.banned ∧
      (c = true → ∃ dat, aget d Name.data = some dat ∧ rb.size = dat.length) ∧
      (c = false → ∃ s, aget d Name.size = some s ∧ parseSize s = some rb.size) := by
  unfold rebootBlob at h
  simp only [FS.file?] at h
  cases hd : fs.dir? (dirPath cfg c K) with
  | none => simp [hd] at h
  | some d =>
    simp only [hd] at h
    cases hdat : aget d Name.data with
    | none => simp [hdat] at h
    | some dat =>
      simp only [hdat] at h
      cases c with
      | true =>
        simp only [if_true, Option.some.injEq] at h; subst h
        exact ⟨rfl, rfl, d, rfl, by simp [hdat], rfl, fun _ => ⟨dat, hdat, rfl⟩, fun h => (by cases h)⟩
      | false =>
        simp only [Bool.false_eq_true, if_false] at h
        cases hs : aget d Name.size with
        | none => simp [hs] at h
        | some s =>
          simp only [hs] at h
          cases hp : parseSize s with
          | none => simp [hp] at h
          | some n =>
            simp only [hp, Option.some.injEq] at h; subst h
            exact ⟨rfl, rfl, d, rfl, by simp [hdat], rfl, fun h => (by cases h), fun _ => ⟨s, hs, hp⟩⟩

theorem rebootBlob_congr {cfg : Cfg} {fs fs' : FS Name} {c : Bool} {K : Key}
    (h : fs'.dir? (dirPath cfg c K) = fs.dir? (dirPath cfg c K)) : rebootBlob cfg fs' c K = rebootBlob cfg fs c K := by
  simp only [rebootBlob, FS.file?, h]

/-! ### the blob map built from the scan -/

def blobOf (rb : RBlob) : Blob := ⟨rb.size, rb.complete, rb.banned⟩

theorem insertBlobs_cons (rb : RBlob) (l : List RBlob) (acc : List (Key × Blob)) :
    insertBlobs (rb :: l) acc = insertBlobs l (aset acc rb.key (blobOf rb)) := rfl

theorem insertBlobs_nodup (l : List RBlob) (acc : List (Key × Blob)) (h : (akeys acc).Nodup) :
    (akeys (insertBlobs l acc)).Nodup := by
  induction l generalizing acc with
  | nil => exact h
  | cons rb l ih => rw [insertBlobs_cons]; exact ih _ (akeys_nodup_aset _ _ _ h)

theorem insertBlobs_some (l : List RBlob) (acc : List (Key × Blob)) (K : Key) (bl : Blob)
    (h : aget (insertBlobs l acc) K = some bl) :
    (∃ rb ∈ l, rb.key = K ∧ bl = blobOf rb) ∨ aget acc K = some bl := by
  induction l generalizing acc with
  | nil => right; exact h
  | cons rb l ih =>
    rw [insertBlobs_cons] at h
    rcases ih _ h with ⟨rb', hm, h1, h2⟩ | h'
    · left; exact ⟨rb', List.mem_cons_of_mem _ hm, h1, h2⟩
    · by_cases hk : rb.key = K
      · subst hk; rw [aget_aset_self] at h'; cases h'
        left; exact ⟨rb, List.mem_cons_self .., rfl, rfl⟩
      · right; rwa [aget_aset_ne _ _ _ _ hk] at h'

theorem insertBlobs_notin (l : List RBlob) (acc : List (Key × Blob)) (K : Key) (h : ∀ rb ∈ l, rb.key ≠ K) :
    aget (insertBlobs l acc) K = aget acc K := by
  induction l generalizing acc with
  | nil => rfl
  | cons rb l ih =>
    rw [insertBlobs_cons, ih _ (fun rb' h' => h rb' (List.mem_cons_of_mem _ h')),
      aget_aset_ne _ _ _ _ (h rb (List.mem_cons_self ..))]

theorem insertBlobs_mem (l : List RBlob) (acc : List (Key × Blob)) (rb : RBlob) (hm : rb ∈ l)
    (hu : ∀ rb' ∈ l, rb'.key = rb.key → rb' = rb) : aget (insertBlobs l acc) rb.key = some (blobOf rb) := by
  induction l generalizing acc with
  | nil => cases hm
  | cons x l ih =>
    rw [insertBlobs_cons]
    by_cases hin : rb ∈ l
    · exact ih _ hin (fun rb' h' => hu rb' (List.mem_cons_of_mem _ h'))
    · have hx : x = rb := by
        rcases List.mem_cons.mp hm with h | h
        · exact h.symm
        · exact absurd h hin
      subst hx
      rw [insertBlobs_notin l _ _ (fun rb' h' e => hin (by rw [← hu rb' (List.mem_cons_of_mem _ h') e]; exact h')),
        aget_aset_self]

/-- nodup keys of a `filterMap` -/
theorem nodup_map_filterMap {α β γ : Type} (l : List α) (f : α → Option β) (g : β → γ) (hl : l.Nodup)
    (hinj : ∀ a ∈ l, ∀ b ∈ l, ∀ x y, f a = some x → f b = some y → g x = g y → a = b) :
    ((l.filterMap f).map g).Nodup := by
  induction l with
  | nil => simp
  | cons a l ih =>
    have hl' := List.nodup_cons.mp hl
    simp only [List.filterMap_cons]
    cases hfa : f a with
    | none =>
      exact ih hl'.2 (fun a' ha' b' hb' => hinj a' (List.mem_cons_of_mem _ ha') b' (List.mem_cons_of_mem _ hb'))
    | some x =>
      simp only [List.map_cons, List.nodup_cons]
      refine ⟨?_, ih hl'.2 (fun a' ha' b' hb' => hinj a' (List.mem_cons_of_mem _ ha') b' (List.mem_cons_of_mem _ hb'))⟩
      intro hm
      simp only [List.mem_map, List.mem_filterMap] at hm
      obtain ⟨y, ⟨b, hb, hfb⟩, hg⟩ := hm
      have := hinj a (List.mem_cons_self ..) b (List.mem_cons_of_mem _ hb) x y hfa hfb hg.symm
      subst this
      exact hl'.1 hb

/-! ### removing several directories -/

theorem removeAllPlan_congr (fs fs' : FS Name) (o : Order Name) (p : Path) (h : fs'.dir? p = fs.dir? p) :
    removeAllPlan fs' o p = removeAllPlan fs o p := by
  simp only [removeAllPlan, h]

theorem paths_subset_of_removal (cs : List (Call Name)) (fs : FS Name) (hr : ∀ c ∈ cs, Call.removal c = true) :
    ∀ q ∈ (applyAll fs cs).paths, q ∈ fs.paths := by
  intro q hq
  rcases mem_paths_applyAll _ _ _ hq with h | ⟨c, hc, h⟩
  · exact h
  · rw [removal_created c (hr c hc)] at h; cases h

theorem removeAll_many (fs0 : FS Name) (o : Order Name) (ps : List Path) :
    ∀ cur : FS Name, (∀ p ∈ ps, cur.dir? p = fs0.dir? p) → ps.Nodup →
      (∀ q, q ∉ ps → (applyAll cur (ps.flatMap (removeAllPlan fs0 o))).dir? q = cur.dir? q) ∧
      (∀ p ∈ ps, (∀ q ∈ cur.paths, q ≠ [] → q.dropLast ≠ p) →
        (applyAll cur (ps.flatMap (removeAllPlan fs0 o))).dir? p = none) := by
  induction ps with
  | nil => intro cur _ _; exact ⟨fun _ _ => rfl, fun p hp => by cases hp⟩
  | cons p0 ps ih =>
    intro cur hagree hnd
    have hnd' := List.nodup_cons.mp hnd
    simp only [List.flatMap_cons, applyAll_append]
    have hcongr : removeAllPlan fs0 o p0 = removeAllPlan cur o p0 :=
      (removeAllPlan_congr fs0 cur o p0 (hagree p0 (List.mem_cons_self ..))).symm
    have hstep : ∀ q, q ≠ p0 → (applyAll cur (removeAllPlan fs0 o p0)).dir? q = cur.dir? q := by
      intro q hq
      have := dir?_removeAll_other fs0 o p0 q (removeAllPlan fs0 o p0).length hq cur
      rwa [applyPrefix_all _ _ _ (Nat.le_refl _)] at this
    have hagree1 : ∀ p ∈ ps, (applyAll cur (removeAllPlan fs0 o p0)).dir? p = fs0.dir? p := by
      intro p hp
      rw [hstep p (by intro e; subst e; exact hnd'.1 hp)]
      exact hagree p (List.mem_cons_of_mem _ hp)
    obtain ⟨ih1, ih2⟩ := ih (applyAll cur (removeAllPlan fs0 o p0)) hagree1 hnd'.2
    constructor
    · intro q hq
      simp only [List.mem_cons, not_or] at hq
      rw [ih1 q hq.2, hstep q hq.1]
    · intro p hp hch
      rcases List.mem_cons.mp hp with rfl | hp'
      · rw [ih1 p hnd'.1, hcongr]
        exact dir?_removeAll_self cur o p hch
      · apply ih2 p hp'
        intro q hq
        exact hch q (paths_subset_of_removal _ cur (removeAllPlan_removal fs0 o p0) q hq)

/-! ### the initial `RemoveAll(incomplete)` -/

theorem rmCall_props {c : Call Name} (h : rmCall c = true) :
    Call.removal c = true ∧ ∃ p, c.touched = [p] ∧ underInc p = true := by
  cases c <;> simp only [rmCall] at h <;> first
    | exact ⟨rfl, _, rfl, h⟩
    | cases h

theorem underInc_dirPath (cfg : Cfg) (c : Bool) (K : Key) : underInc (dirPath cfg c K) = !c := by
  cases c <;> simp [underInc, dirPath, subName]

structure RmFacts (cfg : Cfg) (fs fs0 : FS Name) (calls0 : List (Call Name)) : Prop where
  removal : ∀ c ∈ calls0, Call.removal c = true
  good : GoodFS cfg fs0
  comp : ∀ K, fs0.dir? (dirPath cfg true K) = fs.dir? (dirPath cfg true K)
  same : cfg.reboot = true → fs0 = fs
  gone : cfg.reboot = false → ∀ K, fs0.dir? (dirPath cfg false K) = none
  pre : ∀ k K, (applyPrefix k calls0 fs).dir? (dirPath cfg true K) = fs.dir? (dirPath cfg true K)

theorem rm_facts {cfg : Cfg} {fs : FS Name} (hfs : GoodFS cfg fs) (rm : List (Call Name))
    (hrm : cfg.reboot = false → validRm fs rm = true) :
    RmFacts cfg fs (applyAll fs (if cfg.reboot = true then [] else rm)) (if cfg.reboot = true then [] else rm) := by
  by_cases hr : cfg.reboot = true
  · simp only [hr, if_true, applyAll_nil]
    exact ⟨by simp, hfs, fun _ => rfl, fun _ => rfl, fun h => (by rw [hr] at h; cases h), fun k K => (by simp [applyPrefix, applyAll])⟩
  · simp only [hr, Bool.false_eq_true, if_false]
    have hv := hrm (by simpa using hr)
    simp only [validRm, Bool.and_eq_true, List.all_eq_true] at hv
    obtain ⟨h1, h2⟩ := hv
    have hrem : ∀ c ∈ rm, Call.removal c = true := fun c hc => (rmCall_props (h1 c hc)).1
    have hframe : ∀ k K, (applyPrefix k rm fs).dir? (dirPath cfg true K) = fs.dir? (dirPath cfg true K) := by
      intro k K
      apply dir?_applyPrefix_of_not_touched
      intro c hc
      obtain ⟨_, p, hp, hu⟩ := rmCall_props (h1 c hc)
      rw [hp]; simp only [List.mem_singleton]
      intro e; rw [← e, underInc_dirPath] at hu; cases hu
    refine ⟨hrem, goodFS_applyAll_removal _ hfs hrem, ?_, fun h => absurd h hr, ?_, hframe⟩
    · intro K
      have := hframe rm.length K
      rwa [applyPrefix_all _ _ _ (Nat.le_refl _)] at this
    · intro _ K
      cases hd : (applyAll fs rm).dir? (dirPath cfg false K) with
      | none => rfl
      | some d =>
        have hmem : dirPath cfg false K ∈ (applyAll fs rm).paths := (FS.mem_paths_iff _ _).mpr (by simp [hd])
        have := h2 _ hmem
        rw [underInc_dirPath] at this; simp at this

end KrakenModel.DiskCrash
