import KrakenModel.Util.LTS
import KrakenModel.Model.PieceRequest
/- Helper lemmas for Spec/C15 (core Lean only). -/
namespace KrakenModel.Proof.C15
open KrakenModel KrakenModel.PieceRequest

/-! ### list facts -/

theorem len_filter_mono {α} (l : List α) (p q : α → Bool) (h : ∀ a ∈ l, p a = true → q a = true) :
    (l.filter p).length ≤ (l.filter q).length := by
  induction l with
  | nil => simp
  | cons a l ih =>
    have ih' := ih (fun b hb => h b (List.mem_cons_of_mem _ hb))
    have ha := h a List.mem_cons_self
    simp only [List.filter_cons]
    by_cases hp : p a
    · simp only [hp, ha hp, if_true, List.length_cons]; omega
    · by_cases hq : q a
      · simp only [hp, hq, if_true, List.length_cons]; simp; omega
      · simp only [hp, hq]; simpa using ih'

theorem len_filter_map_le {α} (l : List α) (f : α → α) (p : α → Bool) (h : ∀ a ∈ l, p (f a) = true → p a = true) :
    ((l.map f).filter p).length ≤ (l.filter p).length := by
  induction l with
  | nil => simp
  | cons a l ih =>
    have ih' := ih (fun b hb => h b (List.mem_cons_of_mem _ hb))
    have ha := h a List.mem_cons_self
    simp only [List.map_cons, List.filter_cons]
    by_cases hp : p (f a)
    · simp only [hp, ha hp, if_true, List.length_cons]; omega
    · by_cases hq : p a
      · simp only [hp, hq, if_true, List.length_cons]; simp; omega
      · simp only [hp, hq]; simpa using ih'

theorem len_filter_map_eq {α} (l : List α) (f : α → α) (p : α → Bool) (h : ∀ a ∈ l, p (f a) = p a) :
    ((l.map f).filter p).length = (l.filter p).length := by
  induction l with
  | nil => simp
  | cons a l ih =>
    have ih' := ih (fun b hb => h b (List.mem_cons_of_mem _ hb))
    have ha := h a List.mem_cons_self
    simp only [List.map_cons, List.filter_cons, ha]
    by_cases hq : p a
    · simp only [hq, if_true, List.length_cons]; omega
    · simp only [hq]; simpa using ih'

theorem filter_eq_of_mem {α} (l : List α) (p q : α → Bool) (h : ∀ a ∈ l, p a = q a) :
    l.filter p = l.filter q := by
  induction l with
  | nil => rfl
  | cons a l ih =>
    have ih' := ih (fun b hb => h b (List.mem_cons_of_mem _ hb))
    simp only [List.filter_cons, h a List.mem_cons_self, ih']

theorem len_filter_eq_nodup (l : List Nat) (hn : l.Nodup) (x : Nat) : (l.filter (· == x)).length ≤ 1 := by
  induction l with
  | nil => simp
  | cons a l ih =>
    have hn' := List.nodup_cons.mp hn
    have ih' := ih hn'.2
    simp only [List.filter_cons]
    by_cases ha : a = x
    · subst ha
      have : l.filter (· == a) = [] := by
        rw [List.filter_eq_nil_iff]
        intro b hb hba
        have : b = a := by simpa using hba
        exact hn'.1 (this ▸ hb)
      simp [this]
    · have : (a == x) = false := by simpa using ha
      simp only [this]; simpa using ih'

/-! ### liveness -/

theorem live_mono (cfg : Config) (now : Int) (d : Nat) (r : Req) (h : live cfg (now + d) r = true) :
    live cfg now r = true := by
  simp only [live, expired, Bool.and_eq_true, Bool.not_eq_true', decide_eq_false_iff_not] at *
  refine ⟨h.1, ?_⟩
  have := h.2
  omega

/-- count of unexpired pending requests whose (piece, peer) satisfies `f` -/
def cnt (cfg : Config) (f : Piece → Peer → Bool) (s : State) : Nat :=
  (s.reqs.filter fun r => f r.piece r.peer && live cfg s.now r).length

def unindex (p : Peer) (i : Piece) (r : Req) : Req :=
  if r.peer == p && r.piece == i then { r with indexed := false } else r

theorem unindex_fields (p : Peer) (i : Piece) (r : Req) :
    (unindex p i r).piece = r.piece ∧ (unindex p i r).peer = r.peer ∧ (unindex p i r).status = r.status ∧
    (unindex p i r).sentAt = r.sentAt := by
  unfold unindex; split <;> simp

theorem live_unindex (cfg : Config) (now : Int) (p : Peer) (i : Piece) (r : Req) :
    live cfg now (unindex p i r) = live cfg now r := by
  have := unindex_fields p i r
  simp [live, expired, this.2.2.1, this.2.2.2]

theorem addReq_reqs (s : State) (p : Peer) (i : Piece) :
    (addReq s p i).reqs = s.reqs.map (unindex p i) ++ [⟨i, p, .pending, s.now, true⟩] ∧ (addReq s p i).now = s.now := by
  simp [addReq, unindex]

theorem cnt_addReq (cfg : Config) (f : Piece → Peer → Bool) (s : State) (p : Peer) (i : Piece) :
    cnt cfg f (addReq s p i) ≤ cnt cfg f s + (if f i p then 1 else 0) := by
  have ha := addReq_reqs s p i
  simp only [cnt, ha.1, ha.2, List.filter_append, List.length_append]
  have h1 : ((s.reqs.map (unindex p i)).filter fun r => f r.piece r.peer && live cfg s.now r).length =
      (s.reqs.filter fun r => f r.piece r.peer && live cfg s.now r).length := by
    apply len_filter_map_eq
    intro r _
    have := unindex_fields p i r
    rw [live_unindex, this.1, this.2.1]
  rw [h1]
  by_cases hf : f i p
  · simp only [hf, if_true, List.filter_cons]
    split <;> simp
  · simp [hf, List.filter_cons]

theorem addAll_now (s : State) (p : Peer) (chosen : List Piece) : (addAll s p chosen).now = s.now := by
  induction chosen generalizing s with
  | nil => rfl
  | cons i is ih => simp only [addAll, List.foldl_cons] at *; rw [ih]; exact (addReq_reqs s p i).2

theorem cnt_addAll (cfg : Config) (f : Piece → Peer → Bool) (p : Peer) (chosen : List Piece) (s : State) :
    cnt cfg f (addAll s p chosen) ≤ cnt cfg f s + (chosen.filter fun i => f i p).length := by
  induction chosen generalizing s with
  | nil => simp [addAll]
  | cons i is ih =>
    have h1 := ih (addReq s p i)
    have h2 := cnt_addReq cfg f s p i
    simp only [addAll, List.foldl_cons] at *
    simp only [List.filter_cons]
    by_cases hf : f i p
    · simp only [hf, if_true, List.length_cons] at *; omega
    · simp only [hf] at *; simp at h2 ⊢; omega

/-! ### J: every unexpired pending request is the indexed one -/

def LiveIndexed (cfg : Config) (s : State) : Prop := ∀ r ∈ s.reqs, live cfg s.now r = true → r.indexed = true

def NoLive (cfg : Config) (s : State) (p : Peer) (i : Piece) : Prop :=
  ∀ r ∈ s.reqs, r.peer = p → r.piece = i → live cfg s.now r = false

theorem noLive_of_valid {cfg : Config} {s : State} {p : Peer} {i : Piece} {dup : Bool}
    (hv : validRequest cfg s p i dup = true) : NoLive cfg s p i := by
  intro r hr hp hi
  simp only [validRequest, List.all_eq_true] at hv
  have := hv r hr
  cases hl : live cfg s.now r with
  | false => rfl
  | true => simp [hl, hp, hi] at this

theorem noLiveAny_of_valid {cfg : Config} {s : State} {p : Peer} {i : Piece}
    (hv : validRequest cfg s p i false = true) : ∀ r ∈ s.reqs, r.piece = i → live cfg s.now r = false := by
  intro r hr hi
  simp only [validRequest, List.all_eq_true] at hv
  have := hv r hr
  cases hl : live cfg s.now r with
  | false => rfl
  | true => simp [hl, hi] at this

theorem liveIndexed_addReq {cfg : Config} {s : State} {p : Peer} {i : Piece}
    (hj : LiveIndexed cfg s) (hn : NoLive cfg s p i) : LiveIndexed cfg (addReq s p i) := by
  have ha := addReq_reqs s p i
  intro r hr hl
  rw [ha.1] at hr
  rw [ha.2] at hl
  rcases List.mem_append.mp hr with hr | hr
  · obtain ⟨r0, hr0, rfl⟩ := List.mem_map.mp hr
    rw [live_unindex] at hl
    unfold unindex
    split
    · rename_i hk
      simp only [Bool.and_eq_true, beq_iff_eq] at hk
      rw [hn r0 hr0 hk.1 hk.2] at hl
      cases hl
    · exact hj r0 hr0 hl
  · simp at hr; subst hr; rfl

theorem noLive_addReq {cfg : Config} {s : State} {p : Peer} {i j : Piece} (hij : j ≠ i)
    (hn : NoLive cfg s p j) : NoLive cfg (addReq s p i) p j := by
  have ha := addReq_reqs s p i
  intro r hr hp hj
  rw [ha.1] at hr
  rw [ha.2]
  rcases List.mem_append.mp hr with hr | hr
  · obtain ⟨r0, hr0, rfl⟩ := List.mem_map.mp hr
    have hf := unindex_fields p i r0
    rw [live_unindex]
    exact hn r0 hr0 (hf.2.1 ▸ hp) (hf.1 ▸ hj)
  · simp at hr; subst hr; exact absurd hj.symm hij

theorem liveIndexed_addAll {cfg : Config} {p : Peer} (chosen : List Piece) (hnd : chosen.Nodup) (s : State)
    (hj : LiveIndexed cfg s) (hn : ∀ i ∈ chosen, NoLive cfg s p i) : LiveIndexed cfg (addAll s p chosen) := by
  induction chosen generalizing s with
  | nil => simpa [addAll] using hj
  | cons i is ih =>
    have hnd' := List.nodup_cons.mp hnd
    simp only [addAll, List.foldl_cons]
    apply ih hnd'.2 (addReq s p i) (liveIndexed_addReq hj (hn i List.mem_cons_self))
    intro j hjm
    have : j ≠ i := fun e => hnd'.1 (e ▸ hjm)
    exact noLive_addReq this (hn j (List.mem_cons_of_mem _ hjm))

/-! ### admissible selections -/

theorem admissible_spec {pol : Policy} {q : Nat} {valid : List Piece} {prio : List Int} {chosen : List Piece}
    (h : admissible pol q valid prio chosen = true) :
    chosen.Nodup ∧ (∀ i ∈ chosen, i ∈ valid) ∧ chosen.length ≤ q := by
  simp only [admissible, Bool.and_eq_true, decide_eq_true_eq, List.all_eq_true, beq_iff_eq] at h
  obtain ⟨⟨⟨h1, h2⟩, h3⟩, _⟩ := h
  refine ⟨h1, fun i hi => by simpa using h2 i hi, ?_⟩
  omega

theorem mem_validCands {cfg : Config} {s : State} {p : Peer} {cands : List Piece} {dup : Bool} {i : Piece}
    (h : i ∈ validCands cfg s p cands dup) : i ∈ cands ∧ validRequest cfg s p i dup = true := by
  simpa [validCands] using h

end KrakenModel.Proof.C15
