import KrakenModel.Proof.BlobStore
import KrakenModel.Proof.C07
import KrakenModel.Proof.C08
import KrakenModel.Proof.C09Ghost
/-
  Lemmas for the tiered-store proofs (C09), part 1:
  closed forms of the blob-store operations once the lookup of the key is known, and the
  structural invariants of both tiers (`Good`) along every schedule.
-/
namespace KrakenModel.BlobStore

/-! ### closed forms of the scoped operations -/

theorem lookup_of_get {s : State} {k : Key} {b : Blob} (hb : s.blobs.get k = some b) (sc : Scope) :
    lookup s k sc = if inScope b sc then .ok b else .error .outOfScope := by
  simp [lookup, hb]

theorem lookup_of_none {s : State} {k : Key} (hb : s.blobs.get k = none) (sc : Scope) :
    lookup s k sc = .error .notExist := by
  simp [lookup, hb]

theorem inScope_any (b : Blob) : inScope b .any = true := rfl

theorem erase_not_mem {l : List Key} {k : Key} (h : k ∉ l) : l.erase k = l := List.erase_of_not_mem h

/-- `BanEviction` on a key in scope -/
theorem ban_eq {s : State} (hg : Good s) {k : Key} {b : Blob} (hb : s.blobs.get k = some b) {sc : Scope}
    (hs : inScope b sc = true) :
    ban s k sc = (if b.banned then s else
      { s with blobs := s.blobs.set k { b with banned := true }, queue := s.queue.erase k }, .ok) := by
  simp only [ban, lookup_of_get hb, hs, if_true]
  cases hbn : b.banned
  · simp only [Bool.false_eq_true, if_false]
    cases hc : b.complete
    · have : k ∉ s.queue := fun hm => by have := (queued_iff hg hb).mp hm; simp_all
      simp [erase_not_mem this]
    · have : k ∈ s.queue := (queued_iff hg hb).mpr ⟨hc, hbn⟩
      simp [this]
  · simp

theorem unban_eq {s : State} {k : Key} {b : Blob} (hb : s.blobs.get k = some b) {sc : Scope}
    (hs : inScope b sc = true) :
    unban s k sc = (if b.banned then
      { s with blobs := s.blobs.set k { b with banned := false },
               queue := if b.complete then s.queue ++ [k] else s.queue } else s, .ok) := by
  simp only [unban, lookup_of_get hb, hs, if_true]
  cases b.banned <;> simp

theorem setMd_eq {s : State} {k : Key} {b : Blob} (hb : s.blobs.get k = some b) {sc : Scope}
    (hs : inScope b sc = true) (m : Md) :
    setMd s k sc m = ({ s with blobs := s.blobs.set k { b with mds := mdSet b.mds m } }, .ok) := by
  simp [setMd, lookup_of_get hb, hs]

theorem delMd_eq {s : State} {k : Key} {b : Blob} (hb : s.blobs.get k = some b) {sc : Scope}
    (hs : inScope b sc = true) (sfx : Nat) :
    delMd s k sc sfx = ({ s with blobs := s.blobs.set k { b with mds := mdDel b.mds sfx } }, .ok) := by
  simp [delMd, lookup_of_get hb, hs]

theorem getMd_eq {s : State} {k : Key} {b : Blob} (hb : s.blobs.get k = some b) {sc : Scope}
    (hs : inScope b sc = true) (sfx : Nat) :
    getMd s k sc sfx = (s, match mdGet b.mds sfx with | some m => .bytes m.val | none => .absent) := by
  simp only [getMd, lookup_of_get hb, hs, if_true]
  cases mdGet b.mds sfx <;> rfl

theorem openB_eq {s : State} {k : Key} {b : Blob} (hb : s.blobs.get k = some b) {sc : Scope}
    (hs : inScope b sc = true) :
    openB s k sc = (if k ∈ s.queue then { s with queue := s.queue.erase k ++ [k] } else s, .opened b.inc b.data) := by
  simp only [openB, lookup_of_get hb, hs, if_true]
  split <;> rfl

theorem delete_eq {s : State} {k : Key} {b : Blob} (hb : s.blobs.get k = some b) {sc : Scope}
    (hs : inScope b sc = true) :
    delete s k sc = (release { s with blobs := s.blobs.del k, queue := s.queue.erase k } b.size, .ok) := by
  simp [delete, lookup_of_get hb, hs]

theorem markComplete_eq {s : State} {k : Key} {b : Blob} (hb : s.blobs.get k = some b) :
    markComplete s k = if b.complete then (s, .ok) else
      ({ s with blobs := s.blobs.set k { b with complete := true, mds := b.mds.filter (·.movable) },
                queue := if b.banned then s.queue else s.queue ++ [k] }, .ok) := by
  simp [markComplete, hb]

/-- every scoped operation on an absent key answers `notExist` and changes nothing -/
theorem ban_none {s : State} {k : Key} (h : s.blobs.get k = none) (sc : Scope) : ban s k sc = (s, .err .notExist) := by
  simp [ban, lookup_of_none h]
theorem unban_none {s : State} {k : Key} (h : s.blobs.get k = none) (sc : Scope) : unban s k sc = (s, .err .notExist) := by
  simp [unban, lookup_of_none h]
theorem setMd_none {s : State} {k : Key} (h : s.blobs.get k = none) (sc : Scope) (m : Md) :
    setMd s k sc m = (s, .err .notExist) := by simp [setMd, lookup_of_none h]
theorem delMd_none {s : State} {k : Key} (h : s.blobs.get k = none) (sc : Scope) (sfx : Nat) :
    delMd s k sc sfx = (s, .err .notExist) := by simp [delMd, lookup_of_none h]
theorem getMd_none {s : State} {k : Key} (h : s.blobs.get k = none) (sc : Scope) (sfx : Nat) :
    getMd s k sc sfx = (s, .err .notExist) := by simp [getMd, lookup_of_none h]
theorem openB_none {s : State} {k : Key} (h : s.blobs.get k = none) (sc : Scope) : openB s k sc = (s, .err .notExist) := by
  simp [openB, lookup_of_none h]
theorem delete_none {s : State} {k : Key} (h : s.blobs.get k = none) (sc : Scope) : delete s k sc = (s, .err .notExist) := by
  simp [delete, lookup_of_none h]
theorem markComplete_none {s : State} {k : Key} (h : s.blobs.get k = none) : markComplete s k = (s, .err .notExist) := by
  simp [markComplete, h]

/-- … and on a key out of scope `outOfScope` -/
theorem ban_oos {s : State} {k : Key} {b : Blob} (hb : s.blobs.get k = some b) {sc : Scope} (hs : inScope b sc = false) :
    ban s k sc = (s, .err .outOfScope) := by simp [ban, lookup_of_get hb, hs]
theorem delete_oos {s : State} {k : Key} {b : Blob} (hb : s.blobs.get k = some b) {sc : Scope} (hs : inScope b sc = false) :
    delete s k sc = (s, .err .outOfScope) := by simp [delete, lookup_of_get hb, hs]
theorem openB_oos {s : State} {k : Key} {b : Blob} (hb : s.blobs.get k = some b) {sc : Scope} (hs : inScope b sc = false) :
    openB s k sc = (s, .err .outOfScope) := by simp [openB, lookup_of_get hb, hs]
theorem getMd_oos {s : State} {k : Key} {b : Blob} (hb : s.blobs.get k = some b) {sc : Scope} (hs : inScope b sc = false) (sfx : Nat) :
    getMd s k sc sfx = (s, .err .outOfScope) := by simp [getMd, lookup_of_get hb, hs]
theorem setMd_oos {s : State} {k : Key} {b : Blob} (hb : s.blobs.get k = some b) {sc : Scope} (hs : inScope b sc = false) (m : Md) :
    setMd s k sc m = (s, .err .outOfScope) := by simp [setMd, lookup_of_get hb, hs]
theorem delMd_oos {s : State} {k : Key} {b : Blob} (hb : s.blobs.get k = some b) {sc : Scope} (hs : inScope b sc = false) (sfx : Nat) :
    delMd s k sc sfx = (s, .err .outOfScope) := by simp [delMd, lookup_of_get hb, hs]

/-! ### `Create` -/

theorem create_exist {s : State} {k : Key} {b : Blob} (hb : s.blobs.get k = some b) (n : Nat) (d : Bytes) :
    create s k n d = (s, .err .exist) := by simp [create, hb]

/-- the three outcomes of `Create` of an absent key, in terms of the admission loop -/
theorem create_none {s : State} {k : Key} (hn : s.blobs.get k = none) (n : Nat) (d : Bytes) :
    create s k n d =
      match (ensureFree s n).2.1 with
      | .ok => ({ (ensureFree s n).1 with
                    size := ((ensureFree s n).1.size + n) % U64,
                    blobs := (ensureFree s n).1.blobs.set k { size := n, data := d, inc := (ensureFree s n).1.nextInc },
                    nextInc := (ensureFree s n).1.nextInc + 1 }, .created (ensureFree s n).1.nextInc (ensureFree s n).2.2)
      | .noSpace => ((ensureFree s n).1, .err .noSpace)
      | .panic => ((ensureFree s n).1, .err .panic) := by
  simp only [create, hn]
  generalize ensureFree s n = r
  obtain ⟨s', res, ev⟩ := r
  cases res <;> rfl

theorem ensureFree_get (s : State) (n : Nat) (k : Key) :
    (ensureFree s n).1.blobs.get k = if k ∈ (ensureFree s n).2.2 then none else s.blobs.get k :=
  evictLoop_get n k s.queue s

/-- what the admission loop evicts is complete and not banned -/
theorem ensureFree_victim {s : State} (hg : Good s) (n : Nat) {k : Key} (hk : k ∈ (ensureFree s n).2.2) :
    ∃ b, s.blobs.get k = some b ∧ b.complete = true ∧ b.banned = false :=
  (hg.qmem k).mp ((evictLoop_prefix n s.queue s rfl).subset hk)

theorem ensureFree_no_panic {s : State} (hg : Good s) (n : Nat) : (ensureFree s n).2.1 ≠ .panic :=
  evictLoop_no_panic n s.queue s rfl hg

end KrakenModel.BlobStore

namespace KrakenModel.Tiered
open KrakenModel KrakenModel.BlobStore

/-! ### both tiers stay `Good` along every schedule -/

def GoodT (t : TState) : Prop := Good t.mem ∧ Good t.disk

theorem good_setData' {s : State} (hg : Good s) (k : Key) (b : Blob) (d : Bytes)
    (hb : s.blobs.get k = some b) : Good (setData s k b d) := good_update_same hg hb rfl rfl rfl

theorem goodT_markDirty {t : TState} (h : GoodT t) (k : Key) (n : Nat) : GoodT (markDirty t k n) := h

theorem goodT_markMetadataDirty {t : TState} (h : GoodT t) (k : Key) (sfx : Nat) :
    GoodT (markMetadataDirty t k sfx) := by
  unfold markMetadataDirty
  split
  · exact h
  · split
    · exact ⟨good_ban h.1 k .any, h.2⟩
    · exact h

theorem goodT_capply {t : TState} (h : GoodT t) (o : COp) : GoodT (capply t o).1 := by
  obtain ⟨hm, hd⟩ := h
  cases o with
  | create k n d =>
    simp only [capply, tCreate]
    have hm' := good_create hm k n d
    have hd' := good_create hd k n d
    split
    · exact ⟨hm, hd⟩
    · split
      · exact ⟨hm', hd⟩
      · split <;> exact ⟨hm', hd'⟩
      · exact ⟨hm', hd⟩
  | «open» k sc =>
    simp only [capply, tOpen]
    have hm' := good_openB hm k sc
    have hd' := good_openB hd k sc
    split
    · exact ⟨hm', hd⟩
    · split
      · exact ⟨hm, hd'⟩
      · exact ⟨hm, hd⟩
    · exact ⟨hm, hd⟩
  | has k sc => simp only [capply, tHas]; split <;> exact ⟨hm, hd⟩
  | list sc => exact ⟨hm, hd⟩
  | stat k sc => simp only [capply, tStat]; split <;> exact ⟨hm, hd⟩
  | markComplete k =>
    simp only [capply, tMarkComplete]
    have hb := good_ban hm k .any
    have hc := good_markComplete hb k
    split
    · exact ⟨hm, hd⟩
    · split
      · exact ⟨hm, hd⟩
      · split
        · exact ⟨hm, good_markComplete hd k⟩
        · split
          · exact ⟨hc, hd⟩
          · exact ⟨hc, hd⟩
        · exact ⟨hb, hd⟩
  | delete k sc =>
    simp only [capply, tDelete]
    have hm' := good_delete hm k sc
    split
    · exact ⟨hm, hd⟩
    · exact ⟨hm, good_delete hd k sc⟩
    · exact ⟨hm', good_delete hd k .any⟩
    · exact ⟨hm', hd⟩
  | setMd k sc m =>
    simp only [capply, tSetMd]
    have hb := good_ban hm k sc
    split
    · exact ⟨hm, hd⟩
    · exact ⟨hm, good_setMd hd k sc m⟩
    · exact goodT_markMetadataDirty (t := { t with mem := (setMd (ban t.mem k sc).1 k .any m).1 })
        ⟨good_setMd hb k .any m, hd⟩ _ _
    · exact ⟨hb, hd⟩
  | getMd k sc sfx => simp only [capply, tGetMd]; split <;> exact ⟨hm, hd⟩
  | delMd k sc sfx =>
    simp only [capply, tDelMd]
    have hb := good_ban hm k sc
    split
    · exact ⟨hm, hd⟩
    · exact ⟨hm, good_delMd hd k sc sfx⟩
    · exact goodT_markMetadataDirty (t := { t with mem := (delMd (ban t.mem k sc).1 k .any sfx).1 })
        ⟨good_delMd hb k .any sfx, hd⟩ _ _
    · exact ⟨hb, hd⟩

theorem goodT_copyStep {t : TState} (h : GoodT t) (w : Worker) (pick : Nat) : GoodT (copyStep t w pick).1 := by
  obtain ⟨hm, hd⟩ := h
  unfold copyStep
  split
  · exact ⟨hm, hd⟩
  · split
    · exact ⟨hm, hd⟩
    · simp only
      split
      · rename_i db hdb
        exact ⟨hm, good_setData' hd _ _ _ (hBlob_some hdb).1⟩
      · exact ⟨hm, hd⟩

theorem goodT_wstep {t : TState} (h : GoodT t) (w : Worker) (pick : Nat) : GoodT (wstep t w pick).1 := by
  obtain ⟨hm, hd⟩ := h
  unfold wstep
  split
  · exact ⟨hm, hd⟩
  · -- next
    split
    · exact ⟨hm, hd⟩
    · split <;> exact ⟨hm, hd⟩
  · -- fOpen
    have hm' := good_openB hm w.key .any
    split
    · exact ⟨hm', hd⟩
    · exact ⟨hm, hd⟩
    · exact ⟨hm, hd⟩
  · -- fCreate
    split
    · exact ⟨hm, hd⟩
    · have hd' := good_create hd w.key w.dataSize []
      simp only
      split <;> exact ⟨hm, hd'⟩
  · exact ⟨hm, hd⟩
  · exact goodT_copyStep ⟨hm, hd⟩ w pick
  · exact goodT_copyStep ⟨hm, hd⟩ w pick
  · split
    · exact ⟨hm, hd⟩
    · exact ⟨hm, good_markComplete hd w.key⟩
  · exact ⟨hm, hd⟩
  · exact ⟨hm, hd⟩
  · exact ⟨hm, hd⟩
  · -- mdWrite
    refine ⟨hm, ?_⟩
    simp only
    split
    · exact hd
    · exact good_delMd hd _ _ _
    · exact good_setMd hd _ _ _
  · simp only; split <;> exact ⟨hm, hd⟩
  · exact ⟨hm, good_delete hd w.key .any⟩
  · exact ⟨hm, hd⟩
  · split
    · exact ⟨hm, hd⟩
    · exact ⟨good_unban hm w.key .any, hd⟩

theorem goodT_tstep {t : TState} (h : GoodT t) (a : Act) : GoodT (tstep t a) := by
  cases a with
  | client o => exact goodT_capply h o
  | work i pick =>
    simp only [tstep]
    split
    · exact h
    · exact goodT_wstep h _ _

end KrakenModel.Tiered
