import KrakenModel.Model.HttpSend
/-
  Helper lemmas for Spec/C34: the invariant of the repaired retry loop (every attempt, the http
  fallback attempt included, starts with the complete body) and the shape of its runs.
-/
namespace KrakenModel.Proof.C34
open KrakenModel.HttpSend

theorem getD_tail {α : Type} (l : List α) (i : Nat) (d : α) : l.tail.getD i d = l.getD (i + 1) d := by
  cases l <;> simp

theorem headD_eq_getD {α : Type} (l : List α) (d : α) : l.headD d = l.getD 0 d := by
  cases l <;> simp

/-- the original request sent over https (`true`) or http -/
def origAs (cfg : Cfg) (tls : Bool) : Req := { original cfg with tls := tls }

theorem origAs_self (cfg : Cfg) : origAs cfg cfg.req.tls = original cfg := by
  unfold origAs original
  cases cfg.kind <;> simp

/-- with the complete body in the reader the transport sends the original request -/
theorem transmit_initial (cfg : Cfg) (tls : Bool) : transmit cfg tls (initialBody cfg) = .sent (origAs cfg tls) := by
  unfold transmit initialBody original origAs
  cases h : cfg.kind <;> simp [original, h]

/-- the repaired code only ever continues with the complete body -/
theorem nextBody_rewinds (cfg : Cfg) (h : cfg.rewinds = true) (r : List Byte)
    (hn : nextBody cfg = some r) : r = initialBody cfg := by
  unfold nextBody at hn
  unfold initialBody original
  rw [h] at hn
  cases hk : cfg.kind <;> simp [hk] at hn ⊢
  · first | exact hn.symm | exact hn
  · first | exact hn.symm | exact hn
  · first | exact hn.2.symm | exact hn.2

theorem nextBody_none (cfg : Cfg) (h : cfg.rewinds = true) :
    nextBody cfg = none ↔ (cfg.kind = .plain ∧ cfg.plainReplays = false) := by
  unfold nextBody
  rw [h]
  cases hk : cfg.kind <;> simp

/-- a wire entry is the original request, over https or over http -/
def Orig (cfg : Cfg) (w : Wire) : Prop := w = .sent (original cfg) ∨ w = .sent (origAs cfg false)

/-- one iteration started with the complete body: one or two attempts, each the original request -/
theorem attempt_spec (cfg : Cfg) (h : cfg.rewinds = true) (script : List Outcome) (acc : List Wire) :
    ∃ ws, (attempt cfg script (initialBody cfg) acc).2.2 = acc ++ ws ∧ 1 ≤ ws.length ∧ ws.length ≤ 2 ∧
      ∀ w ∈ ws, Orig cfg w := by
  unfold attempt
  simp only [transmit_initial, outcomeOf, origAs_self]
  by_cases hfb : ((script.headD .net).isErr && cfg.req.tls && cfg.fallback) = true
  · simp only [hfb, if_true]
    cases hnb : nextBody cfg with
    | none => exact ⟨[.sent (original cfg)], by simp, by simp, by simp, by intro w hw; simp at hw; exact Or.inl hw⟩
    | some rem =>
      have := nextBody_rewinds cfg h rem hnb
      subst this
      simp only [h, if_true, transmit_initial]
      refine ⟨[.sent (original cfg), .sent (origAs cfg false)], by simp, by simp, by simp, ?_⟩
      intro w hw
      simp at hw
      rcases hw with hw | hw
      · exact Or.inl hw
      · exact Or.inr hw
  · simp only [hfb]
    exact ⟨[.sent (original cfg)], by simp, by simp, by simp, by intro w hw; simp at hw; exact Or.inl hw⟩

/-- the wire history is a sequence of loop iterations, each one attempt of the original request
(to the original URL and scheme) optionally followed directly by its plain-http fallback attempt -/
inductive Blocks (cfg : Cfg) : List Wire → Prop
  | nil : Blocks cfg []
  | one {l} : Blocks cfg l → Blocks cfg (l ++ [.sent (original cfg)])
  | two {l} : Blocks cfg l → Blocks cfg (l ++ [.sent (original cfg), .sent (origAs cfg false)])

theorem attempt_blocks (cfg : Cfg) (h : cfg.rewinds = true) (script : List Outcome) (acc : List Wire) :
    (attempt cfg script (initialBody cfg) acc).2.2 = acc ++ [.sent (original cfg)] ∨
    (attempt cfg script (initialBody cfg) acc).2.2 = acc ++ [.sent (original cfg), .sent (origAs cfg false)] := by
  unfold attempt
  simp only [transmit_initial, outcomeOf, origAs_self]
  by_cases hfb : ((script.headD .net).isErr && cfg.req.tls && cfg.fallback) = true
  · simp only [hfb, if_true]
    cases hnb : nextBody cfg with
    | none => left; rfl
    | some rem =>
      have := nextBody_rewinds cfg h rem hnb
      subst this
      simp only [h, if_true, transmit_initial]
      right; simp
  · simp only [hfb]; left; rfl

theorem sendLoop_blocks (cfg : Cfg) (h : cfg.rewinds = true) :
    ∀ (b : Nat) (script : List Outcome) (acc : List Wire), Blocks cfg acc →
      Blocks cfg (sendLoop cfg b script (initialBody cfg) acc).1 := by
  intro b
  induction b with
  | zero =>
    intro script acc hacc
    have hb := attempt_blocks cfg h script acc
    unfold sendLoop
    generalize attempt cfg script (initialBody cfg) acc = res at hb
    obtain ⟨o, script', acc'⟩ := res
    simp only at hb
    have hacc' : Blocks cfg acc' := by
      rcases hb with e | e <;> rw [e]
      · exact Blocks.one hacc
      · exact Blocks.two hacc
    simp only
    split
    · cases nextBody cfg <;> exact hacc'
    · exact hacc'
  | succ b ih =>
    intro script acc hacc
    have hb := attempt_blocks cfg h script acc
    unfold sendLoop
    generalize attempt cfg script (initialBody cfg) acc = res at hb
    obtain ⟨o, script', acc'⟩ := res
    simp only at hb
    have hacc' : Blocks cfg acc' := by
      rcases hb with e | e <;> rw [e]
      · exact Blocks.one hacc
      · exact Blocks.two hacc
    simp only
    split
    · cases hnb : nextBody cfg with
      | none => exact hacc'
      | some rem =>
        have := nextBody_rewinds cfg h rem hnb
        subst this
        exact ih script' acc' hacc'
    · exact hacc'

/-- without the fallback an iteration is exactly one attempt answered by the head of the script -/
theorem attempt_nofallback (cfg : Cfg) (hnf : (cfg.req.tls && cfg.fallback) = false)
    (script : List Outcome) (acc : List Wire) :
    attempt cfg script (initialBody cfg) acc = (script.getD 0 .net, script.tail, acc ++ [.sent (original cfg)]) := by
  unfold attempt
  have : ∀ o : Outcome, (o.isErr && cfg.req.tls && cfg.fallback) = false := by
    intro o; rw [Bool.and_assoc, hnf]; simp
  simp only [transmit_initial, outcomeOf, origAs_self, this, headD_eq_getD]
  simp

/-- every run of the repaired loop: every attempt is the original request (over https or http), there
are between 1 and 2·(b+1) of them beyond `acc`, and the result is that of some server outcome -/
theorem sendLoop_general (cfg : Cfg) (h : cfg.rewinds = true) :
    ∀ (b : Nat) (script : List Outcome) (acc : List Wire), (∀ w ∈ acc, Orig cfg w) →
      (∀ w ∈ (sendLoop cfg b script (initialBody cfg) acc).1, Orig cfg w) ∧
      acc.length + 1 ≤ (sendLoop cfg b script (initialBody cfg) acc).1.length ∧
      (sendLoop cfg b script (initialBody cfg) acc).1.length ≤ acc.length + 2 * (b + 1) ∧
      ∃ o, (sendLoop cfg b script (initialBody cfg) acc).2 = final cfg o := by
  intro b
  induction b with
  | zero =>
    intro script acc hacc
    obtain ⟨ws, hws, h1, h2, hall⟩ := attempt_spec cfg h script acc
    unfold sendLoop
    generalize hat : attempt cfg script (initialBody cfg) acc = res at hws
    obtain ⟨o, script', acc'⟩ := res
    simp only at hws
    subst hws
    have hmem : ∀ w ∈ acc ++ ws, Orig cfg w := by
      intro w hw; rcases List.mem_append.mp hw with hw | hw
      · exact hacc w hw
      · exact hall w hw
    simp only
    split
    · cases nextBody cfg <;> exact ⟨hmem, by simp; omega, by simp; omega, o, rfl⟩
    · exact ⟨hmem, by simp; omega, by simp; omega, o, rfl⟩
  | succ b ih =>
    intro script acc hacc
    obtain ⟨ws, hws, h1, h2, hall⟩ := attempt_spec cfg h script acc
    unfold sendLoop
    generalize hat : attempt cfg script (initialBody cfg) acc = res at hws
    obtain ⟨o, script', acc'⟩ := res
    simp only at hws
    subst hws
    have hmem : ∀ w ∈ acc ++ ws, Orig cfg w := by
      intro w hw; rcases List.mem_append.mp hw with hw | hw
      · exact hacc w hw
      · exact hall w hw
    simp only
    split
    · cases hnb : nextBody cfg with
      | none => exact ⟨hmem, by simp; omega, by simp; omega, o, rfl⟩
      | some rem =>
        have := nextBody_rewinds cfg h rem hnb
        subst this
        simp only
        obtain ⟨i1, i2, i3, i4⟩ := ih script' (acc ++ ws) hmem
        refine ⟨i1, ?_, ?_, i4⟩
        · simp at i2 ⊢; omega
        · simp at i3 ⊢; omega
    · exact ⟨hmem, by simp; omega, by simp; omega, o, rfl⟩

/-- Shape of a run without the fallback, started with the complete body: it appends `m ≥ 1`
copies of the original request, `m ≤ b + 1`; every outcome before the last asked for a retry;
the result is that of the last outcome; and the loop stopped because the last outcome asks for
no retry, or the backoff is exhausted, or the body cannot be replayed. -/
theorem sendLoop_shape (cfg : Cfg) (h : cfg.rewinds = true) (hnf : (cfg.req.tls && cfg.fallback) = false) :
    ∀ (b : Nat) (script : List Outcome) (acc : List Wire),
      ∃ m, 1 ≤ m ∧ m ≤ b + 1 ∧
        (sendLoop cfg b script (initialBody cfg) acc).1 = acc ++ List.replicate m (.sent (original cfg)) ∧
        (sendLoop cfg b script (initialBody cfg) acc).2 = final cfg (script.getD (m - 1) .net) ∧
        (∀ i, i + 1 < m → wantsRetry cfg (script.getD i .net) = true) ∧
        (wantsRetry cfg (script.getD (m - 1) .net) = false ∨ m = b + 1 ∨
          (cfg.kind = .plain ∧ cfg.plainReplays = false)) := by
  intro b
  induction b with
  | zero =>
    intro script acc
    refine ⟨1, by omega, by omega, ?_⟩
    unfold sendLoop
    simp only [attempt_nofallback cfg hnf]
    by_cases hw : wantsRetry cfg (script.getD 0 .net) = true
    · simp only [hw, if_true]
      cases hnb : nextBody cfg with
      | none =>
        exact ⟨by simp, by simp, by intro i hi; omega, Or.inr (Or.inr ((nextBody_none cfg h).mp hnb))⟩
      | some r => exact ⟨by simp, by simp, by intro i hi; omega, Or.inr (Or.inl (by simp))⟩
    · simp only [hw]
      exact ⟨by simp, by simp, by intro i hi; omega, Or.inl (by simpa using hw)⟩
  | succ b ih =>
    intro script acc
    unfold sendLoop
    simp only [attempt_nofallback cfg hnf]
    by_cases hw : wantsRetry cfg (script.getD 0 .net) = true
    · simp only [hw, if_true]
      cases hnb : nextBody cfg with
      | none =>
        exact ⟨1, by omega, by omega, by simp, by simp, by intro i hi; omega,
          Or.inr (Or.inr ((nextBody_none cfg h).mp hnb))⟩
      | some r =>
        have hr := nextBody_rewinds cfg h r hnb
        subst hr
        obtain ⟨m, hm1, hm2, hw1, hr1, hall, hstop⟩ := ih script.tail (acc ++ [.sent (original cfg)])
        refine ⟨m + 1, by omega, by omega, ?_, ?_, ?_, ?_⟩
        · simp only; rw [hw1, List.replicate_succ]; simp
        · simp only; rw [hr1, getD_tail]
          have : m - 1 + 1 = m + 1 - 1 := by omega
          rw [this]
        · intro i hi
          cases i with
          | zero => exact hw
          | succ j =>
            have := hall j (by omega)
            rwa [getD_tail] at this
        · rcases hstop with hs | hs | hs
          · left
            rw [getD_tail] at hs
            have : m - 1 + 1 = m + 1 - 1 := by omega
            rwa [this] at hs
          · right; left; omega
          · right; right; exact hs
    · simp only [hw]
      exact ⟨1, by omega, by omega, by simp, by simp, by intro i hi; omega, Or.inl (by simpa using hw)⟩

end KrakenModel.Proof.C34
