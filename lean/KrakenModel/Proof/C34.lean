import KrakenModel.Model.HttpSend
/-
  Helper lemmas for Spec/C34: the invariant of the repaired retry loop (every iteration starts
  with the complete body) and the shape of its run.
-/
namespace KrakenModel.Proof.C34
open KrakenModel.HttpSend

theorem getD_tail {α : Type} (l : List α) (i : Nat) (d : α) : l.tail.getD i d = l.getD (i + 1) d := by
  cases l <;> simp

theorem headD_eq_getD {α : Type} (l : List α) (d : α) : l.headD d = l.getD 0 d := by
  cases l <;> simp

/-- with the complete body in the reader the transport sends the original request -/
theorem transmit_initial (cfg : Cfg) : transmit cfg (initialBody cfg) = .sent (original cfg) := by
  unfold transmit initialBody original
  cases h : cfg.kind <;> simp

/-- the repaired loop only ever continues with the complete body -/
theorem nextBody_rewinds (cfg : Cfg) (h : cfg.rewinds = true) (r : List Byte)
    (hn : nextBody cfg = some r) : r = initialBody cfg := by
  unfold nextBody at hn
  unfold initialBody original
  rw [h] at hn
  cases hk : cfg.kind <;> simp [hk] at hn ⊢ <;> first | exact hn.symm | exact hn

theorem nextBody_none (cfg : Cfg) (h : cfg.rewinds = true) : nextBody cfg = none ↔ cfg.kind = .plain := by
  unfold nextBody
  rw [h]
  cases hk : cfg.kind <;> simp

/-- Shape of a run of the repaired loop started with the complete body: it appends `m ≥ 1`
copies of the original request, `m ≤ b + 1`; every outcome before the last asked for a retry;
the result is that of the last outcome; and the loop stopped because the last outcome asks for
no retry, or the backoff is exhausted, or the body cannot be replayed. -/
theorem sendLoop_shape (cfg : Cfg) (h : cfg.rewinds = true) :
    ∀ (b : Nat) (script : List Outcome) (acc : List Wire),
      ∃ m, 1 ≤ m ∧ m ≤ b + 1 ∧
        (sendLoop cfg b script (initialBody cfg) acc).1 = acc ++ List.replicate m (.sent (original cfg)) ∧
        (sendLoop cfg b script (initialBody cfg) acc).2 = final cfg (script.getD (m - 1) .net) ∧
        (∀ i, i + 1 < m → wantsRetry cfg (script.getD i .net) = true) ∧
        (wantsRetry cfg (script.getD (m - 1) .net) = false ∨ m = b + 1 ∨ cfg.kind = .plain) := by
  intro b
  induction b with
  | zero =>
    intro script acc
    refine ⟨1, by omega, by omega, ?_⟩
    unfold sendLoop
    simp only [transmit_initial, headD_eq_getD]
    by_cases hw : wantsRetry cfg (script.getD 0 .net) = true
    · simp only [hw, if_true]
      cases hnb : nextBody cfg with
      | none =>
        exact ⟨by simp, by simp, by intro i hi; omega, Or.inr (Or.inr ((nextBody_none cfg h).mp hnb))⟩
      | some r => exact ⟨by simp, by simp, by intro i hi; omega, Or.inr (Or.inl (by simp))⟩
    · simp only [hw]
      exact ⟨by simp, by simp, by intro i hi; omega, Or.inl (by simpa using hw)⟩
  | succ b ih =>
    intro script acc
    unfold sendLoop
    simp only [transmit_initial, headD_eq_getD]
    by_cases hw : wantsRetry cfg (script.getD 0 .net) = true
    · simp only [hw, if_true]
      cases hnb : nextBody cfg with
      | none =>
        exact ⟨1, by omega, by omega, by simp, by simp, by intro i hi; omega,
          Or.inr (Or.inr ((nextBody_none cfg h).mp hnb))⟩
      | some r =>
        have hr := nextBody_rewinds cfg h r hnb
        subst hr
        obtain ⟨m, hm1, hm2, hw1, hr1, hall, hstop⟩ := ih script.tail (acc ++ [.sent (original cfg)])
        refine ⟨m + 1, by omega, by omega, ?_, ?_, ?_, ?_⟩
        · simp only; rw [hw1, List.replicate_succ]; simp
        · simp only; rw [hr1, getD_tail]
          have : m - 1 + 1 = m + 1 - 1 := by omega
          rw [this]
        · intro i hi
          cases i with
          | zero => exact hw
          | succ j =>
            have := hall j (by omega)
            rwa [getD_tail] at this
        · rcases hstop with hs | hs | hs
          · left
            rw [getD_tail] at hs
            have : m - 1 + 1 = m + 1 - 1 := by omega
            rwa [this] at hs
          · right; left; omega
          · right; right; exact hs
    · simp only [hw]
      exact ⟨1, by omega, by omega, by simp, by simp, by intro i hi; omega, Or.inl (by simpa using hw)⟩

end KrakenModel.Proof.C34
