import KrakenModel.Model.BlobStore
/-
  Lemmas about `Model.BlobStore` shared by Spec/C07, Spec/C08 and Spec/C09:
  association-list facts, the structural invariant `Good` and its preservation by every operation.
-/
namespace KrakenModel.BlobStore

namespace BMap

@[simp] theorem get_nil (k : Key) : get [] k = none := rfl

theorem get_cons (k' : Key) (b : Blob) (m : BMap) (k : Key) :
    get ((k', b) :: m) k = if k' = k then some b else get m k := rfl

@[simp] theorem get_del_self (m : BMap) (k : Key) : get (del m k) k = none := by
  induction m with
  | nil => rfl
  | cons e m ih =>
    obtain ⟨k', b⟩ := e
    by_cases h : k' = k
    · simp [del, h] at ih ⊢; exact ih
    · simp [del, h, get_cons] at ih ⊢; exact ih

theorem get_del_ne (m : BMap) {k k' : Key} (h : k' ≠ k) : get (del m k) k' = get m k' := by
  induction m with
  | nil => rfl
  | cons e m ih =>
    obtain ⟨k'', b⟩ := e
    by_cases h2 : k'' = k
    · subst h2
      have : k'' ≠ k' := fun e => h e.symm
      simp [del, get_cons, this] at ih ⊢; exact ih
    · simp [del, h2, get_cons] at ih ⊢
      split <;> simp_all

@[simp] theorem get_set_self (m : BMap) (k : Key) (b : Blob) : get (set m k b) k = some b := by
  simp [set, get_cons]

theorem get_set_ne (m : BMap) {k k' : Key} (b : Blob) (h : k' ≠ k) : get (set m k b) k' = get m k' := by
  have : k ≠ k' := fun e => h e.symm
  simp [set, get_cons, this, get_del_ne m h]

theorem get_set (m : BMap) (k k' : Key) (b : Blob) :
    get (set m k b) k' = if k' = k then some b else get m k' := by
  by_cases h : k' = k
  · subst h; simp
  · simp [h, get_set_ne m b h]

theorem get_del (m : BMap) (k k' : Key) :
    get (del m k) k' = if k' = k then none else get m k' := by
  by_cases h : k' = k
  · subst h; simp
  · simp [h, get_del_ne m h]

theorem mem_keys_iff (m : BMap) (k : Key) : k ∈ keys m ↔ ∃ b, get m k = some b := by
  induction m with
  | nil => simp [keys]
  | cons e m ih =>
    obtain ⟨k', b⟩ := e
    by_cases h : k' = k
    · subst h; simp [keys, get_cons]
    · have h' : k ≠ k' := fun e => h e.symm
      simp [keys, get_cons, h, h'] at ih ⊢; exact ih

theorem get_none_iff (m : BMap) (k : Key) : get m k = none ↔ k ∉ keys m := by
  rw [mem_keys_iff]
  cases get m k <;> simp

theorem keys_del (m : BMap) (k : Key) : keys (del m k) = (keys m).filter (· ≠ k) := by
  induction m with
  | nil => rfl
  | cons e m ih =>
    obtain ⟨k', b⟩ := e
    by_cases h : k' = k
    · simp [del, keys, h] at ih ⊢; exact ih
    · simp [del, keys, h] at ih ⊢; exact ih

theorem nodup_del {m : BMap} (h : (keys m).Nodup) (k : Key) : (keys (del m k)).Nodup := by
  rw [keys_del]; exact h.filter _

theorem not_mem_keys_del (m : BMap) (k : Key) : k ∉ keys (del m k) := by
  rw [keys_del]; simp

theorem nodup_set {m : BMap} (h : (keys m).Nodup) (k : Key) (b : Blob) : (keys (set m k b)).Nodup := by
  show (k :: keys (del m k)).Nodup
  exact List.nodup_cons.mpr ⟨not_mem_keys_del m k, nodup_del h k⟩

theorem del_of_get_none {m : BMap} {k : Key} (h : get m k = none) : del m k = m := by
  induction m with
  | nil => rfl
  | cons e m ih =>
    obtain ⟨k', b⟩ := e
    by_cases h2 : k' = k
    · simp [get_cons, h2] at h
    · simp [get_cons, h2] at h
      simp [del, h2] at ih ⊢
      exact ih h

theorem total_cons (k : Key) (b : Blob) (m : BMap) : total ((k, b) :: m) = b.size + total m := by
  simp [total]

/-- with unique keys, the entry of `k` accounts for exactly `b.size` of the total -/
theorem total_del {m : BMap} (hn : (keys m).Nodup) {k : Key} {b : Blob} (h : get m k = some b) :
    total m = b.size + total (del m k) := by
  induction m with
  | nil => simp at h
  | cons e m ih =>
    obtain ⟨k', b'⟩ := e
    have hn' := List.nodup_cons.mp hn
    by_cases h2 : k' = k
    · subst h2
      simp [get_cons] at h
      subst h
      have hnone : get m k' = none := (get_none_iff m k').mpr hn'.1
      have : del ((k', b') :: m) k' = m := by
        simp [del]
        have := del_of_get_none hnone
        simpa [del] using this
      rw [this, total_cons]
    · simp [get_cons, h2] at h
      have := ih hn'.2 h
      have hd : del ((k', b') :: m) k = (k', b') :: del m k := by simp [del, h2]
      rw [hd, total_cons, total_cons, this]; omega

theorem total_set (m : BMap) (k : Key) (b : Blob) : total (set m k b) = b.size + total (del m k) := by
  simp [set, total_cons]

theorem total_set_same {m : BMap} (hn : (keys m).Nodup) {k : Key} {b b' : Blob} (h : get m k = some b)
    (hs : b'.size = b.size) : total (set m k b') = total m := by
  rw [total_set, total_del hn h, hs]

theorem total_del_le (m : BMap) (k : Key) : total (del m k) ≤ total m := by
  induction m with
  | nil => simp [del, total]
  | cons e m ih =>
    obtain ⟨k', b⟩ := e
    by_cases h : k' = k
    · simp [del, h, total_cons] at ih ⊢; omega
    · simp [del, h, total_cons] at ih ⊢; omega

end BMap

/-! ### the structural invariant -/

/-- what holds of every reachable store state -/
structure Good (s : State) : Prop where
  /-- one map entry per key -/
  nodup : s.blobs.keys.Nodup
  /-- reserved space is the sum of the live blob sizes -/
  sum : s.size = s.blobs.total
  /-- … and within capacity -/
  le : s.size ≤ s.cap
  cap64 : s.cap < U64
  qnodup : s.queue.Nodup
  /-- the eviction queue holds exactly the complete blobs that are not banned from eviction -/
  qmem : ∀ k, k ∈ s.queue ↔ ∃ b, s.blobs.get k = some b ∧ b.complete = true ∧ b.banned = false

theorem good_init {cap : Nat} (h : cap < U64) : Good (init cap) :=
  { nodup := by simp [init, BMap.keys], sum := by simp [init, BMap.total], le := by simp [init],
    cap64 := h, qnodup := by simp [init], qmem := by simp [init] }

theorem fits_iff (s : State) (n : Nat) : fits s n = true ↔ s.size + n ≤ s.cap := by
  simp only [fits, Bool.and_eq_true, decide_eq_true_eq]; omega

/-- replace the entry of `k` (same reserved size) and the queue -/
theorem good_update {s : State} (hg : Good s) {k : Key} {b b' : Blob} (hk : s.blobs.get k = some b)
    (hsz : b'.size = b.size) {q' : List Key} (hq : q'.Nodup)
    (hmem : ∀ k', k' ∈ q' ↔ if k' = k then (b'.complete = true ∧ b'.banned = false) else k' ∈ s.queue) :
    Good { s with blobs := s.blobs.set k b', queue := q' } :=
  { nodup := BMap.nodup_set hg.nodup k b'
    sum := by simp only; rw [BMap.total_set_same hg.nodup hk hsz]; exact hg.sum
    le := hg.le
    cap64 := hg.cap64
    qnodup := hq
    qmem := by
      intro k'
      simp only
      rw [hmem k', BMap.get_set]
      by_cases h : k' = k
      · simp [h]
      · simp only [h, if_false]; exact hg.qmem k' }

/-- same, queue untouched: the flags that decide queue membership must not change -/
theorem good_update_same {s : State} (hg : Good s) {k : Key} {b b' : Blob} (hk : s.blobs.get k = some b)
    (hsz : b'.size = b.size) (hc : b'.complete = b.complete) (hb : b'.banned = b.banned) :
    Good { s with blobs := s.blobs.set k b' } := by
  have := good_update hg hk hsz hg.qnodup (q' := s.queue) (b' := b') (by
    intro k'
    by_cases h : k' = k
    · subst h
      simp only [if_true, hc, hb]
      rw [hg.qmem k', hk]; simp
    · simp [h])
  exact this

theorem mem_erase_nodup {l : List Key} (h : l.Nodup) (a k : Key) : a ∈ l.erase k ↔ a ≠ k ∧ a ∈ l :=
  List.Nodup.mem_erase_iff h

/-- remove the entry of `k`, release its reservation -/
theorem good_remove {s : State} (hg : Good s) {k : Key} {b : Blob} (hk : s.blobs.get k = some b) :
    Good (release { s with blobs := s.blobs.del k, queue := s.queue.erase k } b.size) := by
  have htot := BMap.total_del hg.nodup hk
  have hsum := hg.sum
  have hle := hg.le
  refine { nodup := ?_, sum := ?_, le := ?_, cap64 := hg.cap64, qnodup := ?_, qmem := ?_ }
  · exact BMap.nodup_del hg.nodup k
  · simp only [release]; split <;> omega
  · simp only [release]; split <;> omega
  · exact hg.qnodup.erase k
  · intro k'
    simp only [release]
    rw [mem_erase_nodup hg.qnodup, BMap.get_del, hg.qmem k']
    by_cases h : k' = k <;> simp [h]

theorem evictStep_eq (s : State) (k : Key) (q : List Key) (b : Blob) (hq : s.queue = k :: q) :
    evictStep s k q b = release { s with blobs := s.blobs.del k, queue := s.queue.erase k } b.size := by
  simp [evictStep, hq]

theorem good_evictStep {s : State} (hg : Good s) {k : Key} {q : List Key} {b : Blob}
    (hq : s.queue = k :: q) (hk : s.blobs.get k = some b) : Good (evictStep s k q b) := by
  rw [evictStep_eq s k q b hq]; exact good_remove hg hk

/-- an invariant of the eviction step is an invariant of the whole loop -/
theorem evictLoop_inv (P : State → Prop) (space : Nat)
    (hstep : ∀ s k q b, s.queue = k :: q → s.blobs.get k = some b → P s → P (evictStep s k q b)) :
    ∀ (q : List Key) (s : State), s.queue = q → P s → P (evictLoop space q s).1 := by
  intro q
  induction q with
  | nil => intro s _ hp; simpa [evictLoop] using hp
  | cons k q ih =>
    intro s hq hp
    simp only [evictLoop]
    split
    · exact hp
    · split
      · exact hp
      · rename_i b hb
        exact ih _ (by simp [evictStep, release]) (hstep s k q b hq hb hp)

theorem good_ensureFree {s : State} (hg : Good s) (space : Nat) : Good (ensureFree s space).1 :=
  evictLoop_inv Good space (fun _ _ _ _ hq hk hp => good_evictStep hp hq hk) s.queue s rfl hg

/-- the loop never meets a queue entry without a map entry -/
theorem evictLoop_no_panic (space : Nat) :
    ∀ (q : List Key) (s : State), s.queue = q → Good s → (evictLoop space q s).2.1 ≠ .panic := by
  intro q
  induction q with
  | nil => intro s _ _; simp only [evictLoop]; split <;> simp
  | cons k q ih =>
    intro s hq hg
    simp only [evictLoop]
    split
    · simp
    · split
      · rename_i hnone
        have : k ∈ s.queue := by simp [hq]
        obtain ⟨b, hb, _⟩ := (hg.qmem k).mp this
        simp [hb] at hnone
      · rename_i b hb
        exact ih _ (by simp [evictStep, release]) (good_evictStep hg hq hb)

theorem evictLoop_ok_fits (space : Nat) :
    ∀ (q : List Key) (s : State), (evictLoop space q s).2.1 = .ok → fits (evictLoop space q s).1 space = true := by
  intro q
  induction q with
  | nil => intro s; simp only [evictLoop]; split <;> simp_all
  | cons k q ih =>
    intro s
    simp only [evictLoop]
    split
    · intro _; assumption
    · split
      · simp
      · exact ih _

/-- fields the loop never touches -/
theorem evictLoop_frame (space : Nat) :
    ∀ (q : List Key) (s : State), (evictLoop space q s).1.cap = s.cap ∧ (evictLoop space q s).1.nextInc = s.nextInc := by
  intro q
  induction q with
  | nil => intro s; simp [evictLoop]
  | cons k q ih =>
    intro s
    simp only [evictLoop]
    split
    · simp
    · split
      · simp
      · rename_i b _
        have := ih (evictStep s k q b)
        simpa [evictStep, release] using this

/-! ### every operation preserves `Good` -/

theorem lookup_ok {s : State} {k : Key} {sc : Scope} {b : Blob} (h : lookup s k sc = .ok b) :
    s.blobs.get k = some b ∧ inScope b sc = true := by
  unfold lookup at h
  split at h
  · simp at h
  · split at h
    · simp at h; subst h; exact ⟨by assumption, by assumption⟩
    · simp at h

theorem lookup_error {s : State} {k : Key} {sc : Scope} {e : Err} (h : lookup s k sc = .error e) :
    (e = .notExist ∧ s.blobs.get k = none) ∨
    (e = .outOfScope ∧ ∃ b, s.blobs.get k = some b ∧ inScope b sc = false) := by
  unfold lookup at h
  split at h
  · simp at h; exact .inl ⟨h.symm, by assumption⟩
  · split at h
    · simp at h
    · simp at h; exact .inr ⟨h.symm, _, by assumption, by simp_all⟩

theorem good_queue_perm {s : State} (hg : Good s) {q' : List Key} (hq : q'.Nodup)
    (hmem : ∀ k', k' ∈ q' ↔ k' ∈ s.queue) : Good { s with queue := q' } :=
  { nodup := hg.nodup, sum := hg.sum, le := hg.le, cap64 := hg.cap64, qnodup := hq,
    qmem := fun k' => by simp only; rw [hmem k']; exact hg.qmem k' }

theorem nodup_move_back {q : List Key} (h : q.Nodup) (k : Key) : (q.erase k ++ [k]).Nodup := by
  rw [List.nodup_append]
  refine ⟨h.erase k, by simp, ?_⟩
  intro a ha b hb
  simp at hb; subst hb
  intro e; subst e
  exact ((mem_erase_nodup h a a).mp ha).1 rfl

theorem mem_move_back {q : List Key} (h : q.Nodup) {k : Key} (hk : k ∈ q) (a : Key) :
    a ∈ q.erase k ++ [k] ↔ a ∈ q := by
  rw [List.mem_append, mem_erase_nodup h]
  by_cases e : a = k
  · subst e; simp [hk]
  · simp [e]

theorem nodup_push {q : List Key} (h : q.Nodup) {k : Key} (hk : k ∉ q) : (q ++ [k]).Nodup := by
  rw [List.nodup_append]
  refine ⟨h, by simp, ?_⟩
  intro a ha b hb
  simp at hb; subst hb
  intro e; subst e; exact hk ha

theorem good_openB {s : State} (hg : Good s) (k : Key) (sc : Scope) : Good (openB s k sc).1 := by
  unfold openB
  split
  · exact hg
  · split
    · rename_i hk
      exact good_queue_perm hg (nodup_move_back hg.qnodup k) (mem_move_back hg.qnodup hk)
    · exact hg

theorem openB_blobs (s : State) (k : Key) (sc : Scope) : (openB s k sc).1.blobs = s.blobs := by
  unfold openB; split
  · rfl
  · split <;> rfl

theorem get_none_not_queued {s : State} (hg : Good s) {k : Key} (h : s.blobs.get k = none) : k ∉ s.queue := by
  intro hm
  obtain ⟨b, hb, _⟩ := (hg.qmem k).mp hm
  simp [h] at hb

theorem queued_iff {s : State} (hg : Good s) {k : Key} {b : Blob} (h : s.blobs.get k = some b) :
    k ∈ s.queue ↔ (b.complete = true ∧ b.banned = false) := by
  rw [hg.qmem k, h]; simp

theorem evictLoop_get_none (space : Nat) (k : Key) (q : List Key) (s : State) (hq : s.queue = q)
    (h : s.blobs.get k = none) : (evictLoop space q s).1.blobs.get k = none :=
  evictLoop_inv (fun t => t.blobs.get k = none) space
    (fun t k0 q0 b0 _ _ hp => by
      simp only [evictStep, release]
      rw [BMap.get_del]; split <;> simp_all) q s hq h

theorem good_createFailing {s : State} (hg : Good s) (k : Key) (n : Nat) : Good (createFailing s k n).1 := by
  unfold createFailing
  split
  · exact hg
  · have hg' := good_ensureFree hg n
    split <;> (rename_i h; have e : _ = (ensureFree s n).1 := (congrArg Prod.fst h).symm; simp only at e; rw [e]; exact hg')

theorem good_create {s : State} (hg : Good s) (k : Key) (n : Nat) (d : Bytes) : Good (create s k n d).1 := by
  unfold create
  split
  · exact hg
  · rename_i hnone
    have hg' := good_ensureFree hg n
    have hnone' : (ensureFree s n).1.blobs.get k = none := evictLoop_get_none n k s.queue s rfl hnone
    split
    · rename_i s' ev heq
      have e1 : s' = (ensureFree s n).1 := by rw [heq]
      have hok : (ensureFree s n).2.1 = .ok := by rw [heq]
      have hfit : (ensureFree s n).1.size + n ≤ (ensureFree s n).1.cap :=
        (fits_iff _ _).mp (evictLoop_ok_fits n s.queue s hok)
      subst e1
      have hc := hg'.cap64
      have hmod : ((ensureFree s n).1.size + n) % U64 = (ensureFree s n).1.size + n :=
        Nat.mod_eq_of_lt (by omega)
      refine { nodup := BMap.nodup_set hg'.nodup k _, sum := ?_, le := ?_, cap64 := hc,
               qnodup := hg'.qnodup, qmem := ?_ }
      · simp only [hmod]
        rw [BMap.total_set, BMap.del_of_get_none hnone', hg'.sum]; simp only; omega
      · simp only [hmod]; exact hfit
      · intro k'
        simp only
        rw [BMap.get_set]
        by_cases h : k' = k
        · subst h
          simp only [if_true]
          constructor
          · intro hm; exact absurd hm (get_none_not_queued hg' hnone')
          · rintro ⟨b, hb, hc', _⟩; simp at hb; subst hb; simp at hc'
        · simp only [h, if_false]; exact hg'.qmem k'
    · rename_i s' ev heq
      have e1 : s' = (ensureFree s n).1 := by rw [heq]
      subst e1; exact hg'
    · rename_i s' ev heq
      have e1 : s' = (ensureFree s n).1 := by rw [heq]
      subst e1; exact hg'

theorem good_write {s : State} (hg : Good s) (k : Key) (sc : Scope) (off : Nat) (p : Bytes) :
    Good (write s k sc off p).1 := by
  unfold write
  have ho := good_openB hg k sc
  split
  · rename_i s' i d heq
    have e1 : s' = (openB s k sc).1 := by rw [heq]
    subst e1
    split
    · rename_i b hb
      exact good_update_same ho hb rfl rfl rfl
    · exact ho
  · rename_i r _
    exact ho

theorem good_markComplete {s : State} (hg : Good s) (k : Key) : Good (markComplete s k).1 := by
  unfold markComplete
  split
  · exact hg
  · rename_i b hb
    split
    · exact hg
    · rename_i hc
      have hnq : k ∉ s.queue := fun hm => by
        have := (queued_iff hg hb).mp hm; simp_all
      simp only
      cases hban : b.banned
      · simp only [Bool.false_eq_true, if_false]
        refine good_update hg hb (by rfl) (nodup_push hg.qnodup hnq) ?_
        intro k'
        by_cases h : k' = k
        · subst h; simp
        · simp [h]
      · simp only [if_true]
        refine good_update hg hb (by rfl) hg.qnodup ?_
        intro k'
        by_cases h : k' = k
        · subst h; simp [hnq]
        · simp [h]

theorem good_delete {s : State} (hg : Good s) (k : Key) (sc : Scope) : Good (delete s k sc).1 := by
  unfold delete
  split
  · exact hg
  · rename_i b hl
    exact good_remove hg (lookup_ok hl).1

theorem good_ban {s : State} (hg : Good s) (k : Key) (sc : Scope) : Good (ban s k sc).1 := by
  unfold ban
  split
  · exact hg
  · rename_i b hl
    have hb := (lookup_ok hl).1
    split
    · exact hg
    · rename_i hnb
      split
      · rename_i hc
        split
        · refine good_update hg hb (by rfl) (hg.qnodup.erase k) ?_
          intro k'
          rw [mem_erase_nodup hg.qnodup]
          by_cases h : k' = k
          · subst h; simp
          · simp [h]
        · exact hg
      · rename_i hc
        refine good_update hg hb (by rfl) hg.qnodup ?_
        intro k'
        by_cases h : k' = k
        · subst h
          have : k' ∉ s.queue := fun hm => by have := (queued_iff hg hb).mp hm; simp_all
          simp [this]
        · simp [h]

theorem good_unban {s : State} (hg : Good s) (k : Key) (sc : Scope) : Good (unban s k sc).1 := by
  unfold unban
  split
  · exact hg
  · rename_i b hl
    have hb := (lookup_ok hl).1
    split
    · exact hg
    · rename_i hban
      have hnq : k ∉ s.queue := fun hm => by have := (queued_iff hg hb).mp hm; simp_all
      cases hc : b.complete
      · simp only [Bool.false_eq_true, if_false]
        refine good_update hg hb (by rfl) hg.qnodup ?_
        intro k'
        by_cases h : k' = k
        · subst h; simp [hnq]
        · simp [h]
      · simp only [if_true]
        refine good_update hg hb (by rfl) (nodup_push hg.qnodup hnq) ?_
        intro k'
        by_cases h : k' = k
        · subst h; simp
        · simp [h]

theorem good_setMd {s : State} (hg : Good s) (k : Key) (sc : Scope) (m : Md) : Good (setMd s k sc m).1 := by
  unfold setMd
  split
  · exact hg
  · rename_i b hl
    exact good_update_same hg (lookup_ok hl).1 rfl rfl rfl

theorem good_delMd {s : State} (hg : Good s) (k : Key) (sc : Scope) (sfx : Nat) : Good (delMd s k sc sfx).1 := by
  unfold delMd
  split
  · exact hg
  · rename_i b hl
    exact good_update_same hg (lookup_ok hl).1 rfl rfl rfl

theorem good_writeAtMd {s : State} (hg : Good s) (k : Key) (sc : Scope) (sfx : Nat) (p : Bytes) (off : Nat) :
    Good (writeAtMd s k sc sfx p off).1 := by
  unfold writeAtMd
  split
  · exact hg
  · rename_i b hl
    split
    · exact hg
    · exact good_update_same hg (lookup_ok hl).1 rfl rfl rfl

theorem good_cleanLoop (target : Nat) : ∀ (ks : List Key) (s : State), Good s → Good (cleanLoop target ks s).1 := by
  intro ks
  induction ks with
  | nil => intro s hg; simpa [cleanLoop] using hg
  | cons k ks ih =>
    intro s hg
    simp only [cleanLoop]
    split
    · exact hg
    · have hd := good_delete hg k .any
      split
      · rename_i s' heq
        have e1 : s' = (delete s k .any).1 := by rw [heq]
        subst e1
        exact ih _ hd
      · rename_i s' o _ heq
        have e1 : s' = (delete s k .any).1 := by rw [heq]
        subst e1; exact hd

theorem good_clean {s : State} (hg : Good s) (pct : Int) (r : Bool) (ord : List Key) : Good (clean s pct r ord).1 := by
  unfold clean
  simp only
  split
  · exact hg
  · generalize hE : ensureFree s (s.cap - s.cap * pct.toNat % U64 / 100) = r1
    have h1 : Good r1.1 := by rw [← hE]; exact good_ensureFree hg _
    obtain ⟨s1, res, ev⟩ := r1
    cases res with
    | ok => exact h1
    | panic => exact h1
    | noSpace =>
      simp only
      generalize hL : cleanLoop (s.cap * pct.toNat % U64 / 100) _ s1 = r2
      have h2 : Good r2.1 := by rw [← hL]; exact good_cleanLoop _ _ _ h1
      obtain ⟨s2, e, d2⟩ := r2
      cases e with
      | some e => exact h2
      | none =>
        simp only
        split
        · exact h2
        · generalize hL3 : cleanLoop (s.cap * pct.toNat % U64 / 100) _ s2 = r3
          have h3 : Good r3.1 := by rw [← hL3]; exact good_cleanLoop _ _ _ h2
          obtain ⟨s3, e3, d3⟩ := r3
          exact h3

theorem good_step {s : State} (hg : Good s) (o : Op) : Good (step s o) := by
  cases o with
  | create k n d => exact good_create hg k n d
  | «open» k sc => exact good_openB hg k sc
  | write k sc off p => exact good_write hg k sc off p
  | stat k sc => simp only [step, apply, stat]; split <;> exact hg
  | has k sc => simp only [step, apply, has]; split <;> exact hg
  | markComplete k => exact good_markComplete hg k
  | delete k sc => exact good_delete hg k sc
  | ban k sc => exact good_ban hg k sc
  | unban k sc => exact good_unban hg k sc
  | setMd k sc m => exact good_setMd hg k sc m
  | getMd k sc sfx =>
    simp only [step, apply, getMd]
    split
    · exact hg
    · split <;> exact hg
  | delMd k sc sfx => exact good_delMd hg k sc sfx
  | listMd k sc => simp only [step, apply, listMd]; split <;> exact hg
  | writeAtMd k sc sfx p off => exact good_writeAtMd hg k sc sfx p off
  | list sc => exact hg
  | clean pct r ord => exact good_clean hg pct r ord

/-! ### what the eviction loop removes -/

/-- the evicted keys are a prefix of the queue, the rest of the queue stays -/
theorem evictLoop_queue (space : Nat) :
    ∀ (q : List Key) (s : State), s.queue = q →
      q = (evictLoop space q s).2.2 ++ (evictLoop space q s).1.queue := by
  intro q
  induction q with
  | nil => intro s hq; simp [evictLoop, hq]
  | cons k q ih =>
    intro s hq
    simp only [evictLoop]
    split
    · simp [hq]
    · split
      · simp [hq]
      · rename_i b _
        have := ih (evictStep s k q b) (by simp [evictStep, release])
        simp only [List.cons_append]
        rw [← this]

theorem evictLoop_prefix (space : Nat) (q : List Key) (s : State) (hq : s.queue = q) :
    (evictLoop space q s).2.2 <+: q :=
  ⟨(evictLoop space q s).1.queue, (evictLoop_queue space q s hq).symm⟩

/-- an evicted key is gone, every other entry is untouched -/
theorem evictLoop_get (space : Nat) (k' : Key) :
    ∀ (q : List Key) (s : State),
      (evictLoop space q s).1.blobs.get k' =
        if k' ∈ (evictLoop space q s).2.2 then none else s.blobs.get k' := by
  intro q
  induction q with
  | nil => intro s; simp [evictLoop]
  | cons k q ih =>
    intro s
    simp only [evictLoop]
    split
    · simp
    · split
      · simp
      · rename_i b _
        have := ih (evictStep s k q b)
        simp only [this, List.mem_cons]
        simp only [evictStep, release, BMap.get_del]
        by_cases h1 : k' = k
        · simp [h1]
        · simp [h1]

/-- `noSpace` is only reported once the queue is empty -/
theorem evictLoop_noSpace (space : Nat) :
    ∀ (q : List Key) (s : State), s.queue = q → (evictLoop space q s).2.1 = .noSpace →
      (evictLoop space q s).1.queue = [] ∧ fits (evictLoop space q s).1 space = false := by
  intro q
  induction q with
  | nil =>
    intro s hq
    simp only [evictLoop]
    split
    · simp
    · intro _; exact ⟨hq, by simp_all⟩
  | cons k q ih =>
    intro s hq
    simp only [evictLoop]
    split
    · simp
    · split
      · simp
      · rename_i b _
        exact ih (evictStep s k q b) (by simp [evictStep, release])

/-- state after the first `n` evictions from the front of the queue -/
def evictN : Nat → State → State
  | 0, s => s
  | n + 1, s =>
    match s.queue with
    | [] => s
    | k :: q => match s.blobs.get k with
      | none => s
      | some b => evictN n (evictStep s k q b)

/-- the loop evicts one blob at a time from the front and stops at the first state that fits -/
theorem evictLoop_minimal (space : Nat) :
    ∀ (q : List Key) (s : State), s.queue = q →
      (evictLoop space q s).1 = evictN (evictLoop space q s).2.2.length s ∧
      ∀ n, n < (evictLoop space q s).2.2.length → fits (evictN n s) space = false := by
  intro q
  induction q with
  | nil => intro s hq; simp [evictLoop, evictN]
  | cons k q ih =>
    intro s hq
    simp only [evictLoop]
    split
    · simp [evictN]
    · rename_i hnf
      split
      · simp [evictN]
      · rename_i b hb
        obtain ⟨h1, h2⟩ := ih (evictStep s k q b) (by simp [evictStep, release])
        refine ⟨?_, ?_⟩
        · simp only [List.length_cons, evictN, hq, hb]
          exact h1
        · intro n hn
          cases n with
          | zero => simpa [evictN] using hnf
          | succ n =>
            simp only [evictN, hq, hb]
            exact h2 n (by simpa using hn)

/-! ### what `Clean`'s deletion loops remove -/

theorem delete_get (s : State) (k : Key) (sc : Scope) (k' : Key) :
    (delete s k sc).1.blobs.get k' =
      if (delete s k sc).2 = .ok ∧ k' = k then none else s.blobs.get k' := by
  unfold delete
  split
  · simp
  · simp only [release, BMap.get_del]
    by_cases h : k' = k <;> simp [h]

theorem cleanLoop_get (target : Nat) (k' : Key) :
    ∀ (ks : List Key) (s : State),
      (cleanLoop target ks s).1.blobs.get k' =
        if k' ∈ (cleanLoop target ks s).2.2 then none else s.blobs.get k' := by
  intro ks
  induction ks with
  | nil => intro s; simp [cleanLoop]
  | cons k ks ih =>
    intro s
    simp only [cleanLoop]
    split
    · simp
    · split
      · rename_i s' heq
        have e1 : s' = (delete s k .any).1 := by rw [heq]
        have e2 : (delete s k .any).2 = .ok := by rw [heq]
        subst e1
        simp only [ih, List.mem_cons]
        rw [delete_get]
        by_cases h1 : k' = k
        · simp [h1, e2]
        · simp [h1]
      · rename_i s' o hne heq
        have e1 : s' = (delete s k .any).1 := by rw [heq]
        have e2 : (delete s k .any).2 ≠ .ok := by rw [heq]; exact fun h => hne h
        subst e1
        simp only [List.not_mem_nil, if_false]
        rw [delete_get]; simp [e2]

theorem cleanLoop_sub (target : Nat) :
    ∀ (ks : List Key) (s : State), ∀ k ∈ (cleanLoop target ks s).2.2, k ∈ ks := by
  intro ks
  induction ks with
  | nil => intro s; simp [cleanLoop]
  | cons k ks ih =>
    intro s
    simp only [cleanLoop]
    split
    · simp
    · split
      · intro k' hk'
        simp only [List.mem_cons] at hk' ⊢
        rcases hk' with h | h
        · exact .inl h
        · exact .inr (ih _ k' h)
      · simp

end KrakenModel.BlobStore
