import KrakenModel.Model.ShadowBackend
import KrakenModel.Model.SqlBackend
import KrakenModel.Proof.C37
/-
  Refinement lemmas for Spec/C37: the models of shadowbackend and sqlbackend behave like the
  storage-contract specification.
-/
namespace KrakenModel.Proof.C37
open KrakenModel.BackendSpec

/-- two lists that are strictly sorted by the same strict total order and have the same members
are equal -/
theorem sorted_ext {α : Type} [DecidableEq α] {lt : α → α → Bool} (ho : StrictOrder lt) :
    ∀ (l₁ l₂ : List α), Sorted lt l₁ → Sorted lt l₂ → (∀ x, x ∈ l₁ ↔ x ∈ l₂) → l₁ = l₂ := by
  intro l₁
  induction l₁ with
  | nil =>
    intro l₂ _ _ h
    cases l₂ with
    | nil => rfl
    | cons b _ => exact absurd ((h b).mpr (by simp)) (by simp)
  | cons a as ih =>
    intro l₂ h1 h2 h
    cases l₂ with
    | nil => exact absurd ((h a).mp (by simp)) (by simp)
    | cons b bs =>
      obtain ⟨ha, has⟩ := List.pairwise_cons.mp h1
      obtain ⟨hb, hbs⟩ := List.pairwise_cons.mp h2
      have hab : a = b := by
        have h1' : a ∈ b :: bs := (h a).mp (by simp)
        have h2' : b ∈ a :: as := (h b).mpr (by simp)
        rcases List.mem_cons.mp h1' with e | hin
        · exact e
        · rcases List.mem_cons.mp h2' with e | hin2
          · exact e.symm
          · have l1 := hb a hin
            have l2 := ha b hin2
            have := ho.asymm b a l1
            rw [this] at l2; exact absurd l2 (by simp)
      subst hab
      congr 1
      apply ih bs has hbs
      intro x
      constructor
      · intro hx
        have := (h x).mp (List.mem_cons_of_mem _ hx)
        rcases List.mem_cons.mp this with e | hin
        · subst e
          have := ha x hx
          rw [ho.irrefl] at this; exact absurd this (by simp)
        · exact hin
      · intro hx
        have := (h x).mpr (List.mem_cons_of_mem _ hx)
        rcases List.mem_cons.mp this with e | hin
        · subst e
          have := hb x hx
          rw [ho.irrefl] at this; exact absurd this (by simp)
        · exact hin

/-! ### shadowbackend -/
section shadow
open KrakenModel.ShadowBackend
variable {Name : Type} [DecidableEq Name]

/-- a history through the shadow client only, every source positioned at its start -/
def ClientHistory : List (ShadowBackend.Op Name) → Prop
  | [] => True
  | .upload _ src :: rest => src.pos = 0 ∧ ClientHistory rest
  | .other :: rest => ClientHistory rest
  | _ :: _ => False

/-- what the same history means for the specification -/
def shadowSpecOps : List (ShadowBackend.Op Name) → List (BackendSpec.Op Name)
  | [] => []
  | .upload n src :: rest => (if src.seekable then .upload n src.data else .other) :: shadowSpecOps rest
  | _ :: rest => .other :: shadowSpecOps rest

theorem shadow_upload (lt : Name → Name → Bool) (s : State Name) (n : Name) (src : Source) (hp : src.pos = 0) :
    upload lt s n src =
      if src.seekable then ({ active := put lt s.active n src.data, shadow := put lt s.shadow n src.data }, .ok)
      else (s, .refused) := by
  unfold upload Source.readAll Source.rewind
  cases hsk : src.seekable <;> simp [hp]

theorem shadow_run_foldl (lt : Name → Name → Bool) :
    ∀ (ops : List (ShadowBackend.Op Name)) (s : State Name) (sp : Store Name), ClientHistory ops →
      s.active = sp → s.shadow = sp →
      (ops.foldl (ShadowBackend.step lt) s).active = (shadowSpecOps ops).foldl (BackendSpec.step lt) sp ∧
      (ops.foldl (ShadowBackend.step lt) s).shadow = (shadowSpecOps ops).foldl (BackendSpec.step lt) sp := by
  intro ops
  induction ops with
  | nil => intro s sp _ h1 h2; exact ⟨h1, h2⟩
  | cons op rest ih =>
    intro s sp hc h1 h2
    cases op with
    | other => exact ih s sp hc h1 h2
    | uploadActive n b => exact absurd hc (by simp [ClientHistory])
    | uploadShadow n b => exact absurd hc (by simp [ClientHistory])
    | upload n src =>
      obtain ⟨hp, hrest⟩ := hc
      simp only [List.foldl_cons, shadowSpecOps, ShadowBackend.step, shadow_upload lt s n src hp]
      cases hsk : src.seekable
      · simpa [BackendSpec.step] using ih s sp hrest h1 h2
      · simp only [if_true, BackendSpec.step]
        exact ih _ (put lt sp n src.data) hrest (by simp [h1]) (by simp [h2])

end shadow

/-! ### sqlbackend -/
section sql
open KrakenModel.SqlBackend
variable {Repo Tag : Type} [DecidableEq Repo] [DecidableEq Tag]

theorem first_upsert_same (tbl : Table Repo Tag) (r : Repo) (t : Tag) (b : Bytes) :
    first (upsert tbl r t b) r t = some b := by
  induction tbl with
  | nil => simp [upsert, first]
  | cons row rest ih =>
    unfold upsert
    by_cases h : row.repo = r ∧ row.tag = t
    · simp [h, first]
    · simp [h, first, ih]

theorem first_upsert_other (tbl : Table Repo Tag) (r r' : Repo) (t t' : Tag) (b : Bytes)
    (hne : ¬ (r' = r ∧ t' = t)) : first (upsert tbl r t b) r' t' = first tbl r' t' := by
  induction tbl with
  | nil =>
    have : ¬ (r = r' ∧ t = t') := fun h => hne ⟨h.1.symm, h.2.symm⟩
    simp [upsert, first, this]
  | cons row rest ih =>
    unfold upsert
    have hne' : ¬ (r = r' ∧ t = t') := fun h => hne ⟨h.1.symm, h.2.symm⟩
    by_cases h : row.repo = r ∧ row.tag = t
    · obtain ⟨h1, h2⟩ := h
      simp [first, h1, h2, hne']
    · simp only [h, if_false, first, ih]

theorem first_foldl (ops : List (SqlBackend.Op Repo Tag)) (r : Repo) (t : Tag) :
    ∀ tbl : Table Repo Tag, first (ops.foldl SqlBackend.step tbl) r t =
      ((lastUpload (specOps ops) (r, t)).orElse fun _ => first tbl r t) := by
  induction ops with
  | nil => intro tbl; simp [specOps, lastUpload]
  | cons op rest ih =>
    intro tbl
    simp only [List.foldl_cons, ih]
    cases op with
    | other => simp [specOps, specOp, lastUpload, SqlBackend.step]
    | upload r' t' b =>
      simp only [specOps, List.map_cons, specOp, lastUpload, SqlBackend.step]
      have hspec : List.map specOp rest = specOps rest := rfl
      rw [hspec]
      cases hl : lastUpload (specOps rest) (r, t) with
      | some b' => simp
      | none =>
        by_cases hk : (r, t) = (r', t')
        · have h1 : r = r' := congrArg Prod.fst hk
          have h2 : t = t' := congrArg Prod.snd hk
          subst h1; subst h2
          simp [first_upsert_same]
        · have : ¬ (r = r' ∧ t = t') := fun h => hk (by rw [h.1, h.2])
          simp [hk, first_upsert_other tbl r' r t' t b this]

theorem ltPair_strict {ltRepo : Repo → Repo → Bool} {ltTag : Tag → Tag → Bool}
    (hr : StrictOrder ltRepo) (ht : StrictOrder ltTag) : StrictOrder (ltPair ltRepo ltTag) := by
  refine ⟨?_, ?_, ?_⟩
  · intro a; simp [ltPair, hr.irrefl, ht.irrefl]
  · intro a b c hab hbc
    simp only [ltPair, Bool.or_eq_true, Bool.and_eq_true, decide_eq_true_eq] at hab hbc ⊢
    rcases hab with h1 | ⟨e1, h1⟩ <;> rcases hbc with h2 | ⟨e2, h2⟩
    · left; exact hr.trans _ _ _ h1 h2
    · left; rw [← e2]; exact h1
    · left; rw [e1]; exact h2
    · right; exact ⟨e1.trans e2, ht.trans _ _ _ h1 h2⟩
  · intro a b hne
    simp only [ltPair, Bool.or_eq_true, Bool.and_eq_true, decide_eq_true_eq]
    by_cases h1 : a.1 = b.1
    · have h2 : a.2 ≠ b.2 := by
        intro h2; apply hne; exact Prod.ext h1 h2
      rcases ht.tri a.2 b.2 h2 with h | h
      · left; right; exact ⟨h1, h⟩
      · right; right; exact ⟨h1.symm, h⟩
    · rcases hr.tri a.1 b.1 h1 with h | h
      · left; left; exact h
      · right; left; exact h

/-! `ORDER BY` -/

theorem mem_sortedInsert {α : Type} [DecidableEq α] (lt : α → α → Bool) (l : List α) (a x : α) :
    x ∈ sortedInsert lt l a ↔ x = a ∨ x ∈ l := by
  induction l with
  | nil => simp [sortedInsert]
  | cons y ys ih =>
    unfold sortedInsert
    by_cases h1 : a = y
    · subst h1; simp
    · by_cases h2 : lt a y = true
      · simp [h1, h2]
      · rw [if_neg h1, if_neg h2, List.mem_cons, ih, List.mem_cons]
        constructor
        · rintro (h | h | h)
          · right; left; exact h
          · left; exact h
          · right; right; exact h
        · rintro (h | h | h)
          · right; left; exact h
          · left; exact h
          · right; right; exact h

theorem sortedInsert_sorted {α : Type} [DecidableEq α] {lt : α → α → Bool} (ho : StrictOrder lt)
    (l : List α) (a : α) (hs : Sorted lt l) : Sorted lt (sortedInsert lt l a) := by
  induction l with
  | nil => simp [sortedInsert, Sorted]
  | cons y ys ih =>
    obtain ⟨hy, hys⟩ := List.pairwise_cons.mp hs
    unfold sortedInsert
    by_cases h1 : a = y
    · simpa [h1] using hs
    · by_cases h2 : lt a y = true
      · simp only [h1, h2, if_false, if_true]
        refine List.pairwise_cons.mpr ⟨?_, hs⟩
        intro x hx
        rcases List.mem_cons.mp hx with e | hin
        · subst e; exact h2
        · exact ho.trans a y x h2 (hy x hin)
      · simp only [h1, h2, if_false]
        refine List.pairwise_cons.mpr ⟨?_, ih hys⟩
        intro x hx
        rcases (mem_sortedInsert lt ys a x).mp hx with e | hin
        · subst e
          rcases ho.tri x y h1 with h | h
          · exact absurd h h2
          · exact h
        · exact hy x hin

theorem orderBy_spec {α : Type} [DecidableEq α] {lt : α → α → Bool} (ho : StrictOrder lt) (l : List α) :
    Sorted lt (orderBy lt l) ∧ ∀ x, x ∈ orderBy lt l ↔ x ∈ l := by
  unfold orderBy
  have : ∀ (acc : List α), Sorted lt acc →
      Sorted lt (l.foldl (sortedInsert lt) acc) ∧ ∀ x, x ∈ l.foldl (sortedInsert lt) acc ↔ x ∈ acc ∨ x ∈ l := by
    induction l with
    | nil => intro acc h; simpa using h
    | cons a as ih =>
      intro acc h
      obtain ⟨i1, i2⟩ := ih (sortedInsert lt acc a) (sortedInsert_sorted ho acc a h)
      refine ⟨i1, fun x => ?_⟩
      simp only [List.foldl_cons, i2, mem_sortedInsert, List.mem_cons]
      constructor
      · rintro ((h | h) | h)
        · right; left; exact h
        · left; exact h
        · right; right; exact h
      · rintro (h | h | h)
        · left; right; exact h
        · left; left; exact h
        · right; exact h
  obtain ⟨h1, h2⟩ := this [] (by simp [Sorted])
  exact ⟨h1, fun x => by simpa using h2 x⟩

theorem mem_table_iff_first (tbl : Table Repo Tag) (r : Repo) (t : Tag) :
    (∃ row ∈ tbl, row.repo = r ∧ row.tag = t) ↔ (first tbl r t).isSome = true := by
  induction tbl with
  | nil => simp [first]
  | cons row rest ih =>
    by_cases h : row.repo = r ∧ row.tag = t
    · simp [first, h]
    · simp only [List.mem_cons, first, h, if_false, ← ih]
      constructor
      · rintro ⟨row', hm | hm, hr⟩
        · subst hm; exact absurd hr h
        · exact ⟨row', hm, hr⟩
      · rintro ⟨row', hm, hr⟩; exact ⟨row', Or.inr hm, hr⟩

end sql

end KrakenModel.Proof.C37
