import KrakenModel.Model.IdCodec
/- Helper lemmas for Spec/C39 (core Lean only). -/
namespace KrakenModel.Proof.C39
open KrakenModel.IdCodec KrakenModel.Codec

/-! ### hex -/

theorem hexVal_digitChar : ∀ n, n < 16 → hexVal (Nat.digitChar n) = some n := by decide

theorem isHex_digitChar : ∀ n, n < 16 → isHex (Nat.digitChar n) = true := by decide

theorem hexVal_isSome_iff (c : Char) : (hexVal c).isSome = isHex c := by
  simp only [hexVal, isHex]
  by_cases h1 : 48 ≤ c.toNat ∧ c.toNat ≤ 57
  · simp [h1]
  · by_cases h2 : 97 ≤ c.toNat ∧ c.toNat ≤ 102
    · simp [h1, h2]
    · by_cases h3 : 65 ≤ c.toNat ∧ c.toNat ≤ 70
      · simp [h1, h2, h3]
      · simp only [h1, h2, h3, if_false, Option.isSome_none]
        simp only [not_and, Nat.not_le] at h1 h2 h3
        symm
        simp only [Bool.or_eq_false_iff, Bool.and_eq_false_iff, decide_eq_false_iff_not, Nat.not_le]
        omega

theorem hexVal_lt {c : Char} {x : Nat} (h : hexVal c = some x) : x < 16 := by
  simp only [hexVal] at h
  split at h
  · cases h; omega
  · split at h
    · cases h; omega
    · split at h
      · cases h; omega
      · cases h

theorem hexDecode_hexEncode (bs : Bytes) (h : ∀ b ∈ bs, b < 256) : hexDecode (hexEncode bs) = some bs := by
  induction bs with
  | nil => rfl
  | cons b rest ih =>
    have hb : b < 256 := h b (by simp)
    have ih' := ih (fun x hx => h x (by simp [hx]))
    have e : hexEncode (b :: rest) = Nat.digitChar (b / 16) :: Nat.digitChar (b % 16) :: hexEncode rest := rfl
    rw [e]
    simp only [hexDecode, hexVal_digitChar (b / 16) (by omega), hexVal_digitChar (b % 16) (by omega), ih']
    congr 2
    omega

/-- hex.DecodeString succeeds exactly on even-length strings of hex digits -/
theorem hexDecode_isSome_iff : ∀ (s : List Char), (hexDecode s).isSome = (decide (s.length % 2 = 0) && s.all isHex)
  | [] => rfl
  | [c] => by simp [hexDecode]
  | a :: b :: rest => by
    have ih := hexDecode_isSome_iff rest
    have ha := hexVal_isSome_iff a
    have hb := hexVal_isSome_iff b
    simp only [hexDecode, List.length_cons, List.all_cons]
    have e : decide ((rest.length + 1 + 1) % 2 = 0) = decide (rest.length % 2 = 0) := by
      have : ((rest.length + 1 + 1) % 2 = 0) ↔ (rest.length % 2 = 0) := by omega
      simp only [this]
    rw [e]
    cases hva : hexVal a <;> cases hvb : hexVal b <;> cases hr : hexDecode rest <;>
      simp_all

theorem hexDecode_length : ∀ (s : List Char) (bs : Bytes), hexDecode s = some bs →
    s.length = 2 * bs.length ∧ ∀ b ∈ bs, b < 256
  | [], bs, h => by simp [hexDecode] at h; subst h; simp
  | [c], bs, h => by simp [hexDecode] at h
  | a :: b :: rest, bs, h => by
    simp only [hexDecode] at h
    cases hva : hexVal a <;> cases hvb : hexVal b <;> cases hr : hexDecode rest <;> simp_all
    rename_i x y r
    have ⟨h1, h2⟩ := hexDecode_length rest r hr
    subst h
    have hx := hexVal_lt hva
    have hy := hexVal_lt hvb
    refine ⟨by simp; omega, ?_⟩
    intro v hv
    rcases List.mem_cons.mp hv with hv | hv
    · omega
    · exact h2 v hv

theorem hexEncode_length (bs : Bytes) : (hexEncode bs).length = 2 * bs.length := by
  induction bs with
  | nil => rfl
  | cons b rest ih => simp only [hexEncode, List.flatMap_cons, List.length_append, List.length_cons, List.length_nil] at ih ⊢; omega

theorem hexEncode_all_isHex (bs : Bytes) (h : ∀ b ∈ bs, b < 256) : (hexEncode bs).all isHex = true := by
  induction bs with
  | nil => rfl
  | cons b rest ih =>
    have hb : b < 256 := h b (by simp)
    simp only [hexEncode, List.flatMap_cons, List.all_append, List.all_cons, List.all_nil, Bool.and_true,
      isHex_digitChar (b / 16) (by omega), isHex_digitChar (b % 16) (by omega), Bool.true_and]
    exact ih (fun x hx => h x (by simp [hx]))

theorem isHex_ne_colon {c : Char} (h : isHex c = true) : c ≠ ':' := by
  intro hc; subst hc; revert h; decide

theorem isHex_ne_quote {c : Char} (h : isHex c = true) : c ≠ '"' ∧ c ≠ '\\' := by
  constructor <;> (intro hc; subst hc; revert h; decide)

/-! ### digests -/

theorem validateSHA256_none_iff (s : List Char) :
    validateSHA256 s = none ↔ s.length = 64 ∧ s.all isHex = true := by
  unfold validateSHA256
  by_cases hl : s.length = 64
  · have hs := hexDecode_isSome_iff s
    simp only [hl, ne_eq, not_true_eq_false, if_false, true_and]
    have hev : decide (s.length % 2 = 0) = true := by simp [hl]
    rw [hev, Bool.true_and] at hs
    cases hd : hexDecode s with
    | none => rw [hd] at hs; simp only [Option.isSome_none] at hs; simp [← hs]
    | some v => rw [hd] at hs; simp only [Option.isSome_some] at hs; simp [← hs]
  · simp [hl]

theorem colon_not_mem_of_all_isHex (s : List Char) (h : s.all isHex = true) : ':' ∉ s := by
  intro hm
  exact isHex_ne_colon (List.all_eq_true.mp h _ hm) rfl

theorem parse_raw (d : Digest) (hv : validateSHA256 d.hex = none) : parseSHA256Digest d.raw = .ok d := by
  have ⟨_, hall⟩ := (validateSHA256_none_iff d.hex).mp hv
  have hsplit : splitOn ':' d.raw = [sha256Algo, d.hex] := by
    have : d.raw = sha256Algo ++ ':' :: d.hex := rfl
    rw [this, splitOn_append ':' sha256Algo d.hex (by decide),
      splitOn_of_not_mem ':' d.hex (colon_not_mem_of_all_isHex _ hall)]
  have hne : d.raw.isEmpty = false := rfl
  simp [parseSHA256Digest, hne, hsplit, hv]

theorem parse_ok_imp (raw : List Char) (d : Digest) (h : parseSHA256Digest raw = .ok d) :
    raw = sha256Prefix ++ d.hex ∧ validateSHA256 d.hex = none := by
  unfold parseSHA256Digest at h
  split at h
  · cases h
  · split at h
    · rename_i algo hex hs
      split at h
      · cases h
      · rename_i ha
        split at h
        · cases h
        · rename_i hv
          cases h
          have hj := splitOn_join ':' raw algo [hex] hs
          simp only [ne_eq, Decidable.not_not] at ha
          subst ha
          simp only [List.flatMap_cons, List.flatMap_nil, List.append_nil] at hj
          exact ⟨hj.symm, hv⟩
    · cases h

/-! ### digest list JSON -/

theorem scanDigests_string (cur s rest : List Char) (acc : List Digest)
    (hs : ∀ c ∈ s, c ≠ '"' ∧ c ≠ '\\') :
    scanDigests (s ++ rest) (some cur) acc = scanDigests rest (some (cur ++ s)) acc := by
  induction s generalizing cur with
  | nil => simp
  | cons c cs ih =>
    have ⟨h1, h2⟩ := hs c (by simp)
    simp only [List.cons_append, scanDigests, h1, h2, if_false]
    rw [ih _ (fun x hx => hs x (by simp [hx]))]
    simp

theorem raw_plain (d : Digest) (hv : validateSHA256 d.hex = none) : ∀ c ∈ d.raw, c ≠ '"' ∧ c ≠ '\\' := by
  have ⟨_, hall⟩ := (validateSHA256_none_iff d.hex).mp hv
  intro c hc
  simp only [Digest.raw, List.mem_append] at hc
  rcases hc with hc | hc
  · revert c; decide
  · exact isHex_ne_quote (List.all_eq_true.mp hall c hc)

theorem scanDigests_list (d : Digest) (ds : List Digest) (acc : List Digest)
    (hv : ∀ x ∈ d :: ds, validateSHA256 x.hex = none) :
    scanDigests ('"' :: d.raw ++ ['"'] ++ (ds.flatMap fun x => ',' :: '"' :: x.raw ++ ['"']) ++ [']']) none acc
      = some (acc ++ d :: ds, []) := by
  induction ds generalizing d acc with
  | nil =>
    have hd := hv d (by simp)
    simp only [List.flatMap_nil, List.append_nil, List.cons_append, List.append_assoc, scanDigests, if_true]
    rw [scanDigests_string [] d.raw _ _ (raw_plain d hd)]
    simp [scanDigests, parse_raw d hd]
  | cons e es ih =>
    have hd := hv d (by simp)
    simp only [List.flatMap_cons, List.cons_append, List.append_assoc, scanDigests, if_true]
    rw [scanDigests_string [] d.raw _ _ (raw_plain d hd)]
    have := ih e (acc ++ [d]) (fun x hx => hv x (by simp at hx ⊢; right; exact hx))
    simp only [List.cons_append, List.append_assoc, List.nil_append, scanDigests, if_true] at this
    simp [scanDigests, parse_raw d hd, this]

/-! ### varint -/

theorem uvarint_put : ∀ (fuel x acc s : Nat) (pad : Bytes), 1 ≤ fuel → fuel ≤ 10 → x < 2 ^ (7 * fuel - 6) →
    ∃ n, uvarintAux (putUvarintAux fuel x ++ pad) (10 - fuel) acc s = .ok (acc + x * 2 ^ s) n := by
  intro fuel
  induction fuel with
  | zero => intro x acc s pad h; omega
  | succ f ih =>
    intro x acc s pad _ hf10 hx
    by_cases hlt : x < 128
    · have hi : ¬ (10 - (f + 1) = 10) := by omega
      by_cases h9 : 10 - (f + 1) = 9
      · have hf0 : f = 0 := by omega
        subst hf0
        have : x < 2 := by simpa using hx
        refine ⟨10 - (0 + 1) + 1, ?_⟩
        simp only [putUvarintAux, hlt, if_true, List.cons_append, List.nil_append, uvarintAux, hi, if_false]
        have hgt : ¬ x > 1 := by omega
        simp [hgt]
      · refine ⟨10 - (f + 1) + 1, ?_⟩
        simp only [putUvarintAux, hlt, if_true, List.cons_append, List.nil_append, uvarintAux, hi, if_false]
        have hn9 : ¬ (10 - (f + 1) = 9 ∧ x > 1) := fun hc => h9 hc.1
        rw [if_neg hn9]
    · have hf1 : 1 ≤ f := by
        apply Classical.byContradiction; intro hn
        have : f = 0 := by omega
        subst this
        have : x < 2 := by simpa using hx
        omega
      obtain ⟨g, rfl⟩ : ∃ g, f = g + 1 := ⟨f - 1, by omega⟩
      have hx' : x / 128 < 2 ^ (7 * (g + 1) - 6) := by
        have e1 : 7 * (g + 1 + 1) - 6 = (7 * (g + 1) - 6) + 7 := by omega
        rw [e1, Nat.pow_add] at hx
        exact Nat.div_lt_of_lt_mul (by rw [Nat.mul_comm]; exact hx)
      obtain ⟨n, hn⟩ := ih (x / 128) (acc + (x % 128) * 2 ^ s) (s + 7) pad hf1 (by omega) hx'
      refine ⟨n, ?_⟩
      have hi : ¬ (10 - (g + 1 + 1) = 10) := by omega
      have hb : ¬ (x % 128 + 128 < 128) := by omega
      have hmod : (x % 128 + 128) % 128 = x % 128 := by omega
      have hidx : 10 - (g + 1 + 1) + 1 = 10 - (g + 1) := by omega
      have hput : putUvarintAux (g + 1 + 1) x = (x % 128 + 128) :: putUvarintAux (g + 1) (x / 128) := by
        rw [putUvarintAux]; simp [hlt]
      rw [hput]
      simp only [List.cons_append, uvarintAux, hi, hb, hmod, hidx, if_false]
      rw [hn]
      congr 1
      have : 2 ^ (s + 7) = 128 * 2 ^ s := by rw [Nat.pow_add]; omega
      rw [this]
      have hdm := Nat.div_add_mod x 128
      have key : x * 2 ^ s = x % 128 * 2 ^ s + x / 128 * (128 * 2 ^ s) := by
        conv => lhs; rw [← hdm]
        rw [Nat.add_mul, Nat.mul_comm 128 (x / 128), Nat.mul_assoc, Nat.add_comm]
      rw [key, Nat.add_assoc]

theorem zigzag_lt (x : Int) (h1 : -(2^63 : Int) ≤ x) (h2 : x < 2^63) : zigzag x < 2^64 := by
  unfold zigzag; split <;> omega

theorem unzigzag_zigzag (x : Int) : unzigzag (zigzag x) = x := by
  unfold zigzag unzigzag
  split
  · rename_i h
    have e : (-2 * x - 1).toNat % 2 = 1 := by omega
    simp only [e, if_true]
    omega
  · rename_i h
    have e : ¬ ((2 * x).toNat % 2 = 1) := by omega
    simp only [e, if_false]
    omega

/-! ### bitset -/

theorem fromBE_be64 (n : Nat) (h : n < 2^64) : fromBE (be64 n) 0 = n := by
  simp only [be64, fromBE]
  omega

theorem be64_length (n : Nat) : (be64 n).length = 8 := rfl

theorem readWords_flatMap (ws : List Nat) (rest : Bytes) (h : ∀ w ∈ ws, w < 2^64) :
    readWords ws.length (ws.flatMap be64 ++ rest) = some ws := by
  induction ws with
  | nil => rfl
  | cons w ws ih =>
    have hw := h w (by simp)
    have hlen : ¬ ((be64 w ++ (ws.flatMap be64 ++ rest)).length < 8) := by
      simp only [List.length_append, be64_length]; omega
    simp only [List.length_cons, List.flatMap_cons, List.append_assoc, readWords, hlen, if_false]
    have ht : (be64 w ++ (ws.flatMap be64 ++ rest)).take 8 = be64 w := by
      rw [List.take_append_of_le_length (by simp [be64_length])]
      exact List.take_of_length_le (by simp [be64_length])
    have hd : (be64 w ++ (ws.flatMap be64 ++ rest)).drop 8 = ws.flatMap be64 ++ rest := by
      rw [List.drop_append_of_le_length (by simp [be64_length])]
      simp [be64_length]
    rw [ht, hd, ih (fun x hx => h x (by simp [hx])), fromBE_be64 w hw]
    rfl

end KrakenModel.Proof.C39
