import KrakenModel.Proof.C08
/-
  C08: the LRU order of the eviction queue along the runs of the interleaving system `msys` (store
  calls, single iterations of the eviction loop, handle calls): the last-use trace of C07 carried
  over — handle calls and evictions use no blob.
-/
namespace KrakenModel.BlobStore

/-- `MState` + for every key the index (in the history of actions) of the action that last used it -/
structure MTraced where
  m : MState
  lastUse : Key → Nat
  now : Nat

def mtinit (cap : Nat) : MTraced := { m := { st := init cap }, lastUse := fun _ => 0, now := 0 }

/-- store calls use blobs as in C07 (`usedKey`); an eviction and a handle call use none -/
def mtstep (t : MTraced) (a : MAct) : MTraced :=
  { m := mstep t.m a
    now := t.now + 1
    lastUse := match a with
      | .op o => (match usedKey t.m.st o with
          | some k => fun k' => if k' = k then t.now else t.lastUse k'
          | none => t.lastUse)
      | _ => t.lastUse }

def mtrun (cap : Nat) (acts : List MAct) : MTraced := acts.foldl mtstep (mtinit cap)

def MTraced.toTraced (t : MTraced) : Traced := { st := t.m.st, lastUse := t.lastUse, now := t.now }

theorem foldl_mtstep_m (acts : List MAct) (t : MTraced) : (acts.foldl mtstep t).m = acts.foldl mstep t.m := by
  induction acts generalizing t with
  | nil => rfl
  | cons a acts ih => simp only [List.foldl_cons]; rw [ih]; rfl

theorem mtrun_m (cap : Nat) (acts : List MAct) : (mtrun cap acts).m = (msys cap).run acts := by
  simp [mtrun, Sys.run, msys, foldl_mtstep_m, mtinit]

theorem evictFront_queue_sublist (s : State) : (evictFront s).queue.Sublist s.queue := by
  unfold evictFront
  split
  · exact List.Sublist.refl _
  · rename_i k q hq
    split
    · exact List.Sublist.refl _
    · rw [hq]; simp only [evictStep, release]; exact List.sublist_cons_self k q

theorem mstep_queue_sublist (m : MState) (a : MAct) (h : ∀ o, a ≠ .op o) : (mstep m a).st.queue.Sublist m.st.queue := by
  cases a with
  | op o => exact absurd rfl (h o)
  | evict => exact evictFront_queue_sublist m.st
  | hRead i n => simp only [mstep, mapply]; split <;> exact List.Sublist.refl _
  | hReadAt i n off => simp only [mstep, mapply]; split <;> exact List.Sublist.refl _
  | hSeek i off w => simp only [mstep, mapply]; split <;> exact List.Sublist.refl _
  | hSize i => simp only [mstep, mapply]; split <;> exact List.Sublist.refl _
  | hWrite i p =>
    simp only [mstep, mapply]
    split
    · simp only [hWrite_st]; split <;> exact List.Sublist.refl _
    · exact List.Sublist.refl _
  | hWriteAt i p off =>
    simp only [mstep, mapply]
    split
    · simp only [hWriteAt_st]
      split
      · exact List.Sublist.refl _
      · split <;> exact List.Sublist.refl _
    · exact List.Sublist.refl _

theorem lru_mtstep {t : MTraced} (hg : Good t.m.st) (hl : LRU t.toTraced) (a : MAct) : LRU (mtstep t a).toTraced := by
  cases a with
  | op o =>
    have : (mtstep t (.op o)).toTraced = tstep t.toTraced o := rfl
    rw [this]
    exact lru_tstep hg hl o
  | _ =>
    obtain ⟨hp, hb⟩ := hl
    refine ⟨?_, ?_⟩
    · exact hp.sublist (mstep_queue_sublist t.m _ (by intro o h; cases h))
    · intro k hk
      have := hb k ((mstep_queue_sublist t.m _ (by intro o h; cases h)).subset hk)
      show t.lastUse k < t.now + 1
      simp only [MTraced.toTraced] at this
      omega

theorem lru_mrun {cap : Nat} (hc : cap < U64) (acts : List MAct) :
    LRU (mtrun cap acts).toTraced ∧ Good (mtrun cap acts).m.st := by
  unfold mtrun
  have : ∀ (acts : List MAct) (t : MTraced), LRU t.toTraced → Good t.m.st →
      LRU (acts.foldl mtstep t).toTraced ∧ Good (acts.foldl mtstep t).m.st := by
    intro acts
    induction acts with
    | nil => intro t h1 h2; exact ⟨h1, h2⟩
    | cons a acts ih =>
      intro t h1 h2
      exact ih (mtstep t a) (lru_mtstep h2 h1 a) (good_mstep h2 a)
  exact this acts (mtinit cap) ⟨by simp [mtinit, MTraced.toTraced, init], by simp [mtinit, MTraced.toTraced, init]⟩ (good_init hc)

end KrakenModel.BlobStore
