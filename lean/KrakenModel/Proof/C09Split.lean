import KrakenModel.Model.Tiered
/-
  C09: the client operations of `tiered.store` taken apart at the points between their store calls
  (`cseg`) compose to the atomic operations (`capply`) that the invariant proof is about.
-/
namespace KrakenModel.Tiered
open KrakenModel KrakenModel.BlobStore

/-- running the segments of a client operation back to back is the atomic operation -/
theorem crun_eq_capply (t : TState) (o : COp) : crun t o 0 3 = capply t o := by
  cases o with
  | create k size data =>
    simp only [crun, cseg, capply, tCreate]
    by_cases h : (inStore t.mem k || inStore t.disk k) = true
    · simp [h]
    · simp only [h]
      generalize create t.mem k size data = rm
      rcases rm with ⟨s1, o1⟩
      cases o1 with
      | err e =>
        cases e <;> simp
        generalize create t.disk k size data = rd
        rcases rd with ⟨s2, o2⟩
        cases o2 <;> simp
      | _ => simp
  | markComplete k =>
    simp only [crun, cseg, capply, tMarkComplete]
    by_cases h1 : isComplete t.mem k = true
    · simp [h1]
    · by_cases h2 : isComplete t.disk k = true
      · simp [h1, h2]
      · simp only [h1, h2]
        generalize ban t.mem k .any = rb
        rcases rb with ⟨s1, o1⟩
        cases o1 with
        | err e => cases e <;> simp
        | ok =>
          simp
          generalize markComplete s1 k = rc
          rcases rc with ⟨s2, o2⟩
          cases o2 <;> simp
        | _ => simp
  | delete k sc =>
    simp only [crun, cseg, capply, tDelete]
    generalize delete t.mem k sc = rm
    rcases rm with ⟨s1, o1⟩
    cases o1 with
    | err e => cases e <;> simp
    | _ => simp
  | setMd k sc m =>
    simp only [crun, cseg, capply, tSetMd]
    generalize ban t.mem k sc = rb
    rcases rb with ⟨s1, o1⟩
    cases o1 with
    | err e => cases e <;> simp
    | _ => simp
  | delMd k sc sfx =>
    simp only [crun, cseg, capply, tDelMd]
    generalize ban t.mem k sc = rb
    rcases rb with ⟨s1, o1⟩
    cases o1 with
    | err e => cases e <;> simp
    | _ => simp
  | _ => simp [crun, cseg]

end KrakenModel.Tiered
