import KrakenModel.Proof.C03Main
/-
  C03 helper lemmas, part 5: a complete piece stays complete under every action.
-/
namespace KrakenModel.Proof.C03
open KrakenModel.AgentTorrent

variable {crc : Bytes → Nat} {pl : Nat} {blob : Bytes}

theorem complete_mono_thread {s : State} (hg : Good crc pl blob s) (tid k i : Nat)
    (hc : s.pieces[i]? = some PStatus.complete) :
    (stepThread crc s tid k).pieces[i]? = some PStatus.complete := by
  unfold stepThread
  cases ht : s.threads[tid]? with
  | none => exact hc
  | some t =>
    simp only
    have htok := hg.thr tid t ht
    cases hpc : t.pc <;> simp only
    case start => repeat' split
                  all_goals exact hc
    case fastComplete | fastDirty =>
      cases hp : s.pieces[t.idx]? with
      | none => exact hc
      | some st => simp only; split <;> exact hc
    case tryDirty =>
      cases hp : s.pieces[t.idx]? with
      | none => exact hc
      | some st =>
        cases st with
        | empty =>
          simp only [setThread]
          have : t.idx ≠ i := by intro h; rw [h, hc] at hp; cases hp
          rw [List.getElem?_set_ne this]; exact hc
        | dirty => exact hc
        | complete => exact hc
    case openFile | writing | setMeta | loadNum => split <;> exact hc
    case checksum =>
      cases hsum : s.mi.sums[t.idx]? with
      | none => exact hc
      | some sum => simp only; split <;> exact hc
    case markComplete =>
      split
      · simp only [setThread]
        by_cases h : t.idx = i
        · subst h; exact List.getElem?_set_self (by assumption)
        · rw [List.getElem?_set_ne h]; exact hc
      · exact hc
    case incNum | move | setCommitted | done => exact hc
    case markEmpty =>
      split
      · simp only [setThread]
        have hd : s.pieces[t.idx]? = some PStatus.dirty := by
          have := htok.2; simp only [hpc] at this; exact this.2.1
        have : t.idx ≠ i := by intro h; rw [h, hc] at hd; cases hd
        rw [List.getElem?_set_ne this]; exact hc
      · exact hc

theorem complete_mono {s : State} (hg : Good crc pl blob s) (a : Action) (hnr : a.destructive = false) (i : Nat)
    (hc : s.pieces[i]? = some PStatus.complete) :
    (step crc s a).pieces[i]? = some PStatus.complete := by
  cases a with
  | spawn pi payload => exact hc
  | step tid k => exact complete_mono_thread hg tid k i hc
  | reopen =>
    simp only [step]
    split
    · rw [openTorrent_eq_core hg]
      unfold openTorrentCore
      have hi : i < s.pieces.length := lt_of_getElem?_some hc
      split
      · simp only
        rw [List.getElem?_replicate, if_pos]
        have : s.mi.numPieces = numPiecesOf pl blob.length := by
          rw [hg.mi_eq]; exact numPieces_ofBlob crc pl blob
        rw [this, ← hg.len_pieces]; exact hi
      · have h1 := hg.complete_status i hc
        have : (s.status.map fun b => if b = 1 then PStatus.complete else PStatus.empty)[i]? = some PStatus.complete := by
          rw [List.getElem?_map, h1]; simp
        simp only
        split <;> exact this
    · exact hc
  | recreate => simp [Action.destructive] at hnr
  | tornReopen n => simp [Action.destructive] at hnr

end KrakenModel.Proof.C03
