import KrakenModel.Proof.C09Safe
/-
  C09, part 4: every worker step preserves `Inv2`.
-/
namespace KrakenModel.Tiered
open KrakenModel KrakenModel.BlobStore

/-- the state after worker `i` (currently `w`) took the step that leads to `(t1, w')` -/
def wnext (s : GState) (i : Nat) (t1 : TState) (w' : Worker) : GState :=
  { t := { t1 with workers := t1.workers.set i w' }, g := s.g }

theorem gstep_work (s : GState) (i pick : Nat) (w : Worker) (hw : s.t.workers[i]? = some w) :
    gstep s (.work i pick) = wnext s i (wstep s.t w pick).1 (wstep s.t w pick).2 := by
  simp [gstep, tstep, hw, wnext]

theorem getElem?_set_cases {ws : List Worker} {i j : Nat} {w' x : Worker} (h : (ws.set i w')[j]? = some x) :
    (j = i ∧ x = w' ∧ i < ws.length) ∨ (j ≠ i ∧ ws[j]? = some x) := by
  by_cases e : i = j
  · subst e
    by_cases hl : i < ws.length
    · rw [List.getElem?_set_self hl] at h; simp at h; exact .inl ⟨rfl, h.symm, hl⟩
    · rw [List.getElem?_eq_none (by simpa using hl)] at h; simp at h
  · rw [List.getElem?_set_ne e] at h; exact .inr ⟨fun e' => e e'.symm, h⟩

/-- **a step of worker `i` that leaves both stores, the flusher map and the queue as they are**
(as far as the invariant can see: blobs, map, queue, counters), may reset the dirty set of the
worker's own entry (only while in flight), and moves the worker from `w` to `w'` (same key, same
entry, still in flight iff it was). The caller supplies the new phase fact for the attached case. -/
theorem inv2_local_step {s : GState} (hi : Inv2 s) (i : Nat) (w w' : Worker) (t1 : TState)
    (hw : s.t.workers[i]? = some w)
    (hws : t1.workers = s.t.workers)
    (hmem : t1.mem.blobs = s.t.mem.blobs) (hdisk : t1.disk.blobs = s.t.disk.blobs)
    (hgood : GoodT t1)
    (hfm : t1.fmap = s.t.fmap) (hq : t1.queue = s.t.queue) (hn : t1.nextEnt = s.t.nextEnt)
    (hx : t1.diskEvicted = s.t.diskEvicted)
    (dnew : List Nat)
    (hents : (t1.ents = s.t.ents ∧ dnew = dirtyOf s.t w.ent) ∨
      (t1.ents = setDirty s.t.ents w.ent dnew ∧ w.pc ≠ .idle ∧ w.pc ≠ .next ∧ w.pc ≠ .unban))
    (hkey : w'.key = w.key) (hent : w'.ent = w.ent)
    (hfl : (w.pc ≠ .idle ∧ w.pc ≠ .next ∧ w.pc ≠ .unban) ↔ (w'.pc ≠ .idle ∧ w'.pc ≠ .next ∧ w'.pc ≠ .unban))
    (hfl2 : w'.pc ≠ .idle → w'.pc ≠ .next → w.pc ≠ .idle ∧ w.pc ≠ .next)
    (hph : ∀ (B : Bytes) (m : Blob), s.t.mem.blobs.get w.key = some m → fget s.t.fmap w.key = some w.ent →
      s.g.done w.key = some B → w.key ∉ s.t.diskEvicted →
      PhaseW w m (s.t.disk.blobs.get w.key) B (dirtyOf s.t w.ent) →
      PhaseW w' m (s.t.disk.blobs.get w.key) B dnew) :
    Inv2 (wnext s i t1 w') := by
  have hatt : ∀ k id, attached w' k id ↔ attached w k id := by
    intro k id
    unfold attached
    rw [hkey, hent]
    constructor
    · rintro ⟨a, b, c⟩; exact ⟨a, b, hfl.mpr c⟩
    · rintro ⟨a, b, c⟩; exact ⟨a, b, hfl.mp c⟩
  have hwl : i < s.t.workers.length := by
    rcases Nat.lt_or_ge i s.t.workers.length with h | h
    · exact h
    · rw [List.getElem?_eq_none h] at hw; simp at hw
  have hlook : ∀ id, id ≠ w.ent → lookupEnt t1.ents id = lookupEnt s.t.ents id := by
    intro id hne
    rcases hents with ⟨h, _⟩ | ⟨h, _⟩
    · rw [h]
    · rw [h, lookupEnt_setDirty]; simp [hne]
  have hlook_own : ∀ e, lookupEnt s.t.ents w.ent = some e →
      ∃ e', lookupEnt t1.ents w.ent = some e' ∧ e'.key = e.key ∧ e'.dataDirty = e.dataDirty ∧ e'.dirtyMD = dnew := by
    intro e he
    rcases hents with ⟨h, hd⟩ | ⟨h, _⟩
    · exact ⟨e, by rw [h]; exact he, rfl, rfl, by rw [hd]; simp [dirtyOf, he]⟩
    · rw [h, lookupEnt_setDirty]; simp [he]
  have hdirty_other : ∀ id, id ≠ w.ent → dirtyOf t1 id = dirtyOf s.t id := by
    intro id hne; simp [dirtyOf, hlook id hne]
  have hdirty_own : ∀ e, lookupEnt s.t.ents w.ent = some e → dirtyOf t1 w.ent = dnew := by
    intro e he
    obtain ⟨e', h1, _, _, h4⟩ := hlook_own e he
    simp [dirtyOf, h1, h4]
  -- an entry of another key is never the entry of a worker in flight
  have hid_ne : ∀ k id, k ≠ w.key → fget s.t.fmap k = some id → w.pc ≠ .idle → w.pc ≠ .next → id ≠ w.ent := by
    intro k id hk he h1 h2 e
    subst e
    obtain ⟨_, e1, he1, hk1⟩ := (hi.key k).fresh _ he
    obtain ⟨_, e2, he2, hk2⟩ := hi.went i w hw h1 h2
    rw [he1] at he2; simp at he2; subst he2
    exact hk (hk1.symm.trans hk2)
  -- attached workers of the new state correspond to attached workers of the old one, index by index
  have eW : (wnext s i t1 w').t.workers = s.t.workers.set i w' := by simp [wnext, hws]
  have back : ∀ (j : Nat) (x : Worker) (k : Key) (id : Nat), (wnext s i t1 w').t.workers[j]? = some x →
      attached x k id → (j = i ∧ x = w' ∧ attached w k id) ∨ (j ≠ i ∧ s.t.workers[j]? = some x) := by
    intro j x k id hx ha
    rw [eW] at hx
    rcases getElem?_set_cases hx with ⟨rfl, rfl, _⟩ | ⟨hne, h⟩
    · exact .inl ⟨rfl, rfl, (hatt k id).mp ha⟩
    · exact .inr ⟨hne, h⟩
  have back' : ∀ (j : Nat) (x : Worker) (k : Key) (id : Nat), (wnext s i t1 w').t.workers[j]? = some x →
      attached x k id → ∃ y, s.t.workers[j]? = some y ∧ attached y k id := by
    intro j x k id hx ha
    rcases back j x k id hx ha with ⟨rfl, rfl, h⟩ | ⟨_, h⟩
    · exact ⟨w, hw, h⟩
    · exact ⟨x, h, ha⟩
  have fwd : ∀ (j : Nat) (y : Worker) (k : Key) (id : Nat), s.t.workers[j]? = some y → attached y k id →
      ∃ x, (wnext s i t1 w').t.workers[j]? = some x ∧ attached x k id := by
    intro j y k id hy ha
    rw [eW]
    by_cases e : j = i
    · subst e
      rw [hw] at hy; simp at hy; subst hy
      exact ⟨w', by simp [List.getElem?_set_self hwl], (hatt k id).mpr ha⟩
    · exact ⟨y, by rw [List.getElem?_set_ne (fun e' => e e'.symm)]; exact hy, ha⟩
  refine { inv1 := ?_, key := ?_, det := ?_, went := ?_ }
  · exact inv1_of_same hi.inv1 hgood hmem hdisk hfm rfl
  · intro k
    have hk := hi.key k
    have eM : (wnext s i t1 w').t.mem.blobs.get k = s.t.mem.blobs.get k := by simp [wnext, hmem]
    have eD : (wnext s i t1 w').t.disk.blobs.get k = s.t.disk.blobs.get k := by simp [wnext, hdisk]
    have eE : fget (wnext s i t1 w').t.fmap k = fget s.t.fmap k := by simp [wnext, hfm]
    have eX : (wnext s i t1 w').t.diskEvicted = s.t.diskEvicted := by simp [wnext, hx]
    have eQ : (wnext s i t1 w').t.queue = s.t.queue := by simp [wnext, hq]
    have eN : (wnext s i t1 w').t.nextEnt = s.t.nextEnt := by simp [wnext, hn]
    refine { gl := hk.gl, fresh := ?_, nd_m := ?_, nd_d := ?_, cm := ?_, cd := ?_,
             inc_m := ?_, inc_d := ?_, done_m := ?_, done_d := ?_,
             phw := ?_, phq := ?_, entc := ?_, q0 := ?_, q1 := ?_ }
    · intro id he
      rw [eE] at he
      obtain ⟨h1, e, h2, h3⟩ := hk.fresh id he
      rw [eN]
      refine ⟨h1, ?_⟩
      show ∃ e, lookupEnt t1.ents id = some e ∧ e.key = k
      by_cases hid : id = w.ent
      · subst hid
        obtain ⟨e', a, b, _⟩ := hlook_own e h2
        exact ⟨e', a, b.trans h3⟩
      · exact ⟨e, by rw [hlook id hid]; exact h2, h3⟩
    · intro m hm; rw [eM] at hm; exact hk.nd_m m hm
    · intro d hd; rw [eD] at hd; exact hk.nd_d d hd
    · intro m hm; rw [eM] at hm; exact hk.cm m hm
    · intro d hd; rw [eD] at hd; exact hk.cd d hd
    · intro m hdn hm; rw [eM] at hm; rw [eD]; exact hk.inc_m m hdn hm
    · intro d hdn hm hd; rw [eM] at hm; rw [eD] at hd; exact hk.inc_d d hdn hm hd
    · intro B m hdn hxx hm; rw [eM] at hm; rw [eX] at hxx; exact hk.done_m B m hdn hxx hm
    · intro B hdn hxx hor; rw [eM, eE] at hor; rw [eX] at hxx; rw [eD]; exact hk.done_d B hdn hxx hor
    · intro B m id j x hdn hxx hm he hxw ha
      rw [eM] at hm; rw [eE] at he; rw [eX] at hxx; rw [eD]
      show PhaseW x m _ B (dirtyOf t1 id)
      rcases back j x k id hxw ha with ⟨rfl, rfl, ha'⟩ | ⟨hji, h⟩
      · -- the stepping worker
        have hk1 := ha'.1
        have hk2 := ha'.2.1
        subst hk1; subst hk2
        obtain ⟨_, e, he2, _⟩ := hk.fresh _ he
        have hold := hk.phw B m w.ent j w hdn hxx hm he hw ha'
        rw [hdirty_own e he2]
        exact hph B m hm he hdn hxx hold
      · -- another worker: its entry is not the stepping worker's
        have hold := hk.phw B m id j x hdn hxx hm he h ha
        rcases hents with ⟨h1, _⟩ | ⟨_, hfw⟩
        · simp only [dirtyOf, h1]; exact hold
        · by_cases hid : id = w.ent
          · subst hid
            by_cases hkk : w.key = k
            · have haw : attached w k w.ent := ⟨hkk, rfl, hfw⟩
              rcases hk.q1 _ he with ⟨_, hno⟩ | ⟨_, i0, w0, _, _, hu⟩
              · exact absurd haw (hno i w hw)
              · have e1 := hu i w hw haw
                have e2 := hu j x h ha
                exact absurd (e2.trans e1.symm) hji
            · exact absurd rfl (hid_ne k w.ent (fun e => hkk e.symm) he hfw.1 hfw.2.1)
          · rw [hdirty_other id hid]; exact hold
    · intro B m id e hdn hxx hm he hl hno
      rw [eM] at hm; rw [eE] at he; rw [eX] at hxx; rw [eD]
      have hl' : lookupEnt t1.ents id = some e := hl
      have hno' : ∀ (j : Nat) (y : Worker), s.t.workers[j]? = some y → ¬ attached y k id := by
        intro j y hy ha
        obtain ⟨x, hxw, hax⟩ := fwd j y k id hy ha
        exact hno j x hxw hax
      rcases hents with ⟨h1, _⟩ | ⟨_, hfw⟩
      · rw [h1] at hl'
        exact hk.phq B m id e hdn hxx hm he hl' hno'
      · by_cases hid : id = w.ent
        · subst hid
          by_cases hkk : w.key = k
          · exact absurd ⟨hkk, rfl, hfw⟩ (hno' i w hw)
          · exact absurd rfl (hid_ne k w.ent (fun e => hkk e.symm) he hfw.1 hfw.2.1)
        · rw [hlook id hid] at hl'
          exact hk.phq B m id e hdn hxx hm he hl' hno'
    · intro id m he hm; rw [eE] at he; rw [eM] at hm; exact hk.entc id m he hm
    · intro hl he; rw [eE] at he; rw [eQ]; exact hk.q0 hl he
    · intro id he
      rw [eE] at he
      rw [eQ]
      rcases hk.q1 id he with ⟨c1, hno⟩ | ⟨c0, j, y, hy, ha, hu⟩
      · left
        refine ⟨c1, ?_⟩
        intro j x hxw ha
        obtain ⟨y, hy, hay⟩ := back' j x k id hxw ha
        exact hno j y hy hay
      · right
        obtain ⟨x, hxw, hax⟩ := fwd j y k id hy ha
        refine ⟨c0, j, x, hxw, hax, ?_⟩
        intro j' x' hx' ha'
        obtain ⟨y', hy', hay'⟩ := back' j' x' k id hx' ha'
        exact hu j' y' hy' hay'
  · intro j x hx h1 h2 h3 hne
    have hne' : fget s.t.fmap x.key ≠ some x.ent := by
      intro h; apply hne; show fget t1.fmap x.key = some x.ent; rw [hfm]; exact h
    rw [eW] at hx
    rcases getElem?_set_cases hx with ⟨rfl, rfl, _⟩ | ⟨_, h⟩
    · rw [hkey, hent] at hne'
      have := hfl.mpr ⟨h1, h2, h3⟩
      have hd := hi.det j w hw this.1 this.2.1 this.2.2 hne'
      rw [← hkey] at hd
      exact hd
    · exact hi.det j x h h1 h2 h3 hne'
  · intro j x hx h1 h2
    rw [eW] at hx
    show x.ent < t1.nextEnt ∧ ∃ e, lookupEnt t1.ents x.ent = some e ∧ e.key = x.key
    rw [hn]
    have old : x.ent < s.t.nextEnt ∧ ∃ e, lookupEnt s.t.ents x.ent = some e ∧ e.key = x.key := by
      rcases getElem?_set_cases hx with ⟨rfl, rfl, _⟩ | ⟨_, h⟩
      · rw [hkey, hent]
        have := hfl2 h1 h2
        exact hi.went j w hw this.1 this.2
      · exact hi.went j x h h1 h2
    obtain ⟨o1, e, o2, o3⟩ := old
    refine ⟨o1, ?_⟩
    by_cases hid : x.ent = w.ent
    · rw [hid] at o2 ⊢
      obtain ⟨e', a, b, _⟩ := hlook_own e o2
      exact ⟨e', a, b.trans o3⟩
    · exact ⟨e, by rw [hlook _ hid]; exact o2, o3⟩

/-- a worker that is in flight (not yet at its unban) and does not hold the current entry of its key
    works on a key that is gone from both tiers -/
theorem detached_gone {s : GState} (hi : Inv2 s) {i : Nat} {w : Worker} (hw : s.t.workers[i]? = some w)
    (h1 : w.pc ≠ .idle) (h2 : w.pc ≠ .next) (h3 : w.pc ≠ .unban) (hne : fget s.t.fmap w.key ≠ some w.ent) :
    s.g.live w.key = false ∧ s.t.mem.blobs.get w.key = none ∧ s.t.disk.blobs.get w.key = none ∧
      fget s.t.fmap w.key = none := by
  have hl := hi.det i w hw h1 h2 h3 hne
  exact ⟨hl, hi.inv1.dead _ hl⟩

/-- the holder of an entry is unique -/
theorem attached_unique {s : GState} (hi : Inv2 s) {k : Key} {id i j : Nat} {w x : Worker}
    (he : fget s.t.fmap k = some id) (hw : s.t.workers[i]? = some w) (ha : attached w k id)
    (hx : s.t.workers[j]? = some x) (hax : attached x k id) : j = i := by
  rcases (hi.key k).q1 id he with ⟨_, hno⟩ | ⟨_, i0, w0, _, _, hu⟩
  · exact absurd ha (hno i w hw)
  · exact (hu j x hx hax).trans (hu i w hw ha).symm

/-- key facts of a key that is gone from both tiers and from the flusher -/
theorem kinv_gone {s s' : GState} {k : Key} (hk : KInv s k) (hl : s.g.live k = false)
    (hg : s'.g = s.g) (hM : s'.t.mem.blobs.get k = none) (hD : s'.t.disk.blobs.get k = none)
    (hE : fget s'.t.fmap k = none) : KInv s' k := by
  refine { gl := ?_, fresh := ?_, nd_m := ?_, nd_d := ?_, cm := ?_, cd := ?_,
           inc_m := ?_, inc_d := ?_, done_m := ?_, done_d := ?_,
           phw := ?_, phq := ?_, entc := ?_, q0 := ?_, q1 := ?_ }
  · rw [hg]; exact hk.gl
  · intro id he; rw [hE] at he; simp at he
  · intro m hm; rw [hM] at hm; simp at hm
  · intro d hd; rw [hD] at hd; simp at hd
  · intro m hm; rw [hM] at hm; simp at hm
  · intro d hd; rw [hD] at hd; simp at hd
  · intro m _ hm; rw [hM] at hm; simp at hm
  · intro d _ _ hd; rw [hD] at hd; simp at hd
  · intro B m _ _ hm; rw [hM] at hm; simp at hm
  · intro B hdn _ _
    rw [hg] at hdn
    have := hk.gl (by rw [hdn]; rfl)
    rw [hl] at this; simp at this
  · intro B m id j x _ _ hm; rw [hM] at hm; simp at hm
  · intro B m id e _ _ hm; rw [hM] at hm; simp at hm
  · intro id m he; rw [hE] at he; simp at he
  · intro hl'; rw [hg, hl] at hl'; simp at hl'
  · intro id he; rw [hE] at he; simp at he

/-- frame facts of a worker step that replaces worker `i` (key `k0` before and after), changes the
    disk (other keys untouched or evicted into `X'`) and leaves memory, the flusher map, the entry
    heap, the queue and the ghost alone -/
theorem frame_worker_disk {s : GState} (i : Nat) (w w' : Worker) (d1 : State) (X' : List Key)
    (hw : s.t.workers[i]? = some w)
    (hdisk : ∀ k, k ≠ w.key → d1.blobs.get k = s.t.disk.blobs.get k ∨ (d1.blobs.get k = none ∧ k ∈ X'))
    (hX : ∀ k, k ∉ X' → k ∉ s.t.diskEvicted) (hkey : w'.key = w.key) :
    Frame s (wnext s i { s.t with disk := d1, diskEvicted := X' } w') w.key :=
  { mem := onlyKey_refl _ _
    disk := hdisk
    x := fun k _ h => hX k h
    fmap := fun _ _ => rfl
    next := Nat.le_refl _
    ents := fun _ _ _ _ => rfl
    ghost := fun _ _ => ⟨rfl, rfl, rfl, rfl⟩
    queue := fun _ _ => .inl rfl
    workers := fun k id j x hk _ ha =>
      workers_frame hw (fun k id hk => not_attached_of_key rfl k id hk)
        (fun k id hk => not_attached_of_key hkey k id hk) k id j x hk ha }

theorem touch_other {d d1 : State} {k0 : Key} (ht : Touch d d1 k0) (k : Key) (hk : k ≠ k0) :
    d1.blobs.get k = d.blobs.get k := by
  rcases ht with h | ⟨b', h⟩ | h
  · rw [h]
  · rw [h, BMap.get_set_ne _ _ hk]
  · rw [h, BMap.get_del_ne _ hk]

/-- **a step of worker `i` that changes the disk** — the entry of its own key (creation, positional
write, `MarkComplete`, metadata write or delete, `Delete`) and possibly evictions of other keys into
`diskEvicted` — everything else as it was, `w ↦ w'` with the same key and entry, both in flight. The
caller shows that an absent entry of a dead key stays absent, that suffixes stay unique, and the new
phase fact for the attached case. -/
theorem inv2_disk_step' {s : GState} (hi : Inv2 s) (i : Nat) (w w' : Worker) (d1 : State) (X' : List Key)
    (hw : s.t.workers[i]? = some w)
    (hi1 : Inv1 (wnext s i { s.t with disk := d1, diskEvicted := X' } w'))
    (hdisk : ∀ k, k ≠ w.key → d1.blobs.get k = s.t.disk.blobs.get k ∨ (d1.blobs.get k = none ∧ k ∈ X'))
    (hX : ∀ k, k ∉ X' → k ∉ s.t.diskEvicted)
    (hnone : s.g.live w.key = false → d1.blobs.get w.key = none)
    (hnd : ∀ d, d1.blobs.get w.key = some d → SfxNodup d)
    (hkey : w'.key = w.key) (hent : w'.ent = w.ent)
    (hfw : w.pc ≠ .idle ∧ w.pc ≠ .next ∧ w.pc ≠ .unban) (hfw' : w'.pc ≠ .idle ∧ w'.pc ≠ .next ∧ w'.pc ≠ .unban)
    (hph : ∀ (B : Bytes) (m : Blob), s.t.mem.blobs.get w.key = some m → fget s.t.fmap w.key = some w.ent →
      s.g.done w.key = some B → w.key ∉ X' →
      PhaseW w m (s.t.disk.blobs.get w.key) B (dirtyOf s.t w.ent) →
      PhaseW w' m (d1.blobs.get w.key) B (dirtyOf s.t w.ent)) :
    Inv2 (wnext s i { s.t with disk := d1, diskEvicted := X' } w') := by
  have hwl : i < s.t.workers.length := by
    rcases Nat.lt_or_ge i s.t.workers.length with h | h
    · exact h
    · rw [List.getElem?_eq_none h] at hw; simp at hw
  have eW : (wnext s i { s.t with disk := d1, diskEvicted := X' } w').t.workers = s.t.workers.set i w' := rfl
  have hdetw : ∀ (j : Nat) (x : Worker), (wnext s i { s.t with disk := d1, diskEvicted := X' } w').t.workers[j]? = some x →
      x.pc ≠ .idle → x.pc ≠ .next → x.pc ≠ .unban → fget s.t.fmap x.key ≠ some x.ent → s.g.live x.key = false := by
    intro j x hx h1 h2 h3 hne
    rw [eW] at hx
    rcases getElem?_set_cases hx with ⟨rfl, rfl, _⟩ | ⟨_, h⟩
    · rw [hkey, hent] at hne
      rw [hkey]
      exact hi.det j w hw hfw.1 hfw.2.1 hfw.2.2 hne
    · exact hi.det j x h h1 h2 h3 hne
  have hwentw : ∀ (j : Nat) (x : Worker), (wnext s i { s.t with disk := d1, diskEvicted := X' } w').t.workers[j]? = some x →
      x.pc ≠ .idle → x.pc ≠ .next →
      x.ent < s.t.nextEnt ∧ ∃ e, lookupEnt s.t.ents x.ent = some e ∧ e.key = x.key := by
    intro j x hx h1 h2
    rw [eW] at hx
    rcases getElem?_set_cases hx with ⟨rfl, rfl, _⟩ | ⟨_, h⟩
    · rw [hkey, hent]; exact hi.went j w hw hfw.1 hfw.2.1
    · exact hi.went j x h h1 h2
  refine inv2_of_active hi hi1 w.key (frame_worker_disk i w w' d1 X' hw hdisk hX hkey) ?_ hdetw hwentw
  have hk := hi.key w.key
  by_cases hatt : fget s.t.fmap w.key = some w.ent
  · -- the worker holds the current entry of its key: the key is complete in memory
    obtain ⟨m, hm, _⟩ := hi.inv1.ent _ _ hatt
    have hmc := hk.entc _ m hatt hm
    have hdone := (hk.cm m hm).mp hmc
    have haw : attached w w.key w.ent := ⟨rfl, rfl, hfw⟩
    have haw' : attached w' w.key w.ent := ⟨hkey, hent, hfw'⟩
    have hget' : (wnext s i { s.t with disk := d1, diskEvicted := X' } w').t.workers[i]? = some w' := by
      rw [eW]; simp [List.getElem?_set_self hwl]
    have hback : ∀ (j : Nat) (x : Worker), (wnext s i { s.t with disk := d1, diskEvicted := X' } w').t.workers[j]? = some x →
        attached x w.key w.ent → j = i := by
      intro j x hx ha
      rw [eW] at hx
      rcases getElem?_set_cases hx with ⟨rfl, _, _⟩ | ⟨_, h⟩
      · rfl
      · exact attached_unique hi hatt hw haw h ha
    refine { gl := hk.gl, fresh := hk.fresh, nd_m := hk.nd_m, nd_d := hnd, cm := hk.cm, cd := ?_,
             inc_m := ?_, inc_d := ?_, done_m := ?_, done_d := ?_,
             phw := ?_, phq := ?_, entc := hk.entc, q0 := hk.q0, q1 := ?_ }
    · intro _ _ _; exact hdone
    · intro m' hdn _; have hdn' : s.g.done w.key = none := hdn; rw [hdn'] at hdone; simp at hdone
    · intro d hdn _ _; have hdn' : s.g.done w.key = none := hdn; rw [hdn'] at hdone; simp at hdone
    · intro B m' hdn hxx hm'; exact hk.done_m B m' hdn (hX _ hxx) hm'
    · intro B _ _ hor
      rcases hor with h | h
      · have h' : s.t.mem.blobs.get w.key = none := h
        rw [hm] at h'; simp at h'
      · have h' : fget s.t.fmap w.key = none := h
        rw [hatt] at h'; simp at h'
    · intro B m' id j x hdn hxx hm' he hx ha
      have hm'' : s.t.mem.blobs.get w.key = some m' := hm'
      rw [hm] at hm''; simp at hm''; subst hm''
      have he' : fget s.t.fmap w.key = some id := he
      rw [hatt] at he'; simp at he'; subst he'
      have := hback j x hx ha
      subst this
      rw [hget'] at hx; simp at hx; subst hx
      exact hph B m hm hatt hdn hxx (hk.phw B m w.ent j w hdn (hX _ hxx) hm hatt hw haw)
    · intro B m' id e hdn hxx hm' he hl hno
      have he' : fget s.t.fmap w.key = some id := he
      rw [hatt] at he'; simp at he'; subst he'
      exact absurd haw' (hno i w' hget')
    · intro id he
      have he' : fget s.t.fmap w.key = some id := he
      rw [hatt] at he'; simp at he'; subst he'
      rcases hk.q1 _ hatt with ⟨_, hno⟩ | ⟨c0, _⟩
      · exact absurd haw (hno i w hw)
      · exact .inr ⟨c0, i, w', hget', haw', fun j x hx ha => hback j x hx ha⟩
  · -- the worker lost its entry: its key is gone from both tiers and stays so
    obtain ⟨hl, hM, hD, hE⟩ := detached_gone hi hw hfw.1 hfw.2.1 hfw.2.2 hatt
    exact kinv_gone hk hl rfl hM (hnone hl) hE

/-- the same for a step that touches the disk entry of the worker's key only -/
theorem inv2_disk_step {s : GState} (hi : Inv2 s) (i : Nat) (w w' : Worker) (d1 : State)
    (hw : s.t.workers[i]? = some w) (hgd : Good d1) (htouch : Touch s.t.disk d1 w.key)
    (hnone : s.t.disk.blobs.get w.key = none → d1.blobs.get w.key = none)
    (hnd : ∀ d, d1.blobs.get w.key = some d → SfxNodup d)
    (hkey : w'.key = w.key) (hent : w'.ent = w.ent)
    (hfw : w.pc ≠ .idle ∧ w.pc ≠ .next ∧ w.pc ≠ .unban) (hfw' : w'.pc ≠ .idle ∧ w'.pc ≠ .next ∧ w'.pc ≠ .unban)
    (hph : ∀ (B : Bytes) (m : Blob), s.t.mem.blobs.get w.key = some m → fget s.t.fmap w.key = some w.ent →
      s.g.done w.key = some B → w.key ∉ s.t.diskEvicted →
      PhaseW w m (s.t.disk.blobs.get w.key) B (dirtyOf s.t w.ent) →
      PhaseW w' m (d1.blobs.get w.key) B (dirtyOf s.t w.ent)) :
    Inv2 (wnext s i { s.t with disk := d1 } w') := by
  have hi1 : Inv1 (wnext s i { s.t with disk := d1, diskEvicted := s.t.diskEvicted } w') := by
    have h0 : Inv1 { t := { s.t with disk := d1 }, g := s.g } :=
      inv1_disk_step hi.inv1 _ w.key rfl rfl hgd (onlyKey_of_touch htouch)
        (fun hl => hnone (hi.inv1.dead _ hl).2.1)
    exact inv1_same_t h0 _ rfl rfl rfl
  exact inv2_disk_step' hi i w w' d1 s.t.diskEvicted hw hi1
    (fun k hk => .inl (touch_other htouch k hk)) (fun _ h => h)
    (fun hl => hnone (hi.inv1.dead _ hl).2.1) hnd
    hkey hent hfw hfw' hph

/-- **the worker drops the entry of its key from the flusher map and goes to its unban**
(`mdCheck` with nothing dirty left, or the second half of `handleFlushFailure`) -/
theorem inv2_fdel_step {s : GState} (hi : Inv2 s) (i : Nat) (w w' : Worker)
    (hw : s.t.workers[i]? = some w) (hkey : w'.key = w.key) (hent : w'.ent = w.ent) (hpc : w'.pc = .unban)
    (hfw : w.pc ≠ .idle ∧ w.pc ≠ .next ∧ w.pc ≠ .unban)
    (hflush : ∀ (B : Bytes) (m : Blob), s.t.mem.blobs.get w.key = some m → fget s.t.fmap w.key = some w.ent →
      s.g.done w.key = some B → w.key ∉ s.t.diskEvicted →
      PhaseW w m (s.t.disk.blobs.get w.key) B (dirtyOf s.t w.ent) →
      ∃ d, s.t.disk.blobs.get w.key = some d ∧ d.complete = true ∧ d.data = B ∧
        ∀ sfx, mdGet d.mds sfx = mdGet m.mds sfx) :
    Inv2 (wnext s i { s.t with fmap := fdel s.t.fmap w.key } w') := by
  have hwl : i < s.t.workers.length := by
    rcases Nat.lt_or_ge i s.t.workers.length with h | h
    · exact h
    · rw [List.getElem?_eq_none h] at hw; simp at hw
  have eW : (wnext s i { s.t with fmap := fdel s.t.fmap w.key } w').t.workers = s.t.workers.set i w' := rfl
  have hi1 : Inv1 (wnext s i { s.t with fmap := fdel s.t.fmap w.key } w') :=
    inv1_same_t (inv1_fdel hi.inv1 { s.t with fmap := fdel s.t.fmap w.key } w.key rfl rfl rfl) _ rfl rfl rfl
  have hk := hi.key w.key
  have haw : attached w w.key w.ent := ⟨rfl, rfl, hfw⟩
  have hfr : Frame s (wnext s i { s.t with fmap := fdel s.t.fmap w.key } w') w.key :=
    { mem := onlyKey_refl _ _
      disk := fun _ _ => .inl rfl
      x := fun _ _ h => h
      fmap := fun k hk => by show fget (fdel s.t.fmap w.key) k = _; rw [fget_fdel_ne _ hk]
      next := Nat.le_refl _
      ents := fun _ _ _ _ => rfl
      ghost := fun _ _ => ⟨rfl, rfl, rfl, rfl⟩
      queue := fun _ _ => .inl rfl
      workers := fun k id j x hk _ ha =>
        workers_frame hw (fun k id hk => not_attached_of_key rfl k id hk)
          (fun k id hk => not_attached_of_key hkey k id hk) k id j x hk ha }
  refine inv2_of_active hi hi1 w.key hfr ?_ ?_ ?_
  · -- the key of the worker
    by_cases hatt : fget s.t.fmap w.key = some w.ent
    · have hE' : fget (wnext s i { s.t with fmap := fdel s.t.fmap w.key } w').t.fmap w.key = none := by
        show fget (fdel s.t.fmap w.key) w.key = none; simp
      refine { gl := hk.gl, fresh := ?_, nd_m := hk.nd_m, nd_d := hk.nd_d, cm := hk.cm, cd := hk.cd,
               inc_m := hk.inc_m, inc_d := hk.inc_d, done_m := hk.done_m, done_d := ?_,
               phw := ?_, phq := ?_, entc := ?_, q0 := ?_, q1 := ?_ }
      · intro id he; rw [hE'] at he; simp at he
      · intro B hdn hxx _
        cases hM : s.t.mem.blobs.get w.key with
        | none => exact hk.done_d B hdn hxx (.inl hM)
        | some m =>
          have hph := hk.phw B m w.ent i w hdn hxx hM hatt hw haw
          obtain ⟨d, hd, hc, hdat, hmd⟩ := hflush B m hM hatt hdn hxx hph
          obtain ⟨_, hag⟩ := hk.done_m B m hdn hxx hM
          exact ⟨d, hd, hc, hdat, fun sfx => (hmd sfx).trans (hag sfx)⟩
      · intro B m id j x _ _ _ he; rw [hE'] at he; simp at he
      · intro B m id e _ _ _ he; rw [hE'] at he; simp at he
      · intro id m he; rw [hE'] at he; simp at he
      · intro _ _
        rcases hk.q1 _ hatt with ⟨_, hno⟩ | ⟨c0, _⟩
        · exact absurd haw (hno i w hw)
        · exact List.count_eq_zero.mp c0
      · intro id he; rw [hE'] at he; simp at he
    · obtain ⟨hl, hM, hD, hE⟩ := detached_gone hi hw hfw.1 hfw.2.1 hfw.2.2 hatt
      exact kinv_gone hk hl rfl hM hD (by show fget (fdel s.t.fmap w.key) w.key = none; simp)
  · intro j x hx h1 h2 h3 hne
    rw [eW] at hx
    rcases getElem?_set_cases hx with ⟨rfl, rfl, _⟩ | ⟨hji, h⟩
    · exact absurd hpc h3
    · by_cases hkx : x.key = w.key
      · -- the same key: `x` cannot have held the entry that was just dropped
        have hne' : fget s.t.fmap x.key ≠ some x.ent := by
          intro he
          rw [hkx] at he
          have hax : attached x w.key x.ent := ⟨hkx, rfl, h1, h2, h3⟩
          by_cases hatt : fget s.t.fmap w.key = some w.ent
          · rw [hatt] at he; simp at he
            rw [← he] at hax
            exact hji (attached_unique hi hatt hw haw h hax)
          · obtain ⟨_, _, _, hE⟩ := detached_gone hi hw hfw.1 hfw.2.1 hfw.2.2 hatt
            rw [hE] at he; simp at he
        exact hi.det j x h h1 h2 h3 hne'
      · have hne' : fget s.t.fmap x.key ≠ some x.ent := by
          intro he; apply hne
          show fget (fdel s.t.fmap w.key) x.key = some x.ent
          rw [fget_fdel_ne _ hkx]; exact he
        exact hi.det j x h h1 h2 h3 hne'
  · intro j x hx h1 h2
    rw [eW] at hx
    rcases getElem?_set_cases hx with ⟨rfl, rfl, _⟩ | ⟨_, h⟩
    · rw [hkey, hent]; exact hi.went j w hw hfw.1 hfw.2.1
    · exact hi.went j x h h1 h2

/-- the invariant never looks at the `banned` flag of a memory entry: a transition that changes only
    that (and nothing else the invariant about `k` can see) preserves `KInv` for `k` -/
theorem kinv_flag {s s' : GState} {k : Key} (hk : KInv s k) (f : Blob → Blob)
    (hf : ∀ b, (f b).data = b.data ∧ (f b).mds = b.mds ∧ (f b).complete = b.complete ∧ (f b).inc = b.inc)
    (hM : s'.t.mem.blobs.get k = (s.t.mem.blobs.get k).map f)
    (hD : s'.t.disk.blobs.get k = s.t.disk.blobs.get k) (hX : s'.t.diskEvicted = s.t.diskEvicted)
    (hE : fget s'.t.fmap k = fget s.t.fmap k) (hN : s'.t.nextEnt = s.t.nextEnt) (hEn : s'.t.ents = s.t.ents)
    (hg : s'.g = s.g) (hQ : s'.t.queue = s.t.queue)
    (hW : ∀ (id i : Nat) (w : Worker), fget s.t.fmap k = some id → attached w k id →
      (s'.t.workers[i]? = some w ↔ s.t.workers[i]? = some w))
    (hP : ∀ (w : Worker) (b : Blob) (d : Option Blob) (B : Bytes) (dirty : List Nat),
      PhaseW w b d B dirty → PhaseW w (f b) d B dirty)
    (hPQ : ∀ (e : FEntry) (b : Blob) (d : Option Blob) (B : Bytes), PhaseQ e b d B → PhaseQ e (f b) d B) :
    KInv s' k := by
  have back : ∀ m', s'.t.mem.blobs.get k = some m' → ∃ m, s.t.mem.blobs.get k = some m ∧ m' = f m := by
    intro m' h
    rw [hM] at h
    cases hm : s.t.mem.blobs.get k with
    | none => rw [hm] at h; simp at h
    | some m => rw [hm] at h; simp at h; exact ⟨m, rfl, h.symm⟩
  refine { gl := ?_, fresh := ?_, nd_m := ?_, nd_d := ?_, cm := ?_, cd := ?_,
           inc_m := ?_, inc_d := ?_, done_m := ?_, done_d := ?_,
           phw := ?_, phq := ?_, entc := ?_, q0 := ?_, q1 := ?_ }
  · rw [hg]; exact hk.gl
  · intro id he; rw [hE] at he; rw [hN, hEn]; exact hk.fresh id he
  · intro m' hm'
    obtain ⟨m, hm, rfl⟩ := back m' hm'
    have := hk.nd_m m hm
    unfold SfxNodup at this ⊢
    rw [(hf m).2.1]; exact this
  · intro d hd; rw [hD] at hd; exact hk.nd_d d hd
  · intro m' hm'
    obtain ⟨m, hm, rfl⟩ := back m' hm'
    rw [hg, (hf m).2.2.1]; exact hk.cm m hm
  · intro d hd; rw [hD] at hd; rw [hg]; exact hk.cd d hd
  · intro m' hdn hm'
    obtain ⟨m, hm, rfl⟩ := back m' hm'
    rw [hg] at hdn ⊢
    rw [(hf m).1, (hf m).2.1, hD]; exact hk.inc_m m hdn hm
  · intro d hdn hm' hd
    rw [hg] at hdn ⊢
    rw [hD] at hd
    have hm : s.t.mem.blobs.get k = none := by
      rw [hM] at hm'; cases h : s.t.mem.blobs.get k with
      | none => rfl
      | some m => rw [h] at hm'; simp at hm'
    exact hk.inc_d d hdn hm hd
  · intro B m' hdn hxx hm'
    obtain ⟨m, hm, rfl⟩ := back m' hm'
    rw [hg] at hdn ⊢
    rw [hX] at hxx
    rw [(hf m).1, (hf m).2.1]; exact hk.done_m B m hdn hxx hm
  · intro B hdn hxx hor
    rw [hg] at hdn ⊢
    rw [hX] at hxx
    rw [hE] at hor
    rw [hD]
    refine hk.done_d B hdn hxx ?_
    rcases hor with h | h
    · left
      rw [hM] at h; cases h' : s.t.mem.blobs.get k with
      | none => rfl
      | some m => rw [h'] at h; simp at h
    · exact .inr h
  · intro B m' id i w hdn hxx hm' he hw ha
    obtain ⟨m, hm, rfl⟩ := back m' hm'
    rw [hg] at hdn; rw [hX] at hxx; rw [hE] at he
    rw [hD]
    have hd : dirtyOf s'.t id = dirtyOf s.t id := by simp [dirtyOf, hEn]
    rw [hd]
    exact hP _ _ _ _ _ (hk.phw B m id i w hdn hxx hm he ((hW id i w he ha).mp hw) ha)
  · intro B m' id e hdn hxx hm' he hl hno
    obtain ⟨m, hm, rfl⟩ := back m' hm'
    rw [hg] at hdn; rw [hX] at hxx; rw [hE] at he; rw [hEn] at hl
    rw [hD]
    refine hPQ _ _ _ _ (hk.phq B m id e hdn hxx hm he hl ?_)
    intro i w hw ha
    exact hno i w ((hW id i w he ha).mpr hw) ha
  · intro id m' he hm'
    obtain ⟨m, hm, rfl⟩ := back m' hm'
    rw [hE] at he
    rw [(hf m).2.2.1]; exact hk.entc id m he hm
  · intro hl he; rw [hg] at hl; rw [hE] at he; rw [hQ]; exact hk.q0 hl he
  · intro id he
    rw [hE] at he; rw [hQ]
    rcases hk.q1 id he with ⟨c1, hno⟩ | ⟨c0, i, w, hw, ha, hu⟩
    · exact .inl ⟨c1, fun i w hw ha => hno i w ((hW id i w he ha).mp hw) ha⟩
    · exact .inr ⟨c0, i, w, (hW id i w he ha).mpr hw, ha,
        fun j w' hw' ha' => hu j w' ((hW id j w' he ha').mp hw') ha'⟩

theorem phaseW_flag (x : Bool) (w : Worker) (b : Blob) (d : Option Blob) (B : Bytes) (dirty : List Nat)
    (h : PhaseW w b d B dirty) : PhaseW w { b with banned := x } d B dirty := by
  unfold PhaseW at h ⊢
  split <;> simp_all

theorem phaseQ_flag (x : Bool) (e : FEntry) (b : Blob) (d : Option Blob) (B : Bytes)
    (h : PhaseQ e b d B) : PhaseQ e { b with banned := x } d B := by
  unfold PhaseQ at h ⊢
  split <;> simp_all

/-- **the deferred unban** (only while the key has no flusher entry), then back to `nextToFlush` -/
theorem inv2_unban_step {s : GState} (hi : Inv2 s) (i : Nat) (w : Worker) (pick : Nat)
    (hw : s.t.workers[i]? = some w) (hpc : w.pc = .unban) :
    Inv2 (wnext s i (wstep s.t w pick).1 (wstep s.t w pick).2) := by
  have hwl : i < s.t.workers.length := by
    rcases Nat.lt_or_ge i s.t.workers.length with h | h
    · exact h
    · rw [List.getElem?_eq_none h] at hw; simp at hw
  unfold wstep
  simp only [hpc]
  cases hE : fget s.t.fmap w.key with
  | some id =>
    -- a new dirty entry exists: the unban is skipped
    simp only
    exact inv2_local_step hi i w { w with pc := .next } s.t hw rfl rfl rfl hi.inv1.good rfl rfl rfl rfl
      (dirtyOf s.t w.ent) (.inl ⟨rfl, rfl⟩) rfl rfl
      (by simp [hpc]) (by simp) (by intro B m _ _ _ _ h; simp [PhaseW, hpc] at h)
  | none =>
    simp only
    have hgm := hi.inv1.good.1
    have hi1 : Inv1 (wnext s i { s.t with mem := (unban s.t.mem w.key .any).1 } { w with pc := .next }) := by
      have := inv1_wstep hi.inv1 w 0
      unfold wstep at this
      simp only [hpc, hE] at this
      exact inv1_same_t this _ rfl rfl rfl
    have eW : (wnext s i { s.t with mem := (unban s.t.mem w.key .any).1 } { w with pc := .next }).t.workers =
        s.t.workers.set i { w with pc := .next } := rfl
    have hWf : ∀ (k : Key) (id j : Nat) (x : Worker), attached x k id →
        ((s.t.workers.set i { w with pc := .next })[j]? = some x ↔ s.t.workers[j]? = some x) := by
      intro k id j x ha
      by_cases e : i = j
      · subst e
        rw [List.getElem?_set_self hwl, hw]
        constructor
        · intro h; simp at h; subst h; exact absurd ha (not_attached_of_pc (.inr (.inl rfl)) k id)
        · intro h; simp at h; subst h; exact absurd ha (not_attached_of_pc (.inr (.inr hpc)) k id)
      · rw [List.getElem?_set_ne e]
    refine { inv1 := hi1, key := ?_, det := ?_, went := ?_ }
    · intro k
      by_cases hk0 : k = w.key
      · subst hk0
        refine kinv_flag (hi.key w.key) (fun b => { b with banned := false })
          (fun b => ⟨rfl, rfl, rfl, rfl⟩) ?_ rfl rfl rfl rfl rfl rfl rfl
          (fun id j x _ ha => hWf _ id j x ha) (fun w b d B dirty h => phaseW_flag false w b d B dirty h)
          (fun e b d B h => phaseQ_flag false e b d B h)
        show (unban s.t.mem w.key .any).1.blobs.get w.key = _
        rw [unban_get_self]; simp [inScope]
      · refine kinv_frame (hi.key k) hi.inv1 (.inl ?_) (.inl rfl) (fun h => h) rfl (Nat.le_refl _)
          (fun _ _ => rfl) ⟨rfl, rfl, rfl, rfl⟩ (.inl rfl) (fun id j x _ ha => hWf k id j x ha)
        show (unban s.t.mem w.key .any).1.blobs.get k = _
        rcases onlyKey_of_touch (touch_unban s.t.mem w.key .any) k hk0 with h | ⟨h, b, hb, _⟩
        · exact h
        · rcases touch_unban s.t.mem w.key .any with h' | ⟨b', h'⟩ | h'
          · rw [h']
          · rw [h', BMap.get_set_ne _ _ hk0]
          · rw [h', BMap.get_del_ne _ hk0]
    · intro j x hx h1 h2 h3 hne
      rw [eW] at hx
      rcases getElem?_set_cases hx with ⟨rfl, rfl, _⟩ | ⟨_, h⟩
      · exact absurd rfl h2
      · exact hi.det j x h h1 h2 h3 hne
    · intro j x hx h1 h2
      rw [eW] at hx
      rcases getElem?_set_cases hx with ⟨rfl, rfl, _⟩ | ⟨_, h⟩
      · exact absurd rfl h2
      · exact hi.went j x h h1 h2

/-! ### `nextToFlush` -/

theorem popQueue_spec (fmap : List (Key × Nat)) : ∀ (q : List Key),
    match popQueue fmap q with
    | (none, q') => q' = [] ∧ ∀ k ∈ q, fget fmap k = none
    | (some (k, id), q') => ∃ pre, q = pre ++ k :: q' ∧ (∀ k' ∈ pre, fget fmap k' = none) ∧ fget fmap k = some id := by
  intro q
  induction q with
  | nil => simp [popQueue]
  | cons k q ih =>
    simp only [popQueue]
    cases hk : fget fmap k with
    | some id => exact ⟨[], by simp, by simp, hk⟩
    | none =>
      simp only
      generalize hp : popQueue fmap q = r at ih
      obtain ⟨res, q'⟩ := r
      cases res with
      | none =>
        obtain ⟨h1, h2⟩ := ih
        exact ⟨h1, fun k' hk' => by
          rcases List.mem_cons.mp hk' with e | e
          · subst e; exact hk
          · exact h2 k' e⟩
      | some p =>
        obtain ⟨k1, id1⟩ := p
        obtain ⟨pre, h1, h2, h3⟩ := ih
        refine ⟨k :: pre, by simp [h1], ?_, h3⟩
        intro k' hk'
        rcases List.mem_cons.mp hk' with e | e
        · subst e; exact hk
        · exact h2 k' e

/-- **`nextToFlush`**: the worker drops the stale keys at the head of the queue and takes the first
key that still has an entry (or goes back in front of its `select`) -/
theorem inv2_next_step {s : GState} (hi : Inv2 s) (i : Nat) (w : Worker) (pick : Nat)
    (hw : s.t.workers[i]? = some w) (hpc : w.pc = .next) :
    Inv2 (wnext s i (wstep s.t w pick).1 (wstep s.t w pick).2) := by
  have hwl : i < s.t.workers.length := by
    rcases Nat.lt_or_ge i s.t.workers.length with h | h
    · exact h
    · rw [List.getElem?_eq_none h] at hw; simp at hw
  have hnaw : ∀ k id, ¬ attached w k id := fun k id => not_attached_of_pc (.inr (.inl hpc)) k id
  -- the count of a key whose entry is not at stake does not change (or the key is gone)
  have hcount : ∀ (pre q' : List Key) (k0 : Key), s.t.queue = pre ++ k0 :: q' ∨ (s.t.queue = pre ∧ q' = []) →
      (∀ k' ∈ pre, fget s.t.fmap k' = none) → ∀ k, k ≠ k0 →
      q'.count k = s.t.queue.count k ∨
        (fget s.t.fmap k = none ∧ s.g.live k = false ∧ q'.count k ≤ s.t.queue.count k) := by
    intro pre q' k0 hq hpre k hk
    have hle : q'.count k ≤ s.t.queue.count k := by
      rcases hq with h | ⟨h, h'⟩
      · rw [h, List.count_append, List.count_cons_of_ne (Ne.symm hk)]; omega
      · rw [h']; simp
    cases hE : fget s.t.fmap k with
    | some id =>
      left
      have hnp : k ∉ pre := fun hm => by have := hpre k hm; rw [hE] at this; simp at this
      rcases hq with h | ⟨h, h'⟩
      · rw [h, List.count_append, List.count_cons_of_ne (Ne.symm hk), List.count_eq_zero.mpr hnp]
        simp
      · rw [h] ; rw [List.count_eq_zero.mpr hnp, h']; simp
    | none =>
      cases hl : s.g.live k
      · exact .inr ⟨rfl, rfl, hle⟩
      · left
        have := (hi.key k).q0 hl hE
        rw [List.count_eq_zero.mpr this]
        have : q'.count k ≤ 0 := by rw [← List.count_eq_zero.mpr this]; exact hle
        omega
  unfold wstep
  simp only [hpc]
  have hspec := popQueue_spec s.t.fmap s.t.queue
  generalize hp : popQueue s.t.fmap s.t.queue = r at hspec
  obtain ⟨res, q'⟩ := r
  cases res with
  | none =>
    obtain ⟨hq', hall⟩ := hspec
    simp only
    -- nothing to flush: back to idle; every key of the old queue was stale
    have eW : (wnext s i { s.t with queue := q' } { w with pc := .idle }).t.workers =
        s.t.workers.set i { w with pc := .idle } := rfl
    have hWf : ∀ (k : Key) (id j : Nat) (x : Worker), attached x k id →
        ((s.t.workers.set i { w with pc := .idle })[j]? = some x ↔ s.t.workers[j]? = some x) := by
      intro k id j x ha
      by_cases e : i = j
      · subst e
        rw [List.getElem?_set_self hwl, hw]
        constructor
        · intro h; simp at h; subst h; exact absurd ha (not_attached_of_pc (.inl rfl) k id)
        · intro h; simp at h; subst h; exact absurd ha (hnaw k id)
      · rw [List.getElem?_set_ne e]
    refine { inv1 := inv1_same_t hi.inv1 _ rfl rfl rfl, key := ?_, det := ?_, went := ?_ }
    · intro k
      refine kinv_frame (hi.key k) hi.inv1 (.inl rfl) (.inl rfl) (fun h => h) rfl (Nat.le_refl _)
        (fun _ _ => rfl) ⟨rfl, rfl, rfl, rfl⟩ ?_ (fun id j x _ ha => hWf k id j x ha)
      show q'.count k = _ ∨ _
      by_cases hm : k ∈ s.t.queue
      · have hE := hall k hm
        cases hl : s.g.live k
        · exact .inr ⟨hE, rfl, by show q'.count k ≤ _; rw [hq']; exact Nat.zero_le _⟩
        · exact absurd hm ((hi.key k).q0 hl hE)
      · left; rw [hq', List.count_eq_zero.mpr hm]; simp
    · intro j x hx h1 h2 h3 hne
      rw [eW] at hx
      rcases getElem?_set_cases hx with ⟨rfl, rfl, _⟩ | ⟨_, h⟩
      · exact absurd rfl h1
      · exact hi.det j x h h1 h2 h3 hne
    · intro j x hx h1 h2
      rw [eW] at hx
      rcases getElem?_set_cases hx with ⟨rfl, rfl, _⟩ | ⟨_, h⟩
      · exact absurd rfl h1
      · exact hi.went j x h h1 h2
  | some p =>
    obtain ⟨kp, id⟩ := p
    obtain ⟨pre, hq, hpre, hE⟩ := hspec
    simp only
    obtain ⟨hidlt, e, hle, hek⟩ := (hi.key kp).fresh id hE
    simp only [hle]
    -- the worker takes entry `id` of key `kp`
    have hex : ∃ w' : Worker, w' = { w with pc := (if e.dataDirty then PC.fOpen else PC.mdSnap), ent := id, key := kp, dataDirty := e.dataDirty, dataSize := e.dataSize } := ⟨_, rfl⟩
    obtain ⟨w', hw'⟩ := hex
    rw [← hw']
    have hw' := hw'.symm
    have hw'key : w'.key = kp := by rw [← hw']
    have hw'ent : w'.ent = id := by rw [← hw']
    have hw'pc : w'.pc = if e.dataDirty then PC.fOpen else PC.mdSnap := by rw [← hw']
    have hw'fl : w'.pc ≠ .idle ∧ w'.pc ≠ .next ∧ w'.pc ≠ .unban := by
      rw [hw'pc]; cases e.dataDirty <;> simp
    have haw' : attached w' kp id := ⟨hw'key, hw'ent, hw'fl⟩
    have eW : (wnext s i { s.t with queue := q' } w').t.workers = s.t.workers.set i w' := rfl
    have hget' : (wnext s i { s.t with queue := q' } w').t.workers[i]? = some w' := by
      rw [eW]; simp [List.getElem?_set_self hwl]
    have hkq : kp ∈ s.t.queue := by rw [hq]; simp
    have hq1 := (hi.key kp).q1 id hE
    have hcnt1 : s.t.queue.count kp = 1 ∧ ∀ (j : Nat) (x : Worker), s.t.workers[j]? = some x → ¬ attached x kp id := by
      rcases hq1 with h | ⟨c0, _⟩
      · exact h
      · exact absurd hkq (List.count_eq_zero.mp c0)
    have hcnt0 : q'.count kp = 0 := by
      have hnp : kp ∉ pre := fun hm => by have := hpre kp hm; rw [hE] at this; simp at this
      have := hcnt1.1
      rw [hq, List.count_append, List.count_cons, List.count_eq_zero.mpr hnp] at this
      simp at this; omega
    have hfr : Frame s (wnext s i { s.t with queue := q' } w') kp :=
      { mem := onlyKey_refl _ _
        disk := fun _ _ => .inl rfl
        x := fun _ _ h => h
        fmap := fun _ _ => rfl
        next := Nat.le_refl _
        ents := fun _ _ _ _ => rfl
        ghost := fun _ _ => ⟨rfl, rfl, rfl, rfl⟩
        queue := fun k hk => hcount pre q' kp (.inl hq) hpre k hk
        workers := fun k id' j x hk _ ha =>
          workers_frame hw (fun k id _ => hnaw k id)
            (fun k id hk => not_attached_of_key hw'key k id hk) k id' j x hk ha }
    have hback : ∀ (j : Nat) (x : Worker), (wnext s i { s.t with queue := q' } w').t.workers[j]? = some x →
        attached x kp id → j = i := by
      intro j x hx ha
      rw [eW] at hx
      rcases getElem?_set_cases hx with ⟨rfl, _, _⟩ | ⟨_, h⟩
      · rfl
      · exact absurd ha (hcnt1.2 j x h)
    refine inv2_of_active hi (inv1_same_t hi.inv1 _ rfl rfl rfl) kp hfr ?_ ?_ ?_
    · have hk := hi.key kp
      refine { gl := hk.gl, fresh := hk.fresh, nd_m := hk.nd_m, nd_d := hk.nd_d, cm := hk.cm, cd := hk.cd,
               inc_m := hk.inc_m, inc_d := hk.inc_d, done_m := hk.done_m, done_d := hk.done_d,
               phw := ?_, phq := ?_, entc := hk.entc, q0 := ?_, q1 := ?_ }
      · intro B m id' j x hdn hxx hm he hx ha
        have he' : fget s.t.fmap kp = some id' := he
        rw [hE] at he'; simp at he'; subst he'
        have := hback j x hx ha
        subst this
        rw [hget'] at hx; simp at hx; subst hx
        have hq := hk.phq B m id e hdn hxx hm hE hle hcnt1.2
        show PhaseW w' m (s.t.disk.blobs.get kp) B (dirtyOf s.t id)
        have hd : dirtyOf s.t id = e.dirtyMD := by simp [dirtyOf, hle]
        rw [hd]
        unfold PhaseQ at hq
        unfold PhaseW
        rw [hw'pc]
        cases hdd : e.dataDirty
        · simp only [hdd, Bool.false_eq_true, if_false] at hq ⊢; exact hq
        · simp only [hdd, if_true] at hq ⊢; exact hq
      · intro B m id' e' _ _ _ he _ hno
        have he' : fget s.t.fmap kp = some id' := he
        rw [hE] at he'; simp at he'; subst he'
        exact absurd haw' (hno i w' hget')
      · intro _ he
        have he' : fget s.t.fmap kp = none := he
        rw [hE] at he'; simp at he'
      · intro id' he
        have he' : fget s.t.fmap kp = some id' := he
        rw [hE] at he'; simp at he'; subst he'
        exact .inr ⟨hcnt0, i, w', hget', haw', hback⟩
    · intro j x hx h1 h2 h3 hne
      rw [eW] at hx
      rcases getElem?_set_cases hx with ⟨rfl, hxw, _⟩ | ⟨_, h⟩
      · subst hxw
        exfalso; apply hne
        show fget s.t.fmap x.key = some x.ent
        rw [hw'key, hw'ent]; exact hE
      · exact hi.det j x h h1 h2 h3 hne
    · intro j x hx h1 h2
      rw [eW] at hx
      rcases getElem?_set_cases hx with ⟨rfl, hxw, _⟩ | ⟨_, h⟩
      · subst hxw
        show x.ent < s.t.nextEnt ∧ ∃ e, lookupEnt s.t.ents x.ent = some e ∧ e.key = x.key
        rw [hw'key, hw'ent]; exact ⟨hidlt, e, hle, hek⟩
      · exact hi.went j x h h1 h2

/-! ### `disk.Create` by the worker -/

theorem diskVictims_of_none {d : State} {k : Key} (h : d.blobs.get k = none) (n : Nat) :
    diskVictims d k n = (ensureFree d n).2.2 := by
  simp [diskVictims, inStore, h]

/-- other keys after a `Create` of an absent key: untouched, or evicted (and then among the victims) -/
theorem create_other {d : State} {k0 : Key} (h0 : d.blobs.get k0 = none) (n : Nat) (dat : Bytes) (k : Key)
    (hk : k ≠ k0) :
    (create d k0 n dat).1.blobs.get k = d.blobs.get k ∨
      ((create d k0 n dat).1.blobs.get k = none ∧ k ∈ diskVictims d k0 n) := by
  rw [diskVictims_of_none h0, create_none h0]
  have he := ensureFree_get d n k
  split
  · simp only [BMap.get_set_ne _ _ hk]
    rw [he]; split
    · exact .inr ⟨rfl, by assumption⟩
    · exact .inl rfl
  · rw [he]; split
    · exact .inr ⟨rfl, by assumption⟩
    · exact .inl rfl
  · rw [he]; split
    · exact .inr ⟨rfl, by assumption⟩
    · exact .inl rfl

theorem create_out_none {d : State} (hg : Good d) {k0 : Key} (h0 : d.blobs.get k0 = none) (n : Nat) (dat : Bytes) :
    (∃ ev, (create d k0 n dat).2 = .created d.nextInc ev ∧
      (create d k0 n dat).1.blobs.get k0 = some { size := n, data := dat, inc := d.nextInc }) ∨
    ((create d k0 n dat).2 = .err .noSpace ∧ (create d k0 n dat).1.blobs.get k0 = none) := by
  rw [create_none h0]
  have hn : (ensureFree d n).1.blobs.get k0 = none := by
    rw [ensureFree_get]; split <;> simp [h0]
  have hinc : (ensureFree d n).1.nextInc = d.nextInc := (evictLoop_frame n d.queue d).2
  have hnp := ensureFree_no_panic hg n
  cases hr : (ensureFree d n).2.1 with
  | ok => left; simp only [hinc]; exact ⟨_, rfl, by simp⟩
  | noSpace => right; exact ⟨rfl, hn⟩
  | panic => exact absurd hr hnp

/-! ### suffix uniqueness -/

theorem sfx_mdDel (mds : List Md) (sfx : Nat) (h : (mds.map (·.sfx)).Nodup) : ((mdDel mds sfx).map (·.sfx)).Nodup := by
  unfold mdDel
  exact h.sublist (List.Sublist.map _ List.filter_sublist)

theorem sfx_mdSet (mds : List Md) (m : Md) (h : (mds.map (·.sfx)).Nodup) : ((mdSet mds m).map (·.sfx)).Nodup := by
  unfold mdSet
  simp only [List.map_cons, List.nodup_cons]
  refine ⟨?_, sfx_mdDel mds m.sfx h⟩
  simp [mdDel]

theorem sfx_filter (mds : List Md) (p : Md → Bool) (h : (mds.map (·.sfx)).Nodup) : ((mds.filter p).map (·.sfx)).Nodup :=
  h.sublist (List.Sublist.map _ List.filter_sublist)

/-- with one entry per suffix, filtering on movability commutes with the lookup -/
theorem mdGet_filter_movable (mds : List Md) (h : (mds.map (·.sfx)).Nodup) (sfx : Nat) :
    mdGet (mds.filter (·.movable)) sfx = (mdGet mds sfx).filter (·.movable) := by
  induction mds with
  | nil => rfl
  | cons m mds ih =>
    simp only [List.map_cons, List.nodup_cons] at h
    have ih' := ih h.2
    unfold mdGet at ih' ⊢
    by_cases hs : m.sfx = sfx
    · -- the head is the entry of `sfx`; no other entry has that suffix
      have hnone : mds.find? (fun x => decide (x.sfx = sfx)) = none := by
        rw [List.find?_eq_none]
        intro x hx hd
        simp at hd
        exact h.1 (List.mem_map.mpr ⟨x, hx, hd.trans hs.symm⟩)
      cases hm : m.movable
      · rw [List.filter_cons_of_neg (by simp [hm]), List.find?_cons_of_pos (by simp [hs])]
        rw [ih', hnone]; simp [Option.filter, hm]
      · rw [List.filter_cons_of_pos (by simp [hm]), List.find?_cons_of_pos (by simp [hs]),
            List.find?_cons_of_pos (by simp [hs])]
        simp [Option.filter, hm]
    · cases hm : m.movable
      · rw [List.filter_cons_of_neg (by simp [hm]), List.find?_cons_of_neg (by simp [hs])]
        exact ih'
      · rw [List.filter_cons_of_pos (by simp [hm]), List.find?_cons_of_neg (by simp [hs]),
            List.find?_cons_of_neg (by simp [hs])]
        exact ih'

theorem mem_eraseIdx_or {l : List Nat} {x : Nat} (j : Nat) (d : Nat) (h : x ∈ l) :
    x = l.getD j d ∨ x ∈ l.eraseIdx j := by
  induction l generalizing j with
  | nil => simp at h
  | cons a l ih =>
    cases j with
    | zero =>
      simp only [List.getD_cons_zero, List.eraseIdx_cons_zero]
      rcases List.mem_cons.mp h with e | e
      · exact .inl e
      · exact .inr e
    | succ j =>
      simp only [List.getD_cons_succ, List.eraseIdx_cons_succ]
      rcases List.mem_cons.mp h with e | e
      · exact .inr (by simp [e])
      · rcases ih j e with h' | h'
        · exact .inl h'
        · exact .inr (List.mem_cons_of_mem _ h')

end KrakenModel.Tiered
