import KrakenModel.Proof.C30Fair
/-
  Non-vacuity of the hypotheses of `fair_quiet_drains`: a concrete state with a stored failed task and
  a concrete infinite (round-robin) schedule that is fair and quiet.
-/
namespace KrakenModel.Retry.FairEx

def cfg : Config := { capIn := 1, capRe := 1, nIn := 1, nRe := 1, retryInterval := 1 }

/-- task 1 was added, executed and failed: stored, failed, last attempt now -/
def s0 : State := [Op.addBegin 1 0 [], .addEnq 1, .take .inc, .finish 1 false].foldl step (init cfg)

def cycle : List Op := [.advance 1, .pollFetch, .pollMark, .pollEnq, .take .ret, .take .inc, .finish 1 true]

def sched (n : Nat) : Op := cycle.getD (n % 7) (.advance 1)

instance (s : State) (o : Op) : Decidable (Quiet s o) := by
  cases o <;> simp only [Quiet] <;> exact inferInstance

theorem sched_at (m i : Nat) (hi : i < 7) : sched (7 * m + i) = cycle.getD i (.advance 1) := by
  simp [sched, Nat.mul_add_mod, Nat.mod_eq_of_lt hi]

/-- after two rounds the table is empty and stays empty -/
def Drained (s : State) : Prop := s.rows = [] ∧ s.own = [] ∧ s.todo = [] ∧ s.mode = .up

instance (s : State) : Decidable (Drained s) := by unfold Drained; exact inferInstance

theorem drained_14 : Drained (traj s0 sched 14) := by decide

theorem drained_step (s : State) (h : Drained s) (n : Nat) : Drained (step s (sched n)) ∧ Quiet s (sched n) := by
  obtain ⟨h1, h2, h3, h4⟩ := h
  have hlt : n % 7 < 7 := Nat.mod_lt _ (by decide)
  have : sched n = cycle.getD (n % 7) (.advance 1) := rfl
  rw [this]
  have cases7 : ∀ i, i < 7 → Drained (step s (cycle.getD i (.advance 1))) ∧ Quiet s (cycle.getD i (.advance 1)) := by
    intro i hi
    have : i = 0 ∨ i = 1 ∨ i = 2 ∨ i = 3 ∨ i = 4 ∨ i = 5 ∨ i = 6 := by omega
    rcases this with rfl | rfl | rfl | rfl | rfl | rfl | rfl <;>
      simp [cycle, Drained, step, stepO, Quiet, h1, h2, h3, h4, withTag, queue, placeOf]
  exact cases7 _ hlt

theorem drained_from (d : Nat) : Drained (traj s0 sched (14 + d)) := by
  induction d with
  | zero => exact drained_14
  | succ d ih => exact (drained_step _ ih (14 + d)).1

theorem drained_ge (n : Nat) (h : 14 ≤ n) : Drained (traj s0 sched n) := by
  have := drained_from (n - 14)
  rwa [Nat.add_sub_cancel' h] at this

theorem quiet_all (n : Nat) : Quiet (traj s0 sched n) (sched n) := by
  by_cases h : 14 ≤ n
  · exact (drained_step _ (drained_ge n h) n).2
  · have : ∀ m, m < 14 → Quiet (traj s0 sched m) (sched m) := by decide
    exact this n (by omega)

theorem occurs (i : Nat) (hi : i < 7) (n : Nat) : ∃ j, n ≤ j ∧ sched j = cycle.getD i (.advance 1) :=
  ⟨7 * n + i, by omega, sched_at n i hi⟩

theorem now_step (s : State) (o : Op) : s.now ≤ (step s o).now := by
  cases o <;> simp only [step, stepO, enqueue] <;> (repeat' split) <;> simp

theorem now_advance (s : State) : (step s (.advance 1)).now = s.now + 1 := by simp [step, stepO]

theorem now_mono (n d : Nat) : (traj s0 sched n).now ≤ (traj s0 sched (n + d)).now := by
  induction d with
  | zero => exact Nat.le_refl _
  | succ d ih => exact Nat.le_trans ih (now_step _ _)

theorem now_round (m : Nat) : m ≤ (traj s0 sched (7 * m)).now := by
  induction m with
  | zero => exact Nat.zero_le _
  | succ m ih =>
    have h1 : (traj s0 sched (7 * m + 1)).now = (traj s0 sched (7 * m)).now + 1 := by
      show (step (traj s0 sched (7 * m)) (sched (7 * m))).now = _
      have : sched (7 * m) = .advance 1 := by simpa [cycle] using sched_at m 0 (by decide)
      rw [this, now_advance]
    have h2 := now_mono (7 * m + 1) 6
    have : 7 * (m + 1) = 7 * m + 1 + 6 := by omega
    rw [this]; omega

theorem only_key_one (n : Nat) (x : Key) (p : Place) (h : placeOf (traj s0 sched n).own x = some p) :
    x = 1 ∧ p ≠ .adding := by
  by_cases hn : 14 ≤ n
  · have := (drained_ge n hn).2.1
    rw [this] at h; simp [placeOf] at h
  · have hall : ∀ m, m < 14 → ∀ e ∈ (traj s0 sched m).own, e.1 = 1 ∧ e.2 ≠ .adding := by decide
    have hm := mem_of_placeOf h
    exact hall n (by omega) _ hm

theorem demo_fair : FairQuiet s0 sched where
  quiet := quiet_all
  pollFetch := fun n => by simpa [cycle] using occurs 1 (by decide) n
  pollMark := fun n => by simpa [cycle] using occurs 2 (by decide) n
  pollEnq := fun n => by simpa [cycle] using occurs 3 (by decide) n
  take := fun n p => by
    cases p
    · simpa [cycle] using occurs 5 (by decide) n
    · simpa [cycle] using occurs 4 (by decide) n
  addEnq := fun n x h => absurd rfl (only_key_one n x _ h).2
  finish := fun n x p h => by
    obtain ⟨rfl, _⟩ := only_key_one n x _ h
    obtain ⟨j, hj, hs⟩ := occurs 6 (by decide) n
    exact ⟨j, hj, true, by simpa [cycle] using hs⟩
  time := fun n T => ⟨7 * (n + T), by omega, Nat.le_trans (by omega) (now_round (n + T))⟩

theorem demo_stored : 1 ∈ keys s0.rows ∧ s0.mode = .up ∧ Good s0 ∧ WFCfg s0.cfg := by
  refine ⟨by decide, by decide, ?_, by decide⟩
  have : ∀ (ops : List Op) (s : State), Good s → Good (ops.foldl step s) := by
    intro ops
    induction ops with
    | nil => intro s h; exact h
    | cons o os ih => intro s h; exact ih _ (step_good s o h)
  exact this _ _ (good_init cfg)

end KrakenModel.Retry.FairEx
