import KrakenModel.Proof.C04Ops
/-
  C04 proof library, part 5: in-memory state, and the commit (`localFileEntry.Move`).
-/
set_option linter.unusedSectionVars false
set_option linter.unusedSimpArgs false
namespace KrakenModel.AgentCrash
open KrakenModel.FS

/-- the agent's in-memory state agrees with the tree -/
structure GoodMem (cfg : Cfg) (m : Mem) (fs : FS Name) : Prop where
  ent : ∀ e, m.entry = some e → (fs.file? (entryDir cfg e.cache) Name.data).isSome = true ∧ Name.data ∉ e.mds ∧
    (e.cache = false → ∀ n ∈ e.mds, (fs.file? (entryDir cfg false) n).isSome = true)
  tor : ∀ t, m.tor = some t → ∃ e, m.entry = some e ∧
    (t.committed = true → e.cache = true) ∧
    (t.committed = false → e.cache = false ∧ t.status.length = numPieces cfg ∧ t.status.all id = false ∧
      ∃ st, fs.file? (entryDir cfg false) Name.status = some st ∧ st.length = numPieces cfg ∧
        ∀ i, i < numPieces cfg → (t.status[i]? = some true ↔ st[i]? = some 1))

/-- what every operation guarantees when started in a good state -/
structure OpOK (cfg : Cfg) (fs : FS Name) (r : Out) : Prop where
  pre : ∀ k, GoodFS cfg (applyPrefix k r.calls fs)
  post : GoodMem cfg r.mem (applyAll fs r.calls)

/-- … and `CreateTorrent` moreover succeeds and yields a torrent -/
structure NewOK (cfg : Cfg) (fs : FS Name) (r : Out) : Prop extends OpOK cfg fs r where
  ok : r.res = Res.ok
  tor : ∃ t, r.mem.tor = some t

theorem goodFS_all {cfg : Cfg} {fs : FS Name} {cs : List (Call Name)} (h : ∀ k, GoodFS cfg (applyPrefix k cs fs)) :
    GoodFS cfg (applyAll fs cs) := by
  have := h cs.length; rwa [applyPrefix_all _ _ _ (Nat.le_refl _)] at this

/-! ### calls that keep directories -/

def KeepsDirs : Call Name → Prop
  | .rmdir _ => False
  | .renameDir _ _ => False
  | _ => True

theorem dir_isSome_apply_keep (fs : FS Name) (c : Call Name) (hk : KeepsDirs c) (p : Path)
    (h : (fs.dir? p).isSome = true) : ((apply fs c).dir? p).isSome = true := by
  by_cases ht : p ∈ c.touched
  · unfold apply; split
    case isFalse => exact h
    case isTrue =>
    cases c with
    | mkdir q => simp only [Call.touched, List.mem_singleton] at ht; subst ht; simp [Call.eff]
    | creat q n =>
      simp only [Call.touched, List.mem_singleton] at ht; subst ht; simp only [Call.eff]; split <;> simp_all
    | openCreat q n =>
      simp only [Call.touched, List.mem_singleton] at ht; subst ht; simp only [Call.eff]
      split
      · split <;> simp_all
      · exact h
    | openTrunc q n =>
      simp only [Call.touched, List.mem_singleton] at ht; subst ht; simp only [Call.eff]; split <;> simp_all
    | truncate q n len =>
      simp only [Call.touched, List.mem_singleton] at ht; subst ht; simp only [Call.eff]
      split
      · split <;> simp_all
      · exact h
    | pwrite q n off b =>
      simp only [Call.touched, List.mem_singleton] at ht; subst ht; simp only [Call.eff]
      split
      · split <;> simp_all
      · exact h
    | rename q n q' m =>
      simp only [Call.eff]
      split
      · split
        · rename_i hqq
          split
          · split
            · exact h
            · by_cases hp : p = q
              · subst hp; simp
              · rw [FS.dir?_setDir_ne _ _ _ _ (Ne.symm hp)]; exact h
          · exact h
        · split
          · by_cases hp : p = q'
            · subst hp; simp
            · rw [FS.dir?_setDir_ne _ _ _ _ (Ne.symm hp)]
              by_cases hp2 : p = q
              · subst hp2; simp
              · rw [FS.dir?_setDir_ne _ _ _ _ (Ne.symm hp2)]; exact h
          · exact h
      · exact h
    | renameDir _ _ => exact absurd hk id
    | unlink q n =>
      simp only [Call.touched, List.mem_singleton] at ht; subst ht; simp only [Call.eff]; split <;> simp_all
    | rmdir _ => exact absurd hk id
    | link q n q' m =>
      simp only [Call.touched, List.mem_singleton] at ht; subst ht; simp only [Call.eff]; split <;> simp_all
  · rw [dir?_apply_of_not_touched fs c p ht]; exact h

theorem dir_isSome_applyAll_keep (cs : List (Call Name)) (hk : ∀ c ∈ cs, KeepsDirs c) (fs : FS Name) (p : Path)
    (h : (fs.dir? p).isSome = true) : ((applyAll fs cs).dir? p).isSome = true := by
  induction cs generalizing fs with
  | nil => exact h
  | cons c cs ih =>
    exact ih (fun c' h' => hk c' (List.mem_cons_of_mem _ h')) _ (dir_isSome_apply_keep fs c (hk c (List.mem_cons_self ..)) p h)

theorem cawPlan_keeps (fs : FS Name) (dir : Path) (n : Name) (b : Bytes) : ∀ c ∈ cawPlan fs dir n b, KeepsDirs c := by
  intro c hc
  unfold cawPlan at hc
  split at hc
  · simp only [List.mem_append, List.mem_singleton] at hc
    rcases hc with (hc | hc) | hc
    · obtain ⟨q, rfl⟩ := mkdirAllPlan_mkdirs' fs dir c hc; trivial
    · subst hc; trivial
    · split at hc
      · simp at hc
      · simp at hc; subst hc; trivial
  · split at hc
    · simp at hc
    · simp only [List.mem_append] at hc
      rcases hc with hc | hc
      · split at hc
        · simp at hc
        · simp at hc; subst hc; trivial
      · split at hc
        · simp at hc
        · simp at hc; subst hc; trivial

/-! ### copying the sidecars -/

theorem copyMds_spec (cfg : Cfg) : ∀ (l : List Name) (fs : FS Name) (acc cs : List (Call Name)) (fs1 : FS Name),
    Name.data ∉ l →
    copyMds (entryDir cfg false) (entryDir cfg true) l fs acc = some (cs, fs1) →
    ∃ new, cs = acc ++ new ∧ fs1 = applyAll fs new ∧ (∀ c ∈ new, Neutral cfg c ∧ KeepsDirs c) := by
  intro l
  induction l with
  | nil =>
    intro fs acc cs fs1 _ h
    simp only [copyMds, Option.some.injEq, Prod.mk.injEq] at h
    obtain ⟨rfl, rfl⟩ := h
    exact ⟨[], by simp, rfl, by simp⟩
  | cons n rest ih =>
    intro fs acc cs fs1 hnd h
    simp only [List.mem_cons, not_or] at hnd
    simp only [copyMds] at h
    cases hb : fs.file? (entryDir cfg false) n with
    | none => rw [hb] at h; cases h
    | some b =>
      rw [hb] at h; simp only at h
      obtain ⟨new, h1, h2, h3⟩ := ih _ _ _ _ hnd.2 h
      have hkey : (entryDir cfg true, n) ∉ key3 cfg := by
        cases n with
        | data => exact absurd rfl hnd.1
        | lat => exact not_key3_lat cfg true
        | tmeta => exact not_key3_tmeta cfg true
        | status => exact not_key3_castatus cfg
      refine ⟨cawPlan fs (entryDir cfg true) n b ++ new, by rw [h1, List.append_assoc], by rw [h2, applyAll_append], ?_⟩
      intro c hc
      rcases List.mem_append.mp hc with hc | hc
      · exact ⟨cawPlan_neutral cfg fs _ _ _ hkey c hc, cawPlan_keeps fs _ _ _ c hc⟩
      · exact h3 c hc

/-- copying succeeds when every listed sidecar exists in the download directory (the copies go elsewhere) -/
theorem copyMds_some (cfg : Cfg) : ∀ (l : List Name) (fs : FS Name) (acc : List (Call Name)),
    Name.data ∉ l → (∀ n ∈ l, (fs.file? (entryDir cfg false) n).isSome = true) →
    ∃ r, copyMds (entryDir cfg false) (entryDir cfg true) l fs acc = some r := by
  intro l
  induction l with
  | nil => intro fs acc _ _; exact ⟨_, rfl⟩
  | cons n rest ih =>
    intro fs acc hnd h
    simp only [List.mem_cons, not_or] at hnd
    simp only [copyMds]
    obtain ⟨b, hb⟩ := Option.isSome_iff_exists.mp (h n (List.mem_cons_self ..))
    rw [hb]; simp only
    apply ih _ _ hnd.2
    intro n' hn'
    rw [file?_cawPlan_other_all _ _ _ _ _ _ _ (by
      intro e; exact entryDir_ne cfg (Prod.ext_iff.mp e).1)]
    exact h n' (List.mem_cons_of_mem _ hn')

theorem removeAllPlan_dl (cfg : Cfg) (fs : FS Name) (o : Order Name) :
    ∀ c ∈ removeAllPlan fs o (entryDir cfg false), DlRemoval cfg c := by
  intro c hc
  unfold removeAllPlan at hc
  split at hc
  · simp at hc
  · simp only [List.mem_append, List.mem_map, List.mem_singleton] at hc
    rcases hc with ⟨n, _, rfl⟩ | rfl
    · exact Or.inl ⟨n, rfl⟩
    · exact Or.inr rfl

/-- the commit: when the download directory holds the blob, `Move` succeeds, every prefix of its calls
leaves a good tree, and afterwards the cache holds the blob -/
theorem movePlan_spec {cfg : Cfg} (o : Order Name) (mo : List Name) (e : Entry) (fs : FS Name) (g : GoodFS cfg fs)
    (hd : fs.file? (entryDir cfg false) Name.data = some cfg.blob) (hnd : Name.data ∉ e.mds)
    (hmds : ∀ n ∈ e.mds, (fs.file? (entryDir cfg false) n).isSome = true) :
    ∃ mv, movePlan cfg o mo e fs = some mv ∧ (∀ k, GoodFS cfg (applyPrefix k mv fs)) ∧
      (applyAll fs mv).file? (entryDir cfg true) Name.data = some cfg.blob := by
  unfold movePlan
  simp only
  have hmkf : ∀ p n, (applyAll fs (mkdirAllPlan fs (entryDir cfg true))).file? p n = fs.file? p n :=
    fun p n => mkdirs_keep_file _ (mkdirAllPlan_mkdirs' fs _) fs p n
  rw [hmkf, hd]
  simp only [Option.isNone_some, Bool.false_eq_true, if_false]
  obtain ⟨⟨cs, fs1⟩, hcp⟩ := copyMds_some cfg (orderBy mo e.mds) (applyAll fs (mkdirAllPlan fs (entryDir cfg true))) []
    (by rw [mem_orderBy]; exact hnd) (by intro n hn; rw [hmkf]; exact hmds n ((mem_orderBy _ _ _).mp hn))
  rw [hcp]; simp only
  obtain ⟨new, h1, h2, h3⟩ := copyMds_spec cfg _ _ _ _ _ (by rw [mem_orderBy]; exact hnd) hcp
  simp only [List.nil_append] at h1; subst h1; subst h2
  refine ⟨_, rfl, ?_, ?_⟩
  all_goals
    generalize hmk : mkdirAllPlan fs (entryDir cfg true) = mk at *
    have hmkN : ∀ c ∈ mk, Neutral cfg c := by rw [← hmk]; exact mkdirAll_neutral cfg fs _
    have hAN : ∀ c ∈ mk ++ cs, Neutral cfg c := by
      intro c hc; rcases List.mem_append.mp hc with h | h
      · exact hmkN c h
      · exact (h3 c h).1
    -- the tree before the rename
    have hfsA : applyAll (applyAll fs mk) cs = applyAll fs (mk ++ cs) := by rw [applyAll_append]
    have gA : ∀ k, GoodFS cfg (applyPrefix k (mk ++ cs) fs) := neutral_prefix g _ hAN
    have gA' : GoodFS cfg (applyAll fs (mk ++ cs)) := goodFS_all gA
    have hdA : (applyAll fs (mk ++ cs)).file? (entryDir cfg false) Name.data = some cfg.blob := by
      rw [key3_applyAll_neutral cfg _ hAN fs (entryDir cfg false, Name.data) (by simp [key3])]; exact hd
    have hdirA : ((applyAll fs (mk ++ cs)).dir? (entryDir cfg true)).isSome = true := by
      rw [← hfsA]
      apply dir_isSome_applyAll_keep cs (fun c hc => (h3 c hc).2)
      rw [← hmk]
      exact dir?_isSome_of_isDir (entryDir_ne_nil cfg true) (isDir_mkdirAllPlan' fs _)
    -- the rename
    obtain ⟨r1, r2⟩ := file?_apply_rename (applyAll fs (mk ++ cs)) (entryDir cfg false) (entryDir cfg true)
      Name.data Name.data (entryDir_ne cfg)
    rw [if_pos ⟨by rw [hdA]; rfl, hdirA⟩] at r1 r2
    rw [hdA] at r1
    have gB : GoodFS cfg (apply (applyAll fs (mk ++ cs)) (Call.rename (entryDir cfg false) Name.data (entryDir cfg true) Name.data)) :=
      goodFS_apply_rename gA' (by intro d h; simp only [dlData] at h; rw [hdA] at h; cases h; rfl)
    rw [hfsA]
    generalize hfs2 : applyAll (applyAll fs (mk ++ cs)) [Call.rename (entryDir cfg false) Name.data (entryDir cfg true) Name.data] = fs2 at *
    have hfs2' : fs2 = apply (applyAll fs (mk ++ cs)) (Call.rename (entryDir cfg false) Name.data (entryDir cfg true) Name.data) := by
      rw [← hfs2]; rfl
    have gC := prefix_inv (fun f => GoodFS cfg f ∧ (caData cfg f).isSome = true)
      (removeAllPlan fs2 o (entryDir cfg false)) fs2 ⟨by rw [hfs2']; exact gB, by simp only [caData]; rw [hfs2', r1]; rfl⟩
      (fun c hc f ⟨gf, hf⟩ => goodFS_apply_dlRemoval (removeAllPlan_dl cfg fs2 o c hc) gf hf)
  · -- every prefix
    have e1 : mk ++ cs ++ [Call.rename (entryDir cfg false) Name.data (entryDir cfg true) Name.data] ++
        removeAllPlan fs2 o (entryDir cfg false) =
        (mk ++ cs) ++ ([Call.rename (entryDir cfg false) Name.data (entryDir cfg true) Name.data] ++
        removeAllPlan fs2 o (entryDir cfg false)) := by simp [List.append_assoc]
    rw [e1]
    apply prefix_append _ _ _ _ gA
    apply prefix_append
    · intro k
      match k with
      | 0 => simpa [applyPrefix] using gA'
      | k + 1 =>
        have : applyPrefix (k + 1) [Call.rename (entryDir cfg false) Name.data (entryDir cfg true) Name.data] (applyAll fs (mk ++ cs)) =
            apply (applyAll fs (mk ++ cs)) (Call.rename (entryDir cfg false) Name.data (entryDir cfg true) Name.data) := by
          simp [applyPrefix]
        rw [this]; exact gB
    · intro k; rw [hfs2]; exact (gC k).1
  · -- afterwards
    have e1 : mk ++ cs ++ [Call.rename (entryDir cfg false) Name.data (entryDir cfg true) Name.data] ++
        removeAllPlan fs2 o (entryDir cfg false) =
        (mk ++ cs) ++ [Call.rename (entryDir cfg false) Name.data (entryDir cfg true) Name.data] ++
        removeAllPlan fs2 o (entryDir cfg false) := rfl
    rw [applyAll_append, applyAll_append, hfs2]
    have hfin := gC (removeAllPlan fs2 o (entryDir cfg false)).length
    rw [applyPrefix_all _ _ _ (Nat.le_refl _)] at hfin
    obtain ⟨gf, hf⟩ := hfin
    simp only [caData] at hf
    obtain ⟨b, hb⟩ := Option.isSome_iff_exists.mp hf
    rw [hb, gf.cacheOK b hb]

end KrakenModel.AgentCrash
