import KrakenModel.Model.NamePath
/- Path algebra for Spec/C36: path.Clean / path.Join on clean inputs (core Lean only). -/
namespace KrakenModel.Proof.C36
open KrakenModel.NamePath KrakenModel.Codec

/-! ### joinSlash / splitOn -/

theorem joinSlash_cons (x : List Char) (ys : List (List Char)) (h : ys ≠ []) :
    joinSlash (x :: ys) = x ++ '/' :: joinSlash ys := by
  cases ys with
  | nil => exact absurd rfl h
  | cons y rest => rfl

theorem joinSlash_eq (x : List Char) (xs : List (List Char)) :
    joinSlash (x :: xs) = x ++ xs.flatMap (fun p => '/' :: p) := by
  induction xs generalizing x with
  | nil => simp [joinSlash]
  | cons y ys ih => simp [joinSlash, ih y]

theorem joinSlash_splitOn (s : List Char) : joinSlash (splitOn '/' s) = s := by
  cases hs : splitOn '/' s with
  | nil => exact absurd hs (splitOn_ne_nil _ _)
  | cons x xs => rw [joinSlash_eq]; exact splitOn_join '/' s x xs hs

theorem joinSlash_append (a b : List (List Char)) (ha : a ≠ []) (hb : b ≠ []) :
    joinSlash (a ++ b) = joinSlash a ++ '/' :: joinSlash b := by
  induction a with
  | nil => exact absurd rfl ha
  | cons x xs ih =>
    cases xs with
    | nil => simp [joinSlash_cons x b hb, joinSlash]
    | cons y ys =>
      have h1 : (x :: y :: ys) ++ b = x :: ((y :: ys) ++ b) := rfl
      rw [h1, joinSlash_cons x _ (by simp), ih (by simp), joinSlash_cons x (y :: ys) (by simp)]
      simp

/-- splitting on a separator that ends `a`'s last part -/
theorem splitOn_append_sep (sep : Char) (a b : List Char) :
    splitOn sep (a ++ sep :: b) = splitOn sep a ++ splitOn sep b := by
  induction a with
  | nil => simp [splitOn]
  | cons c cs ih =>
    simp only [List.cons_append, splitOn]
    split
    · rw [ih]; simp
    · rw [ih]
      cases hs : splitOn sep cs with
      | nil => exact absurd hs (splitOn_ne_nil _ _)
      | cons x xs => simp

theorem splitOn_joinSlash (q : List (List Char)) (hq : q ≠ []) (hno : ∀ c ∈ q, '/' ∉ c) :
    splitOn '/' (joinSlash q) = q := by
  induction q with
  | nil => exact absurd rfl hq
  | cons x xs ih =>
    cases xs with
    | nil => simp [joinSlash, splitOn_of_not_mem '/' x (hno x (by simp))]
    | cons y ys =>
      rw [joinSlash_cons x _ (by simp), splitOn_append_sep, splitOn_of_not_mem '/' x (hno x (by simp)),
        ih (by simp) (fun c hc => hno c (by simp [hc]))]
      rfl

/-! ### the clean stack -/

/-- a component path.Clean keeps and that contains no separator -/
def Plain (c : List Char) : Prop := c ≠ [] ∧ c ≠ dot ∧ c ≠ dotdot ∧ '/' ∉ c

theorem cleanPush_plain (r : Bool) (st : List (List Char)) (c : List Char) (h : Plain c) :
    cleanPush r st c = st ++ [c] := by
  obtain ⟨h1, h2, h3, _⟩ := h
  simp [cleanPush, h1, h2, h3]

theorem cleanStack_plain (r : Bool) (q : List (List Char)) (hq : ∀ c ∈ q, Plain c) :
    ∀ st, cleanStack r q st = st ++ q := by
  induction q with
  | nil => intro st; simp [cleanStack]
  | cons c cs ih =>
    intro st
    have := ih (fun x hx => hq x (by simp [hx])) (st ++ [c])
    simp only [cleanStack, List.foldl_cons] at this ⊢
    rw [cleanPush_plain r st c (hq c (by simp)), this]
    simp

theorem cleanStack_append (r : Bool) (a b st : List (List Char)) :
    cleanStack r (a ++ b) st = cleanStack r b (cleanStack r a st) := by
  simp [cleanStack, List.foldl_append]

/-- shape of every stack path.Clean builds: ".." elements first (relative paths only), then plain ones -/
def GoodStack (r : Bool) (st : List (List Char)) : Prop :=
  ∃ k P, st = List.replicate k dotdot ++ P ∧ (∀ c ∈ P, Plain c) ∧ (r = true → k = 0)

theorem goodStack_nil (r : Bool) : GoodStack r [] := ⟨0, [], rfl, by simp, fun _ => rfl⟩

theorem getLast?_replicate_dotdot (k : Nat) : (List.replicate (k + 1) dotdot).getLast? = some dotdot := by
  simp [List.getLast?_replicate]

theorem cleanPush_good (r : Bool) (st : List (List Char)) (c : List Char) (hc : '/' ∉ c) (h : GoodStack r st) :
    GoodStack r (cleanPush r st c) := by
  obtain ⟨k, P, rfl, hP, hr⟩ := h
  unfold cleanPush
  split
  · exact ⟨k, P, rfl, hP, hr⟩
  · rename_i h1
    simp only [not_or] at h1
    split
    · rename_i hdd
      subst hdd
      cases hPl : P.getLast? with
      | some top =>
        have htop : (List.replicate k dotdot ++ P).getLast? = some top := by
          cases P with
          | nil => simp at hPl
          | cons p ps => rw [List.getLast?_append, hPl]; rfl
        have hmem : top ∈ P := List.mem_of_getLast? hPl
        have hne : top ≠ dotdot := (hP top hmem).2.2.1
        simp only [htop, hne, if_false]
        cases P with
        | nil => simp at hPl
        | cons p ps =>
          refine ⟨k, (p :: ps).dropLast, ?_, fun c hc' => hP c (List.dropLast_subset _ hc'), hr⟩
          rw [List.dropLast_append_of_ne_nil (by simp)]
      | none =>
        have hPn : P = [] := by cases P with | nil => rfl | cons p ps => simp at hPl
        subst hPn
        simp only [List.append_nil]
        cases k with
        | zero =>
          simp only [List.replicate_zero, List.getLast?_nil]
          cases r with
          | true => exact ⟨0, [], rfl, by simp, fun _ => rfl⟩
          | false => exact ⟨1, [], rfl, by simp, fun h => by cases h⟩
        | succ k =>
          have hrf : r = false := by cases r with | false => rfl | true => have := hr rfl; omega
          simp only [getLast?_replicate_dotdot, if_true]
          refine ⟨k + 2, [], ?_, by simp, fun h => by rw [hrf] at h; cases h⟩
          simp only [List.append_nil]
          rw [show k + 2 = (k + 1) + 1 from rfl, List.replicate_succ' (n := k + 1)]
    · rename_i h2
      exact ⟨k, P ++ [c], by simp, fun x hx => by
        rcases List.mem_append.mp hx with hx | hx
        · exact hP x hx
        · simp only [List.mem_singleton] at hx; subst hx; exact ⟨h1.1, h1.2, h2, hc⟩, hr⟩

theorem cleanStack_good (r : Bool) (comps : List (List Char)) (hc : ∀ c ∈ comps, '/' ∉ c) :
    ∀ st, GoodStack r st → GoodStack r (cleanStack r comps st) := by
  induction comps with
  | nil => intro st h; exact h
  | cons c cs ih =>
    intro st h
    simp only [cleanStack, List.foldl_cons]
    exact ih (fun x hx => hc x (by simp [hx])) _ (cleanPush_good r st c (hc c (by simp)) h)

/-- pushing ".." elements onto a relative stack of ".." elements -/
theorem cleanStack_dotdots (k : Nat) : ∀ j, cleanStack false (List.replicate k dotdot) (List.replicate j dotdot)
    = List.replicate (j + k) dotdot := by
  induction k with
  | zero => intro j; simp [cleanStack]
  | succ k ih =>
    intro j
    simp only [List.replicate_succ, cleanStack, List.foldl_cons]
    have hp : cleanPush false (List.replicate j dotdot) dotdot = List.replicate (j + 1) dotdot := by
      have h1 : ¬ (dotdot = [] ∨ dotdot = dot) := by decide
      cases j with
      | zero => simp [cleanPush, h1]
      | succ j =>
        simp only [cleanPush, h1, if_false, if_true, getLast?_replicate_dotdot]
        rw [List.replicate_succ' (n := j + 1)]
    rw [hp]
    have := ih (j + 1)
    simp only [cleanStack] at this
    rw [this]
    congr 1; omega

/-- cleaning the elements of a clean stack again gives the same stack -/
theorem cleanStack_idem (r : Bool) (st : List (List Char)) (h : GoodStack r st) : cleanStack r st [] = st := by
  obtain ⟨k, P, rfl, hP, hr⟩ := h
  rw [cleanStack_append]
  cases r with
  | true =>
    have := hr rfl; subst this
    simp only [List.replicate_zero, List.nil_append]
    have : cleanStack true [] [] = [] := rfl
    rw [this, cleanStack_plain true P hP]; simp
  | false =>
    have := cleanStack_dotdots k 0
    simp only [List.replicate_zero, Nat.zero_add] at this
    rw [this, cleanStack_plain false P hP]

/-! ### rendering -/

def render (r : Bool) (st : List (List Char)) : List Char :=
  if r then '/' :: joinSlash st else if st = [] then dot else joinSlash st

def stackOf (p : List Char) : List (List Char) := cleanStack (isRooted p) (splitOn '/' p) []

theorem pathClean_eq (p : List Char) (hp : p ≠ []) : pathClean p = render (isRooted p) (stackOf p) := by
  simp only [pathClean, hp, if_false, render, stackOf]
  split
  · rfl
  · split
    · rename_i h; simp [h]
    · rename_i h; simp [h]

theorem stackOf_good (p : List Char) : GoodStack (isRooted p) (stackOf p) :=
  cleanStack_good _ _ (splitOn_parts_no_sep '/' p) [] (goodStack_nil _)

theorem good_mem (r : Bool) (st : List (List Char)) (h : GoodStack r st) :
    ∀ c ∈ st, c ≠ [] ∧ '/' ∉ c := by
  obtain ⟨k, P, rfl, hP, _⟩ := h
  intro c hc
  rcases List.mem_append.mp hc with hc | hc
  · have := List.eq_of_mem_replicate hc; subst this; exact ⟨by decide, by decide⟩
  · exact ⟨(hP c hc).1, (hP c hc).2.2.2⟩

theorem joinSlash_head (st : List (List Char)) (hne : st ≠ []) (h : ∀ c ∈ st, c ≠ [] ∧ '/' ∉ c) :
    (joinSlash st).head? ≠ some '/' ∧ joinSlash st ≠ [] := by
  cases st with
  | nil => exact absurd rfl hne
  | cons x xs =>
    obtain ⟨hx1, hx2⟩ := h x (by simp)
    rw [joinSlash_eq]
    cases x with
    | nil => exact absurd rfl hx1
    | cons a as =>
      refine ⟨?_, by simp⟩
      simp only [List.cons_append, List.head?_cons, ne_eq, Option.some.injEq]
      intro e; subst e; exact hx2 (by simp)

theorem isRooted_render (r : Bool) (st : List (List Char)) (h : GoodStack r st) : isRooted (render r st) = r := by
  cases r with
  | true => simp [render, isRooted]
  | false =>
    simp only [render, Bool.false_eq_true, if_false]
    split
    · decide
    · rename_i hne
      have := (joinSlash_head st hne (good_mem false st h)).1
      simp only [isRooted, decide_eq_false_iff_not]
      exact this

theorem render_ne_nil (r : Bool) (st : List (List Char)) (h : GoodStack r st) : render r st ≠ [] := by
  cases r with
  | true => simp [render]
  | false =>
    simp only [render, Bool.false_eq_true, if_false]
    split
    · decide
    · rename_i hne; exact (joinSlash_head st hne (good_mem false st h)).2

/-- the elements of a rendered clean stack are that stack -/
theorem stackOf_render (r : Bool) (st : List (List Char)) (h : GoodStack r st) : stackOf (render r st) = st := by
  unfold stackOf
  rw [isRooted_render r st h]
  cases r with
  | true =>
    simp only [render, if_true]
    have e : splitOn '/' ('/' :: joinSlash st) = [] :: splitOn '/' (joinSlash st) := by simp [splitOn]
    rw [e]
    cases st with
    | nil => simp [joinSlash, splitOn, cleanStack, cleanPush]
    | cons x xs =>
      rw [splitOn_joinSlash _ (by simp) (fun c hc => (good_mem true _ h c hc).2)]
      have : cleanStack true ([] :: x :: xs) [] = cleanStack true (x :: xs) [] := by
        simp [cleanStack, cleanPush]
      rw [this]; exact cleanStack_idem true _ h
  | false =>
    simp only [render, Bool.false_eq_true, if_false]
    split
    · rename_i hnil; subst hnil; decide
    · rename_i hne
      rw [splitOn_joinSlash _ hne (fun c hc => (good_mem false _ h c hc).2)]
      exact cleanStack_idem false _ h

theorem render_append (r : Bool) (st q : List (List Char)) (hst : st ≠ []) (hq : q ≠ []) :
    render r (st ++ q) = render r st ++ '/' :: joinSlash q := by
  have hne : st ++ q ≠ [] := by simp [hst]
  cases r with
  | true => simp [render, joinSlash_append st q hst hq]
  | false => simp [render, hst, hne, joinSlash_append st q hst hq]

/-- **(K)** cleaning `p/q₁/…/qₙ` for plain elements: p's stack followed by the elements -/
theorem pathClean_append_plain (p : List Char) (hp : p ≠ []) (q : List (List Char)) (hq : q ≠ [])
    (hpl : ∀ c ∈ q, Plain c) :
    pathClean (p ++ '/' :: joinSlash q) = render (isRooted p) (stackOf p ++ q) := by
  have hne : p ++ '/' :: joinSlash q ≠ [] := by simp [hp]
  have hroot : isRooted (p ++ '/' :: joinSlash q) = isRooted p := by
    cases p with
    | nil => exact absurd rfl hp
    | cons a as => rfl
  rw [pathClean_eq _ hne, hroot]
  congr 1
  unfold stackOf
  rw [hroot, splitOn_append_sep, splitOn_joinSlash q hq (fun c hc => (hpl c hc).2.2.2), cleanStack_append,
    cleanStack_plain _ q hpl]

/-- cleaning a plain relative path leaves it alone -/
theorem pathClean_plain (q : List (List Char)) (hq : q ≠ []) (hpl : ∀ c ∈ q, Plain c) :
    pathClean (joinSlash q) = joinSlash q ∧ stackOf (joinSlash q) = q ∧ isRooted (joinSlash q) = false := by
  have hg : GoodStack false q := ⟨0, q, by simp, hpl, fun h => by cases h⟩
  have h1 : render false q = joinSlash q := by simp [render, hq]
  have h2 := stackOf_render false q hg
  have h3 := isRooted_render false q hg
  rw [h1] at h2 h3
  refine ⟨?_, h2, h3⟩
  rw [pathClean_eq _ (joinSlash_head q hq (good_mem false q hg)).2, h3, h2, h1]

end KrakenModel.Proof.C36
