import KrakenModel.Model.FileModel
/- Helper lemmas for Spec/C12: the buffers' growth-and-copy rule is pwrite. Core only. -/
namespace KrakenModel.Proof.C12
open KrakenModel.FileModel

theorem take_zeros (n k : Nat) (h : n ≤ k) : (zeros k).take n = zeros n := by
  unfold zeros
  rw [List.take_replicate]
  congr 1
  omega

/-- growth to `pos + len p` followed by `copy(buf[pos:], p)` is exactly pwrite, for non-empty `p` -/
theorem awsOld_eq_pwrite (buf : Bytes) (pos : Nat) (p : Bytes) (hp : p ≠ []) :
    awsWriteAtOld buf pos p = pwrite buf pos p := by
  have hpe : p.isEmpty = false := by cases p <;> simp_all
  have hpl : 0 < p.length := List.length_pos_iff.mpr hp
  unfold awsWriteAtOld pwrite overwrite
  simp only [hpe, Bool.false_eq_true, if_false]
  by_cases hlt : buf.length < pos + p.length
  · simp only [hlt, if_true]
    have hd1 : (buf ++ zeros (pos + p.length - buf.length)).drop (pos + p.length) = [] := by
      apply List.drop_eq_nil_of_le
      simp [zeros]; omega
    have hd2 : buf.drop (pos + p.length) = [] := List.drop_eq_nil_of_le (by omega)
    rw [hd1, hd2]
    congr 2
    rw [List.take_append, List.take_append, take_zeros _ _ (by omega), take_zeros _ _ (Nat.le_refl _)]
  · simp only [hlt, if_false]
    have : pos - buf.length = 0 := by omega
    rw [this]
    simp [zeros]

theorem bufWriteAt_eq_pwrite (buf : Bytes) (pos : Nat) (p : Bytes) : bufWriteAt buf pos p = pwrite buf pos p := by
  unfold bufWriteAt
  cases p with
  | nil => simp [pwrite]
  | cons x xs => simp only [List.isEmpty_cons, Bool.false_eq_true, if_false]; exact awsOld_eq_pwrite buf pos (x :: xs) (by simp)

theorem memOld_eq_awsOld (buf : Bytes) (pos : Nat) (p : Bytes) : memWriteAtOld buf pos p = awsWriteAtOld buf pos p := rfl

theorem memWriteAt_eq_pwrite (buf : Bytes) (pos : Nat) (p : Bytes) : memWriteAt buf pos p = pwrite buf pos p := by
  unfold memWriteAt
  cases p with
  | nil => simp [pwrite]
  | cons x xs =>
    simp only [List.isEmpty_cons, Bool.false_eq_true, if_false]
    rw [memOld_eq_awsOld]; exact awsOld_eq_pwrite buf pos (x :: xs) (by simp)

theorem setOff_self (offs : List Nat) (h o : Nat) (hh : offs[h]? = some o) : setOff offs h o = offs := by
  unfold setOff
  apply List.ext_getElem?
  intro i
  by_cases hi : i = h
  · subst hi
    rw [List.getElem?_set]
    have hlt : i < offs.length := by
      rcases Nat.lt_or_ge i offs.length with h' | h'
      · exact h'
      · rw [List.getElem?_eq_none_iff.mpr h'] at hh; cases hh
    have he : offs[i]? = some offs[i] := List.getElem?_eq_getElem hlt
    rw [he] at hh
    simp only [Option.some.injEq] at hh
    simp [hlt, hh]
  · rw [List.getElem?_set]
    simp [Ne.symm hi]

theorem pread_eof (c : Bytes) (o n : Nat) (h : o ≥ c.length) : pread c o n = [] := by
  unfold pread
  rw [List.drop_eq_nil_of_le h]; simp

end KrakenModel.Proof.C12
