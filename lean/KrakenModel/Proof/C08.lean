import KrakenModel.Util.LTS
import KrakenModel.Proof.BlobStore
import KrakenModel.Proof.C07
/-
  Helper lemmas for Spec/C08 (memory blob store + stale handles):
  the memory store with its handle table as a transition system whose steps are the atomic
  sections of the Go code (store calls under the store mutex, handle calls under the slice lock,
  single iterations of the eviction loop), incarnation freshness, and what a step can do to a blob.
-/
namespace KrakenModel.BlobStore

/-! ### what one store operation can do to the entry of a key -/

/-- either the entry existed before with the same incarnation, reserved size and (unless the
    operation is a positional write on that key) the same data, or it was just created -/
def BlobStep (s : State) (o : Op) (k : Key) (b' : Blob) : Prop :=
  (∃ b, s.blobs.get k = some b ∧ b'.inc = b.inc ∧ b'.size = b.size ∧
        (b'.data = b.data ∨ ∃ sc off p, o = .write k sc off p)) ∨
  (∃ n d, o = .create k n d ∧ s.blobs.get k = none ∧ b'.inc = s.nextInc ∧ b'.data = d ∧
        (step s o).nextInc = s.nextInc + 1)

theorem blobStep_same {s : State} {o : Op} {k : Key} {b' : Blob} (h : s.blobs.get k = some b') :
    BlobStep s o k b' := .inl ⟨b', h, rfl, rfl, .inl rfl⟩

theorem blobStep_set {s : State} {o : Op} {k k0 : Key} {b0 b0' b' : Blob} (h0 : s.blobs.get k0 = some b0)
    (hi : b0'.inc = b0.inc) (hs : b0'.size = b0.size) (hd : b0'.data = b0.data ∨ ∃ sc off p, o = .write k0 sc off p)
    (h : (s.blobs.set k0 b0').get k = some b') : BlobStep s o k b' := by
  rw [BMap.get_set] at h
  split at h
  · rename_i e; subst e; simp at h; subst h
    exact .inl ⟨b0, h0, hi, hs, hd⟩
  · exact blobStep_same h

theorem blobStep_del {s : State} {o : Op} {k k0 : Key} {b' : Blob}
    (h : (s.blobs.del k0).get k = some b') : BlobStep s o k b' := by
  rw [BMap.get_del] at h
  split at h
  · simp at h
  · exact blobStep_same h

theorem step_blob (s : State) (o : Op) (k : Key) (b' : Blob) (h : (step s o).blobs.get k = some b') :
    BlobStep s o k b' := by
  cases o with
  | create k0 n d =>
    simp only [step, apply, create] at h
    split at h
    · exact blobStep_same h
    · rename_i hnone
      split at h
      · rename_i s' ev heq
        have hnx : (step s (.create k0 n d)).nextInc = s'.nextInc + 1 := by
          simp only [step, apply, create, hnone, heq]
        have e1 : s' = (ensureFree s n).1 := by rw [heq]
        subst e1
        have hfr : (ensureFree s n).1.nextInc = s.nextInc := (evictLoop_frame n s.queue s).2
        simp only [BMap.get_set] at h
        split at h
        · rename_i e; subst e
          simp at h; subst h
          exact .inr ⟨n, d, rfl, hnone, hfr, rfl, by rw [hnx, hfr]⟩
        · exact blobStep_same (ensureFree_get_some h)
      all_goals
        rename_i s' ev heq
        have e1 : s' = (ensureFree s n).1 := by rw [heq]
        subst e1
        exact blobStep_same (ensureFree_get_some h)
  | «open» k0 sc =>
    rw [show (step s (.open k0 sc)).blobs = s.blobs from openB_blobs s k0 sc] at h
    exact blobStep_same h
  | write k0 sc off p =>
    simp only [step, apply, write_eq] at h
    split at h
    · exact blobStep_same h
    · rename_i b0 hl
      exact blobStep_set (lookup_ok hl).1 (by rfl) (by rfl) (.inr ⟨sc, off, p, rfl⟩) h
  | stat k0 sc =>
    have : (step s (.stat k0 sc)) = s := by simp only [step, apply, stat]; split <;> rfl
    rw [this] at h; exact blobStep_same h
  | has k0 sc =>
    have : (step s (.has k0 sc)) = s := by simp only [step, apply, has]; split <;> rfl
    rw [this] at h; exact blobStep_same h
  | markComplete k0 =>
    simp only [step, apply, markComplete] at h
    split at h
    · exact blobStep_same h
    · rename_i b0 hb0
      split at h
      · exact blobStep_same h
      · exact blobStep_set hb0 (by rfl) (by rfl) (.inl (by rfl)) h
  | delete k0 sc =>
    simp only [step, apply, delete] at h
    split at h
    · exact blobStep_same h
    · exact blobStep_del h
  | ban k0 sc =>
    simp only [step, apply, ban] at h
    split at h
    · exact blobStep_same h
    · rename_i b0 hl
      have hb0 := (lookup_ok hl).1
      split at h
      · exact blobStep_same h
      · split at h
        · split at h
          · exact blobStep_set hb0 (by rfl) (by rfl) (.inl (by rfl)) h
          · exact blobStep_same h
        · exact blobStep_set hb0 (by rfl) (by rfl) (.inl (by rfl)) h
  | unban k0 sc =>
    simp only [step, apply, unban] at h
    split at h
    · exact blobStep_same h
    · rename_i b0 hl
      split at h
      · exact blobStep_same h
      · exact blobStep_set (lookup_ok hl).1 (by rfl) (by rfl) (.inl (by rfl)) h
  | setMd k0 sc m =>
    simp only [step, apply, setMd] at h
    split at h
    · exact blobStep_same h
    · rename_i b0 hl
      exact blobStep_set (lookup_ok hl).1 (by rfl) (by rfl) (.inl (by rfl)) h
  | getMd k0 sc sfx0 =>
    have : (step s (.getMd k0 sc sfx0)) = s := by
      simp only [step, apply, getMd]; split
      · rfl
      · split <;> rfl
    rw [this] at h; exact blobStep_same h
  | delMd k0 sc sfx0 =>
    simp only [step, apply, delMd] at h
    split at h
    · exact blobStep_same h
    · rename_i b0 hl
      exact blobStep_set (lookup_ok hl).1 (by rfl) (by rfl) (.inl (by rfl)) h
  | listMd k0 sc =>
    have : (step s (.listMd k0 sc)) = s := by simp only [step, apply, listMd]; split <;> rfl
    rw [this] at h; exact blobStep_same h
  | writeAtMd k0 sc sfx0 p off =>
    simp only [step, apply, writeAtMd] at h
    split at h
    · exact blobStep_same h
    · rename_i b0 hl
      split at h
      · exact blobStep_same h
      · exact blobStep_set (lookup_ok hl).1 (by rfl) (by rfl) (.inl (by rfl)) h
  | list sc => exact blobStep_same h
  | clean pct r ord => exact blobStep_same (clean_get_some h)

/-- the incarnation counter never decreases -/
theorem step_nextInc (s : State) (o : Op) : s.nextInc ≤ (step s o).nextInc := by
  cases o with
  | create k n d =>
    simp only [step, apply, create]
    split
    · exact Nat.le_refl _
    · have := (evictLoop_frame n s.queue s).2
      split <;> (rename_i s' _ heq; have e1 : s' = (ensureFree s n).1 := by rw [heq]
                 subst e1; simp only; unfold ensureFree; omega)
  | write k sc off p =>
    simp only [step, apply, write_eq]
    split
    · exact Nat.le_refl _
    · simp only [openB]; split
      · exact Nat.le_refl _
      · split <;> exact Nat.le_refl _
  | clean pct r ord => exact Nat.le_of_eq (clean_nextInc s pct r ord).symm
  | list sc => exact Nat.le_refl _
  | «open» k sc => simp only [step, apply, openB]; (repeat' split) <;> exact Nat.le_refl _
  | stat k sc => simp only [step, apply, stat]; (repeat' split) <;> exact Nat.le_refl _
  | has k sc => simp only [step, apply, has]; (repeat' split) <;> exact Nat.le_refl _
  | markComplete k => simp only [step, apply, markComplete]; (repeat' split) <;> exact Nat.le_refl _
  | delete k sc => simp only [step, apply, delete]; (repeat' split) <;> exact Nat.le_refl _
  | ban k sc => simp only [step, apply, ban]; (repeat' split) <;> exact Nat.le_refl _
  | unban k sc => simp only [step, apply, unban]; (repeat' split) <;> exact Nat.le_refl _
  | setMd k sc m => simp only [step, apply, setMd]; (repeat' split) <;> exact Nat.le_refl _
  | getMd k sc sfx => simp only [step, apply, getMd]; (repeat' split) <;> exact Nat.le_refl _
  | delMd k sc sfx => simp only [step, apply, delMd]; (repeat' split) <;> exact Nat.le_refl _
  | listMd k sc => simp only [step, apply, listMd]; (repeat' split) <;> exact Nat.le_refl _
  | writeAtMd k sc sfx p off => simp only [step, apply, writeAtMd]; (repeat' split) <;> exact Nat.le_refl _
where
  cleanLoop_nextInc (target : Nat) : ∀ (ks : List Key) (s : State), (cleanLoop target ks s).1.nextInc = s.nextInc := by
    intro ks
    induction ks with
    | nil => intro s; rfl
    | cons k ks ih =>
      intro s
      simp only [cleanLoop]
      split
      · rfl
      · have hd : (delete s k .any).1.nextInc = s.nextInc := by simp only [delete]; split <;> rfl
        split
        · rename_i s' heq
          have e1 : s' = (delete s k .any).1 := by rw [heq]
          subst e1; rw [ih]; exact hd
        · rename_i s' o _ heq
          have e1 : s' = (delete s k .any).1 := by rw [heq]
          subst e1; exact hd
  clean_nextInc (s : State) (pct : Int) (r : Bool) (ord : List Key) : (clean s pct r ord).1.nextInc = s.nextInc := by
    unfold clean
    simp only
    split
    · rfl
    · generalize hE : ensureFree s (s.cap - s.cap * pct.toNat % U64 / 100) = r1
      have h1 : r1.1.nextInc = s.nextInc := by rw [← hE]; exact (evictLoop_frame _ s.queue s).2
      obtain ⟨s1, res, ev⟩ := r1
      cases res with
      | ok => exact h1
      | panic => exact h1
      | noSpace =>
        simp only
        generalize hL : cleanLoop (s.cap * pct.toNat % U64 / 100) _ s1 = r2
        have h2 : r2.1.nextInc = s.nextInc := by rw [← hL, cleanLoop_nextInc]; exact h1
        obtain ⟨s2, e, d2⟩ := r2
        cases e with
        | some e => exact h2
        | none =>
          simp only
          split
          · exact h2
          · generalize hL3 : cleanLoop (s.cap * pct.toNat % U64 / 100) _ s2 = r3
            have h3 : r3.1.nextInc = s.nextInc := by rw [← hL3, cleanLoop_nextInc]; exact h2
            obtain ⟨s3, e3, d3⟩ := r3
            exact h3

/-! ### incarnations -/

/-- incarnation numbers of live blobs are below the counter and pairwise different -/
structure GoodInc (s : State) : Prop where
  lt : ∀ k b, s.blobs.get k = some b → b.inc < s.nextInc
  inj : ∀ k k' b b', s.blobs.get k = some b → s.blobs.get k' = some b' → b.inc = b'.inc → k = k'

theorem goodInc_init (cap : Nat) : GoodInc (init cap) :=
  { lt := by simp [init], inj := by simp [init] }

theorem goodInc_step {s : State} (hg : GoodInc s) (o : Op) : GoodInc (step s o) := by
  have hmono := step_nextInc s o
  refine { lt := ?_, inj := ?_ }
  · intro k b' h
    rcases step_blob s o k b' h with ⟨b, hb, hi, _, _⟩ | ⟨n, d, _, _, hi, _, hn⟩
    · have := hg.lt k b hb; omega
    · omega
  · intro k k' b1 b2 h1 h2 he
    rcases step_blob s o k b1 h1 with ⟨b, hb, hi, _, _⟩ | ⟨n, d, ho, _, hi, _, _⟩
    · rcases step_blob s o k' b2 h2 with ⟨c, hc, hj, _, _⟩ | ⟨n', d', ho', _, hj, _, _⟩
      · exact hg.inj k k' b c hb hc (by omega)
      · have := hg.lt k b hb; omega
    · rcases step_blob s o k' b2 h2 with ⟨c, hc, hj, _, _⟩ | ⟨n', d', ho', _, hj, _, _⟩
      · have := hg.lt k' c hc; omega
      · rw [ho] at ho'; cases ho'; rfl

/-! ### the memory store with its handles -/

/-- store + the handles handed out so far (`h<i>` of the transcripts = `hs[i]`) -/
structure MState where
  st : State
  hs : List Handle := []

/-- atomic sections of the Go code: a store call (store mutex), one iteration of the eviction loop
    on its own (so that handle calls may fall between the evictions of one `Create`), and the handle
    calls (slice lock) -/
inductive MAct where
  | op (o : Op)
  | evict
  | hRead (i n : Nat)
  | hReadAt (i n : Nat) (off : Int)
  | hSeek (i : Nat) (off : Int) (whence : Nat)
  | hSize (i : Nat)
  | hWrite (i : Nat) (p : Bytes)
  | hWriteAt (i : Nat) (p : Bytes) (off : Int)
  deriving DecidableEq, Repr

inductive MOut where
  | store (o : Out)
  | h (o : HOut)
  | none
  deriving DecidableEq, Repr

/-- one iteration of the eviction loop, outside any `Create` -/
def evictFront (s : State) : State :=
  match s.queue with
  | [] => s
  | k :: q => match s.blobs.get k with
    | none => s
    | some b => evictStep s k q b

/-- the handle a store call returns -/
def newHandle (s : State) (o : Op) : Option Handle :=
  match o, output s o with
  | .create k _ d, .created inc _ => some { key := k, inc := inc, off := d.length }
  | .open k _, .opened inc _ => some { key := k, inc := inc, off := 0 }
  | _, _ => none

def mapply (m : MState) : MAct → MState × MOut
  | .op o => ({ st := step m.st o, hs := m.hs ++ (newHandle m.st o).toList }, .store (output m.st o))
  | .evict => ({ m with st := evictFront m.st }, .none)
  | .hRead i n => match m.hs[i]? with
    | some h => ({ m with hs := m.hs.set i (hRead m.st h n).1 }, .h (hRead m.st h n).2)
    | none => (m, .none)
  | .hReadAt i n off => match m.hs[i]? with
    | some h => (m, .h (hReadAt m.st h n off))
    | none => (m, .none)
  | .hSeek i off w => match m.hs[i]? with
    | some h => ({ m with hs := m.hs.set i (hSeek m.st h off w).1 }, .h (hSeek m.st h off w).2)
    | none => (m, .none)
  | .hSize i => match m.hs[i]? with
    | some h => (m, .h (hSize m.st h))
    | none => (m, .none)
  | .hWrite i p => match m.hs[i]? with
    | some h => ({ st := (hWrite m.st h p).1, hs := m.hs.set i (hWrite m.st h p).2.1 }, .h (hWrite m.st h p).2.2)
    | none => (m, .none)
  | .hWriteAt i p off => match m.hs[i]? with
    | some h => ({ m with st := (hWriteAt m.st h p off).1 }, .h (hWriteAt m.st h p off).2)
    | none => (m, .none)

def mstep (m : MState) (a : MAct) : MState := (mapply m a).1
def mout (m : MState) (a : MAct) : MOut := (mapply m a).2

def msys (cap : Nat) : Sys MState MAct := { init := { st := init cap }, step := mstep }

/-! handle writes and single evictions keep the structural invariants -/

theorem hBlob_some {s : State} {h : Handle} {b : Blob} (hb : hBlob s h = some b) :
    s.blobs.get h.key = some b ∧ b.inc = h.inc := by
  unfold hBlob at hb
  split at hb
  · split at hb
    · simp at hb; subst hb; exact ⟨by assumption, by assumption⟩
    · simp at hb
  · simp at hb

theorem hBlob_none_of_get_none {s : State} {h : Handle} (hn : s.blobs.get h.key = none) : hBlob s h = none := by
  simp [hBlob, hn]

theorem good_setData {s : State} (hg : Good s) {k : Key} {b : Blob} (hb : s.blobs.get k = some b) (d : Bytes) :
    Good (setData s k b d) := good_update_same hg hb rfl rfl rfl

theorem good_evictFront {s : State} (hg : Good s) : Good (evictFront s) := by
  unfold evictFront
  split
  · exact hg
  · rename_i k q hq
    split
    · exact hg
    · rename_i b hb; exact good_evictStep hg hq hb

theorem hWrite_st (s : State) (h : Handle) (p : Bytes) :
    (hWrite s h p).1 = match hBlob s h with
      | none => s
      | some b => setData s h.key b (writeAt b.data p h.off) := by
  unfold hWrite; split <;> simp_all

theorem hWriteAt_st (s : State) (h : Handle) (p : Bytes) (off : Int) :
    (hWriteAt s h p off).1 = if off < 0 ∨ off.toNat + p.length > maxInt then s else match hBlob s h with
      | none => s
      | some b => setData s h.key b (writeAt b.data p off.toNat) := by
  unfold hWriteAt
  split
  · rfl
  · split <;> simp_all

theorem good_mstep {m : MState} (hg : Good m.st) (a : MAct) : Good (mstep m a).st := by
  cases a with
  | op o => exact good_step hg o
  | evict => exact good_evictFront hg
  | hRead i n => simp only [mstep, mapply]; split <;> exact hg
  | hReadAt i n off => simp only [mstep, mapply]; split <;> exact hg
  | hSeek i off w => simp only [mstep, mapply]; split <;> exact hg
  | hSize i => simp only [mstep, mapply]; split <;> exact hg
  | hWrite i p =>
    simp only [mstep, mapply]
    split
    · rename_i h _
      simp only [hWrite_st]
      split
      · exact hg
      · rename_i b hb; exact good_setData hg (hBlob_some hb).1 _
    · exact hg
  | hWriteAt i p off =>
    simp only [mstep, mapply]
    split
    · rename_i h _
      simp only [hWriteAt_st]
      split
      · exact hg
      · split
        · exact hg
        · rename_i b hb; exact good_setData hg (hBlob_some hb).1 _
    · exact hg

/-! ### what one action can do to the entry of a key -/

/-- `a` is a write through a handle of incarnation `inc` of key `k` -/
def writesInc (m : MState) (a : MAct) (k : Key) (inc : Nat) : Prop :=
  match a with
  | .hWrite i _ => ∃ h, m.hs[i]? = some h ∧ h.key = k ∧ h.inc = inc
  | .hWriteAt i _ _ => ∃ h, m.hs[i]? = some h ∧ h.key = k ∧ h.inc = inc
  | .op (.write k' _ _ _) => k' = k
  | _ => False

/-- an entry after an action is the same incarnation as before — with the same data unless the
    action wrote through a handle of that incarnation — or a fresh incarnation -/
def BlobMStep (m : MState) (a : MAct) (k : Key) (b' : Blob) : Prop :=
  (∃ b, m.st.blobs.get k = some b ∧ b'.inc = b.inc ∧ b'.size = b.size ∧
        (b'.data = b.data ∨ writesInc m a k b.inc)) ∨
  (m.st.blobs.get k = none ∧ b'.inc = m.st.nextInc ∧ m.st.nextInc < (mstep m a).st.nextInc)

theorem blobM_same {m : MState} {a : MAct} {k : Key} {b' : Blob} (h : m.st.blobs.get k = some b') :
    BlobMStep m a k b' := .inl ⟨b', h, rfl, rfl, .inl rfl⟩

theorem setData_get {s : State} {k0 : Key} {b0 : Blob} {d : Bytes} {k : Key} {b' : Blob}
    (h : (setData s k0 b0 d).blobs.get k = some b') :
    (k = k0 ∧ b' = { b0 with data := d }) ∨ (k ≠ k0 ∧ s.blobs.get k = some b') := by
  simp only [setData, BMap.get_set] at h
  split at h
  · rename_i e; simp at h; exact .inl ⟨e, h.symm⟩
  · rename_i e; exact .inr ⟨e, h⟩

theorem mstep_blob (m : MState) (a : MAct) (k : Key) (b' : Blob) (h : (mstep m a).st.blobs.get k = some b') :
    BlobMStep m a k b' := by
  cases a with
  | op o =>
    rcases step_blob m.st o k b' h with ⟨b, hb, hi, hs, hd⟩ | ⟨n, d, ho, hn, hi, _, hnx⟩
    · refine .inl ⟨b, hb, hi, hs, ?_⟩
      rcases hd with hd | ⟨sc, off, p, ho⟩
      · exact .inl hd
      · subst ho; exact .inr rfl
    · exact .inr ⟨hn, hi, by simp only [mstep, mapply]; omega⟩
  | evict =>
    simp only [mstep, mapply, evictFront] at h
    split at h
    · exact blobM_same h
    · split at h
      · exact blobM_same h
      · simp only [evictStep, release, BMap.get_del] at h
        split at h
        · simp at h
        · exact blobM_same h
  | hRead i n => simp only [mstep, mapply] at h; split at h <;> exact blobM_same h
  | hReadAt i n off => simp only [mstep, mapply] at h; split at h <;> exact blobM_same h
  | hSeek i off w => simp only [mstep, mapply] at h; split at h <;> exact blobM_same h
  | hSize i => simp only [mstep, mapply] at h; split at h <;> exact blobM_same h
  | hWrite i p =>
    simp only [mstep, mapply] at h
    split at h
    · rename_i hd hi
      simp only [hWrite_st] at h
      split at h
      · exact blobM_same h
      · rename_i b0 hb0
        obtain ⟨hg0, hinc⟩ := hBlob_some hb0
        rcases setData_get h with ⟨e, hb'⟩ | ⟨_, hold⟩
        · subst e; subst hb'
          exact .inl ⟨b0, hg0, rfl, rfl, .inr ⟨hd, hi, rfl, hinc.symm⟩⟩
        · exact blobM_same hold
    · exact blobM_same h
  | hWriteAt i p off =>
    simp only [mstep, mapply] at h
    split at h
    · rename_i hd hi
      simp only [hWriteAt_st] at h
      split at h
      · exact blobM_same h
      · split at h
        · exact blobM_same h
        · rename_i b0 hb0
          obtain ⟨hg0, hinc⟩ := hBlob_some hb0
          rcases setData_get h with ⟨e, hb'⟩ | ⟨_, hold⟩
          · subst e; subst hb'
            exact .inl ⟨b0, hg0, rfl, rfl, .inr ⟨hd, hi, rfl, hinc.symm⟩⟩
          · exact blobM_same hold
    · exact blobM_same h

theorem mstep_nextInc (m : MState) (a : MAct) : m.st.nextInc ≤ (mstep m a).st.nextInc := by
  cases a with
  | op o => exact step_nextInc m.st o
  | evict =>
    simp only [mstep, mapply, evictFront]
    split
    · exact Nat.le_refl _
    · split <;> exact Nat.le_refl _
  | hRead i n => simp only [mstep, mapply]; split <;> exact Nat.le_refl _
  | hReadAt i n off => simp only [mstep, mapply]; split <;> exact Nat.le_refl _
  | hSeek i off w => simp only [mstep, mapply]; split <;> exact Nat.le_refl _
  | hSize i => simp only [mstep, mapply]; split <;> exact Nat.le_refl _
  | hWrite i p =>
    simp only [mstep, mapply]
    split
    · simp only [hWrite_st]; split <;> exact Nat.le_refl _
    · exact Nat.le_refl _
  | hWriteAt i p off =>
    simp only [mstep, mapply]
    split
    · simp only [hWriteAt_st]
      split
      · exact Nat.le_refl _
      · split <;> exact Nat.le_refl _
    · exact Nat.le_refl _

theorem goodInc_mstep {m : MState} (hg : GoodInc m.st) (a : MAct) : GoodInc (mstep m a).st := by
  have hmono := mstep_nextInc m a
  refine { lt := ?_, inj := ?_ }
  · intro k b' h
    rcases mstep_blob m a k b' h with ⟨b, hb, hi, _, _⟩ | ⟨_, hi, hn⟩
    · have := hg.lt k b hb; omega
    · omega
  · intro k k' b1 b2 h1 h2 he
    rcases mstep_blob m a k b1 h1 with ⟨b, hb, hi, _, _⟩ | ⟨hn1, hi, _⟩
    · rcases mstep_blob m a k' b2 h2 with ⟨c, hc, hj, _, _⟩ | ⟨_, hj, _⟩
      · exact hg.inj k k' b c hb hc (by omega)
      · have := hg.lt k b hb; omega
    · rcases mstep_blob m a k' b2 h2 with ⟨c, hc, hj, _, _⟩ | ⟨hn2, hj, _⟩
      · have := hg.lt k' c hc; omega
      · -- two fresh entries in one step: only `create` makes one, for its own key
        cases a with
        | op o =>
          rcases step_blob m.st o k b1 h1 with ⟨b, hb, _⟩ | ⟨n, d, ho, _⟩
          · simp [hn1] at hb
          · rcases step_blob m.st o k' b2 h2 with ⟨c, hc, _⟩ | ⟨n', d', ho', _⟩
            · simp [hn2] at hc
            · rw [ho] at ho'; cases ho'; rfl
        | evict =>
          rcases mstep_blob m .evict k b1 h1 with ⟨b, hb, _⟩ | ⟨_, _, hlt⟩
          · simp [hn1] at hb
          · have : (mstep m .evict).st.nextInc = m.st.nextInc := by
              simp only [mstep, mapply, evictFront]
              split
              · rfl
              · split <;> rfl
            omega
        | hRead i n => simp only [mstep, mapply] at h1; split at h1 <;> simp [hn1] at h1
        | hReadAt i n off => simp only [mstep, mapply] at h1; split at h1 <;> simp [hn1] at h1
        | hSeek i off w => simp only [mstep, mapply] at h1; split at h1 <;> simp [hn1] at h1
        | hSize i => simp only [mstep, mapply] at h1; split at h1 <;> simp [hn1] at h1
        | hWrite i p =>
          simp only [mstep, mapply] at h1
          split at h1
          · simp only [hWrite_st] at h1
            split at h1
            · simp [hn1] at h1
            · rename_i b0 hb0
              rcases setData_get h1 with ⟨e, _⟩ | ⟨_, hold⟩
              · subst e; simp [(hBlob_some hb0).1] at hn1
              · simp [hn1] at hold
          · simp [hn1] at h1
        | hWriteAt i p off =>
          simp only [mstep, mapply] at h1
          split at h1
          · simp only [hWriteAt_st] at h1
            split at h1
            · simp [hn1] at h1
            · split at h1
              · simp [hn1] at h1
              · rename_i b0 hb0
                rcases setData_get h1 with ⟨e, _⟩ | ⟨_, hold⟩
                · subst e; simp [(hBlob_some hb0).1] at hn1
                · simp [hn1] at hold
          · simp [hn1] at h1

/-! ### handles -/

/-- every handle names an incarnation that has been created -/
def HandlesIssued (m : MState) : Prop := ∀ h ∈ m.hs, h.inc < m.st.nextInc

theorem hRead_id (s : State) (h : Handle) (n : Nat) :
    (hRead s h n).1.key = h.key ∧ (hRead s h n).1.inc = h.inc := by
  unfold hRead
  split
  · exact ⟨rfl, rfl⟩
  · split
    · exact ⟨rfl, rfl⟩
    · split <;> exact ⟨rfl, rfl⟩

theorem hSeek_id (s : State) (h : Handle) (off : Int) (w : Nat) :
    (hSeek s h off w).1.key = h.key ∧ (hSeek s h off w).1.inc = h.inc := by
  unfold hSeek
  split
  · exact ⟨rfl, rfl⟩
  · simp only
    split
    · exact ⟨rfl, rfl⟩
    · split <;> exact ⟨rfl, rfl⟩

theorem hWrite_id (s : State) (h : Handle) (p : Bytes) :
    (hWrite s h p).2.1.key = h.key ∧ (hWrite s h p).2.1.inc = h.inc := by
  unfold hWrite
  split <;> exact ⟨rfl, rfl⟩

/-- the handle table only grows; an entry keeps its key and incarnation (only its offset moves) -/
theorem mstep_handle (m : MState) (a : MAct) (i : Nat) (h : Handle) (hi : m.hs[i]? = some h) :
    ∃ h', (mstep m a).hs[i]? = some h' ∧ h'.key = h.key ∧ h'.inc = h.inc := by
  have hlt : i < m.hs.length := by
    rcases Nat.lt_or_ge i m.hs.length with hl | hl
    · exact hl
    · rw [List.getElem?_eq_none hl] at hi; simp at hi
  have same : ∀ (hs' : List Handle), hs' = m.hs → ∃ h', hs'[i]? = some h' ∧ h'.key = h.key ∧ h'.inc = h.inc :=
    fun hs' e => ⟨h, e ▸ hi, rfl, rfl⟩
  have setc : ∀ (j : Nat) (g g' : Handle), m.hs[j]? = some g → g'.key = g.key → g'.inc = g.inc →
      ∃ h', (m.hs.set j g')[i]? = some h' ∧ h'.key = h.key ∧ h'.inc = h.inc := by
    intro j g g' hj hk hn
    by_cases e : j = i
    · subst e
      rw [hi] at hj; simp at hj; subst hj
      exact ⟨g', by simp [List.getElem?_set, hlt], hk, hn⟩
    · exact ⟨h, by rw [List.getElem?_set_ne e]; exact hi, rfl, rfl⟩
  cases a with
  | op o =>
    refine ⟨h, ?_, rfl, rfl⟩
    simp only [mstep, mapply]
    rw [List.getElem?_append_left hlt]; exact hi
  | evict => exact same _ rfl
  | hRead j n =>
    simp only [mstep, mapply]
    split
    · rename_i g hj
      exact setc j g _ hj (hRead_id _ _ _).1 (hRead_id _ _ _).2
    · exact same _ rfl
  | hReadAt j n off => simp only [mstep, mapply]; split <;> exact same _ rfl
  | hSeek j off w =>
    simp only [mstep, mapply]
    split
    · rename_i g hj
      exact setc j g _ hj (hSeek_id _ _ _ _).1 (hSeek_id _ _ _ _).2
    · exact same _ rfl
  | hSize j => simp only [mstep, mapply]; split <;> exact same _ rfl
  | hWrite j p =>
    simp only [mstep, mapply]
    split
    · rename_i g hj
      exact setc j g _ hj (hWrite_id _ _ _).1 (hWrite_id _ _ _).2
    · exact same _ rfl
  | hWriteAt j p off => simp only [mstep, mapply]; split <;> exact same _ rfl

theorem newHandle_inc (s : State) (o : Op) (h : Handle) (hn : newHandle s o = some h) (hg : GoodInc s) :
    h.inc < (step s o).nextInc := by
  have hmono := step_nextInc s o
  unfold newHandle at hn
  split at hn
  · rename_i k n d inc ev hout
    simp at hn; subst hn
    -- the created blob carries `inc` and is below the new counter
    have hc : (step s (.create k n d)).blobs.get k = some { size := n, data := d, inc := inc } := by
      simp only [output, apply, create] at hout
      simp only [step, apply, create]
      split at hout
      · simp at hout
      · split at hout
        · rename_i s' ev' heq
          simp at hout
          simp only [heq, BMap.get_set_self, hout.1]
        · simp at hout
        · simp at hout
    exact (goodInc_step hg (.create k n d)).lt k _ hc
  · rename_i k sc inc dat hout
    simp at hn; subst hn
    simp only [output, apply, openB] at hout
    split at hout
    · simp at hout
    · rename_i b hl
      have hb := (lookup_ok hl).1
      have : b.inc = inc := by split at hout <;> (simp at hout; exact hout.1)
      have := hg.lt k b hb
      simp only; omega
  · simp at hn

theorem handlesIssued_mstep {m : MState} (hg : GoodInc m.st) (hh : HandlesIssued m) (a : MAct) :
    HandlesIssued (mstep m a) := by
  have hmono := mstep_nextInc m a
  intro h' hm
  obtain ⟨i, hi, hget⟩ := List.mem_iff_getElem.mp hm
  have hget' : (mstep m a).hs[i]? = some h' := by rw [List.getElem?_eq_getElem hi, hget]
  by_cases hlt : i < m.hs.length
  · obtain ⟨h'', h2, _, hinc⟩ := mstep_handle m a i (m.hs[i]) (by rw [List.getElem?_eq_getElem hlt])
    rw [hget'] at h2; simp at h2; subst h2
    have := hh (m.hs[i]) (List.getElem_mem hlt)
    omega
  · -- a new entry: only a store call appends one
    cases a with
    | op o =>
      simp only [mstep, mapply] at hget' ⊢
      rw [List.getElem?_append_right (by omega)] at hget'
      cases hn : newHandle m.st o with
      | none => simp [hn] at hget'
      | some hnew =>
        simp only [hn, Option.toList] at hget'
        have : h' = hnew := by
          cases hidx : i - m.hs.length with
          | zero => simp [hidx] at hget'; exact hget'.symm
          | succ j => simp [hidx] at hget'
        subst this
        exact newHandle_inc m.st o h' hn hg
    | evict => simp only [mstep, mapply] at hi; exact absurd hi hlt
    | hRead j n => simp only [mstep, mapply] at hi; split at hi <;> simp at hi <;> exact absurd hi hlt
    | hReadAt j n off => simp only [mstep, mapply] at hi; split at hi <;> exact absurd hi hlt
    | hSeek j off w => simp only [mstep, mapply] at hi; split at hi <;> simp at hi <;> exact absurd hi hlt
    | hSize j => simp only [mstep, mapply] at hi; split at hi <;> exact absurd hi hlt
    | hWrite j p => simp only [mstep, mapply] at hi; split at hi <;> simp at hi <;> exact absurd hi hlt
    | hWriteAt j p off => simp only [mstep, mapply] at hi; split at hi <;> exact absurd hi hlt

/-- all three invariants of the memory store with handles -/
structure MGood (m : MState) : Prop where
  good : Good m.st
  inc : GoodInc m.st
  issued : HandlesIssued m

theorem mgood_init {cap : Nat} (h : cap < U64) : MGood { st := init cap } :=
  { good := good_init h, inc := goodInc_init cap, issued := by intro h hm; simp at hm }

theorem mgood_mstep {m : MState} (hg : MGood m) (a : MAct) : MGood (mstep m a) :=
  { good := good_mstep hg.good a, inc := goodInc_mstep hg.inc a, issued := handlesIssued_mstep hg.inc hg.issued a }

theorem mgood_run {cap : Nat} (h : cap < U64) (acts : List MAct) : MGood ((msys cap).run acts) :=
  Sys.run_inv (msys cap) MGood (mgood_init h) (fun _ a hg => mgood_mstep hg a) acts

/-- a dead handle of an issued incarnation stays dead across any action -/
theorem dead_mstep {m : MState} (a : MAct) {h : Handle} (hiss : h.inc < m.st.nextInc)
    (hd : hBlob m.st h = none) (h' : Handle) (hk : h'.key = h.key) (hi : h'.inc = h.inc) :
    hBlob (mstep m a).st h' = none := by
  cases hget : (mstep m a).st.blobs.get h'.key with
  | none => exact hBlob_none_of_get_none hget
  | some b' =>
    simp only [hBlob, hget]
    split
    · rename_i e
      exfalso
      rcases mstep_blob m a h'.key b' hget with ⟨b, hb, hinc, _, _⟩ | ⟨_, hinc, _⟩
      · rw [hk] at hb
        have : hBlob m.st h = some b := by simp [hBlob, hb]; omega
        rw [hd] at this; simp at this
      · omega
    · rfl

end KrakenModel.BlobStore
