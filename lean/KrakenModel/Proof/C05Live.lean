import KrakenModel.Proof.C05Ops
/-
  C05 proof library, part 4: what is served is sound, and the on-demand path (a refresh) regenerates
  blob and metainfo whatever a crash left.
-/
set_option linter.unusedSectionVars false
set_option linter.unusedSimpArgs false
set_option linter.unusedVariables false
namespace KrakenModel.OriginCrash
open KrakenModel.FS

/-! ### what is served -/

theorem loadCache_frame (cfg : Cfg) (m : Mem) (fs : FS Name) (n n' : String) :
    (loadCache cfg m fs n).fs.file? (cacheDir n') .data = fs.file? (cacheDir n') .data ∧
    (loadCache cfg m fs n).fs.file? (cacheDir n') .tmeta = fs.file? (cacheDir n') .tmeta := by
  obtain ⟨hn, hfs⟩ := loadCache_calls cfg m fs n
  rw [hfs]; exact neutral_frame_all _ hn fs n'

theorem lockCache_frame (cfg : Cfg) (m : Mem) (fs : FS Name) (n n' : String) :
    (lockCache cfg m fs n).fs.file? (cacheDir n') .data = fs.file? (cacheDir n') .data ∧
    (lockCache cfg m fs n).fs.file? (cacheDir n') .tmeta = fs.file? (cacheDir n') .tmeta := by
  obtain ⟨hn, hfs⟩ := lockCache_calls cfg m fs n
  rw [hfs]; exact neutral_frame_all _ hn fs n'

/-- a blob that is served hashes to its name -/
theorem read_sound {cfg : Cfg} {m : Mem} {fs : FS Name} (g : GoodFS cfg fs) (n : String) (c : Bytes)
    (h : (read cfg m fs n).res = .bytes c) : cfg.digest c = n := by
  unfold read at h
  simp only at h
  split at h
  · cases h
  · split at h
    · cases h
    · rename_i c' hc'
      cases h
      rw [(lockCache_frame cfg m fs n n).1] at hc'
      exact g.dataOK n c hc'

/-- a metainfo that is served is the metainfo of a blob with that name -/
theorem getmeta_sound {cfg : Cfg} (hp : Params cfg) {m : Mem} {fs : FS Name} (g : GoodFS cfg fs) (n : String) (t : Bytes)
    (h : (getmeta cfg m fs n).res = .found t) : ValidMI cfg n t := by
  unfold getmeta at h
  simp only at h
  split at h
  · cases h
  · split at h
    · cases h
    · rename_i t' ht'
      split at h
      · rename_i hok
        cases h
        rw [(loadCache_frame cfg m fs n n).2] at ht'
        rcases g.metaOK n t ht' with ⟨k, hk⟩ | hv
        · rw [hk, hp.zerosBad] at hok; cases hok
        · exact hv
      · cases h

/-- the metainfo lookup answers "found" or "absent", whatever the tree holds (no permanent error) -/
theorem getmeta_total (cfg : Cfg) (m : Mem) (fs : FS Name) (n : String) :
    (getmeta cfg m fs n).res = .absent ∨ ∃ t, (getmeta cfg m fs n).res = .found t := by
  unfold getmeta
  simp only
  split
  · exact Or.inl rfl
  · split
    · exact Or.inl rfl
    · split
      · exact Or.inr ⟨_, rfl⟩
      · exact Or.inl rfl

theorem loadCache_present (cfg : Cfg) (m : Mem) (fs : FS Name) (n : String)
    (h : isCached m n = true ∨ (fs.file? (cacheDir n) .data).isSome = true) : (loadCache cfg m fs n).present = true := by
  unfold loadCache
  split
  · rfl
  · rcases h with h | h
    · rename_i hc; exact absurd h hc
    · simp [h]

theorem lockCache_present (cfg : Cfg) (m : Mem) (fs : FS Name) (n : String)
    (h : isCached m n = true ∨ (fs.file? (cacheDir n) .data).isSome = true) : (lockCache cfg m fs n).present = true := by
  have := loadCache_present cfg m fs n h
  unfold lockCache
  simp only [this, if_true]

theorem read_spec (cfg : Cfg) (m : Mem) (fs : FS Name) (n : String) (c : Bytes)
    (hd : fs.file? (cacheDir n) .data = some c) : (read cfg m fs n).res = .bytes c := by
  unfold read
  simp only [lockCache_present cfg m fs n (Or.inr (by rw [hd]; rfl)), Bool.not_true, Bool.false_eq_true, if_false]
  rw [(lockCache_frame cfg m fs n n).1, hd]

theorem getmeta_spec (cfg : Cfg) (m : Mem) (fs : FS Name) (n : String) (c t : Bytes)
    (hd : fs.file? (cacheDir n) .data = some c) (ht : fs.file? (cacheDir n) .tmeta = some t) (hok : cfg.metaOK t = true) :
    (getmeta cfg m fs n).res = .found t := by
  unfold getmeta
  simp only [loadCache_present cfg m fs n (Or.inr (by rw [hd]; rfl)), Bool.not_true, Bool.false_eq_true, if_false]
  rw [(loadCache_frame cfg m fs n n).2, ht]
  simp [hok]

/-- a directory entry without a blob file is not served -/
theorem read_dangling (cfg : Cfg) (m : Mem) (fs : FS Name) (n : String) (hs : Sync m fs)
    (hd : fs.file? (cacheDir n) .data = none) : (read cfg m fs n).res = .notFound := by
  have hnc : isCached m n = false := by
    cases h : isCached m n with
    | false => rfl
    | true => have := hs n h; rw [hd] at this; cases this
  unfold read lockCache loadCache
  simp [hnc, hd]

/-! ### the steps of a refresh -/

theorem dir?_of_file? {fs : FS Name} {p : Path} {x : Name} (h : (fs.file? p x).isSome = true) : (fs.dir? p).isSome = true := by
  unfold FS.file? at h
  cases hd : fs.dir? p with
  | none => rw [hd] at h; cases h
  | some d => rfl

theorem latPlan_dir (cfg : Cfg) (fs : FS Name) (dir : Path) (hne : dir ≠ []) :
    ((applyAll fs (latPlan cfg fs dir)).dir? dir).isSome = true := by
  unfold latPlan
  split
  · rename_i x t h
    exact dir?_of_file? (x := Name.lat) (by rw [applyAll_nil, h]; rfl)
  · exact dir?_of_file? (x := Name.lat) (by rw [file?_cawPlan fs dir .lat cfg.lat hne]; rfl)

theorem mkdirs_keep_dir (cs : List (Call Name)) (hc : ∀ c ∈ cs, ∃ q, c = Call.mkdir q) (fs : FS Name) (p : Path)
    (h : (fs.dir? p).isSome = true) : ((applyAll fs cs).dir? p).isSome = true := by
  induction cs generalizing fs with
  | nil => exact h
  | cons c cs ih =>
    exact ih (fun c' h' => hc c' (List.mem_cons_of_mem _ h')) _
      (dir?_isSome_apply_mono fs c p (hc c (List.mem_cons_self ..)) h)

theorem ustart_spec (cfg : Cfg) (m : Mem) (fs : FS Name) (u : String) (hu : u ∉ m.uploads) :
    (ustart cfg m fs u).res = .ok ∧ u ∈ (ustart cfg m fs u).mem.uploads ∧ (ustart cfg m fs u).mem.cached = m.cached ∧
    (applyAll fs (ustart cfg m fs u).calls).file? (uploadDir u) .data = some [] := by
  unfold ustart
  simp only [hu, if_false]
  refine ⟨(by first | rfl | trivial), by simp, (by first | rfl | trivial), ?_⟩
  simp only [applyAll_append, applyAll_cons, applyAll_nil]
  have hdir := mkdirs_keep_dir _ (mkdirAllPlan_mkdirs' (applyAll fs (latPlan cfg fs (uploadDir u))) (uploadDir u)) _ _
    (latPlan_dir cfg fs (uploadDir u) (uploadDir_ne_nil u))
  rw [file?_apply_truncate, file?_apply_openTrunc, if_pos hdir]
  simp [truncTo]

theorem uwrite_spec (cfg : Cfg) (m : Mem) (fs : FS Name) (u : String) (b : Bytes) (hu : u ∈ m.uploads)
    (hd : fs.file? (uploadDir u) .data = some []) :
    (uwrite cfg m fs u 0 b).mem = m ∧ (applyAll fs (uwrite cfg m fs u 0 b).calls).file? (uploadDir u) .data = some b := by
  unfold uwrite
  simp only [hu, not_true_eq_false, if_false, hd, Option.isNone_some, Bool.false_eq_true]
  refine ⟨(by first | rfl | trivial), ?_⟩
  have := chunkCalls_append (uploadDir u) cfg.wps (b.length + 1) 0 b fs [] (by omega) hd rfl
  simpa using this

theorem udelete_cached (o : Order Name) (m : Mem) (fs : FS Name) (u : String) (n : String) :
    isCached (udelete o m fs u).1 n = isCached m n := by
  simp [isCached, (udelete_calls o m fs u).2]

theorem commit_spec (cfg : Cfg) (hv : cfg.verify = true) (o : Order Name) (m : Mem) (fs : FS Name) (u n : String) (b : Bytes)
    (hs : Sync m fs) (hu : u ∈ m.uploads) (hd : fs.file? (uploadDir u) .data = some b) (hb : cfg.digest b = n) :
    ((commit cfg o m fs u n).res = .ok ∨ (commit cfg o m fs u n).res = .exist) ∧
    isCached (commit cfg o m fs u n).mem n = true := by
  unfold commit
  have hv' : ¬ (cfg.verify = true ∧ cfg.digest b ≠ n) := by simp [hb]
  simp only [hu, not_true_eq_false, if_false, hd, hv']
  split
  · rename_i hc
    refine ⟨Or.inr rfl, ?_⟩
    rw [udelete_cached]
    exact (touch_sync cfg m fs n hs).2 hc
  · split
    · rename_i hc hp
      refine ⟨Or.inr rfl, ?_⟩
      rw [udelete_cached]
      exact (loadCache_sync cfg m fs n hs).2.1 hp
    · refine ⟨Or.inl rfl, ?_⟩
      rw [udelete_cached]
      simp [isCached, aget_aset_self]

theorem writeMeta_spec {cfg : Cfg} (hp : Params cfg) (m : Mem) (fs : FS Name) (n : String) (src : Option Bytes)
    (g : GoodFS cfg fs) (hs : Sync m fs) (hc : isCached m n = true ∨ (fs.file? (cacheDir n) .data).isSome = true)
    (hsrc : ∀ b, src = some b → cfg.digest b = n) :
    (writeMeta cfg m fs n src).res = .ok ∧ isCached (writeMeta cfg m fs n src).mem n = true ∧
    (applyAll fs (writeMeta cfg m fs n src).calls).file? (cacheDir n) .data = fs.file? (cacheDir n) .data ∧
    ∃ c, (applyAll fs (writeMeta cfg m fs n src).calls).file? (cacheDir n) .data = some c ∧ cfg.digest c = n ∧
      (applyAll fs (writeMeta cfg m fs n src).calls).file? (cacheDir n) .tmeta = some (cfg.genMI c) := by
  obtain ⟨hn, hfs⟩ := lockCache_calls cfg m fs n
  obtain ⟨l1, l2, _⟩ := lockCache_sync cfg m fs n hs
  have hpres := lockCache_present cfg m fs n hc
  have hcl := l2 hpres
  have hdl := l1 n hcl
  unfold writeMeta
  simp only [hpres, Bool.not_true, Bool.false_eq_true, if_false]
  cases hdc : (lockCache cfg m fs n).fs.file? (cacheDir n) .data with
  | none => rw [hdc] at hdl; cases hdl
  | some c =>
    simp only
    have gl : GoodFS cfg (lockCache cfg m fs n).fs := by rw [hfs]; exact neutral_all g _ hn
    have hdig : cfg.digest c = n := gl.dataOK n c hdc
    refine ⟨(by first | rfl | trivial), hcl, ?_, c, ?_, hdig, ?_⟩
    · simp only [applyAll_append]; rw [← hfs, file?_cawPlan_other_all _ _ _ _ _ _ _ (by simp)]
      exact (lockCache_frame cfg m fs n n).1
    · simp only [applyAll_append]; rw [← hfs, file?_cawPlan_other_all _ _ _ _ _ _ _ (by simp)]; exact hdc
    · simp only [applyAll_append]; rw [← hfs, file?_cawPlan _ _ _ _ (cacheDir_ne_nil n)]
      congr 1
      cases src with
      | none => rfl
      | some b' => exact hp.miByName _ _ ((hsrc b' rfl).trans hdig.symm)

/-- the on-demand path: whatever the tree holds (within the invariant), a refresh with the blob's bytes
succeeds and leaves the blob readable with its metainfo in place -/
theorem refresh_regenerates {cfg : Cfg} (hp : Params cfg) (o : Order Name) (m : Mem) (fs : FS Name) (n : String) (b : Bytes)
    (g : GoodFS cfg fs) (hs : Sync m fs) (hb : cfg.digest b = n) (hfresh : tmpName n ∉ m.uploads) :
    (refresh cfg o m fs n b).res = .ok ∧ isCached (refresh cfg o m fs n b).mem n = true ∧
    ∃ c, (applyAll fs (refresh cfg o m fs n b).calls).file? (cacheDir n) .data = some c ∧ cfg.digest c = n ∧
      (applyAll fs (refresh cfg o m fs n b).calls).file? (cacheDir n) .tmeta = some (cfg.genMI c) := by
  unfold refresh
  simp only
  obtain ⟨a1, a2, a3, a4⟩ := ustart_spec cfg m fs (tmpName n) hfresh
  have k1 := ustart_ok cfg m fs (tmpName n)
  generalize ustart cfg m fs (tmpName n) = r1 at a1 a2 a3 a4 k1 ⊢
  simp only [a1, ne_eq, not_true_eq_false, if_false]
  have g1 : GoodFS cfg (applyAll fs r1.calls) := all_of_prefix _ _ _ (k1.pre g)
  have s1 : Sync r1.mem (applyAll fs r1.calls) := k1.sync hs
  obtain ⟨b1, b2⟩ := uwrite_spec cfg r1.mem (applyAll fs r1.calls) (tmpName n) b a2 a4
  have k2 := uwrite_ok cfg r1.mem (applyAll fs r1.calls) (tmpName n) 0 b
  generalize uwrite cfg r1.mem (applyAll fs r1.calls) (tmpName n) 0 b = r2 at b1 b2 k2 ⊢
  have g2 : GoodFS cfg (applyAll (applyAll fs r1.calls) r2.calls) := all_of_prefix _ _ _ (k2.pre g1)
  have s2 : Sync r2.mem (applyAll (applyAll fs r1.calls) r2.calls) := k2.sync s1
  obtain ⟨c1, c2⟩ := commit_spec cfg hp.verify o r2.mem (applyAll (applyAll fs r1.calls) r2.calls) (tmpName n) n b s2
    (by rw [b1]; exact a2) b2 hb
  have k3 := commit_ok cfg hp.verify o r2.mem (applyAll (applyAll fs r1.calls) r2.calls) (tmpName n) n
  generalize commit cfg o r2.mem (applyAll (applyAll fs r1.calls) r2.calls) (tmpName n) n = r3 at c1 c2 k3 ⊢
  have g3 := all_of_prefix _ _ _ (k3.pre g2)
  have s3 := k3.sync s2
  have hres : ¬(r3.res ≠ Res.ok ∧ r3.res ≠ Res.exist) := by
    rcases c1 with h | h <;> simp [h]
  simp only [hres, if_false]
  obtain ⟨w1, w2, _, c, w3, w4, w5⟩ := writeMeta_spec hp r3.mem _ n
    (if cfg.mem = true ∧ (cfg.verify = false ∨ cfg.digest b = n) then some b else none)
    g3 s3 (Or.inl c2) (fun b' hb' => by
      split at hb'
      · cases hb'; exact hb
      · cases hb')
  refine ⟨w1, w2, c, ?_, w4, ?_⟩
  · simpa only [applyAll_append] using w3
  · simpa only [applyAll_append] using w5

/-! ### the metainfo request of the origin -/

theorem getmeta_neutral (cfg : Cfg) (m : Mem) (fs : FS Name) (n : String) : ∀ c ∈ (getmeta cfg m fs n).calls, Neutral c := by
  obtain ⟨hn, _⟩ := loadCache_calls cfg m fs n
  unfold getmeta
  simp only
  split
  · simp
  · split <;> exact hn

/-- a blob that is cached has its metainfo served by the request, whatever sidecar a crash left and
whether or not the backend holds the blob -/
theorem metareq_serves_cached {cfg : Cfg} (hp : Params cfg) (o : Order Name) (m : Mem) (fs : FS Name) (n : String) (c : Bytes)
    (backend : Option Bytes) (g : GoodFS cfg fs) (hs : Sync m fs) (hd : fs.file? (cacheDir n) .data = some c) :
    (metareq cfg o m fs n backend).res = .found (cfg.genMI c) := by
  have hdig : cfg.digest c = n := g.dataOK n c hd
  unfold metareq
  simp only
  have k1 := getmeta_ok cfg m fs n
  have hn1 := getmeta_neutral cfg m fs n
  have hsound := getmeta_sound (m := m) hp g n
  generalize getmeta cfg m fs n = g1 at k1 hn1 hsound ⊢
  split
  · rename_i t ht
    obtain ⟨b, hb, rfl⟩ := hsound t ht
    rw [hp.miByName _ _ (hb.trans hdig.symm)]
  · have g1' : GoodFS cfg (applyAll fs g1.calls) := all_of_prefix _ _ _ (k1.pre g)
    have s1 : Sync g1.mem (applyAll fs g1.calls) := k1.sync hs
    have hd1 : (applyAll fs g1.calls).file? (cacheDir n) .data = some c := by
      rw [(neutral_frame_all _ hn1 fs n).1]; exact hd
    have hpres := loadCache_present cfg g1.mem (applyAll fs g1.calls) n (Or.inr (by rw [hd1]; rfl))
    simp only [hpres, if_true]
    obtain ⟨_, _, w3, c', w4, _, w5⟩ := writeMeta_spec hp g1.mem (applyAll fs g1.calls) n none g1' s1
      (Or.inr (by rw [hd1]; rfl)) (fun _ h => by cases h)
    have hcc : c' = c := by rw [w3, hd1] at w4; cases w4; rfl
    subst hcc
    have := getmeta_spec cfg (writeMeta cfg g1.mem (applyAll fs g1.calls) n none).mem
      (applyAll (applyAll fs g1.calls) (writeMeta cfg g1.mem (applyAll fs g1.calls) n none).calls) n c' _ w4 w5 (hp.miGood c')
    simp only [genmeta, this]

/-- a blob that is not cached but held by the backend: the request starts the refresh (202), after
which the request is served -/
theorem metareq_fetches {cfg : Cfg} (hp : Params cfg) (o o' : Order Name) (m : Mem) (fs : FS Name) (n : String) (b : Bytes)
    (backend' : Option Bytes) (g : GoodFS cfg fs) (hs : Sync m fs) (hd : fs.file? (cacheDir n) .data = none)
    (hb : cfg.digest b = n) (hfresh : tmpName n ∉ m.uploads) :
    (metareq cfg o m fs n (some b)).res = .accepted ∧
    ∃ c, cfg.digest c = n ∧
      (metareq cfg o' (metareq cfg o m fs n (some b)).mem (applyAll fs (metareq cfg o m fs n (some b)).calls) n backend').res =
        .found (cfg.genMI c) := by
  have hnc : isCached m n = false := by
    cases h : isCached m n with
    | false => rfl
    | true => have := hs n h; rw [hd] at this; cases this
  have hg : getmeta cfg m fs n = ⟨m, [], .absent⟩ := by
    unfold getmeta loadCache
    simp [hnc, hd]
  have hl : (loadCache cfg m fs n).present = false := by
    unfold loadCache
    simp [hnc, hd]
  have hm : metareq cfg o m fs n (some b) =
      ⟨(refresh cfg o m fs n b).mem, (refresh cfg o m fs n b).calls, .accepted⟩ := by
    unfold metareq
    simp only [hg, applyAll_nil, hl, Bool.false_eq_true, if_false, List.nil_append]
  obtain ⟨_, r2, c, r3, r4, _⟩ := refresh_regenerates hp o m fs n b g hs hb hfresh
  have k := refresh_ok hp o m fs n b
  rw [hm]
  refine ⟨rfl, c, r4, ?_⟩
  exact metareq_serves_cached hp o' _ _ n c backend' (all_of_prefix _ _ _ (k.pre g)) (k.sync hs) r3

end KrakenModel.OriginCrash
