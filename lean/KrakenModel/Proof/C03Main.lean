import KrakenModel.Proof.C03Steps
/-
  C03 helper lemmas, part 4: `stepThread`, `spawn`, `reopen` and `init` establish / preserve `Good`;
  consequences of `Good` used by the Spec file.  Core Lean only.
-/
namespace KrakenModel.Proof.C03
open KrakenModel.AgentTorrent

variable {crc : Bytes → Nat} {pl : Nat} {blob : Bytes}

theorem count_le_numPieces {s : State} (hg : Good crc pl blob s) :
    s.pieces.count PStatus.complete ≤ numPiecesOf pl blob.length := by
  rw [← hg.len_pieces]; exact List.count_le_length

/-- `numComplete` reaching the number of pieces means every piece is complete -/
theorem all_complete_of_num {s : State} (hg : Good crc pl blob s) (h : s.pieces.length ≤ s.numComplete) :
    ∀ i, i < s.pieces.length → s.pieces[i]? = some PStatus.complete := by
  have h1 := hg.num
  have h2 : s.pieces.count PStatus.complete ≤ s.pieces.length := List.count_le_length
  have h3 : s.pieces.count PStatus.complete = s.pieces.length := by omega
  have h4 := List.count_eq_length.mp h3
  intro i hi
  rw [List.getElem?_eq_getElem hi]
  congr 1
  exact (h4 _ (List.getElem_mem hi)).symm

theorem stepThread_good (hpl : 0 < pl) {s : State} (hg : Good crc pl blob s) (tid k : Nat) :
    Good crc pl blob (stepThread crc s tid k) := by
  unfold stepThread
  cases ht : s.threads[tid]? with
  | none => exact hg
  | some t =>
    simp only
    have htok := hg.thr tid t ht
    have hmi := hg.mi_eq
    cases hpc : t.pc <;> simp only
    case start =>
      split
      · exact good_finish hg ht (by rw [hpc]; rfl) (by rw [hpc]; simp)
      · split
        · exact good_finish hg ht (by rw [hpc]; rfl) (by rw [hpc]; simp)
        · rename_i h1 h3
          apply good_local hg ht
          · refine ⟨htok.sep, ?_⟩
            simp only
            have hidx : t.pi = ((t.pi.toNat : Nat) : Int) := by omega
            have hlt : t.pi.toNat < numPiecesOf pl blob.length := by rw [← hg.len_pieces]; omega
            refine ⟨hlt, ?_, hidx⟩
            have h4 : (t.payload.length : Int) = s.mi.pieceLength t.pi := by
              rcases Decidable.em ((t.payload.length : Int) = s.mi.pieceLength t.pi) with h | h
              · exact h
              · exact absurd h h3
            rw [hmi, hidx, pieceLength_ofBlob crc pl blob hpl _ hlt] at h4
            exact Int.ofNat.inj h4
          · intro h; simp [holds] at h
          · rw [hpc]; simp
          · simp
          · rw [hpc]; intro h; cases h
    case fastComplete =>
      have hv : Valid pl blob t := by have := htok.2; simpa [hpc] using this
      cases hp : s.pieces[t.idx]? with
      | none => exact good_finish hg ht (by rw [hpc]; rfl) (by rw [hpc]; simp)
      | some st =>
        simp only
        split
        · exact good_finish hg ht (by rw [hpc]; rfl) (by rw [hpc]; simp)
        · apply good_local hg ht
          · exact ⟨htok.sep, hv⟩
          · intro h; simp [holds] at h
          · rw [hpc]; simp
          · simp
          · rw [hpc]; intro h; cases h
    case fastDirty =>
      have hv : Valid pl blob t := by have := htok.2; simpa [hpc] using this
      cases hp : s.pieces[t.idx]? with
      | none => exact good_finish hg ht (by rw [hpc]; rfl) (by rw [hpc]; simp)
      | some st =>
        simp only
        split
        · exact good_finish hg ht (by rw [hpc]; rfl) (by rw [hpc]; simp)
        · apply good_local hg ht
          · exact ⟨htok.sep, hv⟩
          · intro h; simp [holds] at h
          · rw [hpc]; simp
          · simp
          · rw [hpc]; intro h; cases h
    case tryDirty =>
      cases hp : s.pieces[t.idx]? with
      | none => exact good_finish hg ht (by rw [hpc]; rfl) (by rw [hpc]; simp)
      | some st =>
        cases st with
        | empty => exact good_tryDirty hg ht hpc hp
        | dirty => exact good_finish hg ht (by rw [hpc]; rfl) (by rw [hpc]; simp)
        | complete => exact good_finish hg ht (by rw [hpc]; rfl) (by rw [hpc]; simp)
    case openFile =>
      obtain ⟨hv, hd, hst⟩ : Valid pl blob t ∧ s.pieces[t.idx]? = some .dirty ∧ s.status[t.idx]? ≠ some 1 := by
        have := htok.2; simpa [hpc] using this
      split
      · apply good_local hg ht
        · exact ⟨htok.sep, hv, hd, hst⟩
        · intro _; exact ⟨by rw [hpc]; rfl, rfl⟩
        · rw [hpc]; simp
        · simp
        · intro _; rfl
      · apply good_local hg ht
        · refine ⟨htok.sep, hv, hd, hst, Nat.zero_le _, ?_⟩
          intro j hj; exact absurd hj (Nat.not_lt_zero j)
        · intro _; exact ⟨by rw [hpc]; rfl, rfl⟩
        · rw [hpc]; simp
        · simp
        · intro _; rfl
    case writing =>
      obtain ⟨hv, hd, hst, hw, hfile⟩ : Valid pl blob t ∧ s.pieces[t.idx]? = some .dirty ∧ s.status[t.idx]? ≠ some 1 ∧
          t.written ≤ t.payload.length ∧ ∀ j, j < t.written → s.file[pl * t.idx + j]? = t.payload[j]? := by
        have := htok.2; simpa [hpc] using this
      split
      · apply good_local hg ht
        · refine ⟨htok.sep, hv, hd, hst, ?_⟩
          intro j hj
          have hj' : j < t.payload.length := hj
          exact hfile j (by omega)
        · intro _; exact ⟨by rw [hpc]; rfl, rfl⟩
        · rw [hpc]; simp
        · simp
        · intro _; rfl
      · have h := good_writing k hpl hg ht hpc
        rw [hpc] at h
        exact h
    case checksum =>
      obtain ⟨hv, hd, hst, hfile⟩ : Valid pl blob t ∧ s.pieces[t.idx]? = some .dirty ∧ s.status[t.idx]? ≠ some 1 ∧
          ∀ j, j < t.payload.length → s.file[pl * t.idx + j]? = t.payload[j]? := by
        have := htok.2; simpa [hpc] using this
      have hsum : s.mi.sums[t.idx]? = some (crc (pieceOf pl blob t.idx)) := by
        rw [hmi]; exact sums_ofBlob crc pl blob t.idx hv.1
      rw [hsum]
      simp only
      split
      · apply good_local hg ht
        · exact ⟨htok.sep, hv, hd, hst⟩
        · intro _; exact ⟨by rw [hpc]; rfl, rfl⟩
        · rw [hpc]; simp
        · simp
        · intro _; rfl
      · rename_i hcrc
        have hcrc' : crc t.payload = crc (pieceOf pl blob t.idx) := by
          rcases Decidable.em (crc t.payload = crc (pieceOf pl blob t.idx)) with h | h
          · exact h
          · exact absurd h hcrc
        have hpay : t.payload = pieceOf pl blob t.idx := by
          have h := htok.sep
          unfold SepPayload at h
          rw [hv.2.2] at h
          exact h (by omega) hv.2.1 hcrc'
        apply good_local hg ht
        · refine ⟨htok.sep, hv, hd, hst, ?_⟩
          intro j hj
          by_cases hjl : j < t.payload.length
          · rw [hfile j hjl, hpay, getElem?_pieceOf, if_pos hj]
          · -- beyond the (short, last) piece both the file and the blob have ended
            have hlen := hv.2.1
            rw [length_pieceOf] at hlen
            have h1 : blob.length ≤ pl * t.idx + j := by omega
            rw [List.getElem?_eq_none (by rw [hg.len_file]; exact h1), List.getElem?_eq_none h1]
        · intro _; exact ⟨by rw [hpc]; rfl, rfl⟩
        · rw [hpc]; simp
        · simp
        · intro _; rfl
    case setMeta =>
      obtain ⟨hv, hd, hst, hfile⟩ : Valid pl blob t ∧ s.pieces[t.idx]? = some .dirty ∧ s.status[t.idx]? ≠ some 1 ∧
          ∀ j, j < pl → s.file[pl * t.idx + j]? = blob[pl * t.idx + j]? := by
        have := htok.2; simpa [hpc] using this
      split
      · apply good_local hg ht
        · exact ⟨htok.sep, hv, hd, hst⟩
        · intro _; exact ⟨by rw [hpc]; rfl, rfl⟩
        · rw [hpc]; simp
        · simp
        · intro _; rfl
      · exact good_setMeta hg ht hpc
    case markComplete =>
      obtain ⟨hv, hd, hst⟩ : Valid pl blob t ∧ s.pieces[t.idx]? = some .dirty ∧ s.status[t.idx]? = some 1 := by
        have := htok.2; simpa [hpc] using this
      rw [if_pos (lt_of_getElem?_some hd)]
      exact good_markComplete hg ht hpc
    case incNum =>
      have htlt : tid < s.threads.length := lt_of_getElem?_some ht
      have htget := getElem_of_getElem? ht htlt
      have hpos : 0 < s.threads.countP (fun t => t.pc = PC.incNum) :=
        List.countP_pos_iff.mpr ⟨t, by rw [← htget]; exact List.getElem_mem htlt, by simp [hpc]⟩
      have := good_flags (crc := crc) (pl := pl) (blob := blob) (s := s) (tid := tid) (t := t)
        (t' := { t with pc := .loadNum }) (s.numComplete + 1) s.inCache s.committed hg ht
        (by rw [hpc]; rfl) rfl (Nat.le_succ _) id ⟨htok.sep, trivial⟩
        (by rw [List.countP_set htlt, htget]; have := hg.num; simp [hpc]; omega)
        (fun h => Nat.le_trans (hg.cache_num h) (Nat.le_succ _)) hg.committed_cache
      exact this
    case loadNum =>
      split
      · rename_i hnum
        apply good_local hg ht
        · exact ⟨htok.sep, by simp only; omega⟩
        · intro h; simp [holds] at h
        · rw [hpc]; simp
        · simp
        · rw [hpc]; intro h; cases h
      · exact good_finish hg ht (by rw [hpc]; rfl) (by rw [hpc]; simp)
    case move =>
      have hn : s.pieces.length ≤ s.numComplete := by have := htok.2; simpa [hpc] using this
      have := good_flags (crc := crc) (pl := pl) (blob := blob) (s := s) (tid := tid) (t := t)
        (t' := { t with pc := .setCommitted }) s.numComplete true s.committed hg ht
        (by rw [hpc]; rfl) rfl (Nat.le_refl _) (fun _ => rfl) ⟨htok.sep, hn, rfl⟩
        (by rw [countP_set_same ht _ (by simp [hpc])]; exact hg.num)
        (fun _ => hn) (fun _ => rfl)
      exact this
    case setCommitted =>
      obtain ⟨hn, hic⟩ : s.pieces.length ≤ s.numComplete ∧ s.inCache = true := by
        have := htok.2; simpa [hpc] using this
      have := good_flags (crc := crc) (pl := pl) (blob := blob) (s := s) (tid := tid) (t := t)
        (t' := finish t .ok) s.numComplete s.inCache true hg ht
        (by rw [hpc]; rfl) rfl (Nat.le_refl _) id ⟨htok.sep, by simp [finish]⟩
        (by rw [countP_set_same ht _ (by simp [hpc, finish])]; exact hg.num)
        hg.cache_num (fun _ => hic)
      exact this
    case markEmpty =>
      obtain ⟨hv, hd, hst⟩ : Valid pl blob t ∧ s.pieces[t.idx]? = some .dirty ∧ s.status[t.idx]? ≠ some 1 := by
        have := htok.2; simpa [hpc] using this
      rw [if_pos (lt_of_getElem?_some hd)]
      exact good_markEmpty hg ht hpc
    case done => exact hg


theorem spawn_good {s : State} (hg : Good crc pl blob s) (pi : Int) (payload : Bytes)
    (hsep : SepPayload crc pl blob pi payload) :
    Good crc pl blob { s with threads := s.threads ++ [{ pi := pi, payload := payload }] } := by
  have hget : ∀ (a : Nat) (u : Thread), (s.threads ++ [({ pi := pi, payload := payload } : Thread)])[a]? = some u →
      s.threads[a]? = some u ∨ u = { pi := pi, payload := payload } := by
    intro a u hu
    rw [List.getElem?_append] at hu
    split at hu
    · exact Or.inl hu
    · right
      cases h : a - s.threads.length with
      | zero => rw [h] at hu; simp at hu; exact hu.symm
      | succ n => rw [h] at hu; simp at hu
  refine { mi_eq := hg.mi_eq, len_pieces := hg.len_pieces, len_status := hg.len_status, len_file := hg.len_file,
           status_good := hg.status_good, complete_status := hg.complete_status, empty_status := hg.empty_status,
           thr := ?_, excl := ?_, owned := ?_, num := ?_, cache_num := hg.cache_num,
           committed_cache := hg.committed_cache }
  · intro a u hu
    rcases hget a u hu with h | h
    · exact (hg.thr a u h).frame (fun _ => rfl) (fun _ => rfl) (fun _ _ _ => rfl) (Nat.le_refl _) rfl id
    · subst h; exact ⟨hsep, trivial⟩
  · intro a b ta tb ha hb hab hha hhb
    rcases hget a ta ha with h1 | h1
    · rcases hget b tb hb with h2 | h2
      · exact hg.excl a b ta tb h1 h2 hab hha hhb
      · subst h2; simp [holds] at hhb
    · subst h1; simp [holds] at hha
  · intro i hi
    obtain ⟨a, u, hu, huh, hui⟩ := hg.owned i hi
    refine ⟨a, u, ?_, huh, hui⟩
    show (s.threads ++ _)[a]? = some u
    rw [List.getElem?_append, if_pos (lt_of_getElem?_some hu)]; exact hu
  · show s.numComplete + (s.threads ++ _).countP _ = _
    rw [List.countP_append]
    simpa using hg.num

theorem quiescent_done {s : State} (hq : quiescent s = true) (a : Nat) (u : Thread)
    (hu : s.threads[a]? = some u) : u.pc = .done := by
  simp only [quiescent, List.all_eq_true] at hq
  have hlt := lt_of_getElem?_some hu
  have := hq u (by rw [← getElem_of_getElem? hu hlt]; exact List.getElem_mem hlt)
  simpa [Thread.isDone] using this

theorem quiescent_countP {s : State} (hq : quiescent s = true) :
    s.threads.countP (fun t => t.pc = PC.incNum) = 0 := by
  rw [List.countP_eq_zero]
  intro u hu
  simp only [quiescent, List.all_eq_true] at hq
  have := hq u hu
  simp [Thread.isDone] at this
  simp [this]

theorem openTorrent_eq_core {s : State} (hg : Good crc pl blob s) : openTorrent s = openTorrentCore s := by
  unfold openTorrent
  rw [if_pos (Or.inr (by rw [hg.len_status, hg.mi_eq]; exact (numPieces_ofBlob crc pl blob).symm))]

theorem reopen_good {s : State} (hg : Good crc pl blob s) (hq : quiescent s = true) :
    Good crc pl blob (openTorrent s) := by
  rw [openTorrent_eq_core hg]
  have hdone := quiescent_done hq
  have hcnt := quiescent_countP hq
  have hthr : ∀ (s' : State), s'.threads = s.threads → ∀ (a : Nat) (u : Thread), s'.threads[a]? = some u →
      TOK crc pl blob s' u := by
    intro s' hs' a u hu
    rw [hs'] at hu
    have hd := hdone a u hu
    exact ⟨(hg.thr a u hu).sep, by simp [hd]⟩
  have hexcl : ∀ (a b : Nat) (ta tb : Thread), s.threads[a]? = some ta → s.threads[b]? = some tb → a ≠ b →
      holds ta.pc = true → holds tb.pc = true → ta.idx ≠ tb.idx := by
    intro a b ta tb ha _ _ hha _
    rw [hdone a ta ha] at hha; simp [holds] at hha
  have hnp : s.mi.numPieces = numPiecesOf pl blob.length := by
    rw [hg.mi_eq]; exact numPieces_ofBlob crc pl blob
  unfold openTorrentCore
  split
  · rename_i hic
    have hall := all_complete_of_num hg (hg.cache_num hic)
    refine { mi_eq := hg.mi_eq, len_pieces := ?_, len_status := hg.len_status, len_file := hg.len_file,
             status_good := hg.status_good, complete_status := ?_, empty_status := ?_, thr := hthr _ rfl,
             excl := hexcl, owned := ?_, num := ?_, cache_num := ?_, committed_cache := fun _ => hic }
    · simp [hnp]
    · intro i hi
      have hi' : i < s.pieces.length := by
        have := lt_of_getElem?_some hi
        simp [hnp] at this; rw [hg.len_pieces]; exact this
      exact hg.complete_status i (hall i hi')
    · intro i hi
      simp only at hi
      rw [List.getElem?_replicate] at hi
      split at hi <;> cases hi
    · intro i hi
      simp only at hi
      rw [List.getElem?_replicate] at hi
      split at hi <;> cases hi
    · simp only [hcnt]
      simp
    · intro _; simp [hnp]
  · rename_i hic
    have hmapc : ∀ (i : Nat), (s.status.map fun b => if b = 1 then PStatus.complete else PStatus.empty)[i]? = some PStatus.complete →
        s.status[i]? = some 1 := by
      intro i hi
      rw [List.getElem?_map] at hi
      cases hsi : s.status[i]? with
      | none => rw [hsi] at hi; cases hi
      | some b =>
        rw [hsi] at hi; simp at hi
        by_cases hb : b = 1
        · rw [hb]
        · simp [hb] at hi
    have hmape : ∀ (i : Nat), (s.status.map fun b => if b = 1 then PStatus.complete else PStatus.empty)[i]? = some PStatus.empty →
        s.status[i]? ≠ some 1 := by
      intro i hi h1
      rw [List.getElem?_map, h1] at hi
      simp at hi
    have hmapd : ∀ (i : Nat), (s.status.map fun b => if b = 1 then PStatus.complete else PStatus.empty)[i]? ≠ some PStatus.dirty := by
      intro i hi
      rw [List.getElem?_map] at hi
      cases hsi : s.status[i]? with
      | none => rw [hsi] at hi; cases hi
      | some b =>
        rw [hsi] at hi; simp at hi
        by_cases hb : b = 1 <;> simp [hb] at hi
    simp only
    split
    · rename_i hnc
      refine { mi_eq := hg.mi_eq, len_pieces := ?_, len_status := hg.len_status, len_file := hg.len_file,
               status_good := hg.status_good, complete_status := hmapc, empty_status := hmape, thr := hthr _ rfl,
               excl := hexcl, owned := ?_, num := ?_, cache_num := ?_, committed_cache := fun _ => rfl }
      · simp [hg.len_status]
      · intro i hi; exact absurd hi (hmapd i)
      · simp only [hcnt]; simp
      · intro _; simp only; omega
    · rename_i hnc
      refine { mi_eq := hg.mi_eq, len_pieces := ?_, len_status := hg.len_status, len_file := hg.len_file,
               status_good := hg.status_good, complete_status := hmapc, empty_status := hmape, thr := hthr _ rfl,
               excl := hexcl, owned := ?_, num := ?_, cache_num := ?_, committed_cache := ?_ }
      · simp [hg.len_status]
      · intro i hi; exact absurd hi (hmapd i)
      · simp only [hcnt]; simp
      · intro h; simp only at h; rw [h] at hic; exact absurd rfl hic
      · intro h; cases h

/-- the state before the first `NewTorrent`: a zero-filled download file and a zero `_status` -/
def fresh (mi : MetaInfo) : State :=
  { mi := mi, pieces := [], file := List.replicate mi.length 0, inCache := false,
    status := List.replicate mi.numPieces 0, numComplete := 0, committed := false, threads := [] }

/-- a torrent opened over an all-zero status vector of the right length (a fresh file, or a status
    vector that was discarded) satisfies the invariant whatever the data file holds -/
theorem zero_status_good (crc : Bytes → Nat) (pl : Nat) (blob : Bytes) (f : Bytes) (hf : f.length = blob.length)
    (p0 : List PStatus) (n0 : Nat) (c0 : Bool) :
    Good crc pl blob (openTorrentCore
      { mi := MetaInfo.ofBlob crc pl blob, pieces := p0, file := f, inCache := false,
        status := List.replicate (MetaInfo.ofBlob crc pl blob).numPieces 0, numComplete := n0, committed := c0,
        threads := [] }) := by
  have hnp : (MetaInfo.ofBlob crc pl blob).numPieces = numPiecesOf pl blob.length := numPieces_ofBlob crc pl blob
  have hrep : ∀ (n i : Nat), (List.replicate n 0 : Bytes)[i]? ≠ some 1 := by
    intro n i h
    rw [List.getElem?_replicate] at h
    split at h <;> simp at h
  have hmapc : ∀ (n i : Nat), ((List.replicate n 0 : Bytes).map fun b => if b = 1 then PStatus.complete else PStatus.empty)[i]? ≠ some PStatus.complete := by
    intro n i h
    rw [List.getElem?_map, List.getElem?_replicate] at h
    split at h <;> simp at h
  have hmapd : ∀ (n i : Nat), ((List.replicate n 0 : Bytes).map fun b => if b = 1 then PStatus.complete else PStatus.empty)[i]? ≠ some PStatus.dirty := by
    intro n i h
    rw [List.getElem?_map, List.getElem?_replicate] at h
    split at h <;> simp at h
  unfold openTorrentCore
  simp only [Bool.false_eq_true, if_false]
  split
  · refine { mi_eq := rfl, len_pieces := ?_, len_status := ?_, len_file := ?_, status_good := ?_,
             complete_status := ?_, empty_status := ?_, thr := ?_, excl := ?_, owned := ?_, num := ?_,
             cache_num := ?_, committed_cache := fun _ => rfl }
    · simp [hnp]
    · simp [hnp]
    · exact hf
    · intro i hi; exact absurd hi (hrep _ i)
    · intro i hi; exact absurd hi (hmapc _ i)
    · intro i _; exact hrep _ i
    · intro a u hu; simp at hu
    · intro a b ta tb ha; simp at ha
    · intro i hi; exact absurd hi (hmapd _ i)
    · simp
    · intro _; simp only; omega
  · refine { mi_eq := rfl, len_pieces := ?_, len_status := ?_, len_file := ?_, status_good := ?_,
             complete_status := ?_, empty_status := ?_, thr := ?_, excl := ?_, owned := ?_, num := ?_,
             cache_num := ?_, committed_cache := ?_ }
    · simp [hnp]
    · simp [hnp]
    · exact hf
    · intro i hi; exact absurd hi (hrep _ i)
    · intro i hi; exact absurd hi (hmapc _ i)
    · intro i _; exact hrep _ i
    · intro a u hu; simp at hu
    · intro a b ta tb ha; simp at ha
    · intro i hi; exact absurd hi (hmapd _ i)
    · simp
    · intro h; cases h
    · intro h; cases h


theorem init_good (crc : Bytes → Nat) (pl : Nat) (blob : Bytes) :
    Good crc pl blob (init (MetaInfo.ofBlob crc pl blob)) := by
  have hnp : (MetaInfo.ofBlob crc pl blob).numPieces = numPiecesOf pl blob.length := numPieces_ofBlob crc pl blob
  have hrep : ∀ (n i : Nat), (List.replicate n 0 : Bytes)[i]? ≠ some 1 := by
    intro n i h
    rw [List.getElem?_replicate] at h
    split at h <;> simp at h
  have hmapc : ∀ (n i : Nat), ((List.replicate n 0 : Bytes).map fun b => if b = 1 then PStatus.complete else PStatus.empty)[i]? ≠ some PStatus.complete := by
    intro n i h
    rw [List.getElem?_map, List.getElem?_replicate] at h
    split at h <;> simp at h
  have hmapd : ∀ (n i : Nat), ((List.replicate n 0 : Bytes).map fun b => if b = 1 then PStatus.complete else PStatus.empty)[i]? ≠ some PStatus.dirty := by
    intro n i h
    rw [List.getElem?_map, List.getElem?_replicate] at h
    split at h <;> simp at h
  have hinit : init (MetaInfo.ofBlob crc pl blob) = openTorrentCore (fresh (MetaInfo.ofBlob crc pl blob)) := by
    unfold init openTorrent fresh
    rw [if_pos (Or.inr (by simp))]
  rw [hinit]
  unfold openTorrentCore fresh
  simp only [Bool.false_eq_true, if_false]
  split
  · refine { mi_eq := rfl, len_pieces := ?_, len_status := ?_, len_file := ?_, status_good := ?_,
             complete_status := ?_, empty_status := ?_, thr := ?_, excl := ?_, owned := ?_, num := ?_,
             cache_num := ?_, committed_cache := fun _ => rfl }
    · simp [hnp]
    · simp [hnp]
    · simp [MetaInfo.ofBlob]
    · intro i hi; exact absurd hi (hrep _ i)
    · intro i hi; exact absurd hi (hmapc _ i)
    · intro i _; exact hrep _ i
    · intro a u hu; simp at hu
    · intro a b ta tb ha; simp at ha
    · intro i hi; exact absurd hi (hmapd _ i)
    · simp
    · intro _; simp only; omega
  · refine { mi_eq := rfl, len_pieces := ?_, len_status := ?_, len_file := ?_, status_good := ?_,
             complete_status := ?_, empty_status := ?_, thr := ?_, excl := ?_, owned := ?_, num := ?_,
             cache_num := ?_, committed_cache := ?_ }
    · simp [hnp]
    · simp [hnp]
    · simp [MetaInfo.ofBlob]
    · intro i hi; exact absurd hi (hrep _ i)
    · intro i hi; exact absurd hi (hmapc _ i)
    · intro i _; exact hrep _ i
    · intro a u hu; simp at hu
    · intro a b ta tb ha; simp at ha
    · intro i hi; exact absurd hi (hmapd _ i)
    · simp
    · intro h; cases h
    · intro h; cases h

/-- per-action precondition: the payload of a `spawn` satisfies checksum separation -/
def SepAction (crc : Bytes → Nat) (pl : Nat) (blob : Bytes) : Action → Prop
  | .spawn pi payload => SepPayload crc pl blob pi payload
  | _ => True

instance (crc : Bytes → Nat) (pl : Nat) (blob : Bytes) (a : Action) : Decidable (SepAction crc pl blob a) := by
  cases a <;> simp only [SepAction] <;> exact inferInstance

theorem step_good (hpl : 0 < pl) {s : State} (hg : Good crc pl blob s) (a : Action)
    (hsep : SepAction crc pl blob a) : Good crc pl blob (step crc s a) := by
  cases a with
  | spawn pi payload => exact spawn_good hg pi payload hsep
  | step tid k => exact stepThread_good hpl hg tid k
  | reopen =>
    simp only [step]
    split
    · rename_i hq; exact reopen_good hg hq
    · exact hg
  | recreate =>
    simp only [step]
    split
    · rw [hg.mi_eq]; exact init_good crc pl blob
    · exact hg
  | tornReopen n =>
    simp only [step]
    split
    · rename_i hq
      split
      · exact reopen_good hg hq.1
      · rename_i hn
        have hnp : s.mi.numPieces = numPiecesOf pl blob.length := by
          rw [hg.mi_eq]; exact numPieces_ofBlob crc pl blob
        have hlen : ¬ (s.status.take n ++ List.replicate (n - s.status.length) 0).length = s.mi.numPieces := by
          simp only [List.length_append, List.length_take, List.length_replicate]
          rw [hnp, ← hg.len_status]; omega
        unfold openTorrent
        rw [if_neg (by simp only [hq.2, Bool.false_eq_true, false_or]; exact hlen)]
        have := zero_status_good crc pl blob s.file hg.len_file s.pieces s.numComplete s.committed
        simp only [hg.mi_eq, hq.2] at this ⊢
        exact this
    · exact hg

/-! ### consequences of the invariant -/

/-- in the cache ⇒ byte-identical to the blob -/
theorem file_eq_blob_of_all_complete (hpl : 0 < pl) {s : State} (hg : Good crc pl blob s)
    (hall : ∀ i, i < s.pieces.length → s.pieces[i]? = some PStatus.complete) : s.file = blob := by
  apply List.ext_getElem?
  intro x
  by_cases hx : x < blob.length
  · obtain ⟨h1, h2, h3⟩ := offset_piece pl blob.length x hpl hx
    have hc := hall (x / pl) (by rw [hg.len_pieces]; exact h1)
    have hs := hg.complete_status _ hc
    have := hg.status_good _ hs (x - pl * (x / pl)) (by omega)
    have hxe : pl * (x / pl) + (x - pl * (x / pl)) = x := by omega
    rw [hxe] at this
    exact this
  · rw [List.getElem?_eq_none (by rw [hg.len_file]; omega), List.getElem?_eq_none (by omega)]

/-- the bytes of a complete piece are the blob's -/
theorem complete_piece_bytes {s : State} (hg : Good crc pl blob s) (i : Nat)
    (hc : s.pieces[i]? = some PStatus.complete) :
    (s.file.drop (pl * i)).take pl = pieceOf pl blob i := by
  apply List.ext_getElem?
  intro j
  rw [getElem?_take_drop, getElem?_pieceOf]
  split
  · rename_i hj; exact hg.status_good i (hg.complete_status i hc) j hj
  · rfl

end KrakenModel.Proof.C03
