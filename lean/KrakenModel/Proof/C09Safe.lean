import KrakenModel.Proof.C09Dead
/-
  C09, part 3: the invariant behind `tiered_safe_partial` — along every schedule that never creates
  a key while the flusher still knows its previous incarnation (`pre`), a completed blob that has not
  been evicted from disk is readable with its bytes and its last metadata update.
-/
namespace KrakenModel.Tiered
open KrakenModel KrakenModel.BlobStore

/-- metadata of a blob agrees with what the clients were told -/
def MdAgree (mds : List Md) (gm : Nat → Option Md) : Prop := ∀ sfx, mdGet mds sfx = gm sfx

/-- worker `w` is working on entry `id` of key `k` (between taking it from the queue and dropping it) -/
def attached (w : Worker) (k : Key) (id : Nat) : Prop :=
  w.key = k ∧ w.ent = id ∧ w.pc ≠ .idle ∧ w.pc ≠ .next ∧ w.pc ≠ .unban

instance (w : Worker) (k : Key) (id : Nat) : Decidable (attached w k id) := by
  unfold attached; exact inferInstance

/-- the disk copy is finished: complete, same bytes -/
def DiskDone (d : Option Blob) (B : Bytes) : Prop := ∃ b, d = some b ∧ b.complete = true ∧ b.data = B

/-- the disk copy is being written: incomplete, no metadata yet -/
def DiskPartial (d : Option Blob) (data : Bytes) (inc : Nat) : Prop :=
  ∃ b, d = some b ∧ b.complete = false ∧ b.data = data ∧ b.mds = [] ∧ b.inc = inc

/-- every suffix is still marked dirty / pending, or the disk already has what memory has -/
def Cover (pending : List Nat) (dmds mmds : List Md) : Prop :=
  ∀ sfx, sfx ∈ pending ∨ mdGet dmds sfx = mdGet mmds sfx

/-- flush state of a dirty, completed blob `m` with bytes `B`, as seen by the worker holding its entry -/
def PhaseW (w : Worker) (m : Blob) (d : Option Blob) (B : Bytes) (dirty : List Nat) : Prop :=
  match w.pc with
  | .fOpen => d = none ∧ Cover dirty [] m.mds
  | .fCreate => d = none ∧ Cover dirty [] m.mds ∧ w.minc = m.inc
  | .fCreated => DiskPartial d [] w.dinc ∧ Cover dirty [] m.mds ∧ w.minc = m.inc
  | .fCopy => DiskPartial d (B.take w.copied) w.dinc ∧ Cover dirty [] m.mds ∧ w.minc = m.inc
  | .fCopyEof => DiskPartial d (B.take w.copied) w.dinc ∧ Cover dirty [] m.mds ∧ w.minc = m.inc
  | .fCopied ev => ev = false ∧ DiskPartial d B w.dinc ∧ Cover dirty [] m.mds
  | .mdSnap => DiskDone d B ∧ ∀ b, d = some b → Cover dirty b.mds m.mds
  | .mdRead todo => DiskDone d B ∧ ∀ b, d = some b → Cover (dirty ++ todo) b.mds m.mds
  | .mdWrite sfx v todo =>
    DiskDone d B ∧ (∀ md, v = some (some md) → md.sfx = sfx) ∧ ∀ b, d = some b →
      ∀ sfx', sfx' ∈ dirty ∨ sfx' ∈ todo ∨
        (if sfx' = sfx then v = some (mdGet m.mds sfx) else mdGet b.mds sfx' = mdGet m.mds sfx')
  | .mdCheck => DiskDone d B ∧ ∀ b, d = some b → Cover dirty b.mds m.mds
  | _ => False

/-- … and while the entry is still waiting in the queue -/
def PhaseQ (e : FEntry) (m : Blob) (d : Option Blob) (B : Bytes) : Prop :=
  if e.dataDirty then d = none ∧ Cover e.dirtyMD [] m.mds
  else DiskDone d B ∧ ∀ b, d = some b → Cover e.dirtyMD b.mds m.mds

def SfxNodup (b : Blob) : Prop := (b.mds.map (·.sfx)).Nodup

/-- everything the invariant says about one key -/
structure KInv (s : GState) (k : Key) : Prop where
  /-- ghost: a completed key is live -/
  gl : (s.g.done k).isSome = true → s.g.live k = true
  /-- flusher entries exist, their ids are below the counter -/
  fresh : ∀ id, fget s.t.fmap k = some id → id < s.t.nextEnt ∧ ∃ e, lookupEnt s.t.ents id = some e ∧ e.key = k
  /-- metadata lists hold one entry per suffix -/
  nd_m : ∀ m, s.t.mem.blobs.get k = some m → SfxNodup m
  nd_d : ∀ d, s.t.disk.blobs.get k = some d → SfxNodup d
  /-- completeness of the stored blobs matches the ghost -/
  cm : ∀ m, s.t.mem.blobs.get k = some m → (m.complete = true ↔ (s.g.done k).isSome = true)
  cd : ∀ d, s.t.disk.blobs.get k = some d → d.complete = true → (s.g.done k).isSome = true
  /-- an incomplete blob lives in exactly one tier, with the bytes and metadata the client wrote -/
  inc_m : ∀ m, s.g.done k = none → s.t.mem.blobs.get k = some m →
    m.data = s.g.content k ∧ MdAgree m.mds (s.g.md k) ∧ s.t.disk.blobs.get k = none
  inc_d : ∀ d, s.g.done k = none → s.t.mem.blobs.get k = none → s.t.disk.blobs.get k = some d →
    d.data = s.g.content k ∧ MdAgree d.mds (s.g.md k)
  /-- a completed blob in memory has its bytes and its last metadata update -/
  done_m : ∀ B m, s.g.done k = some B → k ∉ s.t.diskEvicted → s.t.mem.blobs.get k = some m →
    m.data = B ∧ MdAgree m.mds (s.g.md k)
  /-- … and once it is not dirty (or not in memory) the disk has both -/
  done_d : ∀ B, s.g.done k = some B → k ∉ s.t.diskEvicted →
    (s.t.mem.blobs.get k = none ∨ fget s.t.fmap k = none) →
    ∃ d, s.t.disk.blobs.get k = some d ∧ d.complete = true ∧ d.data = B ∧ MdAgree d.mds (s.g.md k)
  /-- the flush in progress -/
  phw : ∀ (B : Bytes) (m : Blob) (id i : Nat) (w : Worker), s.g.done k = some B → k ∉ s.t.diskEvicted →
    s.t.mem.blobs.get k = some m → fget s.t.fmap k = some id → s.t.workers[i]? = some w → attached w k id →
    PhaseW w m (s.t.disk.blobs.get k) B (dirtyOf s.t id)
  phq : ∀ (B : Bytes) (m : Blob) (id : Nat) (e : FEntry), s.g.done k = some B → k ∉ s.t.diskEvicted →
    s.t.mem.blobs.get k = some m → fget s.t.fmap k = some id → lookupEnt s.t.ents id = some e →
    (∀ (i : Nat) (w : Worker), s.t.workers[i]? = some w → ¬ attached w k id) →
    PhaseQ e m (s.t.disk.blobs.get k) B
  /-- a key with an entry is complete in memory -/
  entc : ∀ id m, fget s.t.fmap k = some id → s.t.mem.blobs.get k = some m → m.complete = true
  /-- queue discipline -/
  q0 : s.g.live k = true → fget s.t.fmap k = none → k ∉ s.t.queue
  q1 : ∀ id, fget s.t.fmap k = some id →
    (s.t.queue.count k = 1 ∧ ∀ (i : Nat) (w : Worker), s.t.workers[i]? = some w → ¬ attached w k id) ∨
    (s.t.queue.count k = 0 ∧ ∃ (i : Nat) (w : Worker), s.t.workers[i]? = some w ∧ attached w k id ∧
        ∀ (j : Nat) (w' : Worker), s.t.workers[j]? = some w' → attached w' k id → j = i)

structure Inv2 (s : GState) : Prop where
  inv1 : Inv1 s
  key : ∀ k, KInv s k
  /-- a worker that lost its entry before the end works on a key that is gone -/
  det : ∀ (i : Nat) (w : Worker), s.t.workers[i]? = some w → w.pc ≠ .idle → w.pc ≠ .next → w.pc ≠ .unban →
    fget s.t.fmap w.key ≠ some w.ent → s.g.live w.key = false
  /-- a worker in flight holds an existing entry of its key -/
  went : ∀ (i : Nat) (w : Worker), s.t.workers[i]? = some w → w.pc ≠ .idle → w.pc ≠ .next →
    w.ent < s.t.nextEnt ∧ ∃ e, lookupEnt s.t.ents w.ent = some e ∧ e.key = w.key

/-- `dirtyOf` only looks the entry up -/
theorem dirtyOf_congr {t t' : TState} {id : Nat} (h : lookupEnt t'.ents id = lookupEnt t.ents id) :
    dirtyOf t' id = dirtyOf t id := by
  simp [dirtyOf, h]

/-- **frame**: a transition that leaves key `k` alone — its entries untouched or evicted (from memory
only when complete and not banned; from disk only into `diskEvicted`), its flusher entry, ghost
variables, queue occurrences and attached workers unchanged — preserves everything about `k` -/
theorem kinv_frame {s s' : GState} {k : Key} (hk : KInv s k) (hi1 : Inv1 s)
    (hM : s'.t.mem.blobs.get k = s.t.mem.blobs.get k ∨
      (s'.t.mem.blobs.get k = none ∧ ∃ b, s.t.mem.blobs.get k = some b ∧ b.complete = true ∧ b.banned = false))
    (hD : s'.t.disk.blobs.get k = s.t.disk.blobs.get k ∨
      (s'.t.disk.blobs.get k = none ∧ k ∈ s'.t.diskEvicted))
    (hX : k ∉ s'.t.diskEvicted → k ∉ s.t.diskEvicted)
    (hE : fget s'.t.fmap k = fget s.t.fmap k)
    (hN : s.t.nextEnt ≤ s'.t.nextEnt)
    (hL : ∀ id, fget s.t.fmap k = some id → lookupEnt s'.t.ents id = lookupEnt s.t.ents id)
    (hG : s'.g.live k = s.g.live k ∧ s'.g.done k = s.g.done k ∧ s'.g.content k = s.g.content k ∧
      s'.g.md k = s.g.md k)
    (hQ : s'.t.queue.count k = s.t.queue.count k ∨
      (fget s.t.fmap k = none ∧ s.g.live k = false ∧ s'.t.queue.count k ≤ s.t.queue.count k))
    (hW : ∀ (id i : Nat) (w : Worker), fget s.t.fmap k = some id → attached w k id →
      (s'.t.workers[i]? = some w ↔ s.t.workers[i]? = some w)) :
    KInv s' k := by
  obtain ⟨hGl, hGd, hGc, hGm⟩ := hG
  -- an evicted memory entry had no flusher entry and was complete
  have evE : ∀ b, s.t.mem.blobs.get k = some b → b.banned = false → fget s.t.fmap k = none := by
    intro b hb hnb
    cases hE' : fget s.t.fmap k with
    | none => rfl
    | some id =>
      obtain ⟨m, hm, hbn⟩ := hi1.ent k id hE'
      rw [hb] at hm; simp at hm; subst hm; simp [hbn] at hnb
  refine { gl := ?_, fresh := ?_, nd_m := ?_, nd_d := ?_, cm := ?_, cd := ?_, inc_m := ?_, inc_d := ?_,
           done_m := ?_, done_d := ?_, phw := ?_, phq := ?_, entc := ?_, q0 := ?_, q1 := ?_ }
  · rw [hGd, hGl]; exact hk.gl
  · intro id h
    rw [hE] at h
    obtain ⟨h1, e, h2, h3⟩ := hk.fresh id h
    exact ⟨by omega, e, by rw [hL id h]; exact h2, h3⟩
  · intro m hm
    rcases hM with h | ⟨h, _⟩
    · rw [h] at hm; exact hk.nd_m m hm
    · rw [h] at hm; simp at hm
  · intro d hd
    rcases hD with h | ⟨h, _⟩
    · rw [h] at hd; exact hk.nd_d d hd
    · rw [h] at hd; simp at hd
  · intro m hm
    rcases hM with h | ⟨h, _⟩
    · rw [h] at hm; rw [hGd]; exact hk.cm m hm
    · rw [h] at hm; simp at hm
  · intro d hd hc
    rcases hD with h | ⟨h, _⟩
    · rw [h] at hd; rw [hGd]; exact hk.cd d hd hc
    · rw [h] at hd; simp at hd
  · intro m hdn hm
    rw [hGd] at hdn
    rcases hM with h | ⟨h, _⟩
    · rw [h] at hm
      obtain ⟨a, b, c⟩ := hk.inc_m m hdn hm
      refine ⟨by rw [hGc]; exact a, by rw [hGm]; exact b, ?_⟩
      rcases hD with h' | ⟨h', _⟩
      · rw [h']; exact c
      · exact h'
    · rw [h] at hm; simp at hm
  · intro d hdn hm hd
    rw [hGd] at hdn
    rcases hD with h' | ⟨h', _⟩
    · rw [h'] at hd
      rcases hM with h | ⟨_, b, hb, hbc, _⟩
      · rw [h] at hm
        obtain ⟨a, c⟩ := hk.inc_d d hdn hm hd
        exact ⟨by rw [hGc]; exact a, by rw [hGm]; exact c⟩
      · -- the evicted blob was complete, so the key was done
        have := (hk.cm b hb).mp hbc
        rw [hdn] at this; simp at this
    · rw [h'] at hd; simp at hd
  · intro B m hdn hx hm
    rw [hGd] at hdn
    rcases hM with h | ⟨h, _⟩
    · rw [h] at hm
      obtain ⟨a, b⟩ := hk.done_m B m hdn (hX hx) hm
      exact ⟨a, by rw [hGm]; exact b⟩
    · rw [h] at hm; simp at hm
  · intro B hdn hx hor
    rw [hGd] at hdn
    rw [hE] at hor
    have hor' : s.t.mem.blobs.get k = none ∨ fget s.t.fmap k = none := by
      rcases hor with h1 | h1
      · rcases hM with h | ⟨_, b, hb, _, hnb⟩
        · left; rw [← h]; exact h1
        · right; exact evE b hb hnb
      · exact .inr h1
    obtain ⟨d, hd, a, b, c⟩ := hk.done_d B hdn (hX hx) hor'
    rcases hD with h' | ⟨_, h'⟩
    · exact ⟨d, by rw [h']; exact hd, a, b, by rw [hGm]; exact c⟩
    · exact absurd h' hx
  · intro B m id i w hdn hx hm he hw ha
    rw [hGd] at hdn
    rw [hE] at he
    rcases hM with h | ⟨h, _⟩
    · rw [h] at hm
      have hw' := (hW id i w he ha).mp hw
      have := hk.phw B m id i w hdn (hX hx) hm he hw' ha
      rcases hD with h' | ⟨_, h'⟩
      · rw [h', dirtyOf_congr (hL id he)]; exact this
      · exact absurd h' hx
    · rw [h] at hm; simp at hm
  · intro B m id e hdn hx hm he hl hno
    rw [hGd] at hdn
    rw [hE] at he
    rw [hL id he] at hl
    rcases hM with h | ⟨h, _⟩
    · rw [h] at hm
      have hno' : ∀ (i : Nat) (w : Worker), s.t.workers[i]? = some w → ¬ attached w k id := by
        intro i w hw ha
        exact hno i w ((hW id i w he ha).mpr hw) ha
      have := hk.phq B m id e hdn (hX hx) hm he hl hno'
      rcases hD with h' | ⟨_, h'⟩
      · rw [h']; exact this
      · exact absurd h' hx
    · rw [h] at hm; simp at hm
  · intro id m he hm
    rw [hE] at he
    rcases hM with h | ⟨h, _⟩
    · rw [h] at hm; exact hk.entc id m he hm
    · rw [h] at hm; simp at hm
  · intro hl he
    rw [hGl] at hl
    rw [hE] at he
    have := hk.q0 hl he
    rcases hQ with h | ⟨_, h2, _⟩
    · have h0 : s.t.queue.count k = 0 := List.count_eq_zero.mpr this
      exact List.count_eq_zero.mp (by omega)
    · rw [hl] at h2; simp at h2
  · intro id he
    rw [hE] at he
    have hcnt : s'.t.queue.count k = s.t.queue.count k := by
      rcases hQ with h | ⟨h1, _⟩
      · exact h
      · rw [he] at h1; simp at h1
    rcases hk.q1 id he with ⟨c1, hno⟩ | ⟨c0, i, w, hw, ha, hu⟩
    · left
      refine ⟨by omega, ?_⟩
      intro i w hw ha
      exact hno i w ((hW id i w he ha).mp hw) ha
    · right
      refine ⟨by omega, i, w, (hW id i w he ha).mpr hw, ha, ?_⟩
      intro j w' hw' ha'
      exact hu j w' ((hW id j w' he ha').mp hw') ha'

/-- the shape of a transition with one active key `k0`: everything about the other keys is framed -/
structure Frame (s s' : GState) (k0 : Key) : Prop where
  mem : OnlyKey s.t.mem s'.t.mem k0
  disk : ∀ k, k ≠ k0 → s'.t.disk.blobs.get k = s.t.disk.blobs.get k ∨
    (s'.t.disk.blobs.get k = none ∧ k ∈ s'.t.diskEvicted)
  x : ∀ k, k ≠ k0 → k ∉ s'.t.diskEvicted → k ∉ s.t.diskEvicted
  fmap : ∀ k, k ≠ k0 → fget s'.t.fmap k = fget s.t.fmap k
  next : s.t.nextEnt ≤ s'.t.nextEnt
  ents : ∀ k id, k ≠ k0 → fget s.t.fmap k = some id → lookupEnt s'.t.ents id = lookupEnt s.t.ents id
  ghost : ∀ k, k ≠ k0 → s'.g.live k = s.g.live k ∧ s'.g.done k = s.g.done k ∧
    s'.g.content k = s.g.content k ∧ s'.g.md k = s.g.md k
  queue : ∀ k, k ≠ k0 → s'.t.queue.count k = s.t.queue.count k ∨
    (fget s.t.fmap k = none ∧ s.g.live k = false ∧ s'.t.queue.count k ≤ s.t.queue.count k)
  workers : ∀ (k : Key) (id i : Nat) (w : Worker), k ≠ k0 → fget s.t.fmap k = some id → attached w k id →
    (s'.t.workers[i]? = some w ↔ s.t.workers[i]? = some w)

theorem inv2_of_active {s s' : GState} (hi : Inv2 s) (hi1' : Inv1 s') (k0 : Key) (hf : Frame s s' k0)
    (hk0 : KInv s' k0)
    (hdet : ∀ (i : Nat) (w : Worker), s'.t.workers[i]? = some w → w.pc ≠ .idle → w.pc ≠ .next → w.pc ≠ .unban →
      fget s'.t.fmap w.key ≠ some w.ent → s'.g.live w.key = false)
    (hwent : ∀ (i : Nat) (w : Worker), s'.t.workers[i]? = some w → w.pc ≠ .idle → w.pc ≠ .next →
      w.ent < s'.t.nextEnt ∧ ∃ e, lookupEnt s'.t.ents w.ent = some e ∧ e.key = w.key) : Inv2 s' := by
  refine { inv1 := hi1', key := ?_, det := hdet, went := hwent }
  intro k
  by_cases e : k = k0
  · subst e; exact hk0
  · exact kinv_frame (hi.key k) hi.inv1 (hf.mem k e) (hf.disk k e) (hf.x k e) (hf.fmap k e) hf.next
      (fun id h => hf.ents k id e h) (hf.ghost k e) (hf.queue k e) (fun id i w he ha => hf.workers k id i w e he ha)

/-- replacing worker `i` by one that (like the old one) is not attached to any key other than `k0` -/
theorem workers_frame {ws : List Worker} {i : Nat} {w w' : Worker} (hw : ws[i]? = some w) {k0 : Key}
    (h1 : ∀ k id, k ≠ k0 → ¬ attached w k id) (h2 : ∀ k id, k ≠ k0 → ¬ attached w' k id)
    (k : Key) (id j : Nat) (x : Worker) (hk : k ≠ k0) (ha : attached x k id) :
    ((ws.set i w')[j]? = some x ↔ ws[j]? = some x) := by
  by_cases e : i = j
  · subst e
    have hlt : i < ws.length := by
      rcases Nat.lt_or_ge i ws.length with h | h
      · exact h
      · rw [List.getElem?_eq_none h] at hw; simp at hw
    rw [List.getElem?_set_self hlt, hw]
    constructor
    · intro h; simp at h; subst h; exact absurd ha (h2 k id hk)
    · intro h; simp at h; subst h; exact absurd ha (h1 k id hk)
  · rw [List.getElem?_set_ne e]

theorem not_attached_of_key {w : Worker} {k0 : Key} (h : w.key = k0) (k : Key) (id : Nat) (hk : k ≠ k0) :
    ¬ attached w k id := fun ha => hk (ha.1.symm.trans h)

theorem not_attached_of_pc {w : Worker} (h : w.pc = .idle ∨ w.pc = .next ∨ w.pc = .unban) (k : Key) (id : Nat) :
    ¬ attached w k id := by
  intro ha
  rcases h with h | h | h
  · exact ha.2.2.1 h
  · exact ha.2.2.2.1 h
  · exact ha.2.2.2.2 h

/-! ### the entry heap -/

theorem lookupEnt_cons (i : Nat) (e : FEntry) (ents : List (Nat × FEntry)) (id : Nat) :
    lookupEnt ((i, e) :: ents) id = if i = id then some e else lookupEnt ents id := rfl

theorem lookupEnt_setDirty (ents : List (Nat × FEntry)) (id id' : Nat) (d : List Nat) :
    lookupEnt (setDirty ents id d) id' =
      if id' = id then (lookupEnt ents id').map (fun e => { e with dirtyMD := d }) else lookupEnt ents id' := by
  induction ents with
  | nil => simp [setDirty, lookupEnt]
  | cons x ents ih =>
    obtain ⟨i, e⟩ := x
    simp only [setDirty, List.map_cons] at ih ⊢
    by_cases h1 : i = id
    · subst h1
      by_cases h2 : id' = i
      · subst h2; simp [lookupEnt_cons]
      · have : i ≠ id' := fun e => h2 e.symm
        simp only [if_true, lookupEnt_cons, this, if_false, h2]
        simpa [h2] using ih
    · by_cases h2 : i = id'
      · subst h2
        have : ¬ i = id := h1
        simp [lookupEnt_cons, h1]
      · simp only [h1, if_false, lookupEnt_cons, h2]
        exact ih

theorem lookupEnt_setDirty_key (ents : List (Nat × FEntry)) (id id' : Nat) (d : List Nat) (e : FEntry)
    (h : lookupEnt ents id' = some e) :
    ∃ e', lookupEnt (setDirty ents id d) id' = some e' ∧ e'.key = e.key ∧ e'.dataDirty = e.dataDirty := by
  rw [lookupEnt_setDirty]
  split
  · exact ⟨{ e with dirtyMD := d }, by rw [h]; rfl, rfl, rfl⟩
  · exact ⟨e, h, rfl, rfl⟩

theorem dirtyOf_setDirty (t : TState) (id id' : Nat) (d : List Nat) (e : FEntry) (h : lookupEnt t.ents id = some e) :
    dirtyOf { t with ents := setDirty t.ents id d } id' = if id' = id then d else dirtyOf t id' := by
  simp only [dirtyOf, lookupEnt_setDirty]
  by_cases h1 : id' = id
  · subst h1; simp [h]
  · simp [h1]

end KrakenModel.Tiered
