import KrakenModel.Proof.C05Safe
/-
  C05 proof library, part 3: the remaining operations (persist flag, metainfo generation, refresh,
  the read paths, the restart) and `exec_ok`.
-/
set_option linter.unusedSectionVars false
set_option linter.unusedSimpArgs false
set_option linter.unusedVariables false
namespace KrakenModel.OriginCrash
open KrakenModel.FS

theorem persist_ok (cfg : Cfg) (m : Mem) (fs : FS Name) (n : String) : OpOK cfg m fs (persist cfg m fs n) := by
  unfold persist
  obtain ⟨hn, hfs⟩ := lockCache_calls cfg m fs n
  simp only
  split
  · exact opOK_neutral (by simp) (fun _ h => h)
  · have hall : ∀ c ∈ (lockCache cfg m fs n).calls ++ cawPlan (lockCache cfg m fs n).fs (cacheDir n) Name.persist persistTrue, Neutral c :=
      neutral_append hn (cawPlan_neutral_persist _ _ _)
    refine ⟨fun g => neutral_prefix g _ hall, ?_⟩
    intro hs n' h
    have hl := (lockCache_sync cfg m fs n hs).1
    simp only [applyAll_append]
    rw [← hfs]
    exact keeps_of_neutral _ (cawPlan_neutral_persist _ _ _) _ n' (hl n' h)

theorem writeMeta_ok {cfg : Cfg} (hp : Params cfg) (m : Mem) (fs : FS Name) (n : String) (src : Option Bytes)
    (hsrc : ∀ b, src = some b → cfg.digest b = n) : OpOK cfg m fs (writeMeta cfg m fs n src) := by
  unfold writeMeta
  obtain ⟨hn, hfs⟩ := lockCache_calls cfg m fs n
  simp only
  split
  · exact opOK_neutral (by simp) (fun _ h => h)
  · split
    · refine ⟨fun g => neutral_prefix g _ hn, ?_⟩
      intro hs; rw [← hfs]; exact (lockCache_sync cfg m fs n hs).1
    · rename_i c hc
      refine ⟨?_, ?_⟩
      · intro g
        have gl : GoodFS cfg (lockCache cfg m fs n).fs := by rw [hfs]; exact neutral_all g _ hn
        have hdc : cfg.digest c = n := gl.dataOK n c hc
        have hd : cfg.digest (src.getD c) = n := by
          cases src with
          | none => exact hdc
          | some b => exact hsrc b rfl
        apply prefix_append _ _ _ _ (neutral_prefix g _ hn)
        rw [← hfs]
        exact cawMeta_prefix hp gl n _ hd
      · intro hs n' h
        simp only [applyAll_append]
        rw [← hfs]
        exact cawMeta_keeps _ n _ n' ((lockCache_sync cfg m fs n hs).1 n' h)

theorem genmeta_ok {cfg : Cfg} (hp : Params cfg) (m : Mem) (fs : FS Name) (n : String) : OpOK cfg m fs (genmeta cfg m fs n) :=
  writeMeta_ok hp m fs n none (fun _ h => by cases h)

/-- operations in sequence -/
theorem opOK_seq {cfg : Cfg} {m : Mem} {fs : FS Name} {a : Out} {b : Out} {r : Res}
    (ha : OpOK cfg m fs a) (hb : OpOK cfg a.mem (applyAll fs a.calls) b) :
    OpOK cfg m fs ⟨b.mem, a.calls ++ b.calls, r⟩ := by
  refine ⟨fun g => prefix_append _ _ _ _ (ha.pre g) (hb.pre (all_of_prefix _ _ _ (ha.pre g))), ?_⟩
  intro hs; simp only [applyAll_append]; exact hb.sync (ha.sync hs)

theorem opOK_res {cfg : Cfg} {m : Mem} {fs : FS Name} {a : Out} (r : Res) (ha : OpOK cfg m fs a) :
    OpOK cfg m fs ⟨a.mem, a.calls, r⟩ := ⟨ha.pre, ha.sync⟩

theorem refresh_ok {cfg : Cfg} (hp : Params cfg) (o : Order Name) (m : Mem) (fs : FS Name) (n : String) (b : Bytes) :
    OpOK cfg m fs (refresh cfg o m fs n b) := by
  unfold refresh
  simp only
  have h1 := ustart_ok cfg m fs (tmpName n)
  generalize ustart cfg m fs (tmpName n) = r1 at h1 ⊢
  split
  · exact opOK_res _ h1
  · have h2 := uwrite_ok cfg r1.mem (applyAll fs r1.calls) (tmpName n) 0 b
    generalize uwrite cfg r1.mem (applyAll fs r1.calls) (tmpName n) 0 b = r2 at h2 ⊢
    have h3 := commit_ok cfg hp.verify o r2.mem (applyAll (applyAll fs r1.calls) r2.calls) (tmpName n) n
    generalize commit cfg o r2.mem (applyAll (applyAll fs r1.calls) r2.calls) (tmpName n) n = r3 at h3 ⊢
    have h12 : OpOK cfg m fs ⟨r2.mem, r1.calls ++ r2.calls, Res.ok⟩ := opOK_seq h1 h2
    have h123 : OpOK cfg m fs ⟨r3.mem, r1.calls ++ r2.calls ++ r3.calls, Res.ok⟩ :=
      opOK_seq (a := ⟨r2.mem, r1.calls ++ r2.calls, Res.ok⟩) h12 (by simpa only [applyAll_append] using h3)
    split
    · exact opOK_res _ h123
    · have hw := writeMeta_ok hp r3.mem (applyAll (applyAll (applyAll fs r1.calls) r2.calls) r3.calls)
        n (if cfg.mem = true ∧ (cfg.verify = false ∨ cfg.digest b = n) then some b else none)
        (fun b' hb' => by
          split at hb'
          · rename_i hc; cases hb'
            rcases hc.2 with h | h
            · rw [hp.verify] at h; cases h
            · exact h
          · cases hb')
      generalize writeMeta cfg r3.mem (applyAll (applyAll (applyAll fs r1.calls) r2.calls) r3.calls)
        n (if cfg.mem = true ∧ (cfg.verify = false ∨ cfg.digest b = n) then some b else none) = w at hw ⊢
      exact opOK_seq (a := ⟨r3.mem, r1.calls ++ r2.calls ++ r3.calls, Res.ok⟩) h123 (by simpa only [applyAll_append] using hw)

theorem read_ok (cfg : Cfg) (m : Mem) (fs : FS Name) (n : String) : OpOK cfg m fs (read cfg m fs n) := by
  unfold read
  obtain ⟨hn, hfs⟩ := lockCache_calls cfg m fs n
  simp only
  split
  · exact opOK_neutral (by simp) (fun _ h => h)
  · split <;>
    · refine ⟨fun g => neutral_prefix g _ hn, ?_⟩
      intro hs; rw [← hfs]; exact (lockCache_sync cfg m fs n hs).1

theorem getmeta_ok (cfg : Cfg) (m : Mem) (fs : FS Name) (n : String) : OpOK cfg m fs (getmeta cfg m fs n) := by
  unfold getmeta
  obtain ⟨hn, hfs⟩ := loadCache_calls cfg m fs n
  simp only
  split
  · exact opOK_neutral (by simp) (fun _ h => h)
  · split <;>
    · refine ⟨fun g => neutral_prefix g _ hn, ?_⟩
      intro hs; rw [← hfs]; exact (loadCache_sync cfg m fs n hs).1

theorem metareq_ok {cfg : Cfg} (hp : Params cfg) (o : Order Name) (m : Mem) (fs : FS Name) (n : String) (backend : Option Bytes) :
    OpOK cfg m fs (metareq cfg o m fs n backend) := by
  unfold metareq
  simp only
  have h1 := getmeta_ok cfg m fs n
  generalize getmeta cfg m fs n = g at h1 ⊢
  split
  · exact opOK_res _ h1
  · split
    · have h2 := genmeta_ok hp g.mem (applyAll fs g.calls) n
      generalize genmeta cfg g.mem (applyAll fs g.calls) n = w at h2 ⊢
      have h12 : OpOK cfg m fs ⟨w.mem, g.calls ++ w.calls, Res.ok⟩ := opOK_seq h1 h2
      have h3 := getmeta_ok cfg w.mem (applyAll (applyAll fs g.calls) w.calls) n
      generalize getmeta cfg w.mem (applyAll (applyAll fs g.calls) w.calls) n = g2 at h3 ⊢
      exact opOK_seq (a := ⟨w.mem, g.calls ++ w.calls, Res.ok⟩) h12 (by simpa only [applyAll_append] using h3)
    · split
      · exact opOK_res _ h1
      · rename_i b
        have h2 := refresh_ok hp o g.mem (applyAll fs g.calls) n b
        generalize refresh cfg o g.mem (applyAll fs g.calls) n b = r at h2 ⊢
        exact opOK_seq h1 h2

/-! ### deletion -/

theorem good_apply_unlink {cfg : Cfg} {fs : FS Name} (g : GoodFS cfg fs) (p : Path) (x : Name) :
    GoodFS cfg (apply fs (Call.unlink p x)) := by
  have hother : ∀ q y, (q, y) ≠ (p, x) → (apply fs (Call.unlink p x)).file? q y = fs.file? q y :=
    fun q y h => file?_apply_of_not_written fs _ q y rfl (by simpa [Call.writes] using h)
  constructor
  · intro n c hc
    by_cases h : (cacheDir n, Name.data) = (p, x)
    · cases h; rw [file?_apply_unlink] at hc; cases hc
    · rw [hother _ _ h] at hc; exact g.dataOK n c hc
  · intro n t ht
    by_cases h : (cacheDir n, Name.tmeta) = (p, x)
    · cases h; rw [file?_apply_unlink] at ht; cases ht
    · rw [hother _ _ h] at ht; exact g.metaOK n t ht

/-- calls that only remove things keep the invariant -/
theorem removal_prefix {cfg : Cfg} (cs : List (Call Name)) (hr : ∀ c ∈ cs, (∃ p x, c = Call.unlink p x) ∨ (∃ p, c = Call.rmdir p))
    {fs : FS Name} (g : GoodFS cfg fs) : ∀ k, GoodFS cfg (applyPrefix k cs fs) := by
  induction cs generalizing fs with
  | nil => intro k; simpa [applyPrefix] using g
  | cons c cs ih =>
    intro k
    cases k with
    | zero => simpa [applyPrefix] using g
    | succ k =>
      have : applyPrefix (k + 1) (c :: cs) fs = applyPrefix k cs (apply fs c) := by simp [applyPrefix]
      rw [this]
      apply ih (fun c' h => hr c' (List.mem_cons_of_mem _ h))
      rcases hr c (List.mem_cons_self ..) with ⟨p, x, rfl⟩ | ⟨p, rfl⟩
      · exact good_apply_unlink g p x
      · exact goodFS_congr (fun n => ⟨file?_apply_of_not_written fs _ _ _ rfl (by simp [Call.writes]),
          file?_apply_of_not_written fs _ _ _ rfl (by simp [Call.writes])⟩) g

theorem removeAllPlan_removal (fs : FS Name) (o : Order Name) (p : Path) :
    ∀ c ∈ removeAllPlan fs o p, (∃ q x, c = Call.unlink q x ∧ q = p) ∨ (∃ q, c = Call.rmdir q) := by
  intro c hc
  unfold removeAllPlan at hc
  split at hc
  · simp at hc
  · simp only [List.mem_append, List.mem_map, List.mem_singleton] at hc
    rcases hc with ⟨x, _, rfl⟩ | rfl
    · exact Or.inl ⟨p, x, rfl, rfl⟩
    · exact Or.inr ⟨p, rfl⟩

theorem removeAll_cache_other (fs : FS Name) (o : Order Name) (n n' : String) (hn : n' ≠ n) (fs' : FS Name) :
    (applyAll fs' (removeAllPlan fs o (cacheDir n))).file? (cacheDir n') .data = fs'.file? (cacheDir n') .data :=
  file?_applyAll_of_not_written _ fs' _ _ (fun c hc => by
    rcases removeAllPlan_removal fs o (cacheDir n) c hc with ⟨q, x, rfl, rfl⟩ | ⟨q, rfl⟩
    · exact ⟨rfl, by simp only [Call.writes, List.mem_singleton, Prod.mk.injEq, not_and]; intro e; exact absurd (cacheDir_inj e) hn⟩
    · exact ⟨rfl, by simp [Call.writes]⟩)

theorem isCached_adel (l : List (String × Bool)) (n n' : String) :
    (aget (adel l n) n').isSome = true → n' ≠ n ∧ (aget l n').isSome = true := by
  intro h
  by_cases e : n = n'
  · subst e; rw [aget_adel_self] at h; cases h
  · rw [aget_adel_ne _ _ _ e] at h; exact ⟨fun e' => e e'.symm, h⟩

theorem delete_ok (cfg : Cfg) (o : Order Name) (m : Mem) (fs : FS Name) (n : String) : OpOK cfg m fs (delete cfg o m fs n) := by
  unfold delete
  obtain ⟨hn, hfs⟩ := loadCache_calls cfg m fs n
  simp only
  split
  · exact opOK_neutral (by simp) (fun _ h => h)
  · -- the entry leaves the map; whatever is removed belongs to `n`
    have hsync0 : Sync m fs → Sync { (loadCache cfg m fs n).mem with cached := adel (loadCache cfg m fs n).mem.cached n } (loadCache cfg m fs n).fs := by
      intro hs n' h
      obtain ⟨_, h2⟩ := isCached_adel _ _ _ (by simpa [isCached] using h)
      exact (loadCache_sync cfg m fs n hs).1 n' h2
    have hrm : (GoodFS cfg fs → ∀ k, GoodFS cfg (applyPrefix k ((loadCache cfg m fs n).calls ++ removeAllPlan (loadCache cfg m fs n).fs o (cacheDir n)) fs)) ∧
        (Sync m fs → Sync { (loadCache cfg m fs n).mem with cached := adel (loadCache cfg m fs n).mem.cached n }
          (applyAll fs ((loadCache cfg m fs n).calls ++ removeAllPlan (loadCache cfg m fs n).fs o (cacheDir n)))) := by
      constructor
      · intro g
        apply prefix_append _ _ _ _ (neutral_prefix g _ hn)
        rw [← hfs]
        exact removal_prefix _ (fun c hc => by
          rcases removeAllPlan_removal _ o _ c hc with ⟨q, x, rfl, _⟩ | ⟨q, rfl⟩
          · exact Or.inl ⟨_, _, rfl⟩
          · exact Or.inr ⟨_, rfl⟩) (by rw [hfs]; exact neutral_all g _ hn)
      · intro hs n' h
        obtain ⟨h1, h2⟩ := isCached_adel _ _ _ (by simpa [isCached] using h)
        simp only [applyAll_append]
        rw [← hfs, removeAll_cache_other _ o n n' h1]
        exact (loadCache_sync cfg m fs n hs).1 n' h2
    have hkeep : (GoodFS cfg fs → ∀ k, GoodFS cfg (applyPrefix k (loadCache cfg m fs n).calls fs)) ∧
        (Sync m fs → Sync { (loadCache cfg m fs n).mem with cached := adel (loadCache cfg m fs n).mem.cached n }
          (applyAll fs (loadCache cfg m fs n).calls)) :=
      ⟨fun g => neutral_prefix g _ hn, fun hs => by rw [← hfs]; exact hsync0 hs⟩
    split
    · split
      · exact ⟨hkeep.1, hkeep.2⟩
      · split
        · exact ⟨hrm.1, hrm.2⟩
        · exact ⟨hkeep.1, hkeep.2⟩
    · exact ⟨hrm.1, hrm.2⟩

/-! ### the restart -/

theorem head?_of_child {p q : Path} (hq : q ≠ []) (hd : q.dropLast = p) (hp : p ≠ []) : q.head? = p.head? := by
  have : q = q.dropLast ++ [q.getLast hq] := (List.dropLast_concat_getLast hq).symm
  rw [this, hd]
  cases p with
  | nil => exact absurd rfl hp
  | cons x xs => rfl

theorem removeTree_upload_neutral (fs : FS Name) (o : Order Name) (fuel : Nat) :
    ∀ p : Path, p.head? = some "upload" → ∀ c ∈ removeTreePlan fs o sortPaths fuel p, Neutral c := by
  induction fuel with
  | zero => intro p _ c hc; simp [removeTreePlan] at hc
  | succ f ih =>
    intro p hp c hc
    simp only [removeTreePlan] at hc
    split at hc
    · simp at hc
    · simp only [List.mem_append, List.mem_map, List.mem_flatMap, List.mem_singleton] at hc
      rcases hc with (⟨x, _, rfl⟩ | ⟨q, hq, hc⟩) | rfl
      · refine ⟨rfl, fun n => ?_⟩
        have : p ≠ cacheDir n := by
          intro e; rw [e] at hp; simp [cacheDir] at hp
        simp [Call.writes, this, Ne.symm this]
      · have hq' : q ∈ fs.children p := by
          have := (mem_orderBy _ _ _).mp hq
          unfold sortPaths at this
          exact (mem_isort _ _ _).mp this
        simp only [FS.children, List.mem_filter, decide_eq_true_eq] at hq'
        have hpne : p ≠ [] := by intro e; rw [e] at hp; simp at hp
        exact ih q (by rw [head?_of_child hq'.2.1 hq'.2.2 hpne]; exact hp) c hc
      · exact ⟨rfl, fun n => by simp [Call.writes]⟩

theorem restartPlan_neutral (o : Order Name) (fs : FS Name) : ∀ c ∈ restartPlan o fs, Neutral c := by
  unfold restartPlan
  simp only
  exact neutral_append (neutral_append (removeTree_upload_neutral fs o 3 ["upload"] rfl) (mkdirAll_neutral _ _))
    (mkdirAll_neutral _ _)

theorem exec_ok {cfg : Cfg} (hp : Params cfg) (o : Order Name) (m : Mem) (fs : FS Name) (op : Op) :
    OpOK cfg m fs (exec cfg o m fs op) := by
  cases op with
  | ustart u => exact ustart_ok cfg m fs u
  | uwrite u off b => exact uwrite_ok cfg m fs u off b
  | commit u n => exact commit_ok cfg hp.verify o m fs u n
  | persist n => exact persist_ok cfg m fs n
  | genmeta n => exact genmeta_ok hp m fs n
  | refresh n b => exact refresh_ok hp o m fs n b
  | read n => exact read_ok cfg m fs n
  | getmeta n => exact getmeta_ok cfg m fs n
  | metareq n backend => exact metareq_ok hp o m fs n backend
  | delete n => exact delete_ok cfg o m fs n
  | restart =>
    exact ⟨fun g => neutral_prefix g _ (restartPlan_neutral o fs), fun _ n h => by simp [exec, isCached, aget] at h⟩

end KrakenModel.OriginCrash
