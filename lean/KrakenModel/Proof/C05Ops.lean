import KrakenModel.Proof.C05Safe
/-
  C05 proof library, part 3: the remaining operations (persist flag, metainfo generation, refresh,
  the read paths, the restart) and `exec_ok`.
-/
set_option linter.unusedSectionVars false
set_option linter.unusedSimpArgs false
set_option linter.unusedVariables false
namespace KrakenModel.OriginCrash
open KrakenModel.FS

theorem persist_ok (cfg : Cfg) (m : Mem) (fs : FS Name) (n : String) : OpOK cfg m fs (persist cfg m fs n) := by
  unfold persist
  obtain ⟨hn, hfs⟩ := lockCache_calls cfg m fs n
  simp only
  split
  · exact opOK_neutral (by simp) (fun _ h => h)
  · have hall : ∀ c ∈ (lockCache cfg m fs n).calls ++ cawPlan (lockCache cfg m fs n).fs (cacheDir n) Name.persist persistTrue, Neutral c :=
      neutral_append hn (cawPlan_neutral_persist _ _ _)
    refine ⟨fun g => neutral_prefix g _ hall, ?_, keeps_of_neutral _ hall fs⟩
    intro hs n' h
    have hl := (lockCache_sync cfg m fs n hs).1
    simp only [applyAll_append]
    rw [← hfs]
    exact keeps_of_neutral _ (cawPlan_neutral_persist _ _ _) _ n' (hl n' h)

theorem writeMeta_ok {cfg : Cfg} (hp : Params cfg) (m : Mem) (fs : FS Name) (n : String) (src : Option Bytes)
    (hsrc : ∀ b, src = some b → cfg.digest b = n) : OpOK cfg m fs (writeMeta cfg m fs n src) := by
  unfold writeMeta
  obtain ⟨hn, hfs⟩ := lockCache_calls cfg m fs n
  simp only
  split
  · exact opOK_neutral (by simp) (fun _ h => h)
  · split
    · refine ⟨fun g => neutral_prefix g _ hn, ?_, keeps_of_neutral _ hn fs⟩
      intro hs; rw [← hfs]; exact (lockCache_sync cfg m fs n hs).1
    · rename_i c hc
      have hkl := keeps_of_neutral _ hn fs
      refine ⟨?_, ?_, ?_⟩
      · intro g
        have gl : GoodFS cfg (lockCache cfg m fs n).fs := by rw [hfs]; exact neutral_all g _ hn
        have hdc : cfg.digest c = n := gl.dataOK n c hc
        have hd : cfg.digest (src.getD c) = n := by
          cases src with
          | none => exact hdc
          | some b => exact hsrc b rfl
        apply prefix_append _ _ _ _ (neutral_prefix g _ hn)
        rw [← hfs]
        exact cawMeta_prefix hp gl n _ hd
      · intro hs n' h
        simp only [applyAll_append]
        rw [← hfs]
        exact cawMeta_keeps _ n _ n' ((lockCache_sync cfg m fs n hs).1 n' h)
      · simp only [applyAll_append]
        rw [← hfs]
        intro n' h
        exact cawMeta_keeps _ n _ n' (by rw [hfs]; exact hkl n' h)

theorem genmeta_ok {cfg : Cfg} (hp : Params cfg) (m : Mem) (fs : FS Name) (n : String) : OpOK cfg m fs (genmeta cfg m fs n) :=
  writeMeta_ok hp m fs n none (fun _ h => by cases h)

/-- operations in sequence -/
theorem opOK_seq {cfg : Cfg} {m : Mem} {fs : FS Name} {a : Out} {b : Out} {r : Res}
    (ha : OpOK cfg m fs a) (hb : OpOK cfg a.mem (applyAll fs a.calls) b) :
    OpOK cfg m fs ⟨b.mem, a.calls ++ b.calls, r⟩ := by
  refine ⟨fun g => prefix_append _ _ _ _ (ha.pre g) (hb.pre (all_of_prefix _ _ _ (ha.pre g))), ?_, ?_⟩
  · intro hs; simp only [applyAll_append]; exact hb.sync (ha.sync hs)
  · simp only [applyAll_append]; exact ha.keeps.trans hb.keeps

theorem opOK_res {cfg : Cfg} {m : Mem} {fs : FS Name} {a : Out} (r : Res) (ha : OpOK cfg m fs a) :
    OpOK cfg m fs ⟨a.mem, a.calls, r⟩ := ⟨ha.pre, ha.sync, ha.keeps⟩

theorem refresh_ok {cfg : Cfg} (hp : Params cfg) (o : Order Name) (m : Mem) (fs : FS Name) (n : String) (b : Bytes) :
    OpOK cfg m fs (refresh cfg o m fs n b) := by
  unfold refresh
  simp only
  have h1 := ustart_ok cfg m fs (tmpName n)
  generalize ustart cfg m fs (tmpName n) = r1 at h1 ⊢
  split
  · exact opOK_res _ h1
  · have h2 := uwrite_ok cfg r1.mem (applyAll fs r1.calls) (tmpName n) 0 b
    generalize uwrite cfg r1.mem (applyAll fs r1.calls) (tmpName n) 0 b = r2 at h2 ⊢
    have h3 := commit_ok cfg o r2.mem (applyAll (applyAll fs r1.calls) r2.calls) (tmpName n) n
    generalize commit cfg o r2.mem (applyAll (applyAll fs r1.calls) r2.calls) (tmpName n) n = r3 at h3 ⊢
    have h12 : OpOK cfg m fs ⟨r2.mem, r1.calls ++ r2.calls, Res.ok⟩ := opOK_seq h1 h2
    have h123 : OpOK cfg m fs ⟨r3.mem, r1.calls ++ r2.calls ++ r3.calls, Res.ok⟩ :=
      opOK_seq (a := ⟨r2.mem, r1.calls ++ r2.calls, Res.ok⟩) h12 (by simpa only [applyAll_append] using h3)
    split
    · exact opOK_res _ h123
    · have hw := writeMeta_ok hp r3.mem (applyAll (applyAll (applyAll fs r1.calls) r2.calls) r3.calls)
        n (if cfg.mem = true ∧ cfg.digest b = n then some b else none)
        (fun b' hb' => by
          split at hb'
          · rename_i hc; cases hb'; exact hc.2
          · cases hb')
      generalize writeMeta cfg r3.mem (applyAll (applyAll (applyAll fs r1.calls) r2.calls) r3.calls)
        n (if cfg.mem = true ∧ cfg.digest b = n then some b else none) = w at hw ⊢
      exact opOK_seq (a := ⟨r3.mem, r1.calls ++ r2.calls ++ r3.calls, Res.ok⟩) h123 (by simpa only [applyAll_append] using hw)

theorem read_ok (cfg : Cfg) (m : Mem) (fs : FS Name) (n : String) : OpOK cfg m fs (read cfg m fs n) := by
  unfold read
  obtain ⟨hn, hfs⟩ := lockCache_calls cfg m fs n
  simp only
  split
  · exact opOK_neutral (by simp) (fun _ h => h)
  · split <;>
    · refine ⟨fun g => neutral_prefix g _ hn, ?_, keeps_of_neutral _ hn fs⟩
      intro hs; rw [← hfs]; exact (lockCache_sync cfg m fs n hs).1

theorem getmeta_ok (cfg : Cfg) (m : Mem) (fs : FS Name) (n : String) : OpOK cfg m fs (getmeta cfg m fs n) := by
  unfold getmeta
  obtain ⟨hn, hfs⟩ := loadCache_calls cfg m fs n
  simp only
  split
  · exact opOK_neutral (by simp) (fun _ h => h)
  · split <;>
    · refine ⟨fun g => neutral_prefix g _ hn, ?_, keeps_of_neutral _ hn fs⟩
      intro hs; rw [← hfs]; exact (loadCache_sync cfg m fs n hs).1

/-! ### the restart -/

theorem head?_of_child {p q : Path} (hq : q ≠ []) (hd : q.dropLast = p) (hp : p ≠ []) : q.head? = p.head? := by
  have : q = q.dropLast ++ [q.getLast hq] := (List.dropLast_concat_getLast hq).symm
  rw [this, hd]
  cases p with
  | nil => exact absurd rfl hp
  | cons x xs => rfl

theorem removeTree_upload_neutral (fs : FS Name) (o : Order Name) (fuel : Nat) :
    ∀ p : Path, p.head? = some "upload" → ∀ c ∈ removeTreePlan fs o sortPaths fuel p, Neutral c := by
  induction fuel with
  | zero => intro p _ c hc; simp [removeTreePlan] at hc
  | succ f ih =>
    intro p hp c hc
    simp only [removeTreePlan] at hc
    split at hc
    · simp at hc
    · simp only [List.mem_append, List.mem_map, List.mem_flatMap, List.mem_singleton] at hc
      rcases hc with (⟨x, _, rfl⟩ | ⟨q, hq, hc⟩) | rfl
      · refine ⟨rfl, fun n => ?_⟩
        have : p ≠ cacheDir n := by
          intro e; rw [e] at hp; simp [cacheDir] at hp
        simp [Call.writes, this, Ne.symm this]
      · have hq' : q ∈ fs.children p := by
          have := (mem_orderBy _ _ _).mp hq
          unfold sortPaths at this
          exact (mem_isort _ _ _).mp this
        simp only [FS.children, List.mem_filter, decide_eq_true_eq] at hq'
        have hpne : p ≠ [] := by intro e; rw [e] at hp; simp at hp
        exact ih q (by rw [head?_of_child hq'.2.1 hq'.2.2 hpne]; exact hp) c hc
      · exact ⟨rfl, fun n => by simp [Call.writes]⟩

theorem restartPlan_neutral (o : Order Name) (fs : FS Name) : ∀ c ∈ restartPlan o fs, Neutral c := by
  unfold restartPlan
  simp only
  exact neutral_append (neutral_append (removeTree_upload_neutral fs o 3 ["upload"] rfl) (mkdirAll_neutral _ _))
    (mkdirAll_neutral _ _)

theorem exec_ok {cfg : Cfg} (hp : Params cfg) (o : Order Name) (m : Mem) (fs : FS Name) (op : Op) :
    OpOK cfg m fs (exec cfg o m fs op) := by
  cases op with
  | ustart u => exact ustart_ok cfg m fs u
  | uwrite u off b => exact uwrite_ok cfg m fs u off b
  | commit u n => exact commit_ok cfg o m fs u n
  | persist n => exact persist_ok cfg m fs n
  | genmeta n => exact genmeta_ok hp m fs n
  | refresh n b => exact refresh_ok hp o m fs n b
  | read n => exact read_ok cfg m fs n
  | getmeta n => exact getmeta_ok cfg m fs n
  | restart =>
    exact ⟨fun g => neutral_prefix g _ (restartPlan_neutral o fs), fun _ n h => by simp [exec, isCached, aget] at h,
      keeps_of_neutral _ (restartPlan_neutral o fs) fs⟩

end KrakenModel.OriginCrash
