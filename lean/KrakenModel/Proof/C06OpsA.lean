import KrakenModel.Proof.C06InDir
/-
  C06 proof library, part 7: handle writes, (Un)BanEviction, metadata operations meet `OpOK`.
-/
set_option linter.unusedSectionVars false
set_option linter.unusedSimpArgs false
namespace KrakenModel.DiskCrash
open KrakenModel.FS

theorem data_isSome_of_good {cfg : Cfg} {fs : FS Name} {K : Key} {b : Blob} (g : GoodBlob cfg fs K b) :
    (fs.file? (dirPath cfg b.complete K) Name.data).isSome = true := by
  obtain ⟨d, hd, h1, _⟩ := g.dir
  simp [FS.file?, hd, h1]

theorem filesAfter_single (c : Call Name) (d : DirEnt Name) : filesAfter [c] d = fileEff c d := rfl

theorem write_ok {cfg : Cfg} {m : Mem} {fs : FS Name} (hfs : GoodFS cfg fs) (hg : GoodMem cfg m fs)
    (K : Key) (off : Nat) (bs : Bytes) : OpOK cfg m fs (write cfg m fs K off bs) := by
  unfold write
  cases hb : aget m.blobs K with
  | none => exact opOK_noop hfs hg hg rfl _ (by simp)
  | some b =>
    simp only
    have g := hg.blob K b hb
    have hdata := data_isSome_of_good g
    obtain ⟨d, hd, hdat, hbn, _⟩ := g.dir
    have hm' : ∀ m' : Mem, m'.blobs = m.blobs → GoodMem cfg m' fs →
        OpOK cfg m fs (if (fs.file? (dirPath cfg b.complete K) Name.data).isNone = true then ⟨m', [], Res.ioNotExist⟩
          else ⟨m', if bs = [] then [] else [Call.pwrite (dirPath cfg b.complete K) Name.data off bs], Res.ok⟩) := by
      intro m' hbl hgm'
      have : (fs.file? (dirPath cfg b.complete K) Name.data).isNone = false := by
        cases h : fs.file? (dirPath cfg b.complete K) Name.data <;> simp_all
      simp only [this, Bool.false_eq_true, if_false]
      by_cases hbs : bs = []
      · simp only [hbs, if_true]
        exact opOK_noop hfs hg hgm' hbl _ (by simp)
      · simp only [hbs, if_false]
        refine opOK_inDir hfs hg K b b hb (by rw [hbl]; exact hb) (fun K' _ => by rw [hbl]) (by rw [hbl]; exact hg.nodup)
          hgm'.qnodup hgm'.queue rfl rfl _ ?_ ?_ ?_ ?_ d hd ?_ _ (by simp)
        · intro c hc; simp at hc; subst hc; rfl
        · intro c hc; simp at hc; subst hc; simp [Call.removes]
        · intro c hc; simp at hc; subst hc; simp [Call.names]
        · simp
        · rw [filesAfter_single, aget_fileEff_of_not_named _ _ _ (by simp [Call.names])]; exact hbn
    by_cases hq : K ∈ m.queue
    · simp only [hq, if_true]
      exact hm' _ rfl (goodMem_requeue hg K hq)
    · simp only [hq, if_false]
      exact hm' m rfl hg

/-- updating the blob of `K` leaves the queue condition of the other keys alone -/
theorem queue_iff_of_ne {m : Mem} {K K' : Key} (b' : Blob) (hne : K' ≠ K) (P : Blob → Prop) :
    (∃ b'', aget (aset m.blobs K b') K' = some b'' ∧ P b'') ↔ (∃ b'', aget m.blobs K' = some b'' ∧ P b'') := by
  rw [aget_aset_ne _ _ _ _ (Ne.symm hne)]

theorem ban_ok {cfg : Cfg} {m : Mem} {fs : FS Name} (hfs : GoodFS cfg fs) (hg : GoodMem cfg m fs)
    (K : Key) : OpOK cfg m fs (ban cfg m fs K) := by
  unfold ban
  cases hb : aget m.blobs K with
  | none => exact opOK_noop hfs hg hg rfl _ (by simp)
  | some b =>
    simp only
    by_cases hbb : b.banned = true
    · simp only [hbb, if_true]; exact opOK_noop hfs hg hg rfl _ (by simp)
    · simp only [hbb, Bool.false_eq_true, if_false]
      have g := hg.blob K b hb
      obtain ⟨d, hd, hdat, hbn, _⟩ := g.dir
      simp only [hd, Option.isNone_some, Bool.false_eq_true, if_false]
      refine opOK_inDir hfs hg K b { b with banned := true } hb (by simp [aget_aset_self])
        (fun K' hne => aget_aset_ne _ _ _ _ (Ne.symm hne)) (akeys_nodup_aset _ _ _ hg.nodup) ?_ ?_ rfl rfl _ ?_ ?_ ?_ ?_ d hd ?_ _ (by simp)
      · by_cases hc : b.complete = true
        · simp only [hc, if_true]; exact hg.qnodup.filter _
        · simp only [hc, Bool.false_eq_true, if_false]; exact hg.qnodup
      · intro K'
        by_cases hne : K' = K
        · subst hne
          simp only [aget_aset_self, Option.some.injEq]
          constructor
          · intro hmem
            exfalso
            by_cases hc : b.complete = true
            · simp [hc] at hmem
            · simp only [hc, Bool.false_eq_true, if_false] at hmem
              obtain ⟨b2, h1, h2, _⟩ := (hg.queue K').mp hmem
              rw [hb] at h1; cases h1; exact hc h2
          · rintro ⟨b2, rfl, _, h3⟩; simp at h3
        · rw [queue_iff_of_ne _ hne (fun b'' => b''.complete = true ∧ b''.banned = false), ← hg.queue K']
          by_cases hc : b.complete = true
          · simp [hc, hne]
          · simp [hc]
      · intro c hc; simp at hc; subst hc; rfl
      · intro c hc; simp at hc; subst hc; simp [Call.removes]
      · intro c hc; simp at hc; subst hc; simp [Call.names]
      · simp
      · rw [filesAfter_single]
        simp only [fileEff]
        split
        · rename_i h; rw [h] at hbn; exact absurd hbn.symm hbb
        · simp [aget_aset_self]

theorem unban_ok {cfg : Cfg} {m : Mem} {fs : FS Name} (hfs : GoodFS cfg fs) (hg : GoodMem cfg m fs)
    (K : Key) : OpOK cfg m fs (unban cfg m fs K) := by
  unfold unban
  cases hb : aget m.blobs K with
  | none => exact opOK_noop hfs hg hg rfl _ (by simp)
  | some b =>
    simp only
    by_cases hbb : b.banned = true
    · simp only [hbb, Bool.not_true, Bool.false_eq_true, if_false]
      have g := hg.blob K b hb
      obtain ⟨d, hd, hdat, hbn, _⟩ := g.dir
      have hflag : (fs.file? (dirPath cfg b.complete K) Name.ban).isNone = false := by
        simp only [FS.file?, hd]; rw [hbb] at hbn
        cases h : aget d Name.ban <;> simp_all
      simp only [hflag, Bool.false_eq_true, if_false]
      refine opOK_inDir hfs hg K b { b with banned := false } hb (by simp [aget_aset_self])
        (fun K' hne => aget_aset_ne _ _ _ _ (Ne.symm hne)) (akeys_nodup_aset _ _ _ hg.nodup) ?_ ?_ rfl rfl _ ?_ ?_ ?_ ?_ d hd ?_ _ (by simp)
      · have hnq : K ∉ m.queue := by
          intro hmem
          obtain ⟨b2, h1, _, h3⟩ := (hg.queue K).mp hmem
          rw [hb] at h1; cases h1; rw [hbb] at h3; cases h3
        by_cases hc : b.complete = true
        · simp only [hc, if_true]
          rw [List.nodup_append]
          exact ⟨hg.qnodup, by simp, by intro a ha x hx; simp at hx; subst hx; intro e; subst e; exact hnq ha⟩
        · simp only [hc, Bool.false_eq_true, if_false]; exact hg.qnodup
      · intro K'
        by_cases hne : K' = K
        · subst hne
          simp only [aget_aset_self, Option.some.injEq]
          by_cases hc : b.complete = true
          · simp only [hc, if_true, List.mem_append, List.mem_singleton, or_true, true_iff]
            exact ⟨_, rfl, by simp, rfl⟩
          · simp only [hc, Bool.false_eq_true, if_false]
            constructor
            · intro hmem
              obtain ⟨b2, h1, h2, _⟩ := (hg.queue K').mp hmem
              rw [hb] at h1; cases h1; exact absurd h2 hc
            · rintro ⟨b2, rfl, h2, _⟩; simp [hc] at h2
        · rw [queue_iff_of_ne _ hne (fun b'' => b''.complete = true ∧ b''.banned = false), ← hg.queue K']
          by_cases hc : b.complete = true
          · simp [hc, hne]
          · simp [hc]
      · intro c hc; simp at hc; subst hc; rfl
      · intro c hc; simp at hc; subst hc; simp [Call.removes]
      · intro c hc; simp at hc; subst hc; simp [Call.names]
      · simp
      · rw [filesAfter_single]; simp [fileEff, aget_adel_self]
    · simp only [hbb, Bool.not_false, if_true]; exact opOK_noop hfs hg hg rfl _ (by simp)

theorem setMd_ok {cfg : Cfg} {m : Mem} {fs : FS Name} (hfs : GoodFS cfg fs) (hg : GoodMem cfg m fs)
    (K : Key) (md : MdId) (bs : Bytes) : OpOK cfg m fs (setMd cfg m fs K md bs) := by
  unfold setMd
  cases hb : aget m.blobs K with
  | none => exact opOK_noop hfs hg hg rfl _ (by simp)
  | some b =>
    simp only
    have g := hg.blob K b hb
    obtain ⟨d, hd, hdat, hbn, _⟩ := g.dir
    simp only [hd, Option.isNone_some, Bool.false_eq_true, if_false]
    refine opOK_inDir hfs hg K b b hb hb (fun K' _ => rfl) hg.nodup hg.qnodup hg.queue rfl rfl _ ?_ ?_ ?_ ?_ d hd ?_ _ (by simp)
    · intro c hc
      simp only [List.mem_append, List.mem_singleton] at hc
      rcases hc with (hc | hc) | hc
      · subst hc; rfl
      · split at hc
        · simp at hc
        · simp at hc; subst hc; rfl
      · subst hc; exact ⟨rfl, rfl⟩
    · intro c hc
      simp only [List.mem_append, List.mem_singleton] at hc
      rcases hc with (hc | hc) | hc
      · subst hc; simp [Call.removes]
      · split at hc
        · simp at hc
        · simp at hc; subst hc; simp [Call.removes]
      · subst hc; simp [Call.removes]
    · intro c hc
      simp only [List.mem_append, List.mem_singleton] at hc
      rcases hc with (hc | hc) | hc
      · subst hc; simp [Call.names]
      · split at hc
        · simp at hc
        · simp at hc; subst hc; simp [Call.names]
      · subst hc; simp [Call.names]
    · intro c hc n hn
      rw [List.dropLast_concat] at hc
      simp only [List.mem_append, List.mem_singleton] at hc
      rcases hc with hc | hc
      · subst hc; simp only [Call.names, List.mem_singleton]; intro e; subst e; simp [viewName] at hn
      · split at hc
        · simp at hc
        · simp at hc; subst hc; simp only [Call.names, List.mem_singleton]; intro e; subst e; simp [viewName] at hn
    · rw [aget_filesAfter_of_not_named _ _ _ (by
        intro c hc
        simp only [List.mem_append, List.mem_singleton] at hc
        rcases hc with (hc | hc) | hc
        · subst hc; simp [Call.names]
        · split at hc
          · simp at hc
          · simp at hc; subst hc; simp [Call.names]
        · subst hc; simp [Call.names])]
      exact hbn

theorem delMd_ok {cfg : Cfg} {m : Mem} {fs : FS Name} (hfs : GoodFS cfg fs) (hg : GoodMem cfg m fs)
    (K : Key) (md : MdId) : OpOK cfg m fs (delMd cfg m fs K md) := by
  unfold delMd
  cases hb : aget m.blobs K with
  | none => exact opOK_noop hfs hg hg rfl _ (by simp)
  | some b =>
    simp only
    have g := hg.blob K b hb
    obtain ⟨d, hd, hdat, hbn, _⟩ := g.dir
    by_cases hmd : (fs.file? (dirPath cfg b.complete K) (Name.md md)).isSome = true
    · simp only [hmd, if_true]
      refine opOK_inDir hfs hg K b b hb hb (fun K' _ => rfl) hg.nodup hg.qnodup hg.queue rfl rfl _ ?_ ?_ ?_ ?_ d hd ?_ _ (by simp)
      · intro c hc; simp at hc; subst hc; rfl
      · intro c hc; simp at hc; subst hc; simp [Call.removes]
      · intro c hc; simp at hc; subst hc; simp [Call.names]
      · simp
      · rw [filesAfter_single, aget_fileEff_of_not_named _ _ _ (by simp [Call.names])]; exact hbn
    · simp only [hmd, Bool.false_eq_true, if_false]; exact opOK_noop hfs hg hg rfl _ (by simp)

theorem writeAtMd_ok {cfg : Cfg} {m : Mem} {fs : FS Name} (hfs : GoodFS cfg fs) (hg : GoodMem cfg m fs)
    (K : Key) (md : MdId) (off : Nat) (bs : Bytes) : OpOK cfg m fs (writeAtMd cfg m fs K md off bs) := by
  unfold writeAtMd
  cases hb : aget m.blobs K with
  | none => exact opOK_noop hfs hg hg rfl _ (by simp)
  | some b =>
    simp only
    have g := hg.blob K b hb
    obtain ⟨d, hd, hdat, hbn, _⟩ := g.dir
    by_cases hmd : (fs.file? (dirPath cfg b.complete K) (Name.md md)).isNone = true
    · simp only [hmd, if_true]; exact opOK_noop hfs hg hg rfl _ (by simp)
    · simp only [hmd, Bool.false_eq_true, if_false]
      by_cases hbs : bs = []
      · simp only [hbs, if_true]; exact opOK_noop hfs hg hg rfl _ (by simp)
      · simp only [hbs, if_false]
        refine opOK_inDir hfs hg K b b hb hb (fun K' _ => rfl) hg.nodup hg.qnodup hg.queue rfl rfl _ ?_ ?_ ?_ ?_ d hd ?_ _ (by simp)
        · intro c hc; simp at hc; subst hc; rfl
        · intro c hc; simp at hc; subst hc; simp [Call.removes]
        · intro c hc; simp at hc; subst hc; simp [Call.names]
        · simp
        · rw [filesAfter_single, aget_fileEff_of_not_named _ _ _ (by simp [Call.names])]; exact hbn

end KrakenModel.DiskCrash
