import KrakenModel.Proof.C06Base
/-
  C06 proof library, part 2: the invariants (`GoodFS`, `GoodMem`) and their preservation by single
  calls; framing of per-key facts.
-/
set_option linter.unusedSectionVars false
set_option linter.unusedSimpArgs false
namespace KrakenModel.DiskCrash
open KrakenModel.FS

/-- a directory's parent exists (the root is implicit) -/
def HasParent (fs : FS Name) (p : Path) : Prop := p ≠ [] ∧ (p.dropLast = [] ∨ p.dropLast ∈ fs.paths)

/-- shape of the tree, whether the process is up or down -/
structure GoodFS (cfg : Cfg) (fs : FS Name) : Prop where
  /-- nothing below the blob directories -/
  len : ∀ p ∈ fs.paths, p.length ≤ depth cfg
  /-- files live in blob directories only -/
  nofile : ∀ p d, fs.dir? p = some d → p.length < depth cfg → d = []
  /-- it is a tree -/
  par : ∀ p ∈ fs.paths, HasParent fs p
  /-- a key has a directory on at most one side -/
  one : ∀ K, ValidKey cfg K →
    ¬ ((fs.dir? (dirPath cfg false K)).isSome = true ∧ (fs.dir? (dirPath cfg true K)).isSome = true)

/-- static well-formedness of the calls the store issues: directories are created at most at blob
depth, files are created in blob directories only -/
def Call.wf (cfg : Cfg) : Call Name → Prop
  | .mkdir p => p.length ≤ depth cfg
  | .creat p _ => p.length = depth cfg
  | .openCreat p _ => p.length = depth cfg
  | .openTrunc p _ => p.length = depth cfg
  | .rename _ _ q _ => q.length = depth cfg
  | .renameDir p q => p.length = depth cfg ∧ q.length = depth cfg
  | .link _ _ q _ => q.length = depth cfg
  | .truncate _ _ _ => True
  | .pwrite _ _ _ _ => True
  | .unlink _ _ => True
  | .rmdir _ => True

theorem wf_of_removal (cfg : Cfg) (c : Call Name) (h : Call.removal c = true) : Call.wf cfg c := by
  cases c <;> simp [Call.removal] at h <;> trivial

/-- the first three clauses of `GoodFS` -/
structure Shape (cfg : Cfg) (fs : FS Name) : Prop where
  len : ∀ p ∈ fs.paths, p.length ≤ depth cfg
  nofile : ∀ p d, fs.dir? p = some d → p.length < depth cfg → d = []
  par : ∀ p ∈ fs.paths, HasParent fs p

theorem GoodFS.shape {cfg : Cfg} {fs : FS Name} (h : GoodFS cfg fs) : Shape cfg fs := ⟨h.len, h.nofile, h.par⟩

/-- add or replace a directory at blob depth whose parent exists -/
theorem shape_setDir_deep {cfg : Cfg} {fs : FS Name} (h : Shape cfg fs) (p : Path) (d : DirEnt Name)
    (hp : p.length = depth cfg) (hpar : HasParent fs p) : Shape cfg (fs.setDir p d) := by
  have hmono : ∀ q, HasParent fs q → HasParent (fs.setDir p d) q := by
    intro q ⟨h1, h2⟩
    exact ⟨h1, h2.imp id (fun h' => (FS.mem_paths_setDir _ _ _ _).mpr (Or.inr h'))⟩
  constructor
  · intro q hq
    rcases (FS.mem_paths_setDir _ _ _ _).mp hq with rfl | hq
    · omega
    · exact h.len q hq
  · intro q e he hlt
    by_cases hqp : q = p
    · subst hqp; omega
    · rw [FS.dir?_setDir_ne _ _ _ _ (Ne.symm hqp)] at he; exact h.nofile q e he hlt
  · intro q hq
    rcases (FS.mem_paths_setDir _ _ _ _).mp hq with rfl | hq
    · exact hmono _ hpar
    · exact hmono _ (h.par q hq)

theorem shape_setDir_shrink {cfg : Cfg} {fs : FS Name} (h : Shape cfg fs) (p : Path) (d d' : DirEnt Name)
    (hd : fs.dir? p = some d) (hsub : d = [] → d' = []) : Shape cfg (fs.setDir p d') := by
  have hin : p ∈ fs.paths := (FS.mem_paths_iff _ _).mpr (by simp [hd])
  have hmono : ∀ q, HasParent fs q → HasParent (fs.setDir p d') q := by
    intro q ⟨h1, h2⟩
    exact ⟨h1, h2.imp id (fun h' => (FS.mem_paths_setDir _ _ _ _).mpr (Or.inr h'))⟩
  constructor
  · intro q hq
    rcases (FS.mem_paths_setDir _ _ _ _).mp hq with rfl | hq
    · exact h.len q hin
    · exact h.len q hq
  · intro q e he hlt
    by_cases hqp : q = p
    · subst hqp
      simp at he; subst he
      exact hsub (h.nofile q d hd hlt)
    · rw [FS.dir?_setDir_ne _ _ _ _ (Ne.symm hqp)] at he; exact h.nofile q e he hlt
  · intro q hq
    rcases (FS.mem_paths_setDir _ _ _ _).mp hq with rfl | hq
    · exact hmono _ (h.par q hin)
    · exact hmono _ (h.par q hq)

/-- replace the contents of an existing directory at blob depth -/
theorem shape_setDir_exist {cfg : Cfg} {fs : FS Name} (h : Shape cfg fs) (p : Path) (d d' : DirEnt Name)
    (hd : fs.dir? p = some d) (hp : p.length = depth cfg) : Shape cfg (fs.setDir p d') :=
  shape_setDir_deep h p d' hp (h.par p ((FS.mem_paths_iff _ _).mpr (by simp [hd])))

/-- remove a directory that has no sub-directories -/
theorem shape_delDir {cfg : Cfg} {fs : FS Name} (h : Shape cfg fs) (p : Path)
    (hnc : ∀ q ∈ fs.paths, q ≠ [] → q.dropLast ≠ p) : Shape cfg (fs.delDir p) := by
  constructor
  · intro q hq; exact h.len q ((FS.mem_paths_delDir _ _ _).mp hq).2
  · intro q e he hlt
    by_cases hqp : q = p
    · subst hqp; simp at he
    · rw [FS.dir?_delDir_ne _ _ _ (Ne.symm hqp)] at he; exact h.nofile q e he hlt
  · intro q hq
    obtain ⟨hne, hq'⟩ := (FS.mem_paths_delDir _ _ _).mp hq
    obtain ⟨h1, h2⟩ := h.par q hq'
    refine ⟨h1, h2.imp id (fun h' => (FS.mem_paths_delDir _ _ _).mpr ⟨hnc q hq' h1, h'⟩)⟩

theorem no_children_of_isEmpty {fs : FS Name} {p : Path} (h : (fs.children p).isEmpty = true) :
    ∀ q ∈ fs.paths, q ≠ [] → q.dropLast ≠ p := by
  intro q hq hne e
  rw [List.isEmpty_iff] at h
  have := List.filter_eq_nil_iff.mp h q hq
  exact this (by simp [hne, e])

theorem hasParent_of_isDir {fs : FS Name} {p : Path} (hne : p ≠ []) (h : fs.isDir p.dropLast = true) :
    HasParent fs p := by
  refine ⟨hne, ?_⟩
  simp only [FS.isDir, Bool.or_eq_true, beq_iff_eq] at h
  exact h.imp id (fun h' => (FS.mem_paths_iff _ _).mpr h')

theorem shape_apply {cfg : Cfg} {fs : FS Name} (h : Shape cfg fs) (c : Call Name) (hw : Call.wf cfg c) :
    Shape cfg (apply fs c) := by
  unfold apply; split
  case isFalse => exact h
  case isTrue hok =>
  cases c with
  | mkdir p =>
    simp only [Call.wf] at hw
    simp only [Call.ok, Bool.and_eq_true, decide_eq_true_eq, ne_eq] at hok
    have hpar := hasParent_of_isDir hok.1.1 hok.2
    have hmono : ∀ q, HasParent fs q → HasParent (fs.setDir p []) q := by
      intro q ⟨h1, h2⟩
      exact ⟨h1, h2.imp id (fun h' => (FS.mem_paths_setDir _ _ _ _).mpr (Or.inr h'))⟩
    simp only [Call.eff]
    constructor
    · intro q hq
      rcases (FS.mem_paths_setDir _ _ _ _).mp hq with rfl | hq
      · exact hw
      · exact h.len q hq
    · intro q e he hlt
      by_cases hqp : q = p
      · subst hqp; simp at he; exact he
      · rw [FS.dir?_setDir_ne _ _ _ _ (Ne.symm hqp)] at he; exact h.nofile q e he hlt
    · intro q hq
      rcases (FS.mem_paths_setDir _ _ _ _).mp hq with rfl | hq
      · exact hmono _ hpar
      · exact hmono _ (h.par q hq)
  | creat p n =>
    simp only [Call.wf] at hw; simp only [Call.eff]
    split
    · rename_i d hd; exact shape_setDir_exist h _ d _ hd hw
    · exact h
  | openCreat p n =>
    simp only [Call.wf] at hw; simp only [Call.eff]
    split
    · rename_i d hd
      split
      · exact h
      · exact shape_setDir_exist h _ d _ hd hw
    · exact h
  | openTrunc p n =>
    simp only [Call.wf] at hw; simp only [Call.eff]
    split
    · rename_i d hd; exact shape_setDir_exist h _ d _ hd hw
    · exact h
  | truncate p n len =>
    simp only [Call.eff]
    split
    · rename_i d hd
      split
      · rename_i c hc
        exact shape_setDir_shrink h _ d _ hd (by intro e; subst e; simp at hc)
      · exact h
    · exact h
  | pwrite p n off b =>
    simp only [Call.eff]
    split
    · rename_i d hd
      split
      · rename_i c hc
        exact shape_setDir_shrink h _ d _ hd (by intro e; subst e; simp at hc)
      · exact h
    · exact h
  | rename p n q m =>
    simp only [Call.wf] at hw; simp only [Call.eff]
    split
    · split
      · rename_i hpq
        split
        · rename_i d hd
          split
          · exact h
          · exact shape_setDir_exist h _ d _ hd (hpq ▸ hw)
        · exact h
      · rename_i hpq
        split
        · rename_i d e hd he
          have h1 := shape_setDir_shrink h _ d (adel d n) hd (by intro e; subst e; rfl)
          have he' : (fs.setDir p (adel d n)).dir? q = some e := by
            rw [FS.dir?_setDir_ne _ _ _ _ hpq]; exact he
          exact shape_setDir_exist h1 _ e _ he' hw
        · exact h
    · exact h
  | renameDir p q =>
    simp only [Call.wf] at hw; simp only [Call.eff]
    simp only [Call.ok, Bool.and_eq_true, decide_eq_true_eq, ne_eq] at hok
    obtain ⟨⟨⟨⟨⟨_, hpq⟩, hpar⟩, hqne⟩, hch⟩, _⟩ := hok
    split
    · have h1 := shape_delDir h p (no_children_of_isEmpty hch)
      refine shape_setDir_deep h1 _ _ hw.2 ?_
      have hp0 := hasParent_of_isDir hqne hpar
      refine ⟨hp0.1, hp0.2.imp id (fun h' => (FS.mem_paths_delDir _ _ _).mpr ⟨?_, h'⟩)⟩
      intro e
      have := congrArg List.length e
      rw [List.length_dropLast, hw.1, hw.2] at this
      unfold depth at this; omega
    · exact h
  | unlink p n =>
    simp only [Call.eff]
    split
    · rename_i d hd
      exact shape_setDir_shrink h _ d _ hd (by intro e; subst e; rfl)
    · exact h
  | rmdir p =>
    simp only [Call.eff]
    simp only [Call.ok] at hok
    split at hok
    · cases hok
    · simp only [Bool.and_eq_true] at hok
      exact shape_delDir h p (no_children_of_isEmpty hok.2)
  | link p n q m =>
    simp only [Call.wf] at hw; simp only [Call.eff]
    split
    · rename_i c e hc he; exact shape_setDir_exist h _ e _ he hw
    · exact h

theorem shape_applyAll {cfg : Cfg} (cs : List (Call Name)) {fs : FS Name} (h : Shape cfg fs)
    (hw : ∀ c ∈ cs, Call.wf cfg c) : Shape cfg (applyAll fs cs) := by
  induction cs generalizing fs with
  | nil => exact h
  | cons c cs ih =>
    exact ih (shape_apply h c (hw c (List.mem_cons_self ..))) (fun c' hc' => hw c' (List.mem_cons_of_mem _ hc'))

theorem shape_applyPrefix {cfg : Cfg} (k : Nat) (cs : List (Call Name)) {fs : FS Name} (h : Shape cfg fs)
    (hw : ∀ c ∈ cs, Call.wf cfg c) : Shape cfg (applyPrefix k cs fs) :=
  shape_applyAll _ h (fun c hc => hw c (List.mem_of_mem_take hc))

/-- calls that create no directory keep `one` -/
theorem isSome_dir?_of_applyAll (cs : List (Call Name)) (fs : FS Name) (hc : ∀ c ∈ cs, c.created = [])
    (q : Path) (h : ((applyAll fs cs).dir? q).isSome = true) : (fs.dir? q).isSome = true := by
  have := (FS.mem_paths_iff _ _).mpr h
  rcases mem_paths_applyAll _ _ _ this with h1 | ⟨c, hc', h1⟩
  · exact (FS.mem_paths_iff _ _).mp h1
  · rw [hc c hc'] at h1; simp at h1

theorem goodFS_applyAll_removal {cfg : Cfg} (cs : List (Call Name)) {fs : FS Name} (h : GoodFS cfg fs)
    (hr : ∀ c ∈ cs, Call.removal c = true) : GoodFS cfg (applyAll fs cs) := by
  have hs := shape_applyAll cs h.shape (fun c hc => wf_of_removal cfg c (hr c hc))
  refine ⟨hs.len, hs.nofile, hs.par, ?_⟩
  intro K hv ⟨h1, h2⟩
  have hc : ∀ c ∈ cs, c.created = [] := fun c hc => removal_created c (hr c hc)
  exact h.one K hv ⟨isSome_dir?_of_applyAll cs fs hc _ h1, isSome_dir?_of_applyAll cs fs hc _ h2⟩

theorem goodFS_applyPrefix_removal {cfg : Cfg} (k : Nat) (cs : List (Call Name)) {fs : FS Name} (h : GoodFS cfg fs)
    (hr : ∀ c ∈ cs, Call.removal c = true) : GoodFS cfg (applyPrefix k cs fs) :=
  goodFS_applyAll_removal _ h (fun c hc => hr c (List.mem_of_mem_take hc))

/-! ### the in-memory state agrees with the tree -/

structure GoodBlob (cfg : Cfg) (fs : FS Name) (K : Key) (b : Blob) : Prop where
  valid : ValidKey cfg K
  dir : ∃ d, fs.dir? (dirPath cfg b.complete K) = some d ∧ (aget d Name.data).isSome = true ∧
        (aget d Name.ban).isSome = b.banned ∧
        (b.complete = false → cfg.reboot = true → ∃ s, aget d Name.size = some s ∧ parseSize s = some b.size)
  other : fs.dir? (dirPath cfg (!b.complete) K) = none

structure GoodMem (cfg : Cfg) (m : Mem) (fs : FS Name) : Prop where
  nodup : (akeys m.blobs).Nodup
  blob : ∀ K b, aget m.blobs K = some b → GoodBlob cfg fs K b
  absent : ∀ K, ValidKey cfg K → aget m.blobs K = none →
    fs.dir? (dirPath cfg false K) = none ∧ fs.dir? (dirPath cfg true K) = none
  qnodup : m.queue.Nodup
  queue : ∀ K, K ∈ m.queue ↔ ∃ b, aget m.blobs K = some b ∧ b.complete = true ∧ b.banned = false

structure Good (cfg : Cfg) (s : St) : Prop where
  fs : GoodFS cfg s.fs
  mem : ∀ m, s.mem = some m → GoodMem cfg m s.fs

theorem goodBlob_frame {cfg : Cfg} {fs fs' : FS Name} {K : Key} {b : Blob}
    (h : ∀ c, fs'.dir? (dirPath cfg c K) = fs.dir? (dirPath cfg c K)) (g : GoodBlob cfg fs K b) :
    GoodBlob cfg fs' K b := by
  obtain ⟨hv, ⟨d, hd, h1⟩, ho⟩ := g
  exact ⟨hv, ⟨d, by rw [h]; exact hd, h1⟩, by rw [h]; exact ho⟩

/-- the proper prefixes of a blob directory path are not blob directory paths of valid keys -/
theorem take_dirPath_ne {cfg : Cfg} {c c' : Bool} {K K' : Key} (hv : ValidKey cfg K') (i : Nat)
    (hi : i < (dirPath cfg c K).length) : (dirPath cfg c K).take i ≠ dirPath cfg c' K' := by
  intro e
  have h1 := congrArg List.length e
  rw [dirPath_length cfg c' K' hv, List.length_take] at h1
  have := dirPath_length_le cfg c K
  omega

end KrakenModel.DiskCrash
