import KrakenModel.Util.LTS
import KrakenModel.Model.Tiered
/-
  The specification side of C09: ghost history variables driven by the client operations only, the
  property as a predicate on (state, ghost), and the schedule hypothesis of the partial theorem.
-/
namespace KrakenModel.Tiered
open KrakenModel KrakenModel.BlobStore

/-- what the clients have been told so far (never read by the model) -/
structure Ghost where
  /-- created successfully and not deleted since -/
  live : Key → Bool := fun _ => false
  /-- bytes written at the successful `Create` of the current incarnation -/
  content : Key → Bytes := fun _ => []
  /-- bytes of the blob at its successful (completing) `MarkComplete` -/
  done : Key → Option Bytes := fun _ => none
  /-- the last successful `SetMetadata` (some) / `DeleteMetadata` (none) per suffix since `Create` -/
  md : Key → Nat → Option Md := fun _ _ => none

def upd {β : Type} (f : Key → β) (k : Key) (v : β) : Key → β := fun k' => if k' = k then v else f k'

/-- ghost update of a client operation, from what the operation answered -/
def gclient (g : Ghost) (o : COp) (out : Out) : Ghost :=
  match o, out with
  | .create k _ d, .ok =>
    { live := upd g.live k true, content := upd g.content k d, done := upd g.done k none,
      md := upd g.md k (fun _ => none) }
  | .markComplete k, .ok =>
    if g.live k && (g.done k).isNone then
      -- the completing call: immovable metadata is dropped at completion (C07)
      { g with done := upd g.done k (some (g.content k)),
               md := upd g.md k (fun sfx => (g.md k sfx).filter (·.movable)) }
    else g
  | .delete k _, .ok =>
    { g with live := upd g.live k false, done := upd g.done k none, md := upd g.md k (fun _ => none) }
  | .setMd k _ m, .ok => { g with md := upd g.md k (upd (g.md k) m.sfx (some m)) }
  | .delMd k _ sfx, .ok => { g with md := upd g.md k (upd (g.md k) sfx none) }
  | _, _ => g

structure GState where
  t : TState
  g : Ghost := {}

def gstep (s : GState) : Act → GState
  | .client o => { t := (capply s.t o).1, g := gclient s.g o (capply s.t o).2 }
  | .work i pick => { s with t := tstep s.t (.work i pick) }

def ginit (memCap diskCap nWorkers : Nat) : GState := { t := tinit memCap diskCap nWorkers }

def gsys (memCap diskCap nWorkers : Nat) : Sys GState Act :=
  { init := ginit memCap diskCap nWorkers, step := gstep }

theorem gstep_t (s : GState) (a : Act) : (gstep s a).t = tstep s.t a := by
  cases a <;> rfl

/-- the ghost variables only ride along: the state component is the plain run of the model -/
theorem grun_t (mc dc nw : Nat) (sched : List Act) :
    ((gsys mc dc nw).run sched).t = trun (tinit mc dc nw) sched := by
  have : ∀ (sched : List Act) (s : GState), (sched.foldl gstep s).t = sched.foldl tstep s.t := by
    intro sched
    induction sched with
    | nil => intro s; rfl
    | cons a sched ih => intro s; simp only [List.foldl_cons]; rw [ih, gstep_t]
  exact this sched _

/-- **The property.** From the moment a blob is marked complete until it is deleted or evicted from
disk, opening it (unscoped or under the complete scope) yields exactly its bytes and its metadata
reflects every successful update; a deleted key is not visible (hence `Create` is not answered
`exist`). -/
def Safe (s : GState) : Prop :=
  (∀ k bytes, s.g.done k = some bytes → k ∉ s.t.diskEvicted →
      openRead s.t k .any = some bytes ∧ openRead s.t k .complete = some bytes ∧
      ∀ sfx, readMd s.t k sfx = some ((s.g.md k sfx).map (·.val))) ∧
  (∀ k, s.g.live k = false → visible s.t k = false)

def inFlight (w : Worker) : Bool := w.pc ≠ .idle && w.pc ≠ .next

/-- the schedule class of the known finding, excluded by the partial theorem: a key is created
while the flusher still knows its previous incarnation (a queued flush or a flush in flight) -/
def pre (s : GState) : Act → Prop
  | .client (.create k _ _) => k ∉ s.t.queue ∧ ∀ w ∈ s.t.workers, inFlight w = true → w.key ≠ k
  | _ => True

instance (s : GState) (a : Act) : Decidable (pre s a) := by
  cases a with
  | client o => cases o <;> simp only [pre] <;> exact inferInstance
  | work i p => simp only [pre]; exact inferInstance

end KrakenModel.Tiered
