import KrakenModel.Model.RegistryPaths
import KrakenModel.Proof.C36Path
/- Helper lemmas for Spec/C38 (core Lean only). -/
namespace KrakenModel.Proof.C38
open KrakenModel.RegistryPaths KrakenModel.Codec
open KrakenModel.Proof.C36 (splitOn_joinSlash joinSlash_append)

theorem hasNewline_append (a b : Str) : hasNewline (a ++ b) = (hasNewline a || hasNewline b) := by
  simp [hasNewline, KrakenModel.NamePath.hasNewline]

theorem hasNewline_cons (c : Char) (b : Str) : hasNewline (c :: b) = (c == '\n' || hasNewline b) := by
  simp [hasNewline, KrakenModel.NamePath.hasNewline]

theorem hasNewline_join_append (a b : List Str) (ha : a ≠ []) (hb : b ≠ []) :
    hasNewline (joinSlash (a ++ b)) = (hasNewline (joinSlash a) || hasNewline (joinSlash b)) := by
  show hasNewline (KrakenModel.NamePath.joinSlash (a ++ b)) = _
  rw [joinSlash_append a b ha hb, hasNewline_append, hasNewline_cons]
  simp

theorem nonEmptyPrefix_append (a b : List Str) (h : nonEmptyPrefix a = true) (hb : b ≠ []) :
    nonEmptyPrefix (a ++ b) = true := by
  simp only [nonEmptyPrefix, Bool.and_eq_true, Bool.not_eq_true', List.isEmpty_eq_false_iff] at h ⊢
  obtain ⟨h1, h2⟩ := h
  refine ⟨?_, by simp [h2]⟩
  show KrakenModel.NamePath.joinSlash (a ++ b) ≠ []
  rw [joinSlash_append a b h2 hb]
  simp

/-- elements of a built path come back from splitting it -/
theorem split_comps (comps : List Str) (hne : comps ≠ []) (hno : ∀ c ∈ comps, '/' ∉ c) :
    splitOn '/' (joinSlash comps) = comps := splitOn_joinSlash comps hne hno

theorem getRepoScan_skip (pre : List Str) (h : sRepositories ∉ pre) : ∀ (acc rest : List Str),
    getRepoScan (pre ++ rest) acc = getRepoScan rest (acc ++ pre) := by
  induction pre with
  | nil => intro acc rest; simp
  | cons x xs ih =>
    intro acc rest
    have hx : x ≠ sRepositories := fun e => h (by simp [e])
    have := ih (fun m => h (by simp [m])) (acc ++ [x]) rest
    simp only [List.cons_append, getRepoScan, hx, false_and, if_false]
    rw [this]; simp

theorem firstMarker_skip (repo : List Str) (h : ∀ c ∈ repo, isMarker c = false) : ∀ (acc rest : List Str),
    firstMarker (repo ++ rest) acc = firstMarker rest (acc ++ repo) := by
  induction repo with
  | nil => intro acc rest; simp
  | cons x xs ih =>
    intro acc rest
    have hx := h x (by simp)
    have := ih (fun c hc => h c (by simp [hc])) (acc ++ [x]) rest
    simp only [List.cons_append, firstMarker, hx, Bool.false_eq_true, false_and, if_false]
    rw [this]; simp

theorem matchManifestsScan_none : ∀ (L after : List Str), (∀ x ∈ L, x ≠ sManifests) →
    matchManifestsScan L after = .noMatch := by
  intro L
  induction L with
  | nil => intro after _; cases after <;> rfl
  | cons x xs ih =>
    intro after h
    have hx := h x (by simp)
    have hr := fun a => ih a (fun y hy => h y (by simp [hy]))
    cases after with
    | nil => simp [matchManifestsScan, hr]
    | cons st tail => simp [matchManifestsScan, hx, hr]

theorem uploadScan_none (accept : List Str → Option UploadTail) : ∀ (L after : List Str), (∀ x ∈ L, x ≠ sUploads) →
    uploadScan accept L after = .noMatch := by
  intro L
  induction L with
  | nil => intro after _; cases after <;> rfl
  | cons x xs ih =>
    intro after h
    have hx := h x (by simp)
    have hr := fun a => ih a (fun y hy => h y (by simp [hy]))
    cases after with
    | nil => simp [uploadScan, hr]
    | cons u tail => simp [uploadScan, hx, hr]

theorem isMarker_consts : isMarker sManifests = true ∧ isMarker sUploads = true ∧ isMarker sLayers = true ∧
    isMarker sRepositories = false := by decide

theorem ne_of_not_marker {x : Str} (h : isMarker x = false) : x ≠ sManifests ∧ x ≠ sUploads ∧ x ≠ sLayers := by
  refine ⟨?_, ?_, ?_⟩ <;> (intro e; subst e; revert h; decide)

end KrakenModel.Proof.C38
