import KrakenModel.Proof.C04Create
/-
  C04 proof library, part 8: `Torrent.WritePiece`, restart, and the system.
-/
set_option linter.unusedSectionVars false
set_option linter.unusedSimpArgs false
namespace KrakenModel.AgentCrash
open KrakenModel.FS

/-- the piece checksum separates the blob's pieces from every other payload of the same length -/
def SumSep (cfg : Cfg) {σ : Type} [DecidableEq σ] (sum : Bytes → σ) : Prop :=
  ∀ i p, p.length = pieceLength cfg i → sum p = sum (pieceOf cfg i) → p = pieceOf cfg i

theorem opOK_noop {cfg : Cfg} {m : Mem} {fs : FS Name} (g : GoodFS cfg fs) (gm : GoodMem cfg m fs) (res : Res) :
    OpOK cfg fs ⟨m, [], res⟩ :=
  ⟨fun k => by simpa [applyPrefix] using g, by simpa using gm⟩

theorem getElem?_set_true (l : List Bool) (i j : Nat) (hi : i < l.length) :
    (l.set i true)[j]? = some true ↔ (j = i ∨ l[j]? = some true) := by
  by_cases hj : j = i
  · subst hj; simp [List.getElem?_set, hi]
  · simp [List.getElem?_set, hj, Ne.symm hj]

theorem write_ok {cfg : Cfg} (hpl : 0 < cfg.pl) {σ : Type} [DecidableEq σ] (sum : Bytes → σ) (hsep : SumSep cfg sum) (o : Order Name) (mo : List Name)
    (m : Mem) (fs : FS Name) (i : Nat) (p : Bytes) (g : GoodFS cfg fs) (gm : GoodMem cfg m fs) :
    OpOK cfg fs (writePiece cfg sum o mo m fs i p) ∧
    -- the right bytes for a missing piece: the write succeeds and the piece is complete
    (∀ t, m.tor = some t → t.committed = false → i < numPieces cfg → t.status[i]? = some false → p = pieceOf cfg i →
      (writePiece cfg sum o mo m fs i p).res = Res.ok ∧
      (writePiece cfg sum o mo m fs i p).mem.tor = some ⟨t.status.set i true, (t.status.set i true).all id⟩) := by
  unfold writePiece
  cases hmt : m.tor with
  | none => exact ⟨opOK_noop g gm _, fun t' h => by cases h⟩
  | some t =>
    cases hme : m.entry with
    | none =>
      refine ⟨opOK_noop g gm _, ?_⟩
      intro t' _ _ _ _ _
      obtain ⟨e', he', _⟩ := gm.tor t hmt
      rw [hme] at he'; cases he'
    | some e =>
      simp only
      by_cases h1 : i ≥ t.status.length
      · simp only [h1, if_true]
        refine ⟨opOK_noop g gm _, ?_⟩
        intro t' ht' _ _ hs' _; cases ht'
        exfalso
        have := List.getElem?_eq_some_iff.mp hs'
        obtain ⟨hlt, _⟩ := this; omega
      · simp only [h1, if_false]
        by_cases h2 : p.length ≠ (if i < numPieces cfg then pieceLength cfg i else 0)
        · rw [if_pos h2]
          refine ⟨opOK_noop g gm _, ?_⟩
          intro t' _ _ hi' _ hp'
          exfalso; apply h2; rw [hp']; simp [hi', pieceLength]
        · rw [if_neg h2]
          by_cases h3 : t.status.getD i false = true
          · simp only [h3, if_true]
            refine ⟨opOK_noop g gm _, ?_⟩
            intro t' ht' _ _ hs' _; cases ht'
            exfalso
            simp [List.getD_eq_getElem?_getD, hs'] at h3
          · simp only [h3, Bool.false_eq_true, if_false]
            by_cases h4 : e.cache = true
            · simp only [h4, if_true]
              refine ⟨opOK_noop g gm _, ?_⟩
              intro t' ht' hc' _ _ _; cases ht'
              exfalso
              obtain ⟨e', he', _, hT2⟩ := gm.tor t hmt
              rw [hme] at he'; cases he'
              have := (hT2 hc').1; rw [h4] at this; cases this
            · simp only [h4, Bool.false_eq_true, if_false]
              by_cases h5 : (fs.file? (entryDir cfg false) Name.data).isNone = true
              · simp only [h5, if_true]
                refine ⟨opOK_noop g gm _, ?_⟩
                intro t' _ _ _ _ _
                exfalso
                have := (gm.ent e hme).1
                have hcf : e.cache = false := by simpa using h4
                rw [hcf] at this
                cases hd : fs.file? (entryDir cfg false) Name.data with
                | none => rw [hd] at this; cases this
                | some d => rw [hd] at h5; cases h5
              · simp only [h5, Bool.false_eq_true, if_false]
                -- the torrent is not committed; its status vector mirrors the file
                have hcf : e.cache = false := by simpa using h4
                obtain ⟨e', he', hT1, hT2⟩ := gm.tor t hmt
                rw [hme] at he'; cases he'
                have hnc : t.committed = false := by
                  cases hc : t.committed with
                  | false => rfl
                  | true => rw [hT1 hc] at hcf; cases hcf
                obtain ⟨_, hlenT, hallT, st, hst, hstlen, hiff⟩ := hT2 hnc
                have hi : i < numPieces cfg := by omega
                have hplen : p.length = pieceLength cfg i := by simpa [hi] using h2
                obtain ⟨hE1, hE2, hE3⟩ := gm.ent e hme
                rw [hcf] at hE1
                obtain ⟨d, hd⟩ := Option.isSome_iff_exists.mp hE1
                have hnotT : t.status[i]? ≠ some true := by
                  intro h; apply h3
                  simp [List.getD_eq_getElem?_getD, h]
                have hnm : NotMarked cfg i fs := by
                  intro st' hst' _ hm
                  simp only [dlStatus] at hst'; rw [hst] at hst'; cases hst'
                  exact hnotT ((hiff i hi).mpr hm)
                -- the chunk writes
                have hchunk := chunkCalls_chunkOf cfg i (p.length + 1) (i * cfg.pl) p (Nat.le_refl _) (by omega)
                generalize hws : chunkCalls (entryDir cfg false) cfg.wps (p.length + 1) (i * cfg.pl) p = ws at *
                have hinv := prefix_inv (fun f => GoodFS cfg f ∧ NotMarked cfg i f) ws fs ⟨g, hnm⟩
                  (fun c hc f ⟨gf, nf⟩ => goodFS_apply_chunk hpl hi (hchunk c hc) gf nf)
                have hwsother : ∀ q n, (q, n) ≠ (entryDir cfg false, Name.data) → (applyAll fs ws).file? q n = fs.file? q n := by
                  intro q n hne
                  apply file?_applyAll_of_not_written
                  intro c hc
                  obtain ⟨off, b, rfl, _⟩ := hchunk c hc
                  exact ⟨rfl, by simpa [Call.writes] using hne⟩
                obtain ⟨d', hd', hin, _⟩ := chunkCalls_result (entryDir cfg false) cfg.wps (p.length + 1) (i * cfg.pl) p fs d
                  (Nat.lt_succ_self _) hd
                rw [hws] at hd'
                have gW : GoodFS cfg (applyAll fs ws) := by
                  have := hinv ws.length; rw [applyPrefix_all _ _ _ (Nat.le_refl _)] at this; exact this.1
                have gmW : GoodMem cfg m (applyAll fs ws) := by
                  refine ⟨?_, ?_⟩
                  · intro e2 he2; rw [hme] at he2; cases he2
                    refine ⟨by rw [hcf, hd']; rfl, hE2, fun _ n hn => ?_⟩
                    by_cases hnd : n = Name.data
                    · subst hnd; rw [hd']; rfl
                    · rw [hwsother _ _ (by intro e'; exact hnd (Prod.ext_iff.mp e').2)]; exact hE3 hcf n hn
                  · intro t2 ht2; rw [hmt] at ht2; cases ht2
                    exact ⟨e, hme, hT1, fun _ => ⟨hcf, hlenT, hallT, st, by rw [hwsother _ _ (by simp)]; exact hst, hstlen, hiff⟩⟩
                by_cases h6 : sum p ≠ sum (pieceOf cfg i)
                · rw [if_pos h6]
                  refine ⟨⟨fun k => (hinv k).1, gmW⟩, ?_⟩
                  intro t' _ _ _ _ hp'
                  exfalso; apply h6; rw [hp']
                · rw [if_neg h6]
                  have hpp : p = pieceOf cfg i := hsep i p hplen (by simpa using h6)
                  have hstW : (applyAll fs ws).file? (entryDir cfg false) Name.status = some st := by
                    rw [hwsother _ _ (by simp)]; exact hst
                  simp only [hstW]
                  have h7 : ¬ i ≥ st.length := by omega
                  simp only [h7, if_false]
                  have hsti : st[i]? ≠ some 1 := fun h => hnotT ((hiff i hi).mpr h)
                  have h8 : ¬ st.getD i 0 = 1 := by
                    intro h; apply hsti
                    rw [List.getElem?_eq_getElem (by omega)]
                    simp only [List.getD, List.getElem?_eq_getElem (show i < st.length by omega), Option.getD_some] at h
                    rw [h]
                  simp only [h8, if_false]
                  -- the piece is right, so marking it is safe
                  have hpok : PieceOK cfg d' i := pieceOK_of_written cfg i d' (by
                    intro j hj1 hj2; rw [← hpp]; exact hin j hj1 (by omega))
                  have gM : GoodFS cfg (apply (applyAll fs ws) (Call.pwrite (entryDir cfg false) Name.status i [1])) :=
                    goodFS_apply_mark gW (by intro d2 h; simp only [dlData] at h; rw [hd'] at h; cases h; exact hpok)
                      (by intro st2 h; simp only [dlStatus] at h; rw [hstW] at h; cases h; exact ⟨hstlen, hi⟩)
                  have hMs : (apply (applyAll fs ws) (Call.pwrite (entryDir cfg false) Name.status i [1])).file?
                      (entryDir cfg false) Name.status = some (writeAt st i [1]) := by
                    rw [file?_apply_pwrite, hstW]; rfl
                  have hMother : ∀ q n, (q, n) ≠ (entryDir cfg false, Name.status) →
                      (apply (applyAll fs ws) (Call.pwrite (entryDir cfg false) Name.status i [1])).file? q n =
                        (applyAll fs ws).file? q n := fun q n hne =>
                    file?_apply_of_not_written _ _ _ _ rfl (by simpa [Call.writes] using hne)
                  have hst'len : (writeAt st i [1]).length = numPieces cfg := by rw [length_writeAt]; simp; omega
                  have hiff' : ∀ j, j < numPieces cfg →
                      ((t.status.set i true)[j]? = some true ↔ (writeAt st i [1])[j]? = some 1) := by
                    intro j hj
                    rw [getElem?_set_true _ _ _ (by omega)]
                    by_cases hji : j = i
                    · subst hji
                      rw [getElem?_writeAt_in st j [1] j (Nat.le_refl _) (by simp)]; simp
                    · rw [getElem?_writeAt_out st i [1] j (by omega) (by simp; omega)]
                      simp [hji, hiff j hj]
                  have hpre2 : ∀ k, GoodFS cfg (applyPrefix k (ws ++ [Call.pwrite (entryDir cfg false) Name.status i [1]]) fs) :=
                    prefix_append _ _ _ _ (fun k => (hinv k).1) (by
                      intro k
                      match k with
                      | 0 => simpa [applyPrefix] using gW
                      | k + 1 =>
                        have : applyPrefix (k + 1) [Call.pwrite (entryDir cfg false) Name.status i [1]] (applyAll fs ws) =
                            apply (applyAll fs ws) (Call.pwrite (entryDir cfg false) Name.status i [1]) := by simp [applyPrefix]
                        rw [this]; exact gM)
                  have hfs2 : applyAll (applyAll fs ws) [Call.pwrite (entryDir cfg false) Name.status i [1]] =
                      apply (applyAll fs ws) (Call.pwrite (entryDir cfg false) Name.status i [1]) := rfl
                  rw [hfs2]
                  generalize hfsM : apply (applyAll fs ws) (Call.pwrite (entryDir cfg false) Name.status i [1]) = fsM at *
                  have hfsM' : applyAll fs (ws ++ [Call.pwrite (entryDir cfg false) Name.status i [1]]) = fsM := by
                    rw [applyAll_append, ← hfsM]; rfl
                  have hdM : fsM.file? (entryDir cfg false) Name.data = some d' := by rw [hMother _ _ (by simp)]; exact hd'
                  have hmdsM : ∀ n ∈ e.mds, (fsM.file? (entryDir cfg false) n).isSome = true := by
                    intro n hn
                    by_cases hns : n = Name.status
                    · subst hns; rw [hMs]; rfl
                    · rw [hMother _ _ (by intro e'; exact hns (Prod.ext_iff.mp e').2)]
                      exact ((gmW.ent e hme).2.2 hcf) n hn
                  by_cases h9 : (t.status.set i true).all id = true
                  · simp only [h9, if_true]
                    have hdb : d' = cfg.blob := by
                      apply data_eq_blob_of_all_marked hpl gM d' (writeAt st i [1]) hdM hMs hst'len
                      intro j hj
                      apply (hiff' j hj).mp
                      have hlt : j < (t.status.set i true).length := by simp; omega
                      rw [List.getElem?_eq_getElem hlt]
                      have := List.all_eq_true.mp h9 _ (List.getElem_mem hlt)
                      simpa using this
                    obtain ⟨mv, hmv, hmp, hmc⟩ := movePlan_spec o mo e fsM gM (by rw [hdM, hdb]) hE2 hmdsM
                    rw [hmv]
                    refine ⟨⟨?_, ?_⟩, fun t' ht' _ _ _ _ => by cases ht'; exact ⟨rfl, by simp [h9]⟩⟩
                    · simp only
                      exact prefix_append _ _ _ _ hpre2 (by rw [hfsM']; exact hmp)
                    · simp only
                      rw [applyAll_append, hfsM']
                      refine ⟨?_, ?_⟩
                      · intro e2 he2; cases he2
                        exact ⟨(by simp only; rw [hmc]; rfl), hE2, (fun h => by cases h)⟩
                      · intro t2 ht2; cases ht2
                        exact ⟨_, rfl, (fun _ => rfl), (fun h => by cases h)⟩
                  · simp only [h9, Bool.false_eq_true, if_false]
                    refine ⟨⟨hpre2, ?_⟩, fun t' ht' _ _ _ _ => by cases ht'; exact ⟨by simp, by simp [h9]⟩⟩
                    simp only
                    rw [hfsM']
                    refine ⟨?_, ?_⟩
                    · intro e2 he2; cases he2
                      exact ⟨(by rw [hcf, hdM]; rfl), hE2, (fun _ => hmdsM)⟩
                    · intro t2 ht2; cases ht2
                      exact ⟨e, rfl, (fun h => by cases h), fun _ => ⟨hcf, (by simp; omega), (by simpa using h9),
                        writeAt st i [1], hMs, hst'len, hiff'⟩⟩

/-- a write that is refused early leaves the agent's memory alone -/
theorem writePiece_mem_noop (cfg : Cfg) {σ : Type} [DecidableEq σ] (sum : Bytes → σ) (o : Order Name) (mo : List Name) (m : Mem) (fs : FS Name)
    (i : Nat) (p : Bytes) (t : Torrent) (e : Entry) (ht : m.tor = some t) (he : m.entry = some e)
    (h : i ≥ t.status.length ∨ t.status.getD i false = true ∨ e.cache = true) :
    (writePiece cfg sum o mo m fs i p).mem = m := by
  unfold writePiece
  rw [ht, he]; simp only
  by_cases h1 : i ≥ t.status.length
  · simp only [h1, if_true]
  · simp only [h1, if_false]
    by_cases h2 : p.length ≠ (if i < numPieces cfg then pieceLength cfg i else 0)
    · rw [if_pos h2]
    · rw [if_neg h2]
      by_cases h3 : t.status.getD i false = true
      · simp only [h3, if_true]
      · simp only [h3, Bool.false_eq_true, if_false]
        by_cases h4 : e.cache = true
        · simp only [h4, if_true]
        · exfalso; rcases h with h | h | h
          · exact h1 h
          · exact h3 h
          · exact h4 h

theorem restart_ok {cfg : Cfg} (fs : FS Name) (g : GoodFS cfg fs) : OpOK cfg fs ⟨{}, restartPlan fs, Res.ok⟩ :=
  ⟨neutral_prefix g _ (restartPlan_neutral cfg fs),
   ⟨(fun e h => by cases h), (fun t h => by cases h)⟩⟩

/-- `DeleteTorrent` / a clean-up of either directory / a cache eviction -/
theorem evict_ok {cfg : Cfg} (o : Order Name) (m : Mem) (fs : FS Name) (g : GoodFS cfg fs) : OpOK cfg fs (evict cfg o m fs) := by
  have hm0 : (evict cfg o m fs).mem = {} := by
    unfold evict; simp only; split <;> rfl
  refine ⟨?_, by rw [hm0]; exact ⟨(fun e h => by cases h), (fun t h => by cases h)⟩⟩
  unfold evict
  cases hme : m.entry with
  | some e =>
    simp only [loadEntry, hme, List.nil_append]
    exact removal_prefix _ (removeAllPlan_removal fs o _) g
  | none =>
    simp only [loadEntry, hme]
    cases hfind : [false, true].find? (fun c => (fs.file? (entryDir cfg c) Name.data).isSome) with
    | none => simp only; intro k; simpa [applyPrefix] using g
    | some c =>
      simp only
      have hlN := latPlan_neutral cfg fs c
      exact prefix_append _ _ _ _ (neutral_prefix g _ hlN)
        (removal_prefix _ (removeAllPlan_removal _ o _) (goodFS_all (neutral_prefix g _ hlN)))

theorem exec_ok {cfg : Cfg} (hpl : 0 < cfg.pl) (hlat : cfg.lat ≠ []) {σ : Type} [DecidableEq σ] (sum : Bytes → σ) (hsep : SumSep cfg sum)
    (o : Order Name) (mo : List Name) (m : Mem) (fs : FS Name) (g : GoodFS cfg fs) (gm : GoodMem cfg m fs) (op : Op) :
    OpOK cfg fs (exec cfg sum o mo m fs op) := by
  cases op with
  | create => exact (create_ok hpl hlat o mo m fs g gm).toOpOK
  | write i p => exact (write_ok hpl sum hsep o mo m fs i p g gm).1
  | restart => exact restart_ok fs g
  | evict => exact evict_ok o m fs g

end KrakenModel.AgentCrash
