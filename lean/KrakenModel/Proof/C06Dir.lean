import KrakenModel.Proof.C06Inv
/-
  C06 proof library, part 3: calls that act on the files of one directory.
-/
set_option linter.unusedSectionVars false
set_option linter.unusedSimpArgs false
namespace KrakenModel.DiskCrash
open KrakenModel.FS

/-- the call acts on files of directory `p` only -/
def _root_.KrakenModel.FS.Call.inDir (p : Path) : Call Name → Prop
  | .creat q _ => q = p
  | .openCreat q _ => q = p
  | .openTrunc q _ => q = p
  | .truncate q _ _ => q = p
  | .pwrite q _ _ _ => q = p
  | .unlink q _ => q = p
  | .rename q _ q' _ => q = p ∧ q' = p
  | _ => False

/-- its effect on that directory's entries -/
def fileEff : Call Name → DirEnt Name → DirEnt Name
  | .creat _ n, d => if (aget d n).isNone then aset d n [] else d
  | .openCreat _ n, d => if (aget d n).isSome then d else aset d n []
  | .openTrunc _ n, d => aset d n []
  | .truncate _ n len, d => match aget d n with
      | some c => aset d n (truncTo c len)
      | none => d
  | .pwrite _ n off b, d => match aget d n with
      | some c => aset d n (writeAt c off b)
      | none => d
  | .unlink _ n, d => adel d n
  | .rename _ n _ m, d => match aget d n with
      | some c => if n = m then d else aset (adel d n) m c
      | none => d
  | _, d => d

/-- the names whose binding the call may change -/
def _root_.KrakenModel.FS.Call.names : Call Name → List Name
  | .creat _ n => [n]
  | .openCreat _ n => [n]
  | .openTrunc _ n => [n]
  | .truncate _ n _ => [n]
  | .pwrite _ n _ _ => [n]
  | .unlink _ n => [n]
  | .rename _ n _ m => [n, m]
  | _ => []

/-- the names the call may remove -/
def _root_.KrakenModel.FS.Call.removes : Call Name → List Name
  | .unlink _ n => [n]
  | .rename _ n _ _ => [n]
  | _ => []

theorem dir?_apply_inDir (fs : FS Name) (c : Call Name) (p : Path) (d : DirEnt Name)
    (hc : c.inDir p) (hd : fs.dir? p = some d) : (apply fs c).dir? p = some (fileEff c d) := by
  cases c with
  | creat q n =>
    simp only [Call.inDir] at hc; subst hc
    simp only [apply, Call.ok, FS.file?, hd, Option.isSome_some, Bool.true_and, fileEff]
    by_cases h : (aget d n).isNone = true <;> simp [h, Call.eff, hd]
  | openCreat q n =>
    simp only [Call.inDir] at hc; subst hc
    simp only [apply, Call.ok, hd, Option.isSome_some, if_true, fileEff, Call.eff]
    by_cases h : (aget d n).isSome = true <;> simp [h, hd]
  | openTrunc q n =>
    simp only [Call.inDir] at hc; subst hc
    simp [apply, Call.ok, hd, fileEff, Call.eff]
  | truncate q n len =>
    simp only [Call.inDir] at hc; subst hc
    simp only [apply, Call.ok, FS.file?, hd, fileEff, Call.eff]
    cases h : aget d n <;> simp [h, hd]
  | pwrite q n off b =>
    simp only [Call.inDir] at hc; subst hc
    simp only [apply, Call.ok, FS.file?, hd, fileEff, Call.eff]
    cases h : aget d n <;> simp [h, hd]
  | unlink q n =>
    simp only [Call.inDir] at hc; subst hc
    simp only [apply, Call.ok, FS.file?, hd, fileEff, Call.eff]
    cases h : aget d n with
    | none =>
      simp only [Option.isSome_none, Bool.false_eq_true, if_false, hd]
      congr 1; symm
      simp only [adel]; apply List.filter_eq_self.mpr
      intro e he; simp
      intro hn; rw [aget_eq_none_iff] at h
      exact h (by simp only [akeys, List.mem_map]; exact ⟨e, he, hn⟩)
    | some c => simp
  | rename q n q' m =>
    simp only [Call.inDir] at hc; obtain ⟨h1, h2⟩ := hc; subst h1; subst h2
    simp only [apply, Call.ok, FS.file?, hd, fileEff, Call.eff]
    cases h : aget d n with
    | none => simp [hd]
    | some c =>
      by_cases hnm : n = m <;> simp [hnm, hd]
  | mkdir _ => simp [Call.inDir] at hc
  | renameDir _ _ => simp [Call.inDir] at hc
  | rmdir _ => simp [Call.inDir] at hc
  | link _ _ _ _ => simp [Call.inDir] at hc

theorem aget_fileEff_of_not_named (c : Call Name) (d : DirEnt Name) (x : Name) (h : x ∉ c.names) :
    aget (fileEff c d) x = aget d x := by
  cases c with
  | creat q n =>
    simp only [Call.names, List.mem_singleton] at h
    simp only [fileEff]; split
    · exact aget_aset_ne _ _ _ _ (Ne.symm h)
    · rfl
  | openCreat q n =>
    simp only [Call.names, List.mem_singleton] at h
    simp only [fileEff]; split
    · rfl
    · exact aget_aset_ne _ _ _ _ (Ne.symm h)
  | openTrunc q n =>
    simp only [Call.names, List.mem_singleton] at h
    exact aget_aset_ne _ _ _ _ (Ne.symm h)
  | truncate q n len =>
    simp only [Call.names, List.mem_singleton] at h
    simp only [fileEff]; split
    · exact aget_aset_ne _ _ _ _ (Ne.symm h)
    · rfl
  | pwrite q n off b =>
    simp only [Call.names, List.mem_singleton] at h
    simp only [fileEff]; split
    · exact aget_aset_ne _ _ _ _ (Ne.symm h)
    · rfl
  | unlink q n =>
    simp only [Call.names, List.mem_singleton] at h
    exact aget_adel_ne _ _ _ (Ne.symm h)
  | rename q n q' m =>
    simp only [Call.names, List.mem_cons, List.not_mem_nil, or_false, not_or] at h
    simp only [fileEff]; split
    · split
      · rfl
      · rw [aget_aset_ne _ _ _ _ (Ne.symm h.2), aget_adel_ne _ _ _ (Ne.symm h.1)]
    · rfl
  | mkdir _ => rfl
  | renameDir _ _ => rfl
  | rmdir _ => rfl
  | link _ _ _ _ => rfl

theorem isSome_fileEff_of_not_removed (c : Call Name) (d : DirEnt Name) (x : Name) (h : x ∉ c.removes)
    (hx : (aget d x).isSome = true) : (aget (fileEff c d) x).isSome = true := by
  by_cases hn : x ∈ c.names
  · cases c with
    | creat q n =>
      simp only [Call.names, List.mem_singleton] at hn; subst hn
      simp only [fileEff]; split
      · simp [aget_aset_self]
      · exact hx
    | openCreat q n =>
      simp only [Call.names, List.mem_singleton] at hn; subst hn
      simp only [fileEff]; split
      · exact hx
      · rename_i hh; exact absurd hx hh
    | openTrunc q n =>
      simp only [Call.names, List.mem_singleton] at hn; subst hn
      simp [fileEff, aget_aset_self]
    | truncate q n len =>
      simp only [Call.names, List.mem_singleton] at hn; subst hn
      simp only [fileEff]; split
      · simp [aget_aset_self]
      · exact hx
    | pwrite q n off b =>
      simp only [Call.names, List.mem_singleton] at hn; subst hn
      simp only [fileEff]; split
      · simp [aget_aset_self]
      · exact hx
    | unlink q n =>
      simp only [Call.names, List.mem_singleton] at hn; subst hn
      simp [Call.removes] at h
    | rename q n q' m =>
      simp only [Call.removes, List.mem_singleton] at h
      simp only [Call.names, List.mem_cons, List.not_mem_nil, or_false] at hn
      rcases hn with hn | hn
      · exact absurd hn h
      · subst hn
        simp only [fileEff]; split
        · split
          · exact hx
          · simp [aget_aset_self]
        · exact hx
    | mkdir _ => simp [Call.names] at hn
    | renameDir _ _ => simp [Call.names] at hn
    | rmdir _ => simp [Call.names] at hn
    | link _ _ _ _ => simp [Call.names] at hn
  · rw [aget_fileEff_of_not_named c d x hn]; exact hx

/-- folding the per-directory effects of a list of in-directory calls -/
def filesAfter (cs : List (Call Name)) (d : DirEnt Name) : DirEnt Name := cs.foldl (fun d c => fileEff c d) d

theorem dir?_applyAll_inDir (cs : List (Call Name)) (fs : FS Name) (p : Path) (d : DirEnt Name)
    (hc : ∀ c ∈ cs, c.inDir p) (hd : fs.dir? p = some d) :
    (applyAll fs cs).dir? p = some (filesAfter cs d) := by
  induction cs generalizing fs d with
  | nil => simpa [filesAfter] using hd
  | cons c cs ih =>
    simp only [applyAll_cons, filesAfter, List.foldl_cons]
    exact ih _ _ (fun c' hc' => hc c' (List.mem_cons_of_mem _ hc'))
      (dir?_apply_inDir fs c p d (hc c (List.mem_cons_self ..)) hd)

theorem aget_filesAfter_of_not_named (cs : List (Call Name)) (d : DirEnt Name) (x : Name)
    (h : ∀ c ∈ cs, x ∉ c.names) : aget (filesAfter cs d) x = aget d x := by
  induction cs generalizing d with
  | nil => rfl
  | cons c cs ih =>
    simp only [filesAfter, List.foldl_cons]
    have := ih (fileEff c d) (fun c' hc' => h c' (List.mem_cons_of_mem _ hc'))
    simp only [filesAfter] at this
    rw [this, aget_fileEff_of_not_named c d x (h c (List.mem_cons_self ..))]

theorem isSome_filesAfter_of_not_removed (cs : List (Call Name)) (d : DirEnt Name) (x : Name)
    (h : ∀ c ∈ cs, x ∉ c.removes) (hx : (aget d x).isSome = true) : (aget (filesAfter cs d) x).isSome = true := by
  induction cs generalizing d with
  | nil => exact hx
  | cons c cs ih =>
    simp only [filesAfter, List.foldl_cons]
    exact ih (fileEff c d) (fun c' hc' => h c' (List.mem_cons_of_mem _ hc'))
      (isSome_fileEff_of_not_removed c d x (h c (List.mem_cons_self ..)) hx)

theorem inDir_touched {c : Call Name} {p : Path} (h : c.inDir p) : c.touched = [p] ∨ c.touched = [p, p] := by
  cases c <;> simp only [Call.inDir] at h <;> first
    | (subst h; left; rfl)
    | (obtain ⟨h1, h2⟩ := h; subst h1; subst h2; right; rfl)
    | exact absurd h id

theorem inDir_created {c : Call Name} {p : Path} (h : c.inDir p) : c.created = [] := by
  cases c <;> simp only [Call.inDir] at h <;> first | rfl | exact absurd h id

theorem inDir_wf {cfg : Cfg} {c : Call Name} {p : Path} (h : c.inDir p) (hp : p.length = depth cfg) :
    Call.wf cfg c := by
  cases c <;> simp only [Call.inDir] at h <;> simp only [Call.wf] <;> first
    | (subst h; exact hp)
    | (obtain ⟨h1, h2⟩ := h; subst h2; exact hp)
    | trivial
    | exact absurd h id

theorem dir?_applyAll_inDir_other (cs : List (Call Name)) (fs : FS Name) (p q : Path)
    (hc : ∀ c ∈ cs, c.inDir p) (hq : q ≠ p) : (applyAll fs cs).dir? q = fs.dir? q :=
  dir?_applyAll_of_not_touched _ _ _ (fun c hc' => by
    rcases inDir_touched (hc c hc') with h | h <;> rw [h] <;> simp [hq])

end KrakenModel.DiskCrash
