import KrakenModel.Proof.C03Base
/-
  C03 helper lemmas, part 2: the invariant `Good` of the agent-torrent model and its preservation
  by every atomic step of every thread (hence by every interleaving).  Core Lean only.
-/
namespace KrakenModel.Proof.C03
open KrakenModel.AgentTorrent

/-- program points at which the thread is the exclusive writer of its piece (the piece is dirty) -/
def holds : PC → Bool
  | .openFile | .writing | .checksum | .setMeta | .markComplete | .markEmpty => true
  | _ => false

section
variable (crc : Bytes → Nat) (pl : Nat) (blob : Bytes)

/-- **Checksum separation** for a payload offered for index `pi`: if it has the length and the
    checksum of the blob's piece then it is that piece.  (CRC-32 is not collision-free; this is
    the stated hypothesis of DESIGN.md §5 under which byte-identity is proved.) -/
def SepPayload (pi : Int) (p : Bytes) : Prop :=
  0 ≤ pi → p.length = (pieceOf pl blob pi.toNat).length →
    crc p = crc (pieceOf pl blob pi.toNat) → p = pieceOf pl blob pi.toNat

instance (pi : Int) (p : Bytes) : Decidable (SepPayload crc pl blob pi p) := by
  unfold SepPayload; exact inferInstance

def Valid (t : Thread) : Prop :=
  t.idx < numPiecesOf pl blob.length ∧ t.payload.length = (pieceOf pl blob t.idx).length ∧
    t.pi = (t.idx : Int)

/-- what is known about a thread at each program point -/
def TOK (s : State) (t : Thread) : Prop :=
  SepPayload crc pl blob t.pi t.payload ∧
  match t.pc with
  | .start | .done | .loadNum | .incNum => True
  | .fastComplete | .fastDirty | .tryDirty => Valid pl blob t
  | .openFile | .markEmpty =>
    Valid pl blob t ∧ s.pieces[t.idx]? = some .dirty ∧ s.status[t.idx]? ≠ some 1
  | .writing =>
    Valid pl blob t ∧ s.pieces[t.idx]? = some .dirty ∧ s.status[t.idx]? ≠ some 1 ∧
      t.written ≤ t.payload.length ∧ ∀ j, j < t.written → s.file[pl * t.idx + j]? = t.payload[j]?
  | .checksum =>
    Valid pl blob t ∧ s.pieces[t.idx]? = some .dirty ∧ s.status[t.idx]? ≠ some 1 ∧
      ∀ j, j < t.payload.length → s.file[pl * t.idx + j]? = t.payload[j]?
  | .setMeta =>
    Valid pl blob t ∧ s.pieces[t.idx]? = some .dirty ∧ s.status[t.idx]? ≠ some 1 ∧
      ∀ j, j < pl → s.file[pl * t.idx + j]? = blob[pl * t.idx + j]?
  | .markComplete =>
    Valid pl blob t ∧ s.pieces[t.idx]? = some .dirty ∧ s.status[t.idx]? = some 1
  | .move => s.pieces.length ≤ s.numComplete
  | .setCommitted => s.pieces.length ≤ s.numComplete ∧ s.inCache = true

structure Good (s : State) : Prop where
  mi_eq : s.mi = MetaInfo.ofBlob crc pl blob
  len_pieces : s.pieces.length = numPiecesOf pl blob.length
  len_status : s.status.length = numPiecesOf pl blob.length
  len_file : s.file.length = blob.length
  /-- a piece persisted as complete holds the blob's bytes -/
  status_good : ∀ (i : Nat), s.status[i]? = some 1 → ∀ (j : Nat), j < pl → s.file[pl * i + j]? = blob[pl * i + j]?
  complete_status : ∀ (i : Nat), s.pieces[i]? = some PStatus.complete → s.status[i]? = some 1
  empty_status : ∀ (i : Nat), s.pieces[i]? = some PStatus.empty → s.status[i]? ≠ some 1
  thr : ∀ (tid : Nat) (t : Thread), s.threads[tid]? = some t → TOK crc pl blob s t
  /-- at most one thread writes a piece -/
  excl : ∀ (a b : Nat) (ta tb : Thread), s.threads[a]? = some ta → s.threads[b]? = some tb → a ≠ b →
    holds ta.pc = true → holds tb.pc = true → ta.idx ≠ tb.idx
  /-- a dirty piece has a writer -/
  owned : ∀ (i : Nat), s.pieces[i]? = some PStatus.dirty →
    ∃ (tid : Nat) (t : Thread), s.threads[tid]? = some t ∧ holds t.pc = true ∧ t.idx = i
  num : s.numComplete + s.threads.countP (fun t => t.pc = PC.incNum) = s.pieces.count PStatus.complete
  cache_num : s.inCache = true → s.pieces.length ≤ s.numComplete
  committed_cache : s.committed = true → s.inCache = true

variable {crc pl blob}

theorem TOK.sep {s : State} {t : Thread} (h : TOK crc pl blob s t) : SepPayload crc pl blob t.pi t.payload := h.1

theorem TOK.owns {s : State} {t : Thread} (h : TOK crc pl blob s t) (hh : holds t.pc = true) :
    Valid pl blob t ∧ s.pieces[t.idx]? = some .dirty := by
  obtain ⟨_, h2⟩ := h
  cases hpc : t.pc <;> simp [hpc, holds] at hh h2 <;> exact ⟨h2.1, h2.2.1⟩

theorem TOK.unpub {s : State} {t : Thread} (h : TOK crc pl blob s t) (hh : holds t.pc = true)
    (hm : t.pc ≠ .markComplete) : s.status[t.idx]? ≠ some 1 := by
  obtain ⟨_, h2⟩ := h
  cases hpc : t.pc <;> simp [hpc, holds] at hh h2 hm <;> (try exact h2.2.2.1) <;> exact h2.2.2

/-- `TOK` only depends on the thread's own piece (status byte, piece status, file range) and on
    monotone facts -/
theorem TOK.frame {s s' : State} {u : Thread} (hu : TOK crc pl blob s u)
    (hp : holds u.pc = true → s'.pieces[u.idx]? = s.pieces[u.idx]?)
    (hs : holds u.pc = true → s'.status[u.idx]? = s.status[u.idx]?)
    (hf : holds u.pc = true → ∀ j, j < pl → s'.file[pl * u.idx + j]? = s.file[pl * u.idx + j]?)
    (hn : s.numComplete ≤ s'.numComplete) (hl : s'.pieces.length = s.pieces.length)
    (hc : s.inCache = true → s'.inCache = true) : TOK crc pl blob s' u := by
  obtain ⟨h1, h2⟩ := hu
  refine ⟨h1, ?_⟩
  have own : holds u.pc = true → ∀ P : Prop,
      (Valid pl blob u ∧ s.pieces[u.idx]? = some PStatus.dirty ∧ P) →
      (Valid pl blob u ∧ s'.pieces[u.idx]? = some PStatus.dirty ∧ P) := by
    intro hh P h; rw [hp hh]; exact h
  have hlt : Valid pl blob u → ∀ j, j < u.payload.length → j < pl := by
    intro hv j hj
    have := hv.2.1; rw [length_pieceOf] at this; omega
  cases hpc : u.pc <;> simp only [hpc] at h2 ⊢
  case fastComplete | fastDirty | tryDirty => exact h2
  case openFile | markEmpty =>
    have hh : holds u.pc = true := by rw [hpc]; rfl
    rw [hp hh, hs hh]; exact h2
  case writing =>
    have hh : holds u.pc = true := by rw [hpc]; rfl
    obtain ⟨hv, hd, hst, hw, hfile⟩ := h2
    rw [hp hh, hs hh]
    refine ⟨hv, hd, hst, hw, ?_⟩
    intro j hj
    rw [hf hh j (hlt hv j (by omega))]; exact hfile j hj
  case checksum =>
    have hh : holds u.pc = true := by rw [hpc]; rfl
    obtain ⟨hv, hd, hst, hfile⟩ := h2
    rw [hp hh, hs hh]
    refine ⟨hv, hd, hst, ?_⟩
    intro j hj
    rw [hf hh j (hlt hv j hj)]; exact hfile j hj
  case setMeta =>
    have hh : holds u.pc = true := by rw [hpc]; rfl
    obtain ⟨hv, hd, hst, hfile⟩ := h2
    rw [hp hh, hs hh]
    refine ⟨hv, hd, hst, ?_⟩
    intro j hj
    rw [hf hh j hj]; exact hfile j hj
  case markComplete =>
    have hh : holds u.pc = true := by rw [hpc]; rfl
    rw [hp hh, hs hh]; exact h2
  case move => omega
  case setCommitted => exact ⟨by omega, hc h2.2⟩

/-- pieces with different indexes occupy disjoint byte ranges -/
theorem disjoint_pieces (pl a b j j' : Nat) (hab : a ≠ b) (hj : j < pl) (hj' : j' < pl) :
    pl * a + j ≠ pl * b + j' := by
  rcases Nat.lt_or_gt_of_ne hab with h | h
  · have := mul_succ_le_of_lt pl a b h; omega
  · have := mul_succ_le_of_lt pl b a h; omega

theorem threads_set_get {ts : List Thread} {tid : Nat} {t t' : Thread} (ht : ts[tid]? = some t) (a : Nat) :
    (ts.set tid t')[a]? = if tid = a then some t' else ts[a]? := by
  have hlt : tid < ts.length := by
    rcases Nat.lt_or_ge tid ts.length with h | h
    · exact h
    · rw [List.getElem?_eq_none h] at ht; cases ht
  rw [List.getElem?_set]; simp [hlt]

theorem countP_set_same {ts : List Thread} {tid : Nat} {t t' : Thread} (ht : ts[tid]? = some t)
    (p : Thread → Bool) (h : p t = p t') : (ts.set tid t').countP p = ts.countP p := by
  have hlt : tid < ts.length := by
    rcases Nat.lt_or_ge tid ts.length with h | h
    · exact h
    · rw [List.getElem?_eq_none h] at ht; cases ht
  have hget : ts[tid] = t := by
    have := List.getElem?_eq_getElem hlt; rw [this] at ht; exact Option.some.inj ht
  rw [List.countP_set hlt, hget, ← h]
  by_cases hp : p t = true
  · have : 0 < ts.countP p := List.countP_pos_iff.mpr ⟨t, by rw [← hget]; exact List.getElem_mem hlt, hp⟩
    simp [hp]; omega
  · simp [hp]

/-- A step of thread `tid` that leaves the shared state untouched and keeps (or gives up) its
    ownership preserves the invariant. -/
theorem good_local {s : State} {tid : Nat} {t t' : Thread} (hg : Good crc pl blob s)
    (ht : s.threads[tid]? = some t) (hok : TOK crc pl blob s t')
    (hh : holds t'.pc = true → holds t.pc = true ∧ t'.idx = t.idx)
    (hi : t.pc ≠ .incNum) (hi' : t'.pc ≠ .incNum)
    (hrel : holds t.pc = true → holds t'.pc = true) :
    Good crc pl blob (setThread s tid t') := by
  refine { hg with thr := ?_, excl := ?_, owned := ?_, num := ?_ }
  · intro a u hu
    simp only [setThread] at hu
    rw [threads_set_get ht] at hu
    split at hu
    · cases hu; exact hok.frame (fun _ => rfl) (fun _ => rfl) (fun _ _ _ => rfl) (Nat.le_refl _) rfl id
    · exact (hg.thr a u hu).frame (fun _ => rfl) (fun _ => rfl) (fun _ _ _ => rfl) (Nat.le_refl _) rfl id
  · intro a b ta tb ha hb hab hha hhb
    simp only [setThread] at ha hb
    rw [threads_set_get ht] at ha hb
    split at ha <;> split at hb
    · omega
    · cases ha; rename_i h1 h2
      obtain ⟨h3, h4⟩ := hh hha
      rw [h4]; exact hg.excl tid b t tb ht hb (by omega) h3 hhb
    · cases hb; rename_i h1 h2
      obtain ⟨h3, h4⟩ := hh hhb
      rw [h4]; exact hg.excl a tid ta t ha ht (by omega) hha h3
    · exact hg.excl a b ta tb ha hb hab hha hhb
  · intro i hi
    obtain ⟨a, u, hu, huh, hui⟩ := hg.owned i hi
    simp only [setThread]
    by_cases hat : tid = a
    · subst hat
      rw [ht] at hu; cases hu
      have hh' := hrel huh
      exact ⟨tid, t', by rw [threads_set_get ht]; simp, hh', by rw [(hh hh').2]; exact hui⟩
    · exact ⟨a, u, by rw [threads_set_get ht]; simp [hat, hu], huh, hui⟩
  · simp only [setThread]
    rw [countP_set_same ht]
    · exact hg.num
    · simp [hi, hi']

end

end KrakenModel.Proof.C03
