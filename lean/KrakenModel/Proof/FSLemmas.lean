import KrakenModel.Util.FS
/-
  Frame lemmas for `Util.FS`: which directories a call can change, and how.
-/
set_option linter.unusedSectionVars false
namespace KrakenModel.FS
variable {ν : Type} [DecidableEq ν]

namespace FS

@[simp] theorem dir?_setDir_self (fs : FS ν) (p : Path) (d : DirEnt ν) : (fs.setDir p d).dir? p = some d := by
  simp [setDir, dir?, aget_aset_self]

theorem dir?_setDir_ne (fs : FS ν) (p q : Path) (d : DirEnt ν) (h : p ≠ q) :
    (fs.setDir p d).dir? q = fs.dir? q := by
  simp [setDir, dir?, aget_aset_ne _ _ _ _ h]

@[simp] theorem dir?_delDir_self (fs : FS ν) (p : Path) : (fs.delDir p).dir? p = none := by
  simp [delDir, dir?, aget_adel_self]

theorem dir?_delDir_ne (fs : FS ν) (p q : Path) (h : p ≠ q) : (fs.delDir p).dir? q = fs.dir? q := by
  simp [delDir, dir?, aget_adel_ne _ _ _ h]

theorem mem_paths_iff (fs : FS ν) (p : Path) : p ∈ fs.paths ↔ (fs.dir? p).isSome := by
  simp [paths, dir?, aget_isSome_iff_mem_akeys]

theorem mem_paths_setDir (fs : FS ν) (p q : Path) (d : DirEnt ν) :
    q ∈ (fs.setDir p d).paths ↔ q = p ∨ q ∈ fs.paths := by
  simp [paths, setDir, akeys_aset]

theorem mem_paths_delDir (fs : FS ν) (p q : Path) : q ∈ (fs.delDir p).paths ↔ q ≠ p ∧ q ∈ fs.paths := by
  simp [paths, delDir, akeys_adel]

end FS

/-- the directories whose entry a call may change -/
def Call.touched : Call ν → List Path
  | .mkdir p => [p]
  | .creat p _ => [p]
  | .openCreat p _ => [p]
  | .openTrunc p _ => [p]
  | .truncate p _ _ => [p]
  | .pwrite p _ _ _ => [p]
  | .rename p _ q _ => [p, q]
  | .renameDir p q => [p, q]
  | .unlink p _ => [p]
  | .rmdir p => [p]
  | .link _ _ q _ => [q]

theorem dir?_eff_of_not_touched (fs : FS ν) (c : Call ν) (q : Path) (h : q ∉ c.touched) :
    (c.eff fs).dir? q = fs.dir? q := by
  cases c with
  | mkdir p => simp [Call.touched] at h; simp [Call.eff, FS.dir?_setDir_ne _ _ _ _ (Ne.symm h)]
  | creat p n =>
    simp [Call.touched] at h; simp only [Call.eff]
    split <;> simp [FS.dir?_setDir_ne _ _ _ _ (Ne.symm h)]
  | openCreat p n =>
    simp [Call.touched] at h; simp only [Call.eff]
    split
    · split <;> simp [FS.dir?_setDir_ne _ _ _ _ (Ne.symm h)]
    · rfl
  | openTrunc p n =>
    simp [Call.touched] at h; simp only [Call.eff]
    split <;> simp [FS.dir?_setDir_ne _ _ _ _ (Ne.symm h)]
  | truncate p n len =>
    simp [Call.touched] at h; simp only [Call.eff]
    split
    · split <;> simp [FS.dir?_setDir_ne _ _ _ _ (Ne.symm h)]
    · rfl
  | pwrite p n off b =>
    simp [Call.touched] at h; simp only [Call.eff]
    split
    · split <;> simp [FS.dir?_setDir_ne _ _ _ _ (Ne.symm h)]
    · rfl
  | rename p n q' m =>
    simp [Call.touched] at h
    obtain ⟨h1, h2⟩ := h
    simp only [Call.eff]
    split
    · split
      · split
        · split <;> simp [FS.dir?_setDir_ne _ _ _ _ (Ne.symm h1)]
        · rfl
      · split
        · rw [FS.dir?_setDir_ne _ _ _ _ (Ne.symm h2), FS.dir?_setDir_ne _ _ _ _ (Ne.symm h1)]
        · rfl
    · rfl
  | renameDir p q' =>
    simp [Call.touched] at h
    obtain ⟨h1, h2⟩ := h
    simp only [Call.eff]
    split
    · rw [FS.dir?_setDir_ne _ _ _ _ (Ne.symm h2), FS.dir?_delDir_ne _ _ _ (Ne.symm h1)]
    · rfl
  | unlink p n =>
    simp [Call.touched] at h; simp only [Call.eff]
    split <;> simp [FS.dir?_setDir_ne _ _ _ _ (Ne.symm h)]
  | rmdir p => simp [Call.touched] at h; simp [Call.eff, FS.dir?_delDir_ne _ _ _ (Ne.symm h)]
  | link p n q' m =>
    simp [Call.touched] at h; simp only [Call.eff]
    split
    · simp [FS.dir?_setDir_ne _ _ _ _ (Ne.symm h)]
    · rfl

theorem dir?_apply_of_not_touched (fs : FS ν) (c : Call ν) (q : Path) (h : q ∉ c.touched) :
    (apply fs c).dir? q = fs.dir? q := by
  unfold apply; split
  · exact dir?_eff_of_not_touched fs c q h
  · rfl

theorem dir?_applyAll_of_not_touched (cs : List (Call ν)) (fs : FS ν) (q : Path)
    (h : ∀ c ∈ cs, q ∉ c.touched) : (applyAll fs cs).dir? q = fs.dir? q := by
  induction cs generalizing fs with
  | nil => rfl
  | cons c cs ih =>
    rw [applyAll_cons, ih _ (fun c' hc' => h c' (List.mem_cons_of_mem _ hc')),
      dir?_apply_of_not_touched _ _ _ (h c (List.mem_cons_self ..))]

theorem dir?_applyPrefix_of_not_touched (k : Nat) (cs : List (Call ν)) (fs : FS ν) (q : Path)
    (h : ∀ c ∈ cs, q ∉ c.touched) : (applyPrefix k cs fs).dir? q = fs.dir? q :=
  dir?_applyAll_of_not_touched _ _ _ (fun c hc => h c (List.mem_of_mem_take hc))

theorem file?_eq_of_dir?_eq {fs fs' : FS ν} {p : Path} (h : fs'.dir? p = fs.dir? p) (n : ν) :
    fs'.file? p n = fs.file? p n := by
  simp [FS.file?, h]

/-- the paths a call can add -/
def Call.created : Call ν → List Path
  | .mkdir p => [p]
  | .renameDir _ q => [q]
  | _ => []

theorem mem_paths_eff (fs : FS ν) (c : Call ν) (q : Path) (h : q ∈ (c.eff fs).paths) :
    q ∈ fs.paths ∨ q ∈ c.created := by
  have key : ∀ (p : Path) (d : DirEnt ν), (fs.dir? p).isSome → q ∈ (fs.setDir p d).paths → q ∈ fs.paths := by
    intro p d hp hq
    rcases (FS.mem_paths_setDir _ _ _ _).mp hq with rfl | hq
    · exact (FS.mem_paths_iff _ _).mpr hp
    · exact hq
  cases c with
  | mkdir p =>
    rcases (FS.mem_paths_setDir _ _ _ _).mp h with rfl | h
    · right; simp [Call.created]
    · left; exact h
  | creat p n =>
    left; simp only [Call.eff] at h; split at h
    · rename_i d hd; exact key p _ (by simp [hd]) h
    · exact h
  | openCreat p n =>
    left; simp only [Call.eff] at h; split at h
    · rename_i d hd; split at h
      · exact h
      · exact key p _ (by simp [hd]) h
    · exact h
  | openTrunc p n =>
    left; simp only [Call.eff] at h; split at h
    · rename_i d hd; exact key p _ (by simp [hd]) h
    · exact h
  | truncate p n len =>
    left; simp only [Call.eff] at h; split at h
    · rename_i d hd; split at h
      · exact key p _ (by simp [hd]) h
      · exact h
    · exact h
  | pwrite p n off b =>
    left; simp only [Call.eff] at h; split at h
    · rename_i d hd; split at h
      · exact key p _ (by simp [hd]) h
      · exact h
    · exact h
  | rename p n q' m =>
    left; simp only [Call.eff] at h; split at h
    · split at h
      · split at h
        · rename_i d hd; split at h
          · exact h
          · exact key p _ (by simp [hd]) h
        · exact h
      · split at h
        · rename_i d e hd he
          rcases (FS.mem_paths_setDir _ _ _ _).mp h with rfl | h
          · exact (FS.mem_paths_iff _ _).mpr (by simp [he])
          · exact key p _ (by simp [hd]) h
        · exact h
    · exact h
  | renameDir p q' =>
    simp only [Call.eff] at h; split at h
    · rcases (FS.mem_paths_setDir _ _ _ _).mp h with rfl | h
      · right; simp [Call.created]
      · left; exact ((FS.mem_paths_delDir _ _ _).mp h).2
    · left; exact h
  | unlink p n =>
    left; simp only [Call.eff] at h; split at h
    · rename_i d hd; exact key p _ (by simp [hd]) h
    · exact h
  | rmdir p => left; exact ((FS.mem_paths_delDir _ _ _).mp h).2
  | link p n q' m =>
    left; simp only [Call.eff] at h; split at h
    · rename_i c e hc he; exact key q' _ (by simp [he]) h
    · exact h

theorem mem_paths_apply (fs : FS ν) (c : Call ν) (q : Path) (h : q ∈ (apply fs c).paths) :
    q ∈ fs.paths ∨ q ∈ c.created := by
  unfold apply at h; split at h
  · exact mem_paths_eff fs c q h
  · exact Or.inl h

theorem mem_paths_applyAll (cs : List (Call ν)) (fs : FS ν) (q : Path) (h : q ∈ (applyAll fs cs).paths) :
    q ∈ fs.paths ∨ ∃ c ∈ cs, q ∈ c.created := by
  induction cs generalizing fs with
  | nil => exact Or.inl h
  | cons c cs ih =>
    rcases ih _ h with h1 | ⟨c', hc', h1⟩
    · rcases mem_paths_apply _ _ _ h1 with h2 | h2
      · exact Or.inl h2
      · exact Or.inr ⟨c, List.mem_cons_self .., h2⟩
    · exact Or.inr ⟨c', List.mem_cons_of_mem _ hc', h1⟩

end KrakenModel.FS
