import KrakenModel.Util.KV
import KrakenModel.Model.CAStoreMem
import KrakenModel.Model.OriginBlob
/-
  Helper lemmas for Spec/C01: the store invariant `GoodStore` (every memory entry, every committed
  cache file and every queued drain item hashes to its name, and every stored metainfo was computed
  from content hashing to the name) is preserved by every operation of Model.CAStoreMem.
-/
namespace KrakenModel.Proof.C01
open KrakenModel KrakenModel.CAStoreMem
open KrakenModel.MemCache (MetaInfo Entry)

section
variable (H : Bytes → Name) (crc : Bytes → Nat)

/-- `mi` is the metainfo of some content that hashes to `d` -/
def MIok (d : Name) (mi : MetaInfo) : Prop := ∃ b, H b = d ∧ mi = miOf crc d b mi.pieceLength

def GoodMem (es : List (Name × Entry)) : Prop :=
  ∀ p ∈ es, H p.2.data = p.1 ∧ p.2.mi = miOf crc p.1 p.2.data p.2.mi.pieceLength

def GoodCache (c : List (Name × CacheFile)) : Prop :=
  ∀ p ∈ c, H p.2.data = p.1 ∧ ∀ mi, p.2.tm = some mi → MIok H crc p.1 mi

def GoodQueue (q : List DrainItem) : Prop :=
  ∀ it ∈ q, H it.data = it.name ∧ it.mi = miOf crc it.name it.data it.mi.pieceLength

structure GoodStore (s : State) : Prop where
  mem : GoodMem H crc s.mem.entries
  cache : GoodCache H crc s.cache
  queue : GoodQueue H crc s.queue

variable {H crc}

theorem GoodStore.of_eq {s s' : State} (hg : GoodStore H crc s) (hm : s'.mem.entries = s.mem.entries)
    (hc : s'.cache = s.cache) (hq : s'.queue = s.queue) : GoodStore H crc s' :=
  ⟨hm ▸ hg.mem, hc ▸ hg.cache, hq ▸ hg.queue⟩

theorem good_init (cfg : Cfg) : GoodStore H crc (init cfg) :=
  ⟨by intro p hp; simp [init, MemCache.init] at hp, by intro p hp; simp [init] at hp,
   by intro p hp; simp [init] at hp⟩

theorem miOf_pl (d : Name) (b : Bytes) (pl : Int) : (miOf crc d b pl).pieceLength = pl := rfl

theorem verifyOK_hash {cfg : Cfg} {name : Name} {b : Bytes} (hs : cfg.skipVerify = false)
    (hv : verifyOK H cfg name b = true) : H b = name := by
  simp [verifyOK, hs] at hv
  exact hv.2

theorem verifyOK_false_of_ne {cfg : Cfg} {name : Name} {b : Bytes} (hs : cfg.skipVerify = false)
    (hne : H b ≠ name) : verifyOK H cfg name b = false := by
  cases h : verifyOK H cfg name b with
  | false => rfl
  | true => exact absurd (verifyOK_hash hs h) hne

/-! ### the memory cache only ever loses entries, except through `add` -/

theorem remove_subset (m : MemCache.State) (n : Name) : ∀ p ∈ (MemCache.remove m n).entries, p ∈ m.entries := by
  intro p hp
  unfold MemCache.remove at hp
  split at hp
  · exact hp
  · exact (KV.mem_del.mp hp).1

theorem removeBatch_subset (names : List Name) : ∀ (m : MemCache.State), ∀ p ∈ (MemCache.removeBatch m names).entries, p ∈ m.entries := by
  induction names with
  | nil => intro m p hp; exact hp
  | cons n ns ih =>
    intro m p hp
    have : MemCache.removeBatch m (n :: ns) = MemCache.removeBatch (MemCache.remove m n) ns := rfl
    rw [this] at hp
    exact remove_subset m n p (ih _ p hp)

theorem tryReserve_entries (m : MemCache.State) (size : Nat) : (MemCache.tryReserve m size).1.entries = m.entries := by
  unfold MemCache.tryReserve; split <;> rfl

theorem release_entries (m : MemCache.State) (size : Nat) : (MemCache.release m size).entries = m.entries := by
  unfold MemCache.release; split <;> rfl

theorem GoodMem.subset {es es' : List (Name × Entry)} (hg : GoodMem H crc es) (h : ∀ p ∈ es', p ∈ es) :
    GoodMem H crc es' := fun p hp => hg p (h p hp)

/-! ### reads of a good store -/

theorem memGet_mem {s : State} {d : Name} {e : Entry} (h : memGet s d = some e) : (d, e) ∈ s.mem.entries := by
  unfold memGet at h
  split at h
  · exact KV.get_some_mem h
  · cases h

theorem good_readable {s : State} (hg : GoodStore H crc s) {d : Name} {b : Bytes}
    (hr : readable s d = some b) : H b = d := by
  unfold readable at hr
  split at hr
  · rename_i e he
    cases hr
    exact (hg.mem _ (memGet_mem he)).1
  · cases hc : KV.get s.cache d with
    | none => simp [hc] at hr
    | some f =>
      simp [hc] at hr
      subst hr
      exact (hg.cache _ (KV.get_some_mem hc)).1

/-! ### preservation, function by function -/

theorem setTM_good {s : State} (hg : GoodStore H crc s) (name : Name) (mi : MetaInfo)
    (hmi : MIok H crc name mi) : GoodStore H crc (setTM s name mi).1 := by
  unfold setTM
  split
  · exact hg
  · rename_i f hf
    refine ⟨hg.mem, ?_, hg.queue⟩
    have hmem := KV.get_some_mem hf
    have hfile := hg.cache _ hmem
    exact KV.all_put (P := fun k (v : CacheFile) => H v.data = k ∧ ∀ mi, v.tm = some mi → MIok H crc k mi)
      hg.cache ⟨hfile.1, by intro mi' h'; cases h'; exact hmi⟩

theorem genMeta_good {s : State} (hg : GoodStore H crc s) (name : Name) (pl : Int) :
    GoodStore H crc (genMetaFromFile crc s name pl).1 := by
  unfold genMetaFromFile
  split
  · exact hg
  · split
    · exact hg
    · rename_i b hb
      split
      · exact hg
      · exact setTM_good hg name _ ⟨b, good_readable hg hb, rfl⟩

theorem putFile_good {s : State} (hg : GoodStore H crc s) {name : Name} {b : Bytes} (hb : H b = name) (sh : List String) :
    GoodStore H crc { s with cache := KV.put s.cache name { data := b }, shards := sh } :=
  ⟨hg.mem,
   KV.all_put (P := fun k (v : CacheFile) => H v.data = k ∧ ∀ mi, v.tm = some mi → MIok H crc k mi)
     hg.cache ⟨hb, by intro mi h; cases h⟩,
   hg.queue⟩

theorem ensureFile_good {s : State} (hg : GoodStore H crc s) {name : Name} {b : Bytes} (hb : H b = name) :
    GoodStore H crc (ensureFile s name b) := by
  unfold ensureFile
  split
  · exact hg
  · exact putFile_good hg hb _

theorem writeCacheFile_good {s : State} (hs : s.cfg.skipVerify = false) (hg : GoodStore H crc s)
    (name : Name) (att : Option Attempt) (addMeta : Bool) (pl : Int) :
    GoodStore H crc (writeCacheFile H crc s name att addMeta pl).1 := by
  unfold writeCacheFile
  split
  · exact hg
  · rename_i a
    split
    · exact hg
    · split
      · exact hg
      · rename_i hv
        have hv' : verifyOK H s.cfg name a.data = true := by simpa using hv
        have hb := verifyOK_hash hs hv'
        split
        · exact hg
        · split
          · exact genMeta_good (ensureFile_good hg hb) name pl
          · exact ensureFile_good hg hb

theorem commitUpload_good {s : State} (hs : s.cfg.skipVerify = false) (hg : GoodStore H crc s)
    (u : String) (name : Name) : GoodStore H crc (commitUpload H s u name).1 := by
  unfold commitUpload
  split
  · exact hg
  · rename_i b _
    have hg0 : GoodStore H crc { s with uploads := KV.del s.uploads u } := hg.of_eq rfl rfl rfl
    split
    · exact hg0
    · rename_i hv
      have hv' : verifyOK H s.cfg name b = true := by simpa using hv
      split
      · exact hg0
      · split
        · exact hg0
        · exact putFile_good hg0 (verifyOK_hash hs hv') _

theorem addToMem_good {s : State} (hs : s.cfg.skipVerify = false) (hg : GoodStore H crc s)
    (name : Name) (att : Option Attempt) (size : Nat) (pl : Int) (s' : State)
    (h : addToMem H crc s name att size pl = some s') : GoodStore H crc s' := by
  unfold addToMem at h
  split at h
  · cases h
  · rename_i a
    split at h
    · cases h
    · split at h
      · cases h
      · split at h
        · cases h
        · rename_i hv
          have hv' : verifyOK H s.cfg name a.data = true := by simpa using hv
          have hb := verifyOK_hash hs hv'
          split at h
          · cases h
          · split at h
            · cases h
            · rename_i hadd
              cases h
              have hadd' : (MemCache.add s.mem name (newEntry crc s name a.data pl)).2 = true := by simpa using hadd
              unfold MemCache.add at hadd' ⊢
              split at hadd'
              · cases hadd'
              · rename_i hnot
                simp only [hnot]
                refine ⟨?_, hg.cache, ?_⟩
                · intro p hp
                  simp at hp
                  rcases hp with e | hp
                  · subst e; exact ⟨hb, rfl⟩
                  · exact hg.mem p hp
                · intro it hit
                  simp at hit
                  rcases hit with hit | e
                  · exact hg.queue it hit
                  · subst e; exact ⟨hb, rfl⟩

theorem reserved_good {s : State} (hg : GoodStore H crc s) (size : Nat) : GoodStore H crc (reserved s size) :=
  hg.of_eq (tryReserve_entries _ _) rfl rfl

theorem released_good {s : State} (hg : GoodStore H crc s) (size : Nat) : GoodStore H crc (released s size) :=
  hg.of_eq (release_entries _ _) rfl rfl

theorem writeDisk_good {s : State} (hs : s.cfg.skipVerify = false) (hg : GoodStore H crc s)
    (name : Name) (size : Nat) (att : Option Attempt) (pl : Int) :
    GoodStore H crc (writeDisk H crc s name size att pl).1 := by
  unfold writeDisk
  have h1 := writeCacheFile_good hs hg name att false 0
  split
  · exact genMeta_good h1 name pl
  · exact h1

theorem writeBlob_good {s : State} (hs : s.cfg.skipVerify = false) (hg : GoodStore H crc s)
    (name : Name) (size : Nat) (atts : List Attempt) (pl : Int) :
    GoodStore H crc (writeBlob H crc s name size atts pl).1 := by
  unfold writeBlob
  split
  · split
    · rename_i s2 h2
      exact addToMem_good (s := reserved s size) hs (reserved_good hg size) name _ size pl s2 h2
    · exact writeDisk_good (s := released (reserved s size) size) hs
        (released_good (reserved_good hg size) size) name size _ pl
  · exact writeDisk_good hs hg name size _ pl

theorem writeCacheFile_cfg (s : State) (name : Name) (att : Option Attempt) (addMeta : Bool) (pl : Int) :
    (writeCacheFile H crc s name att addMeta pl).1.cfg = s.cfg := by
  unfold writeCacheFile genMetaFromFile setTM ensureFile
  repeat' split
  all_goals rfl

theorem writeDrainItem_good {s : State} (hs : s.cfg.skipVerify = false) (hg : GoodStore H crc s)
    (it : DrainItem) (hit : H it.data = it.name ∧ it.mi = miOf crc it.name it.data it.mi.pieceLength) :
    GoodStore H crc (writeDrainItem H crc s it).1 := by
  unfold writeDrainItem
  have h1 := writeCacheFile_good hs hg it.name (some { data := it.data }) false 0
  split
  · exact setTM_good h1 it.name it.mi ⟨it.data, hit.1, hit.2⟩
  · exact h1

theorem dropFromMem_good {s : State} (hg : GoodStore H crc s) (n : Name) : GoodStore H crc (dropFromMem s n) :=
  ⟨hg.mem.subset (remove_subset _ _), hg.cache, hg.queue⟩

theorem drainNext_good {s : State} (hs : s.cfg.skipVerify = false) (hg : GoodStore H crc s) :
    GoodStore H crc (drainNext H crc s) := by
  unfold drainNext
  split
  · exact hg
  · rename_i it rest hq
    have hit := hg.queue it (by rw [hq]; exact List.mem_cons_self)
    have hg0 : GoodStore H crc { s with queue := rest } :=
      ⟨hg.mem, hg.cache, fun x hx => hg.queue x (by rw [hq]; exact List.mem_cons_of_mem _ hx)⟩
    have h1 := writeDrainItem_good (s := { s with queue := rest }) hs hg0 it hit
    split
    · exact dropFromMem_good h1 _
    · split
      · refine ⟨h1.mem, h1.cache, ?_⟩
        intro x hx
        simp at hx
        rcases hx with hx | e
        · exact h1.queue x hx
        · subst e; exact hit
      · exact dropFromMem_good h1 _

theorem ttlSweep_good {s : State} (hg : GoodStore H crc s) : GoodStore H crc (ttlSweep s) :=
  ⟨hg.mem.subset (removeBatch_subset _ _), hg.cache, hg.queue⟩

theorem deleteCache_good {s : State} (hg : GoodStore H crc s) (name : Name) :
    GoodStore H crc (deleteCache s name).1 := by
  unfold deleteCache
  split
  · exact ⟨hg.mem, KV.all_del (P := fun k (v : CacheFile) => H v.data = k ∧ ∀ mi, v.tm = some mi → MIok H crc k mi) hg.cache name, hg.queue⟩
  · exact hg

theorem createUpload_good {s : State} (hg : GoodStore H crc s) (u : String) : GoodStore H crc (createUpload s u).1 := by
  unfold createUpload; split
  · exact hg
  · exact hg.of_eq rfl rfl rfl

theorem writeUpload_good {s : State} (hg : GoodStore H crc s) (u : String) (off : Nat) (b : Bytes) :
    GoodStore H crc (writeUpload s u off b).1 := by
  unfold writeUpload; split
  · exact hg
  · exact hg.of_eq rfl rfl rfl

/-! ### the configuration never changes -/

theorem setTM_cfg (s : State) (n : Name) (mi : MetaInfo) : (setTM s n mi).1.cfg = s.cfg := by
  unfold setTM; split <;> rfl

theorem genMeta_cfg (s : State) (n : Name) (pl : Int) : (genMetaFromFile crc s n pl).1.cfg = s.cfg := by
  unfold genMetaFromFile setTM
  repeat' split
  all_goals rfl

theorem commitUpload_cfg (s : State) (u : String) (n : Name) : (commitUpload H s u n).1.cfg = s.cfg := by
  unfold commitUpload
  repeat' split
  all_goals rfl

theorem addToMem_cfg {s s' : State} {name : Name} {att : Option Attempt} {size : Nat} {pl : Int}
    (h : addToMem H crc s name att size pl = some s') : s'.cfg = s.cfg := by
  unfold addToMem at h
  split at h
  · cases h
  · split at h
    · cases h
    · split at h
      · cases h
      · split at h
        · cases h
        · split at h
          · cases h
          · split at h
            · cases h
            · cases h; rfl

theorem writeDisk_cfg (s : State) (name : Name) (size : Nat) (att : Option Attempt) (pl : Int) :
    (writeDisk H crc s name size att pl).1.cfg = s.cfg := by
  unfold writeDisk
  split
  · rw [genMeta_cfg, writeCacheFile_cfg]
  · rw [writeCacheFile_cfg]

theorem writeBlob_cfg (s : State) (name : Name) (size : Nat) (atts : List Attempt) (pl : Int) :
    (writeBlob H crc s name size atts pl).1.cfg = s.cfg := by
  unfold writeBlob
  split
  · split
    · rename_i s2 h2
      exact (addToMem_cfg h2).trans rfl
    · rw [writeDisk_cfg]; rfl
  · rw [writeDisk_cfg]

theorem writeDrainItem_cfg (s0 : State) (it : DrainItem) : (writeDrainItem H crc s0 it).1.cfg = s0.cfg := by
  unfold writeDrainItem
  split
  · rw [setTM_cfg, writeCacheFile_cfg]
  · rw [writeCacheFile_cfg]

theorem drainNext_cfg (s : State) : (drainNext H crc s).cfg = s.cfg := by
  unfold drainNext
  split
  · rfl
  · split
    · simp [dropFromMem, writeDrainItem_cfg]
    · split <;> simp [dropFromMem, writeDrainItem_cfg]

theorem apply_cfg (s : State) (o : Op) : (apply H crc s o).1.cfg = s.cfg := by
  cases o with
  | createUpload u => simp only [apply, createUpload]; split <;> rfl
  | writeUpload u off b => simp only [apply, writeUpload]; split <;> rfl
  | commit u n => exact commitUpload_cfg s u n
  | createCache n b => simp only [apply, createCache]; exact writeCacheFile_cfg ..
  | writeBlob n size atts pl => exact writeBlob_cfg s n size atts pl
  | genMeta n pl => exact genMeta_cfg s n pl
  | drain => exact drainNext_cfg s
  | ttl => rfl
  | tick dt => rfl
  | delete n => simp only [apply, deleteCache]; split <;> rfl
  | block p => simp only [apply, block]; split <;> rfl
  | unblock p => simp only [apply, unblock]; split <;> rfl

theorem apply_good {s : State} (hs : s.cfg.skipVerify = false) (hg : GoodStore H crc s) (o : Op) :
    GoodStore H crc (apply H crc s o).1 := by
  cases o with
  | createUpload u => exact createUpload_good hg u
  | writeUpload u off b => exact writeUpload_good hg u off b
  | commit u n => exact commitUpload_good hs hg u n
  | createCache n b => exact writeCacheFile_good hs hg n _ false 0
  | writeBlob n size atts pl => exact writeBlob_good hs hg n size atts pl
  | genMeta n pl => exact genMeta_good hg n pl
  | drain => exact drainNext_good hs hg
  | ttl => exact ttlSweep_good hg
  | tick dt => exact hg.of_eq rfl rfl rfl
  | delete n => exact deleteCache_good hg n
  | block p => simp only [apply, block]; split <;> first | exact hg | exact hg.of_eq rfl rfl rfl
  | unblock p => simp only [apply, unblock]; split <;> first | exact hg | exact hg.of_eq rfl rfl rfl

/-! ### writes whose content does not hash to the name -/

/-- what a client can see under `d`: bytes, size, metainfo -/
def view (s : State) (d : Name) : Option Bytes × Option Nat × Option MetaInfo :=
  (readable s d, statSize s d, metainfo s d)

theorem view_congr {s s' : State} (hc : s'.cache = s.cache) (hm : s'.mem.entries = s.mem.entries)
    (hcfg : s'.cfg = s.cfg) (d : Name) : view s' d = view s d := by
  have hg : memGet s' d = memGet s d := by simp [memGet, MemCache.get, hm, hcfg]
  simp [view, readable, statSize, metainfo, hg, hc]

theorem writeCacheFile_mismatch {s : State} (hs : s.cfg.skipVerify = false) {name : Name} {att : Option Attempt}
    (hm : ∀ a, att = some a → a.fail = true ∨ H a.data ≠ name) (addMeta : Bool) (pl : Int) :
    writeCacheFile H crc s name att addMeta pl = (s, .write) ∨
    writeCacheFile H crc s name att addMeta pl = (s, .verify) := by
  unfold writeCacheFile
  split
  · exact Or.inl rfl
  · rename_i a
    rcases hm a rfl with hf | hne
    · simp [hf]
    · by_cases hf : a.fail = true
      · simp [hf]
      · simp [hf, verifyOK_false_of_ne hs hne]

theorem writeDisk_mismatch {s : State} (hs : s.cfg.skipVerify = false) {name : Name} {att : Option Attempt}
    (hm : ∀ a, att = some a → a.fail = true ∨ H a.data ≠ name) (size : Nat) (pl : Int) :
    writeDisk H crc s name size att pl = (s, .write) ∨ writeDisk H crc s name size att pl = (s, .verify) := by
  unfold writeDisk
  rcases writeCacheFile_mismatch (crc := crc) hs hm false 0 with h | h <;> rw [h] <;> simp

theorem addToMem_mismatch {s : State} (hs : s.cfg.skipVerify = false) {name : Name} {att : Option Attempt}
    (hm : ∀ a, att = some a → a.fail = true ∨ H a.data ≠ name) (size : Nat) (pl : Int) :
    addToMem H crc s name att size pl = none := by
  unfold addToMem
  split
  · rfl
  · rename_i a
    rcases hm a rfl with hf | hne
    · simp [hf]
    · by_cases hf : a.fail = true
      · simp [hf]
      · by_cases hl : a.data.length = size
        · simp [hf, hl, verifyOK_false_of_ne hs hne]
        · simp [hf, hl]

theorem head?_mem {α : Type} {l : List α} {a : α} (h : l.head? = some a) : a ∈ l := by
  cases l with
  | nil => cases h
  | cons x xs => simp at h; subst h; exact List.mem_cons_self

theorem drop1_head?_mem {α : Type} {l : List α} {a : α} (h : (l.drop 1).head? = some a) : a ∈ l := by
  cases l with
  | nil => cases h
  | cons x xs => exact List.mem_cons_of_mem _ (head?_mem (by simpa using h))

/-! ### inside a write-through call -/

theorem addToMem_some {s s' : State} {name : Name} {a : Attempt} {size : Nat} {pl : Int}
    (h : addToMem H crc s name (some a) size pl = some s') :
    verifyOK H s.cfg name a.data = true ∧
    s' = { s with mem := (MemCache.add s.mem name (newEntry crc s name a.data pl)).1,
                  queue := s.queue ++ [{ name := name, data := a.data, mi := miOf crc name a.data pl, retries := 0 }] } := by
  unfold addToMem at h
  simp only at h
  split at h
  · cases h
  · split at h
    · cases h
    · split at h
      · cases h
      · rename_i hv
        split at h
        · cases h
        · split at h
          · cases h
          · cases h
            exact ⟨by simpa using hv, rfl⟩

theorem diskTrace_good {s : State} (hs : s.cfg.skipVerify = false) (hg : GoodStore H crc s)
    (name : Name) (size : Nat) (att : Option Attempt) (pl : Int) :
    ∀ s' ∈ diskTrace H crc s name size att pl, GoodStore H crc s' := by
  intro s' hm
  unfold diskTrace at hm
  split at hm
  · cases hm
  · rename_i a
    split at hm
    · cases hm
    · split at hm
      · cases hm
      · rename_i hv
        have hb := verifyOK_hash hs (by simpa using hv : verifyOK H s.cfg name a.data = true)
        have he := ensureFile_good hg hb
        split at hm
        · cases hm
        rcases List.mem_cons.mp hm with e | hm
        · subst e; exact he
        · split at hm
          · simp at hm; subst hm; exact genMeta_good he name pl
          · cases hm

theorem published_good {s : State} (hs : s.cfg.skipVerify = false) (hg : GoodStore H crc s) {name : Name}
    {a : Attempt} (pl : Int) (hv : verifyOK H s.cfg name a.data = true) : GoodStore H crc (published crc s name a pl) := by
  have hb := verifyOK_hash hs hv
  unfold published MemCache.add
  split
  · exact hg.of_eq rfl rfl rfl
  · refine ⟨?_, hg.cache, hg.queue⟩
    intro p hp
    simp at hp
    rcases hp with e | hp
    · subst e; exact ⟨hb, rfl⟩
    · exact hg.mem p hp

/-- every state a reader can see while `WriteBlobToCacheWithMetaInfo` runs is a good store -/
theorem writeBlobTrace_good {s : State} (hs : s.cfg.skipVerify = false) (hg : GoodStore H crc s)
    (name : Name) (size : Nat) (atts : List Attempt) (pl : Int) :
    ∀ s' ∈ writeBlobTrace H crc s name size atts pl, GoodStore H crc s' := by
  intro s' hm
  unfold writeBlobTrace at hm
  have hres : GoodStore H crc (reserved s size) := reserved_good hg size
  have hrel : GoodStore H crc (released (reserved s size) size) := released_good hres size
  split at hm
  · rcases List.mem_cons.mp hm with e | hm
    · subst e; exact hres
    · split at hm
      · rename_i s2 a h2 ha
        rw [ha] at h2
        obtain ⟨hv, e2⟩ := addToMem_some h2
        rcases List.mem_cons.mp hm with e | hm
        · subst e; exact published_good (s := reserved s size) hs hres pl hv
        · simp at hm; rw [hm]
          exact addToMem_good (s := reserved s size) hs hres name (some a) size pl s2 h2
      · rcases List.mem_cons.mp hm with e | hm
        · subst e; exact hrel
        · exact diskTrace_good (s := released (reserved s size) size) hs hrel name size _ pl s' hm
  · exact diskTrace_good hs hg name size _ pl s' hm

/-! ### the origin's HTTP operations are compositions of store operations -/

/-- good store with verification on -/
def GoodV (H : Bytes → Name) (crc : Bytes → Nat) (c : State) : Prop := c.cfg.skipVerify = false ∧ GoodStore H crc c

theorem GoodV.step {c : State} (h : GoodV H crc c) (o : Op) : GoodV H crc (apply H crc c o).1 :=
  ⟨(apply_cfg c o) ▸ h.1, apply_good h.1 h.2 o⟩

open KrakenModel.OriginBlob in
theorem origin_conflict_good {s : OriginBlob.State} (h : GoodV H crc s.cas) (k : Kind) (n : Name) :
    GoodV H crc (OriginBlob.conflict crc s k n).1.cas := by
  unfold OriginBlob.conflict
  cases k with
  | transfer => exact h
  | cluster =>
    simp only
    split
    · exact h.step (.genMeta n s.pl)
    · exact h

open KrakenModel.OriginBlob in
theorem origin_apply_good {s : OriginBlob.State} (h : GoodV H crc s.cas) (o : OOp) :
    GoodV H crc (OriginBlob.apply H crc s o).1.cas := by
  cases o with
  | start k n u =>
    simp only [OriginBlob.apply, OriginBlob.start]
    split
    · exact origin_conflict_good h k n
    · have := h.step (.createUpload u)
      simp only [CAStoreMem.apply] at this
      split
      · rename_i c hc; rw [hc] at this; exact this
      · exact h
  | patch k n u off b =>
    simp only [OriginBlob.apply, OriginBlob.patch]
    split
    · exact origin_conflict_good h k n
    · have := h.step (.writeUpload u off b)
      simp only [CAStoreMem.apply] at this
      split
      · rename_i c hc; rw [hc] at this; exact this
      · exact h
      · exact h
  | commit k n u =>
    simp only [OriginBlob.apply, OriginBlob.commit]
    have h1 := h.step (.commit u n)
    simp only [CAStoreMem.apply] at h1
    split
    · rename_i c hc
      rw [hc] at h1
      have h2 := GoodV.step (c := c) h1 (.genMeta n s.pl)
      simp only [CAStoreMem.apply] at h2
      split
      · rename_i c' hc'; rw [hc'] at h2; exact h2
      · rename_i c' r hc'; rw [hc'] at h2; exact h2
    · rename_i c hc; rw [hc] at h1; exact h1
    · rename_i c hc; rw [hc] at h1
      exact origin_conflict_good (s := { s with cas := c }) h1 k n
    · rename_i c r hc; rw [hc] at h1; exact h1
  | fetch n size atts =>
    simp only [OriginBlob.apply, OriginBlob.fetch]
    split
    · exact h
    · split
      · exact h
      · rename_i sz
        split
        · exact h
        · have h1 := h.step (.writeBlob n sz atts s.pl)
          simp only [CAStoreMem.apply] at h1
          split
          · rename_i c hc
            rw [hc] at h1
            split
            · exact h1
            · have h2 := GoodV.step (c := c) h1 (.genMeta n s.pl)
              simp only [CAStoreMem.apply] at h2
              split
              · rename_i c' hc'; rw [hc'] at h2; exact h2
              · rename_i c' r hc'; rw [hc'] at h2; exact h2
          · rename_i c r hc; rw [hc] at h1; exact h1
  | overwriteMeta n pl =>
    simp only [OriginBlob.apply, OriginBlob.overwriteMeta]
    have h1 := h.step (.genMeta n pl)
    simp only [CAStoreMem.apply] at h1
    split
    · rename_i c hc; rw [hc] at h1; exact h1
    · rename_i c r hc; rw [hc] at h1; exact h1

end
end KrakenModel.Proof.C01
