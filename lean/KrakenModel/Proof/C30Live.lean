import KrakenModel.Proof.C30
/-
  Liveness half of C30 in safety form: from every good state of a running manager and for every
  stored task there is a fault-free continuation (no crash, no close, every execution succeeds)
  after which a worker is executing that task.  Proved by a lexicographic measure that some enabled
  system step always decreases — i.e. no reachable state is absorbing for a stored task.
-/
namespace KrakenModel.Retry

structure WFCfg (c : Config) : Prop where
  capIn : 1 ≤ c.capIn
  capRe : 1 ≤ c.capRe
  nIn : 1 ≤ c.nIn
  nRe : 1 ≤ c.nRe

instance (c : Config) : Decidable (WFCfg c) :=
  decidable_of_iff (1 ≤ c.capIn ∧ 1 ≤ c.capRe ∧ 1 ≤ c.nIn ∧ 1 ≤ c.nRe)
    ⟨fun ⟨a, b, c, d⟩ => ⟨a, b, c, d⟩, fun ⟨a, b, c, d⟩ => ⟨a, b, c, d⟩⟩

/-- steps of a continuation without faults: no crash / close / restart, executions succeed -/
def NoFault : Op → Prop
  | .crash | .close | .start _ => False
  | .finish _ ok => ok = true
  | _ => True

instance (o : Op) : Decidable (NoFault o) := by
  cases o <;> simp only [NoFault] <;> exact inferInstance

/-- the steps the continuation of `can_reach_exec` is made of: the system's own steps (the poller,
the workers, a pending Add's send, the clock) with successful executions; no new tasks, no faults -/
def SysOp : Op → Prop
  | .finish _ ok => ok = true
  | .take _ | .pollEnq | .addEnq _ | .pollMark | .pollFetch | .advance _ => True
  | _ => False

instance (o : Op) : Decidable (SysOp o) := by
  cases o <;> simp only [SysOp] <;> exact inferInstance

theorem SysOp.noFault {o : Op} (h : SysOp o) : NoFault o := by
  cases o <;> simp_all [SysOp, NoFault]

def tagWeight : Place → Nat
  | .adding => 4
  | .retrying => 4
  | .queued _ => 3
  | .running _ => 2

def ownWeight (own : List (Key × Place)) : Nat := (own.map fun e => tagWeight e.2).sum

def failedCount (rows : List Row) : Nat := (rows.filter fun r => r.status = .failed).length

def weight (s : State) : Nat := 5 * failedCount s.rows + ownWeight s.own

def kRow (s : State) (k : Key) : Option Row := s.rows.find? fun r => r.key = k

def kDue (s : State) (k : Key) : Bool :=
  match kRow s k with
  | some r => ready r s.now && due s.cfg r s.now
  | none => true

def flag (s : State) (k : Key) : Nat :=
  if kDue s k then (if k ∈ keys s.todo then 0 else 1) else 2

def meas (s : State) (k : Key) : Nat × Nat × Nat := (weight s, flag s k, s.todo.length)

abbrev MLt (a b : Nat × Nat × Nat) : Prop := Prod.Lex (· < ·) (Prod.Lex (· < ·) (· < ·)) a b

/-! ### weights -/

theorem mem_withTag {own : List (Key × Place)} {pl : Place} {k : Key} :
    k ∈ withTag own pl ↔ (k, pl) ∈ own := by
  simp only [withTag, List.mem_map, List.mem_filter, decide_eq_true_eq]
  constructor
  · rintro ⟨⟨a, b⟩, ⟨he, rfl⟩, rfl⟩; exact he
  · intro h; exact ⟨(k, pl), ⟨h, rfl⟩, rfl⟩

theorem placeOf_of_mem {own : List (Key × Place)} (hn : (okeys own).Nodup) {k : Key} {pl : Place}
    (h : (k, pl) ∈ own) : placeOf own k = some pl := by
  induction own with
  | nil => cases h
  | cons e es ih =>
    simp only [okeys, List.map_cons, List.nodup_cons] at hn
    rcases List.mem_cons.mp h with h1 | h1
    · subst h1; simp [placeOf]
    · have hne : e.1 ≠ k := fun he => hn.1 (he ▸ List.mem_map.mpr ⟨(k, pl), h1, rfl⟩)
      have := ih hn.2 h1
      simp only [placeOf, List.find?_cons, hne, decide_false] at this ⊢
      exact this

theorem mem_of_placeOf {own : List (Key × Place)} {k : Key} {pl : Place}
    (h : placeOf own k = some pl) : (k, pl) ∈ own := by
  unfold placeOf at h
  cases hf : own.find? (fun e => decide (e.1 = k)) with
  | none => simp [hf] at h
  | some e =>
    have hm := List.mem_of_find?_eq_some hf
    have hk := List.find?_some hf
    simp only [decide_eq_true_eq] at hk
    simp only [hf, Option.map_some, Option.some.injEq] at h
    obtain ⟨a, b⟩ := e
    simp only at hk h; subst hk; subst h; exact hm

theorem ownWeight_dropKey_le (own : List (Key × Place)) (k : Key) :
    ownWeight (dropKey own k) ≤ ownWeight own := by
  induction own with
  | nil => simp [ownWeight, dropKey]
  | cons e es ih =>
    simp only [ownWeight, dropKey, List.filter_cons] at ih ⊢
    split <;> simp only [List.map_cons, List.sum_cons] <;> omega

theorem ownWeight_dropKey_of_mem {own : List (Key × Place)} (hn : (okeys own).Nodup) {k : Key}
    {pl : Place} (h : (k, pl) ∈ own) : ownWeight (dropKey own k) + tagWeight pl = ownWeight own := by
  induction own with
  | nil => cases h
  | cons e es ih =>
    simp only [okeys, List.map_cons, List.nodup_cons] at hn
    rcases List.mem_cons.mp h with h1 | h1
    · subst h1
      have hnot : ∀ e' ∈ es, e'.1 ≠ k := fun e' he' heq => hn.1 (heq ▸ List.mem_map.mpr ⟨e', he', rfl⟩)
      have hfil : dropKey es k = es :=
        List.filter_eq_self.mpr (fun e' he' => by simpa using hnot e' he')
      have hcons : dropKey ((k, pl) :: es) k = dropKey es k := by simp [dropKey]
      rw [hcons, hfil]; simp [ownWeight]; omega
    · have hne : e.1 ≠ k := fun he => hn.1 (he ▸ List.mem_map.mpr ⟨(k, pl), h1, rfl⟩)
      have := ih hn.2 h1
      simp only [ownWeight, dropKey, List.filter_cons, hne, ne_eq, not_false_eq_true, decide_true,
        if_true, List.map_cons, List.sum_cons] at this ⊢
      omega

theorem ownWeight_place (own : List (Key × Place)) (k : Key) (pl : Place) :
    ownWeight (place own k pl) = ownWeight (dropKey own k) + tagWeight pl := by
  simp [ownWeight, place, dropKey]

theorem failedCount_remove_le (rows : List Row) (k : Key) :
    failedCount (remove rows k) ≤ failedCount rows := by
  simp only [failedCount, remove]
  exact ((List.filter_sublist (l := rows)).filter _).length_le

theorem failedCount_markPending {rows : List Row} (hn : (keys rows).Nodup) {r : Row}
    (hr : r ∈ rows) (hs : r.status = .failed) :
    failedCount (markPending rows r.key) + 1 = failedCount rows := by
  induction rows with
  | nil => cases hr
  | cons a as ih =>
    simp only [keys, List.map_cons, List.nodup_cons] at hn
    rcases List.mem_cons.mp hr with h1 | h1
    · subst h1
      have hnot : ∀ q ∈ as, q.key ≠ r.key := fun q hq he => hn.1 (List.mem_map.mpr ⟨q, hq, he⟩)
      have hsame : markPending as r.key = as := by
        unfold markPending
        calc as.map _ = as.map id := List.map_congr_left (fun q hq => by simp [hnot q hq])
          _ = as := List.map_id as
      have e1 : markPending (r :: as) r.key = { r with status := .pending } :: markPending as r.key := by
        simp [markPending]
      rw [e1, hsame]
      simp [failedCount, hs]
    · have hne : a.key ≠ r.key := fun he => hn.1 (List.mem_map.mpr ⟨r, h1, he.symm⟩)
      have := ih hn.2 h1
      simp only [failedCount, markPending, List.map_cons, hne, if_false, List.filter_cons] at this ⊢
      split
      · simp only [List.length_cons]; omega
      · omega

theorem find_row {rows : List Row} (hn : (keys rows).Nodup) {r : Row} (hr : r ∈ rows) :
    rows.find? (fun q => decide (q.key = r.key)) = some r := by
  induction rows with
  | nil => cases hr
  | cons a as ih =>
    simp only [keys, List.map_cons, List.nodup_cons] at hn
    rcases List.mem_cons.mp hr with h1 | h1
    · subst h1; simp
    · have hne : a.key ≠ r.key := fun he => hn.1 (List.mem_map.mpr ⟨r, h1, he.symm⟩)
      simp only [List.find?_cons, hne, decide_false]
      exact ih hn.2 h1

/-! ### in every good running state some fault-free step makes progress towards executing `k` -/

theorem mlt_left {a a' b b' c c' : Nat} (h : a' < a) : MLt (a', b', c') (a, b, c) :=
  Prod.Lex.left _ _ h

theorem mlt_mid {a b b' c c' : Nat} (h : b' < b) : MLt (a, b', c') (a, b, c) :=
  Prod.Lex.right _ (Prod.Lex.left _ _ h)

theorem mlt_right {a b c c' : Nat} (h : c' < c) : MLt (a, b, c') (a, b, c) :=
  Prod.Lex.right _ (Prod.Lex.right _ h)

/-- the conclusion shape of `helpful` -/
def Progress (s : State) (k : Key) (o : Op) : Prop :=
  SysOp o ∧ (step s o).mode = .up ∧ (step s o).cfg = s.cfg ∧ k ∈ keys (step s o).rows ∧
    MLt (meas (step s o) k) (meas s k)

theorem helpful (s : State) (g : Good s) (hup : s.mode = .up) (hc : WFCfg s.cfg) (k : Key)
    (hk : k ∈ keys s.rows) (hrun : ¬ ∃ p, placeOf s.own k = some (.running p)) :
    ∃ o, Progress s k o := by
  have hnd : s.mode ≠ .down := by rw [hup]; simp
  -- A: some worker is executing a task (not k): let it succeed
  by_cases hA : ∃ k' p, (k', Place.running p) ∈ s.own
  · obtain ⟨k', p, hm⟩ := hA
    have hpl := placeOf_of_mem g.ownNodup hm
    have hne : k ≠ k' := fun he => hrun ⟨p, he ▸ hpl⟩
    refine ⟨.finish k' true, rfl, ?_⟩
    have hstep : step s (.finish k' true) = { s with own := dropKey s.own k', rows := remove s.rows k' } := by
      simp [step, stepO, hpl]
    rw [hstep]
    refine ⟨hup, rfl, (mem_keys_remove _ _ _).mpr ⟨hne, hk⟩, ?_⟩
    apply mlt_left
    have h1 := failedCount_remove_le s.rows k'
    have h2 := ownWeight_dropKey_of_mem g.ownNodup hm
    simp only [weight, tagWeight] at h2 ⊢; omega
  -- B: a channel is non-empty and (no worker being busy) its pool has an idle worker
  by_cases hB : ∃ k' p, (k', Place.queued p) ∈ s.own
  · obtain ⟨k', p, hm⟩ := hB
    have hq : queue s.own p ≠ [] := fun h => by
      have := mem_withTag.mpr hm; simp only [queue] at h; rw [h] at this; cases this
    obtain ⟨k2, rest, hq2⟩ := List.exists_cons_of_ne_nil hq
    have hm2 : (k2, Place.queued p) ∈ s.own := mem_withTag.mp (by simp only [queue] at hq2; rw [hq2]; simp)
    have hrunE : running s.own p = [] := by
      cases hr : running s.own p with
      | nil => rfl
      | cons x xs =>
        exact absurd ⟨x, p, mem_withTag.mp (by simp only [running] at hr; rw [hr]; simp)⟩ hA
    have hw : 0 < workers s.cfg p := by
      cases p
      · exact hc.nIn
      · exact hc.nRe
    refine ⟨.take p, trivial, ?_⟩
    have hstep : step s (.take p) = { s with own := place s.own k2 (.running p) } := by
      simp [step, stepO, hq2, hrunE, hw]
    rw [hstep]
    refine ⟨hup, rfl, hk, ?_⟩
    apply mlt_left
    have h2 := ownWeight_dropKey_of_mem g.ownNodup hm2
    simp only [weight, ownWeight_place, tagWeight] at h2 ⊢; omega
  have hqE : ∀ p, queue s.own p = [] := by
    intro p
    cases hr : queue s.own p with
    | nil => rfl
    | cons x xs => exact absurd ⟨x, p, mem_withTag.mp (by simp only [queue] at hr; rw [hr]; simp)⟩ hB
  -- C: the poller holds a task it has marked pending: it sends it
  by_cases hC : ∃ k', (k', Place.retrying) ∈ s.own
  · obtain ⟨k', hm⟩ := hC
    have hq : withTag s.own .retrying ≠ [] := fun h => by
      have := mem_withTag.mpr hm; rw [h] at this; cases this
    obtain ⟨k2, rest, hq2⟩ := List.exists_cons_of_ne_nil hq
    have hm2 : (k2, Place.retrying) ∈ s.own := mem_withTag.mp (by rw [hq2]; simp)
    refine ⟨.pollEnq, trivial, ?_⟩
    have hcr : 0 < s.cfg.capRe := hc.capRe
    have hstep : step s .pollEnq = { s with own := place s.own k2 (.queued .ret) } := by
      simp [step, stepO, hq2, enqueue, hqE, cap, hcr]
    rw [hstep]
    refine ⟨hup, rfl, hk, ?_⟩
    apply mlt_left
    have h2 := ownWeight_dropKey_of_mem g.ownNodup hm2
    simp only [weight, ownWeight_place, tagWeight] at h2 ⊢; omega
  -- D: an Add caller is between its insert and its send: it sends
  by_cases hD : ∃ k', (k', Place.adding) ∈ s.own
  · obtain ⟨k', hm⟩ := hD
    have hpl := placeOf_of_mem g.ownNodup hm
    refine ⟨.addEnq k', trivial, ?_⟩
    have hci : 0 < s.cfg.capIn := hc.capIn
    have hstep : step s (.addEnq k') = { s with own := place s.own k' (.queued .inc) } := by
      simp [step, stepO, hpl, enqueue, hqE, cap, hci]
    rw [hstep]
    refine ⟨hup, rfl, hk, ?_⟩
    apply mlt_left
    have h2 := ownWeight_dropKey_of_mem g.ownNodup hm
    simp only [weight, ownWeight_place, tagWeight] at h2 ⊢; omega
  -- E: nothing is pending; every row, in particular k's, is failed
  have hown : s.own = [] := by
    cases ho : s.own with
    | nil => rfl
    | cons e es =>
      obtain ⟨k', pl⟩ := e
      have hm : (k', pl) ∈ s.own := by rw [ho]; simp
      cases pl with
      | adding => exact absurd ⟨k', hm⟩ hD
      | retrying => exact absurd ⟨k', hm⟩ hC
      | queued p => exact absurd ⟨k', p, hm⟩ hB
      | running p => exact absurd ⟨k', p, hm⟩ hA
  obtain ⟨rk, hrk, hrkk⟩ := List.mem_map.mp hk
  have hrkf : rk.status = .failed := by
    cases hs : rk.status with
    | failed => rfl
    | pending =>
      have : k ∈ okeys s.own := (g.ownPending hnd k).mpr ⟨rk, hrk, hrkk, hs⟩
      rw [hown] at this; simp [okeys] at this
  have hkrow : kRow s k = some rk := by
    unfold kRow; rw [← hrkk]; exact find_row g.rowsNodup hrk
  have hretE : withTag s.own .retrying = [] := by rw [hown]; rfl
  cases htodo : s.todo with
  | cons r rest =>
    -- E1: the poller examines the next fetched task
    have hr : r ∈ s.todo := by rw [htodo]; simp
    obtain ⟨hrm, hrf⟩ := g.todoFailed r hr
    have hhas : hasKey s.rows r.key = true := (hasKey_iff _ _).mpr (List.mem_map.mpr ⟨r, hrm, rfl⟩)
    refine ⟨.pollMark, trivial, ?_⟩
    by_cases hd : (ready r s.now && due s.cfg r s.now) = true
    · have hstep : step s .pollMark = { s with todo := rest, rows := markPending s.rows r.key, own := place s.own r.key .retrying } := by
        simp [step, stepO, htodo, hretE, hd, hhas]
      rw [hstep]
      refine ⟨hup, rfl, by simpa using hk, ?_⟩
      apply mlt_left
      have h1 := failedCount_markPending g.rowsNodup hrm hrf
      simp only [weight, ownWeight_place, hown, tagWeight] at h1 ⊢
      simp only [dropKey, List.filter_nil, ownWeight, List.map_nil, List.sum_nil]
      omega
    · have hstep : step s .pollMark = { s with todo := rest } := by
        simp [step, stepO, htodo, hretE, hd]
      rw [hstep]
      refine ⟨hup, rfl, hk, ?_⟩
      have hfl : flag { s with todo := rest } k = flag s k := by
        have hdue : kDue { s with todo := rest } k = kDue s k := rfl
        simp only [flag, hdue, htodo]
        by_cases hkr : k = r.key
        · have : kDue s k = false := by
            have hrr : rk = r := row_unique g.rowsNodup hrk hrm (hrkk.trans hkr)
            simp only [kDue, hkrow, hrr]
            simpa using hd
          simp [this]
        · have : (k ∈ keys (r :: rest)) = (k ∈ keys rest) := by
            simp [keys, hkr]
          simp only [this]
      simp only [meas, weight, hfl, htodo]
      apply mlt_right
      simp
  | nil =>
    by_cases hdue : kDue s k = true
    · -- E2b: k is due and the poller is idle: it fetches the failed tasks
      refine ⟨.pollFetch, trivial, ?_⟩
      have hstep : step s .pollFetch = { s with todo := s.rows.filter fun r => r.status = .failed } := by
        simp [step, stepO, hnd, htodo, hretE]
      rw [hstep]
      refine ⟨hup, rfl, hk, ?_⟩
      have hin : k ∈ keys (s.rows.filter fun r => decide (r.status = .failed)) :=
        List.mem_map.mpr ⟨rk, by simp [hrk, hrkf], hrkk⟩
      have hdue' : kDue { s with todo := s.rows.filter fun r => decide (r.status = .failed) } k = true := hdue
      have h0 : flag { s with todo := s.rows.filter fun r => decide (r.status = .failed) } k = 0 := by
        simp only [flag, hdue', hin, if_true]
      have h1 : flag s k = 1 := by simp [flag, hdue, htodo, keys]
      simp only [meas, weight, h0, h1]
      apply mlt_mid; omega
    · -- E2a: k is not due yet: time passes
      let dt := rk.delay + s.cfg.retryInterval + 1 + rk.lastAttempt.getD 0 + rk.createdAt
      refine ⟨.advance dt, trivial, ?_⟩
      have hstep : step s (.advance dt) = { s with now := s.now + dt } := by simp [step, stepO]
      rw [hstep]
      refine ⟨hup, rfl, hk, ?_⟩
      have hrow' : kRow { s with now := s.now + dt } k = some rk := hkrow
      have hdue' : kDue { s with now := s.now + dt } k = true := by
        simp only [kDue, hrow', ready, due, Bool.and_eq_true, decide_eq_true_eq]
        constructor
        · show rk.delay ≤ s.now + dt - rk.createdAt
          simp only [dt]; omega
        · cases hla : rk.lastAttempt with
          | none => rfl
          | some t =>
            simp only [decide_eq_true_eq]
            show s.cfg.retryInterval < s.now + dt - t
            simp only [dt, hla, Option.getD_some]; omega
      have h2 : flag s k = 2 := by simp [flag, hdue]
      have hle : flag { s with now := s.now + dt } k ≤ 1 := by
        simp only [flag, hdue', if_true]; split <;> omega
      simp only [meas, weight, h2]
      apply mlt_mid; omega

/-- **no absorbing state**: from every good state of a running manager, for every stored task,
some fault-free continuation leads to a state where a worker is executing the task. -/
theorem can_reach_exec (s : State) (g : Good s) (hup : s.mode = .up) (hc : WFCfg s.cfg) (k : Key)
    (hk : k ∈ keys s.rows) :
    ∃ ops : List Op, (∀ o ∈ ops, SysOp o) ∧ ∃ p, placeOf (ops.foldl step s).own k = some (.running p) := by
  by_cases hrun : ∃ p, placeOf s.own k = some (.running p)
  · exact ⟨[], by simp, hrun⟩
  · obtain ⟨o, hnf, hm, hcfg, hk', hd⟩ := helpful s g hup hc k hk hrun
    obtain ⟨ops, h1, h2⟩ := can_reach_exec (step s o) (step_good s o g) hm (hcfg ▸ hc) k hk'
    refine ⟨o :: ops, ?_, by simpa [List.foldl_cons] using h2⟩
    intro o' ho'
    rcases List.mem_cons.mp ho' with rfl | h
    · exact hnf
    · exact h1 o' h
termination_by meas s k
decreasing_by exact hd

/-- a successful execution of a running task removes it from the table -/
theorem finish_ok_removes (s : State) (k : Key) (p : Pool) (h : placeOf s.own k = some (.running p)) :
    k ∉ keys (step s (.finish k true)).rows ∧ out s (.finish k true) = .removed := by
  simp [step, out, stepO, h, mem_keys_remove]

end KrakenModel.Retry
