import KrakenModel.Model.Rendezvous
/- Helper lemmas for Spec/C22 (and C21): insertion sort facts, uniqueness of sorted permutations. Core only. -/
set_option linter.unusedSectionVars false
namespace KrakenModel.Proof.C22
open KrakenModel.Rendezvous

variable {ν : Type} {S : Type} [LE S] [DecidableLE S] [Std.IsLinearOrder S]

theorem le_rfl' (a : S) : a ≤ a := Std.IsPreorder.le_refl a
theorem le_tr {a b c : S} (h1 : a ≤ b) (h2 : b ≤ c) : a ≤ c := Std.IsPreorder.le_trans a b c h1 h2
theorem le_antisymm' {a b : S} (h1 : a ≤ b) (h2 : b ≤ a) : a = b := Std.IsPartialOrder.le_antisymm a b h1 h2
theorem le_tot (a b : S) : a ≤ b ∨ b ≤ a := Std.IsLinearPreorder.le_total a b

theorem perm_insertDesc (sc : ν → S) (a : ν) (l : List ν) : (insertDesc sc a l).Perm (a :: l) := by
  induction l with
  | nil => simp [insertDesc]
  | cons b t ih =>
    simp only [insertDesc]
    split
    · exact List.Perm.refl _
    · exact ((List.perm_cons b).mpr ih).trans (List.Perm.swap a b t)

theorem mem_insertDesc (sc : ν → S) (a x : ν) (l : List ν) : x ∈ insertDesc sc a l ↔ x = a ∨ x ∈ l := by
  rw [(perm_insertDesc sc a l).mem_iff]; simp

theorem sorted_insertDesc (sc : ν → S) (a : ν) (l : List ν) (h : SortedDesc sc l) :
    SortedDesc sc (insertDesc sc a l) := by
  induction l with
  | nil => simp [insertDesc, SortedDesc]
  | cons b t ih =>
    unfold SortedDesc at h ih ⊢
    have hb := List.pairwise_cons.mp h
    simp only [insertDesc]
    split
    · rename_i hle
      refine List.pairwise_cons.mpr ⟨?_, h⟩
      intro x hx
      rcases List.mem_cons.mp hx with rfl | hx
      · exact hle
      · exact le_tr (hb.1 x hx) hle
    · rename_i hnle
      have hab : sc a ≤ sc b := (le_tot (sc a) (sc b)).resolve_right hnle
      refine List.pairwise_cons.mpr ⟨?_, ih hb.2⟩
      intro x hx
      rcases (mem_insertDesc sc a x t).mp hx with rfl | hx
      · exact hab
      · exact hb.1 x hx

theorem ordered_cons (sc : ν → S) (a : ν) (l : List ν) :
    ordered sc (a :: l) = insertDesc sc a (ordered sc l) := rfl

theorem ordered_perm (sc : ν → S) (l : List ν) : (ordered sc l).Perm l := by
  induction l with
  | nil => exact List.Perm.refl _
  | cons a t ih =>
    rw [ordered_cons]
    exact (perm_insertDesc sc a _).trans ((List.perm_cons a).mpr ih)

theorem ordered_sorted (sc : ν → S) (l : List ν) : SortedDesc sc (ordered sc l) := by
  induction l with
  | nil => simp [ordered, SortedDesc]
  | cons a t ih => rw [ordered_cons]; exact sorted_insertDesc sc a _ ih

/-- the heart of C22: a descending-sorted list is determined by its multiset when scores are distinct -/
theorem sorted_perm_unique (sc : ν → S) :
    ∀ (l1 l2 : List ν), l1.Perm l2 → SortedDesc sc l1 → SortedDesc sc l2 → InjOn sc l1 → l1 = l2 := by
  intro l1
  induction l1 with
  | nil => intro l2 hp _ _ _; exact (List.Perm.nil_eq hp)
  | cons a t1 ih =>
    intro l2 hp h1 h2 inj
    cases l2 with
    | nil => exact absurd hp.length_eq (by simp)
    | cons b t2 =>
      unfold SortedDesc at h1 h2
      have h1' := List.pairwise_cons.mp h1
      have h2' := List.pairwise_cons.mp h2
      have hb1 : b ∈ a :: t1 := hp.mem_iff.mpr (by simp)
      have ha2 : a ∈ b :: t2 := hp.mem_iff.mp (by simp)
      have hba : sc b ≤ sc a := by
        rcases List.mem_cons.mp hb1 with h | h
        · rw [h]; exact le_rfl' _
        · exact h1'.1 b h
      have hab : sc a ≤ sc b := by
        rcases List.mem_cons.mp ha2 with h | h
        · rw [h]; exact le_rfl' _
        · exact h2'.1 a h
      have hab' : a = b := inj a (by simp) b hb1 (le_antisymm' hab hba)
      subst hab'
      have hpt : t1.Perm t2 := (List.perm_cons a).mp hp
      have := ih t2 hpt h1'.2 h2'.2 (fun x hx y hy => inj x (List.mem_cons_of_mem _ hx) y (List.mem_cons_of_mem _ hy))
      rw [this]

theorem injOn_perm (sc : ν → S) {l1 l2 : List ν} (hp : l1.Perm l2) (h : InjOn sc l1) : InjOn sc l2 :=
  fun a ha b hb => h a (hp.mem_iff.mpr ha) b (hp.mem_iff.mpr hb)

theorem injOn_sub (sc : ν → S) {l1 l2 : List ν} (hs : ∀ x ∈ l2, x ∈ l1) (h : InjOn sc l1) : InjOn sc l2 :=
  fun a ha b hb => h a (hs a ha) b (hs b hb)

/-- insertion only splits the list: nothing else moves -/
theorem insertDesc_split (sc : ν → S) (a : ν) (l : List ν) :
    ∃ pre suf, l = pre ++ suf ∧ insertDesc sc a l = pre ++ a :: suf := by
  induction l with
  | nil => exact ⟨[], [], rfl, rfl⟩
  | cons b t ih =>
    simp only [insertDesc]
    split
    · exact ⟨[], b :: t, rfl, rfl⟩
    · obtain ⟨pre, suf, h1, h2⟩ := ih
      exact ⟨b :: pre, suf, by rw [h1]; rfl, by rw [h2]; rfl⟩

theorem sorted_take (sc : ν → S) (l : List ν) (k : Nat) (h : SortedDesc sc l) : SortedDesc sc (l.take k) :=
  List.Pairwise.sublist (List.take_sublist k l) h

theorem sorted_erase [DecidableEq ν] (sc : ν → S) (l : List ν) (n : ν) (h : SortedDesc sc l) :
    SortedDesc sc (l.erase n) :=
  List.Pairwise.sublist List.erase_sublist h

theorem sorted_filter (sc : ν → S) (l : List ν) (p : ν → Bool) (h : SortedDesc sc l) :
    SortedDesc sc (l.filter p) :=
  List.Pairwise.sublist List.filter_sublist h

end KrakenModel.Proof.C22
