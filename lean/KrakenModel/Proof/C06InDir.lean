import KrakenModel.Proof.C06View
/-
  C06 proof library, part 6: operations whose calls stay inside the blob's directory
  (handle writes, BanEviction, UnbanEviction, SetMetadata, DeleteMetadata, WriteAtMetadata).
-/
set_option linter.unusedSectionVars false
set_option linter.unusedSimpArgs false
namespace KrakenModel.DiskCrash
open KrakenModel.FS

theorem opOK_inDir {cfg : Cfg} {m m' : Mem} {fs : FS Name} (hfs : GoodFS cfg fs) (hg : GoodMem cfg m fs)
    (K : Key) (b b' : Blob) (hb : aget m.blobs K = some b)
    (hk : aget m'.blobs K = some b') (ho : ∀ K', K' ≠ K → aget m'.blobs K' = aget m.blobs K')
    (hnd : (akeys m'.blobs).Nodup) (hqn : m'.queue.Nodup)
    (hq : ∀ K', K' ∈ m'.queue ↔ ∃ b'', aget m'.blobs K' = some b'' ∧ b''.complete = true ∧ b''.banned = false)
    (hc : b'.complete = b.complete) (hs : b'.size = b.size)
    (cs : List (Call Name)) (hin : ∀ c ∈ cs, c.inDir (dirPath cfg b.complete K))
    (hdata : ∀ c ∈ cs, Name.data ∉ c.removes)
    (hsize : ∀ c ∈ cs, Name.size ∉ c.names)
    (hview : ∀ c ∈ cs.dropLast, ∀ n, viewName n = true → n ∉ c.names)
    (d : DirEnt Name) (hd : fs.dir? (dirPath cfg b.complete K) = some d)
    (hban : (aget (filesAfter cs d) Name.ban).isSome = b'.banned)
    (res : Res) (hr : res ≠ Res.panic ∧ res ≠ Res.ioExist ∧ res ≠ Res.ioNotExist) :
    OpOK cfg m fs ⟨m', cs, res⟩ := by
  have g := hg.blob K b hb
  have hlen := dirPath_length cfg b.complete K g.valid
  have hother : ∀ (k : Nat) (q : Path), q ≠ dirPath cfg b.complete K →
      (applyPrefix k cs fs).dir? q = fs.dir? q := fun k q hq =>
    dir?_applyAll_inDir_other _ _ _ _ (fun c hc' => hin c (List.mem_of_mem_take hc')) hq
  have hother' : ∀ (q : Path), q ≠ dirPath cfg b.complete K → (applyAll fs cs).dir? q = fs.dir? q := fun q hq =>
    dir?_applyAll_inDir_other _ _ _ _ hin hq
  have hself : ∀ k, (applyPrefix k cs fs).dir? (dirPath cfg b.complete K) = some (filesAfter (cs.take k) d) := fun k =>
    dir?_applyAll_inDir _ _ _ _ (fun c hc' => hin c (List.mem_of_mem_take hc')) hd
  have hself' : (applyAll fs cs).dir? (dirPath cfg b.complete K) = some (filesAfter cs d) :=
    dir?_applyAll_inDir _ _ _ _ hin hd
  have hkey : ∀ K' c, K' ≠ K → dirPath cfg c K' ≠ dirPath cfg b.complete K := fun K' c hne => dirPath_ne_of_key hne
  obtain ⟨d0, hd0, hdat, hbn, hsz⟩ := g.dir
  have hdd : d0 = d := by rw [hd] at hd0; exact (Option.some.inj hd0).symm
  subst hdd
  refine ⟨fun c hc' => inDir_wf (hin c hc') hlen, ?_, ?_, hr, ?_⟩
  · -- the state after the operation
    refine ⟨hnd, ?_, ?_, hqn, hq⟩
    · intro K' b'' hK'
      by_cases hne : K' = K
      · subst hne
        rw [hk] at hK'; cases hK'
        refine ⟨g.valid, ⟨filesAfter cs d0, by rw [hc]; exact hself', ?_, hban, ?_⟩, ?_⟩
        · exact isSome_filesAfter_of_not_removed cs d0 _ hdata hdat
        · intro h1 h2
          rw [aget_filesAfter_of_not_named cs d0 _ hsize, hs]
          exact hsz (by rw [← hc]; exact h1) h2
        · rw [hc, hother' _ (by have := dirPath_ne_of_side cfg b.complete K' K'; exact fun e => this e.symm)]
          exact g.other
      · rw [ho K' hne] at hK'
        exact goodBlob_frame (fun c => hother' _ (hkey K' c hne)) (hg.blob K' b'' hK')
    · intro K' hv hK'
      have hne : K' ≠ K := by intro e; subst e; rw [hk] at hK'; cases hK'
      rw [ho K' hne] at hK'
      have := hg.absent K' hv hK'
      exact ⟨by rw [hother' _ (hkey K' _ hne)]; exact this.1, by rw [hother' _ (hkey K' _ hne)]; exact this.2⟩
  · -- every prefix keeps the tree well-shaped
    intro k
    have hs := shape_applyPrefix k cs hfs.shape (fun c hc' => inDir_wf (hin c hc') hlen)
    refine ⟨hs.len, hs.nofile, hs.par, ?_⟩
    intro K' hv ⟨h1, h2⟩
    have hcr : ∀ c ∈ cs.take k, c.created = [] := fun c hc' => inDir_created (hin c (List.mem_of_mem_take hc'))
    exact hfs.one K' hv ⟨isSome_dir?_of_applyAll _ fs hcr _ h1, isSome_dir?_of_applyAll _ fs hcr _ h2⟩
  · -- what a crash leaves
    intro k K' hv
    by_cases hne : K' = K
    · subst hne
      unfold CrashView
      simp only [hb, hk]
      left
      refine ⟨?_, by rw [hself k]; rfl, ?_, ?_⟩
      · rw [hother k _ (by have := dirPath_ne_of_side cfg b.complete K' K'; exact fun e => this e.symm)]
        exact g.other
      · intro n hn
        simp only [FS.file?, hself k, hd, hc, hself']
        exact between_inDir cs d0 hview k n hn
      · simp only [FS.file?, hself k, hd]
        exact aget_filesAfter_of_not_named _ _ _ (fun c hc' => hsize c (List.mem_of_mem_take hc'))
    · exact crashView_frame hg hv (ho K' hne) (fun c => hother k _ (hkey K' c hne))

end KrakenModel.DiskCrash
