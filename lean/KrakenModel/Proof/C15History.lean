import KrakenModel.Util.LTS
import KrakenModel.Model.PieceRequest
import KrakenModel.Proof.C15
/- History-level description of the requests a Manager holds (for Spec/C15 `failed_is_history`):
   what is held after a history is described per accepted reservation by the operations that came
   after it (core Lean only). -/
namespace KrakenModel.Proof.C15
open KrakenModel KrakenModel.PieceRequest

/-- the observable part of a request: piece, peer, time sent, stored status -/
abbrev PReq := Piece × Peer × Int × Status

def proj (r : Req) : PReq := (r.piece, r.peer, r.sentAt, r.status)

/-- a later operation removes requests of piece `i` to peer `p` -/
def clears (i : Piece) (p : Peer) : Op → Bool
  | .clear j => j == i
  | .clearPeer q => q == p
  | _ => false

def cleared (later : List Op) (i : Piece) (p : Peer) : Bool := later.any (clears i p)

/-- the status a later operation marks requests of piece `i` to peer `p` with -/
def marks (i : Piece) (p : Peer) : Op → Option Status
  | .markUnsent q j => if j == i && q == p then some .unsent else none
  | .markInvalid q j => if j == i && q == p then some .invalid else none
  | _ => none

/-- the last mark among the later operations -/
def finalMark (i : Piece) (p : Peer) : List Op → Option Status
  | [] => none
  | o :: rest => match finalMark i p rest with
    | some st => some st
    | none => marks i p o

/-- what becomes of a held request under the operations that follow -/
def evolve (later : List Op) (x : PReq) : Option PReq :=
  if cleared later x.1 x.2.1 then none
  else some (x.1, x.2.1, x.2.2.1, (finalMark x.1 x.2.1 later).getD x.2.2.2)

/-- the pieces a `ReservePieces` call really reserved in state `s` -/
def accepted (cfg : Config) (s : State) : Op → List (Piece × Peer)
  | .reserve p origin cands prio dup chosen =>
    if 0 < quota cfg s p origin ∧ admissible cfg.policy (quota cfg s p origin).toNat (validCands cfg s p cands dup) prio chosen = true
    then chosen.map (·, p) else []
  | _ => []

/-- every request created along `ops` (from state `s`) that no later operation cleared, with the
time it was sent and the last status a later operation marked it with (pending if none) -/
def heldFrom (cfg : Config) (s : State) : List Op → List PReq
  | [] => []
  | o :: rest =>
    (accepted cfg s o).filterMap (fun ip => evolve rest (ip.1, ip.2, s.now, .pending)) ++ heldFrom cfg (step cfg s o) rest

theorem filterMap_congr' {α β} (l : List α) (f g : α → Option β) (h : ∀ a ∈ l, f a = g a) :
    l.filterMap f = l.filterMap g := by
  induction l with
  | nil => rfl
  | cons a l ih =>
    simp only [List.filterMap_cons, h a List.mem_cons_self, ih (fun b hb => h b (List.mem_cons_of_mem _ hb))]

theorem evolve_cons_other (o : Op) (rest : List Op) (x : PReq)
    (hc : clears x.1 x.2.1 o = false) (hm : marks x.1 x.2.1 o = none) : evolve (o :: rest) x = evolve rest x := by
  simp only [evolve, cleared, List.any_cons, hc, Bool.false_or, finalMark, hm]
  cases finalMark x.1 x.2.1 rest <;> rfl

theorem evolve_cons_clear (o : Op) (rest : List Op) (x : PReq) (hc : clears x.1 x.2.1 o = true) :
    evolve (o :: rest) x = none := by
  simp [evolve, cleared, hc]

theorem evolve_cons_mark (o : Op) (rest : List Op) (x : PReq) (st : Status)
    (hc : clears x.1 x.2.1 o = false) (hm : marks x.1 x.2.1 o = some st) :
    evolve (o :: rest) x = evolve rest (x.1, x.2.1, x.2.2.1, st) := by
  simp only [evolve, cleared, List.any_cons, hc, Bool.false_or, finalMark, hm]
  cases finalMark x.1 x.2.1 rest <;> rfl

theorem proj_unindex (p : Peer) (i : Piece) (r : Req) : proj (unindex p i r) = proj r := by
  have := unindex_fields p i r
  simp [proj, this.1, this.2.1, this.2.2.1, this.2.2.2]

theorem addAll_proj (s : State) (p : Peer) (chosen : List Piece) :
    (addAll s p chosen).reqs.map proj = s.reqs.map proj ++ chosen.map (fun i => (i, p, s.now, Status.pending)) := by
  induction chosen generalizing s with
  | nil => simp [addAll]
  | cons i is ih =>
    simp only [addAll, List.foldl_cons] at ih ⊢
    rw [ih (addReq s p i), (addReq_reqs s p i).1, (addReq_reqs s p i).2]
    simp only [List.map_append, List.map_map, List.map_cons, List.map_nil, List.append_assoc]
    congr 1
    · apply List.map_congr_left
      intro r _
      exact proj_unindex p i r

/-- the state after one operation, in terms of the held requests before -/
theorem step_proj (cfg : Config) (s : State) (o : Op) :
    (step cfg s o).reqs.map proj =
      (s.reqs.map proj).filterMap (fun x =>
        if clears x.1 x.2.1 o then none
        else some (x.1, x.2.1, x.2.2.1, (marks x.1 x.2.1 o).getD x.2.2.2)) ++
      (accepted cfg s o).map (fun ip => (ip.1, ip.2, s.now, Status.pending)) := by
  cases o with
  | reserve p origin cands prio dup chosen =>
    have hid : ∀ l : List PReq, l.filterMap (fun x =>
        if clears x.1 x.2.1 (Op.reserve p origin cands prio dup chosen) then none
        else some (x.1, x.2.1, x.2.2.1, (marks x.1 x.2.1 (Op.reserve p origin cands prio dup chosen)).getD x.2.2.2)) = l := by
      intro l
      induction l with
      | nil => rfl
      | cons a l ih => simp [List.filterMap_cons, clears, marks, ih]
    rw [hid]
    simp only [step, reserve, accepted]
    by_cases hq : quota cfg s p origin ≤ 0
    · have : ¬ (0 < quota cfg s p origin) := by omega
      simp [hq, this]
    · have hq' : 0 < quota cfg s p origin := by omega
      simp only [hq, if_false, hq', true_and]
      split
      · rw [addAll_proj]; simp [List.map_map, Function.comp]
      · simp
  | markUnsent p i =>
    simp only [step, markStatus, accepted, List.map_nil, List.append_nil, List.map_map, List.filterMap_map]
    rw [← List.filterMap_eq_map]  -- turn the left map into a filterMap of `some`
    apply filterMap_congr'
    intro r _
    simp only [Function.comp, proj, clears, marks, Bool.false_eq_true, if_false]
    by_cases h1 : r.piece = i <;> by_cases h2 : r.peer = p
    · subst h1; subst h2; simp
    · have h2' : ¬ (p = r.peer) := fun e => h2 e.symm
      simp [h1, h2, h2']
    · have h1' : ¬ (i = r.piece) := fun e => h1 e.symm
      simp [h1, h1']
    · have h1' : ¬ (i = r.piece) := fun e => h1 e.symm
      simp [h1, h1']
  | markInvalid p i =>
    simp only [step, markStatus, accepted, List.map_nil, List.append_nil, List.map_map, List.filterMap_map]
    rw [← List.filterMap_eq_map]
    apply filterMap_congr'
    intro r _
    simp only [Function.comp, proj, clears, marks, Bool.false_eq_true, if_false]
    by_cases h1 : r.piece = i <;> by_cases h2 : r.peer = p
    · subst h1; subst h2; simp
    · have h2' : ¬ (p = r.peer) := fun e => h2 e.symm
      simp [h1, h2, h2']
    · have h1' : ¬ (i = r.piece) := fun e => h1 e.symm
      simp [h1, h1']
    · have h1' : ¬ (i = r.piece) := fun e => h1 e.symm
      simp [h1, h1']
  | clear i =>
    simp only [step, clear, accepted, List.map_nil, List.append_nil, List.filterMap_map]
    rw [← List.filterMap_eq_map, List.filterMap_filter]
    apply filterMap_congr'
    intro r _
    simp only [Function.comp, proj, clears, marks, Option.getD_none]
    by_cases h1 : r.piece = i
    · subst h1; simp
    · have h1' : ¬ (i = r.piece) := fun e => h1 e.symm
      simp [h1, h1']
  | clearPeer p =>
    simp only [step, clearPeer, accepted, List.map_nil, List.append_nil, List.filterMap_map]
    rw [← List.filterMap_eq_map, List.filterMap_filter]
    apply filterMap_congr'
    intro r _
    simp only [Function.comp, proj, clears, marks, Option.getD_none]
    by_cases h1 : r.peer = p
    · subst h1; simp
    · have h1' : ¬ (p = r.peer) := fun e => h1 e.symm
      simp [h1, h1']
  | advance d =>
    simp only [step, accepted, List.map_nil, List.append_nil]
    induction s.reqs.map proj with
    | nil => rfl
    | cons a l ih => simp [List.filterMap_cons, clears, marks, ← ih]

theorem evolve_nil (x : PReq) : evolve [] x = some x := by
  simp [evolve, cleared, finalMark]

theorem evolve_step (o : Op) (rest : List Op) (x : PReq) :
    (if clears x.1 x.2.1 o then none
      else some (x.1, x.2.1, x.2.2.1, (marks x.1 x.2.1 o).getD x.2.2.2)).bind (evolve rest) = evolve (o :: rest) x := by
  by_cases hc : clears x.1 x.2.1 o = true
  · simp [hc, evolve_cons_clear o rest x hc]
  · have hc' : clears x.1 x.2.1 o = false := by simpa using hc
    simp only [hc', Bool.false_eq_true, if_false, Option.bind_some]
    cases hm : marks x.1 x.2.1 o with
    | none => rw [evolve_cons_other o rest x hc' hm]; rfl
    | some st => rw [evolve_cons_mark o rest x st hc' hm]; rfl

/-- the requests held after `ops` from `s`: those of `s` as the operations left them, then every
request created on the way that was not cleared later -/
theorem runFrom_proj (cfg : Config) : ∀ (ops : List Op) (s : State),
    (ops.foldl (step cfg) s).reqs.map proj = (s.reqs.map proj).filterMap (evolve ops) ++ heldFrom cfg s ops := by
  intro ops
  induction ops with
  | nil =>
    intro s
    simp only [List.foldl_nil, heldFrom, List.append_nil]
    induction s.reqs.map proj with
    | nil => rfl
    | cons a l ih => simp only [List.filterMap_cons, evolve_nil]; rw [← ih]
  | cons o rest ih =>
    intro s
    simp only [List.foldl_cons]
    rw [ih (step cfg s o), step_proj, List.filterMap_append, List.filterMap_filterMap, heldFrom, List.append_assoc]
    simp only [List.filterMap_map]
    congr 1
    apply filterMap_congr'
    intro r _
    exact evolve_step o rest (proj r)

end KrakenModel.Proof.C15
