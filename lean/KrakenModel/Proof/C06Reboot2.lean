import KrakenModel.Proof.C06Reboot
/-
  C06 proof library, part 11: `disk.NewStore` on a well-shaped tree (`reboot_ok`).
-/
set_option linter.unusedSectionVars false
set_option linter.unusedSimpArgs false
namespace KrakenModel.DiskCrash
open KrakenModel.FS

theorem top_exists {fs : FS Name} (hpar : ∀ p ∈ fs.paths, HasParent fs p) :
    ∀ (n : Nat) (p : Path), p.length = n → p ∈ fs.paths → ∃ x, p.head? = some x ∧ [x] ∈ fs.paths := by
  intro n
  induction n with
  | zero =>
    intro p hl hp
    have : p = [] := List.length_eq_zero_iff.mp hl
    exact absurd this (hpar p hp).1
  | succ n ih =>
    intro p hl hp
    obtain ⟨hne, hpr⟩ := hpar p hp
    rcases hpr with h | h
    · -- p = [x]
      have hl1 : p.length = 1 := by
        have := congrArg List.length h
        rw [List.length_dropLast] at this; simp at this; omega
      match p, hl1 with
      | [x], _ => exact ⟨x, rfl, hp⟩
    · have hl' : p.dropLast.length = n := by rw [List.length_dropLast]; omega
      obtain ⟨x, hx, hin⟩ := ih p.dropLast hl' h
      refine ⟨x, ?_, hin⟩
      have hne' : p.dropLast ≠ [] := by intro e; rw [e] at hx; cases hx
      cases p with
      | nil => exact absurd rfl hne
      | cons a t =>
        cases t with
        | nil => simp at hne'
        | cons b t' => simpa [List.dropLast] using hx

theorem persisted_of_dir {cfg : Cfg} {fs : FS Name} (hfs : GoodFS cfg fs) (c : Bool) (K : Key)
    (h : (fs.dir? (dirPath cfg c K)).isSome = true) : persisted fs = true := by
  obtain ⟨x, hx, hin⟩ := top_exists hfs.par _ _ rfl ((FS.mem_paths_iff _ _).mpr h)
  rw [dirPath_head] at hx
  cases hx
  have := (FS.mem_paths_iff _ _).mp hin
  cases c <;> simp [persisted, FS.isDir, this]

/-- the sizes the scan adds up -/
def rebootSize (cfg : Cfg) (rm : List (Call Name)) (fs : FS Name) : Nat :=
  let fs0 := applyAll fs (if cfg.reboot = true then [] else rm)
  ((rebootGood cfg fs0 (rebootEntries cfg fs0)).map (·.size)).sum

/-- what the scan makes of one key -/
def rebootLookup (cfg : Cfg) (fs : FS Name) (K : Key) : Option Blob :=
  match rebootBlob cfg fs true K with
  | some rb => some (blobOf rb)
  | none => if cfg.reboot = true then (rebootBlob cfg fs false K).map blobOf else none

structure RebootOK (cfg : Cfg) (rm : List (Call Name)) (fs : FS Name) (r : RebootOut) : Prop where
  /-- the constructor only removes things -/
  removal : ∀ c ∈ r.calls, Call.removal c = true
  /-- it fails only for lack of space -/
  nopanic : r.res ≠ Except.error RebootErr.panic
  /-- the store it returns agrees with the tree it leaves -/
  good : ∀ m', r.res = Except.ok m' → GoodMem cfg m' (applyAll fs r.calls)
  /-- when the blobs found fit the capacity: success, every key is what the scan makes of it, and the
  directories of the blobs found are untouched -/
  fits : rebootSize cfg rm fs ≤ cfg.capacity → ∃ m', r.res = Except.ok m' ∧
    (∀ K, ValidKey cfg K → aget m'.blobs K = rebootLookup cfg fs K) ∧
    (∀ K bl, aget m'.blobs K = some bl →
      (applyAll fs r.calls).dir? (dirPath cfg bl.complete K) = fs.dir? (dirPath cfg bl.complete K))
  /-- … and they are untouched at every point of the constructor's run -/
  frame : rebootSize cfg rm fs ≤ cfg.capacity → ∀ k K c rb, rebootBlob cfg fs c K = some rb →
    (c = true ∨ cfg.reboot = true) →
    (applyPrefix k r.calls fs).dir? (dirPath cfg c K) = fs.dir? (dirPath cfg c K)

theorem rebootBlob_none_of_dir {cfg : Cfg} {fs : FS Name} {c : Bool} {K : Key}
    (h : fs.dir? (dirPath cfg c K) = none) : rebootBlob cfg fs c K = none := by
  simp [rebootBlob, FS.file?, h]

theorem reboot_ok {cfg : Cfg} {fs : FS Name} (hfs : GoodFS cfg fs) (o : Order Name) (mt : List Key)
    (rm : List (Call Name)) (hrm : cfg.reboot = false → validRm fs rm = true) :
    RebootOK cfg rm fs (rebootRun cfg o mt rm fs) := by
  unfold rebootRun
  by_cases hp : persisted fs = true
  case neg =>
    simp only [hp, Bool.not_false, if_true, Bool.false_eq_true]
    have hnone : ∀ c K, fs.dir? (dirPath cfg c K) = none := by
      intro c K
      cases hd : fs.dir? (dirPath cfg c K) with
      | none => rfl
      | some d => exact absurd (persisted_of_dir hfs c K (by simp [hd])) hp
    refine ⟨by simp, by simp, ?_, ?_, ?_⟩
    · intro m' hm'
      cases hm'
      refine ⟨List.Pairwise.nil, ?_, fun K _ _ => ⟨hnone false K, hnone true K⟩, List.Pairwise.nil, ?_⟩
      · intro K b h; change aget [] K = some b at h; simp at h
      · intro K
        constructor
        · intro h; change K ∈ [] at h; simp at h
        · rintro ⟨b, h, _⟩; change aget [] K = some b at h; simp at h
    · intro _
      refine ⟨{}, rfl, ?_, by intro K bl h; simp at h⟩
      intro K _
      simp [rebootLookup, rebootBlob_none_of_dir (hnone true K), rebootBlob_none_of_dir (hnone false K)]
    · intro _ k K c rb h
      rw [rebootBlob_none_of_dir (hnone c K)] at h; cases h
  case pos =>
    simp only [hp, Bool.not_true, Bool.false_eq_true, if_false]
    have F := rm_facts hfs rm hrm
    generalize hcalls0 : (if cfg.reboot = true then [] else rm) = calls0 at *
    generalize hfs0 : applyAll fs calls0 = fs0 at *
    generalize hes : rebootEntries cfg fs0 = es
    generalize hbs : rebootGood cfg fs0 es = bs
    -- entries and blobs found
    have hes_mem : ∀ K c, (K, c) ∈ es ↔ K ∈ rebootKeys cfg fs0 c ∧ (c = true ∨ cfg.reboot = true) := by
      intro K c; rw [← hes]; exact mem_rebootEntries cfg fs0 K c
    have hes_nd : es.Nodup := by rw [← hes]; exact rebootEntries_nodup cfg fs0
    have hbs_mem : ∀ rb, rb ∈ bs ↔ ∃ e ∈ es, rebootBlob cfg fs0 e.2 e.1 = some rb := by
      intro rb; rw [← hbs]; simp [rebootGood, List.mem_filterMap]
    have hvalid : ∀ c K rb, rebootBlob cfg fs0 c K = some rb → ValidKey cfg K := by
      intro c K rb h
      obtain ⟨_, _, d, hd, hdat, _⟩ := rebootBlob_some h
      have hlen := F.good.len (dirPath cfg c K) ((FS.mem_paths_iff _ _).mpr (by simp [hd]))
      by_cases hlt : (dirPath cfg c K).length < depth cfg
      · have := F.good.nofile _ d hd hlt; subst this; simp at hdat
      · exact validKey_of_length (c := c) (by omega)
    have hentry : ∀ c K rb, rebootBlob cfg fs0 c K = some rb → (c = true ∨ cfg.reboot = true) → (K, c) ∈ es := by
      intro c K rb h hc
      obtain ⟨_, _, d, hd, _⟩ := rebootBlob_some h
      exact (hes_mem K c).mpr ⟨mem_rebootKeys_of_dir (hvalid c K rb h) (by simp [hd]), hc⟩
    have huniq : ∀ rb ∈ bs, ∀ rb' ∈ bs, rb'.key = rb.key → rb' = rb := by
      intro rb hrb rb' hrb' hk
      obtain ⟨⟨K, c⟩, he, h⟩ := (hbs_mem rb).mp hrb
      obtain ⟨⟨K', c'⟩, he', h'⟩ := (hbs_mem rb').mp hrb'
      simp only at h h'
      obtain ⟨hk1, hc1, d, hd, _⟩ := rebootBlob_some h
      obtain ⟨hk2, hc2, d', hd', _⟩ := rebootBlob_some h'
      have hKK : K' = K := by rw [← hk1, ← hk2]; exact hk
      subst hKK
      by_cases hcc : c' = c
      · subst hcc; rw [h] at h'; exact (Option.some.inj h').symm
      · exfalso
        apply F.good.one K' (hvalid c K' rb h)
        cases c <;> cases c'
        · exact absurd rfl hcc
        · exact ⟨by simp [hd], by simp [hd']⟩
        · exact ⟨by simp [hd'], by simp [hd]⟩
        · exact absurd rfl hcc
    -- the directories that are removed
    generalize hps : (es.filter (fun e => (rebootBlob cfg fs0 e.2 e.1).isNone)).map (fun e => dirPath cfg e.2 e.1) = ps
    have hcalls1 : rebootBadCalls cfg o fs0 es = ps.flatMap (removeAllPlan fs0 o) := by
      rw [← hps]; simp [rebootBadCalls, List.flatMap_map]
    have hps_nd : ps.Nodup := by
      rw [← hps]
      exact (hes_nd.filter _).map _ (fun a b hab e => hab (by
        have := dirPath_inj e; exact Prod.ext this.2 this.1))
    have hps_mem : ∀ q, q ∈ ps ↔ ∃ e ∈ es, rebootBlob cfg fs0 e.2 e.1 = none ∧ q = dirPath cfg e.2 e.1 := by
      intro q; rw [← hps]
      simp only [List.mem_map, List.mem_filter, Option.isNone_iff_eq_none]
      constructor
      · rintro ⟨e, ⟨he, hn⟩, rfl⟩; exact ⟨e, he, hn, rfl⟩
      · rintro ⟨e, he, hn, rfl⟩; exact ⟨e, ⟨he, hn⟩, rfl⟩
    have hgood_notin : ∀ c K rb, rebootBlob cfg fs0 c K = some rb → dirPath cfg c K ∉ ps := by
      intro c K rb h hin
      obtain ⟨⟨K', c'⟩, _, hn, e⟩ := (hps_mem _).mp hin
      have := dirPath_inj e
      simp only at hn this
      rw [← this.1, ← this.2, h] at hn; cases hn
    obtain ⟨hmany1, hmany2⟩ := removeAll_many fs0 o ps fs0 (fun _ _ => rfl) hps_nd
    rw [hcalls1]
    generalize hc1 : ps.flatMap (removeAllPlan fs0 o) = calls1 at *
    have hc1_rm : ∀ c ∈ calls1, Call.removal c = true ∧ ∃ q ∈ ps, c.touched = [q] := by
      intro c hc; rw [← hc1] at hc
      simp only [List.mem_flatMap] at hc
      obtain ⟨q, hq, hc⟩ := hc
      exact ⟨removeAllPlan_removal fs0 o q c hc, q, hq, removeAllPlan_touched fs0 o q c hc⟩
    have hfs1 : GoodFS cfg (applyAll fs0 calls1) := goodFS_applyAll_removal _ F.good (fun c hc => (hc1_rm c hc).1)
    have hfs1_pre : ∀ k q, q ∉ ps → (applyPrefix k calls1 fs0).dir? q = fs0.dir? q := by
      intro k q hq
      apply dir?_applyPrefix_of_not_touched
      intro c hc
      obtain ⟨_, q', hq', ht⟩ := hc1_rm c hc
      rw [ht]; simp only [List.mem_singleton]; intro e; subst e; exact hq hq'
    -- the blob map
    generalize hblobs : insertBlobs (bs.filter (·.evictable)) (insertBlobs (bs.filter (fun b => !b.evictable)) []) = blobs
    have hA : ∀ rb ∈ bs, aget blobs rb.key = some (blobOf rb) := by
      intro rb hrb
      rw [← hblobs]
      by_cases hev : rb.evictable = true
      · exact insertBlobs_mem _ _ rb (List.mem_filter.mpr ⟨hrb, hev⟩)
          (fun rb' h' e => huniq rb hrb rb' (List.mem_filter.mp h').1 e)
      · rw [insertBlobs_notin _ _ _ (fun rb' h' e => hev (by
          rw [← huniq rb hrb rb' (List.mem_filter.mp h').1 e]; exact (List.mem_filter.mp h').2))]
        exact insertBlobs_mem _ _ rb (List.mem_filter.mpr ⟨hrb, by simpa using hev⟩)
          (fun rb' h' e => huniq rb hrb rb' (List.mem_filter.mp h').1 e)
    have hB : ∀ K bl, aget blobs K = some bl → ∃ rb ∈ bs, rb.key = K ∧ bl = blobOf rb := by
      intro K bl h
      rw [← hblobs] at h
      rcases insertBlobs_some _ _ K bl h with ⟨rb, hm, h1, h2⟩ | h'
      · exact ⟨rb, (List.mem_filter.mp hm).1, h1, h2⟩
      · rcases insertBlobs_some _ _ K bl h' with ⟨rb, hm, h1, h2⟩ | h''
        · exact ⟨rb, (List.mem_filter.mp hm).1, h1, h2⟩
        · simp at h''
    have hgm : GoodMem cfg ⟨blobs, orderBy mt ((bs.filter (·.evictable)).map (·.key)), (bs.map (·.size)).sum⟩
        (applyAll fs0 calls1) := by
      refine ⟨?_, ?_, ?_, ?_, ?_⟩
      · rw [← hblobs]; exact insertBlobs_nodup _ _ (insertBlobs_nodup _ _ (by simp [akeys]))
      · intro K bl hK
        obtain ⟨rb, hrb, hk, hbl⟩ := hB K bl hK
        obtain ⟨⟨K', c⟩, he, h⟩ := (hbs_mem rb).mp hrb
        simp only at h
        obtain ⟨hk1, hc1', d, hd, hdat, hban, _, hsz⟩ := rebootBlob_some h
        have hKK : K' = K := by rw [← hk1]; exact hk
        subst hKK
        have hbc : bl.complete = c := by rw [hbl]; exact hc1'
        have hv := hvalid c K' rb h
        refine ⟨hv, ⟨d, ?_, hdat, by rw [hbl]; exact hban, ?_⟩, ?_⟩
        · rw [hbc, hmany1 _ (hgood_notin c K' rb h)]; exact hd
        · intro hcf _
          rw [hbc] at hcf
          obtain ⟨s, hs1, hs2⟩ := hsz hcf
          exact ⟨s, hs1, by rw [hbl]; exact hs2⟩
        · rw [hbc]
          cases hoth : (applyAll fs0 calls1).dir? (dirPath cfg (!c) K') with
          | none => rfl
          | some d' =>
            exfalso
            have h1 : (fs0.dir? (dirPath cfg (!c) K')).isSome = true :=
              isSome_dir?_of_applyAll calls1 fs0 (fun c' hc' => removal_created c' (hc1_rm c' hc').1) _ (by simp [hoth])
            apply F.good.one K' hv
            cases c <;> simp_all
      · intro K hv hK
        have key : ∀ c, (applyAll fs0 calls1).dir? (dirPath cfg c K) = none := by
          intro c
          cases hd : (applyAll fs0 calls1).dir? (dirPath cfg c K) with
          | none => rfl
          | some d =>
            exfalso
            have h0 : (fs0.dir? (dirPath cfg c K)).isSome = true :=
              isSome_dir?_of_applyAll calls1 fs0 (fun c' hc' => removal_created c' (hc1_rm c' hc').1) _ (by simp [hd])
            by_cases hcr : c = true ∨ cfg.reboot = true
            · have hent : (K, c) ∈ es := (hes_mem K c).mpr ⟨mem_rebootKeys_of_dir hv h0, hcr⟩
              cases hrb : rebootBlob cfg fs0 c K with
              | some rb =>
                have hin : rb ∈ bs := (hbs_mem rb).mpr ⟨(K, c), hent, hrb⟩
                have := hA rb hin
                rw [(rebootBlob_some hrb).1, hK] at this; cases this
              | none =>
                have hin : dirPath cfg c K ∈ ps := (hps_mem _).mpr ⟨(K, c), hent, hrb, rfl⟩
                have := hmany2 _ hin (no_children_of_blobdir F.good _ (dirPath_length cfg c K hv))
                rw [this] at hd; cases hd
            · have hc' : c = false := by cases c <;> simp_all
              have hr' : cfg.reboot = false := by cases h : cfg.reboot <;> simp_all
              subst hc'
              rw [F.gone hr' K] at h0; cases h0
        exact ⟨key false, key true⟩
      · apply orderBy_nodup
        have : (bs.filter (·.evictable)).map (·.key) = (es.filterMap (fun e =>
            (rebootBlob cfg fs0 e.2 e.1).filter (·.evictable))).map (·.key) := by
          rw [← hbs, rebootGood, List.filter_filterMap]
        rw [this]
        apply nodup_map_filterMap _ _ _ hes_nd
        intro a ha b hb x y hx hy hxy
        cases hra : rebootBlob cfg fs0 a.2 a.1 with
        | none => simp [hra, Option.filter] at hx
        | some ra =>
          cases hrb : rebootBlob cfg fs0 b.2 b.1 with
          | none => simp [hrb, Option.filter] at hy
          | some rb =>
            simp only [hra, hrb, Option.filter] at hx hy
            split at hx <;> simp at hx
            split at hy <;> simp at hy
            subst hx; subst hy
            have h1 := huniq ra ((hbs_mem ra).mpr ⟨a, ha, hra⟩) rb ((hbs_mem rb).mpr ⟨b, hb, hrb⟩) hxy.symm
            subst h1
            have ea := rebootBlob_some hra
            have eb := rebootBlob_some hrb
            exact Prod.ext (by rw [← ea.1, ← eb.1]) (by rw [← ea.2.1, ← eb.2.1])
      · intro K
        rw [mem_orderBy]
        simp only [List.mem_map, List.mem_filter]
        constructor
        · rintro ⟨rb, ⟨hrb, hev⟩, rfl⟩
          refine ⟨blobOf rb, hA rb hrb, ?_⟩
          simp only [RBlob.evictable, Bool.and_eq_true, Bool.not_eq_eq_eq_not, Bool.not_true] at hev
          exact ⟨hev.1, hev.2⟩
        · rintro ⟨bl, hbl, h1, h2⟩
          obtain ⟨rb, hrb, hk, e⟩ := hB K bl hbl
          refine ⟨rb, ⟨hrb, ?_⟩, hk⟩
          subst e
          simp only [blobOf] at h1 h2
          simp [RBlob.evictable, h1, h2]
    have hsize : rebootSize cfg rm fs = (bs.map (·.size)).sum := by
      simp only [rebootSize, hcalls0, hfs0, hes, hbs]
    by_cases hbig : (bs.map (·.size)).sum > cfg.capacity
    · -- evictions to get within the capacity
      simp only [hbig, if_true]
      obtain ⟨ecs, e1, e2, e3, e4, e5, e6, e7⟩ := evictLoop_spec cfg o 0
        (orderBy mt ((bs.filter (·.evictable)).map (·.key))) blobs ((bs.map (·.size)).sum) (applyAll fs0 calls1) [] hfs1 hgm
      generalize evictLoop cfg o 0 (orderBy mt ((bs.filter (·.evictable)).map (·.key))) blobs ((bs.map (·.size)).sum)
        (applyAll fs0 calls1) [] = ev at *
      simp only [List.nil_append] at e1
      have hallrm : ∀ c ∈ calls0 ++ calls1 ++ ev.calls, Call.removal c = true := by
        intro c hc
        simp only [List.mem_append] at hc
        rcases hc with (hc | hc) | hc
        · exact F.removal c hc
        · exact (hc1_rm c hc).1
        · rw [e1] at hc; exact (e6 c hc).1
      have hfinal : applyAll fs (calls0 ++ calls1 ++ ev.calls) = applyAll (applyAll fs0 calls1) ecs := by
        rw [applyAll_append, applyAll_append, hfs0, e1]
      rcases e4 with hok | hns
      · simp only [hok]
        refine ⟨hallrm, by simp, ?_, fun h => absurd hbig (by rw [← hsize]; omega), fun h => absurd hbig (by rw [← hsize]; omega)⟩
        intro m' hm'
        cases hm'
        rw [hfinal]; exact e3
      · simp only [hns]
        refine ⟨hallrm, by simp, (by intro m' hm'; cases hm'), fun h => absurd hbig (by rw [← hsize]; omega),
          fun h => absurd hbig (by rw [← hsize]; omega)⟩
    · simp only [hbig, if_false]
      have hfinal : applyAll fs (calls0 ++ calls1) = applyAll fs0 calls1 := by rw [applyAll_append, hfs0]
      have hdirs : ∀ c K rb, rebootBlob cfg fs0 c K = some rb → (c = true ∨ cfg.reboot = true) →
          fs0.dir? (dirPath cfg c K) = fs.dir? (dirPath cfg c K) := by
        intro c K rb _ hc
        cases c with
        | true => exact F.comp K
        | false =>
          rcases hc with hc | hc
          · cases hc
          · rw [F.same hc]
      have hblob0 : ∀ c K, (c = true ∨ cfg.reboot = true) → rebootBlob cfg fs0 c K = rebootBlob cfg fs c K := by
        intro c K hc
        apply rebootBlob_congr
        cases c with
        | true => exact F.comp K
        | false =>
          rcases hc with hc | hc
          · cases hc
          · rw [F.same hc]
      refine ⟨?_, by simp, ?_, ?_, ?_⟩
      · intro c hc
        simp only [List.mem_append] at hc
        rcases hc with hc | hc
        · exact F.removal c hc
        · exact (hc1_rm c hc).1
      · intro m' hm'
        cases hm'
        rw [hfinal]; exact hgm
      · intro _
        refine ⟨_, rfl, ?_, ?_⟩
        · intro K hv
          simp only [rebootLookup]
          cases hrt : rebootBlob cfg fs true K with
          | some rb =>
            have h0 : rebootBlob cfg fs0 true K = some rb := by rw [hblob0 true K (Or.inl rfl)]; exact hrt
            have hin : rb ∈ bs := (hbs_mem rb).mpr ⟨(K, true), hentry true K rb h0 (Or.inl rfl), h0⟩
            have := hA rb hin
            rw [(rebootBlob_some h0).1] at this
            exact this
          | none =>
            have hnot : ∀ bl, aget blobs K = some bl → ∃ rb, rebootBlob cfg fs0 false K = some rb ∧ cfg.reboot = true ∧ bl = blobOf rb := by
              intro bl hbl
              obtain ⟨rb, hrb, hk, e⟩ := hB K bl hbl
              obtain ⟨⟨K', c⟩, he, h⟩ := (hbs_mem rb).mp hrb
              simp only at h
              have hKK : K' = K := by rw [← (rebootBlob_some h).1]; exact hk
              subst hKK
              cases c with
              | true => rw [hblob0 true K' (Or.inl rfl), hrt] at h; cases h
              | false =>
                have := ((hes_mem K' false).mp he).2
                rcases this with h' | h'
                · cases h'
                · exact ⟨rb, h, h', e⟩
            by_cases hr : cfg.reboot = true
            · simp only [hr, if_true]
              cases hrf : rebootBlob cfg fs false K with
              | some rb =>
                have h0 : rebootBlob cfg fs0 false K = some rb := by rw [hblob0 false K (Or.inr hr)]; exact hrf
                have hin : rb ∈ bs := (hbs_mem rb).mpr ⟨(K, false), hentry false K rb h0 (Or.inr hr), h0⟩
                have := hA rb hin
                rw [(rebootBlob_some h0).1] at this
                simpa using this
              | none =>
                simp only [Option.map_none]
                cases hbl : aget blobs K with
                | none => rfl
                | some bl =>
                  obtain ⟨rb, h, _, _⟩ := hnot bl hbl
                  rw [hblob0 false K (Or.inr hr), hrf] at h; cases h
            · simp only [hr, Bool.false_eq_true, if_false]
              cases hbl : aget blobs K with
              | none => rfl
              | some bl =>
                obtain ⟨rb, _, h', _⟩ := hnot bl hbl
                exact absurd h' hr
        · intro K bl hbl
          obtain ⟨rb, hrb, hk, e⟩ := hB K bl hbl
          obtain ⟨⟨K', c⟩, he, h⟩ := (hbs_mem rb).mp hrb
          simp only at h
          have hKK : K' = K := by rw [← (rebootBlob_some h).1]; exact hk
          subst hKK
          have hbc : bl.complete = c := by rw [e]; exact (rebootBlob_some h).2.1
          have hcr := ((hes_mem K' c).mp he).2
          rw [hbc, hfinal, hmany1 _ (hgood_notin c K' rb h)]
          exact hdirs c K' rb h hcr
      · intro _ k K c rb hrb hc
        have h0 : rebootBlob cfg fs0 c K = some rb := by rw [hblob0 c K hc]; exact hrb
        rw [applyPrefix_append]
        split
        · cases c with
          | true => exact F.pre k K
          | false =>
            rcases hc with hc | hc
            · cases hc
            · have : calls0 = [] := by rw [← hcalls0]; simp [hc]
              subst this; simp [applyPrefix]
        · rw [hfs0, hfs1_pre _ _ (hgood_notin c K rb h0)]
          exact hdirs c K rb h0 hc

end KrakenModel.DiskCrash
