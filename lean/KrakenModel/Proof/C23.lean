import KrakenModel.Util.LTS
import KrakenModel.Model.Health
/- Helper lemmas for Spec/C23 (core Lean only): the code model refines the documented per-host
   hysteresis automaton. -/
namespace KrakenModel.Proof.C23
open KrakenModel KrakenModel.Health

/-! ### dedup -/

theorem mem_dedup (l : List Host) (a : Host) : a ∈ dedup l ↔ a ∈ l := by
  induction l with
  | nil => simp [dedup]
  | cons b l ih =>
    simp only [dedup]
    split
    · rename_i hc
      have hb : b ∈ l := by simpa using hc
      rw [ih]
      constructor
      · exact List.mem_cons_of_mem _
      · intro h
        rcases List.mem_cons.mp h with rfl | h
        · exact hb
        · exact h
    · simp [ih]

theorem nodup_dedup (l : List Host) : (dedup l).Nodup := by
  induction l with
  | nil => simp [dedup]
  | cons b l ih =>
    simp only [dedup]
    split
    · exact ih
    · rename_i hc
      refine List.nodup_cons.mpr ⟨?_, ih⟩
      rw [mem_dedup]
      simpa using hc

/-! ### find -/

def Keys (s : State) : Prop := (s.map (·.host)).Nodup

instance (s : State) : Decidable (Keys s) := by unfold Keys; exact inferInstance

theorem find_host {s : State} {h : Host} {r : Rec} (hf : find s h = some r) : r.host = h := by
  have := List.find?_some hf
  simpa using this

theorem find_mem {s : State} {h : Host} {r : Rec} (hf : find s h = some r) : r ∈ s :=
  List.mem_of_find?_eq_some hf

theorem find_none_iff (s : State) (h : Host) : find s h = none ↔ ∀ r ∈ s, r.host ≠ h := by
  unfold find
  rw [List.find?_eq_none]
  constructor
  · intro hh r hr; simpa using hh r hr
  · intro hh r hr; simpa using hh r hr

theorem find_of_mem {s : State} (hk : Keys s) {r : Rec} (hr : r ∈ s) : find s r.host = some r := by
  induction s with
  | nil => cases hr
  | cons a s ih =>
    simp only [Keys, List.map_cons, List.nodup_cons] at hk
    rcases List.mem_cons.mp hr with rfl | hm
    · simp [find]
    · have hne : a.host ≠ r.host := by
        intro e
        exact hk.1 (e ▸ List.mem_map.mpr ⟨r, hm, rfl⟩)
      have := ih hk.2 hm
      simp only [find, List.find?_cons] at this ⊢
      have hb : (a.host == r.host) = false := by simpa using hne
      rw [hb]
      exact this

theorem find_beq (l : List Host) (h : Host) (hm : h ∈ l) : l.find? (· == h) = some h := by
  induction l with
  | nil => cases hm
  | cons a l ih =>
    by_cases ha : a = h
    · subst ha; simp
    · have hb : (a == h) = false := by simpa using ha
      rcases List.mem_cons.mp hm with rfl | hm'
      · exact absurd rfl ha
      · simp only [List.find?_cons, hb]; exact ih hm'

theorem find_filter_keep {α} (l : List α) (q r : α → Bool) (hqr : ∀ a, q a = true → r a = true) :
    (l.filter r).find? q = l.find? q := by
  induction l with
  | nil => rfl
  | cons a l ih =>
    by_cases hr : r a
    · by_cases hq : q a <;> simp [List.filter_cons, hr, List.find?_cons, hq, ih]
    · have : q a = false := by
        cases hq : q a with
        | false => rfl
        | true => exact absurd (hqr a hq) hr
      simp [List.filter_cons, hr, List.find?_cons, this, ih]

def fresh (h : Host) : Rec := ⟨h, true, 0⟩

theorem find_sync (s : State) (as : List Host) (h : Host) :
    find (sync s as) h =
      if as.contains h then (match find s h with | some r => some r | none => some (fresh h)) else none := by
  unfold sync
  simp only [find, List.find?_append]
  by_cases hc : as.contains h = true
  · simp only [hc, if_true]
    have h1 : (s.filter fun r => as.contains r.host).find? (fun r => r.host == h) = s.find? (fun r => r.host == h) := by
      apply find_filter_keep
      intro a ha
      have : a.host = h := by simpa using ha
      rw [this]; exact hc
    rw [h1]
    cases hf : s.find? (fun r => r.host == h) with
    | some r => simp
    | none =>
      simp only [Option.none_or]
      rw [List.find?_map]
      have hfun : ((fun r : Rec => r.host == h) ∘ fun a => (⟨a, true, 0⟩ : Rec)) = (· == h) := by
        funext a; rfl
      rw [hfun]
      have hmem : h ∈ as.filter fun a => !(s.any (·.host == a)) := by
        rw [List.mem_filter]
        refine ⟨by simpa using hc, ?_⟩
        have hn := (find_none_iff s h).mp hf
        simp only [Bool.not_eq_true', List.any_eq_false]
        intro r hr
        simpa using hn r hr
      rw [find_beq _ h hmem]
      rfl
  · simp only [hc]
    have hc' : h ∉ as := by simpa using hc
    have h1 : (s.filter fun r => as.contains r.host).find? (fun r => r.host == h) = none := by
      rw [List.find?_eq_none]
      intro r hr hh
      have h1 := (List.mem_filter.mp hr).2
      have h2 : r.host = h := by simpa using hh
      rw [h2] at h1
      exact hc h1
    have h2 : ((as.filter fun a => !(s.any (·.host == a))).map fun a => (⟨a, true, 0⟩ : Rec)).find? (fun r => r.host == h) = none := by
      rw [List.find?_eq_none]
      intro r hr
      obtain ⟨a, ha, rfl⟩ := List.mem_map.mp hr
      have := (List.mem_filter.mp ha).1
      intro hh
      have : a = h := by simpa using hh
      exact hc' (this ▸ (List.mem_filter.mp ha).1)
    rw [h1, h2]
    rfl

/-- one check result on a record -/
def upd (cfg : Config) (ok : Bool) (r : Rec) : Rec := if ok then passedRec cfg r else failedRec cfg r

theorem upd_host (cfg : Config) (ok : Bool) (r : Rec) : (upd cfg ok r).host = r.host := by
  unfold upd passedRec failedRec; split <;> rfl

theorem update_eq (cfg : Config) (s : State) (a : Host) (ok : Bool) :
    update cfg s a ok = s.map fun r => if r.host == a then upd cfg ok r else r := rfl

theorem find_update (cfg : Config) (s : State) (a : Host) (ok : Bool) (h : Host) :
    find (update cfg s a ok) h = (find s h).map fun r => if r.host == a then upd cfg ok r else r := by
  rw [update_eq]
  unfold find
  rw [List.find?_map]
  have : ((fun x : Rec => x.host == h) ∘ fun r => if r.host == a then upd cfg ok r else r) = fun x => x.host == h := by
    funext r
    simp only [Function.comp]
    split
    · rw [upd_host]
    · rfl
  rw [this]

theorem find_fold (cfg : Config) (ok : Host → Bool) (as : List Host) (hn : as.Nodup) (s : State) (h : Host) :
    find (as.foldl (fun s a => update cfg s a (ok a)) s) h =
      if h ∈ as then (find s h).map (upd cfg (ok h)) else find s h := by
  induction as generalizing s with
  | nil => simp
  | cons a as ih =>
    have hn' := List.nodup_cons.mp hn
    simp only [List.foldl_cons]
    rw [ih hn'.2, find_update]
    by_cases ha : h = a
    · subst ha
      simp only [hn'.1, if_false, List.mem_cons, true_or, if_true]
      cases hf : find s h with
      | none => rfl
      | some r => simp [find_host hf]
    · have hmem : (h ∈ a :: as) ↔ h ∈ as := by simp [ha]
      simp only [hmem]
      cases hf : find s h with
      | none => simp
      | some r =>
        have hr := find_host hf
        have hne : r.host ≠ a := by rw [hr]; exact ha
        simp [hne]

theorem keys_sync {s : State} (hk : Keys s) (as : List Host) (hn : as.Nodup) : Keys (sync s as) := by
  unfold Keys sync at *
  simp only [List.map_append, List.map_map]
  rw [List.nodup_append]
  refine ⟨List.Nodup.sublist ((List.filter_sublist).map _) hk, ?_, ?_⟩
  · have : ((fun r : Rec => r.host) ∘ fun a => (⟨a, true, 0⟩ : Rec)) = id := by funext a; rfl
    rw [this, List.map_id]
    exact List.Nodup.sublist List.filter_sublist hn
  · intro a ha b hb
    obtain ⟨r, hr, rfl⟩ := List.mem_map.mp ha
    obtain ⟨x, hx, rfl⟩ := List.mem_map.mp hb
    have hx2 := (List.mem_filter.mp hx).2
    simp only [Function.comp, Bool.not_eq_true', List.any_eq_false] at hx2 ⊢
    have := hx2 r (List.mem_filter.mp hr).1
    simpa using this

theorem keys_update {cfg : Config} {s : State} (hk : Keys s) (a : Host) (ok : Bool) : Keys (update cfg s a ok) := by
  unfold Keys at *
  rw [update_eq, List.map_map]
  have : ((fun r : Rec => r.host) ∘ fun r => if r.host == a then upd cfg ok r else r) = fun r => r.host := by
    funext r
    simp only [Function.comp]
    split
    · rw [upd_host]
    · rfl
  rw [this]; exact hk

theorem keys_fold {cfg : Config} (ok : Host → Bool) (as : List Host) (s : State) (hk : Keys s) :
    Keys (as.foldl (fun s a => update cfg s a (ok a)) s) := by
  induction as generalizing s with
  | nil => exact hk
  | cons a as ih => exact ih _ (keys_update hk a (ok a))

theorem mem_healthyOf {s : State} (hk : Keys s) (h : Host) :
    h ∈ healthyOf s ↔ ∃ r, find s h = some r ∧ r.healthy = true := by
  unfold healthyOf
  simp only [List.mem_map, List.mem_filter]
  constructor
  · rintro ⟨r, ⟨hr, hh⟩, rfl⟩
    exact ⟨r, find_of_mem hk hr, hh⟩
  · rintro ⟨r, hf, hh⟩
    exact ⟨r, ⟨find_mem hf, hh⟩, find_host hf⟩

/-! ### the simulation relation between a host's record and the documented automaton -/

def Rel (cfg : Config) : Option Rec → Sp → Prop
  | none, none => True
  | some r, some (true, k) => r.healthy = true ∧ (k : Int) = max 0 (-r.trend) ∧ (k : Int) < cfg.fails
  | some r, some (false, k) => r.healthy = false ∧ (k : Int) = max 0 r.trend ∧ (k : Int) < cfg.passes
  | _, _ => False

theorem rel_fresh (cfg : Config) (hf : 1 ≤ cfg.fails) (h : Host) : Rel cfg (some (fresh h)) (some (true, 0)) := by
  show (true = true ∧ ((0 : Nat) : Int) = max 0 (-(0 : Int)) ∧ ((0 : Nat) : Int) < cfg.fails)
  refine ⟨rfl, by omega, by omega⟩

theorem rel_check (cfg : Config) (hf : 1 ≤ cfg.fails) (hp : 1 ≤ cfg.passes) (r : Rec) (x : Bool × Nat) (ok : Bool)
    (hr : Rel cfg (some r) (some x)) :
    Rel cfg (some (upd cfg ok r)) (some (spCheck cfg.fails.toNat cfg.passes.toNat x ok)) := by
  obtain ⟨b, k⟩ := x
  cases b <;> cases ok
  · -- unhealthy, failed
    simp only [Rel] at hr
    obtain ⟨h1, h2, h3⟩ := hr
    show Rel cfg (some (failedRec cfg r)) (some (false, 0))
    simp only [Rel, failedRec]
    refine ⟨by simp [h1], by omega, by omega⟩
  · -- unhealthy, passed
    simp only [Rel] at hr
    obtain ⟨h1, h2, h3⟩ := hr
    show Rel cfg (some (passedRec cfg r))
      (some (if k + 1 ≥ cfg.passes.toNat then (true, 0) else (false, k + 1)))
    by_cases hk : k + 1 ≥ cfg.passes.toNat
    · rw [if_pos hk]
      simp only [Rel, passedRec]
      have : min (max (r.trend + 1) 1) cfg.passes = cfg.passes := by omega
      refine ⟨by simp [this], by omega, by omega⟩
    · rw [if_neg hk]
      simp only [Rel, passedRec]
      have : min (max (r.trend + 1) 1) cfg.passes ≠ cfg.passes := by omega
      refine ⟨by simp [this, h1], by omega, by omega⟩
  · -- healthy, failed
    simp only [Rel] at hr
    obtain ⟨h1, h2, h3⟩ := hr
    show Rel cfg (some (failedRec cfg r))
      (some (if k + 1 ≥ cfg.fails.toNat then (false, 0) else (true, k + 1)))
    by_cases hk : k + 1 ≥ cfg.fails.toNat
    · rw [if_pos hk]
      simp only [Rel, failedRec]
      have : max (min (r.trend - 1) (-1)) (-cfg.fails) = -cfg.fails := by omega
      refine ⟨by simp [this, h1], by omega, by omega⟩
    · rw [if_neg hk]
      simp only [Rel, failedRec]
      have : max (min (r.trend - 1) (-1)) (-cfg.fails) ≠ -cfg.fails := by omega
      refine ⟨by simp [this, h1], by omega, by omega⟩
  · -- healthy, passed
    simp only [Rel] at hr
    obtain ⟨h1, h2, h3⟩ := hr
    show Rel cfg (some (passedRec cfg r)) (some (true, 0))
    simp only [Rel, passedRec]
    refine ⟨by simp [h1], by omega, by omega⟩

end KrakenModel.Proof.C23
