import KrakenModel.Util.KV
import KrakenModel.Model.FileCleanup
import KrakenModel.Proof.C10
/-
  Helper lemmas for Spec/C10 (eviction interleavings): no operation other than `persist m true` makes the
  file `m` protected — "`Protected` after ⇒ `Protected` before" for every primitive of Model.FileCleanup.
-/
namespace KrakenModel.Proof.C10.Evict
open KrakenModel KrakenModel.FileCleanup KrakenModel.Proof.C10

/-- `Protected s' m → Protected s m` -/
def NoNew (s s' : State) (m : Name) : Prop := Protected s' m → Protected s m

theorem NoNew.refl (s : State) (m : Name) : NoNew s s m := id
theorem NoNew.trans {a b c : State} {m : Name} (h1 : NoNew a b m) (h2 : NoNew b c m) : NoNew a c m := fun h => h1 (h2 h)
theorem NoNew.of_files {s s' : State} {m : Name} (e : s'.files = s.files) : NoNew s s' m := by
  rintro ⟨f, hf, hp⟩; exact ⟨f, by rw [← e]; exact hf, hp⟩

/-- replacing the file under `k` by one with the same flag (or an unprotected one) protects nothing new -/
theorem noNew_put {s : State} {m k : Name} (v : File)
    (hv : k = m → v.persist = some true → Protected s m) :
    NoNew s { s with files := KV.put s.files k v } m := by
  rintro ⟨f, hf, hp⟩
  by_cases e : m = k
  · subst e
    simp only [KV.get_put_self] at hf
    cases hf
    exact hv rfl hp
  · simp only [KV.get_put_ne _ _ e] at hf
    exact ⟨f, hf, hp⟩

theorem noNew_del {s : State} {m k : Name} : NoNew s { s with files := KV.del s.files k } m := by
  rintro ⟨f, hf, hp⟩
  by_cases e : m = k
  · subst e; simp [KV.get_del_self] at hf
  · simp only [KV.get_del_ne _ e] at hf; exact ⟨f, hf, hp⟩

theorem entryDelete_noNew (s : State) (k m : Name) : NoNew s (entryDelete s k).1 m := by
  unfold entryDelete
  split
  · exact NoNew.refl _ _
  · split
    · exact NoNew.refl _ _
    · exact noNew_del

theorem evict_noNew (s : State) (m : Name) : NoNew s (evictIfNeeded s) m := by
  unfold evictIfNeeded
  split
  · exact NoNew.refl _ _
  · split
    · exact NoNew.refl _ _
    · exact (entryDelete_noNew s _ m).trans (NoNew.of_files rfl)

theorem storeEntry_noNew (s : State) (k m : Name) : NoNew s (storeEntry s k) m := by
  unfold storeEntry
  cases hg : KV.get s.files k with
  | none => exact NoNew.refl _ _
  | some f =>
    cases hl : f.lat with
    | some l => simp only [hl]; exact (NoNew.of_files (s := s) rfl).trans (evict_noNew _ m)
    | none =>
      simp only [hl]
      refine NoNew.trans ?_ (evict_noNew _ m)
      refine (noNew_put (s := s) { f with lat := some (truncSec s.now) } ?_).trans (NoNew.of_files rfl)
      intro e hp; subst e; exact ⟨f, hg, hp⟩

theorem reload_noNew (s : State) (k m : Name) : NoNew s (reload s k).1 m := by
  unfold reload
  split
  · exact NoNew.refl _ _
  · split
    · exact storeEntry_noNew s k m
    · exact NoNew.refl _ _

theorem touch_noNew (s : State) (k m : Name) : NoNew s (touch s k) m := by
  unfold touch
  split
  · exact NoNew.refl _ _
  · split
    · cases hf : KV.get s.files k with
      | none => exact NoNew.of_files rfl
      | some f =>
        simp only
        refine (noNew_put (s := s) { f with lat := some (truncSec s.now) } ?_).trans (NoNew.of_files rfl)
        intro e hp; subst e; exact ⟨f, hf, hp⟩
    · exact NoNew.of_files rfl

theorem peek_noNew (s : State) (k m : Name) : NoNew s (peek s k).1 m := by
  unfold peek
  have := reload_noNew s k m
  cases hrel : reload s k with
  | mk s1 b =>
    rw [hrel] at this
    cases b with
    | false => exact this
    | true => simp only; split
              · exact this.trans (NoNew.of_files rfl)
              · exact this

theorem access_noNew (s : State) (k m : Name) : NoNew s (access s k).1 m := by
  unfold access
  have := reload_noNew s k m
  cases hrel : reload s k with
  | mk s1 b =>
    rw [hrel] at this
    cases b with
    | false => exact this
    | true => simp only; split
              · exact this.trans (touch_noNew s1 k m)
              · exact this

theorem updFile_noNew (s : State) (k m : Name) (g : File → File)
    (hg : k = m → ∀ f, (g f).persist = some true → f.persist = some true) : NoNew s (updFile s k g) m := by
  unfold updFile
  cases hf : KV.get s.files k with
  | none => exact NoNew.refl _ _
  | some f =>
    refine noNew_put (g f) ?_
    intro e hp; subst e; exact ⟨f, hf, hg rfl f hp⟩

theorem viaAccess_noNew (s : State) (k m : Name) (g : File → File)
    (hg : k = m → ∀ f, (g f).persist = some true → f.persist = some true) :
    NoNew s (match access s k with | (s1, .ok) => (updFile s1 k g, Res.ok) | r => r).1 m := by
  have ha := access_noNew s k m
  cases hacc : access s k with
  | mk s1 r =>
    rw [hacc] at ha
    cases r <;> first | exact ha.trans (updFile_noNew s1 k m g hg) | exact ha

theorem delete_noNew (s : State) (k m : Name) : NoNew s (delete s k).1 m := by
  unfold delete
  have := reload_noNew s k m
  cases hrel : reload s k with
  | mk s1 b =>
    rw [hrel] at this
    cases b with
    | false => exact this
    | true =>
      simp only
      split
      · exact this
      · exact this.trans ((entryDelete_noNew s1 k m).trans (NoNew.of_files rfl))

theorem create_noNew (s : State) (k m : Name) (size : Nat) : NoNew s (create s k size).1 m := by
  unfold create
  split
  · exact access_noNew s k m
  · split
    · exact storeEntry_noNew s k m
    · refine NoNew.trans ?_ (evict_noNew _ m)
      unfold createInsert
      refine (noNew_put (s := s) _ ?_).trans (NoNew.of_files rfl)
      intro _ hp; cases hp

theorem ite_noNew {c : Prop} [Decidable c] {s a b : State} {m : Name} (ha : NoNew s a m) (hb : NoNew s b m) :
    NoNew s (if c then a else b) m := by split <;> assumption

theorem ttlVisit_noNew (tti ttl : Int) (thr : Option Nat) (used : Nat) (acc : State × Nat) (k m : Name) :
    NoNew acc.1 (ttlVisit tti ttl thr used acc k).1 m := by
  obtain ⟨s, sc⟩ := acc
  have h1 := peek_noNew s k m
  unfold ttlVisit
  simp only
  cases hpk : peek s k with
  | mk s1 r =>
    rw [hpk] at h1
    cases r with
    | ok =>
      simp only
      cases hf : KV.get s1.files k with
      | none => exact h1
      | some f =>
        simp only
        have h2 := h1.trans (peek_noNew s1 k m)
        exact ite_noNew (h2.trans (delete_noNew _ k m)) h2
    | notExist => exact h1
    | exist => exact h1
    | persisted => exact h1

theorem foldl_noNew {α : Type} (f : State × α → Name → State × α) {m : Name}
    (hf : ∀ acc k, NoNew acc.1 (f acc k).1 m) (l : List Name) : ∀ acc, NoNew acc.1 (l.foldl f acc).1 m := by
  induction l with
  | nil => intro acc; exact NoNew.refl _ _
  | cons k l ih => intro acc; exact (hf acc k).trans (ih _)

theorem cleanupTTL_noNew (s : State) (tti ttl : Int) (p : Nat) (u : Usage) (m : Name) :
    NoNew s (cleanupTTL s tti ttl p u).1 m := by
  unfold cleanupTTL
  exact foldl_noNew _ (fun acc k => ttlVisit_noNew tti ttl _ _ acc k m) _ (s, 0)

theorem gatherVisit_noNew (acc : State × List FInfo × Nat) (k m : Name) : NoNew acc.1 (gatherVisit acc k).1 m := by
  obtain ⟨s, infos, usage⟩ := acc
  have h1 := peek_noNew s k m
  unfold gatherVisit
  simp only
  cases hpk : peek s k with
  | mk s1 r =>
    rw [hpk] at h1
    cases r with
    | ok =>
      simp only
      cases hf : KV.get s1.files k with
      | none => exact h1
      | some f =>
        simp only
        have h2 := h1.trans (peek_noNew s1 k m)
        cases f.lat <;> exact h2
    | notExist => exact h1
    | exist => exact h1
    | persisted => exact h1

theorem policyDelete_noNew (l : List FInfo) (m : Name) : ∀ (s : State) (r : Int), NoNew s (policyDelete s r l) m := by
  induction l with
  | nil => intro s r; exact NoNew.refl _ _
  | cons f l ih =>
    intro s r
    simp only [policyDelete]
    split
    · exact NoNew.refl _ _
    · have hd := delete_noNew s f.name m
      cases hdel : delete s f.name with
      | mk s1 x =>
        rw [hdel] at hd
        cases x <;> exact hd.trans (ih _ _)

theorem cleanupPolicy_noNew (s : State) (p : Nat) (u : Usage) (m : Name) : NoNew s (cleanupPolicy s p u).1 m := by
  unfold cleanupPolicy
  have hg := foldl_noNew (α := List FInfo × Nat) gatherVisit (fun acc k => gatherVisit_noNew acc k m) (listNames s) (s, [], 0)
  generalize (listNames s).foldl gatherVisit (s, [], 0) = r at hg
  obtain ⟨s1, infos, usage⟩ := r
  exact hg.trans (policyDelete_noNew _ m _ _)

/-- only `persist m true` can make `m` protected -/
theorem step_noNew (s : State) (o : Op) (m : Name) (ho : o ≠ .persist m true) : NoNew s (step s o) m := by
  cases o with
  | create k size => exact create_noNew s k m size
  | setMtime k t => exact updFile_noNew s k m _ (fun _ _ h => h)
  | read k => exact access_noNew s k m
  | stat k => exact peek_noNew s k m
  | persist k b =>
    refine viaAccess_noNew s k m _ ?_
    intro e f hp
    subst e
    cases b with
    | true => exact absurd rfl ho
    | false => cases hp
  | unpersist k => exact viaAccess_noNew s k m _ (fun _ _ hp => by cases hp)
  | setLat k t => exact viaAccess_noNew s k m _ (fun _ _ h => h)
  | delete k => exact delete_noNew s k m
  | tick dt => exact NoNew.of_files rfl
  | cleanupTTL tti ttl p u => exact cleanupTTL_noNew s tti ttl p u m
  | cleanupPolicy p u => exact cleanupPolicy_noNew s p u m
  | job interval c util u =>
    simp only [step, jobCleanup]
    have h0 : NoNew s { s with now := s.now + interval } m := NoNew.of_files rfl
    split
    · exact h0.trans (cleanupPolicy_noNew _ _ u m)
    · split
      · exact h0.trans (cleanupTTL_noNew _ _ _ _ u m)
      · exact h0.trans (cleanupTTL_noNew _ _ _ _ u m)

end KrakenModel.Proof.C10.Evict
