import KrakenModel.Proof.FSLemmas
/-
  File-level view of `Util.FS` calls (generic in the file-name type): which files a call can change
  and what it does to them.
-/
set_option linter.unusedSectionVars false
set_option linter.unusedSimpArgs false
namespace KrakenModel.FS
variable {ν : Type} [DecidableEq ν]

/-- the files whose content or existence the call may change (`renameDir` moves whole directories
and is excluded by hypothesis where this is used) -/
def Call.writes : Call ν → List (Path × ν)
  | .creat p n => [(p, n)]
  | .openCreat p n => [(p, n)]
  | .openTrunc p n => [(p, n)]
  | .truncate p n _ => [(p, n)]
  | .pwrite p n _ _ => [(p, n)]
  | .rename p n q m => [(p, n), (q, m)]
  | .unlink p n => [(p, n)]
  | .link _ _ q m => [(q, m)]
  | _ => []

def Call.isRenameDir : Call ν → Bool
  | .renameDir _ _ => true
  | _ => false

theorem file?_setDir_self (fs : FS ν) (p : Path) (d : DirEnt ν) (n : ν) : (fs.setDir p d).file? p n = aget d n := by
  simp [FS.file?]

theorem file?_setDir_ne (fs : FS ν) (p q : Path) (d : DirEnt ν) (n : ν) (h : p ≠ q) :
    (fs.setDir p d).file? q n = fs.file? q n := by
  simp [FS.file?, FS.dir?_setDir_ne _ _ _ _ h]

theorem file?_of_dir? {fs : FS ν} {p : Path} {d : DirEnt ν} (h : fs.dir? p = some d) (n : ν) :
    fs.file? p n = aget d n := by simp [FS.file?, h]

theorem file?_of_dir?_none {fs : FS ν} {p : Path} (h : fs.dir? p = none) (n : ν) : fs.file? p n = none := by
  simp [FS.file?, h]

/-- changing the binding of `n` in directory `p` leaves every other file alone -/
theorem file?_setDir_aset_other (fs : FS ν) (p : Path) (d : DirEnt ν) (hd : fs.dir? p = some d) (n : ν) (v : Bytes)
    (q : Path) (m : ν) (h : (q, m) ≠ (p, n)) : (fs.setDir p (aset d n v)).file? q m = fs.file? q m := by
  by_cases hq : q = p
  · subst hq
    have hm : m ≠ n := fun e => h (by rw [e])
    rw [file?_setDir_self, aget_aset_ne _ _ _ _ (Ne.symm hm), file?_of_dir? hd]
  · exact file?_setDir_ne _ _ _ _ _ (Ne.symm hq)

theorem file?_setDir_adel_other (fs : FS ν) (p : Path) (d : DirEnt ν) (hd : fs.dir? p = some d) (n : ν)
    (q : Path) (m : ν) (h : (q, m) ≠ (p, n)) : (fs.setDir p (adel d n)).file? q m = fs.file? q m := by
  by_cases hq : q = p
  · subst hq
    have hm : m ≠ n := fun e => h (by rw [e])
    rw [file?_setDir_self, aget_adel_ne _ _ _ (Ne.symm hm), file?_of_dir? hd]
  · exact file?_setDir_ne _ _ _ _ _ (Ne.symm hq)

theorem file?_apply_of_not_written (fs : FS ν) (c : Call ν) (q : Path) (m : ν)
    (hr : c.isRenameDir = false) (h : (q, m) ∉ c.writes) : (apply fs c).file? q m = fs.file? q m := by
  unfold apply
  split
  case isFalse => rfl
  case isTrue hok =>
  cases c with
  | mkdir p =>
    simp only [Call.eff]
    by_cases hq : q = p
    · subst hq
      simp only [Call.ok, Bool.and_eq_true, Bool.not_eq_eq_eq_not, Bool.not_true, FS.isDir, Bool.or_eq_false_iff,
        decide_eq_true_eq] at hok
      have hnone : fs.dir? q = none := by
        have := hok.1.2.2
        cases hd : fs.dir? q with
        | none => rfl
        | some d => rw [hd] at this; simp at this
      rw [file?_setDir_self, file?_of_dir?_none hnone]; rfl
    · exact file?_setDir_ne _ _ _ _ _ (Ne.symm hq)
  | creat p n =>
    simp only [Call.writes, List.mem_singleton] at h
    simp only [Call.eff]; split
    · rename_i d hd; exact file?_setDir_aset_other fs p d hd n [] q m h
    · rfl
  | openCreat p n =>
    simp only [Call.writes, List.mem_singleton] at h
    simp only [Call.eff]; split
    · rename_i d hd; split
      · rfl
      · exact file?_setDir_aset_other fs p d hd n [] q m h
    · rfl
  | openTrunc p n =>
    simp only [Call.writes, List.mem_singleton] at h
    simp only [Call.eff]; split
    · rename_i d hd; exact file?_setDir_aset_other fs p d hd n [] q m h
    · rfl
  | truncate p n len =>
    simp only [Call.writes, List.mem_singleton] at h
    simp only [Call.eff]; split
    · rename_i d hd; split
      · exact file?_setDir_aset_other fs p d hd n _ q m h
      · rfl
    · rfl
  | pwrite p n off b =>
    simp only [Call.writes, List.mem_singleton] at h
    simp only [Call.eff]; split
    · rename_i d hd; split
      · exact file?_setDir_aset_other fs p d hd n _ q m h
      · rfl
    · rfl
  | rename p n q' m' =>
    simp only [Call.writes, List.mem_cons, List.not_mem_nil, or_false, not_or] at h
    obtain ⟨h1, h2⟩ := h
    simp only [Call.eff]; split
    · rename_i c hc
      split
      · rename_i hpq
        subst hpq
        split
        · rename_i d hd
          split
          · rfl
          · by_cases hq : q = p
            · subst hq
              have hm1 : m ≠ n := fun e => h1 (by rw [e])
              have hm2 : m ≠ m' := fun e => h2 (by rw [e])
              rw [file?_setDir_self, aget_aset_ne _ _ _ _ (Ne.symm hm2), aget_adel_ne _ _ _ (Ne.symm hm1),
                file?_of_dir? hd]
            · exact file?_setDir_ne _ _ _ _ _ (Ne.symm hq)
        · rfl
      · rename_i hpq
        split
        · rename_i d e hd he
          have he' : (fs.setDir p (adel d n)).dir? q' = some e := by
            rw [FS.dir?_setDir_ne _ _ _ _ hpq]; exact he
          rw [file?_setDir_aset_other _ q' e he' m' c q m h2]
          exact file?_setDir_adel_other fs p d hd n q m h1
        · rfl
    · rfl
  | renameDir p q' => simp [Call.isRenameDir] at hr
  | unlink p n =>
    simp only [Call.writes, List.mem_singleton] at h
    simp only [Call.eff]; split
    · rename_i d hd; exact file?_setDir_adel_other fs p d hd n q m h
    · rfl
  | rmdir p =>
    simp only [Call.eff]
    by_cases hq : q = p
    · subst hq
      simp only [Call.ok] at hok
      split at hok
      · cases hok
      · rename_i d hd
        simp only [Bool.and_eq_true, List.isEmpty_iff] at hok
        rw [file?_of_dir? hd, hok.1]
        simp [FS.file?]
    · simp [FS.file?, FS.dir?_delDir_ne _ _ _ (Ne.symm hq)]
  | link p n q' m' =>
    simp only [Call.writes, List.mem_singleton] at h
    simp only [Call.eff]; split
    · rename_i c e hc he; exact file?_setDir_aset_other fs q' e he m' c q m h
    · rfl

theorem file?_applyAll_of_not_written (cs : List (Call ν)) (fs : FS ν) (q : Path) (m : ν)
    (h : ∀ c ∈ cs, c.isRenameDir = false ∧ (q, m) ∉ c.writes) : (applyAll fs cs).file? q m = fs.file? q m := by
  induction cs generalizing fs with
  | nil => rfl
  | cons c cs ih =>
    rw [applyAll_cons, ih _ (fun c' hc' => h c' (List.mem_cons_of_mem _ hc'))]
    exact file?_apply_of_not_written fs c q m (h c (List.mem_cons_self ..)).1 (h c (List.mem_cons_self ..)).2

theorem file?_applyPrefix_of_not_written (k : Nat) (cs : List (Call ν)) (fs : FS ν) (q : Path) (m : ν)
    (h : ∀ c ∈ cs, c.isRenameDir = false ∧ (q, m) ∉ c.writes) : (applyPrefix k cs fs).file? q m = fs.file? q m :=
  file?_applyAll_of_not_written _ _ _ _ (fun c hc => h c (List.mem_of_mem_take hc))

/-! ### what a call does to the file it names -/

theorem file?_apply_openTrunc (fs : FS ν) (p : Path) (n : ν) :
    (apply fs (Call.openTrunc p n)).file? p n = if (fs.dir? p).isSome then some [] else none := by
  unfold apply
  cases hd : fs.dir? p with
  | none => simp [Call.ok, hd, FS.file?]
  | some d => simp [Call.ok, hd, Call.eff, file?_setDir_self, aget_aset_self]

theorem file?_apply_truncate (fs : FS ν) (p : Path) (n : ν) (len : Nat) :
    (apply fs (Call.truncate p n len)).file? p n = (fs.file? p n).map (truncTo · len) := by
  unfold apply
  cases hd : fs.dir? p with
  | none => simp [Call.ok, FS.file?, hd]
  | some d =>
    cases hf : aget d n with
    | none => simp [Call.ok, FS.file?, hd, hf]
    | some c => simp [Call.ok, FS.file?, hd, hf, Call.eff, FS.dir?_setDir_self, aget_aset_self]

theorem file?_apply_pwrite (fs : FS ν) (p : Path) (n : ν) (off : Nat) (b : Bytes) :
    (apply fs (Call.pwrite p n off b)).file? p n = (fs.file? p n).map (writeAt · off b) := by
  unfold apply
  cases hd : fs.dir? p with
  | none => simp [Call.ok, FS.file?, hd]
  | some d =>
    cases hf : aget d n with
    | none => simp [Call.ok, FS.file?, hd, hf]
    | some c => simp [Call.ok, FS.file?, hd, hf, Call.eff, FS.dir?_setDir_self, aget_aset_self]

theorem file?_apply_unlink (fs : FS ν) (p : Path) (n : ν) : (apply fs (Call.unlink p n)).file? p n = none := by
  unfold apply
  cases hd : fs.dir? p with
  | none => simp [Call.ok, FS.file?, hd]
  | some d =>
    cases hf : aget d n with
    | none => simp [Call.ok, FS.file?, hd, hf]
    | some c => simp [Call.ok, FS.file?, hd, hf, Call.eff, FS.dir?_setDir_self, aget_adel_self]

/-- a rename of a file into another directory -/
theorem file?_apply_rename (fs : FS ν) (p q : Path) (n m : ν) (hpq : p ≠ q) :
    ((apply fs (Call.rename p n q m)).file? q m =
        if (fs.file? p n).isSome ∧ (fs.dir? q).isSome then fs.file? p n else fs.file? q m) ∧
    ((apply fs (Call.rename p n q m)).file? p n =
        if (fs.file? p n).isSome ∧ (fs.dir? q).isSome then none else fs.file? p n) := by
  unfold apply
  cases hd : fs.dir? p with
  | none => simp [Call.ok, FS.file?, hd]
  | some d =>
    cases hf : aget d n with
    | none => simp [Call.ok, FS.file?, hd, hf]
    | some c =>
      cases he : fs.dir? q with
      | none => simp [Call.ok, FS.file?, hd, hf, he]
      | some e =>
        have he' : (fs.setDir p (adel d n)).dir? q = some e := by rw [FS.dir?_setDir_ne _ _ _ _ hpq]; exact he
        simp only [Call.ok, FS.file?, hd, hf, he, Option.isSome_some, Bool.and_self, if_true, Call.eff, hpq, if_false,
          and_self]
        constructor
        · rw [FS.dir?_setDir_self]; simp [aget_aset_self]
        · rw [FS.dir?_setDir_ne _ _ _ _ (Ne.symm hpq), FS.dir?_setDir_self]; simp [aget_adel_self]

end KrakenModel.FS
