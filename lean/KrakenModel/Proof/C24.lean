import KrakenModel.Util.LTS
import KrakenModel.Model.PassiveHealth
/- Helper lemmas for Spec/C24 (core Lean only): per-host invariant relating the code's pruned
   failure list and unhealthy mark to the full failure history. -/
namespace KrakenModel.Proof.C24
open KrakenModel KrakenModel.PassiveHealth

/-! ### list facts -/

theorem dropWhile_eq_filter (now W : Int) : ∀ (l : List Int), l.Pairwise (· ≤ ·) →
    l.dropWhile (fun t => decide (now - t > W)) = l.filter (fun t => decide (now - t ≤ W)) := by
  intro l
  induction l with
  | nil => intro _; rfl
  | cons a l ih =>
    intro h
    have h' := List.pairwise_cons.mp h
    by_cases ha : now - a > W
    · have hq : ¬ (now - a ≤ W) := by omega
      simp only [List.dropWhile_cons, ha, decide_true, if_true, List.filter_cons, hq, decide_false]
      exact ih h'.2
    · have hq : now - a ≤ W := by omega
      simp only [List.dropWhile_cons, ha, decide_false, List.filter_cons, hq, decide_true, if_true]
      have : l.filter (fun t => decide (now - t ≤ W)) = l := by
        rw [List.filter_eq_self]
        intro t ht
        have := h'.1 t ht
        simp only [decide_eq_true_eq]
        omega
      simp [this]

theorem len_filter_mono {α} (l : List α) (p q : α → Bool) (h : ∀ a ∈ l, p a = true → q a = true) :
    (l.filter p).length ≤ (l.filter q).length := by
  induction l with
  | nil => simp
  | cons a l ih =>
    have ih' := ih (fun b hb => h b (List.mem_cons_of_mem _ hb))
    have ha := h a List.mem_cons_self
    simp only [List.filter_cons]
    by_cases hp : p a
    · simp only [hp, ha hp, if_true, List.length_cons]; omega
    · by_cases hq : q a
      · simp only [hp, hq, if_true, List.length_cons]; simp; omega
      · simp only [hp, hq]; simpa using ih'

/-! ### window counts -/

theorem windowCount_append_ge (cfg : Config) (ts : List Int) (x tf : Int) :
    windowCount cfg ts tf ≤ windowCount cfg (ts ++ [x]) tf := by
  simp [windowCount, List.filter_append]

theorem windowCount_append_later (cfg : Config) (ts : List Int) (x tf : Int) (hx : tf < x) :
    windowCount cfg (ts ++ [x]) tf = windowCount cfg ts tf := by
  have : ¬ (x ≤ tf) := by omega
  simp [windowCount, List.filter_append, List.filter_cons, this]

theorem windowCount_now (cfg : Config) (hw : 0 ≤ cfg.failTimeout) (ts : List Int) (now : Int) (hle : ∀ t ∈ ts, t ≤ now) :
    windowCount cfg (ts ++ [now]) now = (ts.filter (fun t => decide (now - t ≤ cfg.failTimeout))).length + 1 := by
  have h1 : (ts.filter fun t => decide (t ≤ now) && decide (now - t ≤ cfg.failTimeout)) =
      ts.filter (fun t => decide (now - t ≤ cfg.failTimeout)) := by
    apply List.filter_congr
    intro t ht
    simp [hle t ht]
  have h2 : now - now ≤ cfg.failTimeout := by omega
  simp [windowCount, List.filter_append, List.filter_cons, h1, hw]

/-! ### the per-host invariant -/

structure HInv (cfg : Config) (now : Int) (ts : List Int) (r : HRec) : Prop where
  sorted : ts.Pairwise (· ≤ ·)
  past : ∀ t ∈ ts, t ≤ now
  fails : (ts = [] ∧ r.failures = []) ∨
    ∃ L, L ∈ ts ∧ (∀ t ∈ ts, t ≤ L) ∧ r.failures = ts.filter (fun t => decide (L - t ≤ cfg.failTimeout))
  marked : ∀ u, r.unhealthy = some u → u ∈ ts ∧ qual cfg ts u = true
  covered : ∀ tf ∈ ts, qual cfg ts tf = true → (∃ u, r.unhealthy = some u ∧ tf ≤ u) ∨ now - tf > cfg.failTimeout

theorem hinv_init (cfg : Config) (now : Int) : HInv cfg now [] {} :=
  ⟨List.Pairwise.nil, (by intro t ht; cases ht), .inl ⟨rfl, rfl⟩, (by intro u hu; simp at hu), (by intro tf htf; cases htf)⟩

theorem hinv_advance {cfg : Config} {now : Int} {ts : List Int} {r : HRec} (h : HInv cfg now ts r) (d : Nat) :
    HInv cfg (now + d) ts r :=
  ⟨h.sorted, fun t ht => by have := h.past t ht; omega, h.fails, h.marked,
   fun tf htf hq => by
     rcases h.covered tf htf hq with hc | hc
     · exact .inl hc
     · exact .inr (by omega)⟩

theorem hinv_expire {cfg : Config} {now : Int} {ts : List Int} {r : HRec} (h : HInv cfg now ts r) :
    HInv cfg now ts (expireRec cfg now r) := by
  refine ⟨h.sorted, h.past, h.fails, ?_, ?_⟩
  · intro u hu
    apply h.marked
    simp only [expireRec] at hu
    cases hr : r.unhealthy with
    | none => simp [hr] at hu
    | some t =>
      simp only [hr] at hu
      split at hu
      · cases hu
      · exact hu
  · intro tf htf hq
    rcases h.covered tf htf hq with ⟨u, hu, hle⟩ | hc
    · by_cases hx : now - u > cfg.failTimeout
      · exact .inr (by omega)
      · exact .inl ⟨u, by simp [expireRec, hu, hx], hle⟩
    · exact .inr hc

/-- the pruned list after `Failed` is the window of the new failure -/
theorem failures_after (cfg : Config) (hw : 0 ≤ cfg.failTimeout) {now : Int} {ts : List Int} {r : HRec}
    (h : HInv cfg now ts r) :
    (failedRec cfg now r).failures = (ts ++ [now]).filter (fun t => decide (now - t ≤ cfg.failTimeout)) := by
  have hnn : now - now ≤ cfg.failTimeout := by omega
  simp only [failedRec, List.filter_append, List.filter_cons, hnn, decide_true, if_true, List.filter_nil]
  congr 1
  rcases h.fails with ⟨h1, h2⟩ | ⟨L, hL, hmax, hf⟩
  · rw [h2, h1]; rfl
  · rw [hf]
    have hs : (ts.filter fun t => decide (L - t ≤ cfg.failTimeout)).Pairwise (· ≤ ·) :=
      List.Pairwise.sublist List.filter_sublist h.sorted
    have := dropWhile_eq_filter now cfg.failTimeout _ hs
    rw [this, List.filter_filter]
    apply List.filter_congr
    intro t _
    have hLn := h.past L hL
    by_cases hx : now - t ≤ cfg.failTimeout
    · have : L - t ≤ cfg.failTimeout := by omega
      simp [hx, this]
    · simp [hx]

theorem hinv_failed {cfg : Config} (hw : 0 ≤ cfg.failTimeout) {now : Int} {ts : List Int} {r : HRec}
    (h : HInv cfg now ts r) : HInv cfg now (ts ++ [now]) (failedRec cfg now r) := by
  have hfa := failures_after cfg hw h
  have hcount : ((failedRec cfg now r).failures.length : Int) = windowCount cfg (ts ++ [now]) now := by
    rw [hfa, windowCount_now cfg hw ts now h.past]
    have hnn : now - now ≤ cfg.failTimeout := by omega
    simp [List.filter_append, List.filter_cons, hw]
  have hmark : (failedRec cfg now r).unhealthy =
      if qual cfg (ts ++ [now]) now = true then some now else r.unhealthy := by
    have : (failedRec cfg now r).unhealthy =
        if ((failedRec cfg now r).failures.length : Int) ≥ cfg.fails then some now else r.unhealthy := rfl
    rw [this, hcount]
    simp only [qual, decide_eq_true_eq]
  refine ⟨?_, ?_, ?_, ?_, ?_⟩
  · rw [List.pairwise_append]
    refine ⟨h.sorted, List.pairwise_singleton _ _, ?_⟩
    intro a ha b hb
    simp at hb; subst hb
    exact h.past a ha
  · intro t ht
    rcases List.mem_append.mp ht with ht | ht
    · exact h.past t ht
    · simp at ht; omega
  · refine .inr ⟨now, by simp, ?_, hfa⟩
    intro t ht
    rcases List.mem_append.mp ht with ht | ht
    · exact h.past t ht
    · simp at ht; omega
  · intro u hu
    rw [hmark] at hu
    by_cases hq : qual cfg (ts ++ [now]) now = true
    · simp only [hq, if_true, Option.some.injEq] at hu
      subst hu
      exact ⟨by simp, hq⟩
    · simp only [hq] at hu
      have := h.marked u hu
      refine ⟨List.mem_append_left _ this.1, ?_⟩
      have hge := windowCount_append_ge cfg ts now u
      have := this.2
      simp only [qual, decide_eq_true_eq] at this ⊢
      omega
  · intro tf htf hq
    rw [hmark]
    by_cases hqn : qual cfg (ts ++ [now]) now = true
    · left
      refine ⟨now, by simp [hqn], ?_⟩
      rcases List.mem_append.mp htf with ht | ht
      · exact h.past tf ht
      · simp at ht; omega
    · have hne : tf ≠ now := fun e => hqn (e ▸ hq)
      have htf' : tf ∈ ts := by
        rcases List.mem_append.mp htf with ht | ht
        · exact ht
        · simp at ht; exact absurd ht hne
      have hlt : tf < now := by have := h.past tf htf'; omega
      have hq' : qual cfg ts tf = true := by
        simp only [qual, windowCount_append_later cfg ts now tf hlt] at hq
        exact hq
      simp only [hqn]
      exact h.covered tf htf' hq'

/-- `Run` filters the host out exactly when the rule says so -/
theorem filtered_iff_rule {cfg : Config} {now : Int} {ts : List Int} {r : HRec} (h : HInv cfg now ts r) :
    filteredRec cfg now r = true ↔
      ts.any (fun tf => decide (now - tf ≤ cfg.failTimeout) && qual cfg ts tf) = true := by
  simp only [filteredRec, List.any_eq_true, Bool.and_eq_true, decide_eq_true_eq]
  constructor
  · intro hf
    cases hr : r.unhealthy with
    | none => simp [hr] at hf
    | some u =>
      simp only [hr, Bool.not_eq_true', decide_eq_false_iff_not] at hf
      have := h.marked u hr
      exact ⟨u, this.1, by omega, this.2⟩
  · rintro ⟨tf, htf, hrecent, hq⟩
    rcases h.covered tf htf hq with ⟨u, hu, hle⟩ | hc
    · simp only [hu, Bool.not_eq_true', decide_eq_false_iff_not]
      omega
    · omega

/-! ### the whole state -/

def GoodState (cfg : Config) (s : State) : Prop := ∀ h, HInv cfg s.now (failTimes s.log h) (s.recs h)

theorem failTimes_append (log : List (Host × Int)) (h' : Host) (t : Int) (h : Host) :
    failTimes (log ++ [(h', t)]) h = if h = h' then failTimes log h ++ [t] else failTimes log h := by
  by_cases hh : h = h'
  · subst hh; simp [failTimes, List.filter_append]
  · have : (h' == h) = false := by simpa using fun e : h' = h => hh e.symm
    simp [failTimes, List.filter_append, List.filter_cons, this, hh]

theorem good_step (cfg : Config) (hw : 0 ≤ cfg.failTimeout) (s : State) (o : Op) (hg : GoodState cfg s) :
    GoodState cfg (step cfg s o) := by
  intro h
  cases o with
  | failed h' =>
    simp only [step, failed, failTimes_append]
    by_cases hh : h = h'
    · subst hh; simp only [if_true]; exact hinv_failed hw (hg h)
    · simp only [hh, if_false]; exact hg h
  | run addrs => simp only [step, runF]; exact hinv_expire (hg h)
  | resolve addrs => simp only [step, resolve, runF]; exact hinv_expire (hg h)
  | advance d => simp only [step]; exact hinv_advance (hg h) d

end KrakenModel.Proof.C24
