import KrakenModel.Model.AgentTorrent
/-
  C03 helper lemmas, part 1: piece arithmetic, `writeAt`, metainfo of a blob.  Core Lean only.
-/
namespace KrakenModel.Proof.C03
open KrakenModel.AgentTorrent

/-! ### piece arithmetic -/

theorem numPieces_bounds (pl len : Nat) (hpl : 0 < pl) :
    len ≤ pl * numPiecesOf pl len ∧ (0 < len → pl * (numPiecesOf pl len - 1) < len ∧ 0 < numPiecesOf pl len) := by
  unfold numPiecesOf
  have h1 := Nat.mul_div_le (len + (pl - 1)) pl
  have h2 := Nat.lt_mul_div_succ (len + (pl - 1)) hpl
  rw [Nat.mul_add, Nat.mul_one] at h2
  refine ⟨by omega, ?_⟩
  intro hl
  have hq : 0 < (len + (pl - 1)) / pl := Nat.div_pos (by omega) hpl
  refine ⟨?_, hq⟩
  have : pl * ((len + (pl - 1)) / pl - 1) = pl * ((len + (pl - 1)) / pl) - pl := by
    rw [Nat.mul_sub, Nat.mul_one]
  omega

/-- every byte offset of the blob lies in a piece with a valid index -/
theorem offset_piece (pl len j : Nat) (hpl : 0 < pl) (hj : j < len) :
    j / pl < numPiecesOf pl len ∧ pl * (j / pl) ≤ j ∧ j < pl * (j / pl) + pl := by
  have h1 := Nat.mul_div_le j pl
  have h2 := Nat.lt_mul_div_succ j hpl
  rw [Nat.mul_add, Nat.mul_one] at h2
  refine ⟨?_, h1, h2⟩
  have hb := (numPieces_bounds pl len hpl).1
  -- pl * (j/pl) ≤ j < len ≤ pl * n  ⇒ j/pl < n
  apply Nat.lt_of_mul_lt_mul_left (a := pl)
  omega

theorem mul_succ_le_of_lt (pl i n : Nat) (h : i < n) : pl * i + pl ≤ pl * n := by
  have : pl * (i + 1) ≤ pl * n := Nat.mul_le_mul_left pl h
  rw [Nat.mul_add, Nat.mul_one] at this
  exact this

theorem length_pieceOf (pl : Nat) (blob : Bytes) (i : Nat) :
    (pieceOf pl blob i).length = min pl (blob.length - pl * i) := by
  simp [pieceOf]

theorem getElem?_pieceOf (pl : Nat) (blob : Bytes) (i j : Nat) :
    (pieceOf pl blob i)[j]? = if j < pl then blob[pl * i + j]? else none := by
  simp [pieceOf, List.getElem?_take, List.getElem?_drop]

/-- `GetPieceLength` of the blob's metainfo is the length of the blob's piece -/
theorem pieceLength_ofBlob (crc : Bytes → Nat) (pl : Nat) (blob : Bytes) (hpl : 0 < pl) (i : Nat)
    (hi : i < numPiecesOf pl blob.length) :
    (MetaInfo.ofBlob crc pl blob).pieceLength (i : Int) = ((pieceOf pl blob i).length : Int) := by
  have hb := numPieces_bounds pl blob.length hpl
  have hlen : 0 < blob.length := by
    rcases Nat.eq_zero_or_pos blob.length with h | h
    · rw [h] at hi; simp [numPiecesOf] at hi
      have : (pl - 1) / pl = 0 := Nat.div_eq_of_lt (by omega)
      omega
    · exact h
  obtain ⟨hb1, hb2, _⟩ := And.intro hb.1 (hb.2 hlen)
  simp only [MetaInfo.pieceLength, MetaInfo.ofBlob, List.length_map, List.length_range, length_pieceOf]
  have hn1 : ¬ ((i : Int) < 0 ∨ (i : Int) ≥ ((numPiecesOf pl blob.length : Nat) : Int)) := by omega
  rw [if_neg hn1]
  by_cases hlast : i + 1 = numPiecesOf pl blob.length
  · have : (i : Int) = ((numPiecesOf pl blob.length : Nat) : Int) - 1 := by omega
    rw [if_pos this]
    have hi' : i = numPiecesOf pl blob.length - 1 := by omega
    have h3 : pl * i < blob.length := by rw [hi']; exact hb2
    have h4 : blob.length ≤ pl * i + pl := by
      have := mul_succ_le_of_lt pl i (numPiecesOf pl blob.length) hi
      have h5 : pl * numPiecesOf pl blob.length = pl * i + pl := by
        rw [← hlast, Nat.mul_add, Nat.mul_one]
      omega
    have h6 : min pl (blob.length - pl * i) = blob.length - pl * i := by omega
    rw [h6]
    have : ((pl * i : Nat) : Int) = (pl : Int) * (i : Int) := by simp
    omega
  · have : ¬ (i : Int) = ((numPiecesOf pl blob.length : Nat) : Int) - 1 := by omega
    rw [if_neg this]
    have h3 : pl * i + pl ≤ pl * (numPiecesOf pl blob.length - 1) :=
      mul_succ_le_of_lt pl i _ (by omega)
    have h6 : min pl (blob.length - pl * i) = pl := by omega
    rw [h6]

theorem numPieces_ofBlob (crc : Bytes → Nat) (pl : Nat) (blob : Bytes) :
    (MetaInfo.ofBlob crc pl blob).sums.length = numPiecesOf pl blob.length := by
  simp [MetaInfo.ofBlob]

theorem sums_ofBlob (crc : Bytes → Nat) (pl : Nat) (blob : Bytes) (i : Nat)
    (hi : i < numPiecesOf pl blob.length) :
    (MetaInfo.ofBlob crc pl blob).sums[i]? = some (crc (pieceOf pl blob i)) := by
  simp [MetaInfo.ofBlob, List.getElem?_map, List.getElem?_range hi]

/-- a valid piece lies inside the blob -/
theorem piece_in_blob (pl : Nat) (blob : Bytes) (hpl : 0 < pl) (i : Nat)
    (hi : i < numPiecesOf pl blob.length) :
    pl * i + (pieceOf pl blob i).length ≤ blob.length ∧ (pieceOf pl blob i).length ≤ pl := by
  rw [length_pieceOf]
  have hb := numPieces_bounds pl blob.length hpl
  have hlen : 0 < blob.length := by
    rcases Nat.eq_zero_or_pos blob.length with h | h
    · rw [h] at hi; simp [numPiecesOf] at hi
      have : (pl - 1) / pl = 0 := Nat.div_eq_of_lt (by omega)
      omega
    · exact h
  have hb2 := (hb.2 hlen).1
  have : pl * i ≤ pl * (numPiecesOf pl blob.length - 1) := Nat.mul_le_mul_left pl (by omega)
  omega

/-! ### writeAt -/

theorem length_writeAt (f : Bytes) (off : Nat) (d : Bytes) (h : off + d.length ≤ f.length) :
    (writeAt f off d).length = f.length := by
  simp [writeAt, List.length_take, List.length_drop]
  omega

theorem getElem?_writeAt (f : Bytes) (off : Nat) (d : Bytes) (h : off + d.length ≤ f.length) (j : Nat) :
    (writeAt f off d)[j]? = if off ≤ j ∧ j < off + d.length then d[j - off]? else f[j]? := by
  have h0 : off - f.length = 0 := by omega
  simp only [writeAt, h0, List.replicate_zero, List.append_nil]
  rw [List.append_assoc, List.getElem?_append]
  have hl : (List.take off f).length = off := by simp [List.length_take]; omega
  rw [hl]
  by_cases h1 : j < off
  · have : ¬ (off ≤ j ∧ j < off + d.length) := by omega
    simp [h1, this]
  · rw [if_neg h1, List.getElem?_append]
    by_cases h2 : j - off < d.length
    · have : off ≤ j ∧ j < off + d.length := by omega
      simp [h2, this]
    · have : ¬ (off ≤ j ∧ j < off + d.length) := by omega
      rw [if_neg h2, if_neg this, List.getElem?_drop]
      congr 1
      omega

theorem getElem?_take_drop (p : Bytes) (w k j : Nat) :
    ((p.drop w).take k)[j]? = if j < k then p[w + j]? else none := by
  simp [List.getElem?_take, List.getElem?_drop]

end KrakenModel.Proof.C03
