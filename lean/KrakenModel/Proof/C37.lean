import KrakenModel.Model.BackendSpec
/-
  Helper lemmas for Spec/C37: association-list store, sortedness of its keys, and the
  token-following pagination loop.
-/
namespace KrakenModel.Proof.C37
open KrakenModel.BackendSpec

variable {Name : Type} [DecidableEq Name]

/-- `lt` is a strict total order -/
structure StrictOrder (lt : Name → Name → Bool) : Prop where
  irrefl : ∀ a, lt a a = false
  trans : ∀ a b c, lt a b = true → lt b c = true → lt a c = true
  tri : ∀ a b, a ≠ b → lt a b = true ∨ lt b a = true

theorem StrictOrder.asymm {lt : Name → Name → Bool} (h : StrictOrder lt) (a b : Name)
    (hab : lt a b = true) : lt b a = false := by
  cases hba : lt b a with
  | false => rfl
  | true => have := h.trans a b a hab hba; rw [h.irrefl] at this; exact absurd this (by simp)

/-! ### the store -/

theorem lookup_put_same (lt : Name → Name → Bool) (s : Store Name) (n : Name) (b : Bytes) :
    lookup (put lt s n b) n = some b := by
  induction s with
  | nil => simp [put, lookup]
  | cons e rest ih =>
    obtain ⟨m, c⟩ := e
    unfold put
    by_cases h1 : n = m
    · simp [h1, lookup]
    · by_cases h2 : lt n m = true
      · simp [h1, h2, lookup]
      · simp [h1, h2, lookup, ih]

theorem lookup_put_other (lt : Name → Name → Bool) (s : Store Name) (n m : Name) (b : Bytes)
    (hne : m ≠ n) : lookup (put lt s n b) m = lookup s m := by
  induction s with
  | nil => simp [put, lookup, hne]
  | cons e rest ih =>
    obtain ⟨k, c⟩ := e
    unfold put
    by_cases h1 : n = k
    · subst h1; simp [lookup, hne]
    · by_cases h2 : lt n k = true
      · simp [h1, h2, lookup, hne]
      · simp [h1, h2, lookup, ih]

theorem lookup_foldl (lt : Name → Name → Bool) (ops : List (Op Name)) (n : Name) :
    ∀ s : Store Name, lookup (ops.foldl (step lt) s) n = ((lastUpload ops n).orElse fun _ => lookup s n) := by
  induction ops with
  | nil => intro s; simp [lastUpload]
  | cons op rest ih =>
    intro s
    simp only [List.foldl_cons, ih]
    cases op with
    | other => simp [lastUpload, step]
    | upload m b =>
      simp only [lastUpload, step]
      cases hl : lastUpload rest n with
      | some b' => simp
      | none =>
        by_cases hnm : n = m
        · subst hnm; simp [lookup_put_same]
        · simp [hnm, lookup_put_other lt s m n b hnm]

theorem lastUpload_none_iff (ops : List (Op Name)) (n : Name) :
    lastUpload ops n = none ↔ ∀ b, Op.upload n b ∉ ops := by
  induction ops with
  | nil => simp [lastUpload]
  | cons op rest ih =>
    cases op with
    | other => simp [lastUpload, ih]
    | upload m b =>
      simp only [lastUpload]
      cases hl : lastUpload rest n with
      | some b' =>
        simp only [reduceCtorEq, false_iff]
        intro hall
        exact absurd (ih.mpr (fun b hb => hall b (List.mem_cons_of_mem _ hb))) (by simp [hl])
      | none =>
        have hrest := ih.mp hl
        by_cases hnm : n = m
        · subst hnm
          simp only [if_true, reduceCtorEq, false_iff]
          intro hall; exact hall b (by simp)
        · simp only [hnm, if_false, true_iff]
          intro b' hmem
          rcases List.mem_cons.mp hmem with h | h
          · injection h with h1 _; exact hnm h1
          · exact hrest b' h

theorem mem_keys_iff_lookup (s : Store Name) (n : Name) : n ∈ keys s ↔ (lookup s n).isSome = true := by
  induction s with
  | nil => simp [keys, lookup]
  | cons e rest ih =>
    obtain ⟨m, c⟩ := e
    by_cases h : n = m
    · simp [keys, lookup, h]
    · have : n ∈ keys rest ↔ (lookup rest n).isSome = true := ih
      simp [keys, lookup, h] at this ⊢
      exact this

/-! ### sorted keys -/

def Sorted (lt : Name → Name → Bool) (l : List Name) : Prop := l.Pairwise (fun a b => lt a b = true)

theorem keys_put_mem (lt : Name → Name → Bool) (s : Store Name) (n : Name) (b : Bytes) (x : Name) :
    x ∈ keys (put lt s n b) ↔ x = n ∨ x ∈ keys s := by
  rw [mem_keys_iff_lookup, mem_keys_iff_lookup]
  by_cases h : x = n
  · subst h; simp [lookup_put_same]
  · simp [lookup_put_other lt s n x b h, h]

theorem put_sorted {lt : Name → Name → Bool} (ho : StrictOrder lt) (s : Store Name) (n : Name) (b : Bytes)
    (hs : Sorted lt (keys s)) : Sorted lt (keys (put lt s n b)) := by
  induction s with
  | nil => simp [put, keys, Sorted]
  | cons e rest ih =>
    obtain ⟨m, c⟩ := e
    have hs' : Sorted lt (m :: keys rest) := hs
    obtain ⟨hm, hrest⟩ := List.pairwise_cons.mp hs'
    unfold put
    by_cases h1 : n = m
    · subst h1; simpa [keys, Sorted] using hs'
    · by_cases h2 : lt n m = true
      · simp only [h1, h2, if_false, if_true]
        show Sorted lt (n :: m :: keys rest)
        refine List.pairwise_cons.mpr ⟨?_, hs'⟩
        intro x hx
        rcases List.mem_cons.mp hx with hx | hx
        · subst hx; exact h2
        · exact ho.trans n m x h2 (hm x hx)
      · simp only [h1, h2, if_false]
        show Sorted lt (m :: keys (put lt rest n b))
        refine List.pairwise_cons.mpr ⟨?_, ih hrest⟩
        intro x hx
        rcases (keys_put_mem lt rest n b x).mp hx with hx | hx
        · subst hx
          rcases ho.tri x m h1 with h | h
          · exact absurd h h2
          · exact h
        · exact hm x hx

theorem run_sorted {lt : Name → Name → Bool} (ho : StrictOrder lt) (ops : List (Op Name)) :
    Sorted lt (keys (run lt ops)) := by
  unfold run
  have : ∀ (s : Store Name), Sorted lt (keys s) → Sorted lt (keys (ops.foldl (step lt) s)) := by
    induction ops with
    | nil => intro s hs; simpa using hs
    | cons op rest ih =>
      intro s hs
      simp only [List.foldl_cons]
      apply ih
      cases op with
      | other => simpa [step] using hs
      | upload n b => exact put_sorted ho s n b hs
  exact this [] (by simp [keys, Sorted])

theorem sorted_nodup {lt : Name → Name → Bool} (ho : StrictOrder lt) (l : List Name) (hs : Sorted lt l) :
    l.Nodup := by
  unfold Sorted at hs
  refine List.Pairwise.imp ?_ hs
  intro a b hab heq
  subst heq
  rw [ho.irrefl] at hab
  exact absurd hab (by simp)

theorem sorted_filter {lt : Name → Name → Bool} (p : Name → Bool) (l : List Name) (hs : Sorted lt l) :
    Sorted lt (l.filter p) := List.Pairwise.filter p hs

/-! ### pagination -/

/-- `tok` is the continuation token after the keys `done` have been handed out -/
def TokFor (done : List Name) (tok : Option Name) : Prop :=
  (done = [] ∧ tok = none) ∨ (done ≠ [] ∧ tok = done.getLast?)

/-- the keys after the token are exactly the keys not handed out yet -/
theorem after_token {lt : Name → Name → Bool} (ho : StrictOrder lt) (done rest : List Name)
    (hs : Sorted lt (done ++ rest)) (tok : Option Name) (ht : TokFor done tok) :
    after lt (done ++ rest) tok = rest := by
  rcases ht with ⟨hd, htok⟩ | ⟨hd, htok⟩
  · subst hd; subst htok; simp [after]
  · obtain ⟨t, hlast⟩ : ∃ t, done.getLast? = some t := by
      cases h : done.getLast? with
      | none => exact absurd (List.getLast?_eq_none_iff.mp h) hd
      | some t => exact ⟨t, rfl⟩
    rw [htok, hlast]
    simp only [after]
    have hmem : t ∈ done := List.mem_of_getLast? hlast
    obtain ⟨hsd, hsr, hcross⟩ := List.pairwise_append.mp hs
    rw [List.filter_append]
    have h1 : done.filter (fun x => lt t x) = [] := by
      rw [List.filter_eq_nil_iff]
      intro x hx
      -- x is before or equal to the last element
      have hxt : x = t ∨ lt x t = true := by
        obtain ⟨pre, hpre⟩ : ∃ pre, done = pre ++ [t] := by
          have := List.getLast?_eq_some_iff.mp hlast
          exact this
        rw [hpre] at hx hsd
        rcases List.mem_append.mp hx with hx | hx
        · right
          exact (List.pairwise_append.mp hsd).2.2 x hx t (by simp)
        · left; simpa using hx
      rcases hxt with h | h
      · subst h; simp [ho.irrefl]
      · simp [ho.asymm x t h]
    have h2 : rest.filter (fun x => lt t x) = rest := by
      rw [List.filter_eq_self]
      intro y hy
      exact hcross t hmem y hy
    rw [h1, h2]; rfl

theorem tokFor_append (done pg : List Name) (hpg : pg ≠ []) : TokFor (done ++ pg) pg.getLast? := by
  right
  refine ⟨by simp [hpg], ?_⟩
  rw [List.getLast?_append]
  cases h : pg.getLast? with
  | none => exact absurd (List.getLast?_eq_none_iff.mp h) hpg
  | some t => simp

/-- one server page from the split `(done, rest)` -/
theorem serverPage_split {lt : Name → Name → Bool} (ho : StrictOrder lt) (done rest : List Name)
    (hs : Sorted lt (done ++ rest)) (tok : Option Name) (ht : TokFor done tok) (m : Nat) :
    serverPage lt (done ++ rest) m tok =
      (rest.take m, if m < rest.length then (rest.take m).getLast? else none) := by
  unfold serverPage
  rw [after_token ho done rest hs tok ht]

/-- the client loop from the split `(done, rest)`: it consumes a prefix of `rest`, hands out its
convertible keys, and either finishes the listing (no token, nothing left) or returns the token of
what it consumed — whatever the stop limit is -/
theorem clientPage_spec {lt : Name → Name → Bool} (ho : StrictOrder lt) (conv : Name → Bool)
    (pageSize cap : Nat) (limit : Option Nat) (hk : 1 ≤ pageSize) (hc : 1 ≤ cap) :
    ∀ (fuel : Nat) (done rest acc : List Name) (tok : Option Name),
      Sorted lt (done ++ rest) → TokFor done tok → rest.length < fuel →
      ∃ j, j ≤ rest.length ∧
        (clientPage lt conv (done ++ rest) pageSize cap limit fuel tok acc).1 = acc ++ (rest.take j).filter conv ∧
        (((clientPage lt conv (done ++ rest) pageSize cap limit fuel tok acc).2 = none ∧ rest.drop j = []) ∨
         (rest.drop j ≠ [] ∧ 1 ≤ j ∧
          TokFor (done ++ rest.take j) (clientPage lt conv (done ++ rest) pageSize cap limit fuel tok acc).2 ∧
          ∃ n, limit = some n ∧ n ≤ (clientPage lt conv (done ++ rest) pageSize cap limit fuel tok acc).1.length)) := by
  intro fuel
  induction fuel with
  | zero => intro done rest acc tok _ _ hf; omega
  | succ fuel ih =>
    intro done rest acc tok hs ht hf
    unfold clientPage
    rw [serverPage_split ho done rest hs tok ht]
    simp only
    have hm : 1 ≤ min pageSize cap := by omega
    generalize hmdef : min pageSize cap = m at hm
    by_cases htr : m < rest.length
    · -- truncated page: `m` keys, more remain
      have hpgl : (rest.take m).length = m := by rw [List.length_take]; omega
      have hpg : rest.take m ≠ [] := by
        intro h
        rw [h] at hpgl
        simp at hpgl
        omega
      simp only [htr, if_true]
      have htok' := tokFor_append done (rest.take m) hpg
      obtain ⟨t, hlast⟩ : ∃ t, (rest.take m).getLast? = some t := by
        cases h : (rest.take m).getLast? with
        | none => exact absurd (List.getLast?_eq_none_iff.mp h) hpg
        | some t => exact ⟨t, rfl⟩
      have cont : ∃ j, j ≤ rest.length ∧
          (clientPage lt conv (done ++ rest) pageSize cap limit fuel (some t) (acc ++ (rest.take m).filter conv)).1
            = acc ++ (rest.take j).filter conv ∧
          (((clientPage lt conv (done ++ rest) pageSize cap limit fuel (some t) (acc ++ (rest.take m).filter conv)).2 = none ∧ rest.drop j = []) ∨
           (rest.drop j ≠ [] ∧ 1 ≤ j ∧
            TokFor (done ++ rest.take j) (clientPage lt conv (done ++ rest) pageSize cap limit fuel (some t) (acc ++ (rest.take m).filter conv)).2 ∧
            ∃ n, limit = some n ∧ n ≤ (clientPage lt conv (done ++ rest) pageSize cap limit fuel (some t) (acc ++ (rest.take m).filter conv)).1.length)) := by
        rw [hlast] at htok'
        have hsplit : done ++ rest = (done ++ rest.take m) ++ rest.drop m := by
          rw [List.append_assoc, List.take_append_drop]
        have hs2 : Sorted lt ((done ++ rest.take m) ++ rest.drop m) := by rw [← hsplit]; exact hs
        have hf2 : (rest.drop m).length < fuel := by simp [List.length_drop]; omega
        obtain ⟨j, hj1, hj2, hj3⟩ := ih (done ++ rest.take m) (rest.drop m) (acc ++ (rest.take m).filter conv) (some t) hs2 htok' hf2
        rw [← hsplit] at hj2 hj3
        refine ⟨m + j, by simp [List.length_drop] at hj1; omega, ?_, ?_⟩
        · rw [hj2, List.append_assoc]
          congr 1
          rw [List.take_add, List.filter_append]
        · have hdd : rest.drop (m + j) = (rest.drop m).drop j := by rw [List.drop_drop]
          rcases hj3 with ⟨h1, h2⟩ | ⟨h1, h2, h3, h4⟩
          · left; exact ⟨h1, by rw [hdd]; exact h2⟩
          · right
            refine ⟨by rw [hdd]; exact h1, by omega, ?_, h4⟩
            rw [List.take_add, ← List.append_assoc]; exact h3
      rw [hlast]
      cases limit with
      | none => simpa using cont
      | some n =>
        simp only
        by_cases hlen : (acc ++ (rest.take m).filter conv).length < n
        · simp only [hlen, decide_true, if_true]; exact cont
        · -- enough names: stop and hand the token back
          simp only [hlen, decide_false, Bool.false_eq_true, if_false]
          refine ⟨m, by omega, rfl, Or.inr ⟨?_, hm, by rw [← hlast]; exact htok', n, rfl, by omega⟩⟩
          intro h
          have := congrArg List.length h
          rw [List.length_drop] at this
          simp at this
          omega
    · -- last server page: everything that was left
      simp only [htr, if_false]
      have hall : rest.take m = rest := List.take_of_length_le (by omega)
      refine ⟨rest.length, Nat.le_refl _, ?_, Or.inl ⟨?_, by simp⟩⟩
      · cases limit with
        | none => simp [hall]
        | some n => simp only; split <;> simp [hall]
      · cases limit with
        | none => simp
        | some n => simp only; split <;> simp

/-- following the tokens from the split `(done, rest)` hands out exactly the convertible keys of
`rest`, in order -/
theorem listAll_spec {lt : Name → Name → Bool} (ho : StrictOrder lt) (conv : Name → Bool) (maxKeys cap : Nat)
    (hk : 1 ≤ maxKeys) (hc : 1 ≤ cap) :
    ∀ (fuel : Nat) (done rest : List Name) (tok : Option Name),
      Sorted lt (done ++ rest) → TokFor done tok → rest.length < fuel →
      (listAll lt conv (done ++ rest) maxKeys cap fuel tok).flatten = rest.filter conv := by
  intro fuel
  induction fuel with
  | zero => intro done rest tok _ _ hf; omega
  | succ fuel ih =>
    intro done rest tok hs ht hf
    unfold listAll
    obtain ⟨j, hj1, hj2, hj3⟩ := clientPage_spec ho conv maxKeys cap (some maxKeys) hk hc ((done ++ rest).length + 1) done rest [] tok hs ht
      (by simp; omega)
    generalize hres : clientPage lt conv (done ++ rest) maxKeys cap (some maxKeys) ((done ++ rest).length + 1) tok [] = res at hj2 hj3
    obtain ⟨pg, next⟩ := res
    simp only [List.nil_append] at hj2
    simp only at hj3 ⊢
    subst hj2
    rcases hj3 with ⟨h1, h2⟩ | ⟨h1, h2, h3, _⟩
    · subst h1
      simp only [List.flatten_cons, List.flatten_nil, List.append_nil]
      have := List.take_append_drop j rest
      rw [h2, List.append_nil] at this
      rw [this]
    · have hjl : (rest.take j).length = j := by rw [List.length_take]; omega
      cases hn : next with
      | none =>
        rw [hn] at h3
        exfalso
        rcases h3 with ⟨hd, _⟩ | ⟨hne, hl⟩
        · have := congrArg List.length hd
          rw [List.length_append, hjl] at this
          simp at this
          omega
        · exact hne (List.getLast?_eq_none_iff.mp hl.symm)
      | some t =>
        rw [hn] at h3
        simp only [List.flatten_cons]
        have hsplit : done ++ rest = (done ++ rest.take j) ++ rest.drop j := by
          rw [List.append_assoc, List.take_append_drop]
        have hs2 : Sorted lt ((done ++ rest.take j) ++ rest.drop j) := by rw [← hsplit]; exact hs
        have hf2 : (rest.drop j).length < fuel := by simp [List.length_drop]; omega
        have := ih (done ++ rest.take j) (rest.drop j) (some t) hs2 h3 hf2
        rw [← hsplit] at this
        rw [this, ← List.filter_append, List.take_append_drop]

end KrakenModel.Proof.C37
