import KrakenModel.Model.PathModel
/- Helper lemmas for Spec/C11: split/join inverses, the Clean stack machine, fixed points of Clean. Core only. -/
namespace KrakenModel.Proof.C11
open KrakenModel.PathModel

def NoSlash (c : Str) : Prop := '/' ∉ c
def Normal (c : Str) : Prop := c ≠ [] ∧ c ≠ dot ∧ c ≠ dotdot
/-- a component that Clean keeps as it is -/
def Plain (c : Str) : Prop := Normal c ∧ NoSlash c

theorem splitSlash_ne_nil (s : Str) : splitSlash s ≠ [] := by
  cases s with
  | nil => simp [splitSlash]
  | cons c cs =>
    simp only [splitSlash]
    split
    · simp
    · split <;> simp

theorem splitSlash_cons_ne (c : Char) (cs : Str) (h : c ≠ '/') :
    ∃ hd tl, splitSlash cs = hd :: tl ∧ splitSlash (c :: cs) = (c :: hd) :: tl := by
  cases hs : splitSlash cs with
  | nil => exact absurd hs (splitSlash_ne_nil cs)
  | cons hd tl => exact ⟨hd, tl, rfl, by simp [splitSlash, h, hs]⟩

theorem splitSlash_noslash (s : Str) : ∀ c ∈ splitSlash s, NoSlash c := by
  induction s with
  | nil => intro c hc; simp [splitSlash] at hc; subst hc; simp [NoSlash]
  | cons x xs ih =>
    intro c hc
    by_cases hx : x = '/'
    · simp only [splitSlash, hx, if_true] at hc
      rcases List.mem_cons.mp hc with h | h
      · subst h; simp [NoSlash]
      · exact ih c h
    · obtain ⟨hd, tl, h1, h2⟩ := splitSlash_cons_ne x xs hx
      rw [h2] at hc
      rcases List.mem_cons.mp hc with h | h
      · subst h
        have := ih hd (by rw [h1]; simp)
        unfold NoSlash at *
        intro hm
        rcases List.mem_cons.mp hm with e | e
        · exact hx e.symm
        · exact this e
      · exact ih c (by rw [h1]; exact List.mem_cons_of_mem _ h)

theorem joinSlash_cons_cons (c : Char) (h : Str) (t : List Str) :
    joinSlash ((c :: h) :: t) = c :: joinSlash (h :: t) := by
  cases t <;> simp [joinSlash]

theorem joinSlash_splitSlash (s : Str) : joinSlash (splitSlash s) = s := by
  induction s with
  | nil => simp [splitSlash, joinSlash]
  | cons x xs ih =>
    by_cases hx : x = '/'
    · simp only [splitSlash, hx, if_true]
      cases hs : splitSlash xs with
      | nil => exact absurd hs (splitSlash_ne_nil xs)
      | cons b t => rw [hs] at ih; simp [joinSlash, ih]
    · obtain ⟨hd, tl, h1, h2⟩ := splitSlash_cons_ne x xs hx
      rw [h2, joinSlash_cons_cons, ← h1, ih]

theorem splitSlash_append (a b : Str) : splitSlash (a ++ '/' :: b) = splitSlash a ++ splitSlash b := by
  induction a with
  | nil => simp [splitSlash]
  | cons x xs ih =>
    by_cases hx : x = '/'
    · simp [splitSlash, hx, ih]
    · obtain ⟨hd, tl, h1, h2⟩ := splitSlash_cons_ne x xs hx
      obtain ⟨hd', tl', h1', h2'⟩ := splitSlash_cons_ne x (xs ++ '/' :: b) hx
      rw [List.cons_append, h2', h2]
      rw [ih, h1] at h1'
      simp only [List.cons_append, List.cons.injEq] at h1'
      rw [← h1'.1, ← h1'.2]; rfl

theorem splitSlash_single (c : Str) (h : NoSlash c) : splitSlash c = [c] := by
  induction c with
  | nil => simp [splitSlash]
  | cons x xs ih =>
    have hx : x ≠ '/' := fun e => h (by simp [e])
    have hxs : NoSlash xs := fun e => h (List.mem_cons_of_mem _ e)
    obtain ⟨hd, tl, h1, h2⟩ := splitSlash_cons_ne x xs hx
    rw [ih hxs] at h1
    simp only [List.cons.injEq] at h1
    rw [h2, ← h1.1, ← h1.2]

theorem splitSlash_joinSlash (cs : List Str) (hne : cs ≠ []) (hn : ∀ c ∈ cs, NoSlash c) :
    splitSlash (joinSlash cs) = cs := by
  induction cs with
  | nil => exact absurd rfl hne
  | cons a t ih =>
    cases t with
    | nil => simpa [joinSlash] using splitSlash_single a (hn a (by simp))
    | cons b t' =>
      simp only [joinSlash]
      rw [splitSlash_append, splitSlash_single a (hn a (by simp)),
        ih (by simp) (fun c hc => hn c (List.mem_cons_of_mem _ hc))]
      rfl

theorem joinSlash_append (cs1 cs2 : List Str) (h1 : cs1 ≠ []) (h2 : cs2 ≠ []) :
    joinSlash (cs1 ++ cs2) = joinSlash cs1 ++ '/' :: joinSlash cs2 := by
  induction cs1 with
  | nil => exact absurd rfl h1
  | cons a t ih =>
    cases t with
    | nil =>
      cases cs2 with
      | nil => exact absurd rfl h2
      | cons b t2 => simp [joinSlash]
    | cons b t' =>
      have := ih (by simp)
      simp only [List.cons_append, joinSlash] at this ⊢
      rw [this]; simp

/-! ### the stack machine -/

theorem push_plain (r : Bool) (st : List Str) (c : Str) (h : Normal c) : pushComp r st c = c :: st := by
  unfold pushComp
  simp [h.1, h.2.1, h.2.2]

theorem foldl_push_plain (r : Bool) (cs : List Str) (h : ∀ c ∈ cs, Normal c) :
    ∀ st, cs.foldl (pushComp r) st = cs.reverse ++ st := by
  induction cs with
  | nil => intro st; simp
  | cons a t ih =>
    intro st
    simp only [List.foldl_cons, push_plain r st a (h a (by simp)),
      ih (fun c hc => h c (List.mem_cons_of_mem _ hc)), List.reverse_cons, List.append_assoc]
    simp

/-- shape of Clean's stack (top first): normal components on top of a run of ".." (none when rooted) -/
def GoodStack (rooted : Bool) : List Str → Prop
  | [] => True
  | c :: rest => (Normal c ∧ GoodStack rooted rest) ∨ (c = dotdot ∧ rooted = false ∧ ∀ x ∈ rest, x = dotdot)

theorem dotdot_not_normal : ¬ Normal dotdot := fun h => h.2.2 rfl

theorem push_good (r : Bool) (st : List Str) (c : Str) (h : GoodStack r st) : GoodStack r (pushComp r st c) := by
  unfold pushComp
  split
  · exact h
  · rename_i h1
    split
    · rename_i hdd
      cases st with
      | nil =>
        cases r with
        | true => simp [GoodStack]
        | false => simp [GoodStack]
      | cons top rest =>
        simp only []
        split
        · rename_i htop
          subst htop
          rcases h with ⟨hn, _⟩ | ⟨_, hr, hall⟩
          · exact absurd hn dotdot_not_normal
          · exact Or.inr ⟨rfl, hr, fun x hx => by
              rcases List.mem_cons.mp hx with e | e
              · exact e
              · exact hall x e⟩
        · rename_i htop
          rcases h with ⟨_, hg⟩ | ⟨e, _, _⟩
          · exact hg
          · exact absurd e htop
    · rename_i hdd
      have hn : Normal c := ⟨fun e => h1 (Or.inl e), fun e => h1 (Or.inr e), hdd⟩
      exact Or.inl ⟨hn, h⟩

theorem foldl_good (r : Bool) (cs : List Str) : ∀ st, GoodStack r st → GoodStack r (cs.foldl (pushComp r) st) := by
  induction cs with
  | nil => intro st h; exact h
  | cons a t ih => intro st h; exact ih _ (push_good r st a h)

theorem push_mem (r : Bool) (st : List Str) (c x : Str) (hx : x ∈ pushComp r st c) : x ∈ st ∨ x = c := by
  unfold pushComp at hx
  split at hx
  · exact Or.inl hx
  · split at hx
    · rename_i hdd
      cases st with
      | nil =>
        cases r with
        | true => simp at hx
        | false => simp at hx; exact Or.inr (by rw [hx, hdd])
      | cons top rest =>
        simp only [] at hx
        split at hx
        · rcases List.mem_cons.mp hx with e | e
          · exact Or.inr (by rw [e, hdd])
          · exact Or.inl e
        · exact Or.inl (List.mem_cons_of_mem _ hx)
    · rcases List.mem_cons.mp hx with e | e
      · exact Or.inr e
      · exact Or.inl e

theorem foldl_mem (r : Bool) (cs : List Str) :
    ∀ st x, x ∈ cs.foldl (pushComp r) st → x ∈ st ∨ x ∈ cs := by
  induction cs with
  | nil => intro st x hx; exact Or.inl hx
  | cons a t ih =>
    intro st x hx
    rcases ih _ x hx with h | h
    · rcases push_mem r st a x h with h' | h'
      · exact Or.inl h'
      · exact Or.inr (by simp [h'])
    · exact Or.inr (List.mem_cons_of_mem _ h)

theorem good_true_all_normal (st : List Str) (h : GoodStack true st) : ∀ c ∈ st, Normal c := by
  induction st with
  | nil => intro c hc; cases hc
  | cons a t ih =>
    intro c hc
    rcases h with ⟨hn, hg⟩ | ⟨_, hr, _⟩
    · rcases List.mem_cons.mp hc with e | e
      · rw [e]; exact hn
      · exact ih hg c e
    · cases hr

theorem good_bottom_all_normal (r : Bool) (st : List Str) (h : GoodStack r st)
    (hb : st.getLast? ≠ some dotdot) : ∀ c ∈ st, Normal c := by
  induction st with
  | nil => intro c hc; cases hc
  | cons a t ih =>
    intro c hc
    rcases h with ⟨hn, hg⟩ | ⟨ha, _, hall⟩
    · rcases List.mem_cons.mp hc with e | e
      · rw [e]; exact hn
      · cases t with
        | nil => cases e
        | cons b t' =>
          exact ih hg (by simpa [List.getLast?_cons_cons] using hb) c e
    · exfalso
      apply hb
      cases t with
      | nil => simp [ha]
      | cons b t' =>
        rw [List.getLast?_cons_cons]
        have hm : (b :: t').getLast? = some ((b :: t').getLast (by simp)) := List.getLast?_eq_some_getLast (by simp)
        rw [hm, hall _ (List.getLast_mem _)]

/-- the resolved components of any path are plain when the path is rooted -/
theorem compsOf_true_plain (p : Str) : ∀ c ∈ compsOf true p, Plain c := by
  intro c hc
  unfold compsOf at hc
  have hc' := List.mem_reverse.mp hc
  refine ⟨good_true_all_normal _ (foldl_good true _ [] trivial) c hc', ?_⟩
  rcases foldl_mem true _ [] c hc' with h | h
  · cases h
  · exact splitSlash_noslash p c h

/-- resolving a rooted string built from plain components gives those components back -/
theorem compsOf_root_join (cs : List Str) (h : ∀ c ∈ cs, Plain c) :
    compsOf true ('/' :: joinSlash cs) = cs := by
  unfold compsOf
  cases cs with
  | nil => simp [joinSlash, splitSlash, pushComp]
  | cons a t =>
    have hs : splitSlash ('/' :: joinSlash (a :: t)) = [] :: (a :: t) := by
      simp only [splitSlash, if_true]
      rw [splitSlash_joinSlash (a :: t) (by simp) (fun c hc => (h c hc).2)]
    rw [hs, List.foldl_cons]
    have : pushComp true [] [] = [] := by simp [pushComp]
    rw [this, foldl_push_plain true (a :: t) (fun c hc => (h c hc).1)]
    simp

theorem joinSlash_ne_nil (cs : List Str) (hne : cs ≠ []) (h : ∀ c ∈ cs, Normal c) : joinSlash cs ≠ [] := by
  cases cs with
  | nil => exact absurd rfl hne
  | cons a t =>
    have ha := (h a (by simp)).1
    cases t with
    | nil => simpa [joinSlash] using ha
    | cons b t' => simp [joinSlash, ha]

theorem joinSlash_head (cs : List Str) (hne : cs ≠ []) (h : ∀ c ∈ cs, Plain c) :
    isRooted (joinSlash cs) = false := by
  cases cs with
  | nil => exact absurd rfl hne
  | cons a t =>
    have hp := h a (by simp)
    cases a with
    | nil => exact absurd rfl hp.1.1
    | cons x xs =>
      have hx : x ≠ '/' := fun e => hp.2 (by simp [e])
      cases t with
      | nil => simp [joinSlash, isRooted, hx]
      | cons b t' => simp [joinSlash, isRooted, hx]

/-- Clean leaves a relative path made of plain components alone -/
theorem clean_join_plain (cs : List Str) (hne : cs ≠ []) (h : ∀ c ∈ cs, Plain c) :
    clean (joinSlash cs) = joinSlash cs := by
  unfold clean
  have hr := joinSlash_head cs hne h
  have hc : compsOf false (joinSlash cs) = cs := by
    unfold compsOf
    rw [splitSlash_joinSlash cs hne (fun c hc => (h c hc).2),
      foldl_push_plain false cs (fun c hc => (h c hc).1)]
    simp
  simp only [hr, hc]
  cases cs with
  | nil => exact absurd rfl hne
  | cons a t => simp

/-- `filepath.Join` of relative paths made of plain components concatenates the components -/
theorem join2_plain (cs1 cs2 : List Str) (h1 : cs1 ≠ []) (h2 : cs2 ≠ [])
    (p1 : ∀ c ∈ cs1, Plain c) (p2 : ∀ c ∈ cs2, Plain c) :
    join [joinSlash cs1, joinSlash cs2] = joinSlash (cs1 ++ cs2) := by
  have n1 := joinSlash_ne_nil cs1 h1 (fun c hc => (p1 c hc).1)
  have n2 := joinSlash_ne_nil cs2 h2 (fun c hc => (p2 c hc).1)
  unfold join
  have e1 : (joinSlash cs1).isEmpty = false := by cases hj : joinSlash cs1 <;> simp_all
  have e2 : (joinSlash cs2).isEmpty = false := by cases hj : joinSlash cs2 <;> simp_all
  simp only [List.filter, e1, e2, Bool.not_false, List.isEmpty_cons, Bool.false_eq_true, if_false]
  simp only [joinSlash]
  rw [← joinSlash_append cs1 cs2 h1 h2]
  exact clean_join_plain _ (by simp [h1]) (fun c hc => by
    rcases List.mem_append.mp hc with e | e
    · exact p1 c e
    · exact p2 c e)

/-- joining an absolute directory with a relative path of plain components: the directory's
    resolved components followed by the new ones -/
theorem join_root_plain (dir : Str) (cs : List Str) (hd : isRooted dir = true) (hne : cs ≠ [])
    (p : ∀ c ∈ cs, Plain c) :
    join [dir, joinSlash cs] = '/' :: joinSlash (compsOf true dir ++ cs) := by
  have n2 := joinSlash_ne_nil cs hne (fun c hc => (p c hc).1)
  have nd : dir ≠ [] := by intro e; rw [e] at hd; simp [isRooted] at hd
  unfold join
  have e1 : dir.isEmpty = false := by cases dir <;> simp_all
  have e2 : (joinSlash cs).isEmpty = false := by cases hj : joinSlash cs <;> simp_all
  simp only [List.filter, e1, e2, Bool.not_false, List.isEmpty_cons, Bool.false_eq_true, if_false]
  simp only [joinSlash]
  unfold clean
  have hr : isRooted (dir ++ '/' :: joinSlash cs) = true := by
    cases dir with
    | nil => exact absurd rfl nd
    | cons x xs => simpa [isRooted] using hd
  have hc : compsOf true (dir ++ '/' :: joinSlash cs) = compsOf true dir ++ cs := by
    unfold compsOf
    rw [splitSlash_append, List.foldl_append, splitSlash_joinSlash cs hne (fun c hc => (p c hc).2),
      foldl_push_plain true cs (fun c hc => (p c hc).1)]
    simp
  simp only [hr, hc, if_true]

theorem joinSlash_dotdot_head (t : List Str) :
    joinSlash (dotdot :: t) = dotdot ∨ hasPrefix ['.', '.', '/'] (joinSlash (dotdot :: t)) = true := by
  cases t with
  | nil => left; rfl
  | cons b t' => right; simp [joinSlash, hasPrefix, dotdot]

/-- **fixed points of Clean accepted by the (repaired) name check**: such a name is exactly the
    '/'-join of a non-empty list of plain components -/
theorem nameOK_components (name : Str) (h : localNameOK name = true) :
    ∃ cs, cs ≠ [] ∧ (∀ c ∈ cs, Plain c) ∧ name = joinSlash cs := by
  unfold localNameOK at h
  simp only [Bool.and_eq_true, beq_iff_eq, Bool.not_eq_true', Bool.or_eq_false_iff] at h
  obtain ⟨hclean, ⟨⟨⟨⟨hdot, hdd⟩, hroot⟩, _⟩, hpre⟩⟩ := h
  have hr : isRooted name = false := by
    cases name with
    | nil => rfl
    | cons x xs =>
      cases hx : decide (x = '/') with
      | true =>
        have : x = '/' := by simpa using hx
        subst this
        simp [hasPrefix] at hroot
      | false =>
        have : x ≠ '/' := by simpa using hx
        simp [isRooted, this]
  have hg : GoodStack false ((splitSlash name).foldl (pushComp false) []) := foldl_good false _ [] trivial
  have hns : ∀ c ∈ compsOf false name, NoSlash c := by
    intro c hc
    unfold compsOf at hc
    rcases foldl_mem false _ [] c (List.mem_reverse.mp hc) with e | e
    · cases e
    · exact splitSlash_noslash name c e
  unfold clean at hclean
  simp only [hr, Bool.false_eq_true, if_false] at hclean
  cases hcs : compsOf false name with
  | nil =>
    rw [hcs] at hclean
    simp at hclean
    rw [hclean] at hdot
    simp [dot] at hdot
  | cons a t =>
    rw [hcs] at hclean
    simp only [List.isEmpty_cons, Bool.false_eq_true, if_false] at hclean
    refine ⟨a :: t, by simp, ?_, hclean⟩
    have hbottom : ((splitSlash name).foldl (pushComp false) []).getLast? ≠ some dotdot := by
      intro e
      have hh : (compsOf false name).head? = some dotdot := by
        unfold compsOf; rw [List.head?_reverse]; exact e
      rw [hcs] at hh
      simp only [List.head?_cons, Option.some.injEq] at hh
      subst hh
      rcases joinSlash_dotdot_head t with e1 | e1
      · rw [← hclean] at e1; rw [e1] at hdd; simp at hdd
      · rw [← hclean] at e1; rw [e1] at hpre; cases hpre
    intro c hc
    have hc' : c ∈ (splitSlash name).foldl (pushComp false) [] := by
      have : c ∈ compsOf false name := by rw [hcs]; exact hc
      unfold compsOf at this
      exact List.mem_reverse.mp this
    exact ⟨good_bottom_all_normal false _ hg hbottom c hc', hns c (by rw [hcs]; exact hc)⟩

end KrakenModel.Proof.C11
