import KrakenModel.Model.AgentCrash
import KrakenModel.Proof.FSFile
/-
  C04 proof library, part 1: bytes (pwrite), `MkdirAll` (generic in the file names), pieces.
-/
set_option linter.unusedSectionVars false
set_option linter.unusedSimpArgs false
namespace KrakenModel.FS
variable {ν : Type} [DecidableEq ν]

/-! ### pwrite on bytes -/

theorem length_writeAt (old : Bytes) (off : Nat) (b : Bytes) :
    (writeAt old off b).length = max old.length (off + b.length) := by
  simp only [writeAt, List.length_append, List.length_take, List.length_drop, List.length_replicate]
  omega

theorem getElem?_writeAt_out (old : Bytes) (off : Nat) (b : Bytes) (j : Nat) (hj : j < old.length)
    (h : j < off ∨ off + b.length ≤ j) : (writeAt old off b)[j]? = old[j]? := by
  simp only [writeAt]
  rcases h with h | h
  · rw [List.append_assoc, List.getElem?_append_left (by simp; omega), List.getElem?_take_of_lt h,
      List.getElem?_append_left hj]
  · rw [List.getElem?_append_right (by simp; omega)]
    simp only [List.length_append, List.length_take, List.length_replicate, List.getElem?_drop]
    have e1 : min off (old.length + (off - old.length)) = off := by omega
    rw [e1]
    have e2 : off + b.length + (j - (off + b.length)) = j := by omega
    rw [e2, List.getElem?_append_left hj]

theorem getElem?_writeAt_in (old : Bytes) (off : Nat) (b : Bytes) (j : Nat) (h1 : off ≤ j) (h2 : j < off + b.length) :
    (writeAt old off b)[j]? = b[j - off]? := by
  simp only [writeAt]
  have hl : (List.take off (old ++ List.replicate (off - old.length) 0)).length = off := by
    simp only [List.length_take, List.length_append, List.length_replicate]; omega
  rw [List.append_assoc, List.getElem?_append_right (by omega), hl, List.getElem?_append_left (by omega)]

theorem length_truncTo (old : Bytes) (len : Nat) : (truncTo old len).length = len := by
  simp only [truncTo, List.length_take, List.length_append, List.length_replicate]; omega

/-! ### MkdirAll, for any file-name type -/

theorem mkdirAllAux_mem' (fs : FS ν) (pre rest : Path) :
    ∀ c ∈ mkdirAllAux fs pre rest, ∃ q, c = Call.mkdir q := by
  induction rest generalizing pre with
  | nil => simp [mkdirAllAux]
  | cons x rest ih =>
    intro c hc
    simp only [mkdirAllAux, List.mem_append] at hc
    rcases hc with hc | hc
    · split at hc
      · simp at hc
      · simp only [List.mem_singleton] at hc; exact ⟨_, hc⟩
    · exact ih _ c hc

theorem mkdirAllPlan_mkdirs' (fs : FS ν) (p : Path) : ∀ c ∈ mkdirAllPlan fs p, ∃ q, c = Call.mkdir q :=
  mkdirAllAux_mem' fs [] p

theorem mkdirAllPlan_nowrite (fs : FS ν) (p : Path) :
    ∀ c ∈ mkdirAllPlan fs p, c.isRenameDir = false ∧ c.writes = [] := by
  intro c hc
  obtain ⟨q, rfl⟩ := mkdirAllPlan_mkdirs' fs p c hc
  exact ⟨rfl, rfl⟩

theorem isDir_apply_mkdir_other' (fs : FS ν) (p q : Path) (h : q ≠ p) :
    (apply fs (Call.mkdir p)).isDir q = fs.isDir q := by
  simp only [FS.isDir]
  rw [dir?_apply_of_not_touched _ _ _ (by simpa [Call.touched] using h)]

theorem isDir_mkdirAllAux' (rest : Path) (fs cur : FS ν) (pre : Path)
    (hpre : cur.isDir pre = true)
    (hagree : ∀ q, pre.length < q.length → cur.isDir q = fs.isDir q) :
    (applyAll cur (mkdirAllAux fs pre rest)).isDir (pre ++ rest) = true := by
  induction rest generalizing cur pre with
  | nil => simp [mkdirAllAux, hpre]
  | cons x rest ih =>
    simp only [mkdirAllAux, applyAll_append]
    by_cases hx : fs.isDir (pre ++ [x]) = true
    · simp only [hx, if_true, applyAll_nil]
      have hcur : cur.isDir (pre ++ [x]) = true := by rw [hagree _ (by simp)]; exact hx
      have := ih cur (pre ++ [x]) hcur (fun q hq => hagree q (by simp at hq; omega))
      simpa using this
    · simp only [hx, if_false, applyAll_cons, applyAll_nil, Bool.false_eq_true]
      have hcurx : cur.isDir (pre ++ [x]) = false := by
        rw [hagree _ (by simp)]; simpa using hx
      have hok : (Call.mkdir (pre ++ [x]) : Call ν).ok cur = true := by
        simp [Call.ok, hcurx, hpre]
      have hnew : (apply cur (Call.mkdir (pre ++ [x]))).isDir (pre ++ [x]) = true := by
        simp [apply, hok, Call.eff, FS.isDir]
      have := ih (apply cur (Call.mkdir (pre ++ [x]))) (pre ++ [x]) hnew
        (fun q hq => by
          rw [isDir_apply_mkdir_other' _ _ _ (by intro e; subst e; simp at hq)]
          exact hagree q (by simp at hq; omega))
      simpa using this

/-- after `MkdirAll p` the directory exists -/
theorem isDir_mkdirAllPlan' (fs : FS ν) (p : Path) : (applyAll fs (mkdirAllPlan fs p)).isDir p = true := by
  have := isDir_mkdirAllAux' p fs fs [] (by simp [FS.isDir]) (fun _ _ => rfl)
  simpa [mkdirAllPlan] using this

theorem dir?_isSome_of_isDir {fs : FS ν} {p : Path} (hne : p ≠ []) (h : fs.isDir p = true) : (fs.dir? p).isSome = true := by
  simp only [FS.isDir, Bool.or_eq_true, beq_iff_eq] at h
  rcases h with h | h
  · exact absurd h hne
  · exact h

/-- calls that write no file leave a directory that exists in place (they may add directories) -/
theorem dir?_isSome_apply_mono (fs : FS ν) (c : Call ν) (p : Path) (hc : ∃ q, c = Call.mkdir q)
    (h : (fs.dir? p).isSome = true) : ((apply fs c).dir? p).isSome = true := by
  obtain ⟨q, rfl⟩ := hc
  by_cases hq : p = q
  · subst hq
    unfold apply; split
    · simp [Call.eff]
    · exact h
  · rw [dir?_apply_of_not_touched _ _ _ (by simpa [Call.touched] using hq)]; exact h

end KrakenModel.FS
