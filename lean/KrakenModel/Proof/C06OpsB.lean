import KrakenModel.Proof.C06OpsA
import KrakenModel.Proof.C06Enc
/-
  C06 proof library, part 8: Delete and MarkComplete meet `OpOK`.
-/
set_option linter.unusedSectionVars false
set_option linter.unusedSimpArgs false
namespace KrakenModel.DiskCrash
open KrakenModel.FS

theorem applyPrefix_append (k : Nat) (a b : List (Call Name)) (fs : FS Name) :
    applyPrefix k (a ++ b) fs =
      if k ≤ a.length then applyPrefix k a fs else applyPrefix (k - a.length) b (applyAll fs a) := by
  unfold applyPrefix
  split
  · rename_i h
    rw [List.take_append_of_le_length h]
  · rename_i h
    rw [List.take_append, applyAll_append, List.take_of_length_le (by omega)]

theorem applyPrefix_cons_succ (k : Nat) (c : Call Name) (cs : List (Call Name)) (fs : FS Name) :
    applyPrefix (k + 1) (c :: cs) fs = applyPrefix k cs (apply fs c) := rfl

theorem side_ne (cfg : Cfg) (c : Bool) (K : Key) : dirPath cfg (!c) K ≠ dirPath cfg c K := fun e =>
  dirPath_ne_of_side cfg c K K e.symm

theorem delete_ok {cfg : Cfg} {m : Mem} {fs : FS Name} (hfs : GoodFS cfg fs) (hg : GoodMem cfg m fs)
    (o : Order Name) (K : Key) : OpOK cfg m fs (delete cfg o m fs K) := by
  unfold delete
  cases hb : aget m.blobs K with
  | none => exact opOK_noop hfs hg hg rfl _ (by simp)
  | some b =>
    simp only
    have g := hg.blob K b hb
    have hlen := dirPath_length cfg b.complete K g.valid
    have hother : ∀ (k : Nat) (q : Path), q ≠ dirPath cfg b.complete K →
        (applyPrefix k (removeAllPlan fs o (dirPath cfg b.complete K)) fs).dir? q = fs.dir? q :=
      fun k q hq => dir?_removeAll_other fs o _ q k hq fs
    have hother' : ∀ (q : Path), q ≠ dirPath cfg b.complete K →
        (applyAll fs (removeAllPlan fs o (dirPath cfg b.complete K))).dir? q = fs.dir? q := by
      intro q hq
      have := hother (removeAllPlan fs o (dirPath cfg b.complete K)).length q hq
      rwa [applyPrefix_all _ _ _ (Nat.le_refl _)] at this
    refine ⟨fun c hc => wf_of_removal cfg c (removeAllPlan_removal fs o _ c hc), ?_,
      fun k => goodFS_applyPrefix_removal k _ hfs (removeAllPlan_removal fs o _), by simp, ?_⟩
    · refine ⟨akeys_nodup_adel _ _ hg.nodup, ?_, ?_, hg.qnodup.filter _, ?_⟩
      · intro K' b' hK'
        have hne : K' ≠ K := by intro e; subst e; simp [aget_adel_self] at hK'
        rw [aget_adel_ne _ _ _ (Ne.symm hne)] at hK'
        exact goodBlob_frame (fun c => hother' _ (dirPath_ne_of_key hne)) (hg.blob K' b' hK')
      · intro K' hv hK'
        by_cases hne : K' = K
        · subst hne
          have h1 : (applyAll fs (removeAllPlan fs o (dirPath cfg b.complete K'))).dir? (dirPath cfg b.complete K') = none :=
            dir?_removeAll_self fs o _ (no_children_of_blobdir hfs _ hlen)
          have h2 : (applyAll fs (removeAllPlan fs o (dirPath cfg b.complete K'))).dir? (dirPath cfg (!b.complete) K') = none := by
            rw [hother' _ (side_ne cfg _ _)]; exact g.other
          cases hc : b.complete <;> simp only [hc, Bool.not_true, Bool.not_false] at h1 h2 <;> exact ⟨by assumption, by assumption⟩
        · rw [aget_adel_ne _ _ _ (Ne.symm hne)] at hK'
          have := hg.absent K' hv hK'
          exact ⟨by rw [hother' _ (dirPath_ne_of_key hne)]; exact this.1,
                 by rw [hother' _ (dirPath_ne_of_key hne)]; exact this.2⟩
      · intro K'
        simp only [List.mem_filter, ne_eq, decide_not, Bool.not_eq_eq_eq_not, Bool.not_true, decide_eq_false_iff_not]
        constructor
        · rintro ⟨hmem, hne⟩
          obtain ⟨b', hb', h1, h2⟩ := (hg.queue K').mp hmem
          exact ⟨b', by rw [aget_adel_ne _ _ _ (Ne.symm hne)]; exact hb', h1, h2⟩
        · rintro ⟨b', hb', h1, h2⟩
          have hne : K' ≠ K := by intro e; subst e; simp [aget_adel_self] at hb'
          rw [aget_adel_ne _ _ _ (Ne.symm hne)] at hb'
          exact ⟨(hg.queue K').mpr ⟨b', hb', h1, h2⟩, hne⟩
    · intro k K' hv
      by_cases hne : K' = K
      · subst hne
        unfold CrashView
        simp only [hb, aget_adel_self]
        rw [hother k _ (side_ne cfg _ _)]; exact g.other
      · exact crashView_frame hg hv (aget_adel_ne _ _ _ (Ne.symm hne)) (fun c => hother k _ (dirPath_ne_of_key hne))

/-! ### MarkComplete -/

theorem applyPrefix_mid (k : Nat) (a : List (Call Name)) (c : Call Name) (b : List (Call Name)) (fs : FS Name) :
    applyPrefix k (a ++ [c] ++ b) fs =
      if k ≤ a.length then applyPrefix k a fs else applyPrefix (k - a.length - 1) b (apply (applyAll fs a) c) := by
  rw [applyPrefix_append]
  by_cases h1 : k ≤ a.length
  · have : k ≤ (a ++ [c]).length := by simp; omega
    simp only [this, if_true, h1]
    rw [applyPrefix_append]; simp [h1]
  · simp only [h1, if_false]
    by_cases h2 : k ≤ (a ++ [c]).length
    · simp only [h2, if_true]
      have hk : k = a.length + 1 := by simp at h2; omega
      subst hk
      rw [applyPrefix_all _ _ _ (by simp), applyAll_append]
      simp [applyPrefix]
    · simp only [h2, if_false]
      simp only [List.length_append, List.length_singleton, applyAll_append, applyAll_cons, applyAll_nil]
      congr 1

theorem mk_frame (fs fs' : FS Name) (p q : Path) (k : Nat) (hq : p.length < q.length) :
    (applyPrefix k (mkdirAllPlan fs p) fs').dir? q = fs'.dir? q :=
  dir?_mkdirAll_prefix fs fs' p q k (fun i _ e => by
    have := congrArg List.length e; rw [List.length_take] at this; omega)

theorem mk_frame_all (fs fs' : FS Name) (p q : Path) (hq : p.length < q.length) :
    (applyAll fs' (mkdirAllPlan fs p)).dir? q = fs'.dir? q := by
  have := mk_frame fs fs' p q (mkdirAllPlan fs p).length hq
  rwa [applyPrefix_all _ _ _ (Nat.le_refl _)] at this

theorem mk_wf (cfg : Cfg) (fs : FS Name) (p : Path) (hp : p.length ≤ depth cfg) :
    ∀ c ∈ mkdirAllPlan fs p, Call.wf cfg c := by
  intro c hc
  obtain ⟨i, _, hi, rfl⟩ := mkdirAllPlan_mem fs p c hc
  simp only [Call.wf, List.length_take]; omega

theorem children_isEmpty {fs : FS Name} {p : Path} (h : ∀ q ∈ fs.paths, q ≠ [] → q.dropLast ≠ p) :
    (fs.children p).isEmpty = true := by
  rw [List.isEmpty_iff]
  apply List.filter_eq_nil_iff.mpr
  intro q hq hh
  have := of_decide_eq_true hh
  exact h q hq this.1 this.2

/-- unlinking a list of names: what is left of each entry -/
theorem aget_filesAfter_unlinks (ns : List Name) (p : Path) (d : DirEnt Name) (n : Name) :
    aget (filesAfter (ns.map (Call.unlink p)) d) n = if n ∈ ns then none else aget d n := by
  induction ns generalizing d with
  | nil => simp [filesAfter]
  | cons a rest ih =>
    have h0 : filesAfter (List.map (Call.unlink p) (a :: rest)) d =
        filesAfter (List.map (Call.unlink p) rest) (adel d a) := rfl
    rw [h0, ih (adel d a)]
    by_cases h1 : n ∈ rest
    · simp [h1]
    · by_cases h2 : n = a
      · subst h2; simp [aget_adel_self]
      · simp [h1, h2, aget_adel_ne _ _ _ (Ne.symm h2)]

theorem between_unlinks (ns : List Name) (p : Path) (d : DirEnt Name) (j : Nat) (n : Name) :
    aget (filesAfter ((ns.map (Call.unlink p)).take j) d) n = aget d n ∨
    aget (filesAfter ((ns.map (Call.unlink p)).take j) d) n = aget (filesAfter (ns.map (Call.unlink p)) d) n := by
  rw [← List.map_take, aget_filesAfter_unlinks, aget_filesAfter_unlinks]
  by_cases h : n ∈ ns.take j
  · right; simp [h, List.mem_of_mem_take h]
  · left; simp [h]

theorem markComplete_ok {cfg : Cfg} {m : Mem} {fs : FS Name} (hfs : GoodFS cfg fs) (hg : GoodMem cfg m fs)
    (K : Key) : OpOK cfg m fs (markComplete cfg m fs K) := by
  unfold markComplete
  cases hb : aget m.blobs K with
  | none => exact opOK_noop hfs hg hg rfl _ (by simp)
  | some b =>
    simp only
    by_cases hbc : b.complete = true
    · simp only [hbc, if_true]; exact opOK_noop hfs hg hg rfl _ (by simp)
    · simp only [hbc, Bool.false_eq_true, if_false]
      have hbc' : b.complete = false := by simpa using hbc
      have g := hg.blob K b hb
      have hv := g.valid
      obtain ⟨d, hd, hdat, hbn, _⟩ := g.dir
      rw [hbc'] at hd
      have hdst0 : fs.dir? (dirPath cfg true K) = none := by have := g.other; simpa [hbc'] using this
      have hlenS := dirPath_length cfg false K hv
      have hlenD := dirPath_length cfg true K hv
      have hdl : (dirPath cfg true K).dropLast.length < depth cfg := by rw [List.length_dropLast, hlenD]; unfold depth; omega
      -- after MkdirAll
      have hmkwf := mk_wf cfg fs (dirPath cfg true K).dropLast (Nat.le_of_lt hdl)
      have hsh1 := shape_applyAll _ hfs.shape hmkwf
      have hsrc1 : (applyAll fs (mkdirAllPlan fs (dirPath cfg true K).dropLast)).dir? (dirPath cfg false K) = some d := by
        rw [mk_frame_all _ _ _ _ (by omega)]; exact hd
      have hdst1 : (applyAll fs (mkdirAllPlan fs (dirPath cfg true K).dropLast)).dir? (dirPath cfg true K) = none := by
        rw [mk_frame_all _ _ _ _ (by omega)]; exact hdst0
      have hpar := (isDir_mkdirAllPlan fs (dirPath cfg true K).dropLast).1
      have hnoch : ∀ q ∈ (applyAll fs (mkdirAllPlan fs (dirPath cfg true K).dropLast)).paths, q ≠ [] →
          q.dropLast ≠ dirPath cfg false K := by
        intro q hq hne e
        have h1 := hsh1.len q hq
        have h2 : q.dropLast.length = depth cfg := by rw [e]; exact hlenS
        rw [List.length_dropLast] at h2
        have : q.length ≠ 0 := by intro h0; exact hne (List.length_eq_zero_iff.mp h0)
        omega
      have hok : (Call.renameDir (dirPath cfg false K) (dirPath cfg true K) : Call Name).ok
          (applyAll fs (mkdirAllPlan fs (dirPath cfg true K).dropLast)) = true := by
        simp only [Call.ok, hsrc1, hdst1, hpar, children_isEmpty hnoch, Option.isSome_some, Bool.true_and,
          Bool.and_true, Bool.and_eq_true, decide_eq_true_eq, ne_eq]
        exact ⟨fun e => (by cases (dirPath_inj e).1), dirPath_ne_nil cfg true K⟩
      simp only [hsrc1, hdst1, hok, Option.isNone_some, Option.isSome_none, Bool.false_eq_true, if_false,
        Bool.not_true, Bool.or_self]
      -- after the rename
      have heff : apply (applyAll fs (mkdirAllPlan fs (dirPath cfg true K).dropLast))
          (Call.renameDir (dirPath cfg false K) (dirPath cfg true K)) =
          ((applyAll fs (mkdirAllPlan fs (dirPath cfg true K).dropLast)).delDir (dirPath cfg false K)).setDir
            (dirPath cfg true K) d := by
        simp [apply, hok, Call.eff, hsrc1]
      have hne_sd : dirPath cfg false K ≠ dirPath cfg true K := fun e => by cases (dirPath_inj e).1
      have hdst2 : (apply (applyAll fs (mkdirAllPlan fs (dirPath cfg true K).dropLast))
          (Call.renameDir (dirPath cfg false K) (dirPath cfg true K))).dir? (dirPath cfg true K) = some d := by
        rw [heff]; simp
      simp only [hdst2]
      generalize hmk : mkdirAllPlan fs (dirPath cfg true K).dropLast = mk at *
      generalize hfs2 : apply (applyAll fs mk) (Call.renameDir (dirPath cfg false K) (dirPath cfg true K)) = fs2 at *
      have hsrc2 : fs2.dir? (dirPath cfg false K) = none := by
        rw [heff, FS.dir?_setDir_ne _ _ _ _ (Ne.symm hne_sd)]; simp
      have hoth2 : ∀ q, q ≠ dirPath cfg false K → q ≠ dirPath cfg true K → q.length = depth cfg → fs2.dir? q = fs.dir? q := by
        intro q h1 h2 h3
        rw [heff, FS.dir?_setDir_ne _ _ _ _ (Ne.symm h2), FS.dir?_delDir_ne _ _ _ (Ne.symm h1), ← hmk,
          mk_frame_all _ _ _ _ (by omega)]
      -- the unlinks of immovable metadata
      generalize hus : (immovables d).map (fun md => Call.unlink (dirPath cfg true K) (Name.md md)) = us at *
      have hus' : us = ((immovables d).map Name.md).map (Call.unlink (dirPath cfg true K)) := by
        rw [← hus, List.map_map]; rfl
      have husin : ∀ c ∈ us, c.inDir (dirPath cfg true K) := by
        intro c hc; rw [← hus] at hc; simp only [List.mem_map] at hc; obtain ⟨md, _, rfl⟩ := hc; rfl
      have husname : ∀ c ∈ us, ∀ n, n ∈ c.names → ∃ md, n = Name.md md := by
        intro c hc n hn; rw [← hus] at hc; simp only [List.mem_map] at hc; obtain ⟨md, _, rfl⟩ := hc
        simp [Call.names] at hn; exact ⟨md, hn⟩
      have husrem : ∀ c ∈ us, ∀ n, n ∈ c.removes → ∃ md, n = Name.md md := by
        intro c hc n hn; rw [← hus] at hc; simp only [List.mem_map] at hc; obtain ⟨md, _, rfl⟩ := hc
        simp [Call.removes] at hn; exact ⟨md, hn⟩
      have hpre3 : ∀ j, (applyPrefix j us fs2).dir? (dirPath cfg true K) = some (filesAfter (us.take j) d) := fun j =>
        dir?_applyAll_inDir _ _ _ _ (fun c hc => husin c (List.mem_of_mem_take hc)) hdst2
      have hpre3o : ∀ j q, q ≠ dirPath cfg true K → (applyPrefix j us fs2).dir? q = fs2.dir? q := fun j q hq =>
        dir?_applyAll_inDir_other _ _ _ _ (fun c hc => husin c (List.mem_of_mem_take hc)) hq
      have hall3 : applyAll fs (mk ++ [Call.renameDir (dirPath cfg false K) (dirPath cfg true K)] ++ us) =
          applyPrefix us.length us fs2 := by
        rw [applyPrefix_all _ _ _ (Nat.le_refl _), applyAll_append, applyAll_append, ← hfs2]; rfl
      -- every prefix of the plan is a prefix of MkdirAll, or the rename plus some unlinks
      have hcases : ∀ k, (∃ k', applyPrefix k (mk ++ [Call.renameDir (dirPath cfg false K) (dirPath cfg true K)] ++ us) fs =
            applyPrefix k' mk fs) ∨
          (∃ j, applyPrefix k (mk ++ [Call.renameDir (dirPath cfg false K) (dirPath cfg true K)] ++ us) fs =
            applyPrefix j us fs2) := by
        intro k
        rw [applyPrefix_mid]
        by_cases h : k ≤ mk.length
        · left; exact ⟨k, by simp [h]⟩
        · right; exact ⟨k - mk.length - 1, by simp [h, hfs2]⟩
      have hA : ∀ k' q, q.length = depth cfg → (applyPrefix k' mk fs).dir? q = fs.dir? q := by
        intro k' q hq; rw [← hmk]; exact mk_frame _ _ _ _ _ (by omega)
      have hwf : ∀ c ∈ mk ++ [Call.renameDir (dirPath cfg false K) (dirPath cfg true K)] ++ us, Call.wf cfg c := by
        intro c hc
        simp only [List.mem_append, List.mem_singleton] at hc
        rcases hc with (hc | hc) | hc
        · exact hmkwf c hc
        · subst hc; exact ⟨hlenS, hlenD⟩
        · exact inDir_wf (husin c hc) hlenD
      have hframe : ∀ k K' c, ValidKey cfg K' → K' ≠ K →
          (applyPrefix k (mk ++ [Call.renameDir (dirPath cfg false K) (dirPath cfg true K)] ++ us) fs).dir? (dirPath cfg c K') =
            fs.dir? (dirPath cfg c K') := by
        intro k K' c hv' hne
        rcases hcases k with ⟨k', e⟩ | ⟨j, e⟩
        · rw [e]; exact hA k' _ (dirPath_length cfg c K' hv')
        · rw [e, hpre3o j _ (dirPath_ne_of_key hne)]
          exact hoth2 _ (dirPath_ne_of_key hne) (dirPath_ne_of_key hne) (dirPath_length cfg c K' hv')
      have hframe' : ∀ K' c, ValidKey cfg K' → K' ≠ K →
          (applyAll fs (mk ++ [Call.renameDir (dirPath cfg false K) (dirPath cfg true K)] ++ us)).dir? (dirPath cfg c K') =
            fs.dir? (dirPath cfg c K') := by
        intro K' c hv' hne
        have := hframe (mk ++ [Call.renameDir (dirPath cfg false K) (dirPath cfg true K)] ++ us).length K' c hv' hne
        rwa [applyPrefix_all _ _ _ (Nat.le_refl _)] at this
      have hKnq : K ∉ m.queue := by
        intro hmem
        obtain ⟨b2, h1, h2, _⟩ := (hg.queue K).mp hmem
        rw [hb] at h1; cases h1; exact hbc h2
      refine ⟨hwf, ?_, ?_, by simp, ?_⟩
      · -- the state after MarkComplete
        refine ⟨akeys_nodup_aset _ _ _ hg.nodup, ?_, ?_, ?_, ?_⟩
        · intro K' b'' hK'
          by_cases hne : K' = K
          · subst hne
            simp only [aget_aset_self, Option.some.injEq] at hK'; subst hK'
            refine ⟨hv, ⟨filesAfter us d, ?_, ?_, ?_, by intro h; simp at h⟩, ?_⟩
            · rw [hall3, hpre3]; simp
            · exact isSome_filesAfter_of_not_removed us d _ (by
                intro c hc hmem; obtain ⟨md, e⟩ := husrem c hc _ hmem; cases e) hdat
            · rw [aget_filesAfter_of_not_named us d _ (by
                intro c hc hmem; obtain ⟨md, e⟩ := husname c hc _ hmem; cases e)]
              exact hbn
            · simp only [Bool.not_true]
              rw [hall3, hpre3o _ _ hne_sd]; exact hsrc2
          · rw [aget_aset_ne _ _ _ _ (Ne.symm hne)] at hK'
            have g' := hg.blob K' b'' hK'
            exact goodBlob_frame (fun c => hframe' K' c g'.valid hne) g'
        · intro K' hv' hK'
          have hne : K' ≠ K := by intro e; subst e; simp [aget_aset_self] at hK'
          rw [aget_aset_ne _ _ _ _ (Ne.symm hne)] at hK'
          have := hg.absent K' hv' hK'
          exact ⟨by rw [hframe' K' _ hv' hne]; exact this.1, by rw [hframe' K' _ hv' hne]; exact this.2⟩
        · simp only
          by_cases hbb : b.banned = true
          · simp only [hbb, if_true]; exact hg.qnodup
          · simp only [hbb, Bool.false_eq_true, if_false]
            rw [List.nodup_append]
            exact ⟨hg.qnodup, by simp, by intro a ha x hx; simp at hx; subst hx; intro e; subst e; exact hKnq ha⟩
        · intro K'
          simp only
          by_cases hne : K' = K
          · subst hne
            simp only [aget_aset_self, Option.some.injEq]
            by_cases hbb : b.banned = true
            · simp only [hbb, if_true]
              constructor
              · intro h; exact absurd h hKnq
              · rintro ⟨b2, rfl, _, h3⟩; simp [hbb] at h3
            · simp only [hbb, Bool.false_eq_true, if_false, List.mem_append, List.mem_singleton, or_true, true_iff]
              exact ⟨_, rfl, rfl, by simpa using hbb⟩
          · rw [queue_iff_of_ne _ hne (fun b'' => b''.complete = true ∧ b''.banned = false), ← hg.queue K']
            by_cases hbb : b.banned = true
            · simp [hbb]
            · simp [hbb, hne]
      · -- every prefix keeps the tree well-shaped
        intro k
        have hs := shape_applyPrefix k _ hfs.shape hwf
        refine ⟨hs.len, hs.nofile, hs.par, ?_⟩
        intro K' hv' ⟨h1, h2⟩
        by_cases hne : K' = K
        · subst hne
          rcases hcases k with ⟨k', e⟩ | ⟨j, e⟩
          · rw [e, hA k' _ hlenD, hdst0] at h2; simp at h2
          · rw [e, hpre3o j _ hne_sd, hsrc2] at h1; simp at h1
        · rw [hframe k K' _ hv' hne] at h1 h2
          exact hfs.one K' hv' ⟨h1, h2⟩
      · -- what a crash leaves
        intro k K' hv'
        by_cases hne : K' = K
        · subst hne
          unfold CrashView
          simp only [hb, aget_aset_self, hbc', Bool.not_false]
          rcases hcases k with ⟨k', e⟩ | ⟨j, e⟩
          · left
            rw [e]
            refine ⟨by rw [hA k' _ hlenD]; exact hdst0, by rw [hA k' _ hlenS, hd]; rfl, ?_, file?_congr (hA k' _ hlenS) _⟩
            intro n _; left; exact file?_congr (hA k' _ hlenS) n
          · right
            rw [e]
            refine ⟨by simp, by simp, by rw [hpre3o j _ hne_sd]; exact hsrc2, by rw [hpre3 j]; rfl, ?_⟩
            intro n _
            simp only [FS.file?, hpre3 j, hd, hall3, hpre3 us.length, List.take_length]
            rw [hus']
            exact between_unlinks _ _ _ _ _
        · exact crashView_frame hg hv' (aget_aset_ne _ _ _ _ (Ne.symm hne)) (fun c => hframe k K' c hv' hne)

end KrakenModel.DiskCrash
