import KrakenModel.Model.Poll
/-
  Helper lemmas for Spec/C35: file-overwrite algebra and the invariant of the guarded poll loop.
-/
namespace KrakenModel.Proof.C35
open KrakenModel.Poll

theorem takePad_length (data : List Byte) (pos : Nat) :
    ((data ++ List.replicate (pos - data.length) 0).take pos).length = pos := by
  simp [List.length_take]; omega

/-- writing `q` over a region where `p` was written at the same offset -/
theorem writeAt_writeAt (data : List Byte) (pos : Nat) (p q : List Byte) :
    writeAt (writeAt data pos p) pos q = writeAt data pos (q ++ p.drop q.length) := by
  unfold writeAt
  generalize hA : (data ++ List.replicate (pos - data.length) 0).take pos = A
  have hAl : A.length = pos := by rw [← hA]; exact takePad_length data pos
  have h1 : ((A ++ p ++ List.drop (pos + p.length) data) ++
      List.replicate (pos - (A ++ p ++ List.drop (pos + p.length) data).length) 0).take pos = A := by
    rw [List.append_assoc, List.append_assoc, List.take_append_of_le_length (by omega)]
    rw [← hAl, List.take_length]
  rw [h1]
  have h2 : List.drop (pos + q.length) (A ++ p ++ List.drop (pos + p.length) data)
      = p.drop q.length ++ List.drop (pos + (q ++ p.drop q.length).length) data := by
    rw [List.append_assoc, List.drop_append, List.drop_append]
    simp [hAl, List.drop_drop]
    have e1 : List.drop (pos + q.length) A = [] := List.drop_eq_nil_of_le (by omega)
    have e2 : pos + p.length + (q.length - p.length) = pos + (q.length + (p.length - q.length)) := by omega
    rw [e1, e2]; rfl
  rw [h2]
  simp [List.append_assoc]

/-- overwrite that is a no-op for an empty payload (no `Write` call) -/
def ow (data : List Byte) (pos : Nat) (p : List Byte) : List Byte :=
  if p = [] then data else writeAt data pos p

theorem ow_ow (data : List Byte) (pos : Nat) (p q : List Byte) :
    ow (ow data pos p) pos q = ow data pos (q ++ p.drop q.length) := by
  unfold ow
  by_cases hq : q = []
  · subst hq; simp
  · by_cases hp : p = []
    · subst hp; simp [hq]
    · simp [hq, hp, writeAt_writeAt]

theorem write_seek (d : Dst) (h : d.kind = .seek) (bs : List Byte) :
    d.write bs = { d with data := ow d.data d.pos bs, pos := d.pos + bs.length } := by
  unfold Dst.write ow
  rw [h]
  by_cases hb : bs = []
  · subst hb; cases d; simp_all
  · simp [hb]

theorem write_plain (d : Dst) (h : d.kind = .plain) (bs : List Byte) :
    d.write bs = { d with data := d.data ++ bs } := by
  unfold Dst.write; rw [h]

theorem write_kind (d : Dst) (bs : List Byte) : (d.write bs).kind = d.kind := by
  unfold Dst.write
  cases h : d.kind <;> simp
  split <;> simp [h]

/-- Invariant of the guarded loop relative to the initial destination `d0`.
`plain`: as long as the counter is zero the destination is untouched (afterwards nothing is
written any more).  `seek`: the offset is `n` past the start and the data is the original with
some `p` (no longer than the blob) written at the start offset. -/
def Good (d0 : Dst) (blob : List Byte) (st : St) : Prop :=
  st.dst.kind = d0.kind ∧
  match d0.kind with
  | .plain => st.n = 0 → st.dst = d0
  | .seek => st.dst.pos = d0.pos + st.n ∧
      ∃ p : List Byte, p.length ≤ blob.length ∧ st.n ≤ p.length ∧ st.dst.data = ow d0.data d0.pos p

theorem good_init (d0 : Dst) (blob : List Byte) : Good d0 blob { dst := d0 } := by
  refine ⟨rfl, ?_⟩
  cases h : d0.kind
  · simp
  · exact ⟨by simp, [], by simp, by simp, by simp [ow]⟩

/-- after the guard: either the closure gives up (unseekable destination that already holds
bytes; the state is unchanged) or the state is good with a zero counter -/
theorem prepare_good (cfg : Cfg) (hg : cfg.guarded = true) (d0 : Dst) (st : St)
    (h : Good d0 cfg.blob st) :
    match prepare cfg st with
    | none => True
    | some st1 => Good d0 cfg.blob st1 ∧ st1.n = 0 ∧ st1.trace = st.trace := by
  unfold prepare
  by_cases hn : st.n = 0
  · simp [hn, h]
  · simp only [hg, hn, Bool.not_true, Bool.false_or, decide_false, Bool.false_eq_true, if_false]
    obtain ⟨hk, hrest⟩ := h
    cases hk0 : d0.kind
    · rw [hk0] at hk; simp [hk]
    · rw [hk0] at hk hrest
      simp only [hk]
      obtain ⟨hpos, p, hp1, hp2, hp3⟩ := hrest
      have hle : st.n ≤ st.dst.pos := by omega
      simp only [hle, if_true]
      constructor
      · refine ⟨by simp [hk0, hk], ?_⟩
        rw [hk0]
        exact ⟨by simp; omega, p, hp1, by simp, by simpa using hp3⟩
      · simp

/-- one request from a good state with a zero counter -/
theorem doRequest_good (cfg : Cfg) (i : Nat) (d0 : Dst) (st : St) (r : Resp)
    (h : Good d0 cfg.blob st) (hn : st.n = 0) (hr : r.honest cfg.blob.length) :
    ((doRequest cfg i st r).2 = .ok → (doRequest cfg i st r).1.dst = d0.write cfg.blob) ∧
    ((doRequest cfg i st r).2 ≠ .ok → Good d0 cfg.blob (doRequest cfg i st r).1) := by
  obtain ⟨hk, hrest⟩ := h
  -- the two writes that can happen
  have full_ok : st.dst.write cfg.blob = d0.write cfg.blob := by
    cases hk0 : d0.kind
    · rw [hk0] at hrest; simp only at hrest; rw [hrest hn]
    · rw [hk0] at hk hrest
      obtain ⟨hpos, p, hp1, _, hp3⟩ := hrest
      have hpos' : st.dst.pos = d0.pos := by omega
      rw [write_seek _ hk, write_seek _ hk0, hp3, hpos', ow_ow, List.drop_eq_nil_of_le hp1]
      simp [hk, hk0]
  have part_good : ∀ k, Good d0 cfg.blob
      { dst := st.dst.write (cfg.blob.take k), n := st.n + (cfg.blob.take k).length, trace := st.trace ++ [i] } := by
    intro k
    refine ⟨by simp [write_kind, hk], ?_⟩
    cases hk0 : d0.kind
    · rw [hk0] at hrest hk
      simp only at hrest ⊢
      intro hz
      have hnil : cfg.blob.take k = [] := by
        apply List.eq_nil_of_length_eq_zero; omega
      rw [hnil, write_plain _ hk]
      simp [hrest hn]
    · rw [hk0] at hk hrest
      obtain ⟨hpos, p, hp1, _, hp3⟩ := hrest
      simp only
      rw [write_seek _ hk]
      refine ⟨by simp only; omega, cfg.blob.take k ++ p.drop (cfg.blob.take k).length, ?_, ?_, ?_⟩
      · simp [List.length_take]; omega
      · simp [List.length_take]; omega
      · have hpos' : st.dst.pos = d0.pos := by omega
        simp only; rw [hp3, hpos', ow_ow]
  cases r with
  | netErr => simp [doRequest, request, Good, hk, hrest]
  | status c => simp [doRequest, request, Good, hk, hrest]
  | full ch => simp [doRequest, request, full_ok]
  | eof k =>
    have hk : cfg.blob.length ≤ k := hr
    have htake : cfg.blob.take k = cfg.blob := List.take_of_length_le hk
    simp [doRequest, request, htake, full_ok]
  | cut k ch =>
    cases ch with
    | true =>
      simp only [doRequest, request]
      exact ⟨by simp, fun _ => part_good k⟩
    | false =>
      by_cases hkl : k < cfg.blob.length
      · simp only [doRequest, request, hkl, if_true]
        have hlen : (cfg.blob.take k).length = k := by simp [List.length_take]; omega
        have := part_good k
        rw [hlen] at this
        exact ⟨by simp, fun _ => this⟩
      · simp [doRequest, request, hkl, full_ok]

/-- the POLL loop of one origin keeps the invariant, and a success leaves exactly one copy -/
theorem pollOrigin_good (cfg : Cfg) (hg : cfg.guarded = true) (d0 : Dst) (i : Nat) :
    ∀ (script : List Resp) (b : Nat) (st : St), Good d0 cfg.blob st → (∀ r ∈ script, r.honest cfg.blob.length) →
      ((pollOrigin cfg i script b st).2 = .done .ok → (pollOrigin cfg i script b st).1.dst = d0.write cfg.blob) ∧
      ((pollOrigin cfg i script b st).2 ≠ .done .ok → Good d0 cfg.blob (pollOrigin cfg i script b st).1) := by
  intro script
  induction script with
  | nil =>
    intro b st h _
    have hp := prepare_good cfg hg d0 st h
    unfold pollOrigin
    cases hprep : prepare cfg st with
    | none => simp [h]
    | some st1 =>
      rw [hprep] at hp
      have hr := doRequest_good cfg i d0 st1 .netErr hp.1 hp.2.1 trivial
      simp only [reduceCtorEq, false_implies, ne_eq, not_false_eq_true, true_implies, true_and]
      exact hr.2 (by simp [doRequest, request])
  | cons r rest ih =>
    intro b st h hhon
    have hp := prepare_good cfg hg d0 st h
    unfold pollOrigin
    cases hprep : prepare cfg st with
    | none => simp [h]
    | some st1 =>
      rw [hprep] at hp
      have hr := doRequest_good cfg i d0 st1 r hp.1 hp.2.1 (hhon r (by simp))
      simp only
      generalize hreq : doRequest cfg i st1 r = res at hr
      obtain ⟨st2, out⟩ := res
      cases out with
      | ok => simpa using hr.1 rfl
      | other => simpa using hr.2 (by simp)
      | status c =>
        have hgood : Good d0 cfg.blob st2 := hr.2 (by simp)
        simp only
        by_cases h202 : c = 202
        · simp only [h202, if_true]
          cases b with
          | zero => simpa using hgood
          | succ b' => exact ih b' st2 hgood (fun r' hr' => hhon r' (List.mem_cons_of_mem _ hr'))
        · simp only [h202, if_false]
          by_cases h500 : c < 500
          · simp [h500, hgood]
          · simp [h500, hgood]

/-- the ORIGINS loop -/
theorem pollFrom_good (cfg : Cfg) (hg : cfg.guarded = true) (d0 : Dst) :
    ∀ (os : List (List Resp)) (i : Nat) (st : St), Good d0 cfg.blob st →
      (∀ o ∈ os, ∀ r ∈ o, r.honest cfg.blob.length) →
      (pollFrom cfg i os st).2 = .ok → (pollFrom cfg i os st).1.dst = d0.write cfg.blob := by
  intro os
  induction os with
  | nil => intro i st _ _ h; simp [pollFrom] at h
  | cons o os ih =>
    intro i st hgood hhon
    have ho := pollOrigin_good cfg hg d0 i o cfg.bo st hgood (hhon o (by simp))
    unfold pollFrom
    generalize hres : pollOrigin cfg i o cfg.bo st = res at ho
    obtain ⟨st', step⟩ := res
    cases step with
    | next => exact ih (i + 1) st' (ho.2 (by simp)) (fun o' ho' => hhon o' (List.mem_cons_of_mem _ ho'))
    | done r =>
      simp only
      intro hr
      subst hr
      exact ho.1 rfl

/-! ### success needs a delivering response (guarded or not) -/

theorem doRequest_ok (cfg : Cfg) (i : Nat) (st : St) (r : Resp) (hr : r.honest cfg.blob.length) :
    (doRequest cfg i st r).2 = .ok → r.delivers cfg.blob.length = true := by
  cases r with
  | eof k => intro _; have hk : cfg.blob.length ≤ k := hr; simpa [Resp.delivers] using hk
  | netErr => simp [doRequest, request]
  | status c => simp [doRequest, request]
  | full ch => simp [Resp.delivers]
  | cut k ch =>
    cases ch with
    | true => simp [doRequest, request]
    | false =>
      by_cases hkl : k < cfg.blob.length
      · simp [doRequest, request, hkl]
      · simp [Resp.delivers]; omega

theorem doRequest_trace (cfg : Cfg) (i : Nat) (st : St) (r : Resp) :
    (doRequest cfg i st r).1.trace = st.trace ++ [i] := by
  simp [doRequest]

theorem prepare_trace (cfg : Cfg) (st st1 : St) (h : prepare cfg st = some st1) : st1.trace = st.trace := by
  unfold prepare at h
  split at h
  · simp at h; rw [← h]
  · split at h
    · simp at h
    · split at h
      · simp at h; rw [← h]
      · simp at h

theorem pollOrigin_ok (cfg : Cfg) (i : Nat) :
    ∀ (script : List Resp) (b : Nat) (st : St), (∀ r ∈ script, r.honest cfg.blob.length) →
      (pollOrigin cfg i script b st).2 = .done .ok → ∃ r ∈ script, r.delivers cfg.blob.length = true := by
  intro script
  induction script with
  | nil =>
    intro b st _
    unfold pollOrigin
    cases prepare cfg st <;> simp
  | cons r rest ih =>
    intro b st hhon
    unfold pollOrigin
    cases prepare cfg st with
    | none => simp
    | some st1 =>
      simp only
      have hr := doRequest_ok cfg i st1 r (hhon r (by simp))
      generalize doRequest cfg i st1 r = res at hr
      obtain ⟨st2, out⟩ := res
      cases out with
      | ok => intro _; exact ⟨r, by simp, hr rfl⟩
      | other => simp
      | status c =>
        simp only
        by_cases h202 : c = 202
        · simp only [h202, if_true]
          cases b with
          | zero => simp
          | succ b' =>
            intro h
            obtain ⟨r', hm, hd⟩ := ih b' st2 (fun r' hr' => hhon r' (List.mem_cons_of_mem _ hr')) h
            exact ⟨r', List.mem_cons_of_mem _ hm, hd⟩
        · simp only [h202, if_false]
          by_cases h500 : c < 500 <;> simp [h500]

theorem pollFrom_ok (cfg : Cfg) :
    ∀ (os : List (List Resp)) (i : Nat) (st : St), (∀ o ∈ os, ∀ r ∈ o, r.honest cfg.blob.length) →
      (pollFrom cfg i os st).2 = .ok → ∃ o ∈ os, ∃ r ∈ o, r.delivers cfg.blob.length = true := by
  intro os
  induction os with
  | nil => intro i st _ h; simp [pollFrom] at h
  | cons o os ih =>
    intro i st hhon
    have ho := pollOrigin_ok cfg i o cfg.bo st (hhon o (by simp))
    unfold pollFrom
    generalize pollOrigin cfg i o cfg.bo st = res at ho
    obtain ⟨st', step⟩ := res
    cases step with
    | next =>
      intro h
      obtain ⟨o', hm, hd⟩ := ih (i + 1) st' (fun o' ho' => hhon o' (List.mem_cons_of_mem _ ho')) h
      exact ⟨o', List.mem_cons_of_mem _ hm, hd⟩
    | done r =>
      simp only
      intro hr
      subst hr
      exact ⟨o, by simp, ho rfl⟩

/-! ### shape of the request trace -/

/-- origin `i` is asked at most `b + 1` times and at most once more than its script is long -/
theorem pollOrigin_trace (cfg : Cfg) (i : Nat) :
    ∀ (script : List Resp) (b : Nat) (st : St),
      ∃ m, m ≤ b + 1 ∧ m ≤ script.length + 1 ∧
        (pollOrigin cfg i script b st).1.trace = st.trace ++ List.replicate m i := by
  intro script
  induction script with
  | nil =>
    intro b st
    unfold pollOrigin
    cases hprep : prepare cfg st with
    | none => exact ⟨0, by omega, by omega, by simp⟩
    | some st1 =>
      exact ⟨1, by omega, by simp, by simp [doRequest_trace, prepare_trace cfg st st1 hprep]⟩
  | cons r rest ih =>
    intro b st
    unfold pollOrigin
    cases hprep : prepare cfg st with
    | none => exact ⟨0, by omega, by omega, by simp⟩
    | some st1 =>
      have ht1 := prepare_trace cfg st st1 hprep
      have ht := doRequest_trace cfg i st1 r
      simp only
      generalize doRequest cfg i st1 r = res at ht
      obtain ⟨st2, out⟩ := res
      simp only at ht
      have one : ∃ m, m ≤ b + 1 ∧ m ≤ (r :: rest).length + 1 ∧ st2.trace = st.trace ++ List.replicate m i :=
        ⟨1, by omega, by simp, by simp [ht, ht1]⟩
      cases out with
      | ok => exact one
      | other => exact one
      | status c =>
        simp only
        by_cases h202 : c = 202
        · simp only [h202, if_true]
          cases b with
          | zero => exact one
          | succ b' =>
            obtain ⟨m, hm1, hm2, hm3⟩ := ih b' st2
            refine ⟨m + 1, by omega, by simp; omega, ?_⟩
            rw [hm3, ht, ht1, List.replicate_succ, List.append_assoc]; rfl
        · simp only [h202, if_false]
          by_cases h500 : c < 500 <;> simp only [h500, if_true, if_false] <;> exact one

/-- the whole poll: requests go to the origins in order, never back, each at most `bo + 1` times -/
theorem pollFrom_trace (cfg : Cfg) :
    ∀ (os : List (List Resp)) (i : Nat) (st : St),
      ∃ t : List Nat, (pollFrom cfg i os st).1.trace = st.trace ++ t ∧
        t.Pairwise (· ≤ ·) ∧ (∀ j ∈ t, i ≤ j ∧ j < i + os.length) ∧ ∀ j, t.count j ≤ cfg.bo + 1 := by
  intro os
  induction os with
  | nil => intro i st; exact ⟨[], by simp [pollFrom], by simp, by simp, by simp⟩
  | cons o os ih =>
    intro i st
    obtain ⟨m, hm1, _, hm3⟩ := pollOrigin_trace cfg i o cfg.bo st
    unfold pollFrom
    generalize pollOrigin cfg i o cfg.bo st = res at hm3
    obtain ⟨st', step⟩ := res
    simp only at hm3
    have hrep : (List.replicate m i).Pairwise (· ≤ ·) := by
      rw [List.pairwise_replicate]; right; exact Nat.le_refl i
    have hcount : ∀ j, (List.replicate m i).count j ≤ cfg.bo + 1 := by
      intro j; rw [List.count_replicate]; split <;> omega
    cases step with
    | done r =>
      refine ⟨List.replicate m i, hm3, hrep, ?_, hcount⟩
      intro j hj
      have := List.eq_of_mem_replicate hj
      simp; omega
    | next =>
      obtain ⟨t, ht1, ht2, ht3, ht4⟩ := ih (i + 1) st'
      refine ⟨List.replicate m i ++ t, by simp only; rw [ht1, hm3, List.append_assoc], ?_, ?_, ?_⟩
      · rw [List.pairwise_append]
        refine ⟨hrep, ht2, ?_⟩
        intro a ha b hb
        have := List.eq_of_mem_replicate ha
        have := (ht3 b hb).1
        omega
      · intro j hj
        rcases List.mem_append.mp hj with hj | hj
        · have := List.eq_of_mem_replicate hj
          simp; omega
        · have := ht3 j hj
          simp; omega
      · intro j
        rw [List.count_append]
        by_cases hji : j = i
        · have : t.count j = 0 := by
            rw [List.count_eq_zero]; intro hmem; have := (ht3 j hmem).1; omega
          have := hcount j
          omega
        · have : (List.replicate m i).count j = 0 := by
            rw [List.count_replicate]; simp; intro h; exact absurd h.symm hji
          have := ht4 j
          omega

/-! ### availability: which failures still let the next origin serve the blob -/

/-- the origin's first answer is a failure after which `Poll` moves to the next origin -/
def FailsOver (blobLen : Nat) : List Resp → Prop
  | [] => True
  | .netErr :: _ => True
  | .status c :: _ => 500 ≤ c
  | .cut k false :: _ => k < blobLen
  | .cut _ true :: _ => True
  | .full _ :: _ => False
  | .eof _ :: _ => False

/-- … and it fails before any body byte arrives -/
def FailsClean (blobLen : Nat) : List Resp → Prop
  | [] => True
  | .netErr :: _ => True
  | .status c :: _ => 500 ≤ c
  | .cut k false :: _ => k = 0 ∧ 0 < blobLen
  | .cut k true :: _ => k = 0 ∨ blobLen = 0
  | .full _ :: _ => False
  | .eof _ :: _ => False

def HeadDelivers (blobLen : Nat) : List Resp → Prop
  | r :: _ => r.delivers blobLen = true
  | [] => False

theorem prepare_seek (cfg : Cfg) (hg : cfg.guarded = true) (d0 : Dst) (hs : d0.kind = .seek) (st : St)
    (h : Good d0 cfg.blob st) : ∃ st1, prepare cfg st = some st1 ∧ Good d0 cfg.blob st1 ∧ st1.n = 0 := by
  have hp := prepare_good cfg hg d0 st h
  cases hprep : prepare cfg st with
  | some st1 => rw [hprep] at hp; exact ⟨st1, rfl, hp.1, hp.2.1⟩
  | none =>
    exfalso
    unfold prepare at hprep
    obtain ⟨hk, hrest⟩ := h
    rw [hs] at hk hrest
    obtain ⟨hpos, _⟩ := hrest
    by_cases hn : st.n = 0
    · simp [hn] at hprep
    · have hle : st.n ≤ st.dst.pos := by omega
      simp [hg, hn, hk, hle] at hprep

theorem prepare_zero (cfg : Cfg) (st : St) (hn : st.n = 0) : prepare cfg st = some st := by
  simp [prepare, hn]

/-- a state from which the guard lets the next request through -/
def Ready (d0 : Dst) (blob : List Byte) (st : St) : Prop :=
  Good d0 blob st ∧ (d0.kind = .seek ∨ st.n = 0)

theorem ready_prepare (cfg : Cfg) (hg : cfg.guarded = true) (d0 : Dst) (st : St)
    (h : Ready d0 cfg.blob st) : ∃ st1, prepare cfg st = some st1 ∧ Good d0 cfg.blob st1 ∧ st1.n = 0 := by
  rcases h.2 with hs | hn
  · exact prepare_seek cfg hg d0 hs st h.1
  · exact ⟨st, prepare_zero cfg st hn, h.1, hn⟩

theorem pollOrigin_failsOver (cfg : Cfg) (hg : cfg.guarded = true) (d0 : Dst) (i b : Nat) (script : List Resp)
    (st : St) (h : Ready d0 cfg.blob st)
    (hf : (d0.kind = .seek ∧ FailsOver cfg.blob.length script) ∨ FailsClean cfg.blob.length script) :
    (pollOrigin cfg i script b st).2 = .next ∧ Ready d0 cfg.blob (pollOrigin cfg i script b st).1 := by
  obtain ⟨st1, hprep, hgood1, hn1⟩ := ready_prepare cfg hg d0 st h
  have hreq := fun r (hr : r.honest cfg.blob.length) => doRequest_good cfg i d0 st1 r hgood1 hn1 hr
  cases script with
  | nil =>
    unfold pollOrigin; rw [hprep]
    refine ⟨rfl, (hreq .netErr trivial).2 (by simp [doRequest, request]), ?_⟩
    right; simp [doRequest, request, hn1]
  | cons r rest =>
    unfold pollOrigin; rw [hprep]
    cases r with
    | netErr =>
      simp only [doRequest, request]
      refine ⟨trivial, by simpa [doRequest, request] using (hreq .netErr trivial).2 (by simp [doRequest, request]), ?_⟩
      right; simp [hn1]
    | full ch => rcases hf with hf | hf <;> simp [FailsOver, FailsClean] at hf
    | eof k => rcases hf with hf | hf <;> simp [FailsOver, FailsClean] at hf
    | status c =>
      have hc : 500 ≤ c := by
        rcases hf with hf | hf
        · simpa [FailsOver] using hf.2
        · simpa [FailsClean] using hf
      have h1 : ¬ c = 202 := by omega
      have h2 : ¬ c < 500 := by omega
      simp only [doRequest, request, h1, h2, if_false]
      refine ⟨trivial, by simpa [doRequest, request] using (hreq (.status c) trivial).2 (by simp [doRequest, request]), ?_⟩
      right; simp [hn1]
    | cut k ch =>
      cases ch with
      | false =>
        rcases hf with hf | hf
        · have hk : k < cfg.blob.length := by simpa [FailsOver] using hf.2
          simp only [doRequest, request, hk, if_true]
          refine ⟨trivial, by simpa [doRequest, request, hk] using (hreq (.cut k false) trivial).2 (by simp [doRequest, request, hk]), ?_⟩
          left; exact hf.1
        · obtain ⟨hk0, hb⟩ : k = 0 ∧ 0 < cfg.blob.length := by simpa [FailsClean] using hf
          subst hk0
          simp only [doRequest, request, hb, if_true]
          refine ⟨trivial, by simpa [doRequest, request, hb] using (hreq (.cut 0 false) trivial).2 (by simp [doRequest, request, hb]), ?_⟩
          right; simp [hn1]
      | true =>
        simp only [doRequest, request]
        refine ⟨trivial, by simpa [doRequest, request] using (hreq (.cut k true) trivial).2 (by simp [doRequest, request]), ?_⟩
        rcases hf with hf | hf
        · left; exact hf.1
        · right
          have : k = 0 ∨ cfg.blob.length = 0 := by simpa [FailsClean] using hf
          simp only [hn1, Nat.zero_add, List.length_take]
          omega

theorem pollOrigin_delivers (cfg : Cfg) (hg : cfg.guarded = true) (d0 : Dst) (i b : Nat) (script : List Resp)
    (st : St) (h : Ready d0 cfg.blob st) (hd : HeadDelivers cfg.blob.length script) :
    (pollOrigin cfg i script b st).2 = .done .ok := by
  obtain ⟨st1, hprep, _, _⟩ := ready_prepare cfg hg d0 st h
  cases script with
  | nil => simp [HeadDelivers] at hd
  | cons r rest =>
    unfold pollOrigin; rw [hprep]
    cases r with
    | netErr => simp [HeadDelivers, Resp.delivers] at hd
    | status c => simp [HeadDelivers, Resp.delivers] at hd
    | full ch => simp [doRequest, request]
    | eof k => simp [doRequest, request]
    | cut k ch =>
      cases ch with
      | true => simp [HeadDelivers, Resp.delivers] at hd
      | false =>
        have hk : ¬ k < cfg.blob.length := by simp [HeadDelivers, Resp.delivers] at hd; omega
        simp [doRequest, request, hk]

theorem pollFrom_fallthrough (cfg : Cfg) (hg : cfg.guarded = true) (d0 : Dst) (o : List Resp)
    (post : List (List Resp)) (hd : HeadDelivers cfg.blob.length o) :
    ∀ (pre : List (List Resp)) (i : Nat) (st : St), Ready d0 cfg.blob st →
      (∀ s ∈ pre, (d0.kind = .seek ∧ FailsOver cfg.blob.length s) ∨ FailsClean cfg.blob.length s) →
      (pollFrom cfg i (pre ++ o :: post) st).2 = .ok := by
  intro pre
  induction pre with
  | nil =>
    intro i st h _
    have := pollOrigin_delivers cfg hg d0 i cfg.bo o st h hd
    simp only [List.nil_append, pollFrom]
    generalize pollOrigin cfg i o cfg.bo st = res at this
    obtain ⟨st', step⟩ := res
    simp only at this; subst this; rfl
  | cons s pre ih =>
    intro i st h hall
    have hs := pollOrigin_failsOver cfg hg d0 i cfg.bo s st h (hall s (by simp))
    simp only [List.cons_append, pollFrom]
    generalize pollOrigin cfg i s cfg.bo st = res at hs
    obtain ⟨st', step⟩ := res
    simp only at hs
    obtain ⟨h1, h2⟩ := hs
    subst h1
    exact ih (i + 1) st' h2 (fun s' hm => hall s' (List.mem_cons_of_mem _ hm))

/-- an unseekable destination that already holds body bytes: every later request is refused
by the guard, nothing more is written and the poll ends "unavailable" -/
theorem pollFrom_gives_up (cfg : Cfg) (hg : cfg.guarded = true) :
    ∀ (os : List (List Resp)) (i : Nat) (st : St), st.dst.kind = .plain → 0 < st.n →
      pollFrom cfg i os st = (st, .unavailable) := by
  intro os
  induction os with
  | nil => intro i st _ _; rfl
  | cons o os ih =>
    intro i st hk hn
    have hprep : prepare cfg st = none := by
      have : ¬ st.n = 0 := by omega
      simp [prepare, hg, this, hk]
    have : pollOrigin cfg i o cfg.bo st = (st, .next) := by
      cases o <;> simp [pollOrigin, hprep]
    simp only [pollFrom, this]
    exact ih (i + 1) st hk hn

end KrakenModel.Proof.C35
