import KrakenModel.Proof.C04Base
/-
  C04 proof library, part 2: the invariant on the three files that matter (the blob being assembled,
  its piece status vector, the cached blob) and the phases an operation's plan is made of.
-/
set_option linter.unusedSectionVars false
set_option linter.unusedSimpArgs false
namespace KrakenModel.AgentCrash
open KrakenModel.FS

theorem stateName_ne : stateName false ≠ stateName true := by decide

theorem entryDir_ne (cfg : Cfg) : entryDir cfg false ≠ entryDir cfg true := by
  intro e; have := congrArg List.head? e; simp [entryDir] at this; exact stateName_ne this

theorem entryDir_ne_nil (cfg : Cfg) (c : Bool) : entryDir cfg c ≠ [] := by simp [entryDir]

/-! ### pieces -/

/-- bytes `j` of piece `i` (as far as the blob reaches) are those of the blob -/
def PieceOK (cfg : Cfg) (d : Bytes) (i : Nat) : Prop :=
  ∀ j, i * cfg.pl ≤ j → j < (i + 1) * cfg.pl → j < cfg.blob.length → d[j]? = cfg.blob[j]?

theorem numPieces_mul_ge (cfg : Cfg) (hpl : 0 < cfg.pl) : cfg.blob.length ≤ numPieces cfg * cfg.pl := by
  unfold numPieces
  have h1 := Nat.div_add_mod (cfg.blob.length + cfg.pl - 1) cfg.pl
  have h2 := Nat.mod_lt (cfg.blob.length + cfg.pl - 1) hpl
  rw [Nat.mul_comm]
  generalize (cfg.blob.length + cfg.pl - 1) / cfg.pl = q at *
  generalize (cfg.blob.length + cfg.pl - 1) % cfg.pl = r at *
  generalize cfg.pl * q = x at *
  omega

theorem eq_blob_of_all_ok (cfg : Cfg) (hpl : 0 < cfg.pl) (d : Bytes) (hlen : d.length ≤ cfg.blob.length)
    (h : ∀ i, i < numPieces cfg → PieceOK cfg d i) : d = cfg.blob := by
  apply List.ext_getElem?
  intro j
  by_cases hj : j < cfg.blob.length
  · have h1 := Nat.div_add_mod j cfg.pl
    have h2 := Nat.mod_lt j hpl
    have hi : j / cfg.pl < numPieces cfg := by
      rw [Nat.div_lt_iff_lt_mul hpl]
      have := numPieces_mul_ge cfg hpl; omega
    refine h (j / cfg.pl) hi j ?_ ?_ hj
    · rw [Nat.mul_comm]; generalize cfg.pl * (j / cfg.pl) = x at *; omega
    · rw [Nat.add_mul, Nat.mul_comm]; generalize cfg.pl * (j / cfg.pl) = x at *; omega
  · rw [List.getElem?_eq_none (by omega), List.getElem?_eq_none (by omega)]

theorem pieceLength_eq (cfg : Cfg) (i : Nat) : pieceLength cfg i = min cfg.pl (cfg.blob.length - i * cfg.pl) := by
  simp [pieceLength, pieceOf, List.length_take, List.length_drop]

theorem getElem?_pieceOf (cfg : Cfg) (i j : Nat) (h1 : i * cfg.pl ≤ j) (h2 : j < (i + 1) * cfg.pl) :
    (pieceOf cfg i)[j - i * cfg.pl]? = cfg.blob[j]? := by
  simp only [pieceOf]
  rw [List.getElem?_take_of_lt (by rw [Nat.add_mul] at h2; omega), List.getElem?_drop]
  congr 1; omega

/-! ### the invariant -/

structure GoodFS (cfg : Cfg) (fs : FS Name) : Prop where
  /-- the cache only ever holds the blob -/
  cacheOK : ∀ b, fs.file? (entryDir cfg true) .data = some b → b = cfg.blob
  one : ¬ ((fs.file? (entryDir cfg false) .data).isSome = true ∧ (fs.file? (entryDir cfg true) .data).isSome = true)
  dlen : ∀ d, fs.file? (entryDir cfg false) .data = some d → d.length ≤ cfg.blob.length
  stlen : ∀ st, fs.file? (entryDir cfg false) .status = some st → st = [] ∨ st.length = numPieces cfg
  /-- a piece marked complete on disk holds the blob's bytes -/
  pieces : ∀ d st, fs.file? (entryDir cfg false) .data = some d → fs.file? (entryDir cfg false) .status = some st →
    st.length = numPieces cfg → ∀ i, i < numPieces cfg → st[i]? = some 1 → PieceOK cfg d i

/-- the three files the invariant talks about -/
def key3 (cfg : Cfg) : List (Path × Name) :=
  [(entryDir cfg false, .data), (entryDir cfg false, .status), (entryDir cfg true, .data)]

/-- a call that cannot change any of them -/
def Neutral (cfg : Cfg) (c : Call Name) : Prop :=
  c.isRenameDir = false ∧ ∀ x ∈ key3 cfg, x ∉ c.writes

theorem goodFS_congr {cfg : Cfg} {fs fs' : FS Name} (h : ∀ x ∈ key3 cfg, fs'.file? x.1 x.2 = fs.file? x.1 x.2)
    (g : GoodFS cfg fs) : GoodFS cfg fs' := by
  have h1 := h (entryDir cfg false, .data) (by simp [key3])
  have h2 := h (entryDir cfg false, .status) (by simp [key3])
  have h3 := h (entryDir cfg true, .data) (by simp [key3])
  simp only at h1 h2 h3
  exact ⟨by rw [h3]; exact g.cacheOK, by rw [h1, h3]; exact g.one, by rw [h1]; exact g.dlen,
    by rw [h2]; exact g.stlen, by rw [h1, h2]; exact g.pieces⟩

theorem key3_applyPrefix_neutral (cfg : Cfg) (cs : List (Call Name)) (hn : ∀ c ∈ cs, Neutral cfg c) (fs : FS Name) (k : Nat) :
    ∀ x ∈ key3 cfg, (applyPrefix k cs fs).file? x.1 x.2 = fs.file? x.1 x.2 := by
  intro x hx
  exact file?_applyPrefix_of_not_written k cs fs x.1 x.2 (fun c hc => ⟨(hn c hc).1, (hn c hc).2 x hx⟩)

theorem key3_applyAll_neutral (cfg : Cfg) (cs : List (Call Name)) (hn : ∀ c ∈ cs, Neutral cfg c) (fs : FS Name) :
    ∀ x ∈ key3 cfg, (applyAll fs cs).file? x.1 x.2 = fs.file? x.1 x.2 := by
  intro x hx
  exact file?_applyAll_of_not_written cs fs x.1 x.2 (fun c hc => ⟨(hn c hc).1, (hn c hc).2 x hx⟩)

/-! ### composing phases -/

theorem applyPrefix_append' {ν : Type} [DecidableEq ν] (k : Nat) (a b : List (Call ν)) (fs : FS ν) :
    applyPrefix k (a ++ b) fs =
      if k ≤ a.length then applyPrefix k a fs else applyPrefix (k - a.length) b (applyAll fs a) := by
  unfold applyPrefix
  split
  · rename_i h; rw [List.take_append_of_le_length h]
  · rename_i h; rw [List.take_append, applyAll_append, List.take_of_length_le (by omega)]

theorem prefix_append {ν : Type} [DecidableEq ν] (G : FS ν → Prop) (a b : List (Call ν)) (fs : FS ν)
    (ha : ∀ k, G (applyPrefix k a fs)) (hb : ∀ k, G (applyPrefix k b (applyAll fs a))) :
    ∀ k, G (applyPrefix k (a ++ b) fs) := by
  intro k; rw [applyPrefix_append']; split
  · exact ha k
  · exact hb _

theorem neutral_prefix {cfg : Cfg} {fs : FS Name} (g : GoodFS cfg fs) (cs : List (Call Name))
    (hn : ∀ c ∈ cs, Neutral cfg c) : ∀ k, GoodFS cfg (applyPrefix k cs fs) :=
  fun k => goodFS_congr (key3_applyPrefix_neutral cfg cs hn fs k) g

/-! ### neutral building blocks -/

theorem mkdirAll_neutral (cfg : Cfg) (fs : FS Name) (p : Path) : ∀ c ∈ mkdirAllPlan fs p, Neutral cfg c := by
  intro c hc
  obtain ⟨h1, h2⟩ := mkdirAllPlan_nowrite fs p c hc
  exact ⟨h1, fun x _ => by rw [h2]; simp⟩

/-- `compareAndWriteFile` writes the file it is given and nothing else -/
theorem cawPlan_writes (fs : FS Name) (dir : Path) (n : Name) (b : Bytes) :
    ∀ c ∈ cawPlan fs dir n b, c.isRenameDir = false ∧ ∀ x ∈ c.writes, x = (dir, n) := by
  intro c hc
  unfold cawPlan at hc
  split at hc
  · simp only [List.mem_append, List.mem_singleton] at hc
    rcases hc with (hc | hc) | hc
    · obtain ⟨h1, h2⟩ := mkdirAllPlan_nowrite fs dir c hc
      exact ⟨h1, by rw [h2]; simp⟩
    · subst hc; exact ⟨rfl, by simp [Call.writes]⟩
    · split at hc
      · simp at hc
      · simp at hc; subst hc; exact ⟨rfl, by simp [Call.writes]⟩
  · split at hc
    · simp at hc
    · simp only [List.mem_append] at hc
      rcases hc with hc | hc
      · split at hc
        · simp at hc
        · simp at hc; subst hc; exact ⟨rfl, by simp [Call.writes]⟩
      · split at hc
        · simp at hc
        · simp at hc; subst hc; exact ⟨rfl, by simp [Call.writes]⟩

theorem cawPlan_neutral (cfg : Cfg) (fs : FS Name) (dir : Path) (n : Name) (b : Bytes)
    (h : (dir, n) ∉ key3 cfg) : ∀ c ∈ cawPlan fs dir n b, Neutral cfg c := by
  intro c hc
  obtain ⟨h1, h2⟩ := cawPlan_writes fs dir n b c hc
  exact ⟨h1, fun x hx hw => h (by rw [← h2 x hw]; exact hx)⟩

theorem not_key3_lat (cfg : Cfg) (c : Bool) : (entryDir cfg c, Name.lat) ∉ key3 cfg := by simp [key3]
theorem not_key3_tmeta (cfg : Cfg) (c : Bool) : (entryDir cfg c, Name.tmeta) ∉ key3 cfg := by simp [key3]
theorem not_key3_castatus (cfg : Cfg) : (entryDir cfg true, Name.status) ∉ key3 cfg := by
  simp only [key3, List.mem_cons, Prod.mk.injEq, List.not_mem_nil, or_false, not_or]
  exact ⟨fun h => by simp at h, fun h => entryDir_ne cfg h.1.symm, fun h => by simp at h⟩

theorem latPlan_neutral (cfg : Cfg) (fs : FS Name) (c : Bool) : ∀ x ∈ latPlan cfg fs (entryDir cfg c), Neutral cfg x := by
  intro x hx
  unfold latPlan at hx
  split at hx
  · simp at hx
  · exact cawPlan_neutral cfg fs _ _ _ (not_key3_lat cfg c) x hx

theorem touch_neutral (cfg : Cfg) (e : Entry) (fs : FS Name) : ∀ x ∈ (touch cfg e fs).2, Neutral cfg x := by
  intro x hx
  unfold touch at hx
  split at hx
  · exact cawPlan_neutral cfg fs _ _ _ (not_key3_lat cfg e.cache) x hx
  · simp at hx

theorem restartPlan_neutral (cfg : Cfg) (fs : FS Name) : ∀ c ∈ restartPlan fs, Neutral cfg c := by
  intro c hc
  simp only [restartPlan, List.mem_append] at hc
  rcases hc with hc | hc
  · exact mkdirAll_neutral cfg _ _ c hc
  · exact mkdirAll_neutral cfg _ _ c hc

end KrakenModel.AgentCrash
