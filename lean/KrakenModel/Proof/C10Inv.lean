import KrakenModel.Util.KV
import KrakenModel.Model.FileCleanup
import KrakenModel.Proof.C10Pass
/-
  Well-formedness of every reachable state of Model.FileCleanup (used by Spec/C10 to discharge the side
  conditions of the pass theorems for reachable states): file names are distinct, every file carries a
  last-access sidecar, and the map names only existing files, each once.
-/
namespace KrakenModel.Proof.C10.Inv
open KrakenModel KrakenModel.FileCleanup KrakenModel.Proof.C10.Pass

structure WF (s : State) : Prop where
  fn : (KV.keys s.files).Nodup
  lat : ∀ p ∈ s.files, p.2.lat.isSome
  mn : (KV.keys s.map).Nodup
  ms : ∀ k ∈ KV.keys s.map, k ∈ KV.keys s.files

theorem WF.mapOK {s : State} (h : WF s) : MapOK s := ⟨h.mn, h.ms⟩

theorem mem_keys_put {ν : Type} {m : List (Name × ν)} {k x : Name} {v : ν} :
    x ∈ KV.keys (KV.put m k v) ↔ x = k ∨ x ∈ KV.keys m := by
  simp only [KV.put, KV.keys, List.map_cons, List.mem_cons]
  constructor
  · rintro (e | h)
    · exact Or.inl e
    · exact Or.inr (KV.mem_keys_del.mp h).1
  · rintro (e | h)
    · exact Or.inl e
    · by_cases e : x = k
      · exact Or.inl e
      · exact Or.inr (KV.mem_keys_del.mpr ⟨h, e⟩)

theorem keys_put_nodup {ν : Type} {m : List (Name × ν)} (h : (KV.keys m).Nodup) (k : Name) (v : ν) :
    (KV.keys (KV.put m k v)).Nodup := by
  simp only [KV.put, KV.keys, List.map_cons, List.nodup_cons]
  exact ⟨fun hm => (KV.mem_keys_del.mp hm).2 rfl, List.Nodup.sublist (KV.keys_del_sublist m k) h⟩

/-- replacing the content of an existing or new file by one that has a sidecar -/
theorem wf_put {s : State} (h : WF s) (n : Name) (v : File) (hv : v.lat.isSome) :
    WF { s with files := KV.put s.files n v } :=
  ⟨keys_put_nodup h.fn n v,
   fun p hp => by
     rcases KV.mem_put.mp hp with e | ⟨hm, _⟩
     · subst e; exact hv
     · exact h.lat p hm,
   h.mn, fun k hk => mem_keys_put.mpr (Or.inr (h.ms k hk))⟩

theorem wf_map {s : State} (h : WF s) (m : List (Name × Int)) (hn : (KV.keys m).Nodup)
    (hs : ∀ k ∈ KV.keys m, k ∈ KV.keys s.files) : WF { s with map := m } := ⟨h.fn, h.lat, hn, hs⟩

theorem wf_cons {s : State} (h : WF s) (n : Name) (t : Int) (hnm : KV.has s.map n = false) (hf : n ∈ KV.keys s.files) :
    WF { s with map := (n, t) :: s.map } := by
  have hnk : n ∉ KV.keys s.map := by
    apply KV.get_none_not_key
    cases hg : KV.get s.map n with
    | none => rfl
    | some _ => simp [KV.has, hg] at hnm
  refine wf_map h _ ?_ ?_
  · simp only [KV.keys, List.map_cons, List.nodup_cons]; exact ⟨hnk, h.mn⟩
  · intro k hk
    simp only [KV.keys, List.map_cons, List.mem_cons] at hk
    rcases hk with e | hk
    · subst e; exact hf
    · exact h.ms k hk

/-- delete the file of `n` (unless persisted) and drop its map entry -/
theorem wf_unmap {s : State} (h : WF s) (n : Name) :
    WF { (entryDelete s n).1 with map := KV.del (entryDelete s n).1.map n } := by
  have hmapdel : WF { s with map := KV.del s.map n } :=
    wf_map h _ (List.Nodup.sublist (KV.keys_del_sublist _ _) h.mn) (fun k hk => h.ms k (KV.mem_keys_del.mp hk).1)
  unfold entryDelete
  split
  · exact hmapdel
  · split
    · exact hmapdel
    · exact ⟨keys_del_nodup h.fn n, fun p hp => h.lat p (KV.mem_del.mp hp).1,
        List.Nodup.sublist (KV.keys_del_sublist _ _) h.mn,
        fun k hk => by
          have hk' := KV.mem_keys_del.mp hk
          exact KV.mem_keys_del.mpr ⟨h.ms k hk'.1, hk'.2⟩⟩

theorem evict_wf {s : State} (h : WF s) : WF (evictIfNeeded s) := by
  unfold evictIfNeeded
  split
  · exact h
  · split
    · exact h
    · exact wf_unmap h _

theorem storeEntry_wf {s : State} (h : WF s) (n : Name) (hnm : KV.has s.map n = false) : WF (storeEntry s n) := by
  unfold storeEntry
  cases hg : KV.get s.files n with
  | none => exact h
  | some f =>
    have hk := KV.get_some_key hg
    cases hl : f.lat with
    | some l => simp only [hl]; exact evict_wf (wf_cons h n l hnm hk)
    | none =>
      simp only [hl]
      refine evict_wf ?_
      have h1 := wf_put h n { f with lat := some (truncSec s.now) } rfl
      exact wf_cons (s := { s with files := KV.put s.files n { f with lat := some (truncSec s.now) } }) h1 n s.now hnm
        (mem_keys_put.mpr (Or.inl rfl))

theorem reload_wf {s : State} (h : WF s) (n : Name) : WF (reload s n).1 := by
  unfold reload
  split
  · exact h
  · rename_i hnm
    split
    · exact storeEntry_wf h n (by simpa using hnm)
    · exact h

theorem moveFront_wf {s : State} (h : WF s) (n : Name) : WF { s with map := moveFront s.map n } :=
  wf_map h _ ((moveFront_keys s.map n).1 h.mn) (fun k hk => h.ms k ((moveFront_keys s.map n).2 k hk))

theorem touch_wf {s : State} (h : WF s) (n : Name) : WF (touch s n) := by
  unfold touch
  cases hg : KV.get s.map n with
  | none => exact h
  | some t =>
    simp only
    split
    · have hmap : (KV.keys ((n, s.now) :: KV.del s.map n)).Nodup ∧ ∀ k ∈ KV.keys ((n, s.now) :: KV.del s.map n), k ∈ KV.keys s.map := by
        constructor
        · simp only [KV.keys, List.map_cons, List.nodup_cons]
          exact ⟨fun hm => (KV.mem_keys_del.mp hm).2 rfl, List.Nodup.sublist (KV.keys_del_sublist _ _) h.mn⟩
        · intro k hk
          simp only [KV.keys, List.map_cons, List.mem_cons] at hk
          rcases hk with e | hk
          · subst e; exact KV.get_some_key hg
          · exact (KV.mem_keys_del.mp hk).1
      cases hf : KV.get s.files n with
      | none => exact wf_map h _ hmap.1 (fun k hk => h.ms k (hmap.2 k hk))
      | some f =>
        simp only
        have h1 := wf_put h n { f with lat := some (truncSec s.now) } rfl
        exact wf_map (s := { s with files := KV.put s.files n { f with lat := some (truncSec s.now) } }) h1 _ hmap.1
          (fun k hk => mem_keys_put.mpr (Or.inr (h.ms k (hmap.2 k hk))))
    · exact moveFront_wf h n

theorem peek_wf {s : State} (h : WF s) (n : Name) : WF (peek s n).1 := by
  unfold peek
  have hr := reload_wf h n
  cases hrel : reload s n with
  | mk s1 b =>
    rw [hrel] at hr
    cases b with
    | false => exact hr
    | true => simp only; split
              · exact moveFront_wf hr n
              · exact hr

theorem access_wf {s : State} (h : WF s) (n : Name) : WF (access s n).1 := by
  unfold access
  have hr := reload_wf h n
  cases hrel : reload s n with
  | mk s1 b =>
    rw [hrel] at hr
    cases b with
    | false => exact hr
    | true => simp only; split
              · exact touch_wf hr n
              · exact hr

theorem updFile_wf {s : State} (h : WF s) (n : Name) (g : File → File) (hg : ∀ f, f.lat.isSome → (g f).lat.isSome) :
    WF (updFile s n g) := by
  unfold updFile
  cases hf : KV.get s.files n with
  | none => exact h
  | some f => exact wf_put h n (g f) (hg f (h.lat _ (KV.get_some_mem hf)))

theorem viaAccess_wf {s : State} (h : WF s) (n : Name) (g : File → File) (hg : ∀ f, f.lat.isSome → (g f).lat.isSome) :
    WF (match access s n with | (s1, .ok) => (updFile s1 n g, Res.ok) | r => r).1 := by
  have ha := access_wf h n
  cases hacc : access s n with
  | mk s1 r =>
    rw [hacc] at ha
    cases r <;> first | exact updFile_wf ha n g hg | exact ha

theorem delete_wf {s : State} (h : WF s) (n : Name) : WF (delete s n).1 := by
  unfold delete
  have hr := reload_wf h n
  cases hrel : reload s n with
  | mk s1 b =>
    rw [hrel] at hr
    cases b with
    | false => exact hr
    | true =>
      simp only
      split
      · exact hr
      · exact wf_unmap hr n

theorem create_wf {s : State} (h : WF s) (n : Name) (size : Nat) : WF (create s n size).1 := by
  unfold create
  split
  · exact access_wf h n
  · rename_i hnm
    have hnm' : KV.has s.map n = false := by simpa using hnm
    split
    · exact storeEntry_wf h n hnm'
    · refine evict_wf ?_
      unfold createInsert
      have h1 := wf_put h n { size := size, mtime := s.now, lat := some (truncSec s.now) } rfl
      exact wf_cons (s := { s with files := KV.put s.files n { size := size, mtime := s.now, lat := some (truncSec s.now) } })
        h1 n s.now hnm' (mem_keys_put.mpr (Or.inl rfl))

theorem ite_wf {c : Prop} [Decidable c] {a b : State} (ha : WF a) (hb : WF b) : WF (if c then a else b) := by
  split <;> assumption

theorem ttlVisit_wf (tti ttl : Int) (thr : Option Nat) (used : Nat) (acc : State × Nat) (m : Name) (h : WF acc.1) :
    WF (ttlVisit tti ttl thr used acc m).1 := by
  obtain ⟨s, sc⟩ := acc
  have h1 := peek_wf (s := s) h m
  unfold ttlVisit
  simp only
  cases hpk : peek s m with
  | mk s1 r =>
    rw [hpk] at h1
    cases r with
    | ok =>
      simp only
      cases hf : KV.get s1.files m with
      | none => exact h1
      | some f =>
        simp only
        have h2 := peek_wf (s := s1) h1 m
        exact ite_wf (delete_wf h2 m) h2
    | notExist => exact h1
    | exist => exact h1
    | persisted => exact h1

theorem foldl_wf {α : Type} (f : State × α → Name → State × α)
    (hf : ∀ acc m, WF acc.1 → WF (f acc m).1) (l : List Name) : ∀ acc, WF acc.1 → WF (l.foldl f acc).1 := by
  induction l with
  | nil => intro acc h; exact h
  | cons m l ih => intro acc h; exact ih _ (hf acc m h)

theorem gatherVisit_wf (acc : State × List FInfo × Nat) (m : Name) (h : WF acc.1) : WF (gatherVisit acc m).1 := by
  obtain ⟨s, infos, usage⟩ := acc
  have h1 := peek_wf (s := s) h m
  unfold gatherVisit
  simp only
  cases hpk : peek s m with
  | mk s1 r =>
    rw [hpk] at h1
    cases r with
    | ok =>
      simp only
      cases hf : KV.get s1.files m with
      | none => exact h1
      | some f =>
        simp only
        have h2 := peek_wf (s := s1) h1 m
        cases f.lat <;> exact h2
    | notExist => exact h1
    | exist => exact h1
    | persisted => exact h1

theorem policyDelete_wf (l : List FInfo) : ∀ (s : State) (r : Int), WF s → WF (policyDelete s r l) := by
  induction l with
  | nil => intro s r h; exact h
  | cons f l ih =>
    intro s r h
    simp only [policyDelete]
    split
    · exact h
    · have hd := delete_wf (s := s) h f.name
      cases hdel : delete s f.name with
      | mk s1 x =>
        rw [hdel] at hd
        cases x <;> exact ih _ _ hd

theorem step_wf (s : State) (o : Op) (h : WF s) : WF (step s o) := by
  cases o with
  | create n size => exact create_wf h n size
  | setMtime n t => exact updFile_wf h n _ (fun _ hf => hf)
  | read n => exact access_wf h n
  | stat n => exact peek_wf h n
  | persist n b => exact viaAccess_wf h n _ (fun _ hf => hf)
  | unpersist n => exact viaAccess_wf h n _ (fun _ hf => hf)
  | setLat n t => exact viaAccess_wf h n _ (fun _ _ => rfl)
  | delete n => exact delete_wf h n
  | tick dt => exact ⟨h.fn, h.lat, h.mn, h.ms⟩
  | cleanupTTL tti ttl p u =>
    simp only [step, cleanupTTL]
    exact foldl_wf _ (fun acc m ha => ttlVisit_wf tti ttl _ _ acc m ha) _ _ h
  | cleanupPolicy p u =>
    simp only [step, cleanupPolicy]
    have hg := foldl_wf (α := List FInfo × Nat) gatherVisit (fun acc m ha => gatherVisit_wf acc m ha) (listNames s) (s, [], 0) h
    generalize (listNames s).foldl gatherVisit (s, [], 0) = r at hg
    obtain ⟨s1, infos, usage⟩ := r
    exact policyDelete_wf _ _ _ hg
  | job interval c util u =>
    have h' : WF { s with now := s.now + interval } := ⟨h.fn, h.lat, h.mn, h.ms⟩
    have hT : ∀ (s0 : State) tti ttl p, WF s0 → WF (cleanupTTL s0 tti ttl p u).1 := by
      intro s0 tti ttl p h0
      simp only [cleanupTTL]
      exact foldl_wf _ (fun acc m ha => ttlVisit_wf tti ttl _ _ acc m ha) _ _ h0
    have hP : ∀ (s0 : State) p, WF s0 → WF (cleanupPolicy s0 p u).1 := by
      intro s0 p h0
      simp only [cleanupPolicy]
      have hg := foldl_wf (α := List FInfo × Nat) gatherVisit (fun acc m ha => gatherVisit_wf acc m ha) (listNames s0) (s0, [], 0) h0
      generalize (listNames s0).foldl gatherVisit (s0, [], 0) = r at hg
      obtain ⟨s1, infos, usage⟩ := r
      exact policyDelete_wf _ _ _ hg
    simp only [step, jobCleanup]
    split
    · exact hP _ _ h'
    · split
      · exact hT _ _ _ _ h'
      · exact hT _ _ _ _ h'

/-! ### the capacity is configuration -/

theorem evict_cap (s : State) : (evictIfNeeded s).cap = s.cap := by
  unfold evictIfNeeded entryDelete
  repeat' split
  all_goals rfl

theorem storeEntry_cap (s : State) (n : Name) : (storeEntry s n).cap = s.cap := by
  unfold storeEntry
  repeat' split
  all_goals first | rfl | (rw [evict_cap])

theorem reload_cap (s : State) (n : Name) : (reload s n).1.cap = s.cap := by
  unfold reload
  repeat' split
  all_goals first | rfl | exact storeEntry_cap s n

theorem touch_cap (s : State) (n : Name) : (touch s n).cap = s.cap := by
  unfold touch
  repeat' split
  all_goals rfl

theorem peek_cap (s : State) (n : Name) : (peek s n).1.cap = s.cap := by
  unfold peek
  have := reload_cap s n
  cases hrel : reload s n with
  | mk s1 b => rw [hrel] at this; cases b <;> simp only <;> (try split) <;> exact this

theorem access_cap (s : State) (n : Name) : (access s n).1.cap = s.cap := by
  unfold access
  have := reload_cap s n
  cases hrel : reload s n with
  | mk s1 b =>
    rw [hrel] at this
    cases b
    · exact this
    · simp only; split
      · rw [touch_cap]; exact this
      · exact this

theorem updFile_cap (s : State) (n : Name) (g : File → File) : (updFile s n g).cap = s.cap := by
  unfold updFile; split <;> rfl

theorem viaAccess_cap (s : State) (n : Name) (g : File → File) :
    (match access s n with | (s1, .ok) => (updFile s1 n g, Res.ok) | r => r).1.cap = s.cap := by
  have ha := access_cap s n
  cases hacc : access s n with
  | mk s1 r => rw [hacc] at ha; cases r <;> first | (simp only [updFile_cap]; exact ha) | exact ha

theorem delete_cap (s : State) (n : Name) : (delete s n).1.cap = s.cap := by
  unfold delete
  have := reload_cap s n
  cases hrel : reload s n with
  | mk s1 b =>
    rw [hrel] at this
    cases b
    · exact this
    · simp only
      split
      · exact this
      · unfold entryDelete
        repeat' split
        all_goals exact this

theorem create_cap (s : State) (n : Name) (size : Nat) : (create s n size).1.cap = s.cap := by
  unfold create
  split
  · exact access_cap s n
  · split
    · exact storeEntry_cap s n
    · rw [evict_cap]; rfl

theorem foldl_cap {α : Type} (f : State × α → Name → State × α) (hf : ∀ acc m, (f acc m).1.cap = acc.1.cap) (l : List Name) :
    ∀ acc, (l.foldl f acc).1.cap = acc.1.cap := by
  induction l with
  | nil => intro acc; rfl
  | cons m l ih => intro acc; rw [List.foldl_cons, ih, hf]

theorem ttlVisit_cap (tti ttl : Int) (thr : Option Nat) (used : Nat) (acc : State × Nat) (m : Name) :
    (ttlVisit tti ttl thr used acc m).1.cap = acc.1.cap := by
  obtain ⟨s, sc⟩ := acc
  have h1 := peek_cap s m
  unfold ttlVisit
  simp only
  cases hpk : peek s m with
  | mk s1 r =>
    rw [hpk] at h1
    cases r with
    | ok =>
      simp only
      cases hf : KV.get s1.files m with
      | none => exact h1
      | some f =>
        simp only
        have h2 := peek_cap s1 m
        have h3 : (delete (peek s1 m).1 m).1.cap = s.cap := by rw [delete_cap, h2]; exact h1
        have h4 : (peek s1 m).1.cap = s.cap := by rw [h2]; exact h1
        split <;> (split <;> assumption)
    | notExist => exact h1
    | exist => exact h1
    | persisted => exact h1

theorem gatherVisit_cap (acc : State × List FInfo × Nat) (m : Name) : (gatherVisit acc m).1.cap = acc.1.cap := by
  obtain ⟨s, infos, usage⟩ := acc
  have h1 := peek_cap s m
  unfold gatherVisit
  simp only
  cases hpk : peek s m with
  | mk s1 r =>
    rw [hpk] at h1
    cases r with
    | ok =>
      simp only
      cases hf : KV.get s1.files m with
      | none => exact h1
      | some f =>
        simp only
        have h2 := peek_cap s1 m
        cases f.lat <;> (simp only; rw [h2]; exact h1)
    | notExist => exact h1
    | exist => exact h1
    | persisted => exact h1

theorem policyDelete_cap (l : List FInfo) : ∀ (s : State) (r : Int), (policyDelete s r l).cap = s.cap := by
  induction l with
  | nil => intro s r; rfl
  | cons f l ih =>
    intro s r
    simp only [policyDelete]
    split
    · rfl
    · have hd := delete_cap s f.name
      cases hdel : delete s f.name with
      | mk s1 x => rw [hdel] at hd; cases x <;> (simp only; rw [ih]; exact hd)

theorem step_cap (s : State) (o : Op) : (step s o).cap = s.cap := by
  cases o with
  | create n size => exact create_cap s n size
  | setMtime n t => exact updFile_cap s n _
  | read n => exact access_cap s n
  | stat n => exact peek_cap s n
  | persist n b => exact viaAccess_cap s n _
  | unpersist n => exact viaAccess_cap s n _
  | setLat n t => exact viaAccess_cap s n _
  | delete n => exact delete_cap s n
  | tick dt => rfl
  | cleanupTTL tti ttl p u =>
    simp only [step, cleanupTTL]
    exact foldl_cap _ (fun acc m => ttlVisit_cap tti ttl _ _ acc m) _ _
  | cleanupPolicy p u =>
    simp only [step, cleanupPolicy]
    have hg := foldl_cap (α := List FInfo × Nat) gatherVisit gatherVisit_cap (listNames s) (s, [], 0)
    generalize (listNames s).foldl gatherVisit (s, [], 0) = r at hg
    obtain ⟨s1, infos, usage⟩ := r
    simp only at hg ⊢
    rw [policyDelete_cap]; exact hg
  | job interval c util u =>
    have hT : ∀ (s0 : State) tti ttl p, (cleanupTTL s0 tti ttl p u).1.cap = s0.cap := by
      intro s0 tti ttl p
      simp only [cleanupTTL]
      exact foldl_cap _ (fun acc m => ttlVisit_cap tti ttl _ _ acc m) _ _
    have hP : ∀ (s0 : State) p, (cleanupPolicy s0 p u).1.cap = s0.cap := by
      intro s0 p
      simp only [cleanupPolicy]
      have hg := foldl_cap (α := List FInfo × Nat) gatherVisit gatherVisit_cap (listNames s0) (s0, [], 0)
      generalize (listNames s0).foldl gatherVisit (s0, [], 0) = r at hg
      obtain ⟨s1, infos, usage⟩ := r
      simp only at hg ⊢
      rw [policyDelete_cap]; exact hg
    simp only [step, jobCleanup]
    split
    · rw [hP]
    · split <;> rw [hT]

theorem run_wf (cap : Nat) (now : Int) (ops : List Op) : WF (run cap now ops) := by
  suffices h : ∀ s, WF s → WF (ops.foldl step s) from
    h _ ⟨by simp [init, KV.keys], by intro p hp; simp [init] at hp, by simp [init, KV.keys], by intro k hk; simp [init, KV.keys] at hk⟩
  induction ops with
  | nil => intro s h; exact h
  | cons o ops ih => intro s h; exact ih _ (step_wf s o h)

end KrakenModel.Proof.C10.Inv
