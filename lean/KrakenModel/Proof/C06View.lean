import KrakenModel.Proof.C06Ops
/-
  C06 proof library, part 5: what a crash in the middle of an operation leaves for one key
  (`CrashView`), the specification every operation meets (`OpOK`), and the generic cases.
-/
set_option linter.unusedSectionVars false
set_option linter.unusedSimpArgs false
namespace KrakenModel.DiskCrash
open KrakenModel.FS

/-- the files of a blob directory a client can observe: the blob, the eviction ban, the metadata -/
def viewName : Name → Bool
  | .data => true
  | .ban => true
  | .md _ => true
  | _ => false

/-- every observable file of `p'` in `fs'` is as before the operation or as after it -/
def BetweenAt (fs' : FS Name) (p' : Path) (fs : FS Name) (p : Path) (fsPost : FS Name) (pPost : Path) : Prop :=
  ∀ n, viewName n = true → fs'.file? p' n = fs.file? p n ∨ fs'.file? p' n = fsPost.file? pPost n

/-- What a crash can leave for key `K`: `m`,`fs` before the operation, `m'`,`fsPost` after it had it
completed, `fs'` the tree at the crash. -/
def CrashView (cfg : Cfg) (m : Mem) (fs : FS Name) (m' : Mem) (fsPost fs' : FS Name) (K : Key) : Prop :=
  match aget m.blobs K, aget m'.blobs K with
  | some b, some b' =>
    -- still where it was …
    (fs'.dir? (dirPath cfg (!b.complete) K) = none ∧ (fs'.dir? (dirPath cfg b.complete K)).isSome = true ∧
      BetweenAt fs' (dirPath cfg b.complete K) fs (dirPath cfg b.complete K) fsPost (dirPath cfg b'.complete K) ∧
      fs'.file? (dirPath cfg b.complete K) Name.size = fs.file? (dirPath cfg b.complete K) Name.size) ∨
    -- … or already moved by MarkComplete
    (b.complete = false ∧ b'.complete = true ∧ fs'.dir? (dirPath cfg false K) = none ∧
      (fs'.dir? (dirPath cfg true K)).isSome = true ∧
      BetweenAt fs' (dirPath cfg true K) fs (dirPath cfg false K) fsPost (dirPath cfg true K))
  | none, some b' =>
    -- being created: nothing, or the new empty blob with its reserved size
    fs'.dir? (dirPath cfg true K) = none ∧
    (rebootBlob cfg fs' false K = none ∨
      (rebootBlob cfg fs' false K = some ⟨K, b'.size, false, false⟩ ∧ cfg.reboot = true ∧
        fs'.file? (dirPath cfg false K) Name.data = some [] ∧
        ∀ md, fs'.file? (dirPath cfg false K) (Name.md md) = none))
  | none, none =>
    fs'.dir? (dirPath cfg false K) = none ∧ fs'.dir? (dirPath cfg true K) = none
  | some b, none =>
    -- being deleted or evicted: nothing appears on the other side
    fs'.dir? (dirPath cfg (!b.complete) K) = none

/-- what every operation guarantees when started in a good state -/
structure OpOK (cfg : Cfg) (m : Mem) (fs : FS Name) (r : Out) : Prop where
  wf : ∀ c ∈ r.calls, Call.wf cfg c
  post : GoodMem cfg r.mem (applyAll fs r.calls)
  pre : ∀ k, GoodFS cfg (applyPrefix k r.calls fs)
  api : r.res ≠ Res.panic ∧ r.res ≠ Res.ioExist ∧ r.res ≠ Res.ioNotExist
  view : ∀ k K, ValidKey cfg K → CrashView cfg m fs r.mem (applyAll fs r.calls) (applyPrefix k r.calls fs) K

theorem file?_congr {fs fs' : FS Name} {p p' : Path} (h : fs'.dir? p' = fs.dir? p) (n : Name) :
    fs'.file? p' n = fs.file? p n := by simp [FS.file?, h]

/-- a key whose entry and directories an operation does not change -/
theorem crashView_frame {cfg : Cfg} {m m' : Mem} {fs fsPost fs' : FS Name} {K : Key}
    (hg : GoodMem cfg m fs) (hv : ValidKey cfg K) (he : aget m'.blobs K = aget m.blobs K)
    (hd : ∀ c, fs'.dir? (dirPath cfg c K) = fs.dir? (dirPath cfg c K)) :
    CrashView cfg m fs m' fsPost fs' K := by
  unfold CrashView
  rw [he]
  cases hb : aget m.blobs K with
  | none =>
    have := hg.absent K hv hb
    exact ⟨by rw [hd]; exact this.1, by rw [hd]; exact this.2⟩
  | some b =>
    have g := hg.blob K b hb
    obtain ⟨d, h1, _⟩ := g.dir
    left
    refine ⟨by rw [hd]; exact g.other, by rw [hd, h1]; rfl, ?_, file?_congr (hd _) _⟩
    intro n _; left; exact file?_congr (hd _) n

theorem goodMem_requeue {cfg : Cfg} {m : Mem} {fs : FS Name} (hg : GoodMem cfg m fs) (k : Key) (hk : k ∈ m.queue) :
    GoodMem cfg { m with queue := m.queue.filter (· ≠ k) ++ [k] } fs := by
  refine ⟨hg.nodup, hg.blob, hg.absent, ?_, ?_⟩
  · simp only
    rw [List.nodup_append]
    refine ⟨hg.qnodup.filter _, by simp, ?_⟩
    intro a ha b hb; simp at hb; subst hb
    simp at ha; exact ha.2
  · intro K
    simp only [List.mem_append, List.mem_filter, ne_eq, decide_not, Bool.not_eq_eq_eq_not, Bool.not_true,
      decide_eq_false_iff_not, List.mem_singleton]
    rw [← hg.queue K]
    constructor
    · rintro (⟨h, _⟩ | rfl)
      · exact h
      · exact hk
    · intro h
      by_cases e : K = k
      · right; exact e
      · left; exact ⟨h, e⟩

/-- an operation without file-system calls that leaves the blobs alone -/
theorem opOK_noop {cfg : Cfg} {m m' : Mem} {fs : FS Name} (hfs : GoodFS cfg fs) (hg : GoodMem cfg m fs)
    (hg' : GoodMem cfg m' fs) (hb : m'.blobs = m.blobs) (res : Res)
    (hr : res ≠ Res.panic ∧ res ≠ Res.ioExist ∧ res ≠ Res.ioNotExist) : OpOK cfg m fs ⟨m', [], res⟩ := by
  refine ⟨by simp, by simpa using hg', by intro k; simpa [applyPrefix] using hfs, hr, ?_⟩
  intro k K hv
  simp only [applyAll_nil, applyPrefix, List.take_nil]
  exact crashView_frame hg hv (by rw [hb]) (fun _ => rfl)

theorem take_subset_dropLast {α : Type} (cs : List α) (k : Nat) (hk : k < cs.length) :
    ∀ c ∈ cs.take k, c ∈ cs.dropLast := by
  intro c hc
  rw [List.dropLast_eq_take]
  have : cs.take k = (cs.take (cs.length - 1)).take k := by
    rw [List.take_take]; congr 1; omega
  rw [this] at hc
  exact List.mem_of_mem_take hc

/-- a plan of in-directory calls in which only the last call names an observable file:
at every prefix the observable files are as before or as after -/
theorem between_inDir (cs : List (Call Name)) (d : DirEnt Name)
    (hview : ∀ c ∈ cs.dropLast, ∀ n, viewName n = true → n ∉ c.names) (k : Nat) (n : Name)
    (hn : viewName n = true) :
    aget (filesAfter (cs.take k) d) n = aget d n ∨
    aget (filesAfter (cs.take k) d) n = aget (filesAfter cs d) n := by
  by_cases hk : k < cs.length
  · left
    exact aget_filesAfter_of_not_named _ _ _ (fun c hc => hview c (take_subset_dropLast cs k hk c hc) n hn)
  · right; rw [List.take_of_length_le (by omega)]

end KrakenModel.DiskCrash
