import KrakenModel.Util.LTS
import KrakenModel.Model.ConnState
/- Helper lemmas for Spec/C16 (core Lean only). -/
namespace KrakenModel.Proof.C16
open KrakenModel KrakenModel.ConnState

def sys (cfg : Config) : Sys State Op := { init := {}, step := step cfg }

/-! ### list facts -/

theorem len_filter_filter_le {α} (l : List α) (p q : α → Bool) :
    ((l.filter q).filter p).length ≤ (l.filter p).length := by
  induction l with
  | nil => simp
  | cons a l ih =>
    simp only [List.filter_cons]
    by_cases hq : q a <;> by_cases hp : p a <;>
      simp only [hq, hp, if_true, if_false, List.filter_cons, List.length_cons, Bool.false_eq_true] <;> omega

theorem len_filter_filter_lt {α} (l : List α) (p q : α → Bool) (x : α) (hx : x ∈ l)
    (hqx : q x = false) (hpx : p x = true) :
    ((l.filter q).filter p).length + 1 ≤ (l.filter p).length := by
  induction l with
  | nil => cases hx
  | cons a l ih =>
    rcases List.mem_cons.mp hx with rfl | hm
    · have := len_filter_filter_le l p q
      simp only [List.filter_cons, hqx, hpx, if_true, if_false, List.length_cons, Bool.false_eq_true]; omega
    · have := ih hm
      simp only [List.filter_cons]
      by_cases hq : q a <;> by_cases hp : p a <;>
        simp only [hq, hp, if_true, if_false, List.filter_cons, List.length_cons, Bool.false_eq_true] <;> omega

theorem eq_of_nodup_map {α β} [DecidableEq β] (f : α → β) :
    ∀ (l : List α), (l.map f).Nodup → ∀ a b, a ∈ l → b ∈ l → f a = f b → a = b := by
  intro l
  induction l with
  | nil => intro _ a _ ha; cases ha
  | cons x l ih =>
    intro hn a b ha hb hab
    simp only [List.map_cons, List.nodup_cons] at hn
    rcases List.mem_cons.mp ha with rfl | ha' <;> rcases List.mem_cons.mp hb with rfl | hb'
    · rfl
    · exact absurd (List.mem_map.mpr ⟨b, hb', hab.symm⟩) hn.1
    · exact absurd (List.mem_map.mpr ⟨a, ha', hab⟩) hn.1
    · exact ih hn.2 a b ha' hb' hab

/-! ### get / put / del -/

def key (e : Entry) : Hash × Peer := (e.hash, e.peer)

theorem is_iff (e : Entry) (h : Hash) (p : Peer) : e.is h p = true ↔ e.hash = h ∧ e.peer = p := by
  simp [Entry.is]

theorem bis_iff (e : BEntry) (h : Hash) (p : Peer) : e.is h p = true ↔ e.hash = h ∧ e.peer = p := by
  simp [BEntry.is]

theorem get_some_mem {s : State} {h : Hash} {p : Peer} {st : Status} (hg : lookup s h p = some st) :
    ⟨h, p, st⟩ ∈ s.conns := by
  unfold lookup at hg
  cases hf : s.conns.find? (·.is h p) with
  | none => simp [hf] at hg
  | some e =>
    simp [hf] at hg
    have hm := List.mem_of_find?_eq_some hf
    have hp := List.find?_some hf
    have := (is_iff e h p).mp hp
    obtain ⟨eh, ep, es⟩ := e
    simp at this hg
    obtain ⟨rfl, rfl⟩ := this
    subst hg
    exact hm

theorem get_none_not_mem {s : State} {h : Hash} {p : Peer} (hg : lookup s h p = none) :
    ∀ e ∈ s.conns, e.is h p = false := by
  unfold lookup at hg
  simp at hg
  intro e he
  have := hg e he
  simpa using this

theorem get_isSome_iff (s : State) (h : Hash) (p : Peer) :
    (lookup s h p).isSome = true ↔ ∃ e ∈ s.conns, e.hash = h ∧ e.peer = p := by
  constructor
  · intro hs
    obtain ⟨st, hst⟩ := Option.isSome_iff_exists.mp hs
    exact ⟨_, get_some_mem hst, rfl, rfl⟩
  · intro ⟨e, he, hh, hp⟩
    cases hg : lookup s h p with
    | some _ => rfl
    | none =>
      have := get_none_not_mem hg e he
      have h2 := (is_iff e h p).mpr ⟨hh, hp⟩
      simp [h2] at this

def KeysNodup (s : State) : Prop := (s.conns.map key).Nodup

instance (s : State) : Decidable (KeysNodup s) := by unfold KeysNodup; exact inferInstance

theorem get_of_mem {s : State} (hn : KeysNodup s) {e : Entry} (he : e ∈ s.conns) :
    lookup s e.hash e.peer = some e.status := by
  cases hg : lookup s e.hash e.peer with
  | none =>
    have := get_none_not_mem hg e he
    simp [Entry.is] at this
  | some st =>
    have hm := get_some_mem hg
    have := eq_of_nodup_map key s.conns hn _ _ hm he rfl
    rw [← this]

theorem count_del_le (s : State) (h : Hash) (p : Peer) (h' : Hash) :
    count (del s h p) h' ≤ count s h' := by
  simp only [count, del]
  exact len_filter_filter_le _ _ _

theorem len_filter_single (h p : Nat) (st : Status) (h' : Hash) :
    ([(⟨h, p, st⟩ : Entry)].filter (·.hash == h')).length = if h' = h then 1 else 0 := by
  by_cases hh : h' = h
  · subst hh; simp
  · have : (h == h') = false := by simp; exact fun e => hh e.symm
    simp [List.filter_cons, this, hh]

theorem count_put_le (s : State) (h : Hash) (p : Peer) (st : Status) (h' : Hash) :
    count (put s h p st) h' ≤ count s h' + (if h' = h then 1 else 0) := by
  simp only [count, put, List.filter_append, List.length_append]
  have := len_filter_filter_le s.conns (·.hash == h') (fun e => !e.is h p)
  rw [len_filter_single]
  omega

theorem count_put_of_some (s : State) (h : Hash) (p : Peer) (st x : Status) (h' : Hash)
    (hg : lookup s h p = some x) : count (put s h p st) h' ≤ count s h' := by
  by_cases hh : h' = h
  · subst hh
    have hm := get_some_mem hg
    simp only [count, put, List.filter_append, List.length_append]
    have := len_filter_filter_lt s.conns (·.hash == h') (fun e => !e.is h' p) ⟨h', p, x⟩ hm
      (by simp [Entry.is]) (by simp)
    rw [len_filter_single]
    simp only [if_true]
    omega
  · have := count_put_le s h p st h'
    simpa [hh] using this

theorem keys_del {s : State} (hn : KeysNodup s) (h : Hash) (p : Peer) : KeysNodup (del s h p) := by
  unfold KeysNodup del at *
  exact List.Nodup.sublist ((List.filter_sublist).map key) hn

theorem keys_put {s : State} (hn : KeysNodup s) (h : Hash) (p : Peer) (st : Status) :
    KeysNodup (put s h p st) := by
  unfold KeysNodup put at *
  simp only [List.map_append, List.map_cons, List.map_nil]
  rw [List.nodup_append]
  refine ⟨List.Nodup.sublist ((List.filter_sublist).map key) hn, by simp, ?_⟩
  intro a ha b hb
  simp at hb
  subst hb
  obtain ⟨e, he, rfl⟩ := List.mem_map.mp ha
  have hf := (List.mem_filter.mp he).2
  intro heq
  simp [key] at heq
  simp [Entry.is, heq.1, heq.2] at hf

theorem get_put_same (s : State) (h : Hash) (p : Peer) (st : Status) :
    lookup (put s h p st) h p = some st := by
  unfold lookup put
  simp only [List.find?_append]
  have : (s.conns.filter (fun e => !e.is h p)).find? (·.is h p) = none := by
    rw [List.find?_eq_none]
    intro e he
    have := (List.mem_filter.mp he).2
    simpa using this
  rw [this]
  simp [Entry.is]

theorem find_filter_other {α} (l : List α) (q r : α → Bool) (hqr : ∀ a, q a = true → r a = true) :
    (l.filter r).find? q = l.find? q := by
  induction l with
  | nil => rfl
  | cons a l ih =>
    by_cases hr : r a
    · by_cases hq : q a <;> simp [List.filter_cons, hr, List.find?_cons, hq, ih]
    · have : q a = false := by
        cases hq : q a with
        | false => rfl
        | true => exact absurd (hqr a hq) hr
      simp [List.filter_cons, hr, List.find?_cons, this, ih]

theorem get_del_other (s : State) (h : Hash) (p : Peer) (h' : Hash) (p' : Peer)
    (hne : ¬ (h' = h ∧ p' = p)) : lookup (del s h p) h' p' = lookup s h' p' := by
  unfold lookup del
  rw [find_filter_other]
  intro a ha
  have := (is_iff a h' p').mp ha
  cases hx : a.is h p with
  | false => rfl
  | true =>
    have h2 := (is_iff a h p).mp hx
    exact absurd ⟨this.1.symm.trans h2.1, this.2.symm.trans h2.2⟩ hne

theorem get_del_same (s : State) (h : Hash) (p : Peer) : lookup (del s h p) h p = none := by
  unfold lookup del
  have : (s.conns.filter (fun e => !e.is h p)).find? (·.is h p) = none := by
    rw [List.find?_eq_none]
    intro e he
    have := (List.mem_filter.mp he).2
    simpa using this
  simp [this]

theorem get_put_other (s : State) (h : Hash) (p : Peer) (st : Status) (h' : Hash) (p' : Peer)
    (hne : ¬ (h' = h ∧ p' = p)) : lookup (put s h p st) h' p' = lookup s h' p' := by
  have hd := get_del_other s h p h' p' hne
  unfold lookup put del at *
  simp only [List.find?_append]
  have hx : (Entry.is ⟨h, p, st⟩ h' p') = false := by
    cases hq : (Entry.is ⟨h, p, st⟩ h' p') with
    | false => rfl
    | true =>
      have := (is_iff _ h' p').mp hq
      exact absurd ⟨this.1.symm, this.2.symm⟩ hne
  simp only [List.find?_cons, hx, List.find?_nil, Option.or_none]
  exact hd

/-! ### the capacity invariant -/

def WithinMax (cfg : Config) (s : State) : Prop := ∀ h, (count s h : Int) ≤ cfg.max

theorem addPending_within (cfg : Config) (s : State) (p : Peer) (h : Hash) (nbrs : List Peer)
    (hw : WithinMax cfg s) : WithinMax cfg (addPending cfg s p h nbrs).1 := by
  unfold addPending
  split
  · exact hw
  · rename_i hne
    split
    · split
      · exact hw
      · intro h'
        have h1 := count_put_le s h p .pending h'
        have h2 := hw h'
        show (count (put s h p .pending) h' : Int) ≤ cfg.max
        by_cases hh : h' = h
        · subst hh; simp at h1; omega
        · simp [hh] at h1; omega
    · exact hw
    · exact hw

theorem addPending_keys (cfg : Config) (s : State) (p : Peer) (h : Hash) (nbrs : List Peer)
    (hn : KeysNodup s) : KeysNodup (addPending cfg s p h nbrs).1 := by
  unfold addPending
  split
  · exact hn
  · split
    · split
      · exact hn
      · exact keys_put hn _ _ _
    · exact hn
    · exact hn

theorem deletePending_within (cfg : Config) (s : State) (p : Peer) (h : Hash)
    (hw : WithinMax cfg s) : WithinMax cfg (deletePending s p h) := by
  unfold deletePending
  split
  · intro h'; have := count_del_le s h p h'; have := hw h'; omega
  · exact hw

theorem deletePending_keys (s : State) (p : Peer) (h : Hash) (hn : KeysNodup s) :
    KeysNodup (deletePending s p h) := by
  unfold deletePending
  split
  · exact keys_del hn _ _
  · exact hn

theorem move_within (cfg : Config) (s : State) (c : Conn) (hw : WithinMax cfg s) :
    WithinMax cfg (movePendingToActive s c).1 := by
  unfold movePendingToActive
  split
  · exact hw
  · split
    · exact hw
    · rename_i hp
      have hp' : lookup s c.hash c.peer = some .pending := by
        cases hg : lookup s c.hash c.peer with
        | none => simp [hg] at hp
        | some st => simpa [hg] using hp
      intro h'
      have := count_put_of_some s c.hash c.peer (.active c.id) .pending h' hp'
      have := hw h'
      simp only
      omega

theorem move_keys (s : State) (c : Conn) (hn : KeysNodup s) : KeysNodup (movePendingToActive s c).1 := by
  unfold movePendingToActive
  split
  · exact hn
  · split
    · exact hn
    · exact keys_put hn _ _ _

theorem deleteActive_within (cfg : Config) (s : State) (c : Conn) (hw : WithinMax cfg s) :
    WithinMax cfg (deleteActive s c) := by
  unfold deleteActive
  split
  · split
    · exact hw
    · intro h'; have := count_del_le s c.hash c.peer h'; have := hw h'; omega
  · exact hw

theorem deleteActive_keys (s : State) (c : Conn) (hn : KeysNodup s) : KeysNodup (deleteActive s c) := by
  unfold deleteActive
  split
  · split
    · exact hn
    · exact keys_del hn _ _
  · exact hn

theorem blacklistOp_conns (cfg : Config) (s : State) (p : Peer) (h : Hash) :
    (blacklistOp cfg s p h).1.conns = s.conns := by
  unfold blacklistOp setB
  split
  · rfl
  · split
    · split <;> rfl
    · rfl

theorem blacklistOp_now (cfg : Config) (s : State) (p : Peer) (h : Hash) :
    (blacklistOp cfg s p h).1.now = s.now := by
  unfold blacklistOp setB
  split
  · rfl
  · split
    · split <;> rfl
    · rfl

theorem within_of_conns {cfg : Config} {s s' : State} (hc : s'.conns = s.conns) (hw : WithinMax cfg s) :
    WithinMax cfg s' := by
  intro h; have := hw h; simpa [count, hc] using this

theorem keys_of_conns {s s' : State} (hc : s'.conns = s.conns) (hn : KeysNodup s) : KeysNodup s' := by
  simpa [KeysNodup, hc] using hn

theorem addPending_blacklist (cfg : Config) (s : State) (p : Peer) (h : Hash) (nbrs : List Peer) :
    (addPending cfg s p h nbrs).1.blacklist = s.blacklist ∧ (addPending cfg s p h nbrs).1.now = s.now := by
  unfold addPending put
  split
  · exact ⟨rfl, rfl⟩
  · split
    · split <;> exact ⟨rfl, rfl⟩
    · exact ⟨rfl, rfl⟩
    · exact ⟨rfl, rfl⟩

/-- what is preserved along the announce loop -/
theorem announceLoop_inv (cfg : Config) (self : Peer) (h : Hash) (P : State → Prop)
    (hP : ∀ s p, P s → P (addPending cfg s p h []).1) :
    ∀ (ps : List Peer) (s : State) (acc : List Peer), P s → P (announceLoop cfg self h ps s acc).1 := by
  intro ps
  induction ps with
  | nil => intro s acc hs; simpa [announceLoop] using hs
  | cons p ps ih =>
    intro s acc hs
    unfold announceLoop
    split
    · exact ih s acc hs
    · split
      · exact ih s acc hs
      · have h1 := hP s p hs
        generalize hap : addPending cfg s p h [] = r at h1
        obtain ⟨s', res⟩ := r
        cases res <;> simp only <;> first | exact ih s' _ h1 | exact hs

/-- every dialled peer is not ourselves and was not blacklisted when the loop reached it;
the loop does not touch the blacklist or the clock -/
theorem announceLoop_dialled (cfg : Config) (self : Peer) (h : Hash) :
    ∀ (ps : List Peer) (s : State) (acc : List Peer),
      (announceLoop cfg self h ps s acc).1.blacklist = s.blacklist ∧
      (announceLoop cfg self h ps s acc).1.now = s.now ∧
      ∀ q ∈ (announceLoop cfg self h ps s acc).2, q ∈ acc ∨ (q ∈ ps ∧ q ≠ self ∧ blacklisted s q h = false) := by
  intro ps
  induction ps with
  | nil => intro s acc; simp [announceLoop]
  | cons p ps ih =>
    intro s acc
    unfold announceLoop
    split
    · obtain ⟨h1, h2, h3⟩ := ih s acc
      refine ⟨h1, h2, ?_⟩
      intro q hq
      rcases h3 q hq with h | ⟨h, h'⟩
      · exact .inl h
      · exact .inr ⟨List.mem_cons_of_mem _ h, h'⟩
    · rename_i hself
      split
      · obtain ⟨h1, h2, h3⟩ := ih s acc
        refine ⟨h1, h2, ?_⟩
        intro q hq
        rcases h3 q hq with h | ⟨h, h'⟩
        · exact .inl h
        · exact .inr ⟨List.mem_cons_of_mem _ h, h'⟩
      · rename_i hbl
        have hab := addPending_blacklist cfg s p h []
        generalize hap : addPending cfg s p h [] = r at hab
        obtain ⟨s', res⟩ := r
        simp only at hab
        have hbs : ∀ q, blacklisted s' q h = blacklisted s q h := by
          intro q; simp [blacklisted, findB, hab.1, hab.2]
        cases res
        case atCapacity =>
          refine ⟨rfl, rfl, ?_⟩
          intro q hq; exact .inl (by simpa using hq)
        case ok =>
          obtain ⟨h1, h2, h3⟩ := ih s' (p :: acc)
          refine ⟨h1.trans hab.1, h2.trans hab.2, ?_⟩
          intro q hq
          rcases h3 q hq with h | ⟨h, h', h''⟩
          · rcases List.mem_cons.mp h with rfl | h
            · exact .inr ⟨List.mem_cons_self, hself, by simpa using hbl⟩
            · exact .inl h
          · exact .inr ⟨List.mem_cons_of_mem _ h, h', by rw [← hbs]; exact h''⟩
        all_goals
          obtain ⟨h1, h2, h3⟩ := ih s' acc
          refine ⟨h1.trans hab.1, h2.trans hab.2, ?_⟩
          intro q hq
          rcases h3 q hq with h | ⟨h, h', h''⟩
          · exact .inl h
          · exact .inr ⟨List.mem_cons_of_mem _ h, h', by rw [← hbs]; exact h''⟩

theorem announceResult_inv (cfg : Config) (self : Peer) (h : Hash) (P : State → Prop)
    (hP : ∀ s p, P s → P (addPending cfg s p h []).1) (peers : List Peer) (s : State) (hs : P s) :
    P (announceResult cfg s self h peers).1 := by
  unfold announceResult
  split
  · exact hs
  · exact announceLoop_inv cfg self h P hP peers s [] hs

/-- the announce result leaves blacklist and clock alone; every dialled peer was listed, is not
ourselves, was not blacklisted, and the torrent is not complete -/
theorem announceResult_dialled (cfg : Config) (self : Peer) (h : Hash) (peers : List Peer) (s : State) :
    (announceResult cfg s self h peers).1.blacklist = s.blacklist ∧
    (announceResult cfg s self h peers).1.now = s.now ∧
    ∀ q ∈ (announceResult cfg s self h peers).2,
      q ∈ peers ∧ q ≠ self ∧ blacklisted s q h = false ∧ s.completed.contains h = false := by
  unfold announceResult
  split
  · exact ⟨rfl, rfl, fun q hq => by cases hq⟩
  · rename_i hc
    obtain ⟨h1, h2, h3⟩ := announceLoop_dialled cfg self h peers s []
    refine ⟨h1, h2, ?_⟩
    intro q hq
    rcases h3 q hq with hx | ⟨ha, hb, hd⟩
    · cases hx
    · exact ⟨ha, hb, hd, by simpa using hc⟩

theorem addPending_completed (cfg : Config) (s : State) (p : Peer) (h : Hash) (nbrs : List Peer) :
    (addPending cfg s p h nbrs).1.completed = s.completed := by
  unfold addPending put
  split
  · rfl
  · split
    · split <;> rfl
    · rfl
    · rfl

theorem blacklistOp_completed (cfg : Config) (s : State) (p : Peer) (h : Hash) :
    (blacklistOp cfg s p h).1.completed = s.completed := by
  unfold blacklistOp setB
  split
  · rfl
  · split
    · split <;> rfl
    · rfl

/-- a torrent that completed stays complete -/
theorem completed_mono (cfg : Config) (s : State) (o : Op) (h : Hash) (hc : h ∈ s.completed) :
    h ∈ (step cfg s o).completed := by
  cases o with
  | addPending p g nbrs => simp only [step]; rw [addPending_completed]; exact hc
  | deletePending p g => simp only [step, deletePending, del]; split <;> exact hc
  | moveActive c =>
    simp only [step, movePendingToActive, put]
    split
    · exact hc
    · split <;> exact hc
  | deleteActive c =>
    simp only [step, deleteActive, del]
    split
    · split <;> exact hc
    · exact hc
  | blacklist p g => simp only [step]; rw [blacklistOp_completed]; exact hc
  | clearBlacklist g => exact hc
  | advance d => exact hc
  | announceResult self g peers =>
    exact announceResult_inv cfg self g (fun s => h ∈ s.completed)
      (fun s p hs => by rw [addPending_completed]; exact hs) peers s hc
  | connClosed c =>
    simp only [step, connClosed]; rw [blacklistOp_completed]
    simp only [deleteActive, del]
    split
    · split <;> exact hc
    · exact hc
  | failedOutgoing p g =>
    simp only [step, failedOutgoing]; rw [blacklistOp_completed]
    simp only [deletePending, del]; split <;> exact hc
  | complete g => simp only [step, dispatcherComplete, clearBlacklist]; exact List.mem_cons_of_mem _ hc

/-! ### an active entry is only removed by DeleteActive / conn-closed of that very connection -/

theorem lookup_of_conns {s s' : State} (hc : s'.conns = s.conns) (h : Hash) (p : Peer) :
    lookup s' h p = lookup s h p := by simp [lookup, hc]

theorem addPending_keeps_active (cfg : Config) (s : State) (p : Peer) (h : Hash) (nbrs : List Peer)
    (h' : Hash) (p' : Peer) (x : ConnId) (hl : lookup s h' p' = some (.active x)) :
    lookup (addPending cfg s p h nbrs).1 h' p' = some (.active x) := by
  unfold addPending
  split
  · exact hl
  · split
    · rename_i hn
      split
      · exact hl
      · have hne : ¬ (h' = h ∧ p' = p) := by
          rintro ⟨rfl, rfl⟩; rw [hn] at hl; cases hl
        simp only
        rw [get_put_other s h p .pending h' p' hne]; exact hl
    · exact hl
    · exact hl

theorem deletePending_keeps_active (s : State) (p : Peer) (h : Hash)
    (h' : Hash) (p' : Peer) (x : ConnId) (hl : lookup s h' p' = some (.active x)) :
    lookup (deletePending s p h) h' p' = some (.active x) := by
  unfold deletePending
  split
  · rename_i hp
    have hne : ¬ (h' = h ∧ p' = p) := by
      rintro ⟨rfl, rfl⟩; rw [hp] at hl; cases hl
    rw [get_del_other s h p h' p' hne]; exact hl
  · exact hl

theorem move_keeps_active (s : State) (c : Conn)
    (h' : Hash) (p' : Peer) (x : ConnId) (hl : lookup s h' p' = some (.active x)) :
    lookup (movePendingToActive s c).1 h' p' = some (.active x) := by
  unfold movePendingToActive
  split
  · exact hl
  · split
    · exact hl
    · rename_i hp
      have hp' : lookup s c.hash c.peer = some .pending := by simpa using hp
      have hne : ¬ (h' = c.hash ∧ p' = c.peer) := by
        rintro ⟨rfl, rfl⟩; rw [hp'] at hl; cases hl
      simp only
      rw [get_put_other s c.hash c.peer _ h' p' hne]; exact hl

theorem deleteActive_keeps_active (s : State) (c : Conn)
    (h' : Hash) (p' : Peer) (x : ConnId) (hne : c.id ≠ x) (hl : lookup s h' p' = some (.active x)) :
    lookup (deleteActive s c) h' p' = some (.active x) := by
  unfold deleteActive
  split
  · rename_i id hl2
    split
    · exact hl
    · rename_i hid
      have hid' : id = c.id := by simpa using hid
      by_cases hk : h' = c.hash ∧ p' = c.peer
      · rw [hk.1, hk.2, hl2] at hl
        simp at hl
        exact absurd (hid'.symm.trans hl) hne
      · rw [get_del_other s c.hash c.peer h' p' hk]; exact hl
  · exact hl

theorem step_within (cfg : Config) (s : State) (o : Op) (hw : WithinMax cfg s) : WithinMax cfg (step cfg s o) := by
  cases o with
  | addPending p h nbrs => exact addPending_within cfg s p h nbrs hw
  | deletePending p h => exact deletePending_within cfg s p h hw
  | moveActive c => exact move_within cfg s c hw
  | deleteActive c => exact deleteActive_within cfg s c hw
  | blacklist p h => exact within_of_conns (blacklistOp_conns cfg s p h) hw
  | clearBlacklist h => exact within_of_conns (s := s) rfl hw
  | advance d => exact within_of_conns (s := s) rfl hw
  | announceResult self h peers =>
    exact announceResult_inv cfg self h (WithinMax cfg) (fun s p hs => addPending_within cfg s p h [] hs) peers s hw
  | connClosed c =>
    exact within_of_conns (blacklistOp_conns cfg _ _ _) (deleteActive_within cfg s c hw)
  | failedOutgoing p h =>
    exact within_of_conns (blacklistOp_conns cfg _ _ _) (deletePending_within cfg s p h hw)
  | complete h => exact within_of_conns (s := s) rfl hw

theorem step_keys (cfg : Config) (s : State) (o : Op) (hn : KeysNodup s) : KeysNodup (step cfg s o) := by
  cases o with
  | addPending p h nbrs => exact addPending_keys cfg s p h nbrs hn
  | deletePending p h => exact deletePending_keys s p h hn
  | moveActive c => exact move_keys s c hn
  | deleteActive c => exact deleteActive_keys s c hn
  | blacklist p h => exact keys_of_conns (blacklistOp_conns cfg s p h) hn
  | clearBlacklist h => exact keys_of_conns (s := s) rfl hn
  | advance d => exact keys_of_conns (s := s) rfl hn
  | announceResult self h peers =>
    exact announceResult_inv cfg self h KeysNodup (fun s p hs => addPending_keys cfg s p h [] hs) peers s hn
  | connClosed c =>
    exact keys_of_conns (blacklistOp_conns cfg _ _ _) (deleteActive_keys s c hn)
  | failedOutgoing p h =>
    exact keys_of_conns (blacklistOp_conns cfg _ _ _) (deletePending_keys s p h hn)
  | complete h => exact keys_of_conns (s := s) rfl hn

/-! ### blacklist duration -/

/-- "(h,p) is blacklisted at least until `T`" in a form that does not need key uniqueness -/
def BlUntil (h : Hash) (p : Peer) (T : Int) (s : State) : Prop :=
  (∃ e ∈ s.blacklist, e.is h p = true) ∧ ∀ e ∈ s.blacklist, e.is h p = true → T ≤ e.expiration

theorem blUntil_blacklisted {h : Hash} {p : Peer} {T : Int} {s : State} (hb : BlUntil h p T s)
    (hnow : s.now < T) : blacklisted s p h = true := by
  obtain ⟨⟨e, he, hk⟩, hall⟩ := hb
  unfold blacklisted findB
  cases hf : s.blacklist.find? (·.is h p) with
  | none =>
    rw [List.find?_eq_none] at hf
    exact absurd hk (by simpa using hf e he)
  | some e' =>
    have hk' : e'.is h p = true := by have := List.find?_some hf; simpa using this
    have h1 := hall e' (List.mem_of_find?_eq_some hf) hk'
    simp [BEntry.live]; omega

theorem blUntil_of_blacklist_eq {h : Hash} {p : Peer} {T : Int} {s s' : State}
    (hb : BlUntil h p T s) (he : s'.blacklist = s.blacklist) : BlUntil h p T s' := by
  simpa [BlUntil, he] using hb

theorem blUntil_setB {h : Hash} {p : Peer} {T : Int} {s : State} (h' : Hash) (p' : Peer) (x : Int)
    (hb : BlUntil h p T s) (hx : (h' = h ∧ p' = p) → T ≤ x) : BlUntil h p T (setB s h' p' x) := by
  obtain ⟨⟨e, he, hk⟩, hall⟩ := hb
  unfold BlUntil setB
  constructor
  · by_cases hs : h' = h ∧ p' = p
    · exact ⟨⟨h', p', x⟩, by simp, by simp [BEntry.is, hs.1, hs.2]⟩
    · refine ⟨e, ?_, hk⟩
      simp only [List.mem_append, List.mem_filter]
      left
      refine ⟨he, ?_⟩
      cases hq : e.is h' p' with
      | false => rfl
      | true =>
        have a := (bis_iff e h' p').mp hq
        have b := (bis_iff e h p).mp hk
        exact absurd ⟨a.1.symm.trans b.1, a.2.symm.trans b.2⟩ hs
  · intro e' he' hk'
    simp only [List.mem_append, List.mem_filter, List.mem_singleton] at he'
    rcases he' with ⟨hm, _⟩ | rfl
    · exact hall e' hm hk'
    · have := (bis_iff _ h p).mp hk'
      exact hx ⟨this.1, this.2⟩

theorem blUntil_blacklistOp {cfg : Config} {h : Hash} {p : Peer} {T : Int} {s : State} (p' : Peer) (h' : Hash)
    (hb : BlUntil h p T s) (hT : T ≤ s.now + cfg.blacklistDuration) :
    BlUntil h p T (blacklistOp cfg s p' h').1 := by
  unfold blacklistOp
  split
  · exact hb
  · split
    · split
      · exact hb
      · exact blUntil_setB _ _ _ hb (fun _ => hT)
    · exact blUntil_setB _ _ _ hb (fun _ => hT)

end KrakenModel.Proof.C16
