import KrakenModel.Model.OriginCrash
import KrakenModel.Proof.C04Base
/-
  C05 proof library, part 1: bytes, compareAndWriteFile, the upload write, the invariant on the cache
  tree and the calls that cannot disturb it.
-/
set_option linter.unusedSectionVars false
set_option linter.unusedSimpArgs false
set_option linter.unusedVariables false
namespace KrakenModel.OriginCrash
open KrakenModel.FS

def zeros (n : Nat) : Bytes := List.replicate n 0

theorem truncTo_zeros (k n : Nat) : truncTo (zeros k) n = zeros n := by
  apply List.ext_getElem
  · simp [truncTo, zeros]; omega
  · intro i h1 h2
    simp only [truncTo, zeros, List.getElem_take, List.getElem_replicate]
    rw [List.getElem_append]
    split <;> simp

theorem writeAt_zero_cover (old b : Bytes) (h : old.length ≤ b.length) : writeAt old 0 b = b := by
  simp only [writeAt, Nat.zero_sub, List.replicate_zero, List.append_nil, List.take_zero, List.nil_append, Nat.zero_add]
  rw [List.drop_of_length_le h, List.append_nil]

theorem writeAt_end (d q : Bytes) : writeAt d d.length q = d ++ q := by
  simp [writeAt]

/-! ### directories -/

theorem uploadDir_ne_cacheDir (u n : String) : uploadDir u ≠ cacheDir n := by
  simp [uploadDir, cacheDir]

theorem cacheDir_inj {a b : String} (h : cacheDir a = cacheDir b) : a = b := by
  simp only [cacheDir, List.cons.injEq, true_and] at h
  have := congrArg List.getLast? h
  simpa using this

theorem cacheDir_ne_nil (n : String) : cacheDir n ≠ [] := by simp [cacheDir]
theorem uploadDir_ne_nil (u : String) : uploadDir u ≠ [] := by simp [uploadDir]

theorem applyPrefix_append' {ν : Type} [DecidableEq ν] (k : Nat) (a b : List (Call ν)) (fs : FS ν) :
    applyPrefix k (a ++ b) fs =
      if k ≤ a.length then applyPrefix k a fs else applyPrefix (k - a.length) b (applyAll fs a) := by
  unfold applyPrefix
  split
  · rename_i h; rw [List.take_append_of_le_length h]
  · rename_i h; rw [List.take_append, applyAll_append, List.take_of_length_le (by omega)]

theorem prefix_append {ν : Type} [DecidableEq ν] (G : FS ν → Prop) (a b : List (Call ν)) (fs : FS ν)
    (ha : ∀ k, G (applyPrefix k a fs)) (hb : ∀ k, G (applyPrefix k b (applyAll fs a))) :
    ∀ k, G (applyPrefix k (a ++ b) fs) := by
  intro k; rw [applyPrefix_append']; split
  · exact ha k
  · exact hb _

/-! ### compareAndWriteFile -/

theorem cawPlan_writes (fs : FS Name) (dir : Path) (n : Name) (b : Bytes) :
    ∀ c ∈ cawPlan fs dir n b, c.isRenameDir = false ∧ ∀ x ∈ c.writes, x = (dir, n) := by
  intro c hc
  unfold cawPlan at hc
  split at hc
  · simp only [List.mem_append, List.mem_singleton] at hc
    rcases hc with (hc | hc) | hc
    · obtain ⟨h1, h2⟩ := mkdirAllPlan_nowrite fs dir c hc
      exact ⟨h1, by rw [h2]; simp⟩
    · subst hc; exact ⟨rfl, by simp [Call.writes]⟩
    · split at hc
      · simp at hc
      · simp at hc; subst hc; exact ⟨rfl, by simp [Call.writes]⟩
  · split at hc
    · simp at hc
    · simp only [List.mem_append] at hc
      rcases hc with hc | hc
      · split at hc
        · simp at hc
        · simp at hc; subst hc; exact ⟨rfl, by simp [Call.writes]⟩
      · split at hc
        · simp at hc
        · simp at hc; subst hc; exact ⟨rfl, by simp [Call.writes]⟩

/-- `compareAndWriteFile` leaves the file with exactly the given contents -/
theorem file?_cawPlan (fs : FS Name) (dir : Path) (n : Name) (b : Bytes) (hne : dir ≠ []) :
    (applyAll fs (cawPlan fs dir n b)).file? dir n = some b := by
  unfold cawPlan
  cases hf : fs.file? dir n with
  | none =>
    simp only
    rw [applyAll_append, applyAll_append]
    have hdir : ((applyAll fs (mkdirAllPlan fs dir)).dir? dir).isSome = true :=
      dir?_isSome_of_isDir hne (isDir_mkdirAllPlan' fs dir)
    have h1 : (applyAll (applyAll fs (mkdirAllPlan fs dir)) [Call.openTrunc dir n]).file? dir n = some [] := by
      simp only [applyAll_cons, applyAll_nil]
      rw [file?_apply_openTrunc, if_pos hdir]
    by_cases hb : b = []
    · subst hb; simpa using h1
    · simp only [hb, if_false, applyAll_cons, applyAll_nil]
      rw [file?_apply_pwrite]
      simp only [applyAll_cons, applyAll_nil] at h1
      rw [h1]; simp [writeAt_zero_cover]
  | some old =>
    simp only
    by_cases he : old = b
    · simp [he, hf]
    · simp only [he, if_false, applyAll_append]
      by_cases hl : old.length = b.length
      · simp only [hl, if_true, applyAll_nil]
        have hb : b ≠ [] := by
          intro e; subst e; exact he (List.length_eq_zero_iff.mp hl)
        simp only [hb, if_false, applyAll_cons, applyAll_nil]
        rw [file?_apply_pwrite, hf]
        simp [writeAt_zero_cover _ _ (Nat.le_of_eq hl)]
      · simp only [hl, if_false, applyAll_cons, applyAll_nil]
        have h1 : (apply fs (Call.truncate dir n b.length)).file? dir n = some (truncTo old b.length) := by
          rw [file?_apply_truncate, hf]; rfl
        by_cases hb : b = []
        · subst hb; simp only [if_true, applyAll_nil]; rw [h1]; simp [truncTo]
        · simp only [hb, if_false, applyAll_cons, applyAll_nil]
          rw [file?_apply_pwrite, h1]
          simp [writeAt_zero_cover _ _ (Nat.le_of_eq (length_truncTo old b.length))]

theorem file?_cawPlan_other (fs fs' : FS Name) (dir : Path) (n : Name) (b : Bytes) (k : Nat) (p : Path) (m : Name)
    (h : (p, m) ≠ (dir, n)) : (applyPrefix k (cawPlan fs dir n b) fs').file? p m = fs'.file? p m :=
  file?_applyPrefix_of_not_written k _ fs' p m (fun c hc => by
    obtain ⟨h1, h2⟩ := cawPlan_writes fs dir n b c hc
    exact ⟨h1, fun hw => h (h2 _ hw)⟩)

theorem file?_cawPlan_other_all (fs fs' : FS Name) (dir : Path) (n : Name) (b : Bytes) (p : Path) (m : Name)
    (h : (p, m) ≠ (dir, n)) : (applyAll fs' (cawPlan fs dir n b)).file? p m = fs'.file? p m := by
  have := file?_cawPlan_other fs fs' dir n b (cawPlan fs dir n b).length p m h
  rwa [applyPrefix_all _ _ _ (Nat.le_refl _)] at this

/-- the states `compareAndWriteFile` goes through: the file is absent, empty, the old contents, the old
contents resized, or the new contents -/
theorem file?_cawPlan_prefix (fs : FS Name) (dir : Path) (n : Name) (b : Bytes) (k : Nat) :
    let r := (applyPrefix k (cawPlan fs dir n b) fs).file? dir n
    r = fs.file? dir n ∨ r = some [] ∨ r = some b ∨ (∃ old, fs.file? dir n = some old ∧ r = some (truncTo old b.length)) := by
  intro r
  have hr : r = (applyPrefix k (cawPlan fs dir n b) fs).file? dir n := rfl
  unfold cawPlan at hr
  cases hf : fs.file? dir n with
  | none =>
    simp only [hf] at hr
    -- mkdirs, openTrunc, pwrite
    rw [List.append_assoc, applyPrefix_append'] at hr
    split at hr
    · left
      rw [hr]
      exact (file?_applyPrefix_of_not_written k _ fs dir n (fun c hc => by
        obtain ⟨h1, h2⟩ := mkdirAllPlan_nowrite fs dir c hc
        exact ⟨h1, by rw [h2]; simp⟩)).trans hf
    · have hbase : (applyAll fs (mkdirAllPlan fs dir)).file? dir n = none := by
        rw [file?_applyAll_of_not_written _ fs dir n (fun c hc => by
          obtain ⟨h1, h2⟩ := mkdirAllPlan_nowrite fs dir c hc
          exact ⟨h1, by rw [h2]; simp⟩)]; exact hf
      generalize applyAll fs (mkdirAllPlan fs dir) = fs1 at hr hbase
      generalize k - (mkdirAllPlan fs dir).length = j at hr
      match j with
      | 0 => left; rw [hr]; simpa [applyPrefix] using hbase
      | 1 =>
        have : applyPrefix 1 ([Call.openTrunc dir n] ++ if b = [] then [] else [Call.pwrite dir n 0 b]) fs1 =
            apply fs1 (Call.openTrunc dir n) := by simp [applyPrefix]
        rw [this, file?_apply_openTrunc] at hr
        split at hr
        · right; left; exact hr
        · left; exact hr
      | j + 2 =>
        have : applyPrefix (j + 2) ([Call.openTrunc dir n] ++ if b = [] then [] else [Call.pwrite dir n 0 b]) fs1 =
            applyAll fs1 ([Call.openTrunc dir n] ++ if b = [] then [] else [Call.pwrite dir n 0 b]) := by
          apply applyPrefix_all; split <;> simp
        rw [this] at hr
        by_cases hb : b = []
        · simp only [hb, if_true, List.append_nil, applyAll_cons, applyAll_nil] at hr
          rw [file?_apply_openTrunc] at hr
          split at hr
          · right; left; exact hr
          · left; exact hr
        · simp only [hb, if_false, List.singleton_append, applyAll_cons, applyAll_nil] at hr
          rw [file?_apply_pwrite, file?_apply_openTrunc] at hr
          split at hr
          · right; right; left; rw [hr]; simp [writeAt_zero_cover]
          · left; exact hr
  | some old =>
    simp only [hf] at hr
    by_cases he : old = b
    · subst he
      simp only [if_true] at hr
      left; rw [hr]; simp [applyPrefix, hf]
    · simp only [he, if_false] at hr
      by_cases hl : old.length = b.length
      · have hb : b ≠ [] := by
          intro e; subst e; exact he (List.length_eq_zero_iff.mp hl)
        simp only [hl, if_true, hb, if_false, List.nil_append] at hr
        match k with
        | 0 => left; rw [hr]; simp [applyPrefix, hf]
        | k + 1 =>
          have : applyPrefix (k + 1) [Call.pwrite dir n 0 b] fs = apply fs (Call.pwrite dir n 0 b) := by
            simp [applyPrefix]
          rw [this, file?_apply_pwrite, hf] at hr
          right; right; left; rw [hr]; simp [writeAt_zero_cover _ _ (Nat.le_of_eq hl)]
      · simp only [hl, if_false] at hr
        match k with
        | 0 => left; rw [hr]; simp [applyPrefix, hf]
        | 1 =>
          have : applyPrefix 1 ([Call.truncate dir n b.length] ++ if b = [] then [] else [Call.pwrite dir n 0 b]) fs =
              apply fs (Call.truncate dir n b.length) := by simp [applyPrefix]
          rw [this, file?_apply_truncate, hf] at hr
          right; right; right; exact ⟨old, rfl, hr⟩
        | k + 2 =>
          have : applyPrefix (k + 2) ([Call.truncate dir n b.length] ++ if b = [] then [] else [Call.pwrite dir n 0 b]) fs =
              applyAll fs ([Call.truncate dir n b.length] ++ if b = [] then [] else [Call.pwrite dir n 0 b]) := by
            apply applyPrefix_all; split <;> simp
          rw [this] at hr
          by_cases hb : b = []
          · simp only [hb, if_true, List.append_nil, applyAll_cons, applyAll_nil] at hr
            rw [file?_apply_truncate, hf] at hr
            right; right; right; exact ⟨old, rfl, by rw [hr, hb]; rfl⟩
          · simp only [hb, if_false, List.singleton_append, applyAll_cons, applyAll_nil] at hr
            rw [file?_apply_pwrite, file?_apply_truncate, hf] at hr
            right; right; left; rw [hr]
            simp [writeAt_zero_cover _ _ (Nat.le_of_eq (length_truncTo old b.length))]

/-! ### the upload write -/

theorem chunkCalls_writes (dir : Path) (wps : Nat) (fuel off : Nat) (p : Bytes) :
    ∀ c ∈ chunkCalls dir wps fuel off p, c.isRenameDir = false ∧ ∀ x ∈ c.writes, x = (dir, Name.data) := by
  induction fuel generalizing off p with
  | zero => simp [chunkCalls]
  | succ f ih =>
    intro c hc
    simp only [chunkCalls] at hc
    split at hc
    · simp at hc
    · split at hc
      · simp at hc; subst hc; exact ⟨rfl, by simp [Call.writes]⟩
      · simp only [List.mem_cons] at hc
        rcases hc with hc | hc
        · subst hc; exact ⟨rfl, by simp [Call.writes]⟩
        · exact ih _ _ c hc

theorem chunkCalls_nil (dir : Path) (wps fuel off : Nat) : chunkCalls dir wps fuel off [] = [] := by
  cases fuel <;> simp [chunkCalls]

/-- writing a payload at the end of the file appends it -/
theorem chunkCalls_append (dir : Path) (wps : Nat) (fuel : Nat) :
    ∀ (off : Nat) (p : Bytes) (fs : FS Name) (d : Bytes), p.length < fuel → fs.file? dir Name.data = some d →
    d.length = off → (applyAll fs (chunkCalls dir wps fuel off p)).file? dir Name.data = some (d ++ p) := by
  induction fuel with
  | zero => intro off p fs d h; omega
  | succ f ih =>
    intro off p fs d hf hd hoff
    simp only [chunkCalls]
    by_cases hp : p = []
    · subst hp; simpa using hd
    · simp only [hp, if_false]
      by_cases hw : wps = 0
      · simp only [hw, if_true, applyAll_cons, applyAll_nil]
        rw [file?_apply_pwrite, hd, ← hoff]; simp [writeAt_end]
      · simp only [hw, if_false, applyAll_cons]
        have h1 : (apply fs (Call.pwrite dir Name.data off (p.take wps))).file? dir Name.data =
            some (d ++ p.take wps) := by rw [file?_apply_pwrite, hd, ← hoff]; simp [writeAt_end]
        by_cases hle : p.length ≤ wps
        · rw [List.drop_of_length_le hle, chunkCalls_nil, applyAll_nil, h1, List.take_of_length_le hle]
        · have hplen : 0 < p.length := List.length_pos_iff.mpr hp
          have := ih (off + wps) (p.drop wps) _ (d ++ p.take wps) (by simp only [List.length_drop]; omega) h1
            (by simp only [List.length_append, List.length_take]; omega)
          rw [this, List.append_assoc, List.take_append_drop]

/-! ### the invariant on the cache tree -/

/-- a metainfo sidecar that belongs to the name: the metainfo of a blob that hashes to it -/
def ValidMI (cfg : Cfg) (n : String) (t : Bytes) : Prop := ∃ b, cfg.digest b = n ∧ t = cfg.genMI b

structure GoodFS (cfg : Cfg) (fs : FS Name) : Prop where
  /-- a blob file in the cache hashes to the name of its directory -/
  dataOK : ∀ n c, fs.file? (cacheDir n) .data = some c → cfg.digest c = n
  /-- a metainfo sidecar is zero-filled (empty: created; zeros: resized) or the blob's -/
  metaOK : ∀ n t, fs.file? (cacheDir n) .tmeta = some t → (∃ k, t = zeros k) ∨ ValidMI cfg n t

/-- a call that cannot change a cached blob file or a metainfo sidecar -/
def Neutral (c : Call Name) : Prop :=
  c.isRenameDir = false ∧ ∀ n, (cacheDir n, Name.data) ∉ c.writes ∧ (cacheDir n, Name.tmeta) ∉ c.writes

theorem goodFS_congr {cfg : Cfg} {fs fs' : FS Name}
    (h : ∀ n, fs'.file? (cacheDir n) .data = fs.file? (cacheDir n) .data ∧ fs'.file? (cacheDir n) .tmeta = fs.file? (cacheDir n) .tmeta)
    (g : GoodFS cfg fs) : GoodFS cfg fs' :=
  ⟨fun n c hc => g.dataOK n c (by rw [← (h n).1]; exact hc), fun n t ht => g.metaOK n t (by rw [← (h n).2]; exact ht)⟩

theorem neutral_frame (cs : List (Call Name)) (hn : ∀ c ∈ cs, Neutral c) (fs : FS Name) (k : Nat) (n : String) :
    (applyPrefix k cs fs).file? (cacheDir n) .data = fs.file? (cacheDir n) .data ∧
    (applyPrefix k cs fs).file? (cacheDir n) .tmeta = fs.file? (cacheDir n) .tmeta :=
  ⟨file?_applyPrefix_of_not_written k cs fs _ _ (fun c hc => ⟨(hn c hc).1, ((hn c hc).2 n).1⟩),
   file?_applyPrefix_of_not_written k cs fs _ _ (fun c hc => ⟨(hn c hc).1, ((hn c hc).2 n).2⟩)⟩

theorem neutral_frame_all (cs : List (Call Name)) (hn : ∀ c ∈ cs, Neutral c) (fs : FS Name) (n : String) :
    (applyAll fs cs).file? (cacheDir n) .data = fs.file? (cacheDir n) .data ∧
    (applyAll fs cs).file? (cacheDir n) .tmeta = fs.file? (cacheDir n) .tmeta := by
  have := neutral_frame cs hn fs cs.length n
  rwa [applyPrefix_all _ _ _ (Nat.le_refl _)] at this

theorem neutral_prefix {cfg : Cfg} {fs : FS Name} (g : GoodFS cfg fs) (cs : List (Call Name))
    (hn : ∀ c ∈ cs, Neutral c) : ∀ k, GoodFS cfg (applyPrefix k cs fs) :=
  fun k => goodFS_congr (neutral_frame cs hn fs k) g

theorem neutral_all {cfg : Cfg} {fs : FS Name} (g : GoodFS cfg fs) (cs : List (Call Name))
    (hn : ∀ c ∈ cs, Neutral c) : GoodFS cfg (applyAll fs cs) := by
  have := neutral_prefix g cs hn cs.length
  rwa [applyPrefix_all _ _ _ (Nat.le_refl _)] at this

theorem all_of_prefix {ν : Type} [DecidableEq ν] (G : FS ν → Prop) (cs : List (Call ν)) (fs : FS ν)
    (h : ∀ k, G (applyPrefix k cs fs)) : G (applyAll fs cs) := by
  have := h cs.length
  rwa [applyPrefix_all _ _ _ (Nat.le_refl _)] at this

/-! ### neutral building blocks -/

theorem neutral_append {a b : List (Call Name)} (ha : ∀ c ∈ a, Neutral c) (hb : ∀ c ∈ b, Neutral c) :
    ∀ c ∈ a ++ b, Neutral c := by
  intro c hc
  rcases List.mem_append.mp hc with h | h
  · exact ha c h
  · exact hb c h

theorem mkdirAll_neutral (fs : FS Name) (p : Path) : ∀ c ∈ mkdirAllPlan fs p, Neutral c := by
  intro c hc
  obtain ⟨h1, h2⟩ := mkdirAllPlan_nowrite fs p c hc
  exact ⟨h1, fun n => by rw [h2]; simp⟩

theorem neutral_of_writes {cs : List (Call Name)} {dir : Path} {x : Name}
    (hw : ∀ c ∈ cs, c.isRenameDir = false ∧ ∀ y ∈ c.writes, y = (dir, x))
    (h : ∀ n, (cacheDir n, Name.data) ≠ (dir, x) ∧ (cacheDir n, Name.tmeta) ≠ (dir, x)) : ∀ c ∈ cs, Neutral c := by
  intro c hc
  obtain ⟨h1, h2⟩ := hw c hc
  exact ⟨h1, fun n => ⟨fun hm => (h n).1 (h2 _ hm), fun hm => (h n).2 (h2 _ hm)⟩⟩

theorem cawPlan_neutral_lat (fs : FS Name) (dir : Path) (b : Bytes) : ∀ c ∈ cawPlan fs dir .lat b, Neutral c :=
  neutral_of_writes (cawPlan_writes fs dir .lat b) (fun n => ⟨by simp, by simp⟩)

theorem cawPlan_neutral_persist (fs : FS Name) (dir : Path) (b : Bytes) : ∀ c ∈ cawPlan fs dir .persist b, Neutral c :=
  neutral_of_writes (cawPlan_writes fs dir .persist b) (fun n => ⟨by simp, by simp⟩)

theorem latPlan_neutral (cfg : Cfg) (fs : FS Name) (dir : Path) : ∀ c ∈ latPlan cfg fs dir, Neutral c := by
  unfold latPlan
  split
  · simp
  · exact cawPlan_neutral_lat fs dir cfg.lat

theorem chunkCalls_neutral (u : String) (wps fuel off : Nat) (p : Bytes) :
    ∀ c ∈ chunkCalls (uploadDir u) wps fuel off p, Neutral c :=
  neutral_of_writes (chunkCalls_writes (uploadDir u) wps fuel off p)
    (fun n => ⟨by simp [uploadDir, cacheDir], by simp⟩)

theorem removeAll_upload_neutral (fs : FS Name) (o : Order Name) (u : String) :
    ∀ c ∈ removeAllPlan fs o (uploadDir u), Neutral c := by
  intro c hc
  unfold removeAllPlan at hc
  split at hc
  · simp at hc
  · simp only [List.mem_append, List.mem_map, List.mem_singleton] at hc
    rcases hc with ⟨x, _, rfl⟩ | rfl
    · exact ⟨rfl, fun n => by simp [Call.writes, uploadDir, cacheDir]⟩
    · exact ⟨rfl, fun n => by simp [Call.writes]⟩

end KrakenModel.OriginCrash
