import KrakenModel.Proof.C03Res
/-
  C03 helper lemmas, part 7: once every piece is complete the commit is on its way
  (`numComplete` reached the number of pieces ⇒ committed, or some thread is between its
  `numComplete` increment and its `committed.Store(true)`).
-/
namespace KrakenModel.Proof.C03
open KrakenModel.AgentTorrent

def committing : PC → Bool
  | .loadNum | .move | .setCommitted => true
  | _ => false

def Live (s : State) : Prop :=
  s.pieces.length ≤ s.numComplete →
    s.committed = true ∨ ∃ (a : Nat) (u : Thread), s.threads[a]? = some u ∧ committing u.pc = true

variable {crc : Bytes → Nat} {pl : Nat} {blob : Bytes}

theorem numComplete_le {s : State} (hg : Good crc pl blob s) : s.numComplete ≤ s.pieces.length := by
  have h1 := hg.num
  have h2 : s.pieces.count PStatus.complete ≤ s.pieces.length := List.count_le_length
  omega

/-- shape of one thread step: what happens to `numComplete`, `committed`, `pieces.length` and to
    the stepping thread's program counter -/
theorem stepThread_live {s : State} (hg : Good crc pl blob s) (tid k : Nat) (hl : Live s) :
    Live (stepThread crc s tid k) := by
  unfold stepThread
  cases ht : s.threads[tid]? with
  | none => exact hl
  | some t =>
    simp only
    -- a step that keeps numComplete / committed / pieces.length and does not leave a committing pc
    have keep : ∀ (s' : State) (t' : Thread), s'.numComplete = s.numComplete → s'.committed = s.committed →
        s'.pieces.length = s.pieces.length → s'.threads = s.threads →
        (committing t.pc = true → committing t'.pc = true) → Live (setThread s' tid t') := by
      intro s' t' h1 h2 h3 h4 h5 hn
      simp only [setThread] at hn ⊢
      rw [h1, h3] at hn
      rcases hl hn with hc | ⟨a, u, hu, hcu⟩
      · left; rw [h2]; exact hc
      · right
        by_cases hat : tid = a
        · subst hat
          rw [ht] at hu; cases hu
          exact ⟨tid, t', by rw [h4, threads_set_get ht]; simp, h5 hcu⟩
        · exact ⟨a, u, by rw [h4, threads_set_get ht]; simp [hat, hu], hcu⟩
    cases hpc : t.pc <;> simp only
    case start =>
      repeat' split
      all_goals exact keep s _ rfl rfl rfl rfl (by rw [hpc]; intro h; cases h)
    case fastComplete | fastDirty =>
      cases hp : s.pieces[t.idx]? with
      | none => exact keep s _ rfl rfl rfl rfl (by rw [hpc]; intro h; cases h)
      | some st => simp only; split <;> exact keep s _ rfl rfl rfl rfl (by rw [hpc]; intro h; cases h)
    case tryDirty =>
      cases hp : s.pieces[t.idx]? with
      | none => exact keep s _ rfl rfl rfl rfl (by rw [hpc]; intro h; cases h)
      | some st =>
        cases st
        · exact keep _ _ rfl rfl (by simp) rfl (by rw [hpc]; intro h; cases h)
        · exact keep s _ rfl rfl rfl rfl (by rw [hpc]; intro h; cases h)
        · exact keep s _ rfl rfl rfl rfl (by rw [hpc]; intro h; cases h)
    case openFile | writing | setMeta =>
      split <;> exact keep _ _ rfl rfl rfl rfl (by rw [hpc]; intro h; cases h)
    case checksum =>
      cases hsum : s.mi.sums[t.idx]? with
      | none => exact keep s _ rfl rfl rfl rfl (by rw [hpc]; intro h; cases h)
      | some sum => simp only; split <;> exact keep s _ rfl rfl rfl rfl (by rw [hpc]; intro h; cases h)
    case markComplete | markEmpty =>
      split
      · exact keep _ _ rfl rfl (by simp) rfl (by rw [hpc]; intro h; cases h)
      · exact keep s _ rfl rfl rfl rfl (by rw [hpc]; intro h; cases h)
    case incNum =>
      intro _
      right
      exact ⟨tid, { t with pc := .loadNum }, by simp only [setThread]; rw [threads_set_get ht]; simp, rfl⟩
    case loadNum =>
      split
      · exact keep s _ rfl rfl rfl rfl (fun _ => rfl)
      · rename_i hne
        intro hn
        simp only [setThread] at hn
        exact absurd (Nat.le_antisymm (numComplete_le hg) hn) hne
    case move =>
      intro _
      right
      exact ⟨tid, { t with pc := .setCommitted }, by simp only [setThread]; rw [threads_set_get ht]; simp, rfl⟩
    case setCommitted => intro _; left; rfl
    case done => exact hl

theorem core_live0 (s : State) (hnc : s.inCache = false) : Live (openTorrentCore s) := by
  unfold openTorrentCore
  rw [hnc]
  simp only [Bool.false_eq_true, if_false]
  split
  · intro _; left; rfl
  · rename_i hne
    intro hn
    simp only at hn
    exact absurd (Nat.le_antisymm List.count_le_length hn) hne

theorem init_live (mi : MetaInfo) : Live (init mi) := by
  unfold init openTorrent
  split <;> exact core_live0 _ rfl

theorem step_live {s : State} (hg : Good crc pl blob s) (a : Action) (hl : Live s) :
    Live (step crc s a) := by
  cases a with
  | spawn pi payload =>
    intro hn
    rcases hl hn with hc | ⟨a, u, hu, hcu⟩
    · exact Or.inl hc
    · right
      refine ⟨a, u, ?_, hcu⟩
      show (s.threads ++ _)[a]? = some u
      rw [List.getElem?_append, if_pos (lt_of_getElem?_some hu)]; exact hu
  | step tid k => exact stepThread_live hg tid k hl
  | reopen =>
    simp only [step]
    split
    · rw [openTorrent_eq_core hg]
      unfold openTorrentCore
      split
      · intro _; left; rfl
      · simp only
        split
        · intro _; left; rfl
        · rename_i hne
          intro hn
          simp only at hn
          exact absurd (Nat.le_antisymm List.count_le_length hn) hne
    · exact hl
  | recreate =>
    simp only [step]
    split
    · exact init_live _
    · exact hl
  | tornReopen n =>
    simp only [step]
    split
    · rename_i hq
      have hcore : ∀ (u : State), u.inCache = false → Live (openTorrent u) := by
        intro u hu
        unfold openTorrent
        split <;> exact core_live0 _ (by simpa using hu)
      split
      · exact hcore s hq.2
      · exact hcore _ hq.2
    · exact hl

end KrakenModel.Proof.C03
