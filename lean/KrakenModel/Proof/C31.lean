import KrakenModel.Model.OriginWB
import KrakenModel.Proof.C30
/-
  Helper lemmas for Spec/C31: the invariant of the origin write-back composition and its
  preservation under the hypotheses of the partial theorem (one namespace per blob; a forced
  cleanup never overlaps a write-back call of the same blob).
-/
namespace KrakenModel.OriginWB
open KrakenModel.Retry (Key)

variable (dig : Key → Digest)

theorem mem_ins (l : List Nat) (x y : Nat) : y ∈ ins l x ↔ y = x ∨ y ∈ l := by
  unfold ins
  split
  · constructor
    · exact Or.inr
    · rintro (rfl | h)
      · assumption
      · exact h
  · simp [or_comm]

theorem mem_del (l : List Nat) (x y : Nat) : y ∈ del l x ↔ y ≠ x ∧ y ∈ l := by
  simp [del, and_comm]

/-- the protection the property asks for -/
def Safe1 (s : State) (k : Key) : Prop :=
  k ∈ s.backend ∨ (dig k ∈ s.cache ∧ dig k ∈ s.persist ∧ stored s k)

/-- a writeBack call that has set the flag but not yet added the task -/
def Safe0 (s : State) (k : Key) : Prop :=
  k ∈ s.backend ∨ (dig k ∈ s.cache ∧ dig k ∈ s.persist)

instance (s : State) (k : Key) : Decidable (Safe1 dig s k) := by unfold Safe1; exact inferInstance
instance (s : State) (k : Key) : Decidable (Safe0 dig s k) := by unfold Safe0; exact inferInstance

def ThreadOk (s : State) (t : Thread) : Prop :=
  match t.pc with
  | .setPersist => True
  | .add => Safe0 dig s t.key
  | _ => Safe1 dig s t.key

structure Inv (s : State) : Prop where
  good : Retry.Good s.r
  acked : ∀ k ∈ s.acked, Safe1 dig s k
  thr : ∀ t ∈ s.wb, ThreadOk dig s t
  nofc : s.fc = []

theorem Safe1.mono {s s' : State} {k : Key} (h : Safe1 dig s k)
    (hb : ∀ x ∈ s.backend, x ∈ s'.backend) (hc : dig k ∈ s.cache → dig k ∈ s'.cache)
    (hp : dig k ∈ s.persist → dig k ∈ s'.persist) (hs : stored s k → stored s' k) : Safe1 dig s' k := by
  rcases h with h | ⟨h1, h2, h3⟩
  · exact Or.inl (hb _ h)
  · exact Or.inr ⟨hc h1, hp h2, hs h3⟩

theorem Safe0.mono {s s' : State} {k : Key} (h : Safe0 dig s k)
    (hb : ∀ x ∈ s.backend, x ∈ s'.backend) (hc : dig k ∈ s.cache → dig k ∈ s'.cache)
    (hp : dig k ∈ s.persist → dig k ∈ s'.persist) : Safe0 dig s' k := by
  rcases h with h | ⟨h1, h2⟩
  · exact Or.inl (hb _ h)
  · exact Or.inr ⟨hc h1, hp h2⟩

theorem Safe1.toSafe0 {s : State} {k : Key} (h : Safe1 dig s k) : Safe0 dig s k := by
  rcases h with h | ⟨h1, h2, _⟩
  · exact Or.inl h
  · exact Or.inr ⟨h1, h2⟩

theorem ThreadOk.mono {s s' : State} {t : Thread} (h : ThreadOk dig s t)
    (hb : ∀ x ∈ s.backend, x ∈ s'.backend) (hc : dig t.key ∈ s.cache → dig t.key ∈ s'.cache)
    (hp : dig t.key ∈ s.persist → dig t.key ∈ s'.persist) (hs : stored s t.key → stored s' t.key) :
    ThreadOk dig s' t := by
  unfold ThreadOk at *
  cases hpc : t.pc <;> simp only [hpc] at h ⊢
  · exact Safe0.mono dig h hb hc hp
  all_goals exact Safe1.mono dig h hb hc hp hs

/-! ### threads -/

theorem mem_dropThread {ts : List Thread} {k : Key} {t : Thread} (h : t ∈ dropThread ts k) : t ∈ ts := by
  induction ts with
  | nil => cases h
  | cons a as ih =>
    simp only [dropThread] at h
    split at h
    · exact List.mem_cons_of_mem _ h
    · rcases List.mem_cons.mp h with rfl | h
      · exact List.mem_cons_self
      · exact List.mem_cons_of_mem _ (ih h)

theorem mem_setPc {ts : List Thread} {k : Key} {pc : WbPc} {t0 : Thread}
    (hf : ts.find? (fun t => t.key = k) = some t0) {t : Thread} (h : t ∈ setPc ts k pc) :
    t ∈ ts ∨ t = { t0 with pc := pc } := by
  induction ts with
  | nil => cases h
  | cons a as ih =>
    simp only [setPc] at h
    by_cases hk : a.key = k
    · simp only [hk, if_true] at h
      have : t0 = a := by
        simp only [List.find?_cons, hk, decide_true] at hf
        exact (Option.some.inj hf).symm
      rcases List.mem_cons.mp h with rfl | h
      · right; rw [this]; simp [hk]
      · left; exact List.mem_cons_of_mem _ h
    · simp only [hk, if_false] at h
      have hf' : as.find? (fun t => t.key = k) = some t0 := by
        simpa [List.find?_cons, hk] using hf
      rcases List.mem_cons.mp h with rfl | h
      · left; exact List.mem_cons_self
      · rcases ih hf' h with h | h
        · left; exact List.mem_cons_of_mem _ h
        · right; exact h

theorem find_thread_mem {ts : List Thread} {k : Key} {t0 : Thread}
    (hf : ts.find? (fun t => t.key = k) = some t0) : t0 ∈ ts ∧ t0.key = k := by
  refine ⟨List.mem_of_find?_eq_some hf, ?_⟩
  have := List.find?_some hf
  simpa using this

/-! ### the retry table under the steps the composition takes -/

theorem kept_of_ne_finish (r : Retry.State) (o : Retry.Op) (k : Key) (hk : k ∈ Retry.keys r.rows)
    (h1 : o ≠ .finish k true) (h2 : ∀ inv, o = .start inv → k ∉ inv) :
    k ∈ Retry.keys (Retry.step r o).rows := by
  by_cases h : k ∈ Retry.keys (Retry.step r o).rows
  · exact h
  · rcases Retry.step_keys_lost r o k hk h with ⟨he, _⟩ | ⟨inv, he, hin, _⟩
    · exact absurd he h1
    · exact absurd hin (h2 inv he)

theorem kept_restart (r : Retry.State) (k : Key) (hk : k ∈ Retry.keys r.rows) :
    k ∈ Retry.keys (Retry.step (Retry.step r .crash) (.start [])).rows := by
  apply kept_of_ne_finish
  · apply kept_of_ne_finish _ _ _ hk
    · simp
    · intro inv h; cases h
  · simp
  · intro inv h
    injection h with h; subst h; simp

theorem good_restart (r : Retry.State) (g : Retry.Good r) :
    Retry.Good (Retry.step (Retry.step r .crash) (.start [])) :=
  Retry.step_good _ _ (Retry.step_good _ _ g)

/-! ### the executor -/

theorem runExecutor_spec (cache persist : List Digest) (backend : List Key) (t : Key) (up : Bool) :
    let r := runExecutor dig cache persist backend t up
    (∀ x ∈ backend, x ∈ r.2.1) ∧
    (∀ d, d ≠ dig t → (d ∈ r.2.2 ↔ d ∈ persist)) ∧
    (∀ d ∈ r.2.2, d ∈ persist) ∧
    (r.1 = true → t ∈ r.2.1 ∨ dig t ∉ cache) ∧
    (r.1 = false → r.2.1 = backend ∧ r.2.2 = persist) ∧
    (∀ x ∈ r.2.1, x ∈ backend ∨ x = t) := by
  intro r
  cases up <;> by_cases hb : t ∈ backend <;> by_cases hc : dig t ∈ cache <;>
    simp only [r, runExecutor, hb, hc, Bool.false_and, Bool.true_and, decide_true, decide_false,
      Bool.false_eq_true, if_false, if_true, not_true_eq_false, not_false_eq_true] <;>
    refine ⟨?_, ?_, ?_, ?_, ?_, ?_⟩ <;>
    simp_all [mem_ins, mem_del] <;> grind


/-- a failing prefix leaves everything unchanged; otherwise the backend only grows, flags of other
blobs are untouched, and every task run is in the backend afterwards (or its file was missing) -/
theorem syncAll_spec (cache : List Digest) (downs : List Key) (d : Digest) (tasks : List Key)
    (hd : ∀ t ∈ tasks, dig t = d) (backend : List Key) (persist : List Digest) :
    let r := syncAll dig cache downs tasks backend persist
    (∀ x ∈ backend, x ∈ r.2.1) ∧
    (∀ d', d' ≠ d → (d' ∈ r.2.2 ↔ d' ∈ persist)) ∧
    (r.1 = true → ∀ t ∈ tasks, t ∈ r.2.1 ∨ d ∉ cache) := by
  induction tasks generalizing backend persist with
  | nil => simp [syncAll]
  | cons t ts ih =>
    have hdt : dig t = d := hd t (by simp)
    obtain ⟨e1, e2, _, e4, _, _⟩ := runExecutor_spec dig cache persist backend t (decide (t ∉ downs))
    simp only [syncAll]
    cases hr : runExecutor dig cache persist backend t (decide (t ∉ downs)) with
    | mk ok rest =>
      obtain ⟨b1, p1⟩ := rest
      rw [hr] at e1 e2 e4
      simp only at e1 e2 e4
      cases ok with
      | false =>
        refine ⟨e1, ?_, by simp⟩
        intro d' hd'; exact e2 d' (hdt ▸ hd')
      | true =>
        obtain ⟨i1, i2, i3⟩ := ih (fun t' ht' => hd t' (List.mem_cons_of_mem _ ht')) b1 p1
        refine ⟨fun x hx => i1 x (e1 x hx), ?_, ?_⟩
        · intro d' hd'; rw [i2 d' hd']; exact e2 d' (hdt ▸ hd')
        · intro hok t' ht'
          rcases List.mem_cons.mp ht' with rfl | ht'
          · rcases e4 rfl with h | h
            · exact Or.inl (i1 _ h)
            · exact Or.inr (hdt ▸ h)
          · exact i3 hok t' ht'

/-- when the first task cannot be written back nothing changes -/
theorem syncAll_head_fail (cache : List Digest) (downs : List Key) (t : Key) (ts : List Key)
    (backend : List Key) (persist : List Digest)
    (hf : (runExecutor dig cache persist backend t (decide (t ∉ downs))).1 = false) :
    syncAll dig cache downs (t :: ts) backend persist = (false, backend, persist) := by
  obtain ⟨_, _, _, _, e5, _⟩ := runExecutor_spec dig cache persist backend t (decide (t ∉ downs))
  simp only [syncAll]
  cases hr : runExecutor dig cache persist backend t (decide (t ∉ downs)) with
  | mk ok rest =>
    obtain ⟨b1, p1⟩ := rest
    rw [hr] at hf e5
    simp only at hf e5
    subst hf
    obtain ⟨rfl, rfl⟩ := e5 rfl
    rfl

/-! ### preservation -/

/-- hypotheses of the partial theorem on a single step: no split forced cleanup, and a forced
cleanup of `d` only while no writeBack call for a task of blob `d` is in flight -/
def pre (s : State) : Op → Prop
  | .fcBegin _ => False
  | .fcFinish _ _ => False
  | .fcAtomic d _ => ∀ t ∈ s.wb, dig t.key ≠ d
  | _ => True

instance (s : State) (o : Op) : Decidable (pre dig s o) := by
  cases o <;> simp only [pre] <;> exact inferInstance

theorem addBegin_stored_of_out (r : Retry.State) (k : Key) (d : Nat)
    (h : (Retry.stepO r (.addBegin k d [])).2 = .addedPending ∨ (Retry.stepO r (.addBegin k d [])).2 = .addedFailed ∨
      (Retry.stepO r (.addBegin k d [])).2 = .dup) :
    k ∈ Retry.keys (Retry.stepO r (.addBegin k d [])).1.rows := by
  simp only [Retry.stepO] at h ⊢
  cases hm : r.mode <;> simp only [hm] at h ⊢
  · by_cases hh : Retry.hasKey r.rows k = true
    · simpa [hh] using (Retry.hasKey_iff _ _).mp hh
    · by_cases hd : d = 0 <;> simp [hh, hd, Retry.keys, Retry.newRow]
  all_goals simp at h

theorem internal_ne (o : Retry.Op) (h : internalOp o = true) (k : Key) :
    o ≠ .finish k true ∧ ∀ inv, o = .start inv → k ∉ inv := by
  cases o <;> simp [internalOp] at h ⊢

section
variable (hinj : ∀ k k', dig k = dig k' → k = k')
include hinj

/-- an executor run keeps every key protected -/
theorem exec_safe1 (s : State) (k0 : Key) (up : Bool) (x : Key) (h : Safe1 dig s x) :
    let e := runExecutor dig s.cache s.persist s.backend k0 up
    Safe1 dig { s with r := Retry.step s.r (.finish k0 e.1), backend := e.2.1, persist := e.2.2 } x := by
  intro e
  obtain ⟨e1, e2, _, e4, e5, _⟩ := runExecutor_spec dig s.cache s.persist s.backend k0 up
  rcases h with h | ⟨h1, h2, h3⟩
  · exact Or.inl (e1 x h)
  · by_cases hx : x = k0
    · subst hx
      cases hok : e.1 with
      | true =>
        rcases e4 hok with h | h
        · exact Or.inl h
        · exact absurd h1 h
      | false =>
        obtain ⟨hb, hp⟩ := e5 hok
        right
        refine ⟨h1, by show dig x ∈ e.2.2; rw [hp]; exact h2, ?_⟩
        show x ∈ Retry.keys (Retry.step s.r (.finish x false)).rows
        exact kept_of_ne_finish _ _ _ h3 (by simp) (by intro inv h; cases h)
    · have hd : dig x ≠ dig k0 := fun he => hx (hinj _ _ he)
      right
      refine ⟨h1, (e2 _ hd).mpr h2, ?_⟩
      show x ∈ Retry.keys (Retry.step s.r (.finish k0 e.1)).rows
      exact kept_of_ne_finish _ _ _ h3 (by intro he; injection he with he _; exact hx he.symm)
        (by intro inv h; cases h)

theorem exec_safe0 (s : State) (k0 : Key) (up : Bool) (x : Key) (h : Safe0 dig s x) :
    let e := runExecutor dig s.cache s.persist s.backend k0 up
    Safe0 dig { s with r := Retry.step s.r (.finish k0 e.1), backend := e.2.1, persist := e.2.2 } x := by
  intro e
  obtain ⟨e1, e2, _, e4, e5, _⟩ := runExecutor_spec dig s.cache s.persist s.backend k0 up
  rcases h with h | ⟨h1, h2⟩
  · exact Or.inl (e1 x h)
  · by_cases hx : x = k0
    · subst hx
      cases hok : e.1 with
      | true =>
        rcases e4 hok with h | h
        · exact Or.inl h
        · exact absurd h1 h
      | false =>
        obtain ⟨hb, hp⟩ := e5 hok
        exact Or.inr ⟨h1, by show dig x ∈ e.2.2; rw [hp]; exact h2⟩
    · have hd : dig x ≠ dig k0 := fun he => hx (hinj _ _ he)
      exact Or.inr ⟨h1, (e2 _ hd).mpr h2⟩

/-- a forced cleanup keeps every acknowledged key protected -/
theorem fc_safe1 (s : State) (d : Digest) (downs : List Key) (hc : d ∈ s.cache)
    (x : Key) (h : Safe1 dig s x) : Safe1 dig (fcRun dig s (fcSnapshot dig s d) downs) x := by
  unfold fcSnapshot
  by_cases hp : d ∈ s.persist
  · simp only [hp, if_true, fcRun]
    have htasks : ∀ t ∈ (Retry.keys s.r.rows).filter (fun k => decide (dig k = d)), dig t = d := by
      intro t ht; simpa using (List.mem_filter.mp ht).2
    obtain ⟨y1, y2, y3⟩ := syncAll_spec dig s.cache downs d _ htasks s.backend s.persist
    cases hr : syncAll dig s.cache downs ((Retry.keys s.r.rows).filter fun k => decide (dig k = d)) s.backend s.persist with
    | mk ok rest =>
      obtain ⟨b', p'⟩ := rest
      rw [hr] at y1 y2 y3
      simp only at y1 y2 y3
      by_cases hxd : dig x = d
      · -- x's blob is the one being cleaned
        rcases h with h | ⟨h1, h2, h3⟩
        · cases ok <;> exact Or.inl (y1 x h)
        · have hx : x ∈ (Retry.keys s.r.rows).filter (fun k => decide (dig k = d)) :=
            List.mem_filter.mpr ⟨h3, by simpa using hxd⟩
          cases ok with
          | true =>
            rcases y3 rfl x hx with h | h
            · exact Or.inl h
            · exact absurd hc h
          | false =>
            -- every task found is x itself; the run stopped at the first one without any effect
            cases hl : (Retry.keys s.r.rows).filter (fun k => decide (dig k = d)) with
            | nil => rw [hl] at hx; cases hx
            | cons t ts =>
              have ht : t = x := hinj _ _ ((htasks t (by rw [hl]; simp)).trans hxd.symm)
              subst ht
              rw [hl] at hr
              by_cases hf : (runExecutor dig s.cache s.persist s.backend t (decide (t ∉ downs))).1 = false
              · rw [syncAll_head_fail dig _ _ _ _ _ _ hf] at hr
                injection hr with _ hr; injection hr with hb hp'
                subst hb; subst hp'
                exact Or.inr ⟨h1, h2, h3⟩
              · obtain ⟨e1, _, _, e4, _, _⟩ := runExecutor_spec dig s.cache s.persist s.backend t (decide (t ∉ downs))
                have hok : (runExecutor dig s.cache s.persist s.backend t (decide (t ∉ downs))).1 = true := by
                  simpa using hf
                rcases e4 hok with h | h
                · -- x reached the backend in the first run; the backend only grows afterwards
                  left
                  simp only [syncAll] at hr
                  cases hq : runExecutor dig s.cache s.persist s.backend t (decide (t ∉ downs)) with
                  | mk ok1 rest1 =>
                    obtain ⟨b1, p1⟩ := rest1
                    rw [hq] at hr hok h
                    simp only at hok h
                    subst hok
                    simp only at hr
                    have hts : ∀ t' ∈ ts, dig t' = d := fun t' ht' => htasks t' (by rw [hl]; exact List.mem_cons_of_mem _ ht')
                    obtain ⟨z1, _, _⟩ := syncAll_spec dig s.cache downs d ts hts b1 p1
                    rw [hr] at z1
                    exact z1 t h
                · exact absurd h1 (hxd ▸ h)
      · -- another blob: its flag and file are untouched
        have keep : ∀ (c' : List Digest) (q' : List Digest), (dig x ∈ s.cache → dig x ∈ c') →
            (dig x ∈ s.persist → dig x ∈ q') →
            Safe1 dig { s with backend := b', persist := q', cache := c' } x :=
          fun c' q' h1 h2 => Safe1.mono dig h y1 h1 h2 id
        cases ok with
        | false => exact keep s.cache p' id (fun h => (y2 _ hxd).mpr h)
        | true =>
          simp only []
          refine keep _ _ ?_ ?_
          · intro h; split
            · exact h
            · exact (mem_del _ _ _).mpr ⟨hxd, h⟩
          · intro h; exact (mem_del _ _ _).mpr ⟨hxd, (y2 _ hxd).mpr h⟩
  · simp only [hp, if_false, fcRun, Bool.false_eq_true]
    rcases h with h | ⟨h1, h2, h3⟩
    · exact Or.inl h
    · have hxd : dig x ≠ d := fun he => hp (he ▸ h2)
      exact Or.inr ⟨(mem_del _ _ _).mpr ⟨hxd, h1⟩, h2, h3⟩


theorem step_inv (s : State) (o : Op) (h : Inv dig s) (hp : pre dig s o) : Inv dig (step dig s o) := by
  cases o with
  | upload k delay =>
    simp only [step]
    refine ⟨h.good, ?_, ?_, h.nofc⟩
    · intro x hx
      exact Safe1.mono dig (h.acked x hx) (fun _ h => h) (fun h => (mem_ins _ _ _).mpr (Or.inr h)) id id
    · intro t ht
      rcases List.mem_append.mp ht with ht | ht
      · exact ThreadOk.mono dig (h.thr t ht) (fun _ h => h) (fun h => (mem_ins _ _ _).mpr (Or.inr h)) id id
      · simp at ht; subst ht; simp [ThreadOk]
  | wbStep k =>
    simp only [step]
    cases hf : s.wb.find? (fun t => decide (t.key = k)) with
    | none => exact h
    | some t0 =>
      obtain ⟨ht0, hk0⟩ := find_thread_mem hf
      have hold := h.thr t0 ht0
      simp only
      cases hpc : t0.pc with
      | setPersist =>
        simp only
        split
        · rename_i hc
          refine ⟨h.good, ?_, ?_, h.nofc⟩
          · intro x hx
            exact Safe1.mono dig (h.acked x hx) (fun _ h => h) id (fun h => (mem_ins _ _ _).mpr (Or.inr h)) id
          · intro t ht
            rcases mem_setPc hf ht with ht | rfl
            · exact ThreadOk.mono dig (h.thr t ht) (fun _ h => h) id (fun h => (mem_ins _ _ _).mpr (Or.inr h)) id
            · simp only [ThreadOk, hk0]
              exact Or.inr ⟨hc, (mem_ins _ _ _).mpr (Or.inl rfl)⟩
        · exact ⟨h.good, h.acked, fun t ht => h.thr t (mem_dropThread ht), h.nofc⟩
      | add =>
        simp only
        have hs0 : Safe0 dig s k := by simpa [ThreadOk, hpc, hk0] using hold
        have hgood : Retry.Good (Retry.stepO s.r (.addBegin k t0.delay [])).1 := Retry.step_good _ _ h.good
        have hkeep : ∀ x, stored s x → x ∈ Retry.keys (Retry.stepO s.r (.addBegin k t0.delay [])).1.rows :=
          fun x hx => kept_of_ne_finish _ _ _ hx (by simp) (by intro inv h; cases h)
        have hdrop : Inv dig { s with r := (Retry.stepO s.r (.addBegin k t0.delay [])).1, wb := dropThread s.wb k } :=
          ⟨hgood, fun x hx => Safe1.mono dig (h.acked x hx) (fun _ h => h) id id (hkeep x),
           fun t ht => ThreadOk.mono dig (h.thr t (mem_dropThread ht)) (fun _ h => h) id id (hkeep _), h.nofc⟩
        have hnext : ∀ pc', pc' ≠ .setPersist → pc' ≠ .add →
            k ∈ Retry.keys (Retry.stepO s.r (.addBegin k t0.delay [])).1.rows →
            Inv dig { s with r := (Retry.stepO s.r (.addBegin k t0.delay [])).1, wb := setPc s.wb k pc' } := by
          intro pc' h1 h2 hst
          refine ⟨hgood, fun x hx => Safe1.mono dig (h.acked x hx) (fun _ h => h) id id (hkeep x), ?_, h.nofc⟩
          intro t ht
          rcases mem_setPc hf ht with ht | rfl
          · exact ThreadOk.mono dig (h.thr t ht) (fun _ h => h) id id (hkeep _)
          · have : Safe1 dig { s with r := (Retry.stepO s.r (.addBegin k t0.delay [])).1, wb := setPc s.wb k pc' } k := by
              rcases hs0 with hb | ⟨hc, hq⟩
              · exact Or.inl hb
              · exact Or.inr ⟨hc, hq, hst⟩
            cases pc' <;> simp_all [ThreadOk]
        cases hout : Retry.stepO s.r (.addBegin k t0.delay []) with
        | mk r' out =>
          have hr' : r' = (Retry.stepO s.r (.addBegin k t0.delay [])).1 := by rw [hout]
          have ho' : out = (Retry.stepO s.r (.addBegin k t0.delay [])).2 := by rw [hout]
          cases out <;> simp only <;> rw [hr']
          case addedPending => exact hnext .enq (by simp) (by simp) (addBegin_stored_of_out _ _ _ (Or.inl ho'.symm))
          case addedFailed => exact hnext .generate (by simp) (by simp) (addBegin_stored_of_out _ _ _ (Or.inr (Or.inl ho'.symm)))
          case dup => exact hnext .generate (by simp) (by simp) (addBegin_stored_of_out _ _ _ (Or.inr (Or.inr ho'.symm)))
          all_goals exact hdrop
      | enq =>
        simp only
        have hs1 : Safe1 dig s k := by simpa [ThreadOk, hpc, hk0] using hold
        have hgood : Retry.Good (Retry.stepO s.r (.addEnq k)).1 := Retry.step_good _ _ h.good
        have hkeep : ∀ x, stored s x → x ∈ Retry.keys (Retry.stepO s.r (.addEnq k)).1.rows :=
          fun x hx => kept_of_ne_finish _ _ _ hx (by simp) (by intro inv h; cases h)
        cases hout : Retry.stepO s.r (.addEnq k) with
        | mk r' out =>
          have hr' : r' = (Retry.stepO s.r (.addEnq k)).1 := by rw [hout]
          have key : ∀ wb', (∀ t ∈ wb', t ∈ s.wb ∨ t = { t0 with pc := .generate }) →
              Inv dig { s with r := r', wb := wb' } := by
            intro wb' hwb
            rw [hr']
            refine ⟨hgood, fun x hx => Safe1.mono dig (h.acked x hx) (fun _ h => h) id id (hkeep x), ?_, h.nofc⟩
            intro t ht
            rcases hwb t ht with ht | rfl
            · exact ThreadOk.mono dig (h.thr t ht) (fun _ h => h) id id (hkeep _)
            · simp only [ThreadOk, hk0]
              exact Safe1.mono dig hs1 (fun _ h => h) id id (hkeep k)
          cases out <;> simp only
          case errNotFound => exact key _ (fun t ht => Or.inl (mem_dropThread ht))
          all_goals exact key _ (fun t ht => mem_setPc hf ht)
      | generate =>
        simp only
        have hs1 : Safe1 dig s k := by simpa [ThreadOk, hpc, hk0] using hold
        split
        · refine ⟨h.good, h.acked, ?_, h.nofc⟩
          intro t ht
          rcases mem_setPc hf ht with ht | rfl
          · exact h.thr t ht
          · simp only [ThreadOk, hk0]
            exact Safe1.mono dig hs1 (fun _ h => h) id id id
        · exact ⟨h.good, h.acked, fun t ht => h.thr t (mem_dropThread ht), h.nofc⟩
      | ack =>
        simp only
        have hs1 : Safe1 dig s k := by simpa [ThreadOk, hpc, hk0] using hold
        refine ⟨h.good, ?_, fun t ht => h.thr t (mem_dropThread ht), h.nofc⟩
        intro x hx
        rcases (mem_ins _ _ _).mp hx with rfl | hx
        · exact hs1
        · exact h.acked x hx
  | retry o =>
    simp only [step]
    split
    · rename_i hi
      have hkeep : ∀ x, stored s x → x ∈ Retry.keys (Retry.step s.r o).rows :=
        fun x hx => kept_of_ne_finish _ _ _ hx (internal_ne o hi x).1 (internal_ne o hi x).2
      exact ⟨Retry.step_good _ _ h.good,
        fun x hx => Safe1.mono dig (h.acked x hx) (fun _ h => h) id id (hkeep x),
        fun t ht => ThreadOk.mono dig (h.thr t ht) (fun _ h => h) id id (hkeep _), h.nofc⟩
    · exact h
  | exec k0 up =>
    simp only [step]
    split
    · refine ⟨Retry.step_good _ _ h.good, fun x hx => exec_safe1 dig hinj s k0 up x (h.acked x hx), ?_, h.nofc⟩
      intro t ht
      have := h.thr t ht
      unfold ThreadOk at this ⊢
      cases hpc : t.pc <;> simp only [hpc] at this ⊢
      · exact exec_safe0 dig hinj s k0 up _ this
      all_goals exact exec_safe1 dig hinj s k0 up _ this
    · exact h
  | delete d =>
    simp only [step]
    split
    · rename_i hd
      have keep1 : ∀ x, Safe1 dig s x → Safe1 dig { s with cache := del s.cache d } x := by
        intro x hx
        rcases hx with hx | ⟨h1, h2, h3⟩
        · exact Or.inl hx
        · exact Or.inr ⟨(mem_del _ _ _).mpr ⟨fun he => hd.2 (he ▸ h2), h1⟩, h2, h3⟩
      refine ⟨h.good, fun x hx => keep1 x (h.acked x hx), ?_, h.nofc⟩
      intro t ht
      have := h.thr t ht
      unfold ThreadOk at this ⊢
      cases hpc : t.pc <;> simp only [hpc] at this ⊢
      · rcases this with hx | ⟨h1, h2⟩
        · exact Or.inl hx
        · exact Or.inr ⟨(mem_del _ _ _).mpr ⟨fun he => hd.2 (he ▸ h2), h1⟩, h2⟩
      all_goals exact keep1 _ this
    · exact h
  | fcBegin d => exact absurd hp (by simp [pre])
  | fcFinish d downs => exact absurd hp (by simp [pre])
  | fcAtomic d downs =>
    simp only [step]
    split
    · rename_i hc
      simp only [pre] at hp
      -- the cleanup does not touch the retry table, the acknowledgements or the threads
      have hr : (fcRun dig s (fcSnapshot dig s d) downs).r = s.r ∧
          (fcRun dig s (fcSnapshot dig s d) downs).acked = s.acked ∧
          (fcRun dig s (fcSnapshot dig s d) downs).wb = s.wb ∧
          (fcRun dig s (fcSnapshot dig s d) downs).fc = s.fc := by
        unfold fcRun
        split
        · split <;> simp
        · simp
      refine ⟨by rw [hr.1]; exact h.good, ?_, ?_, by rw [hr.2.2.2]; exact h.nofc⟩
      · intro x hx
        rw [hr.2.1] at hx
        exact fc_safe1 dig hinj s d downs hc x (h.acked x hx)
      · intro t ht
        rw [hr.2.2.1] at ht
        have hne := hp t ht
        have := h.thr t ht
        unfold ThreadOk at this ⊢
        cases hpc : t.pc <;> simp only [hpc] at this ⊢
        · -- Safe0 for a thread of another blob: via Safe1's proof pattern on flags
          rcases this with hx | ⟨h1, h2⟩
          · have : Safe1 dig s t.key := Or.inl hx
            rcases fc_safe1 dig hinj s d downs hc _ this with h' | ⟨a, b, _⟩
            · exact Or.inl h'
            · exact Or.inr ⟨a, b⟩
          · -- flag and file of another blob are untouched by the cleanup of d
            unfold fcSnapshot fcRun
            by_cases hpd : d ∈ s.persist
            · simp only [hpd, if_true]
              have htasks : ∀ t' ∈ (Retry.keys s.r.rows).filter (fun k => decide (dig k = d)), dig t' = d := by
                intro t' ht'; simpa using (List.mem_filter.mp ht').2
              obtain ⟨y1, y2, _⟩ := syncAll_spec dig s.cache downs d _ htasks s.backend s.persist
              cases hq : syncAll dig s.cache downs ((Retry.keys s.r.rows).filter fun k => decide (dig k = d)) s.backend s.persist with
              | mk ok rest =>
                obtain ⟨b', p'⟩ := rest
                rw [hq] at y1 y2
                simp only at y1 y2
                cases ok with
                | false => exact Or.inr ⟨h1, (y2 _ hne).mpr h2⟩
                | true =>
                  right
                  refine ⟨?_, (mem_del _ _ _).mpr ⟨hne, (y2 _ hne).mpr h2⟩⟩
                  show dig t.key ∈ (if d ∈ del p' d then s.cache else del s.cache d)
                  split
                  · exact h1
                  · exact (mem_del _ _ _).mpr ⟨hne, h1⟩
            · simp only [hpd, if_false, Bool.false_eq_true]
              exact Or.inr ⟨(mem_del _ _ _).mpr ⟨hne, h1⟩, h2⟩
        all_goals exact fc_safe1 dig hinj s d downs hc _ this
    · exact h
  | fetch d =>
    simp only [step]
    exact ⟨h.good,
      fun x hx => Safe1.mono dig (h.acked x hx) (fun _ h => h) (fun h => (mem_ins _ _ _).mpr (Or.inr h)) id id,
      fun t ht => ThreadOk.mono dig (h.thr t ht) (fun _ h => h) (fun h => (mem_ins _ _ _).mpr (Or.inr h)) id id,
      h.nofc⟩
  | restart =>
    simp only [step]
    exact ⟨good_restart _ h.good,
      fun x hx => Safe1.mono dig (h.acked x hx) (fun _ h => h) id id (kept_restart _ x),
      (fun t ht => by cases ht), rfl⟩

end

end KrakenModel.OriginWB
