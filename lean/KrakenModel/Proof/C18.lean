import KrakenModel.Model.TorrentIdle
/- Helper lemmas for Spec/C18.lean (core Lean only). -/
namespace KrakenModel.Proof.C18
open KrakenModel.TorrentIdle

/-- per-torrent invariant at clock reading `now` -/
structure GoodT (now : Nat) (t : Tor) : Prop where
  serves_now : ∀ x ∈ t.serves, x ≤ now
  writes_now : ∀ x ∈ t.writes, x ≤ now
  created_now : t.created ≤ now
  lr_now : t.present = true → t.lastRead ≤ now
  lw_now : t.present = true → t.lastWrite ≤ now
  serves_lr : t.present = true → ∀ x ∈ t.serves, x ≤ t.lastRead
  writes_lw : t.present = true → ∀ x ∈ t.writes, x ≤ t.lastWrite
  created_lr : t.present = true → t.created ≤ t.lastRead
  created_lw : t.present = true → t.created ≤ t.lastWrite
  lr_wit : t.present = true → t.lastRead = t.created ∨ t.lastRead ∈ t.serves
  lw_wit : t.present = true → t.lastWrite = t.created ∨ t.lastWrite ∈ t.writes
  files_c : t.present = true → t.complete = true → t.dl = false
  files_i : t.present = true → t.complete = false → t.cached = false ∧ t.dl = true
  files_a : t.present = false → t.dl = false

theorem good_init (now : Nat) : GoodT now ({} : Tor) := by
  constructor <;> simp

theorem good_adv {now : Nat} {t : Tor} (d : Nat) (g : GoodT now t) : GoodT (now + d) t := by
  constructor
  · intro x hx; have := g.serves_now x hx; omega
  · intro x hx; have := g.writes_now x hx; omega
  · have := g.created_now; omega
  · intro hp; have := g.lr_now hp; omega
  · intro hp; have := g.lw_now hp; omega
  · exact g.serves_lr
  · exact g.writes_lw
  · exact g.created_lr
  · exact g.created_lw
  · exact g.lr_wit
  · exact g.lw_wit
  · exact g.files_c
  · exact g.files_i
  · exact g.files_a

theorem good_create (cfg : Cfg) {now : Nat} {t : Tor} (k : Nat) (g : GoodT now t) (hp' : t.present = false) :
    GoodT now (createTor cfg now t k) := by
  unfold createTor
  by_cases hc : t.cached = true
  · simp only [hc, if_true]
    constructor <;> simp_all
    · exact g.serves_now
    · exact g.writes_now
    · exact g.serves_now
    · exact g.writes_now
    · exact g.files_a hp'
  · have hc' : t.cached = false := by simpa using hc
    simp only [hc', Bool.false_eq_true, if_false]
    constructor <;> simp_all
    · exact g.serves_now
    · exact g.writes_now
    · exact g.serves_now
    · exact g.writes_now

theorem good_unheld {now : Nat} {t : Tor} (g : GoodT now t) (hp : t.present = true) (hc : t.complete = true) :
    GoodT now { t with present := false } := by
  constructor <;> simp
  · exact g.serves_now
  · exact g.writes_now
  · exact g.created_now
  · exact g.files_c hp hc

theorem good_new (cfg : Cfg) {now : Nat} {t : Tor} (k : Nat) (g : GoodT now t) :
    GoodT now (newTor cfg now t k) := by
  unfold newTor
  by_cases hp : t.present = true
  · simp only [hp, if_true]
    by_cases he : (t.complete && !t.cached) = true
    · simp only [he, if_true]
      have hc : t.complete = true := by simp at he; exact he.1
      by_cases hk : cfg.numPieces ≤ k
      · simp only [hk, if_true]
        obtain ⟨g1, g2, g3, g4, g5, g6, g7, g8, g9, g10, g11, g12, g13, g14⟩ := g
        constructor <;> simp_all
      · simp only [hk, if_false]
        exact good_create cfg k (good_unheld g hp hc) rfl
    · simp only [he, Bool.false_eq_true, if_false]; exact g
  · have hp' : t.present = false := by simpa using hp
    simp only [hp', Bool.false_eq_true, if_false]
    exact good_create cfg k g hp'

theorem good_peer (cfg : Cfg) {now : Nat} {t : Tor} (k : Nat) (g : GoodT now t) :
    GoodT now (peerTor cfg now t k) := by
  unfold peerTor
  by_cases hp : t.present = true
  · simp only [hp, if_true]; exact g
  · have hp' : t.present = false := by simpa using hp
    simp only [hp', Bool.false_eq_true, if_false]
    exact good_create cfg k g hp'

theorem good_evict {now : Nat} {t : Tor} (g : GoodT now t) : GoodT now (evictTor t) := by
  unfold evictTor
  by_cases hc : t.cached = true
  · simp only [hc, if_true]
    obtain ⟨g1, g2, g3, g4, g5, g6, g7, g8, g9, g10, g11, g12, g13, g14⟩ := g
    constructor <;> simp_all
  · simp only [hc, Bool.false_eq_true, if_false]; exact g

theorem good_serve {now : Nat} {t : Tor} (i : Nat) (c : Bool) (g : GoodT now t) :
    GoodT now (serveTor now t i c).1 := by
  unfold serveTor
  by_cases hp : t.present = true
  · simp only [hp, Bool.not_true, Bool.false_eq_true, if_false]
    by_cases hi : i ∈ t.pieces
    · simp only [hi, if_true]
      cases c
      · simpa using g
      · simp only [if_true]
        constructor <;> simp_all
        · exact g.serves_now
        · exact g.writes_now
        · exact g.created_now
        · exact g.lw_now hp
        · exact g.serves_now
        · exact g.writes_lw hp
        · exact g.created_now
        · exact g.created_lw hp
        · exact g.lw_wit hp
        · exact g.files_c hp
        · exact g.files_i hp
    · simpa [hi] using g
  · have hp' : t.present = false := by simpa using hp
    simpa [hp'] using g

theorem good_write (cfg : Cfg) {now : Nat} {t : Tor} (i : Nat) (q : Bool) (g : GoodT now t) :
    GoodT now (writeTor cfg now t i q).1 := by
  unfold writeTor
  by_cases hp : t.present = true
  · simp only [hp, Bool.not_true, Bool.false_eq_true, if_false]
    by_cases hi : i ∈ t.pieces
    · simpa [hi] using g
    · simp only [hi, if_false]
      by_cases hr : cfg.numPieces ≤ i
      · simpa [hr] using g
      · simp only [hr, if_false]
        cases q
        · simpa using g
        · simp only [Bool.not_true, Bool.false_eq_true, if_false]
          constructor <;> simp_all
          · exact g.serves_now
          · exact g.writes_now
          · exact g.created_now
          · exact g.lr_now hp
          · exact g.serves_lr hp
          · exact g.writes_now
          · exact g.created_lr hp
          · exact g.created_now
          · exact g.lr_wit hp
          · intro hc
            rcases hc with hc | hc
            · have := g.files_c hp hc; simp [this]
            · simp [hc]
          · intro hc hf
            have := g.files_i hp hc; simp [this]
  · have hp' : t.present = false := by simpa using hp
    simpa [hp'] using g

theorem good_remove {now : Nat} {t : Tor} (g : GoodT now t) : GoodT now (removeTor t) := by
  unfold removeTor
  by_cases hp : t.present = true
  · simp only [hp, Bool.not_true, Bool.false_eq_true, if_false]
    by_cases hc : t.complete = true
    · simp only [hc, Bool.not_true, Bool.false_eq_true, if_false]
      constructor <;> simp
      · exact g.serves_now
      · exact g.writes_now
      · exact g.created_now
      · exact g.files_c hp hc
    · have hc' : t.complete = false := by simpa using hc
      simp only [hc', Bool.not_false, if_true]
      constructor <;> simp
      · exact g.serves_now
      · exact g.writes_now
      · exact g.created_now
  · have hp' : t.present = false := by simpa using hp
    simpa [hp'] using g

theorem good_tick (cfg : Cfg) {now : Nat} {t : Tor} (g : GoodT now t) : GoodT now (tickTor cfg now t) := by
  unfold tickTor
  split
  · exact good_remove g
  · exact g

theorem good_rm {now : Nat} {t : Tor} (g : GoodT now t) : GoodT now (rmTor t) := by
  have g' := good_remove g
  have hp : (removeTor t).present = false := by
    unfold removeTor; by_cases h1 : t.present = true <;> by_cases h2 : t.complete = true <;> simp_all
  unfold rmTor
  constructor <;> simp [hp]
  · exact g'.serves_now
  · exact g'.writes_now
  · exact g'.created_now

def Good (s : State) : Prop := ∀ h, GoodT s.now (s.tors h)

theorem upd_same (s : State) (h : Hash) (t : Tor) : (upd s h t).tors h = t := by simp [upd]
theorem upd_other (s : State) (h h' : Hash) (t : Tor) (hne : h' ≠ h) : (upd s h t).tors h' = s.tors h' := by
  simp [upd, hne]
theorem upd_now (s : State) (h : Hash) (t : Tor) : (upd s h t).now = s.now := rfl

theorem good_upd {s : State} (g : Good s) (h : Hash) {t : Tor} (gt : GoodT s.now t) : Good (upd s h t) := by
  intro h'
  by_cases e : h' = h
  · subst e; rw [upd_same]; exact gt
  · rw [upd_other _ _ _ _ e]; exact g h'

theorem good_next (cfg : Cfg) (s : State) (o : Op) (g : Good s) : Good (next cfg s o) := by
  cases o with
  | adv d => intro h; exact good_adv d (g h)
  | new h k => exact good_upd g h (good_new cfg k (g h))
  | serve h i c => exact good_upd g h (good_serve i c (g h))
  | write h i q => exact good_upd g h (good_write cfg i q (g h))
  | tick => intro h; exact good_tick cfg (g h)
  | rm h => exact good_upd g h (good_rm (g h))
  | notice h => exact g
  | peer h k => exact good_upd g h (good_peer cfg k (g h))
  | evict h => exact good_upd g h (good_evict (g h))
  | lost h i => exact g
  | other => exact g

theorem runFrom_good (cfg : Cfg) (ops : List Op) : ∀ s, Good s → Good (runFrom cfg s ops) := by
  induction ops with
  | nil => intro s g; exact g
  | cons o os ih => intro s g; exact ih _ (good_next cfg s o g)

theorem run_good (cfg : Cfg) (ops : List Op) (h : Hash) : GoodT (run cfg ops).now ((run cfg ops).tors h) :=
  runFrom_good cfg ops init (fun _ => good_init _) h

-- ------------------------------------------------------------------ ghost = history

theorem createTor_serves (cfg : Cfg) (now : Nat) (t : Tor) (k : Nat) : (createTor cfg now t k).serves = t.serves := by
  unfold createTor; split <;> rfl
theorem createTor_writes (cfg : Cfg) (now : Nat) (t : Tor) (k : Nat) : (createTor cfg now t k).writes = t.writes := by
  unfold createTor; split <;> rfl
theorem createTor_present (cfg : Cfg) (now : Nat) (t : Tor) (k : Nat) : (createTor cfg now t k).present = true := by
  unfold createTor; split <;> rfl
theorem createTor_cached (cfg : Cfg) (now : Nat) (t : Tor) (k : Nat) (hc : t.cached = true) :
    (createTor cfg now t k).cached = true := by
  unfold createTor; simp [hc]
theorem newTor_serves (cfg : Cfg) (now : Nat) (t : Tor) (k : Nat) : (newTor cfg now t k).serves = t.serves := by
  unfold newTor; repeat' split
  all_goals simp [createTor_serves]
theorem newTor_writes (cfg : Cfg) (now : Nat) (t : Tor) (k : Nat) : (newTor cfg now t k).writes = t.writes := by
  unfold newTor; repeat' split
  all_goals simp [createTor_writes]
theorem peerTor_serves (cfg : Cfg) (now : Nat) (t : Tor) (k : Nat) : (peerTor cfg now t k).serves = t.serves := by
  unfold peerTor; split <;> simp [createTor_serves]
theorem peerTor_writes (cfg : Cfg) (now : Nat) (t : Tor) (k : Nat) : (peerTor cfg now t k).writes = t.writes := by
  unfold peerTor; split <;> simp [createTor_writes]
theorem evictTor_serves (t : Tor) : (evictTor t).serves = t.serves := by unfold evictTor; split <;> rfl
theorem evictTor_writes (t : Tor) : (evictTor t).writes = t.writes := by unfold evictTor; split <;> rfl

theorem serves_step (cfg : Cfg) (s : State) (o : Op) (h : Hash) :
    ((next cfg s o).tors h).serves =
      (match serveOf h (s.now, o, (step cfg s o).2) with | some t => [t] | none => []) ++ (s.tors h).serves := by
  cases o with
  | adv d => simp [next, step, serveOf]
  | new h' k =>
    by_cases e : h = h'
    · subst e; simp [next, step, serveOf, upd_same, newTor_serves]
    · simp [next, step, serveOf, upd_other _ _ _ _ e]
  | serve h' i c =>
    by_cases e : h = h'
    · subst e
      simp only [next, step, upd_same]
      unfold serveTor
      by_cases hp : (s.tors h).present = true <;> by_cases hi : i ∈ (s.tors h).pieces <;>
        cases c <;> simp_all [serveOf]
    · have e' : ¬ h' = h := fun x => e x.symm
      simp only [next, step, upd_other _ _ _ _ e]
      generalize (serveTor s.now (s.tors h') i c).2 = out
      cases c <;> cases out <;> simp [serveOf, e']
  | write h' i q =>
    by_cases e : h = h'
    · subst e; simp only [next, step, serveOf, upd_same]
      unfold writeTor; repeat' split
      all_goals simp
    · simp [next, step, serveOf, upd_other _ _ _ _ e]
  | tick =>
    simp only [next, step, serveOf]
    unfold tickTor removeTor; repeat' split
    all_goals simp
  | rm h' =>
    by_cases e : h = h'
    · subst e; simp only [next, step, serveOf, upd_same]
      unfold rmTor removeTor; repeat' split
      all_goals simp
    · simp [next, step, serveOf, upd_other _ _ _ _ e]
  | notice h' => simp [next, step, serveOf]
  | peer h' k =>
    by_cases e : h = h'
    · subst e; simp [next, step, serveOf, upd_same, peerTor_serves]
    · simp [next, step, serveOf, upd_other _ _ _ _ e]
  | evict h' =>
    by_cases e : h = h'
    · subst e; simp [next, step, serveOf, upd_same, evictTor_serves]
    · simp [next, step, serveOf, upd_other _ _ _ _ e]
  | lost h' i => simp [next, step, serveOf]
  | other => simp [next, step, serveOf]

theorem writes_step (cfg : Cfg) (s : State) (o : Op) (h : Hash) :
    ((next cfg s o).tors h).writes =
      (match writeOf h (s.now, o, (step cfg s o).2) with | some t => [t] | none => []) ++ (s.tors h).writes := by
  cases o with
  | adv d => simp [next, step, writeOf]
  | new h' k =>
    by_cases e : h = h'
    · subst e; simp [next, step, writeOf, upd_same, newTor_writes]
    · simp [next, step, writeOf, upd_other _ _ _ _ e]
  | serve h' i c =>
    by_cases e : h = h'
    · subst e; simp only [next, step, writeOf, upd_same]
      unfold serveTor; repeat' split
      all_goals simp
    · simp [next, step, writeOf, upd_other _ _ _ _ e]
  | write h' i q =>
    by_cases e : h = h'
    · subst e
      simp only [next, step, upd_same]
      unfold writeTor
      by_cases hp : (s.tors h).present = true
      · simp only [hp, Bool.not_true, Bool.false_eq_true, if_false]
        by_cases hi : i ∈ (s.tors h).pieces
        · simp [hi, writeOf]
        · simp only [hi, if_false]
          by_cases hr : cfg.numPieces ≤ i
          · simp [hr, writeOf]
          · simp only [hr, if_false]
            cases q <;> simp [writeOf]
      · have hp' : (s.tors h).present = false := by simpa using hp
        simp [hp', writeOf]
    · have e' : ¬ h' = h := fun x => e x.symm
      simp only [next, step, upd_other _ _ _ _ e]
      generalize (writeTor cfg s.now (s.tors h') i q).2 = out
      cases out <;> simp [writeOf, e']
  | tick =>
    simp only [next, step, writeOf]
    unfold tickTor removeTor; repeat' split
    all_goals simp
  | rm h' =>
    by_cases e : h = h'
    · subst e; simp only [next, step, writeOf, upd_same]
      unfold rmTor removeTor; repeat' split
      all_goals simp
    · simp [next, step, writeOf, upd_other _ _ _ _ e]
  | notice h' => simp [next, step, writeOf]
  | peer h' k =>
    by_cases e : h = h'
    · subst e; simp [next, step, writeOf, upd_same, peerTor_writes]
    · simp [next, step, writeOf, upd_other _ _ _ _ e]
  | evict h' =>
    by_cases e : h = h'
    · subst e; simp [next, step, writeOf, upd_same, evictTor_writes]
    · simp [next, step, writeOf, upd_other _ _ _ _ e]
  | lost h' i => simp [next, step, writeOf]
  | other => simp [next, step, writeOf]

theorem serves_events (cfg : Cfg) (ops : List Op) : ∀ (s : State) (h : Hash),
    ((runFrom cfg s ops).tors h).serves =
      ((events cfg s ops).filterMap (serveOf h)).reverse ++ (s.tors h).serves := by
  induction ops with
  | nil => intro s h; simp [runFrom, events]
  | cons o os ih =>
    intro s h
    have := ih (next cfg s o) h
    simp only [runFrom, List.foldl_cons] at this ⊢
    rw [this, serves_step]
    simp only [events, List.filterMap_cons]
    cases serveOf h (s.now, o, (step cfg s o).2) <;> simp

theorem writes_events (cfg : Cfg) (ops : List Op) : ∀ (s : State) (h : Hash),
    ((runFrom cfg s ops).tors h).writes =
      ((events cfg s ops).filterMap (writeOf h)).reverse ++ (s.tors h).writes := by
  induction ops with
  | nil => intro s h; simp [runFrom, events]
  | cons o os ih =>
    intro s h
    have := ih (next cfg s o) h
    simp only [runFrom, List.foldl_cons] at this ⊢
    rw [this, writes_step]
    simp only [events, List.filterMap_cons]
    cases writeOf h (s.now, o, (step cfg s o).2) <;> simp

-- ------------------------------------------------------------------ the idle tests

theorem tick_present (cfg : Cfg) (now : Nat) (t : Tor) (hp : t.present = true) :
    (tickTor cfg now t).present = false ↔ (idleSeeder cfg now t || idleLeecher cfg now t) = true := by
  unfold tickTor removeTor
  by_cases hi : (idleSeeder cfg now t || idleLeecher cfg now t) = true
  · by_cases hc : t.complete = true <;> simp_all
  · simp_all

theorem seeder_drop_core (cfg : Cfg) (s : State) (h : Hash) (g : GoodT s.now (s.tors h))
    (hp : (s.tors h).present = true) (hc : (s.tors h).complete = true)
    (hd : ((next cfg s .tick).tors h).present = false) :
    ∀ x ∈ (s.tors h).serves, x + cfg.seederTTI ≤ s.now := by
  intro x hx
  simp only [next, step] at hd
  have hi := (tick_present cfg s.now _ hp).mp hd
  simp [idleSeeder, idleLeecher, hc] at hi
  have h1 := g.serves_lr hp x hx
  have h2 := g.lr_now hp
  omega

theorem leecher_drop_core (cfg : Cfg) (s : State) (h : Hash) (g : GoodT s.now (s.tors h))
    (hp : (s.tors h).present = true) (hc : (s.tors h).complete = false)
    (hd : ((next cfg s .tick).tors h).present = false) :
    ∀ x ∈ (s.tors h).writes, x + cfg.leecherTTI ≤ s.now := by
  intro x hx
  simp only [next, step] at hd
  have hi := (tick_present cfg s.now _ hp).mp hd
  simp [idleSeeder, idleLeecher, hc] at hi
  have h1 := g.writes_lw hp x hx
  have h2 := g.lw_now hp
  omega

theorem drop_iff_core (cfg : Cfg) (now : Nat) (t : Tor) (g : GoodT now t) (hp : t.present = true) :
    (tickTor cfg now t).present = false ↔
      if t.complete then t.created + cfg.seederTTI ≤ now ∧ ∀ x ∈ t.serves, x + cfg.seederTTI ≤ now
      else t.created + cfg.leecherTTI ≤ now ∧ ∀ x ∈ t.writes, x + cfg.leecherTTI ≤ now := by
  rw [tick_present cfg now t hp]
  by_cases hc : t.complete = true
  · simp only [idleSeeder, idleLeecher, hc, Bool.not_true, Bool.false_and, Bool.or_false, Bool.true_and,
      decide_eq_true_eq, if_true]
    have h2 := g.lr_now hp
    have h3 := g.created_lr hp
    constructor
    · intro hi
      refine ⟨by omega, ?_⟩
      intro x hx; have := g.serves_lr hp x hx; omega
    · intro ⟨h4, h5⟩
      rcases g.lr_wit hp with e | e
      · omega
      · have := h5 _ e; omega
  · have hc' : t.complete = false := by simpa using hc
    simp only [idleSeeder, idleLeecher, hc', Bool.false_and, Bool.false_or, Bool.not_false, Bool.true_and,
      decide_eq_true_eq, Bool.false_eq_true, if_false]
    have h2 := g.lw_now hp
    have h3 := g.created_lw hp
    constructor
    · intro hi
      refine ⟨by omega, ?_⟩
      intro x hx; have := g.writes_lw hp x hx; omega
    · intro ⟨h4, h5⟩
      rcases g.lw_wit hp with e | e
      · omega
      · have := h5 _ e; omega

-- ------------------------------------------------------------------ files

theorem present_new (cfg : Cfg) (now : Nat) (t : Tor) (k : Nat) (hp : t.present = true) :
    (newTor cfg now t k).present = true := by
  unfold newTor; repeat' split
  all_goals simp_all [createTor_present]

theorem present_peer (cfg : Cfg) (now : Nat) (t : Tor) (k : Nat) (hp : t.present = true) :
    (peerTor cfg now t k).present = true := by simp [peerTor, hp]

theorem present_evict (t : Tor) : (evictTor t).present = t.present := by unfold evictTor; split <;> rfl

theorem present_serve (now : Nat) (t : Tor) (i : Nat) (c : Bool) (hp : t.present = true) :
    (serveTor now t i c).1.present = true := by
  unfold serveTor; repeat' split
  all_goals simp_all

theorem present_write (cfg : Cfg) (now : Nat) (t : Tor) (i : Nat) (q : Bool) (hp : t.present = true) :
    (writeTor cfg now t i q).1.present = true := by
  unfold writeTor; repeat' split
  all_goals simp_all

theorem drop_only_tick_rm (cfg : Cfg) (s : State) (o : Op) (h : Hash)
    (hp : (s.tors h).present = true) (hd : ((next cfg s o).tors h).present = false) :
    o = .tick ∨ o = .rm h := by
  cases o with
  | adv d => simp [next, step, hp] at hd
  | new h' k =>
    by_cases e : h = h'
    · subst e; simp [next, step, upd_same, present_new _ _ _ _ hp] at hd
    · simp [next, step, upd_other _ _ _ _ e, hp] at hd
  | serve h' i c =>
    by_cases e : h = h'
    · subst e; simp [next, step, upd_same, present_serve _ _ _ _ hp] at hd
    · simp [next, step, upd_other _ _ _ _ e, hp] at hd
  | write h' i q =>
    by_cases e : h = h'
    · subst e; simp [next, step, upd_same, present_write _ _ _ _ _ hp] at hd
    · simp [next, step, upd_other _ _ _ _ e, hp] at hd
  | tick => exact Or.inl rfl
  | rm h' =>
    by_cases e : h = h'
    · subst e; exact Or.inr rfl
    · simp [next, step, upd_other _ _ _ _ e, hp] at hd
  | notice h' => simp [next, step, hp] at hd
  | peer h' k =>
    by_cases e : h = h'
    · subst e; simp [next, step, upd_same, present_peer _ _ _ _ hp] at hd
    · simp [next, step, upd_other _ _ _ _ e, hp] at hd
  | evict h' =>
    by_cases e : h = h'
    · subst e; simp [next, step, upd_same, present_evict, hp] at hd
    · simp [next, step, upd_other _ _ _ _ e, hp] at hd
  | lost h' i => simp [next, step, hp] at hd
  | other => simp [next, step, hp] at hd

theorem removal_deletes_partial (cfg : Cfg) (s : State) (o : Op) (h : Hash)
    (hp : (s.tors h).present = true) (hc : (s.tors h).complete = false)
    (hd : ((next cfg s o).tors h).present = false) :
    ((next cfg s o).tors h).dl = false ∧ ((next cfg s o).tors h).cached = false := by
  rcases drop_only_tick_rm cfg s o h hp hd with e | e
  · subst e
    simp only [next, step] at hd ⊢
    have hi := (tick_present cfg s.now _ hp).mp hd
    simp [tickTor, removeTor, hp, hc, hi]
  · subst e
    simp [next, step, upd_same, rmTor]

theorem idle_drop_keeps (cfg : Cfg) (s : State) (t : Tor) (g : GoodT s.now t)
    (hp : t.present = true) (hc : t.complete = true) :
    (tickTor cfg s.now t).cached = t.cached ∧ (tickTor cfg s.now t).dl = t.dl ∧ (tickTor cfg s.now t).pieces = t.pieces := by
  unfold tickTor removeTor
  split <;> simp [hp, hc]

theorem cached_new (cfg : Cfg) (now : Nat) (t : Tor) (k : Nat) (hc : t.cached = true) :
    (newTor cfg now t k).cached = true := by
  unfold newTor; repeat' split
  all_goals simp_all [createTor_cached]

theorem cached_peer (cfg : Cfg) (now : Nat) (t : Tor) (k : Nat) (hc : t.cached = true) :
    (peerTor cfg now t k).cached = true := by
  unfold peerTor; split
  · exact hc
  · exact createTor_cached cfg now t k hc

theorem cached_serve (now : Nat) (t : Tor) (i : Nat) (c : Bool) (hc : t.cached = true) :
    (serveTor now t i c).1.cached = true := by
  unfold serveTor; repeat' split
  all_goals simp_all

theorem cached_write (cfg : Cfg) (now : Nat) (t : Tor) (i : Nat) (q : Bool) (hc : t.cached = true) :
    (writeTor cfg now t i q).1.cached = true := by
  unfold writeTor; repeat' split
  all_goals simp_all

theorem cached_tick (cfg : Cfg) (now : Nat) (t : Tor) (g : GoodT now t) (hc : t.cached = true) :
    (tickTor cfg now t).cached = true := by
  unfold tickTor removeTor
  by_cases hp : t.present = true
  · by_cases hcm : t.complete = true
    · split <;> simp [hp, hcm, hc]
    · have hcm' : t.complete = false := by simpa using hcm
      have := g.files_i hp hcm'
      simp [hc] at this
  · have hp' : t.present = false := by simpa using hp
    simp [hp', hc]

theorem cached_survives (cfg : Cfg) (s : State) (o : Op) (h : Hash) (g : GoodT s.now (s.tors h))
    (ho : o ≠ .rm h) (he : o ≠ .evict h) (hc : (s.tors h).cached = true) : ((next cfg s o).tors h).cached = true := by
  cases o with
  | adv d => simpa [next, step] using hc
  | new h' k =>
    by_cases e : h = h'
    · subst e; simp [next, step, upd_same, cached_new _ _ _ _ hc]
    · simp [next, step, upd_other _ _ _ _ e, hc]
  | serve h' i c =>
    by_cases e : h = h'
    · subst e; simp [next, step, upd_same, cached_serve _ _ _ _ hc]
    · simp [next, step, upd_other _ _ _ _ e, hc]
  | write h' i q =>
    by_cases e : h = h'
    · subst e; simp [next, step, upd_same, cached_write _ _ _ _ _ hc]
    · simp [next, step, upd_other _ _ _ _ e, hc]
  | tick => simp [next, step, cached_tick cfg s.now _ g hc]
  | rm h' =>
    by_cases e : h = h'
    · subst e; exact absurd rfl ho
    · simp [next, step, upd_other _ _ _ _ e, hc]
  | notice h' => simpa [next, step] using hc
  | peer h' k =>
    by_cases e : h = h'
    · subst e; simp [next, step, upd_same, cached_peer _ _ _ _ hc]
    · simp [next, step, upd_other _ _ _ _ e, hc]
  | evict h' =>
    by_cases e : h = h'
    · subst e; exact absurd rfl he
    · simp [next, step, upd_other _ _ _ _ e, hc]
  | lost h' i => simpa [next, step] using hc
  | other => simpa [next, step] using hc

-- ------------------------------------------------------------------ creation time = history

/-- operation `o`, applied in `s`, creates a control for `h`: a request or a connecting peer finds no
    control, or a request finds the control of an evicted blob (and does not restore the blob itself) -/
def createsB (cfg : Cfg) (s : State) (o : Op) (h : Hash) : Bool :=
  match o with
  | .new h' k => decide (h' = h) &&
      (!(s.tors h).present || ((s.tors h).complete && !(s.tors h).cached && decide (k < cfg.numPieces)))
  | .peer h' _ => decide (h' = h) && !(s.tors h).present
  | _ => false

theorem createTor_created (cfg : Cfg) (now : Nat) (t : Tor) (k : Nat) : (createTor cfg now t k).created = now := by
  unfold createTor; split <;> rfl

theorem created_step (cfg : Cfg) (s : State) (o : Op) (h : Hash) :
    ((next cfg s o).tors h).created = if createsB cfg s o h = true then s.now else (s.tors h).created := by
  cases o with
  | adv d => simp [next, step, createsB]
  | new h' k =>
    by_cases e : h = h'
    · subst e
      simp only [next, step, upd_same, createsB, decide_true, Bool.true_and]
      unfold newTor
      cases hp : (s.tors h).present <;> cases hc : (s.tors h).complete <;> cases hca : (s.tors h).cached <;>
        by_cases hk : cfg.numPieces ≤ k <;> simp [hk, createTor_created] <;> omega
    · have e' : ¬ h' = h := fun x => e x.symm
      simp [next, step, upd_other _ _ _ _ e, createsB, e']
  | serve h' i c =>
    by_cases e : h = h'
    · subst e; simp only [next, step, upd_same, createsB]
      unfold serveTor; repeat' split
      all_goals simp
    · simp [next, step, upd_other _ _ _ _ e, createsB]
  | write h' i q =>
    by_cases e : h = h'
    · subst e; simp only [next, step, upd_same, createsB]
      unfold writeTor; repeat' split
      all_goals simp
    · simp [next, step, upd_other _ _ _ _ e, createsB]
  | tick =>
    simp only [next, step, createsB]
    unfold tickTor removeTor; repeat' split
    all_goals simp
  | rm h' =>
    by_cases e : h = h'
    · subst e; simp only [next, step, upd_same, createsB]
      unfold rmTor removeTor; repeat' split
      all_goals simp
    · simp [next, step, upd_other _ _ _ _ e, createsB]
  | notice h' => simp [next, step, createsB]
  | peer h' k =>
    by_cases e : h = h'
    · subst e
      simp only [next, step, upd_same, createsB, decide_true, Bool.true_and]
      unfold peerTor
      cases hp : (s.tors h).present <;> simp [createTor_created]
    · have e' : ¬ h' = h := fun x => e x.symm
      simp [next, step, upd_other _ _ _ _ e, createsB, e']
  | evict h' =>
    by_cases e : h = h'
    · subst e; simp only [next, step, upd_same, createsB]
      unfold evictTor; split <;> simp
    · simp [next, step, upd_other _ _ _ _ e, createsB]
  | lost h' i => simp [next, step, createsB]
  | other => simp [next, step, createsB]

/-- the time of the last creating operation in a history (`acc` when there is none) -/
def createdHist (cfg : Cfg) (h : Hash) : State → List Op → Nat → Nat
  | _, [], acc => acc
  | s, o :: os, acc => createdHist cfg h (next cfg s o) os (if createsB cfg s o h = true then s.now else acc)

theorem created_runFrom (cfg : Cfg) (h : Hash) (ops : List Op) : ∀ s : State,
    ((runFrom cfg s ops).tors h).created = createdHist cfg h s ops (s.tors h).created := by
  induction ops with
  | nil => intro s; rfl
  | cons o os ih =>
    intro s
    simp only [runFrom, List.foldl_cons, createdHist]
    have := ih (next cfg s o)
    simp only [runFrom] at this
    rw [this, created_step]

end KrakenModel.Proof.C18
