import KrakenModel.Proof.C06Dir
/-
  C06 proof library, part 4: the operations.
-/
set_option linter.unusedSectionVars false
set_option linter.unusedSimpArgs false
namespace KrakenModel.DiskCrash
open KrakenModel.FS

theorem no_children_of_blobdir {cfg : Cfg} {fs : FS Name} (h : GoodFS cfg fs) (p : Path)
    (hp : p.length = depth cfg) : ∀ q ∈ fs.paths, q ≠ [] → q.dropLast ≠ p := by
  intro q hq hne e
  have h1 := h.len q hq
  have h2 : q.dropLast.length = depth cfg := by rw [e]; exact hp
  rw [List.length_dropLast] at h2
  have : q.length ≠ 0 := by intro h0; exact hne (List.length_eq_zero_iff.mp h0)
  omega

/-- `ensureFreeSpace`: what the eviction loop does -/
theorem evictLoop_spec (cfg : Cfg) (o : Order Name) (space : Nat) :
    ∀ (q : List Key) (blobs : List (Key × Blob)) (size : Nat) (fs : FS Name) (cs : List (Call Name)),
    GoodFS cfg fs → GoodMem cfg ⟨blobs, q, size⟩ fs →
    ∃ ecs, (evictLoop cfg o space q blobs size fs cs).calls = cs ++ ecs ∧
      (evictLoop cfg o space q blobs size fs cs).fs = applyAll fs ecs ∧
      GoodMem cfg (evictLoop cfg o space q blobs size fs cs).mem (applyAll fs ecs) ∧
      ((evictLoop cfg o space q blobs size fs cs).res = .ok ∨ (evictLoop cfg o space q blobs size fs cs).res = .noSpace) ∧
      ((evictLoop cfg o space q blobs size fs cs).res = .ok →
        (evictLoop cfg o space q blobs size fs cs).mem.size + space ≤ cfg.capacity) ∧
      (∀ c ∈ ecs, Call.removal c = true ∧ ∃ K b, aget blobs K = some b ∧ b.complete = true ∧
        aget (evictLoop cfg o space q blobs size fs cs).mem.blobs K = none ∧ c.touched = [dirPath cfg true K]) ∧
      (∀ K, aget (evictLoop cfg o space q blobs size fs cs).mem.blobs K = aget blobs K ∨
        aget (evictLoop cfg o space q blobs size fs cs).mem.blobs K = none) := by
  intro q
  induction q with
  | nil =>
    intro blobs size fs cs hfs hm
    refine ⟨[], by simp [evictLoop], by simp [evictLoop], by simpa [evictLoop] using hm, ?_, ?_, by simp, by simp [evictLoop]⟩
    · simp only [evictLoop]; split <;> simp
    · simp only [evictLoop]; split <;> simp_all
  | cons k q ih =>
    intro blobs size fs cs hfs hm
    by_cases hfit : size + space ≤ cfg.capacity
    · refine ⟨[], by simp [evictLoop, hfit], by simp [evictLoop, hfit], by simpa [evictLoop, hfit] using hm,
        by simp [evictLoop, hfit], by simp [evictLoop, hfit], by simp, by simp [evictLoop, hfit]⟩
    · obtain ⟨b, hb, hbc, hbb⟩ := (hm.queue k).mp (List.mem_cons_self ..)
      have hgb := hm.blob k b hb
      -- the state after evicting `k`
      have hrm_other : ∀ (K' : Key) (c : Bool), K' ≠ k →
          (applyAll fs (removeAllPlan fs o (dirPath cfg true k))).dir? (dirPath cfg c K') = fs.dir? (dirPath cfg c K') := by
        intro K' c hne
        have := dir?_removeAll_other fs o (dirPath cfg true k) (dirPath cfg c K') (removeAllPlan fs o (dirPath cfg true k)).length
          (dirPath_ne_of_key hne) fs
        rwa [applyPrefix_all _ _ _ (Nat.le_refl _)] at this
      have hfs' : GoodFS cfg (applyAll fs (removeAllPlan fs o (dirPath cfg true k))) :=
        goodFS_applyAll_removal _ hfs (removeAllPlan_removal fs o _)
      have hm' : GoodMem cfg ⟨adel blobs k, q, size - b.size⟩ (applyAll fs (removeAllPlan fs o (dirPath cfg true k))) := by
        have hqn := List.nodup_cons.mp hm.qnodup
        refine ⟨akeys_nodup_adel _ _ hm.nodup, ?_, ?_, hqn.2, ?_⟩
        · intro K' b' hK'
          have hne : K' ≠ k := by intro e; subst e; simp [aget_adel_self] at hK'
          rw [aget_adel_ne _ _ _ (Ne.symm hne)] at hK'
          exact goodBlob_frame (fun c => hrm_other K' c hne) (hm.blob K' b' hK')
        · intro K' hv hK'
          by_cases hne : K' = k
          · subst hne
            constructor
            · have := dir?_removeAll_other fs o (dirPath cfg true K') (dirPath cfg false K')
                (removeAllPlan fs o (dirPath cfg true K')).length (by
                  have := dirPath_ne_of_side cfg false K' K'; simpa using this) fs
              rw [applyPrefix_all _ _ _ (Nat.le_refl _)] at this
              rw [this]
              have := hgb.other; simpa [hbc] using this
            · exact dir?_removeAll_self fs o _ (no_children_of_blobdir hfs _ (dirPath_length cfg true K' hv))
          · rw [aget_adel_ne _ _ _ (Ne.symm hne)] at hK'
            have := hm.absent K' hv hK'
            exact ⟨by rw [hrm_other K' false hne]; exact this.1, by rw [hrm_other K' true hne]; exact this.2⟩
        · intro K'
          constructor
          · intro hK'
            obtain ⟨b', hb', h1, h2⟩ := (hm.queue K').mp (List.mem_cons_of_mem _ hK')
            have hne : K' ≠ k := by intro e; subst e; exact hqn.1 hK'
            exact ⟨b', by rw [aget_adel_ne _ _ _ (Ne.symm hne)]; exact hb', h1, h2⟩
          · rintro ⟨b', hb', h1, h2⟩
            have hne : K' ≠ k := by intro e; subst e; simp [aget_adel_self] at hb'
            rw [aget_adel_ne _ _ _ (Ne.symm hne)] at hb'
            have := (hm.queue K').mpr ⟨b', hb', h1, h2⟩
            rcases List.mem_cons.mp this with e | h
            · exact absurd e hne
            · exact h
      obtain ⟨ecs, h1, h2, h3, h4, h5, h6, h7⟩ := ih (adel blobs k) (size - b.size)
        (applyAll fs (removeAllPlan fs o (dirPath cfg true k))) (cs ++ removeAllPlan fs o (dirPath cfg true k)) hfs' hm'
      have hstep : evictLoop cfg o space (k :: q) blobs size fs cs =
          evictLoop cfg o space q (adel blobs k) (size - b.size)
            (applyAll fs (removeAllPlan fs o (dirPath cfg true k))) (cs ++ removeAllPlan fs o (dirPath cfg true k)) := by
        simp [evictLoop, hfit, hb]
      rw [hstep]
      refine ⟨removeAllPlan fs o (dirPath cfg true k) ++ ecs, by rw [h1]; simp, by rw [h2, applyAll_append],
        by rw [applyAll_append]; exact h3, h4, h5, ?_, ?_⟩
      · intro c hc
        rcases List.mem_append.mp hc with hc | hc
        · refine ⟨removeAllPlan_removal fs o _ c hc, k, b, hb, hbc, ?_, removeAllPlan_touched fs o _ c hc⟩
          rcases h7 k with e | e
          · rw [e]; exact aget_adel_self _ _
          · exact e
        · obtain ⟨hr, K, b', hb', hc', hn, ht⟩ := h6 c hc
          have hne : K ≠ k := by intro e; subst e; simp [aget_adel_self] at hb'
          rw [aget_adel_ne _ _ _ (Ne.symm hne)] at hb'
          exact ⟨hr, K, b', hb', hc', hn, ht⟩
      · intro K
        rcases h7 K with e | e
        · by_cases hne : K = k
          · subst hne; right; rw [e]; exact aget_adel_self _ _
          · left; rw [e]; exact aget_adel_ne _ _ _ (Ne.symm hne)
        · right; exact e

end KrakenModel.DiskCrash
