import KrakenModel.Model.Retry
/-
  Helper lemmas for Spec/C30 (and the properties that compose the retry manager: C31–C33):
  the task table operations, the ownership list, the invariant `Good` and its preservation by
  every atomic step of the model.
-/
namespace KrakenModel.Retry

/-! ### table -/

def isPending (rows : List Row) (k : Key) : Prop := ∃ r ∈ rows, r.key = k ∧ r.status = .pending
def isFailed (rows : List Row) (k : Key) : Prop := ∃ r ∈ rows, r.key = k ∧ r.status = .failed

instance (rows : List Row) (k : Key) : Decidable (isPending rows k) := by
  unfold isPending; exact inferInstance
instance (rows : List Row) (k : Key) : Decidable (isFailed rows k) := by
  unfold isFailed; exact inferInstance

theorem hasKey_iff (rows : List Row) (k : Key) : hasKey rows k = true ↔ k ∈ keys rows := by
  simp [hasKey, keys, List.any_eq_true]

theorem hasKey_false_iff (rows : List Row) (k : Key) : hasKey rows k = false ↔ k ∉ keys rows := by
  rw [← hasKey_iff]; simp

@[simp] theorem keys_markFailed (rows : List Row) (k : Key) (now : Nat) :
    keys (markFailed rows k now) = keys rows := by
  simp only [keys, markFailed, List.map_map]
  apply List.map_congr_left
  intro r _; simp only [Function.comp]; split <;> simp [failRow]

@[simp] theorem keys_markPending (rows : List Row) (k : Key) :
    keys (markPending rows k) = keys rows := by
  simp only [keys, markPending, List.map_map]
  apply List.map_congr_left
  intro r _; simp only [Function.comp]; split <;> simp

theorem keys_remove (rows : List Row) (k : Key) :
    keys (remove rows k) = (keys rows).filter (fun x => x ≠ k) := by
  simp [keys, remove, List.filter_map, Function.comp_def]

theorem mem_keys_remove (rows : List Row) (k x : Key) :
    x ∈ keys (remove rows k) ↔ x ≠ k ∧ x ∈ keys rows := by
  rw [keys_remove]; simp [and_comm]

@[simp] theorem keys_append (a b : List Row) : keys (a ++ b) = keys a ++ keys b := by simp [keys]

theorem isPending_keys {rows : List Row} {k : Key} (h : isPending rows k) : k ∈ keys rows := by
  obtain ⟨r, hr, hk, _⟩ := h; exact List.mem_map.mpr ⟨r, hr, hk⟩

theorem isFailed_keys {rows : List Row} {k : Key} (h : isFailed rows k) : k ∈ keys rows := by
  obtain ⟨r, hr, hk, _⟩ := h; exact List.mem_map.mpr ⟨r, hr, hk⟩

/-- with unique keys the row of a key is unique -/
theorem row_unique {rows : List Row} (hn : (keys rows).Nodup) {r r' : Row}
    (hr : r ∈ rows) (hr' : r' ∈ rows) (hk : r.key = r'.key) : r = r' := by
  induction rows with
  | nil => cases hr
  | cons a as ih =>
    simp only [keys, List.map_cons, List.nodup_cons] at hn
    have hna : ∀ q ∈ as, q.key ≠ a.key := fun q hq he => hn.1 (List.mem_map.mpr ⟨q, hq, he⟩)
    rcases List.mem_cons.mp hr with h1 | h1 <;> rcases List.mem_cons.mp hr' with h2 | h2
    · rw [h1, h2]
    · exact absurd (by rw [← hk, h1]) (hna r' h2)
    · exact absurd (by rw [hk, h2]) (hna r h1)
    · exact ih hn.2 h1 h2

theorem not_pending_and_failed {rows : List Row} (hn : (keys rows).Nodup) {k : Key}
    (hp : isPending rows k) (hf : isFailed rows k) : False := by
  obtain ⟨r, hr, hk, hs⟩ := hp
  obtain ⟨r', hr', hk', hs'⟩ := hf
  have := row_unique hn hr hr' (hk.trans hk'.symm)
  subst this; rw [hs] at hs'; cases hs'

theorem isPending_markFailed (rows : List Row) (k x : Key) (now : Nat) :
    isPending (markFailed rows k now) x ↔ x ≠ k ∧ isPending rows x := by
  simp only [isPending, markFailed, List.mem_map]
  constructor
  · rintro ⟨r', ⟨r, hr, rfl⟩, hk, hs⟩
    by_cases h : r.key = k
    · simp [h, failRow] at hs
    · simp only [h, if_false] at hk hs
      exact ⟨hk ▸ h, r, hr, hk, hs⟩
  · rintro ⟨hx, r, hr, hk, hs⟩
    exact ⟨r, ⟨r, hr, by simp [hk, hx]⟩, hk, hs⟩

theorem isFailed_markFailed (rows : List Row) (k x : Key) (now : Nat) :
    isFailed (markFailed rows k now) x ↔ (x = k ∧ k ∈ keys rows) ∨ isFailed rows x := by
  simp only [isFailed, markFailed, List.mem_map]
  constructor
  · rintro ⟨r', ⟨r, hr, rfl⟩, hk, hs⟩
    by_cases h : r.key = k
    · simp only [h, if_true, failRow] at hk
      left; exact ⟨hk.symm, h ▸ List.mem_map.mpr ⟨r, hr, rfl⟩⟩
    · simp only [h, if_false] at hk hs
      right; exact ⟨r, hr, hk, hs⟩
  · rintro (⟨rfl, hm⟩ | ⟨r, hr, hk, hs⟩)
    · obtain ⟨r, hr, hk⟩ := List.mem_map.mp hm
      exact ⟨failRow now r, ⟨r, hr, by simp [hk]⟩, by simp [failRow, hk], by simp [failRow]⟩
    · by_cases h : r.key = k
      · exact ⟨failRow now r, ⟨r, hr, by simp [h]⟩, by simp [failRow, hk], by simp [failRow]⟩
      · exact ⟨r, ⟨r, hr, by simp [h]⟩, hk, hs⟩

theorem isPending_markPending (rows : List Row) (k x : Key) :
    isPending (markPending rows k) x ↔ (x = k ∧ k ∈ keys rows) ∨ isPending rows x := by
  simp only [isPending, markPending, List.mem_map]
  constructor
  · rintro ⟨r', ⟨r, hr, rfl⟩, hk, hs⟩
    by_cases h : r.key = k
    · simp only [h, if_true] at hk
      left; exact ⟨hk.symm, h ▸ List.mem_map.mpr ⟨r, hr, rfl⟩⟩
    · simp only [h, if_false] at hk hs
      right; exact ⟨r, hr, hk, hs⟩
  · rintro (⟨rfl, hm⟩ | ⟨r, hr, hk, hs⟩)
    · obtain ⟨r, hr, hk⟩ := List.mem_map.mp hm
      exact ⟨{ r with status := .pending }, ⟨r, hr, by simp [hk]⟩, by simp [hk], by simp⟩
    · by_cases h : r.key = k
      · exact ⟨{ r with status := .pending }, ⟨r, hr, by simp [h]⟩, by simp [hk], by simp⟩
      · exact ⟨r, ⟨r, hr, by simp [h]⟩, hk, hs⟩

theorem isPending_remove (rows : List Row) (k x : Key) :
    isPending (remove rows k) x ↔ x ≠ k ∧ isPending rows x := by
  simp only [isPending, remove, List.mem_filter, decide_eq_true_eq]
  constructor
  · rintro ⟨r, ⟨hr, hne⟩, hk, hs⟩; exact ⟨hk ▸ hne, r, hr, hk, hs⟩
  · rintro ⟨hx, r, hr, hk, hs⟩; exact ⟨r, ⟨hr, hk ▸ hx⟩, hk, hs⟩

theorem isPending_append_new (rows : List Row) (k x : Key) (st : Status) (now d : Nat) (pl : List Nat) :
    isPending (rows ++ [newRow k st now d pl]) x ↔ isPending rows x ∨ (x = k ∧ st = .pending) := by
  simp only [isPending, List.mem_append, List.mem_singleton]
  constructor
  · rintro ⟨r, hr | rfl, hk, hs⟩
    · left; exact ⟨r, hr, hk, hs⟩
    · right; exact ⟨hk.symm, hs⟩
  · rintro (⟨r, hr, hk, hs⟩ | ⟨rfl, rfl⟩)
    · exact ⟨r, Or.inl hr, hk, hs⟩
    · exact ⟨_, Or.inr rfl, rfl, rfl⟩

theorem nodup_keys_append_new {rows : List Row} (hn : (keys rows).Nodup) {k : Key}
    (hk : k ∉ keys rows) (st : Status) (now d : Nat) (pl : List Nat) :
    (keys (rows ++ [newRow k st now d pl])).Nodup := by
  rw [keys_append, List.nodup_append]
  refine ⟨hn, by simp [keys], ?_⟩
  intro a ha b hb
  simp [keys, newRow] at hb; subst hb; intro e; subst e; exact hk ha

/-- a row that is not the updated key survives the update unchanged -/
theorem mem_markFailed_of_ne {rows : List Row} {r : Row} {k : Key} {now : Nat}
    (hr : r ∈ rows) (hk : r.key ≠ k) : r ∈ markFailed rows k now :=
  List.mem_map.mpr ⟨r, hr, by simp [hk]⟩

theorem mem_markPending_of_ne {rows : List Row} {r : Row} {k : Key}
    (hr : r ∈ rows) (hk : r.key ≠ k) : r ∈ markPending rows k :=
  List.mem_map.mpr ⟨r, hr, by simp [hk]⟩

theorem mem_remove_of_ne {rows : List Row} {r : Row} {k : Key}
    (hr : r ∈ rows) (hk : r.key ≠ k) : r ∈ remove rows k := by
  simp [remove, hr, hk]

/-! ### ownership list -/

def okeys (own : List (Key × Place)) : List Key := own.map (·.1)

theorem mem_okeys_place (own : List (Key × Place)) (k x : Key) (p : Place) :
    x ∈ okeys (place own k p) ↔ x = k ∨ x ∈ okeys own := by
  simp only [okeys, place, List.map_append, List.mem_append, List.mem_map, List.mem_filter,
    decide_eq_true_eq, List.map_cons, List.map_nil, List.mem_singleton]
  constructor
  · rintro (⟨e, ⟨he, _⟩, rfl⟩ | rfl)
    · right; exact ⟨e, he, rfl⟩
    · left; rfl
  · rintro (rfl | ⟨e, he, rfl⟩)
    · right; rfl
    · by_cases h : e.1 = k
      · right; exact h
      · left; exact ⟨e, ⟨he, h⟩, rfl⟩

theorem mem_okeys_drop (own : List (Key × Place)) (k x : Key) :
    x ∈ okeys (dropKey own k) ↔ x ≠ k ∧ x ∈ okeys own := by
  simp only [okeys, dropKey, List.mem_map, List.mem_filter, decide_eq_true_eq]
  constructor
  · rintro ⟨e, ⟨he, hne⟩, rfl⟩; exact ⟨hne, e, he, rfl⟩
  · rintro ⟨hne, e, he, rfl⟩; exact ⟨e, ⟨he, hne⟩, rfl⟩

theorem nodup_okeys_drop {own : List (Key × Place)} (k : Key) (h : (okeys own).Nodup) :
    (okeys (dropKey own k)).Nodup := by
  unfold okeys dropKey at *
  rw [List.nodup_iff_pairwise_ne] at *
  exact (List.pairwise_map.mp h).filter _ |> List.pairwise_map.mpr

theorem nodup_okeys_place {own : List (Key × Place)} (k : Key) (p : Place) (h : (okeys own).Nodup) :
    (okeys (place own k p)).Nodup := by
  have hd := nodup_okeys_drop k h
  unfold place
  have : okeys (List.filter (fun e => decide (e.1 ≠ k)) own ++ [(k, p)]) = okeys (dropKey own k) ++ [k] := by
    simp [okeys, dropKey]
  rw [this, List.nodup_append]
  refine ⟨hd, by simp, ?_⟩
  intro a ha b hb
  simp at hb; subst hb
  exact ((mem_okeys_drop own b a).mp ha).1

theorem placeOf_some_mem {own : List (Key × Place)} {k : Key} {p : Place}
    (h : placeOf own k = some p) : k ∈ okeys own := by
  unfold placeOf at h
  cases hf : own.find? (fun e => decide (e.1 = k)) with
  | none => simp [hf] at h
  | some e =>
    have hm := List.mem_of_find?_eq_some hf
    have hk := List.find?_some hf
    simp at hk
    exact List.mem_map.mpr ⟨e, hm, hk⟩

theorem withTag_mem_okeys {own : List (Key × Place)} {p : Place} {k : Key}
    (h : k ∈ withTag own p) : k ∈ okeys own := by
  simp only [withTag, List.mem_map, List.mem_filter] at h
  obtain ⟨e, ⟨he, _⟩, rfl⟩ := h
  exact List.mem_map.mpr ⟨e, he, rfl⟩

end KrakenModel.Retry

namespace KrakenModel.Retry

/-! ### the invariant -/

/-- Every task that is pending in the table is held by exactly one goroutine / channel of a live
process; the poller's fetched list consists of distinct, currently failed rows. -/
structure Good (s : State) : Prop where
  rowsNodup : (keys s.rows).Nodup
  ownNodup : (okeys s.own).Nodup
  ownPending : s.mode ≠ .down → ∀ k, k ∈ okeys s.own ↔ isPending s.rows k
  downClean : s.mode = .down → s.own = [] ∧ s.todo = []
  todoFailed : ∀ r ∈ s.todo, r ∈ s.rows ∧ r.status = .failed
  todoNodup : (keys s.todo).Nodup

theorem good_init (cfg : Config) : Good (init cfg) := by
  constructor <;> simp [init, keys, okeys, isPending]

theorem Good.not_down_of_owned {s : State} (g : Good s) {k : Key} (hk : k ∈ okeys s.own) :
    s.mode ≠ .down := by
  intro hd
  have := (g.downClean hd).1
  rw [this] at hk; simp [okeys] at hk

theorem Good.owned_pending {s : State} (g : Good s) {k : Key} (hk : k ∈ okeys s.own) :
    isPending s.rows k := (g.ownPending (g.not_down_of_owned hk) k).mp hk

theorem Good.owned_hasKey {s : State} (g : Good s) {k : Key} (hk : k ∈ okeys s.own) :
    hasKey s.rows k = true := (hasKey_iff _ _).mpr (isPending_keys (g.owned_pending hk))

theorem Good.todo_ne_owned {s : State} (g : Good s) {k : Key} (hk : k ∈ okeys s.own)
    {r : Row} (hr : r ∈ s.todo) : r.key ≠ k := by
  intro he
  obtain ⟨hm, hs⟩ := g.todoFailed r hr
  exact not_pending_and_failed g.rowsNodup (g.owned_pending hk) ⟨r, hm, he, hs⟩

theorem good_retag {s : State} (g : Good s) {k : Key} (hk : k ∈ okeys s.own) (p : Place) :
    Good { s with own := place s.own k p } := by
  have hnd := g.not_down_of_owned hk
  refine ⟨g.rowsNodup, nodup_okeys_place k p g.ownNodup, ?_, ?_, g.todoFailed, g.todoNodup⟩
  · intro _ x
    show x ∈ okeys (place s.own k p) ↔ isPending s.rows x
    rw [mem_okeys_place, ← g.ownPending hnd x]
    constructor
    · rintro (rfl | h)
      · exact hk
      · exact h
    · exact Or.inr
  · intro hd; exact absurd hd hnd

theorem good_fail_owned {s : State} (g : Good s) {k : Key} (hk : k ∈ okeys s.own) :
    Good { s with own := dropKey s.own k, rows := markFailed s.rows k s.now } := by
  have hnd := g.not_down_of_owned hk
  refine ⟨by simpa using g.rowsNodup, nodup_okeys_drop k g.ownNodup, ?_, ?_, ?_, g.todoNodup⟩
  · intro _ x
    show x ∈ okeys (dropKey s.own k) ↔ isPending (markFailed s.rows k s.now) x
    rw [mem_okeys_drop, isPending_markFailed, g.ownPending hnd x]
  · intro hd; exact absurd hd hnd
  · intro r hr
    obtain ⟨hm, hs⟩ := g.todoFailed r hr
    exact ⟨mem_markFailed_of_ne hm (g.todo_ne_owned hk hr), hs⟩

theorem good_remove_owned {s : State} (g : Good s) {k : Key} (hk : k ∈ okeys s.own) :
    Good { s with own := dropKey s.own k, rows := remove s.rows k } := by
  have hnd := g.not_down_of_owned hk
  refine ⟨?_, nodup_okeys_drop k g.ownNodup, ?_, ?_, ?_, g.todoNodup⟩
  · show (keys (remove s.rows k)).Nodup
    rw [keys_remove]; exact g.rowsNodup.filter _
  · intro _ x
    show x ∈ okeys (dropKey s.own k) ↔ isPending (remove s.rows k) x
    rw [mem_okeys_drop, isPending_remove, g.ownPending hnd x]
  · intro hd; exact absurd hd hnd
  · intro r hr
    obtain ⟨hm, hs⟩ := g.todoFailed r hr
    exact ⟨mem_remove_of_ne hm (g.todo_ne_owned hk hr), hs⟩

theorem good_enqueue {s : State} (g : Good s) {k : Key} (hk : k ∈ okeys s.own) (p : Pool) :
    Good (enqueue s k p).1 := by
  unfold enqueue
  split
  · exact good_retag g hk _
  · split
    · exact good_fail_owned g hk
    · rename_i h; exact absurd (g.owned_hasKey hk) h

theorem enqueue_ne_notFound {s : State} (g : Good s) {k : Key} (hk : k ∈ okeys s.own) (p : Pool) :
    (enqueue s k p).2 ≠ .errNotFound := by
  unfold enqueue
  split
  · simp
  · split
    · simp
    · rename_i h; exact absurd (g.owned_hasKey hk) h

theorem withTag_head_mem {own : List (Key × Place)} {p : Place} {k : Key} {rest : List Key}
    (h : withTag own p = k :: rest) : k ∈ okeys own :=
  withTag_mem_okeys (p := p) (by rw [h]; simp)

theorem step_good (s : State) (o : Op) (g : Good s) : Good (step s o) := by
  unfold step
  cases o with
  | addBegin k d pl =>
    simp only [stepO]
    split
    · rename_i hup
      split
      · exact g
      · rename_i hk
        have hk' : k ∉ keys s.rows := (hasKey_false_iff _ _).mp (by simpa using hk)
        have hrn : (keys (s.rows ++ [newRow k .pending s.now d pl])).Nodup ∧
            (keys (s.rows ++ [newRow k .failed s.now d pl])).Nodup :=
          ⟨nodup_keys_append_new g.rowsNodup hk' _ _ _ _, nodup_keys_append_new g.rowsNodup hk' _ _ _ _⟩
        have hnd : s.mode ≠ .down := by rw [hup]; simp
        split
        · refine ⟨hrn.1, nodup_okeys_place k _ g.ownNodup, ?_, ?_, ?_, g.todoNodup⟩
          · intro _ x
            show x ∈ okeys (place s.own k .adding) ↔ isPending (s.rows ++ [newRow k .pending s.now d pl]) x
            rw [mem_okeys_place, isPending_append_new, g.ownPending hnd x]
            constructor
            · rintro (h | h)
              · exact Or.inr ⟨h, rfl⟩
              · exact Or.inl h
            · rintro (h | ⟨h, _⟩)
              · exact Or.inr h
              · exact Or.inl h
          · intro hd; exact absurd hd hnd
          · intro r hr
            obtain ⟨hm, hs⟩ := g.todoFailed r hr
            exact ⟨List.mem_append_left _ hm, hs⟩
        · refine ⟨hrn.2, g.ownNodup, ?_, ?_, ?_, g.todoNodup⟩
          · intro _ x
            show x ∈ okeys s.own ↔ isPending (s.rows ++ [newRow k .failed s.now d pl]) x
            rw [isPending_append_new, g.ownPending hnd x]
            simp
          · intro hd; exact absurd hd hnd
          · intro r hr
            obtain ⟨hm, hs⟩ := g.todoFailed r hr
            exact ⟨List.mem_append_left _ hm, hs⟩
    · exact g
  | addEnq k =>
    simp only [stepO]
    split
    · rename_i h; exact good_enqueue g (placeOf_some_mem h) _
    · exact g
  | pollFetch =>
    simp only [stepO]
    split
    · rename_i h
      refine ⟨g.rowsNodup, g.ownNodup, g.ownPending, ?_, ?_, ?_⟩
      · intro hd; exact absurd hd h.1
      · intro r hr
        simp only [List.mem_filter, decide_eq_true_eq] at hr
        exact hr
      · show (keys (s.rows.filter _)).Nodup
        exact g.rowsNodup.sublist (List.filter_sublist.map _)
    · exact g
  | pollMark =>
    simp only [stepO]
    split
    · exact g
    · rename_i r rest htodo
      have hr : r ∈ s.todo := by rw [htodo]; simp
      have htn : (keys (r :: rest)).Nodup := htodo ▸ g.todoNodup
      simp only [keys, List.map_cons, List.nodup_cons] at htn
      have hrest : ∀ r' ∈ rest, r' ∈ s.rows ∧ r'.status = .failed := fun r' h' =>
        g.todoFailed r' (by rw [htodo]; exact List.mem_cons_of_mem _ h')
      have hnd : s.mode ≠ .down := by
        intro hd; have := (g.downClean hd).2; rw [this] at htodo; cases htodo
      have gskip : Good { s with todo := rest } :=
        ⟨g.rowsNodup, g.ownNodup, g.ownPending, fun hd => absurd hd hnd, hrest, htn.2⟩
      split
      · exact g
      · split
        · split
          · refine ⟨by simpa using g.rowsNodup, nodup_okeys_place _ _ g.ownNodup, ?_,
              fun hd => absurd hd hnd, ?_, htn.2⟩
            · intro _ x
              show x ∈ okeys (place s.own r.key .retrying) ↔ isPending (markPending s.rows r.key) x
              rw [mem_okeys_place, isPending_markPending, g.ownPending hnd x]
              have : r.key ∈ keys s.rows := List.mem_map.mpr ⟨r, (g.todoFailed r hr).1, rfl⟩
              constructor
              · rintro (h | h)
                · exact Or.inl ⟨h, this⟩
                · exact Or.inr h
              · rintro (⟨h, _⟩ | h)
                · exact Or.inl h
                · exact Or.inr h
            · intro r' h'
              obtain ⟨hm, hs⟩ := hrest r' h'
              refine ⟨mem_markPending_of_ne hm ?_, hs⟩
              intro he; exact htn.1 (List.mem_map.mpr ⟨r', h', he⟩)
          · exact gskip
        · exact gskip
  | pollEnq =>
    simp only [stepO]
    split
    · exact g
    · rename_i k rest h; exact good_enqueue g (withTag_head_mem h) _
  | take p =>
    simp only [stepO]
    split
    · exact g
    · rename_i k rest h
      split
      · exact good_retag g (withTag_head_mem h) _
      · exact g
  | finish k ok =>
    simp only [stepO]
    split
    · rename_i p h
      have hk := placeOf_some_mem h
      split
      · exact good_remove_owned g hk
      · split
        · exact good_fail_owned g hk
        · rename_i hh; exact absurd (g.owned_hasKey hk) hh
    · exact g
  | advance dt =>
    simp only [stepO]
    exact ⟨g.rowsNodup, g.ownNodup, g.ownPending, g.downClean, g.todoFailed, g.todoNodup⟩
  | close =>
    simp only [stepO]
    split
    · rename_i hup
      have hnd : s.mode ≠ .down := by rw [hup]; simp
      exact ⟨g.rowsNodup, g.ownNodup, fun _ => g.ownPending hnd, fun hd => (by cases hd), g.todoFailed, g.todoNodup⟩
    · exact g
  | crash =>
    simp only [stepO]
    split
    · exact g
    · refine ⟨g.rowsNodup, by simp [okeys], fun h => absurd rfl h, fun _ => ⟨rfl, rfl⟩, by simp, by simp [keys]⟩
  | start invalid =>
    simp only [stepO]
    split
    · refine ⟨?_, by simp [okeys], ?_, fun hd => (by cases hd), by simp, by simp [keys]⟩
      · show (keys ((s.rows.filter _).map _)).Nodup
        have : keys ((s.rows.filter fun r => decide (r.key ∉ invalid)).map
            fun r => if r.status = .pending then failRow s.now r else r)
            = keys (s.rows.filter fun r => decide (r.key ∉ invalid)) := by
          simp only [keys, List.map_map]
          apply List.map_congr_left
          intro r _; simp only [Function.comp]; split <;> simp [failRow]
        rw [this]
        exact g.rowsNodup.sublist (List.filter_sublist.map _)
      · intro _ x
        simp only [okeys, List.map_nil, List.not_mem_nil, false_iff]
        rintro ⟨r', hm, _, hs⟩
        obtain ⟨r, _, rfl⟩ := List.mem_map.mp hm
        by_cases hp : r.status = .pending
        · simp [hp, failRow] at hs
        · simp only [hp, if_false] at hs
    · exact g

end KrakenModel.Retry

namespace KrakenModel.Retry

/-! ### rows only leave the table through a successful execution (or the start-up purge) -/

theorem enqueue_keys (s : State) (k : Key) (p : Pool) : keys (enqueue s k p).1.rows = keys s.rows := by
  unfold enqueue
  split
  · rfl
  · split <;> simp

theorem step_keys_lost (s : State) (o : Op) (k : Key) (hk : k ∈ keys s.rows)
    (hl : k ∉ keys (step s o).rows) :
    (o = .finish k true ∧ ∃ p, placeOf s.own k = some (.running p)) ∨
    (∃ inv, o = .start inv ∧ k ∈ inv ∧ s.mode = .down) := by
  unfold step at hl
  cases o with
  | addBegin k' d pl =>
    simp only [stepO] at hl
    split at hl
    · split at hl
      · exact absurd hk hl
      · split at hl <;> simp [hk] at hl
    · exact absurd hk hl
  | addEnq k' =>
    simp only [stepO] at hl
    split at hl
    · rw [enqueue_keys] at hl; exact absurd hk hl
    · exact absurd hk hl
  | pollFetch => simp only [stepO] at hl; split at hl <;> exact absurd hk hl
  | pollMark =>
    simp only [stepO] at hl
    split at hl
    · exact absurd hk hl
    · split at hl
      · exact absurd hk hl
      · split at hl
        · split at hl
          · simp [hk] at hl
          · exact absurd hk hl
        · exact absurd hk hl
  | pollEnq =>
    simp only [stepO] at hl
    split at hl
    · exact absurd hk hl
    · rw [enqueue_keys] at hl; exact absurd hk hl
  | take p =>
    simp only [stepO] at hl
    split at hl
    · exact absurd hk hl
    · split at hl <;> exact absurd hk hl
  | finish k' ok =>
    simp only [stepO] at hl
    split at hl
    · rename_i p hp
      split at hl
      · rename_i hok
        have : k = k' := by
          by_cases hne : k = k'
          · exact hne
          · exact absurd ((mem_keys_remove _ _ _).mpr ⟨hne, hk⟩) hl
        subst this; subst hok
        exact Or.inl ⟨rfl, p, hp⟩
      · split at hl
        · simp [hk] at hl
        · exact absurd hk hl
    · exact absurd hk hl
  | advance dt => simp only [stepO] at hl; exact absurd hk hl
  | close => simp only [stepO] at hl; split at hl <;> exact absurd hk hl
  | crash => simp only [stepO] at hl; split at hl <;> exact absurd hk hl
  | start inv =>
    simp only [stepO] at hl
    split at hl
    · rename_i hd
      right
      refine ⟨inv, rfl, ?_, hd⟩
      by_cases hni : k ∈ inv
      · exact hni
      exfalso
      apply hl
      obtain ⟨r, hr, rfl⟩ := List.mem_map.mp hk
      refine List.mem_map.mpr ⟨if r.status = .pending then failRow s.now r else r, ?_, ?_⟩
      · exact List.mem_map.mpr ⟨r, by simp [hr, hni], rfl⟩
      · split <;> simp [failRow]
    · exact absurd hk hl

/-! ### no store call ever misses its row in a good state -/

theorem out_ne_notFound (s : State) (o : Op) (g : Good s) : out s o ≠ .errNotFound := by
  unfold out
  cases o with
  | addBegin k d pl =>
    simp only [stepO]
    split
    · split
      · simp
      · split <;> simp
    · simp
  | addEnq k =>
    simp only [stepO]
    split
    · rename_i h; exact enqueue_ne_notFound g (placeOf_some_mem h) _
    · simp
  | pollFetch => simp only [stepO]; split <;> simp
  | pollMark =>
    simp only [stepO]
    split
    · simp
    · rename_i r rest htodo
      split
      · simp
      · split
        · split
          · simp
          · rename_i hh
            have hr : r ∈ s.todo := by rw [htodo]; simp
            exact absurd ((hasKey_iff _ _).mpr (List.mem_map.mpr ⟨r, (g.todoFailed r hr).1, rfl⟩)) hh
        · simp
  | pollEnq =>
    simp only [stepO]
    split
    · simp
    · rename_i k rest h; exact enqueue_ne_notFound g (withTag_head_mem h) _
  | take p =>
    simp only [stepO]
    split
    · simp
    · split <;> simp
  | finish k ok =>
    simp only [stepO]
    split
    · rename_i p h
      split
      · simp
      · split
        · simp
        · rename_i hh; exact absurd (g.owned_hasKey (placeOf_some_mem h)) hh
    · simp
  | advance dt => simp [stepO]
  | close => simp only [stepO]; split <;> simp
  | crash => simp only [stepO]; split <;> simp
  | start inv => simp only [stepO]; split <;> simp

/-! ### channel and worker-pool bounds -/

theorem withTag_dropKey_length_le (own : List (Key × Place)) (k : Key) (p : Place) :
    (withTag (dropKey own k) p).length ≤ (withTag own p).length := by
  simp only [withTag, dropKey]
  exact ((List.filter_sublist (l := own)).filter _ |>.map _).length_le

theorem withTag_place (own : List (Key × Place)) (k : Key) (p q : Place) :
    withTag (place own k p) q = withTag (dropKey own k) q ++ (if p = q then [k] else []) := by
  simp only [withTag, place, dropKey, List.filter_append, List.map_append]
  congr 1
  by_cases h : p = q <;> simp [h]

def Bounded (s : State) : Prop :=
  ∀ p : Pool, (queue s.own p).length ≤ cap s.cfg p ∧ (running s.own p).length ≤ workers s.cfg p

theorem bounded_dropKey {s : State} (b : Bounded s) (k : Key) (s' : State)
    (hc : s'.cfg = s.cfg) (ho : s'.own = dropKey s.own k) : Bounded s' := by
  intro p
  rw [hc, ho]
  exact ⟨Nat.le_trans (withTag_dropKey_length_le _ _ _) (b p).1,
         Nat.le_trans (withTag_dropKey_length_le _ _ _) (b p).2⟩

theorem bounded_place_other {s : State} (b : Bounded s) (k : Key) (pl : Place)
    (hpl : (∀ p, pl ≠ .queued p) ∧ (∀ p, pl ≠ .running p)) (s' : State)
    (hc : s'.cfg = s.cfg) (ho : s'.own = place s.own k pl) : Bounded s' := by
  intro p
  rw [hc, ho]
  simp only [queue, running, withTag_place, hpl.1 p, hpl.2 p, if_false, List.append_nil]
  exact ⟨Nat.le_trans (withTag_dropKey_length_le _ _ _) (b p).1,
         Nat.le_trans (withTag_dropKey_length_le _ _ _) (b p).2⟩

theorem bounded_enqueue {s : State} (b : Bounded s) (k : Key) (p : Pool) : Bounded (enqueue s k p).1 := by
  unfold enqueue
  split
  · rename_i hlt
    intro q
    simp only [queue, running, withTag_place]
    constructor
    · by_cases hq : p = q
      · subst hq
        simp only [if_true, List.length_append, List.length_singleton]
        have := withTag_dropKey_length_le s.own k (.queued p)
        simp only [queue] at hlt; omega
      · have : (Place.queued p = Place.queued q) = False := by simp [hq]
        simp only [this, if_false, List.append_nil]
        exact Nat.le_trans (withTag_dropKey_length_le _ _ _) (b q).1
    · simp only [reduceCtorEq, if_false, List.append_nil]
      exact Nat.le_trans (withTag_dropKey_length_le _ _ _) (b q).2
  · split
    · exact bounded_dropKey b k _ rfl rfl
    · exact bounded_dropKey b k _ rfl rfl

theorem step_bounded (s : State) (o : Op) (b : Bounded s) : Bounded (step s o) := by
  unfold step
  cases o with
  | addBegin k d pl =>
    simp only [stepO]
    split
    · split
      · exact b
      · split
        · exact bounded_place_other b k .adding ⟨by simp, by simp⟩ _ rfl rfl
        · exact b
    · exact b
  | addEnq k =>
    simp only [stepO]
    split
    · exact bounded_enqueue b _ _
    · exact b
  | pollFetch => simp only [stepO]; split <;> exact b
  | pollMark =>
    simp only [stepO]
    split
    · exact b
    · split
      · exact b
      · split
        · split
          · exact bounded_place_other b _ .retrying ⟨by simp, by simp⟩ _ rfl rfl
          · exact b
        · exact b
  | pollEnq =>
    simp only [stepO]
    split
    · exact b
    · exact bounded_enqueue b _ _
  | take p =>
    simp only [stepO]
    split
    · exact b
    · rename_i k rest hq
      split
      · rename_i hlt
        intro q
        simp only [queue, running, withTag_place, reduceCtorEq, if_false, List.append_nil]
        constructor
        · exact Nat.le_trans (withTag_dropKey_length_le _ _ _) (b q).1
        · by_cases hq : p = q
          · subst hq
            simp only [if_true, List.length_append, List.length_singleton]
            have := withTag_dropKey_length_le s.own k (.running p)
            simp only [running] at hlt; omega
          · have : (Place.running p = Place.running q) = False := by simp [hq]
            simp only [this, if_false, List.append_nil]
            exact Nat.le_trans (withTag_dropKey_length_le _ _ _) (b q).2
      · exact b
  | finish k ok =>
    simp only [stepO]
    split
    · split
      · exact bounded_dropKey b k _ rfl rfl
      · split <;> exact bounded_dropKey b k _ rfl rfl
    · exact b
  | advance dt => simp only [stepO]; exact b
  | close => simp only [stepO]; split <;> exact b
  | crash =>
    simp only [stepO]
    split
    · exact b
    · intro p; simp [queue, running, withTag]
  | start inv =>
    simp only [stepO]
    split
    · intro p; simp [queue, running, withTag]
    · exact b

end KrakenModel.Retry

namespace KrakenModel.Retry

/-! ### the task's payload columns are never rewritten -/

theorem payloadOf_map (rows : List Row) (f : Row → Row) (hk : ∀ r, (f r).key = r.key)
    (hp : ∀ r, (f r).payload = r.payload) (k : Key) : payloadOf (rows.map f) k = payloadOf rows k := by
  unfold payloadOf
  induction rows with
  | nil => rfl
  | cons a as ih =>
    by_cases h : a.key = k
    · simp [List.find?_cons, hk, h, hp]
    · simp only [List.map_cons, List.find?_cons, hk, h, decide_false]
      exact ih

theorem payloadOf_filter (rows : List Row) (q : Row → Bool) (k : Key)
    (hq : ∀ r ∈ rows, r.key = k → q r = true) : payloadOf (rows.filter q) k = payloadOf rows k := by
  unfold payloadOf
  induction rows with
  | nil => rfl
  | cons a as ih =>
    have ih' := ih (fun r hr => hq r (List.mem_cons_of_mem _ hr))
    by_cases h : a.key = k
    · have := hq a (by simp) h
      simp [List.filter_cons, this, List.find?_cons, h]
    · by_cases hqa : q a = true
      · simp only [List.filter_cons, hqa, if_true, List.find?_cons, h, decide_false]; exact ih'
      · simp only [List.filter_cons, hqa, Bool.false_eq_true, if_false, List.find?_cons, h, decide_false]; exact ih'

theorem payloadOf_append_old (rows : List Row) (r : Row) (k : Key) (pl : List Nat)
    (h : payloadOf rows k = some pl) : payloadOf (rows ++ [r]) k = some pl := by
  unfold payloadOf at h ⊢
  rw [List.find?_append]
  cases hf : rows.find? (fun r => decide (r.key = k)) with
  | none => simp [hf] at h
  | some x => simpa [hf] using h

theorem payloadOf_markFailed (rows : List Row) (x k : Key) (now : Nat) :
    payloadOf (markFailed rows x now) k = payloadOf rows k :=
  payloadOf_map rows _ (fun r => by split <;> simp [failRow]) (fun r => by split <;> simp [failRow]) k

theorem payloadOf_markPending (rows : List Row) (x k : Key) :
    payloadOf (markPending rows x) k = payloadOf rows k :=
  payloadOf_map rows _ (fun r => by split <;> simp) (fun r => by split <;> simp) k

theorem enqueue_payload (s : State) (x : Key) (p : Pool) (k : Key) :
    payloadOf (enqueue s x p).1.rows k = payloadOf s.rows k := by
  unfold enqueue
  split
  · rfl
  · split
    · exact payloadOf_markFailed _ _ _ _
    · rfl

/-- a stored task keeps its payload through every step that keeps it stored (status updates, poll
passes, overflows, executor failures, crashes and restarts rewrite status / failures / last_attempt
only) -/
theorem payload_stable (s : State) (o : Op) (k : Key) (pl : List Nat) (h : payloadOf s.rows k = some pl)
    (hst : k ∈ keys (step s o).rows) : payloadOf (step s o).rows k = some pl := by
  unfold step at hst ⊢
  cases o with
  | addBegin x d p =>
    simp only [stepO] at hst ⊢
    split
    · split
      · exact h
      · split <;> exact payloadOf_append_old _ _ _ _ h
    · exact h
  | addEnq x =>
    simp only [stepO]
    split
    · rw [enqueue_payload]; exact h
    · exact h
  | pollFetch => simp only [stepO]; split <;> exact h
  | pollMark =>
    simp only [stepO]
    split
    · exact h
    · split
      · exact h
      · split
        · split
          · show payloadOf (markPending _ _) k = _
            rw [payloadOf_markPending]; exact h
          · exact h
        · exact h
  | pollEnq =>
    simp only [stepO]
    split
    · exact h
    · rw [enqueue_payload]; exact h
  | take p =>
    simp only [stepO]
    split
    · exact h
    · split <;> exact h
  | finish x ok =>
    simp only [stepO] at hst ⊢
    split
    · split
      · -- removed x: k is still stored, so k ≠ x
        rename_i hp hok
        simp only [hp, hok, if_true] at hst
        have hkx : k ≠ x := ((mem_keys_remove _ _ _).mp hst).1
        show payloadOf (remove s.rows x) k = _
        unfold remove
        rw [payloadOf_filter]
        · exact h
        · intro r _ hr; simp [hr, hkx]
      · split
        · show payloadOf (markFailed _ _ _) k = _
          rw [payloadOf_markFailed]; exact h
        · exact h
    · exact h
  | advance dt => simp only [stepO]; exact h
  | close => simp only [stepO]; split <;> exact h
  | crash => simp only [stepO]; split <;> exact h
  | start inv =>
    simp only [stepO] at hst ⊢
    split
    · rename_i hd
      simp only [hd] at hst
      have hni : k ∉ inv := by
        obtain ⟨r', hr', hk'⟩ := List.mem_map.mp hst
        obtain ⟨r, hr, rfl⟩ := List.mem_map.mp hr'
        have hkk : r.key = k := by
          by_cases hp : r.status = .pending <;> simp [hp, failRow] at hk' <;> exact hk'
        have := (List.mem_filter.mp hr).2
        simp only [decide_eq_true_eq] at this
        exact hkk ▸ this
      show payloadOf (List.map _ (List.filter _ s.rows)) k = _
      rw [payloadOf_map _ _ (fun r => by split <;> simp [failRow]) (fun r => by split <;> simp [failRow])]
      rw [payloadOf_filter]
      · exact h
      · intro r _ hr; simp [hr, hni]
    · exact h

/-- a newly accepted task is stored with exactly the payload it was added with -/
theorem add_sets_payload (s : State) (k : Key) (d : Nat) (pl : List Nat) (hup : s.mode = .up)
    (hn : k ∉ keys s.rows) : payloadOf (step s (.addBegin k d pl)).rows k = some pl := by
  have hh : hasKey s.rows k = false := (hasKey_false_iff _ _).mpr hn
  have hf : s.rows.find? (fun r => decide (r.key = k)) = none := by
    apply List.find?_eq_none.mpr
    intro r hr; simp only [decide_eq_true_eq]
    intro he; exact hn (List.mem_map.mpr ⟨r, hr, he⟩)
  simp only [step, stepO, hup, hh]
  by_cases hd : d = 0 <;> simp [hd, payloadOf, List.find?_append, hf, newRow]

end KrakenModel.Retry
