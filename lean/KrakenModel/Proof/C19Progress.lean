import KrakenModel.Proof.C19Safety
import KrakenModel.Proof.C19Solo
/-
  C19 helper lemmas (progress, possibility form): from a swarm state in which agent `a` misses piece
  `i` and an honest present peer `b` that holds the piece is connected to `a` (or connectable) with a
  free pipeline slot (or the request is already outstanding), there is a finite sequence of enabled
  swarm actions after which `a` has piece `i` complete and has lost none of its complete pieces.
-/
namespace KrakenModel.Proof.C19
open KrakenModel KrakenModel.AgentTorrent KrakenModel.Swarm KrakenModel.Proof.C03

variable {crc : Bytes → Nat} {pl : Nat} {blob : Bytes}

theorem soloRun_other (tid k a : Nat) (hne : tid ≠ a) :
    ∀ (m : Nat) (s : State), (soloRun crc tid k m s).threads[a]? = s.threads[a]? := by
  intro m
  induction m with
  | zero => intro s; rfl
  | succ m ih => intro s; simp only [soloRun]; rw [ih, stepThread_other tid k a hne]

/-- running the writer that holds piece `i` to its end releases the piece: it is complete or empty -/
theorem owner_releases (hpl : 0 < pl) {s : State} (hg : Good crc pl blob s) (hr : RTAll pl blob s)
    (tid : Nat) (t : Thread) (ht : s.threads[tid]? = some t) (hh : holds t.pc = true) (k : Nat) (hk : pl ≤ k) :
    let s2 := soloRun crc tid k 20 s
    Good crc pl blob s2 ∧ RTAll pl blob s2 ∧ s2.pieces[t.idx]? ≠ some PStatus.dirty ∧
    (∀ (j : Nat), s.pieces[j]? = some PStatus.complete → s2.pieces[j]? = some PStatus.complete) := by
  intro s2
  have hv := ((hg.thr tid t ht).owns hh).1
  have hlen : t.payload.length ≤ k := by
    rw [hv.2.1]; exact Nat.le_trans (piece_in_blob pl blob hpl t.idx hv.1).2 hk
  have hq : Solo t.idx s t := by
    cases hpc : t.pc <;> simp [holds, hpc] at hh <;> simp [Solo, hpc]
  have hrk : rank t ≤ 20 := by
    cases hpc : t.pc <;> simp [rank, hpc]
    split <;> omega
  obtain ⟨h1, h2, h3, t', h4, h5, _, _, _⟩ :=
    soloRun_spec (crc := crc) (pl := pl) (blob := blob) hpl t.idx tid k 20 s t hg hr ht hq hlen hrk
  refine ⟨h1, h2, ?_, h3⟩
  intro hd
  obtain ⟨c, u, hu, huh, hui⟩ := h1.owned t.idx hd
  have hc : tid ≠ c := by
    intro h; subst h
    rw [h4] at hu; cases hu
    rw [h5] at huh; simp [holds] at huh
  have hu' : s.threads[c]? = some u := by rw [← soloRun_other tid k c hc 20 s]; exact hu
  exact hg.excl c tid u t hu' ht (Ne.symm hc) huh hh hui

/-! ### swarm level -/

theorem lt_peers {s : Swarm} {a : Nat} {p : Peer} (h : s.peers[a]? = some p) : a < s.peers.length :=
  lt_of_getElem?_some h

theorem setPeer_get_self {s : Swarm} {a : Nat} {p q : Peer} (h : s.peers[a]? = some p) :
    (setPeer s a q).peers[a]? = some q := by
  simp only [setPeer]; exact List.getElem?_set_self (lt_peers h)

theorem setPeer_get_other {s : Swarm} {a b : Nat} {q : Peer} (h : a ≠ b) :
    (setPeer s a q).peers[b]? = s.peers[b]? := by
  simp only [setPeer]; exact List.getElem?_set_ne h

theorem setPeer_setPeer (s : Swarm) (a : Nat) (p q : Peer) : setPeer (setPeer s a p) a q = setPeer s a q := by
  simp [setPeer, List.set_set]

/-- `m` consecutive steps of call `tid` at peer `a` -/
theorem tsteps_run (a tid k : Nat) :
    ∀ (m : Nat) (s : Swarm) (pa : Peer), s.peers[a]? = some pa →
      (List.replicate m (Swarm.Action.tstep a tid k)).foldl (Swarm.step crc) s =
        setPeer s a { pa with tor := soloRun crc tid k m pa.tor } := by
  intro m
  induction m with
  | zero =>
    intro s pa ha
    simp only [List.replicate, List.foldl, soloRun, setPeer]
    have hlt := lt_peers ha
    have hget : s.peers[a] = pa := getElem_of_getElem? ha hlt
    have : s.peers.set a pa = s.peers := by rw [← hget]; exact List.set_getElem_self hlt
    cases s; simp at this ⊢; exact this.symm
  | succ m ih =>
    intro s pa ha
    simp only [List.replicate, List.foldl]
    have hstep : Swarm.step crc s (.tstep a tid k) =
        setPeer s a { pa with tor := AgentTorrent.step crc pa.tor (.step tid k) } := by
      simp only [Swarm.step, ha]
    rw [hstep, ih _ _ (setPeer_get_self ha), setPeer_setPeer]
    rfl

/-- when the fetch of piece `i` from `b` can be started -/
def CanFetch (s : Swarm) (a b i : Nat) (pa pb : Peer) : Prop :=
  (b, i) ∈ pa.reqs ∨
  ((pa.reqs.filter (·.1 = b)).length < s.cfg.pipeline ∧
    (b ∈ pa.conns ∨ (a ∉ pb.conns ∧ pa.conns.length < s.cfg.maxConns ∧ pb.conns.length < s.cfg.maxConns ∧
      b ∉ pa.blacklist)))

/-- the request for piece `i` can be made outstanding without touching any torrent -/
theorem make_request {s : Swarm} {a b i : Nat} {pa pb : Peer} (ha : s.peers[a]? = some pa) (hb : s.peers[b]? = some pb)
    (hab : a ≠ b) (hpa : pa.present = true) (hpb : pb.present = true)
    (hmiss : hasPieceB pa i = false) (hhas : hasPieceB pb i = true) (hf : CanFetch s a b i pa pb) :
    ∃ (acts : List Swarm.Action) (pa1 pb1 : Peer),
      (∀ act ∈ acts, SepSwarmAction crc pl blob act) ∧
      (acts.foldl (Swarm.step crc) s).peers[a]? = some pa1 ∧ (acts.foldl (Swarm.step crc) s).peers[b]? = some pb1 ∧
      pa1.tor = pa.tor ∧ pa1.present = true ∧ (b, i) ∈ pa1.reqs ∧
      pb1.tor = pb.tor ∧ pb1.present = true ∧ pb1.corrupt = pb.corrupt := by
  by_cases hin : (b, i) ∈ pa.reqs
  · exact ⟨[], pa, pb, by simp, ha, hb, rfl, hpa, hin, rfl, hpb, rfl⟩
  · rcases hf with h | ⟨hslot, hconn⟩
    · exact absurd h hin
    · -- a request from a state in which a is connected to b
      have req : ∀ (s1 : Swarm) (pa1 pb1 : Peer), s1.cfg = s.cfg → s1.peers[a]? = some pa1 → s1.peers[b]? = some pb1 →
          pa1.tor = pa.tor → pa1.reqs = pa.reqs → pa1.present = true → b ∈ pa1.conns → pb1.tor = pb.tor →
          ∃ pa2, (Swarm.step crc s1 (.request a b i)).peers[a]? = some pa2 ∧
            (Swarm.step crc s1 (.request a b i)).peers[b]? = some pb1 ∧
            pa2.tor = pa.tor ∧ pa2.present = true ∧ (b, i) ∈ pa2.reqs := by
        intro s1 pa1 pb1 hcfg ha1 hb1 htor hreqs hp1 hc1 htb
        have hcond : pa1.present = true ∧ b ∈ pa1.conns ∧ ¬ hasPieceB pa1 i = true ∧ (hasPieceB pb1 i = true ∨ pb1.corrupt = true) ∧
            (pa1.reqs.filter (·.1 = b)).length < s1.cfg.pipeline ∧ (b, i) ∉ pa1.reqs := by
          refine ⟨hp1, hc1, ?_, Or.inl ?_, ?_, ?_⟩
          · simp only [hasPieceB, htor] at hmiss ⊢; rw [hmiss]; simp
          · simp only [hasPieceB, htb] at hhas ⊢; exact hhas
          · rw [hreqs, hcfg]; exact hslot
          · rw [hreqs]; exact hin
        simp only [Swarm.step, ha1, hb1]
        rw [if_pos hcond]
        refine ⟨_, setPeer_get_self ha1, ?_, htor, hp1, List.mem_cons_self ..⟩
        rw [setPeer_get_other hab]; exact hb1
      rcases hconn with hc | ⟨hnb, hla, hlb, hbl1⟩
      · obtain ⟨pa2, h1, h2, h3, h4, h5⟩ := req s pa pb rfl ha hb rfl rfl hpa hc rfl
        exact ⟨[.request a b i], pa2, pb, by simp [SepSwarmAction], h1, h2, h3, h4, h5, rfl, hpb, rfl⟩
      · by_cases hc : b ∈ pa.conns
        · obtain ⟨pa2, h1, h2, h3, h4, h5⟩ := req s pa pb rfl ha hb rfl rfl hpa hc rfl
          exact ⟨[.request a b i], pa2, pb, by simp [SepSwarmAction], h1, h2, h3, h4, h5, rfl, hpb, rfl⟩
        · -- connect first
          have hcond : a ≠ b ∧ pa.present = true ∧ pb.present = true ∧ b ∉ pa.conns ∧ a ∉ pb.conns ∧
              pa.conns.length < s.cfg.maxConns ∧ pb.conns.length < s.cfg.maxConns ∧
              b ∉ pa.blacklist :=
            ⟨hab, hpa, hpb, hc, hnb, hla, hlb, hbl1⟩
          have hs1 : Swarm.step crc s (.connect a b) =
              setPeer (setPeer s a { pa with conns := b :: pa.conns }) b { pb with conns := a :: pb.conns } := by
            simp only [Swarm.step, ha, hb]
            rw [if_pos hcond]
          have hb' : (setPeer s a { pa with conns := b :: pa.conns }).peers[b]? = some pb := by
            rw [setPeer_get_other hab]; exact hb
          have ha1 : (Swarm.step crc s (.connect a b)).peers[a]? = some { pa with conns := b :: pa.conns } := by
            rw [hs1, setPeer_get_other (Ne.symm hab)]; exact setPeer_get_self ha
          have hb1 : (Swarm.step crc s (.connect a b)).peers[b]? = some { pb with conns := a :: pb.conns } := by
            rw [hs1]; exact setPeer_get_self hb'
          obtain ⟨pa2, h1, h2, h3, h4, h5⟩ := req (Swarm.step crc s (.connect a b)) _ _ (by rw [hs1]; rfl) ha1 hb1 rfl rfl hpa
            (List.mem_cons_self ..) rfl
          exact ⟨[.connect a b, .request a b i], pa2, _, by simp [SepSwarmAction], h1, h2, h3, h4, h5, rfl, hpb, rfl⟩

theorem filter_length_lt (P P' : Nat → Bool) (hsub : ∀ j, P' j = true → P j = true) (i : Nat)
    (hPi : P i = true) (hP'i : P' i = false) :
    ∀ (l : List Nat), i ∈ l → (l.filter P').length < (l.filter P).length := by
  have hle : ∀ (l : List Nat), (l.filter P').length ≤ (l.filter P).length := by
    intro l
    induction l with
    | nil => simp
    | cons y ys ih =>
      simp only [List.filter_cons]
      cases h1 : P' y
      · cases h2 : P y <;> simp <;> omega
      · rw [hsub y h1]; simp; exact ih
  intro l
  induction l with
  | nil => intro h; simp at h
  | cons x rest ih =>
    intro hmem
    simp only [List.filter_cons]
    by_cases hx : x = i
    · subst hx
      rw [hPi, hP'i]; simp
      have := hle rest; omega
    · have hmem' : i ∈ rest := by
        rcases List.mem_cons.mp hmem with h | h
        · exact absurd h.symm hx
        · exact h
      have := ih hmem'
      cases h1 : P' x
      · cases h2 : P x <;> simp <;> omega
      · rw [hsub x h1]; simp; exact this

/-- fewer missing pieces: a piece became complete and none was lost -/
theorem missing_decreases {t t' : State} (hlen : t'.pieces.length = t.pieces.length) (i : Nat)
    (hi : i < t.pieces.length) (hmiss : t.pieces[i]? ≠ some PStatus.complete)
    (hnew : t'.pieces[i]? = some PStatus.complete)
    (hmono : ∀ (j : Nat), t.pieces[j]? = some PStatus.complete → t'.pieces[j]? = some PStatus.complete) :
    (missing t').length < (missing t).length := by
  unfold missing
  rw [hlen]
  apply filter_length_lt _ _ _ i
  · simp [hmiss]
  · simp [hnew]
  · exact List.mem_range.mpr hi
  · intro j hj
    simp only [decide_eq_true_eq] at hj ⊢
    intro h; exact hj (hmono j h)


theorem swarmOK_foldl (hpl : 0 < pl) :
    ∀ (acts : List Swarm.Action) (s : Swarm), SwarmOK crc pl blob s →
      (∀ act ∈ acts, SepSwarmAction crc pl blob act) → SwarmOK crc pl blob (acts.foldl (Swarm.step crc) s) := by
  intro acts
  induction acts with
  | nil => intro s hs _; exact hs
  | cons a rest ih =>
    intro s hs hsep
    exact ih _ (swarm_step_ok hpl hs a (hsep a (List.mem_cons_self ..)))
      (fun b hb => hsep b (List.mem_cons_of_mem _ hb))

theorem readPiece_of_complete {t : State} (i : Nat) (hc : t.pieces[i]? = some PStatus.complete) :
    ∃ x, readPiece t (i : Int) = .bytes x := by
  have hlt := lt_of_getElem?_some hc
  unfold readPiece
  rw [if_neg (by omega)]
  simp only [Int.toNat_natCast, hc]
  exact ⟨_, rfl⟩

/-- fetch of a piece that is empty at the receiver -/
theorem fetch_empty (hpl : 0 < pl) {s : Swarm} (hs : SwarmOK crc pl blob s) (a b i : Nat) (pa pb : Peer)
    (ha : s.peers[a]? = some pa) (hb : s.peers[b]? = some pb) (hab : a ≠ b)
    (hpa : pa.present = true) (hpb : pb.present = true) (hhon : pb.corrupt = false)
    (hhas : hasPieceB pb i = true) (hi : i < numPiecesOf pl blob.length)
    (hemp : pa.tor.pieces[i]? = some PStatus.empty) (hf : CanFetch s a b i pa pb) :
    ∃ (acts : List Swarm.Action) (pa' : Peer), (∀ act ∈ acts, SepSwarmAction crc pl blob act) ∧
      (acts.foldl (Swarm.step crc) s).peers[a]? = some pa' ∧
      pa'.tor.pieces[i]? = some PStatus.complete ∧
      (∀ (j : Nat), pa.tor.pieces[j]? = some PStatus.complete → pa'.tor.pieces[j]? = some PStatus.complete) ∧
      pa'.tor.pieces.length = pa.tor.pieces.length := by
  have hmiss : hasPieceB pa i = false := by simp [hasPieceB, hemp]
  obtain ⟨acts1, pa1, pb1, hsep1, ha1, hb1, htor1, hp1, hreq1, htb1, hpb1, hcb1⟩ :=
    make_request (crc := crc) (pl := pl) (blob := blob) ha hb hab hpa hpb hmiss hhas hf
  -- the delivery
  have hcomp : pb1.tor.pieces[i]? = some PStatus.complete := by
    rw [htb1]; simpa [hasPieceB] using hhas
  obtain ⟨x, hx⟩ := readPiece_of_complete i hcomp
  have hgb : Good crc pl blob pb1.tor := by rw [htb1]; exact (hs b pb hb).1
  have hxe : x = pieceOf pl blob i := readPiece_complete hpl hgb i x hx
  have hwire : wirePayload pb1 i [] = some (pieceOf pl blob i) := by
    unfold wirePayload
    rw [hcb1, hhon]
    simp only [Bool.false_eq_true, if_false, hx, hxe]
  let s1 := acts1.foldl (Swarm.step crc) s
  have hdel : Swarm.step crc s1 (.deliver a b i []) =
      setPeer s1 a { pa1 with
        tor := AgentTorrent.step crc pa1.tor (.spawn (i : Int) (pieceOf pl blob i)),
        inflight := pa1.inflight ++ [{ tid := pa1.tor.threads.length, src := b, piece := i }] } := by
    simp only [Swarm.step, s1, ha1, hb1]
    rw [if_pos ⟨hp1, hpb1⟩, hwire]
  -- the call runs alone
  have hrun := tsteps_run (crc := crc) a pa1.tor.threads.length pl 20 (Swarm.step crc s1 (.deliver a b i []))
    _ (by rw [hdel]; exact setPeer_get_self ha1)
  have hga := (hs a pa ha)
  have hsolo := solo_delivery_completes (crc := crc) hpl hga.1 hga.2.1 i hi hemp pl (Nat.le_refl _)
  simp only at hsolo
  obtain ⟨hg2, _, hc2, hm2⟩ := hsolo
  refine ⟨acts1 ++ [.deliver a b i []] ++ List.replicate 20 (.tstep a pa1.tor.threads.length pl),
    { pa1 with
      tor := soloRun crc pa1.tor.threads.length pl 20 (AgentTorrent.step crc pa1.tor (.spawn (i : Int) (pieceOf pl blob i))),
      inflight := pa1.inflight ++ [{ tid := pa1.tor.threads.length, src := b, piece := i }] }, ?_, ?_, ?_, ?_, ?_⟩
  · intro act hact
    rcases List.mem_append.mp hact with h | h
    · rcases List.mem_append.mp h with h | h
      · exact hsep1 act h
      · simp at h; subst h
        simp only [SepSwarmAction]
        intro _ hl _
        simp only [Int.toNat_natCast] at hl ⊢
        exact (List.length_eq_zero_iff.mp hl.symm).symm
    · have := List.eq_of_mem_replicate h; subst this; trivial
  · rw [List.foldl_append, List.foldl_append]
    simp only [List.foldl]
    rw [hrun, hdel, setPeer_setPeer]
    exact setPeer_get_self ha1
  · simp only; rw [htor1]; exact hc2
  · intro j hj; simp only; rw [htor1]; exact hm2 j hj
  · simp only; rw [htor1, hg2.len_pieces, hga.1.len_pieces]

/-- **Progress, possibility form** (any status of the missing piece at the receiver) -/
theorem fetch_possible (hpl : 0 < pl) {s : Swarm} (hs : SwarmOK crc pl blob s) (a b i : Nat) (pa pb : Peer)
    (ha : s.peers[a]? = some pa) (hb : s.peers[b]? = some pb) (hab : a ≠ b)
    (hpa : pa.present = true) (hpb : pb.present = true) (hhon : pb.corrupt = false)
    (hhas : hasPieceB pb i = true) (hi : i < numPiecesOf pl blob.length)
    (hmiss : pa.tor.pieces[i]? ≠ some PStatus.complete) (hf : CanFetch s a b i pa pb) :
    ∃ (acts : List Swarm.Action) (pa' : Peer), (∀ act ∈ acts, SepSwarmAction crc pl blob act) ∧
      (acts.foldl (Swarm.step crc) s).peers[a]? = some pa' ∧
      pa'.tor.pieces[i]? = some PStatus.complete ∧
      (∀ (j : Nat), pa.tor.pieces[j]? = some PStatus.complete → pa'.tor.pieces[j]? = some PStatus.complete) ∧
      missingCount pa' < missingCount pa := by
  have hga := hs a pa ha
  have hilt : i < pa.tor.pieces.length := by rw [hga.1.len_pieces]; exact hi
  have finish : ∀ (acts : List Swarm.Action) (pa' : Peer), (∀ act ∈ acts, SepSwarmAction crc pl blob act) →
      (acts.foldl (Swarm.step crc) s).peers[a]? = some pa' → pa'.tor.pieces[i]? = some PStatus.complete →
      (∀ (j : Nat), pa.tor.pieces[j]? = some PStatus.complete → pa'.tor.pieces[j]? = some PStatus.complete) →
      pa'.tor.pieces.length = pa.tor.pieces.length →
      ∃ (acts : List Swarm.Action) (pa' : Peer), (∀ act ∈ acts, SepSwarmAction crc pl blob act) ∧
        (acts.foldl (Swarm.step crc) s).peers[a]? = some pa' ∧ pa'.tor.pieces[i]? = some PStatus.complete ∧
        (∀ (j : Nat), pa.tor.pieces[j]? = some PStatus.complete → pa'.tor.pieces[j]? = some PStatus.complete) ∧
        missingCount pa' < missingCount pa :=
    fun acts pa' h1 h2 h3 h4 h5 => ⟨acts, pa', h1, h2, h3, h4, missing_decreases h5 i hilt hmiss h3 h4⟩
  cases hst : pa.tor.pieces[i]? with
  | none => rw [List.getElem?_eq_none_iff] at hst; omega
  | some st =>
    cases st with
    | complete => exact absurd hst hmiss
    | empty =>
      obtain ⟨acts, pa', h1, h2, h3, h4, h5⟩ := fetch_empty hpl hs a b i pa pb ha hb hab hpa hpb hhon hhas hi hst hf
      exact finish acts pa' h1 h2 h3 h4 h5
    | dirty =>
      -- a writer holds the piece: let it finish first
      obtain ⟨tid, t, ht, hh, hidx⟩ := hga.1.owned i hst
      have hrel := owner_releases (crc := crc) hpl hga.1 hga.2.1 tid t ht hh pl (Nat.le_refl _)
      simp only at hrel
      obtain ⟨hg0, _, hnd, hm0⟩ := hrel
      rw [hidx] at hnd
      let acts0 : List Swarm.Action := List.replicate 20 (.tstep a tid pl)
      have hsep0 : ∀ act ∈ acts0, SepSwarmAction crc pl blob act := by
        intro act h; have := List.eq_of_mem_replicate h; subst this; trivial
      have hrun0 := tsteps_run (crc := crc) a tid pl 20 s pa ha
      let pa0 : Peer := { pa with tor := soloRun crc tid pl 20 pa.tor }
      have ha0 : (acts0.foldl (Swarm.step crc) s).peers[a]? = some pa0 := by
        rw [hrun0]; exact setPeer_get_self ha
      have hlen0 : pa0.tor.pieces.length = pa.tor.pieces.length := by
        show (soloRun crc tid pl 20 pa.tor).pieces.length = _
        rw [hg0.len_pieces, hga.1.len_pieces]
      cases hst0 : (soloRun crc tid pl 20 pa.tor).pieces[i]? with
      | none =>
        rw [List.getElem?_eq_none_iff] at hst0
        have : (soloRun crc tid pl 20 pa.tor).pieces.length = pa.tor.pieces.length := hlen0
        omega
      | some st0 =>
        cases st0 with
        | dirty => exact absurd hst0 hnd
        | complete => exact finish acts0 pa0 hsep0 ha0 hst0 hm0 hlen0
        | empty =>
          have hs0 : SwarmOK crc pl blob (acts0.foldl (Swarm.step crc) s) := swarmOK_foldl hpl acts0 s hs hsep0
          have hb0 : (acts0.foldl (Swarm.step crc) s).peers[b]? = some pb := by
            rw [hrun0, setPeer_get_other hab]; exact hb
          have hf0 : CanFetch (acts0.foldl (Swarm.step crc) s) a b i pa0 pb := by
            have hcfg : (acts0.foldl (Swarm.step crc) s).cfg = s.cfg := by rw [hrun0]; rfl
            unfold CanFetch at hf ⊢
            rw [hcfg]; exact hf
          obtain ⟨acts, pa', h1, h2, h3, h4, h5⟩ :=
            fetch_empty hpl hs0 a b i pa0 pb ha0 hb0 hab hpa hpb hhon hhas hi hst0 hf0
          refine finish (acts0 ++ acts) pa' ?_ ?_ h3 (fun j hj => h4 j (hm0 j hj)) (by rw [h5, hlen0])
          · intro act hact
            rcases List.mem_append.mp hact with h | h
            · exact hsep0 act h
            · exact h1 act h
          · rw [List.foldl_append]; exact h2

end KrakenModel.Proof.C19
