import KrakenModel.Proof.C04Phases
/-
  C04 proof library, part 4: what complete plans achieve (compareAndWriteFile, the piece write, the
  commit).
-/
set_option linter.unusedSectionVars false
set_option linter.unusedSimpArgs false
namespace KrakenModel.AgentCrash
open KrakenModel.FS

theorem mkdirs_keep_file (cs : List (Call Name)) (hc : ∀ c ∈ cs, ∃ q, c = Call.mkdir q) (fs : FS Name) (p : Path) (n : Name) :
    (applyAll fs cs).file? p n = fs.file? p n :=
  file?_applyAll_of_not_written cs fs p n (fun c h => by obtain ⟨q, rfl⟩ := hc c h; exact ⟨rfl, by simp [Call.writes]⟩)

theorem mkdirs_keep_dir (cs : List (Call Name)) (hc : ∀ c ∈ cs, ∃ q, c = Call.mkdir q) (fs : FS Name) (p : Path)
    (h : (fs.dir? p).isSome = true) : ((applyAll fs cs).dir? p).isSome = true := by
  induction cs generalizing fs with
  | nil => exact h
  | cons c cs ih =>
    exact ih (fun c' h' => hc c' (List.mem_cons_of_mem _ h')) _
      (dir?_isSome_apply_mono fs c p (hc c (List.mem_cons_self ..)) h)

/-- `compareAndWriteFile` leaves the file with exactly the given contents -/
theorem file?_cawPlan (fs : FS Name) (dir : Path) (n : Name) (b : Bytes) (hne : dir ≠ []) :
    (applyAll fs (cawPlan fs dir n b)).file? dir n = some b := by
  unfold cawPlan
  cases hf : fs.file? dir n with
  | none =>
    simp only
    rw [applyAll_append, applyAll_append]
    have hdir : ((applyAll fs (mkdirAllPlan fs dir)).dir? dir).isSome = true :=
      dir?_isSome_of_isDir hne (isDir_mkdirAllPlan' fs dir)
    have h1 : (applyAll (applyAll fs (mkdirAllPlan fs dir)) [Call.openTrunc dir n]).file? dir n = some [] := by
      simp only [applyAll_cons, applyAll_nil]
      rw [file?_apply_openTrunc, if_pos hdir]
    by_cases hb : b = []
    · subst hb; simpa using h1
    · simp only [hb, if_false, applyAll_cons, applyAll_nil]
      rw [file?_apply_pwrite]
      simp only [applyAll_cons, applyAll_nil] at h1
      rw [h1]; simp [writeAt_zero_cover]
  | some old =>
    simp only
    by_cases he : old = b
    · simp [he, hf]
    · simp only [he, if_false, applyAll_append]
      by_cases hl : old.length = b.length
      · simp only [hl, if_true, applyAll_nil]
        have hb : b ≠ [] := by
          intro e; subst e; exact he (List.length_eq_zero_iff.mp hl)
        simp only [hb, if_false, applyAll_cons, applyAll_nil]
        rw [file?_apply_pwrite, hf]
        simp [writeAt_zero_cover _ _ (Nat.le_of_eq hl)]
      · simp only [hl, if_false, applyAll_cons, applyAll_nil]
        have h1 : (apply fs (Call.truncate dir n b.length)).file? dir n = some (truncTo old b.length) := by
          rw [file?_apply_truncate, hf]; rfl
        by_cases hb : b = []
        · subst hb; simp only [if_true, applyAll_nil]; rw [h1]; simp [truncTo]
        · simp only [hb, if_false, applyAll_cons, applyAll_nil]
          rw [file?_apply_pwrite, h1]
          simp [writeAt_zero_cover _ _ (Nat.le_of_eq (length_truncTo old b.length))]

theorem file?_cawPlan_other (fs fs' : FS Name) (dir : Path) (n : Name) (b : Bytes) (k : Nat) (p : Path) (m : Name)
    (h : (p, m) ≠ (dir, n)) : (applyPrefix k (cawPlan fs dir n b) fs').file? p m = fs'.file? p m :=
  file?_applyPrefix_of_not_written k _ fs' p m (fun c hc => by
    obtain ⟨h1, h2⟩ := cawPlan_writes fs dir n b c hc
    exact ⟨h1, fun hw => h (h2 _ hw)⟩)

theorem file?_cawPlan_other_all (fs fs' : FS Name) (dir : Path) (n : Name) (b : Bytes) (p : Path) (m : Name)
    (h : (p, m) ≠ (dir, n)) : (applyAll fs' (cawPlan fs dir n b)).file? p m = fs'.file? p m := by
  have := file?_cawPlan_other fs fs' dir n b (cawPlan fs dir n b).length p m h
  rwa [applyPrefix_all _ _ _ (Nat.le_refl _)] at this

/-! ### the piece write -/

theorem chunkCalls_chunkOf (cfg : Cfg) (i : Nat) (fuel : Nat) :
    ∀ (off : Nat) (p : Bytes), i * cfg.pl ≤ off → off + p.length ≤ i * cfg.pl + pieceLength cfg i →
    ∀ c ∈ chunkCalls (entryDir cfg false) cfg.wps fuel off p, ChunkOf cfg i c := by
  induction fuel with
  | zero => intro off p _ _ c hc; simp [chunkCalls] at hc
  | succ f ih =>
    intro off p h1 h2 c hc
    simp only [chunkCalls] at hc
    split at hc
    · simp at hc
    · split at hc
      · simp only [List.mem_singleton] at hc; exact ⟨off, p, hc, h1, h2⟩
      · rename_i hw
        simp only [List.mem_cons] at hc
        rcases hc with hc | hc
        · refine ⟨off, p.take cfg.wps, hc, h1, ?_⟩
          simp only [List.length_take]; omega
        · by_cases hle : p.length ≤ cfg.wps
          · rw [List.drop_of_length_le hle] at hc
            cases f <;> simp [chunkCalls] at hc
          · exact ih (off + cfg.wps) (p.drop cfg.wps) (by omega) (by simp only [List.length_drop]; omega) c hc

/-- bytes of the blob file after all parts of a payload have been written -/
theorem chunkCalls_result (dir : Path) (wps : Nat) (fuel : Nat) :
    ∀ (off : Nat) (p : Bytes) (fs : FS Name) (d : Bytes), p.length < fuel → fs.file? dir Name.data = some d →
    ∃ d', (applyAll fs (chunkCalls dir wps fuel off p)).file? dir Name.data = some d' ∧
      (∀ j, off ≤ j → j < off + p.length → d'[j]? = p[j - off]?) ∧
      (∀ j, j < d.length → (j < off ∨ off + p.length ≤ j) → d'[j]? = d[j]?) := by
  induction fuel with
  | zero => intro off p fs d h; omega
  | succ f ih =>
    intro off p fs d hf hd
    simp only [chunkCalls]
    by_cases hp : p = []
    · subst hp; simp only [if_true, applyAll_nil]
      exact ⟨d, hd, fun j h1 h2 => by simp at h2; omega, fun _ _ _ => rfl⟩
    · simp only [hp, if_false]
      by_cases hw : wps = 0
      · simp only [hw, if_true, applyAll_cons, applyAll_nil]
        refine ⟨writeAt d off p, by rw [file?_apply_pwrite, hd]; rfl, fun j h1 h2 => getElem?_writeAt_in d off p j h1 h2,
          fun j h1 h2 => getElem?_writeAt_out d off p j h1 h2⟩
      · simp only [hw, if_false, applyAll_cons]
        have h1 : (apply fs (Call.pwrite dir Name.data off (p.take wps))).file? dir Name.data =
            some (writeAt d off (p.take wps)) := by rw [file?_apply_pwrite, hd]; rfl
        have hplen : 0 < p.length := List.length_pos_iff.mpr hp
        obtain ⟨d', hd', hin, hout⟩ := ih (off + wps) (p.drop wps) _ _ (by simp only [List.length_drop]; omega) h1
        refine ⟨d', hd', ?_, ?_⟩
        · intro j hj1 hj2
          by_cases hjw : j < off + wps
          · -- written by the first part, untouched by the rest
            have hjl : j < (writeAt d off (p.take wps)).length := by
              rw [length_writeAt]; simp only [List.length_take]; omega
            rw [hout j hjl (Or.inl hjw), getElem?_writeAt_in d off (p.take wps) j hj1 (by simp only [List.length_take]; omega),
              List.getElem?_take_of_lt (by omega)]
          · have := hin j (by omega) (by simp only [List.length_drop]; omega)
            rw [this, List.getElem?_drop]; congr 1; omega
        · intro j hj1 hj2
          have hjl : j < (writeAt d off (p.take wps)).length := by rw [length_writeAt]; omega
          rw [hout j hjl (by simp only [List.length_drop]; omega)]
          exact getElem?_writeAt_out d off (p.take wps) j hj1 (by simp only [List.length_take]; omega)

/-- the right payload makes the piece right -/
theorem pieceOK_of_written (cfg : Cfg) (i : Nat) (d' : Bytes)
    (h : ∀ j, i * cfg.pl ≤ j → j < i * cfg.pl + pieceLength cfg i → d'[j]? = (pieceOf cfg i)[j - i * cfg.pl]?) :
    PieceOK cfg d' i := by
  intro j h1 h2 h3
  have hlt : j < i * cfg.pl + pieceLength cfg i := by
    rw [pieceLength_eq]; rw [Nat.add_mul] at h2; omega
  rw [h j h1 hlt]
  exact getElem?_pieceOf cfg i j h1 h2

end KrakenModel.AgentCrash
