import KrakenModel.Proof.C07
import KrakenModel.Proof.Tiered
/-
  C07, `Clean`: with an iteration order that lists every key once, `Clean` either reaches its target
  size or has removed everything it is allowed to remove.
-/
namespace KrakenModel.BlobStore

/-- the deletion loop over keys that are all present and pairwise different: no error, and at the
    end the target is reached or every listed key is gone; keys outside the list are untouched -/
theorem cleanLoop_spec (target : Nat) : ∀ (ks : List Key) (s : State), ks.Nodup →
    (∀ k ∈ ks, ∃ b, s.blobs.get k = some b) →
    (cleanLoop target ks s).2.1 = none ∧
    ((cleanLoop target ks s).1.size ≤ target ∨ ∀ k ∈ ks, (cleanLoop target ks s).1.blobs.get k = none) := by
  intro ks
  induction ks with
  | nil => intro s _ _; simp [cleanLoop]
  | cons k ks ih =>
    intro s hnd hall
    simp only [cleanLoop]
    split
    · rename_i hle; exact ⟨rfl, .inl hle⟩
    · obtain ⟨b, hb⟩ := hall k (by simp)
      rw [delete_eq hb (inScope_any b)]
      simp only
      have hnd' := (List.nodup_cons.mp hnd)
      have hall' : ∀ k' ∈ ks, ∃ b', (release { s with blobs := s.blobs.del k, queue := s.queue.erase k } b.size).blobs.get k' = some b' := by
        intro k' hk'
        obtain ⟨b', hb'⟩ := hall k' (List.mem_cons_of_mem _ hk')
        have hne : k' ≠ k := fun e => hnd'.1 (e ▸ hk')
        exact ⟨b', by simp only [release]; rw [BMap.get_del_ne _ hne]; exact hb'⟩
      obtain ⟨h1, h2⟩ := ih _ hnd'.2 hall'
      refine ⟨h1, ?_⟩
      rcases h2 with h2 | h2
      · exact .inl h2
      · right
        intro k' hk'
        rcases List.mem_cons.mp hk' with e | e
        · subst e
          rw [cleanLoop_get]
          split
          · rfl
          · simp [release]
        · exact h2 k' e

/-- **`Clean` reaches its target or exhausts what it may delete.** After every history, for a valid
percentage and an iteration order `ord` that lists every key of the map exactly once: `Clean`
reports no error and afterwards either `size ≤ target` — or (only with `respectEvictionBan`) every
blob that is left is banned from eviction. -/
theorem clean_reaches_target {s : State} (hg : Good s) (pct : Int) (hp : ¬ (pct < 0 ∨ pct ≥ 100)) (respect : Bool)
    (ord : List Key) (hnd : ord.Nodup) (hall : ∀ k, (∃ b, s.blobs.get k = some b) → k ∈ ord) :
    let s' := (clean s pct respect ord).1
    let target := (s.cap * pct.toNat % U64) / 100
    (∃ u d, (clean s pct respect ord).2 = .cleaned u none d) ∧
    (s'.size ≤ target ∨ (respect = true ∧ ∀ k b, s'.blobs.get k = some b → b.banned = true)) := by
  intro s' target
  have htle : target ≤ s.cap := by
    show (s.cap * pct.toNat % U64) / 100 ≤ s.cap
    have h1 : s.cap * pct.toNat % U64 ≤ s.cap * pct.toNat := Nat.mod_le _ _
    have h2 : pct.toNat < 100 := by omega
    have h3 : s.cap * pct.toNat ≤ s.cap * 100 := Nat.mul_le_mul_left _ (by omega)
    have : (s.cap * pct.toNat % U64) / 100 ≤ (s.cap * 100) / 100 := Nat.div_le_div_right (by omega)
    simpa using this
  show (∃ u d, (clean s pct respect ord).2 = .cleaned u none d) ∧
    ((clean s pct respect ord).1.size ≤ target ∨ (respect = true ∧ ∀ k b, (clean s pct respect ord).1.blobs.get k = some b → b.banned = true))
  unfold clean
  simp only [hp, if_false]
  generalize hE : ensureFree s (s.cap - s.cap * pct.toNat % U64 / 100) = r1
  have hg1 : Good r1.1 := by rw [← hE]; exact good_ensureFree hg _
  have hnp : r1.2.1 ≠ .panic := by rw [← hE]; exact ensureFree_no_panic hg _
  have hfit : r1.2.1 = .ok → r1.1.size ≤ target := by
    intro h
    have h' : (ensureFree s (s.cap - s.cap * pct.toNat % U64 / 100)).2.1 = .ok := by rw [hE]; exact h
    have hf := evictLoop_ok_fits _ s.queue s h'
    have hf' : fits r1.1 (s.cap - s.cap * pct.toNat % U64 / 100) = true := by rw [← hE]; exact hf
    have := (fits_iff _ _).mp hf'
    have hc : r1.1.cap = s.cap := by rw [← hE]; exact (evictLoop_frame _ s.queue s).1
    rw [hc] at this
    show r1.1.size ≤ (s.cap * pct.toNat % U64) / 100
    omega
  have hsub1 : ∀ k b, r1.1.blobs.get k = some b → s.blobs.get k = some b := by
    intro k b h; rw [← hE] at h; exact ensureFree_get_some h
  obtain ⟨s1, res, ev⟩ := r1
  cases res with
  | ok => exact ⟨⟨_, _, rfl⟩, .inl (hfit rfl)⟩
  | panic => exact absurd rfl hnp
  | noSpace =>
    simp only
    -- the not-banned keys, each once and all present
    have hc2nd : (ord.filter (fun k => (s1.blobs.get k).isSome && !isBanned s1 k)).Nodup := hnd.filter _
    have hc2all : ∀ k ∈ ord.filter (fun k => (s1.blobs.get k).isSome && !isBanned s1 k), ∃ b, s1.blobs.get k = some b := by
      intro k hk
      have := (List.mem_filter.mp hk).2
      simp only [Bool.and_eq_true] at this
      cases h : s1.blobs.get k with
      | none => rw [h] at this; simp at this
      | some b => exact ⟨b, rfl⟩
    obtain ⟨he2, hr2⟩ := cleanLoop_spec target _ s1 hc2nd hc2all
    generalize hL : cleanLoop (s.cap * pct.toNat % U64 / 100) (ord.filter (fun k => (s1.blobs.get k).isSome && !isBanned s1 k)) s1 = r2 at he2 hr2
    have hg2 : Good r2.1 := by rw [← hL]; exact good_cleanLoop _ _ _ hg1
    have hsub2 : ∀ k b, r2.1.blobs.get k = some b → s1.blobs.get k = some b := by
      intro k b h; rw [← hL] at h; exact cleanLoop_get_some h
    obtain ⟨s2, e2, d2⟩ := r2
    simp only at he2; subst he2
    simp only
    cases respect with
    | true =>
      simp only [if_true]
      refine ⟨⟨_, _, rfl⟩, ?_⟩
      rcases hr2 with h | h
      · exact .inl h
      · right
        refine ⟨by first | rfl | trivial, fun k b hb => ?_⟩
        have hb1 := hsub2 k b hb
        cases hbn : b.banned with
        | true => rfl
        | false =>
          -- a not-banned survivor would have been in the list
          have hin : k ∈ ord.filter (fun k => (s1.blobs.get k).isSome && !isBanned s1 k) := by
            refine List.mem_filter.mpr ⟨hall k ⟨b, hsub1 k b hb1⟩, ?_⟩
            simp [hb1, isBanned, hbn]
          have := h k hin
          rw [hb] at this; simp at this
    | false =>
      simp only [Bool.false_eq_true, if_false]
      have hc3nd : (ord.filter (fun k => (s2.blobs.get k).isSome)).Nodup := hnd.filter _
      have hc3all : ∀ k ∈ ord.filter (fun k => (s2.blobs.get k).isSome), ∃ b, s2.blobs.get k = some b := by
        intro k hk
        have := (List.mem_filter.mp hk).2
        cases h : s2.blobs.get k with
        | none => rw [h] at this; simp at this
        | some b => exact ⟨b, rfl⟩
      obtain ⟨he3, hr3⟩ := cleanLoop_spec target _ s2 hc3nd hc3all
      generalize hL3 : cleanLoop (s.cap * pct.toNat % U64 / 100) (ord.filter (fun k => (s2.blobs.get k).isSome)) s2 = r3 at he3 hr3
      have hg3 : Good r3.1 := by rw [← hL3]; exact good_cleanLoop _ _ _ hg2
      have hsub3 : ∀ k b, r3.1.blobs.get k = some b → s2.blobs.get k = some b := by
        intro k b h; rw [← hL3] at h; exact cleanLoop_get_some h
      obtain ⟨s3, e3, d3⟩ := r3
      simp only at he3; subst he3
      refine ⟨⟨_, _, rfl⟩, .inl ?_⟩
      rcases hr3 with h | h
      · exact h
      · -- everything is gone: the reserved size is the empty sum
        have hempty : ∀ k, s3.blobs.get k = none := by
          intro k
          cases hk : s3.blobs.get k with
          | none => rfl
          | some b =>
            have hb2 := hsub3 k b hk
            have hin : k ∈ ord.filter (fun k => (s2.blobs.get k).isSome) :=
              List.mem_filter.mpr ⟨hall k ⟨b, hsub1 k b (hsub2 k b hb2)⟩, by simp [hb2]⟩
            have := h k hin
            rw [hk] at this; simp at this
        have hnil : s3.blobs = [] := by
          cases hbl : s3.blobs with
          | nil => rfl
          | cons x rest =>
            have := hempty x.1
            rw [hbl] at this
            obtain ⟨k0, b0⟩ := x
            rw [BMap.get_cons] at this
            simp at this
        have := hg3.sum
        rw [this, hnil]; simp [BMap.total]

end KrakenModel.BlobStore
